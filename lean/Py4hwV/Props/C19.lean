import Py4hwV.Proofs.C19Walk
import Py4hwV.Emit.Live
/-
  C19 — Verilog generation is a pure, repeatable function of the circuit.

  The model (Emit/Cache.lean) makes the generator's hidden state explicit: the module-level single-entry wire-name cache,
  every generator's `created_structures` (aliased with a caller-supplied list), the heap of list objects.  Universal over:
  designs (any table of objects/wires: any hierarchy depth, arity, widths, names, flags), initial states, generators,
  call sequences (`List Op`: getVerilog / getVerilogForHierarchy with every flag, new generators, caller lists,
  simulation steps, edits of the object graph between requests).

  NOT provable on a pure model (observed by harness/c19.py on the real code instead): that the real generator does not
  write to the live object graph.  In the model the design is immutable during a call by construction.
-/
namespace C19
open Emit

/-- reference text of one module: the generator WITHOUT cache in a brand-new process -/
def modText (d : Design) (o : ObjId) (ni : Bool) (f : Option String) : Except Err Out :=
  (getVerilogI d false o ni f {}).1

/-- reference text of a hierarchy, given the content of the created-structures list at entry -/
def hierText (d : Design) (o : ObjId) (ni : Bool) (f : Option String) (created : List String) : Except Err (List Out) :=
  (hierI d false (fuelOf d) o ni f { created := created }).1

def nameOf (obj : ObjD) (ni : Bool) (f : Option String) : String :=
  match f with | some n => n | none => moduleName obj ni

variable {d : Design}

/-! ## cache_coherent -/

/-- whenever getWireNames answers — from the cache (hit) or not — in a coherent state, the answer is the freshly
    computed map, and the state stays coherent.  Coherent = what the two public entries establish (`coh_clear`) and every
    internal step preserves (`getVerilogI_sim`, `hierI_sim`). -/
theorem cache_hit_fresh (s : S) (o : ObjId) (h : Coh d s.cache) :
    (getWireNames d true (some o) s).1 = computeWireNames d o ∧ Coh d (getWireNames d true (some o) s).2.cache := by
  have k := getWireNames_sim (d := d) true false (some o) s s h h
  refine ⟨?_, k.2.1⟩
  rw [k.1]
  unfold getWireNames
  simp only [Bool.false_and, Bool.false_eq_true, if_false]
  cases computeWireNames d o <;> rfl

/-- a hit really is a hit: the cached object's map is returned without recomputation, state untouched -/
theorem cache_hit_returns_cached (s : S) (o : ObjId) (h : s.cache.obj = some o) :
    getWireNames d true (some o) s = (.ok s.cache.map, s) := by
  unfold getWireNames; simp [h]

/-- cache_coherent: with the cache or with the hit test removed, _getVerilog gives the same text / exception from
    every coherent state; coherence is an invariant of the call -/
theorem cache_coherent (s : S) (o : ObjId) (ni : Bool) (f : Option String) (h : Coh d s.cache) :
    (getVerilogI d true o ni f s).1 = (getVerilogI d false o ni f s).1 ∧ Coh d (getVerilogI d true o ni f s).2.cache := by
  have k := getVerilogI_sim (d := d) true false o ni f s s h h rfl
  exact ⟨k.1, k.2.1⟩

theorem cache_coherent_hier (fuel : Nat) (s : S) (o : ObjId) (ni : Bool) (f : Option String) (h : Coh d s.cache) :
    (hierI d true fuel o ni f s).1 = (hierI d false fuel o ni f s).1 ∧ Coh d (hierI d true fuel o ni f s).2.cache := by
  have k := hierI_sim (d := d) true false fuel o ni f s s h h rfl
  exact ⟨k.1, k.2.1⟩

/-- the hypothesis is needed: from an INCOHERENT cache (stale entry for the requested object) the text is wrong.
    This is why clearWireNamesCache at the two public entries is load-bearing. -/
def exD : Design :=
  { objs := [ { parent := none, cls := "Top", name := "top", ident := 0, children := [1],
                inPorts := [⟨"a", some 0⟩], outPorts := [⟨"r", some 1⟩] },
              { parent := some 0, cls := "Not", name := "n", ident := 1, inPorts := [⟨"a", some 0⟩],
                outPorts := [⟨"r", some 1⟩], propagatable := true, inlinable := true } ],
    wires := [⟨"a", 4, false⟩, ⟨"r", 4, false⟩] }

def staleS : S := { cache := { obj := some 0, map := [(0, "STALE_a"), (1, "STALE_r")] } }

instance : DecidableEq (Except Err Out) := fun a b =>
  match a, b with
  | .ok x, .ok y => if h : x = y then isTrue (by rw [h]) else isFalse (by intro h'; cases h'; exact h rfl)
  | .error e, .error e' => if h : e = e' then isTrue (by rw [h]) else isFalse (by intro h'; cases h'; exact h rfl)
  | .ok _, .error _ => isFalse (by intro h; cases h)
  | .error _, .ok _ => isFalse (by intro h; cases h)

instance : DecidableEq Resp := fun a b =>
  match a, b with
  | .ok x, .ok y => if h : x = y then isTrue (by rw [h]) else isFalse (by intro h'; cases h'; exact h rfl)
  | .error e, .error e' => if h : e = e' then isTrue (by rw [h]) else isFalse (by intro h'; cases h'; exact h rfl)
  | .ok _, .error _ => isFalse (by intro h; cases h)
  | .error _, .ok _ => isFalse (by intro h; cases h)

theorem stale_cache_counterexample :
    (getVerilogI exD true 0 true none staleS).1 ≠ (getVerilogI exD false 0 true none staleS).1 := by decide

/-! ## module text is a function of (design, object, naming arguments) -/

theorem getVerilogI_eq (uc : Bool) (o : ObjId) (ni : Bool) (f : Option String) (s : S) :
    getVerilogI d uc o ni f s =
      match d.obj? o with
      | .error e => (.error e, s)
      | .ok obj => if s.created.contains (nameOf obj ni f) then (.ok .empty, s) else emitModule d uc o obj (nameOf obj ni f) s := by
  unfold getVerilogI
  rw [bind_def]
  simp only [liftE]
  cases d.obj? o with
  | error e => rfl
  | ok obj =>
    simp only
    rw [bind_def]
    simp only [isCreated, nameOf]
    cases f with
    | none =>
      simp only []
      by_cases hb : s.created.contains (moduleName obj ni) = true
      · simp only [hb, if_true]; rfl
      · simp only [hb]; rfl
    | some n =>
      simp only []
      by_cases hb : s.created.contains n = true
      · simp only [hb, if_true]; rfl
      · simp only [hb]; rfl

/-- module_text_state_free: from ANY coherent state (any history of earlier requests, any generator), with or without
    cache, _getVerilog returns '' when the structure name is already in the list and otherwise exactly the reference text -/
theorem getVerilogI_created (uc : Bool) (o : ObjId) (obj : ObjD) (ni : Bool) (f : Option String) (s : S)
    (ho : d.obj? o = .ok obj) (h : Coh d s.cache) :
    (getVerilogI d uc o ni f s).1 =
      if s.created.contains (nameOf obj ni f) then .ok .empty else modText d o ni f := by
  unfold modText
  rw [getVerilogI_eq, getVerilogI_eq, ho]
  simp only
  split
  · rfl
  · have : ((({} : S).created).contains (nameOf obj ni f)) = false := rfl
    simp only [this, Bool.false_eq_true, if_false]
    exact (emitModule_sim (d := d) uc false o obj (nameOf obj ni f) s {} h (coh_clear d)).1

theorem module_text_state_free (uc₁ uc₂ : Bool) (o : ObjId) (obj : ObjD) (ni : Bool) (f : Option String) (s₁ s₂ : S)
    (ho : d.obj? o = .ok obj) (h₁ : Coh d s₁.cache) (h₂ : Coh d s₂.cache)
    (hc : s₁.created.contains (nameOf obj ni f) = s₂.created.contains (nameOf obj ni f)) :
    (getVerilogI d uc₁ o ni f s₁).1 = (getVerilogI d uc₂ o ni f s₂).1 := by
  rw [getVerilogI_created uc₁ o obj ni f s₁ ho h₁, getVerilogI_created uc₂ o obj ni f s₂ ho h₂, hc]

/-! ## the two public entries -/

def wrap (r : Except Err Out) : Resp := r.map fun o => if o = .empty then [] else [o]

/-- getVerilog: the answer is the reference text of the requested object — no dependence on the world's cache, heap,
    on the generator's list, on which generator (only its default object when none is given) -/
theorem public_getVerilog_spec (w : World) (g : Nat) (gen : Gen) (obj : Option ObjId) (ni : Bool) (f : Option String)
    (hg : w.gens[g]? = some gen) :
    (getVerilogPub w g obj ni f).2 = wrap (modText w.d (obj.getD gen.obj) ni f) := by
  unfold getVerilogPub
  rw [hg]
  simp only [wrap, modText]
  rw [(cache_coherent (d := w.d) {} (obj.getD gen.obj) ni f (coh_clear _)).1]

/-- getVerilogForHierarchy: a function of the design, the requested object, the flags and the CONTENT of the list at
    entry ([] when none is supplied) -/
theorem public_getHier_spec (w : World) (g : Nat) (gen : Gen) (obj : Option ObjId) (ni : Bool) (f : Option String)
    (hg : w.gens[g]? = some gen) :
    (getHierPub w g obj ni f none).2 = hierText w.d (obj.getD gen.obj) ni f [] := by
  unfold getHierPub
  rw [hg]
  simp only [List.getElem?_append_right (Nat.le_refl _), Nat.sub_self, List.getElem?_cons_zero, hierText]
  exact (cache_coherent_hier (d := w.d) (fuelOf w.d) { created := [] } (obj.getD gen.obj) ni f (coh_clear _)).1

theorem hier_with_list_depends_only_on_content (w : World) (g : Nat) (gen : Gen) (obj : Option ObjId) (ni : Bool)
    (f : Option String) (ref : Nat) (l : List String) (hg : w.gens[g]? = some gen) (hl : w.heap[ref]? = some l) :
    (getHierPub w g obj ni f (some ref)).2 = hierText w.d (obj.getD gen.obj) ni f l := by
  unfold getHierPub
  rw [hg]
  simp only [hl, hierText]
  exact (cache_coherent_hier (d := w.d) (fuelOf w.d) { created := l } (obj.getD gen.obj) ni f (coh_clear _)).1

/-- …and the content matters: a list object shared between two requests (e.g. a mutable default argument) makes the
    second answer empty.  `build(projectDir, createdStructures=[])` of py4hw/external/platforms does exactly this. -/
def exOps : List Op := [.newGen 0, .newList [], .getHier 0 none true none (some 1), .getHier 0 none true none (some 1)]

theorem shared_list_second_call_differs :
    (run { d := exD } exOps).2.getD 3 (.error .fuel) = .ok [] ∧
    (run { d := exD } exOps).2.getD 2 (.error .fuel) ≠ .ok [] := by decide

/-! ## gen_state_indep: sequences of public calls -/

/-- what an op sequence can depend on: the design and each generator's default object -/
structure Vis where
  d : Design
  objs : List ObjId

def vis (w : World) : Vis := { d := w.d, objs := w.gens.map (·.obj) }

def noList : Op → Bool
  | .getHier _ _ _ _ (some _) => false
  | _ => true

/-- the pure specification of one op -/
def specStep (v : Vis) : Op → Vis × Resp
  | .newGen o => ({ v with objs := v.objs ++ [o] }, .ok [])
  | .newList _ => (v, .ok [])
  | .getVerilog g obj ni f => (v, match v.objs[g]? with
      | none => .error .badRef
      | some go => wrap (modText v.d (obj.getD go) ni f))
  | .getHier g obj ni f _ => (v, match v.objs[g]? with
      | none => .error .badRef
      | some go => hierText v.d (obj.getD go) ni f [])
  | .edit d' => ({ v with d := d' }, .ok [])
  | .sim => (v, .ok [])

def specRun : Vis → List Op → List Resp
  | _, [] => []
  | v, op :: ops => (specStep v op).2 :: specRun (specStep v op).1 ops

theorem gens_map_set (gens : List Gen) (g : Nat) (gen : Gen) (r : Nat) (h : gens[g]? = some gen) :
    (gens.set g { gen with created := r }).map (·.obj) = gens.map (·.obj) := by
  induction gens generalizing g with
  | nil => rfl
  | cons a t ih =>
    cases g with
    | zero => simp at h; subst h; rfl
    | succ n => simp at h; simp [List.set, ih n h]

theorem step_spec (w : World) (op : Op) (hn : noList op = true) :
    (step w op).2 = (specStep (vis w) op).2 ∧ vis (step w op).1 = (specStep (vis w) op).1 := by
  cases op with
  | newGen o => exact ⟨rfl, by simp [step, vis, specStep]⟩
  | newList l => exact ⟨rfl, rfl⟩
  | edit d' => exact ⟨rfl, rfl⟩
  | sim => exact ⟨rfl, rfl⟩
  | getVerilog g obj ni f =>
    simp only [step, specStep]
    cases hg : w.gens[g]? with
    | none =>
      have : (vis w).objs[g]? = none := by simp [vis, hg]
      simp only [this]
      unfold getVerilogPub; rw [hg]; exact ⟨rfl, rfl⟩
    | some gen =>
      have : (vis w).objs[g]? = some gen.obj := by simp [vis, hg]
      simp only [this]
      refine ⟨public_getVerilog_spec w g gen obj ni f hg, ?_⟩
      unfold getVerilogPub; rw [hg]
      simp only [vis, gens_map_set _ _ _ _ hg]
  | getHier g obj ni f l =>
    cases l with
    | some r => simp [noList] at hn
    | none =>
      simp only [step, specStep]
      cases hg : w.gens[g]? with
      | none =>
        have : (vis w).objs[g]? = none := by simp [vis, hg]
        simp only [this]
        unfold getHierPub; rw [hg]; exact ⟨rfl, rfl⟩
      | some gen =>
        have : (vis w).objs[g]? = some gen.obj := by simp [vis, hg]
        simp only [this]
        refine ⟨public_getHier_spec w g gen obj ni f hg, ?_⟩
        unfold getHierPub; rw [hg]
        simp only [List.getElem?_append_right (Nat.le_refl _), Nat.sub_self, List.getElem?_cons_zero, vis,
          gens_map_set _ _ _ _ hg]

/-- run_spec: the answers of ANY sequence of public calls (no caller-supplied list) are the pure specification's answers:
    each one a function of the current design, the default object of the generator used, and the arguments -/
theorem run_spec (ops : List Op) : ∀ (w : World), (ops.all noList = true) → (run w ops).2 = specRun (vis w) ops := by
  induction ops with
  | nil => intro w _; rfl
  | cons op ops ih =>
    intro w h
    simp only [List.all_cons, Bool.and_eq_true] at h
    obtain ⟨a, b⟩ := step_spec w op h.1
    simp only [run, specRun]
    rw [← a, ← b]
    exact congrArg _ (ih _ h.2)

/-- gen_state_indep: two processes in ARBITRARY states (cache content, generators' lists, heap — e.g. after any earlier
    history) that hold the same circuit(s) and generators for the same objects answer every sequence identically -/
theorem gen_state_indep (w₁ w₂ : World) (ops : List Op) (h : ops.all noList = true) (hv : vis w₁ = vis w₂) :
    (run w₁ ops).2 = (run w₂ ops).2 := by
  rw [run_spec ops w₁ h, run_spec ops w₂ h, hv]

/-- repetition: the same request later in the same process (anything in between that does not edit the circuit and does
    not create generators — creating them is harmless too, see `interleave_same_text`) gives the same answer -/
theorem repeat_same_text (w : World) (op : Op) (mid : List Op) (h : noList op = true)
    (hv : vis (run w (op :: mid)).1 = vis w) :
    (step (run w (op :: mid)).1 op).2 = (step w op).2 := by
  rw [(step_spec _ op h).1, (step_spec w op h).1, hv]

/-- interleaving: requests for other circuits / through other generators in between do not change the answer: the answer
    of `op` in any world depends on `vis` restricted to the generator it uses -/
theorem interleave_same_text (w₁ w₂ : World) (g : Nat) (obj : Option ObjId) (ni : Bool) (f : Option String)
    (hd : w₁.d = w₂.d) (hg : (w₁.gens[g]?).map (·.obj) = (w₂.gens[g]?).map (·.obj)) :
    (step w₁ (.getVerilog g obj ni f)).2 = (step w₂ (.getVerilog g obj ni f)).2 ∧
    (step w₁ (.getHier g obj ni f none)).2 = (step w₂ (.getHier g obj ni f none)).2 := by
  have e : (vis w₁).objs[g]? = (vis w₂).objs[g]? := by simpa [vis] using hg
  have e' : (vis w₁).d = (vis w₂).d := hd
  constructor
  · rw [(step_spec w₁ _ rfl).1, (step_spec w₂ _ rfl).1]; simp only [specStep, e, e']
  · rw [(step_spec w₁ _ rfl).1, (step_spec w₂ _ rfl).1]; simp only [specStep, e, e']

/-- simulation steps are invisible to the generator model (ASSUMPTION made explicit: the generator reads nothing that
    simulation writes; observed on the real code by the harness, false for the listed finding C19-live-arg-attr) -/
theorem sim_no_effect (w : World) : (step w .sim).1.d = w.d ∧ vis (step w .sim).1 = vis w := ⟨rfl, rfl⟩

/-! ## submodule_context_free -/

theorem bind_ok {α β : Type} {m : M α} {f : α → M β} {s : S} {b : β} (h : ((m >>= f) s).1 = .ok b) :
    ∃ a s', m s = (.ok a, s') ∧ (f a s').1 = .ok b := by
  rw [bind_def] at h
  rcases hm : m s with ⟨r, s'⟩
  rw [hm] at h
  cases r with
  | error e => simp at h
  | ok a => exact ⟨a, s', rfl, h⟩

theorem mapMM_members {γ : Type} (f : γ → M (List Out)) (P : Out → Prop) (Inv : S → Prop)
    (hP : ∀ a s r, Inv s → (f a s).1 = .ok r → ∀ x ∈ r, P x) (hI : ∀ a s, Inv s → Inv (f a s).2) :
    ∀ (l : List γ) (s : S) (parts : List (List Out)), Inv s → (mapMM f l s).1 = .ok parts → ∀ x ∈ parts.flatten, P x := by
  intro l
  induction l with
  | nil =>
    intro s parts _ h x hx
    simp only [mapMM, pure_def] at h
    cases h
    simp at hx
  | cons a t ih =>
    intro s parts hi h x hx
    unfold mapMM at h
    obtain ⟨r, s1, e1, h1⟩ := bind_ok h
    obtain ⟨rs, s2, e2, h2⟩ := bind_ok h1
    simp only [pure_def] at h2
    cases h2
    have i1 : Inv s1 := by have := hI a s hi; rw [e1] at this; exact this
    simp only [List.flatten_cons, List.mem_append] at hx
    rcases hx with hx | hx
    · exact hP a s r hi (by rw [e1]) x hx
    · exact ih s1 rs i1 (by rw [e2]) x hx

/-- every module in a hierarchy text is THE reference text of some object: the top one with the caller's naming
    arguments, every other one with (noInstanceNumber = False, forceName = None) — whatever ancestor the request started
    from, whatever was generated before (state `s`), with or without cache -/
def IsModOf (d : Design) (top : ObjId) (ni : Bool) (f : Option String) (out : Out) : Prop :=
  .ok out = modText d top ni f ∨ ∃ c, .ok out = modText d c false none

theorem hier_members (uc : Bool) (fuel : Nat) : ∀ (o : ObjId) (ni : Bool) (f : Option String) (s : S) (outs : List Out),
    Coh d s.cache → (hierI d uc fuel o ni f s).1 = .ok outs → ∀ out ∈ outs, IsModOf d o ni f out := by
  induction fuel with
  | zero => intro o ni f s outs _ h; simp [hierI, throwM] at h
  | succ n ih =>
    intro o ni f s outs hc h out hout
    unfold hierI at h
    obtain ⟨own, s1, e1, h1⟩ := bind_ok h
    obtain ⟨obj, s2, e2, h2⟩ := bind_ok h1
    obtain ⟨parts, s3, e3, h3⟩ := bind_ok h2
    simp only [pure_def] at h3
    cases h3
    have ho : d.obj? o = .ok obj := by simp only [liftE] at e2; exact (Prod.mk.inj e2).1
    have hs : s2 = s1 := by simp only [liftE] at e2; exact (Prod.mk.inj e2).2.symm
    subst hs
    have c1 : Coh d s2.cache := by
      have := (getVerilogI_sim (d := d) uc uc o ni f s s hc hc rfl).2.1; rw [e1] at this; exact this
    simp only [List.mem_append] at hout
    rcases hout with hout | hout
    · -- the requested object's own module
      by_cases he : own = .empty
      · simp [he] at hout
      · simp only [he, if_false, List.mem_singleton] at hout
        subst hout
        have k := getVerilogI_created uc o obj ni f s ho hc
        rw [e1] at k
        simp only at k
        split at k
        · cases k; exact absurd rfl he
        · exact Or.inl k
    · -- modules of the non-inlinable children, recursively
      refine Or.inr (mapMM_members _ (fun x => ∃ c, Except.ok x = modText d c false none) (fun t => Coh d t.cache)
        ?_ ?_ obj.children s2 parts c1 (by rw [e3]) out hout)
      · intro c t r ht hr x hx
        obtain ⟨child, t1, f1, g1⟩ := bind_ok hr
        have : t1 = t := by simp only [liftE] at f1; exact (Prod.mk.inj f1).2.symm
        subst this
        split at g1
        · simp only [pure_def] at g1; cases g1; simp at hx
        · rcases ih c false none t1 r ht g1 x hx with h' | h'
          · exact ⟨c, h'⟩
          · exact h'
      · intro c t ht
        have := (SimC.bind (d := d) (Sim.liftE (d.obj? c)).toC (fun child =>
          (show SimC d (if child.inlinable = true then (pure [] : M (List Out)) else hierI d uc n c false none)
                       (if child.inlinable = true then (pure [] : M (List Out)) else hierI d uc n c false none) from by
            split
            · exact (Sim.pure _).toC
            · exact hierI_sim uc uc n c false none))) t t ht ht rfl
        exact this.2.1

/-- submodule_context_free: the text emitted for a sub-block inside the hierarchy of ancestor a₁ (state s₁, cache on)
    and inside the hierarchy of ancestor a₂ (state s₂, any naming flags for the tops) is the same function of the design
    and the sub-block: both are `modText d c false none`.  "Up to the top-entity naming flag": only the requested top
    object itself is emitted with the caller's (ni, f). -/
theorem submodule_context_free (fuel₁ fuel₂ : Nat) (a₁ a₂ : ObjId) (ni₁ ni₂ : Bool) (f₁ f₂ : Option String) (s₁ s₂ : S)
    (outs₁ outs₂ : List Out) (h₁ : Coh d s₁.cache) (h₂ : Coh d s₂.cache)
    (r₁ : (hierI d true fuel₁ a₁ ni₁ f₁ s₁).1 = .ok outs₁) (r₂ : (hierI d true fuel₂ a₂ ni₂ f₂ s₂).1 = .ok outs₂)
    (m₁ m₂ : Out) (i₁ : m₁ ∈ outs₁) (i₂ : m₂ ∈ outs₂)
    (t₁ : Except.ok m₁ ≠ modText d a₁ ni₁ f₁) (t₂ : Except.ok m₂ ≠ modText d a₂ ni₂ f₂) :
    ∃ c₁ c₂, .ok m₁ = modText d c₁ false none ∧ .ok m₂ = modText d c₂ false none ∧ (c₁ = c₂ → m₁ = m₂) := by
  rcases hier_members true fuel₁ a₁ ni₁ f₁ s₁ outs₁ h₁ r₁ m₁ i₁ with k₁ | ⟨c₁, k₁⟩
  · exact absurd k₁ t₁
  rcases hier_members true fuel₂ a₂ ni₂ f₂ s₂ outs₂ h₂ r₂ m₂ i₂ with k₂ | ⟨c₂, k₂⟩
  · exact absurd k₂ t₂
  refine ⟨c₁, c₂, k₁, k₂, ?_⟩
  intro e
  subst e
  have := k₁.trans k₂.symm
  cases this
  rfl

/-- the same for a DIRECT request of the sub-block: whichever generator (constructed for whichever ancestor) is asked,
    in whatever state the process is, the answer is the reference text of the sub-block -/
theorem submodule_context_free_direct (w₁ w₂ : World) (g₁ g₂ : Nat) (gen₁ gen₂ : Gen) (o : ObjId) (ni : Bool)
    (f : Option String) (hd : w₁.d = w₂.d) (hg₁ : w₁.gens[g₁]? = some gen₁) (hg₂ : w₂.gens[g₂]? = some gen₂) :
    (getVerilogPub w₁ g₁ (some o) ni f).2 = (getVerilogPub w₂ g₂ (some o) ni f).2 := by
  rw [public_getVerilog_spec w₁ g₁ gen₁ (some o) ni f hg₁, public_getVerilog_spec w₂ g₂ gen₂ (some o) ni f hg₂, hd]
  rfl

/-! ## hier_members, full statement: the exact, ordered, de-duplicated pre-order list -/

/-- the requested object's own module: '' when its structure name is in the list, else the reference text -/
def ownSpec (d : Design) (o : ObjId) (obj : ObjD) (ni : Bool) (f : Option String) (cr : List String) :
    Except Err (List Out × List String) :=
  if cr.contains (nameOf obj ni f) then .ok ([], cr)
  else match modText d o ni f with
    | .error e => .error e
    | .ok out => .ok ([out], cr ++ out.adds (nameOf obj ni f))

/-- one child of the walk: inlinable children are skipped -/
def kidSpec (d : Design) (rec : ObjId → List String → Except Err (List Out × List String)) (c : ObjId) (cr : List String) :
    Except Err (List Out × List String) :=
  match d.obj? c with
  | .error e => .error e
  | .ok child => if child.inlinable then .ok ([], cr) else rec c cr

/-- `_getVerilogForHierarchy` as a pure function: the only state is the CONTENT of the created-structures list.  Every
    module is the reference text `modText` (brand-new process, no cache) of the object reached. -/
def hierSpec (d : Design) : Nat → ObjId → Bool → Option String → List String → Except Err (List Out × List String)
  | 0, _, _, _, _ => .error .fuel
  | fuel + 1, o, ni, f, cr =>
    match d.obj? o with
    | .error e => .error e
    | .ok obj =>
      match ownSpec d o obj ni f cr with
      | .error e => .error e
      | .ok (own, cr1) =>
        match foldSpec (kidSpec d fun c cr' => hierSpec d fuel c false none cr') obj.children cr1 with
        | .error e => .error e
        | .ok (rest, cr2) => .ok (own ++ rest, cr2)

theorem modText_eq (o : ObjId) (obj : ObjD) (ni : Bool) (f : Option String) (ho : d.obj? o = .ok obj) :
    modText d o ni f = (emitModule d false o obj (nameOf obj ni f) {}).1 := by
  unfold modText
  rw [getVerilogI_eq, ho]
  have : ((({} : S).created).contains (nameOf obj ni f)) = false := rfl
  simp only [this, Bool.false_eq_true, if_false]

/-- the Python loop body of `_getVerilogForHierarchy` over one child -/
def kidI (d : Design) (uc : Bool) (n : Nat) (c : ObjId) : M (List Out) := do
  let child ← liftE (d.obj? c)
  if child.inlinable then pure [] else hierI d uc n c false none

theorem hierI_succ (uc : Bool) (n : Nat) (o : ObjId) (ni : Bool) (f : Option String) :
    hierI d uc (n + 1) o ni f = (do
      let own ← getVerilogI d uc o ni f
      let obj ← liftE (d.obj? o)
      let parts ← mapMM (kidI d uc n) obj.children
      pure ((if own = .empty then [] else [own]) ++ parts.flatten)) := rfl

theorem kidI_coh (uc : Bool) (n : Nat) (c : ObjId) (t : S) (ht : Coh d t.cache) : Coh d (kidI d uc n c t).2.cache := by
  have := (SimC.bind (d := d) (Sim.liftE (d.obj? c)).toC (fun child =>
    (show SimC d (if child.inlinable = true then (pure [] : M (List Out)) else hierI d uc n c false none)
                 (if child.inlinable = true then (pure [] : M (List Out)) else hierI d uc n c false none) from by
      split
      · exact (Sim.pure _).toC
      · exact hierI_sim uc uc n c false none))) t t ht ht rfl
  exact this.2.1

/-- hier_exact: result AND final list content of `_getVerilogForHierarchy`, from any coherent state, with or without
    cache, are the pure specification's (exceptions included: same exception at the same point of the walk) -/
theorem hier_exact (uc : Bool) (fuel : Nat) : ∀ (o : ObjId) (ni : Bool) (f : Option String) (s : S), Coh d s.cache →
    obs (hierI d uc fuel o ni f s) = hierSpec d fuel o ni f s.created := by
  induction fuel with
  | zero => intro o ni f s _; rfl
  | succ n ih =>
    intro o ni f s hc
    have hcoh := (getVerilogI_sim (d := d) uc uc o ni f s s hc hc rfl).2.1
    rw [hierI_succ]
    unfold hierSpec
    rw [bind_def]
    rw [getVerilogI_eq] at hcoh ⊢
    cases ho : d.obj? o with
    | error e => rfl
    | ok obj =>
      rw [ho] at hcoh
      simp only at hcoh ⊢
      -- the children, from any coherent state
      have kids : ∀ (s1 : S), Coh d s1.cache →
          obsF (mapMM (kidI d uc n) obj.children s1) =
            foldSpec (kidSpec d fun c cr' => hierSpec d n c false none cr') obj.children s1.created := by
        intro s1 h1
        refine mapMM_obs (d := d) _ _ ?_ obj.children s1 h1
        intro c t ht
        refine ⟨?_, kidI_coh uc n c t ht⟩
        unfold kidI kidSpec
        rw [bind_def]
        simp only [liftE]
        cases d.obj? c with
        | error e => rfl
        | ok child =>
          simp only
          split
          · rfl
          · exact ih c false none t ht
      unfold ownSpec
      by_cases hb : s.created.contains (nameOf obj ni f) = true
      · -- structure already created: '' and the list untouched
        simp only [hb, if_true] at hcoh ⊢
        rw [bind_def]
        simp only [liftE]
        rw [bind_def]
        have k := kids s hc
        rw [← k]
        generalize mapMM (kidI d uc n) obj.children s = q
        obtain ⟨r, s2⟩ := q
        cases r with
        | error e => rfl
        | ok parts => simp [obsF, obs, pure_def]
      · simp only [hb, Bool.false_eq_true, if_false] at hcoh ⊢
        have hm := (emitModule_sim (d := d) uc false o obj (nameOf obj ni f) s {} hc (coh_clear d)).1
        have hfin := emitModule_fin (d := d) uc o obj (nameOf obj ni f) s
        rw [modText_eq o obj ni f ho, ← hm]
        generalize emitModule d uc o obj (nameOf obj ni f) s = p at hcoh hfin ⊢
        obtain ⟨r, s1⟩ := p
        cases r with
        | error e => rfl
        | ok own =>
          obtain ⟨hcr, hne⟩ := hfin own rfl
          simp only at hcr hcoh ⊢
          rw [bind_def]
          simp only [liftE]
          rw [bind_def]
          have k := kids s1 hcoh
          rw [hcr] at k
          rw [← k]
          generalize mapMM (kidI d uc n) obj.children s1 = q
          obtain ⟨r2, s2⟩ := q
          cases r2 with
          | error e => rfl
          | ok parts => simp [obsF, obs, pure_def, hne]

/-- the non-inlinable objects strictly below `o`, in the order of the walk (pre-order, children in insertion order; an
    inlinable child is skipped together with everything below it) -/
def collect {γ : Type} (g : γ → Except Err (List ObjId)) : List γ → Except Err (List ObjId)
  | [] => .ok []
  | a :: t =>
    match g a with
    | .error e => .error e
    | .ok x => match collect g t with
      | .error e => .error e
      | .ok y => .ok (x ++ y)

def kidDesc (d : Design) (rec : ObjId → Except Err (List ObjId)) (c : ObjId) : Except Err (List ObjId) :=
  match d.obj? c with
  | .error e => .error e
  | .ok child => if child.inlinable then .ok [] else
    match rec c with
    | .error e => .error e
    | .ok l => .ok (c :: l)

def descendants (d : Design) : Nat → ObjId → Except Err (List ObjId)
  | 0, _ => .error .fuel
  | fuel + 1, o =>
    match d.obj? o with
    | .error e => .error e
    | .ok obj => collect (kidDesc d (descendants d fuel)) obj.children

/-- one request of the walk: (object, noInstanceNumber, forceName) -/
abbrev Req := ObjId × Bool × Option String

/-- every object below the requested one is generated with (noInstanceNumber = False, forceName = None) -/
def subs (l : List ObjId) : List Req := l.map fun c => (c, false, none)

theorem subs_cons (c : ObjId) (l : List ObjId) : subs (c :: l) = (c, false, none) :: subs l := rfl
theorem subs_append (a b : List ObjId) : subs (a ++ b) = subs a ++ subs b := List.map_append

/-- dedupByName: go through the requests in order; a request whose structure name is already in the list contributes
    nothing; otherwise it contributes THE reference text of its object and (for a module) its name joins the list -/
def dedupWalk (d : Design) : List Req → List String → Except Err (List Out × List String)
  | [], cr => .ok ([], cr)
  | (o, ni, f) :: t, cr =>
    match d.obj? o with
    | .error e => .error e
    | .ok obj =>
      if cr.contains (nameOf obj ni f) then dedupWalk d t cr
      else match modText d o ni f with
        | .error e => .error e
        | .ok out =>
          match dedupWalk d t (cr ++ out.adds (nameOf obj ni f)) with
          | .error e => .error e
          | .ok (r, cr') => .ok (out :: r, cr')

/-- sequencing of two walks -/
def andThen (a : Except Err (List Out × List String)) (k : List String → Except Err (List Out × List String)) :
    Except Err (List Out × List String) :=
  match a with
  | .error e => .error e
  | .ok (x, cr1) => match k cr1 with
    | .error e => .error e
    | .ok (y, cr2) => .ok (x ++ y, cr2)

theorem dedupWalk_append (l₁ l₂ : List Req) : ∀ (cr : List String),
    dedupWalk d (l₁ ++ l₂) cr = andThen (dedupWalk d l₁ cr) (dedupWalk d l₂) := by
  induction l₁ with
  | nil =>
    intro cr
    simp only [List.nil_append, dedupWalk, andThen]
    cases dedupWalk d l₂ cr with
    | error e => rfl
    | ok p => rfl
  | cons a t ih =>
    intro cr
    obtain ⟨o, ni, f⟩ := a
    simp only [List.cons_append, dedupWalk]
    cases d.obj? o with
    | error e => rfl
    | ok obj =>
      simp only
      split
      · exact ih cr
      · cases modText d o ni f with
        | error e => rfl
        | ok out =>
          simp only
          rw [ih]
          cases dedupWalk d t (cr ++ out.adds (nameOf obj ni f)) with
          | error e => rfl
          | ok p =>
            simp only [andThen]
            cases dedupWalk d l₂ p.2 with
            | error e => rfl
            | ok q => rfl

theorem foldSpec_cons {γ : Type} (sp : γ → List String → Except Err (List Out × List String)) (a : γ) (t : List γ)
    (cr : List String) : foldSpec sp (a :: t) cr = andThen (sp a cr) (foldSpec sp t) := by
  simp only [foldSpec, andThen]
  rfl

theorem kids_walk (n : Nat)
    (ih : ∀ (o : ObjId) (ni : Bool) (f : Option String) (cr : List String) (l : List ObjId),
      descendants d n o = .ok l → hierSpec d n o ni f cr = dedupWalk d ((o, ni, f) :: subs l) cr) :
    ∀ (ch l : List ObjId) (cr1 : List String), collect (kidDesc d (descendants d n)) ch = .ok l →
      foldSpec (kidSpec d fun c cr' => hierSpec d n c false none cr') ch cr1 = dedupWalk d (subs l) cr1 := by
  intro ch
  induction ch with
  | nil => intro l cr1 hl; simp only [collect] at hl; cases hl; rfl
  | cons c t iht =>
    intro l cr1 hl
    simp only [collect] at hl
    rw [foldSpec_cons]
    cases hk : kidDesc d (descendants d n) c with
    | error e => simp [hk] at hl
    | ok x =>
      cases ht : collect (kidDesc d (descendants d n)) t with
      | error e => simp [hk, ht] at hl
      | ok y =>
        simp only [hk, ht] at hl
        cases hl
        rw [subs_append, dedupWalk_append]
        have e1 : kidSpec d (fun c cr' => hierSpec d n c false none cr') c cr1 = dedupWalk d (subs x) cr1 := by
          unfold kidDesc at hk
          unfold kidSpec
          cases hc : d.obj? c with
          | error e => simp [hc] at hk
          | ok child =>
            simp only [hc] at hk ⊢
            by_cases hi : child.inlinable = true
            · simp only [hi, if_true] at hk ⊢
              cases hk
              rfl
            · simp only [hi] at hk ⊢
              cases hdc : descendants d n c with
              | error e => simp [hdc] at hk
              | ok lc =>
                simp only [hdc] at hk
                cases hk
                simp only [Bool.false_eq_true, if_false]
                exact ih c false none cr1 lc hdc
        rw [e1]
        have e2 : foldSpec (kidSpec d fun c cr' => hierSpec d n c false none cr') t = dedupWalk d (subs y) := by
          funext cr2
          exact iht y cr2 ht
        rw [e2]

/-- on a well-formed tree (`descendants` succeeds) the specification IS the de-duplicating walk over the pre-order list -/
theorem hierSpec_eq_walk (fuel : Nat) : ∀ (o : ObjId) (ni : Bool) (f : Option String) (cr : List String) (l : List ObjId),
    descendants d fuel o = .ok l → hierSpec d fuel o ni f cr = dedupWalk d ((o, ni, f) :: subs l) cr := by
  induction fuel with
  | zero => intro o ni f cr l h; simp [descendants] at h
  | succ n ih =>
    intro o ni f cr l h
    unfold descendants at h
    unfold hierSpec
    simp only [dedupWalk]
    cases ho : d.obj? o with
    | error e => simp [ho] at h
    | ok obj =>
      simp only [ho] at h
      simp only
      unfold ownSpec
      by_cases hb : cr.contains (nameOf obj ni f) = true
      · simp only [hb, if_true]
        rw [kids_walk n ih obj.children l cr h]
        cases dedupWalk d (subs l) cr with
        | error e => rfl
        | ok p => simp
      · simp only [hb, Bool.false_eq_true, if_false]
        cases modText d o ni f with
        | error e => rfl
        | ok out =>
          simp only
          rw [kids_walk n ih obj.children l _ h]
          cases dedupWalk d (subs l) (cr ++ out.adds (nameOf obj ni f)) with
          | error e => rfl
          | ok p => simp

/-- well-formedness is not an extra assumption: whenever the walk itself succeeds, `descendants` does -/
theorem descendants_of_ok (fuel : Nat) : ∀ (o : ObjId) (ni : Bool) (f : Option String) (cr : List String)
    (r : List Out × List String), hierSpec d fuel o ni f cr = .ok r → ∃ l, descendants d fuel o = .ok l := by
  induction fuel with
  | zero => intro o ni f cr r h; simp [hierSpec] at h
  | succ n ih =>
    intro o ni f cr r h
    unfold hierSpec at h
    unfold descendants
    cases ho : d.obj? o with
    | error e => simp [ho] at h
    | ok obj =>
      simp only [ho] at h ⊢
      have kids : ∀ (ch : List ObjId) (cr1 : List String) (r : List Out × List String),
          foldSpec (kidSpec d fun c cr' => hierSpec d n c false none cr') ch cr1 = .ok r →
          ∃ l, collect (kidDesc d (descendants d n)) ch = .ok l := by
        intro ch
        induction ch with
        | nil => intro _ _ _; exact ⟨[], rfl⟩
        | cons c t iht =>
          intro cr1 r hr
          rw [foldSpec_cons] at hr
          unfold andThen at hr
          cases hk : kidSpec d (fun c cr' => hierSpec d n c false none cr') c cr1 with
          | error e => simp [hk] at hr
          | ok p =>
            simp only [hk] at hr
            cases ht : foldSpec (kidSpec d fun c cr' => hierSpec d n c false none cr') t p.2 with
            | error e => simp [ht] at hr
            | ok q =>
              obtain ⟨y, hy⟩ := iht p.2 q ht
              have : ∃ x, kidDesc d (descendants d n) c = .ok x := by
                unfold kidSpec at hk
                unfold kidDesc
                cases hc : d.obj? c with
                | error e => simp [hc] at hk
                | ok child =>
                  simp only [hc] at hk ⊢
                  by_cases hi : child.inlinable = true
                  · simp [hi]
                  · simp only [hi, Bool.false_eq_true, if_false] at hk ⊢
                    obtain ⟨lc, hlc⟩ := ih c false none cr1 p hk
                    exact ⟨c :: lc, by simp [hlc]⟩
              obtain ⟨x, hx⟩ := this
              exact ⟨x ++ y, by simp [collect, hx, hy]⟩
      cases hown : ownSpec d o obj ni f cr with
      | error e => simp [hown] at h
      | ok p =>
        simp only [hown] at h
        cases hf : foldSpec (kidSpec d fun c cr' => hierSpec d n c false none cr') obj.children p.2 with
        | error e => simp [hf] at h
        | ok q => exact kids obj.children p.2 q hf

/-- **hier_members, full statement.**  Whenever `_getVerilogForHierarchy(o)` succeeds on a well-formed tree — from any
    coherent state, with or without cache, whatever the list held at entry — its text is EXACTLY the de-duplicating walk
    over the pre-order list `o :: descendants`: in that order, the requested object with the caller's naming arguments,
    every other object with (False, None), each one THE reference text of its object, a name emitted at most once; and the
    list ends up with exactly the names of the modules written appended. -/
theorem hier_members_full (uc : Bool) (fuel : Nat) (o : ObjId) (ni : Bool) (f : Option String) (s : S) (outs : List Out)
    (l : List ObjId) (hc : Coh d s.cache) (hl : descendants d fuel o = .ok l)
    (h : (hierI d uc fuel o ni f s).1 = .ok outs) :
    dedupWalk d ((o, ni, f) :: subs l) s.created = .ok (outs, (hierI d uc fuel o ni f s).2.created) := by
  rw [← hierSpec_eq_walk fuel o ni f s.created l hl, ← hier_exact uc fuel o ni f s hc]
  generalize hierI d uc fuel o ni f s = p at h ⊢
  obtain ⟨r, s'⟩ := p
  simp only at h
  subst h
  rfl

/-- the same without the well-formedness hypothesis: a successful request determines its pre-order list -/
theorem hier_members_exact (uc : Bool) (fuel : Nat) (o : ObjId) (ni : Bool) (f : Option String) (s : S) (outs : List Out)
    (hc : Coh d s.cache) (h : (hierI d uc fuel o ni f s).1 = .ok outs) :
    ∃ l, descendants d fuel o = .ok l ∧
      dedupWalk d ((o, ni, f) :: subs l) s.created = .ok (outs, (hierI d uc fuel o ni f s).2.created) := by
  have e := hier_exact (d := d) uc fuel o ni f s hc
  have : ∃ r, hierSpec d fuel o ni f s.created = .ok r := by
    rw [← e]
    generalize hierI d uc fuel o ni f s = p at h
    obtain ⟨r, s'⟩ := p
    simp only at h
    subst h
    exact ⟨_, rfl⟩
  obtain ⟨r, hr⟩ := this
  obtain ⟨l, hl⟩ := descendants_of_ok fuel o ni f s.created r hr
  exact ⟨l, hl, hier_members_full uc fuel o ni f s outs l hc hl h⟩

/-- the public entry: `getVerilogForHierarchy` without a caller list = the walk from an empty list -/
theorem public_getHier_full (w : World) (g : Nat) (gen : Gen) (obj : Option ObjId) (ni : Bool) (f : Option String)
    (outs : List Out) (l : List ObjId) (hg : w.gens[g]? = some gen)
    (hl : descendants w.d (fuelOf w.d) (obj.getD gen.obj) = .ok l) (h : (getHierPub w g obj ni f none).2 = .ok outs) :
    ∃ cr, dedupWalk w.d ((obj.getD gen.obj, ni, f) :: subs l) [] = .ok (outs, cr) := by
  rw [public_getHier_spec w g gen obj ni f hg] at h
  exact ⟨_, hier_members_full (d := w.d) false (fuelOf w.d) (obj.getD gen.obj) ni f { created := [] } outs l (coh_clear _) hl h⟩

/-- the walk never invents text and never repeats a name: every module of the answer is the reference text of one of the
    requests, in request order (a sublist) -/
theorem dedupWalk_sublist : ∀ (reqs : List Req) (cr : List String) (outs : List Out) (cr' : List String),
    dedupWalk d reqs cr = .ok (outs, cr') →
    List.Sublist (outs.map Except.ok) (reqs.map fun r => modText d r.1 r.2.1 r.2.2) := by
  intro reqs
  induction reqs with
  | nil => intro cr outs cr' h; simp only [dedupWalk] at h; cases h; exact List.Sublist.slnil
  | cons a t ih =>
    intro cr outs cr' h
    obtain ⟨o, ni, f⟩ := a
    simp only [dedupWalk] at h
    cases ho : d.obj? o with
    | error e => rw [ho] at h; simp at h
    | ok obj =>
      rw [ho] at h
      simp only at h
      split at h
      · exact List.Sublist.cons _ (ih cr outs cr' h)
      · cases hm : modText d o ni f with
        | error e => rw [hm] at h; simp at h
        | ok out =>
          rw [hm] at h
          simp only at h
          cases hr : dedupWalk d t (cr ++ out.adds (nameOf obj ni f)) with
          | error e => rw [hr] at h; simp at h
          | ok p =>
            rw [hr] at h
            simp only at h
            cases h
            simp only [List.map_cons, hm]
            exact List.Sublist.cons_cons _ (ih _ p.1 p.2 hr)

/-! ## the transpiler and the live object: text is a function of structure and constructor-time configuration -/

/-- ExtractInitializers reads the live object only through the constructor-parameter names of `self.x = p` statements -/
theorem extractInit_frame (lv₁ lv₂ : Live) : ∀ (c : List CtorStmt) (i : Init),
    (∀ p ∈ argParams c, lv₁ p = lv₂ p) → extractInit lv₁ c i = extractInit lv₂ c i := by
  intro c
  induction c with
  | nil => intro i _; rfl
  | cons st t ih =>
    intro i h
    cases st with
    | port a v => exact ih _ (fun p hp => h p (by simpa [argParams] using hp))
    | const a v => exact ih _ (fun p hp => h p (by simpa [argParams] using hp))
    | arg a q =>
      have hq : lv₁ q = lv₂ q := h q (by simp [argParams])
      simp only [extractInit, hq]
      cases lv₂ q with
      | none => rfl
      | some v => exact ih _ (fun p hp => h p (by simp [argParams, hp]))

/-- transpile_live_frame: the replacement of EVERY name occurrence, the declared variables and the exception behaviour are
    the same for two live states that agree on the constructor-parameter attributes — nothing else of the live object
    reaches the text (in particular: whether an attribute exists, and what it currently holds) -/
theorem transpile_live_frame (b : Behav) (lv₁ lv₂ : Live) (h : ∀ p ∈ argParams b.ctor, lv₁ p = lv₂ p) :
    transpile b lv₁ = transpile b lv₂ := by
  unfold transpile
  rw [extractInit_frame lv₁ lv₂ b.ctor {} h]

/-- what simulation does to the attributes of a behavioural object: it can only (re)assign — or create — the attributes
    its clock()/propagate() source assigns.  ASSUMPTION about Python, explicit here. -/
def SimFrame (b : Behav) (lv lv' : Live) : Prop := ∀ n, n ∉ stored b.occs → lv' n = lv n

/-- the class of blocks for which generation is independent of the simulation history: no constructor-parameter
    attribute is assigned by the method (complement = listed finding C19-live-arg-attr) -/
def NoArgStore (b : Behav) : Prop := ∀ p ∈ argParams b.ctor, p ∉ stored b.occs

instance (b : Behav) : Decidable (NoArgStore b) := by unfold NoArgStore; exact inferInstance

/-- transpile_sim_indep_partial.  FULL statement (false on the unchanged tree, see `transpile_sim_counterexample`):
      ∀ b lv lv', SimFrame b lv lv' → transpile b lv' = transpile b lv
    proved under `NoArgStore b`: attributes created or reassigned by clock()/propagate() — whether or not they exist yet,
    whatever they hold — never reach the text. -/
theorem transpile_sim_indep_partial (b : Behav) (lv lv' : Live) (hn : NoArgStore b) (hs : SimFrame b lv lv') :
    transpile b lv' = transpile b lv :=
  transpile_live_frame b lv' lv fun p hp => hs p (hn p hp)

/-- the listed finding: `Acc(step=3)` whose clock() does `self.total = self.total + self.step; self.step = self.step + 1` -/
def exAcc : Behav :=
  { ctor := [.port "a" "a", .port "r" "r", .arg "step" "step", .const "total" 0],
    occs := [.attr "total" true, .attr "total" false, .attr "step" false, .attr "step" true, .attr "step" false,
             .wire "r", .attr "total" false] }

def lvAcc (step total : Int) : Live := fun n => if n = "step" then some step else if n = "total" then some total else none

theorem transpile_sim_counterexample :
    SimFrame exAcc (lvAcc 3 0) (lvAcc 6 12) ∧ transpile exAcc (lvAcc 6 12) ≠ transpile exAcc (lvAcc 3 0) := by
  constructor
  · intro n hn
    have h1 : n ≠ "step" := by intro h; subst h; exact hn (by decide)
    have h2 : n ≠ "total" := by intro h; subst h; exact hn (by decide)
    simp [lvAcc, h1, h2]
  · decide

/-- an edge detector whose `prev` is created by clock() itself and read (guarded) before it is written: same text before
    the first cycle (attribute absent) and afterwards (attribute present, any value) -/
def exChg : Behav :=
  { ctor := [.port "a" "a", .port "r" "r", .const "started" 0, .const "count" 0],
    occs := [.attr "started" false, .wire "a", .attr "prev" false, .attr "count" true, .attr "count" false,
             .attr "prev" true, .wire "a", .attr "started" true, .wire "r", .attr "count" false] }

example : NoArgStore exChg := by decide
example : ¬ NoArgStore exAcc := by decide
example : transpile exChg (fun _ => none) = transpile exChg (fun n => if n = "prev" then some 1 else some 7) :=
  transpile_live_frame exChg _ _ (by intro p hp; simp [exChg, argParams] at hp)
example : transpile exChg (fun _ => none) =
    .ok [.var "started", .port "a", .var "prev", .var "count", .var "count", .var "prev", .port "a", .var "started",
         .port "r", .var "count"] ["started", "count", "prev"] := by decide

/-- the generator model with the transpiled text made explicit: `leafText` of every behavioural object is the rendering
    of `transpile` on its CURRENT live state -/
def withLive (d : Design) (bs : ObjId → Option Behav) (lv : ObjId → Live) : Design :=
  { d with objs := d.objs.mapIdx fun i o =>
      match bs i with
      | some b => { o with leafText := (transpile b (lv i)).render }
      | none => o }

/-- simulation steps do not change the design the generator sees (this discharges, for transpiled blocks in
    `NoArgStore`, the assumption `sim_no_effect` makes about `Op.sim`) -/
theorem withLive_sim_indep (d : Design) (bs : ObjId → Option Behav) (lv lv' : ObjId → Live)
    (h : ∀ i b, bs i = some b → NoArgStore b ∧ SimFrame b (lv i) (lv' i)) : withLive d bs lv' = withLive d bs lv := by
  unfold withLive
  have : (fun i (o : ObjD) => match bs i with
      | some b => { o with leafText := (transpile b (lv' i)).render }
      | none => o) = (fun i (o : ObjD) => match bs i with
      | some b => { o with leafText := (transpile b (lv i)).render }
      | none => o) := by
    funext i o
    cases hb : bs i with
    | none => rfl
    | some b =>
      obtain ⟨hn, hs⟩ := h i b hb
      simp only [transpile_sim_indep_partial b (lv i) (lv' i) hn hs]
  rw [this]

/-- …hence every sequence of generation requests gives the same answers before and after any simulation history, through
    any generators, in any process state -/
theorem sim_history_indep (d : Design) (bs : ObjId → Option Behav) (lv lv' : ObjId → Live) (w₁ w₂ : World) (ops : List Op)
    (h : ∀ i b, bs i = some b → NoArgStore b ∧ SimFrame b (lv i) (lv' i)) (hl : ops.all noList = true)
    (h₁ : w₁.d = withLive d bs lv) (h₂ : w₂.d = withLive d bs lv') (hg : w₁.gens.map (·.obj) = w₂.gens.map (·.obj)) :
    (run w₁ ops).2 = (run w₂ ops).2 := by
  refine gen_state_indep w₁ w₂ ops hl ?_
  simp only [vis, h₁, h₂, hg, withLive_sim_indep d bs lv lv' h]

/-- non-vacuity: in the example design the hierarchy of the top emits one module, and it is the reference text -/
example : (hierI exD true (fuelOf exD) 0 true none {}).1 = .ok [match modText exD 0 true none with | .ok o => o | .error _ => .empty] := by
  decide
example : (run { d := exD } [.newGen 0, .newGen 1, .getVerilog 0 (some 0) false none, .sim, .getVerilog 1 (some 0) false none]).2.getD 2 (.error .fuel)
        = (run { d := exD } [.newGen 0, .newGen 1, .getVerilog 0 (some 0) false none, .sim, .getVerilog 1 (some 0) false none]).2.getD 4 (.ok []) := by
  decide
example : Coh exD ({} : Cache) := coh_clear _

/-- non-vacuity of the full statement: two boxes (instance-suffixed names) each holding a block with the SAME structure
    name: the walk visits five objects in pre-order, writes four modules, the second `Add4` is de-duplicated -/
def exD2 : Design :=
  { objs := [ { parent := none, cls := "Top", name := "top", ident := 0, children := [1, 2, 3] },
              { parent := some 0, cls := "Box", name := "b1", ident := 1, children := [4] },
              { parent := some 0, cls := "Box", name := "b2", ident := 2, children := [5] },
              { parent := some 0, cls := "Not", name := "n", ident := 3, propagatable := true, inlinable := true },
              { parent := some 1, cls := "Add", name := "a", ident := 4, structName := some "Add4", propagatable := true,
                providesBody := true, leafText := "assign r = a + b;" },
              { parent := some 2, cls := "Add", name := "a", ident := 5, structName := some "Add4", propagatable := true,
                providesBody := true, leafText := "assign r = a + b;" } ],
    wires := [] }

example : (match descendants exD2 (fuelOf exD2) 0 with | .ok l => l | .error _ => []) = [1, 4, 2, 5] := by decide
example : (hierI exD2 true (fuelOf exD2) 0 true none {}).2.created = ["Top", "Box_ID1", "Add4", "Box_ID2"] := by decide
example : (match (hierI exD2 true (fuelOf exD2) 0 true none {}).1 with | .ok l => l.length | .error _ => 0) = 4 := by decide
example : (match dedupWalk exD2 ((0, true, none) :: subs [1, 4, 2, 5]) [] with | .ok (l, _) => l.length | .error _ => 0) = 4 := by
  decide

end C19
