import Py4hwV.Props.C09Net
import Py4hwV.Lib.SeqNetM
import Py4hwV.Proofs.C01Cert2
/-
  C09, netlist level, on C01's committed multi-output flat netlists (`FlatM.NetD`): ModuloCounter (with the EqualConstant
  internals BitsLSBF + Minterm + And ladder, `FlatM.eqc_val`) and ClockDivider (ModuloCounter + TReg).
  Same shape as Props/C09Net.lean: `cycle` (C04 fixpoint + C05 pre-edge clocking) and per block a theorem that the values
  read on the output wires after every `poke; clk(1)` are the after-edge outputs of the block's `Lib` machine.
  The schedule is a parameter; the theorems hold for every instance whose decidable side conditions `MNet.okb` hold, and
  harness/c09.py evaluates `okb` on the LIVE schedule of every instance it imports (stream `netlist-import`).
-/
set_option linter.unusedSimpArgs false
namespace C09M
open Net FlatM Lib Leaf C09

/-! ### what `okb` gives -/
structure NetOK (K : MNet) : Prop where
  sched : K.netD.SchedOK
  free : ∀ x, x ∈ K.frees → ∀ c, c ∈ K.netD.combs → ∀ o, o ∈ c.outs.map (·.1) → o ≠ x
  kinds : ∀ k, k ∈ K.kinds → k.okb K.wd = true

theorem okb_sound (K : MNet) (h : K.okb = true) : NetOK K := by
  simp only [MNet.okb, Bool.and_eq_true, List.all_eq_true, decide_eq_true_eq, List.contains_eq_mem, Bool.not_eq_true',
    decide_eq_false_iff_not, List.mem_range] at h
  obtain ⟨⟨⟨⟨h1, h2⟩, h3⟩, h4⟩, h5⟩ := h
  refine ⟨⟨CertSrc.topoCheckG_sound K.netD K.order h2 h1, ?_⟩, ?_, h5⟩
  · intro i hi; exact h3 i hi
  · intro x hx c hc o ho e
    subst e
    exact h4 c hc o ho hx

/-- one `sim.clk(1)` on a flat netlist (C04 + C05), as `C09N.cycle` -/
theorem cycle (D : NetD) (hs : D.SchedOK)
    (hqd : ∀ (i j : Nat) (R R' : RLeaf), D.regs[i]? = some R → D.regs[j]? = some R' → R.q = R'.q → i = j)
    (hqf : ∀ R, R ∈ D.regs → ∀ c, c ∈ D.combs → ∀ o, o ∈ c.outs.map (·.1) → o ≠ R.q)
    (s : State Int) (hp : s.prepared = [])
    (old : Nat → Nat) (hst : ∀ j, j < D.regs.length → s.st (D.rid j) = (old j : Int)) :
    let s1 := propagateAll D.design s
    let s2 := clk D.design 1 s
    (∀ j R, D.regs[j]? = some R →
        s2.val R.q = Bits.put (D.wd R.q) (regNextV s1.val R (old j)) ∧ s2.st (D.rid j) = (regNextV s1.val R (old j) : Nat)) ∧
    CombFix D s1.val ∧ CombFix D s2.val ∧
    (∀ w, (∀ c, c ∈ D.combs → ∀ o, o ∈ c.outs.map (·.1) → o ≠ w) → s1.val w = s.val w) ∧
    (∀ w, (∀ c, c ∈ D.combs → ∀ o, o ∈ c.outs.map (·.1) → o ≠ w) → (∀ R, R ∈ D.regs → R.q ≠ w) → s2.val w = s.val w) ∧
    s2.prepared = [] := by
  intro s1 s2
  have hp1 : s1.prepared = [] := by rw [propagate_prepared]; exact hp
  have hst1 : ∀ j, j < D.regs.length → s1.st (D.rid j) = (old j : Int) := by
    intro j hj; rw [propagate_st]; exact hst j hj
  have hE := edge_sim D s1 hp1 hqd old hst1
  have e2 : s2 = { propagateAll D.design (settleAll (clockDrivers D.design s1 D.design.drivers)) with
                   clks := (propagateAll D.design (settleAll (clockDrivers D.design s1 D.design.drivers))).clks + 1 } := rfl
  have v2 : s2.val = (propagateAll D.design (settleAll (clockDrivers D.design s1 D.design.drivers))).val := by rw [e2]
  have t2 : s2.st = (settleAll (clockDrivers D.design s1 D.design.drivers)).st := by rw [e2]; exact propagate_st D _
  refine ⟨?_, propagate_combfix D hs s, ?_, ?_, ?_, ?_⟩
  · intro j R hR
    have hmem : R ∈ D.regs := List.mem_of_getElem? hR
    constructor
    · rw [v2, propagate_val_other D _ R.q (fun c hc => hqf R hmem c hc)]
      exact (hE.1 j R hR).1
    · rw [t2]; exact (hE.1 j R hR).2
  · rw [v2]; exact propagate_combfix D hs _
  · intro w hw; exact propagate_val_other D s w hw
  · intro w hw hr
    rw [v2, propagate_val_other D _ w hw, hE.2.1 w hr]
    exact propagate_val_other D s w hw
  · rw [e2]
    show (propagateAll D.design _).prepared = []
    rw [propagate_prepared]; exact hE.2.2.2

theorem netTrace_sim {σ ι ο : Type} (D : NetD) (m : Machine σ ι ο) (pokes : ι → List (Nat × Int)) (outs : List Nat)
    (enc : ο → List Nat) (valid : ι → Prop) (Inv : State Int → σ → Prop)
    (hstep : ∀ s st i, valid i → Inv s st →
      Inv (clk D.design 1 ((pokes i).foldl (putW D.design) s)) (m.step st i) ∧
      outs.map (clk D.design 1 ((pokes i).foldl (putW D.design) s)).val = enc (m.out (m.step st i) i)) :
    ∀ (h : List ι) (s : State Int) (st : σ), (∀ x ∈ h, valid x) → Inv s st →
      netTrace D pokes outs s h = (m.trace st h).map (fun ab => enc ab.2) := by
  intro h
  induction h with
  | nil => intro _ _ _ _; rfl
  | cons i t ih =>
    intro s st hv hI
    have hs := hstep s st i (hv i (List.mem_cons_self ..)) hI
    simp only [netTrace, Machine.trace, List.map_cons]
    rw [hs.2, ih _ _ (fun x hx => hv x (List.mem_cons_of_mem _ hx)) hs.1]

theorem putW_val (D : NetD) (s : State Int) (w : Nat) (v : Int) :
    putW D.design s (w, v) = { s with val := upd s.val w (Bits.put (D.wd w) v) } := by
  simp only [putW]
  congr 2
  exact FlatM.wput _ _

/-- power-up of a flat netlist -/
theorem init_state (D : NetD)
    (hqd : ∀ (i j : Nat) (R R' : RLeaf), D.regs[i]? = some R → D.regs[j]? = some R' → R.q = R'.q → i = j)
    (hqf : ∀ R, R ∈ D.regs → ∀ c, c ∈ D.combs → ∀ o, o ∈ c.outs.map (·.1) → o ≠ R.q) :
    (initC D.design D.st0 D.cons).prepared = [] ∧
    ∀ j R, D.regs[j]? = some R →
      (initC D.design D.st0 D.cons).st (D.rid j) = (R.rv : Int) ∧
      (initC D.design D.st0 D.cons).val R.q = Bits.put (D.wd R.q) (R.rv : Int) := by
  constructor
  · simp only [initC]
    rw [propagate_prepared, C05.foldl_putW_prepared]
  · intro j R hR
    have hmem : R ∈ D.regs := List.mem_of_getElem? hR
    constructor
    · simp only [initC]
      rw [propagate_st, C10.foldl_putW_st]
      simp only [NetD.st0, NetD.rid]
      have : D.combs.length + j - D.combs.length = j := by omega
      rw [this, hR]; simp
    · simp only [initC]
      rw [propagate_val_other D _ R.q (fun c hc => hqf R hmem c hc)]
      have hnd : (D.cons.map Prod.fst).Nodup := by
        simp only [NetD.cons, List.map_map]
        rw [List.nodup_iff_pairwise_ne, List.pairwise_map]
        rw [List.pairwise_iff_getElem]
        intro i j' hi hj' hij e
        have := hqd i j' _ _ (List.getElem?_eq_getElem hi) (List.getElem?_eq_getElem hj') e
        omega
      have := C04.foldl_putW_hit D.design D.cons
        { val := fun _ => 0, nxt := fun _ => 0, prepared := [], st := D.st0, clks := 0 } hnd (R.q, (R.rv : Int))
        (by simp only [NetD.cons]; exact List.mem_map.mpr ⟨R, hmem, rfl⟩)
      rw [this]
      simp only [C04.mval]
      exact FlatM.wput _ _

/-- C01's register rule = the Lib register on attribute-equals-wire states -/
theorem nat_regNext (w : Nat) (hasR hasE : Bool) (vr ve vd q : Nat) (hd : vd < 2 ^ w) (hq : q < 2 ^ w) :
    regClk w 0 (opt hasE ve) (opt hasR vr) vd (nat q) = nat (C01.regNext hasR hasE 0 vr ve vd q) ∧
    C01.regNext hasR hasE 0 vr ve vd q < 2 ^ w := by
  have hp := Nat.two_pow_pos w
  rw [regClk_nat w _ _ vd q hd hq]
  unfold C01.regNext
  cases hasR <;> cases hasE <;> simp [opt] <;> (repeat' split) <;> simp_all <;> omega

/-! ### values of the primitive leaves at a fixpoint, over `Leaf.*` -/
theorem fix_const {wd : Nat → Nat} {V : Nat → Nat} {ls : List CLeaf} (h : LeavesFix wd V ls) (v r : Nat)
    (hp : (Kind.const v r).leaf wd ∈ ls) : V r = Leaf.const (wd r) (v : Int) := by
  have := h.single _ hp
  simp only [Kind.out, Kind.leaf] at this
  rw [this]; exact Leaf.gen_const (wd r) v

theorem fix_mux2 {wd : Nat → Nat} {V : Nat → Nat} {ls : List CLeaf} (h : LeavesFix wd V ls) (sel s0 s1 r : Nat)
    (hp : (Kind.mux2 sel s0 s1 r).leaf wd ∈ ls) : V r = Leaf.mux2 (wd r) (V sel) (V s0) (V s1) := by
  have := h.single _ hp
  simp only [Kind.out, Kind.leaf, List.map, g_cons0, g_cons1, g_cons2] at this
  rw [this]; exact Leaf.gen_mux2 (wd r) _ _ _

theorem fix_addc {wd : Nat → Nat} {V : Nat → Nat} {ls : List CLeaf} (h : LeavesFix wd V ls) (a b ci r : Nat)
    (hp : (Kind.addc a b ci r).leaf wd ∈ ls) : V r = Leaf.addc (wd r) (V a) (V b) (V ci) := by
  have := h.single _ hp
  simp only [Kind.out, Kind.leaf, List.map, g_cons0, g_cons1, g_cons2] at this
  rw [this]; exact Leaf.gen_addc (wd r) _ _ _

theorem prim_mem (K : MNet) (p : Kind) (h : GKind.prim p ∈ K.kinds) : p.leaf K.wd ∈ K.netD.combs := by
  show p.leaf K.wd ∈ K.kinds.flatMap (GKind.leaves K.wd)
  exact List.mem_flatMap.mpr ⟨_, h, by simp [GKind.leaves]⟩

theorem gk_mem (K : MNet) (k : GKind) (h : k ∈ K.kinds) : ∀ c, c ∈ k.leaves K.wd → c ∈ K.netD.combs := by
  intro c hc
  show c ∈ K.kinds.flatMap (GKind.leaves K.wd)
  exact List.mem_flatMap.mpr ⟨_, h, hc⟩

/-! ## ModuloCounter -/

def ModInv (w : Nat) (D : NetD) (s : State Int) (st : RegSt) : Prop :=
  ∃ q, st = nat q ∧ q < 2 ^ w ∧ s.st (D.rid 0) = (q : Int) ∧ s.val 1 = q ∧ s.prepared = []

theorem mod_one_reg (w n : Nat) (order : List Nat) (j : Nat) (R : RLeaf) (h : (modNet w n order).netD.regs[j]? = some R) :
    j = 0 ∧ R = modReg := by
  rcases j with _ | j
  · simp [MNet.netD, modNet] at h; exact ⟨rfl, h.symm⟩
  · simp [MNet.netD, modNet] at h

/-- the combinational part of the ModuloCounter netlist at its fixpoint -/
theorem mod_comb (w n : Nat) (order : List Nat) (hw : 0 < w) (hn : 0 < n) (hok : (modNet w n order).okb = true)
    (V : Nat → Nat) (hfix : CombFix (modNet w n order).netD V) (q reset inc : Nat) (hq : q < 2 ^ w)
    (h1 : V 1 = q) (h2 : V 2 = reset) (h3 : V 3 = inc) :
    n ≤ 2 ^ w ∧ V 4 = modCarry w (n : Int) q ∧
    V 10 = or2 1 reset inc ∧
    V 8 = mux2 w (or2 1 reset (modCarry w (n : Int) q)) (mux2 w inc q (addS w q (const w 1))) (const w 0) := by
  let K := modNet w n order
  have NO := okb_sound K hok
  have hfx : LeavesFix K.wd V K.netD.combs := hfix
  have wdw : ∀ x, (x = 1 ∨ (5 ≤ x ∧ x ≤ 9)) → K.wd x = w := by intro x hx; simp [K, modNet, hx]
  have wd1 : ∀ x, ¬ (x = 1 ∨ (5 ≤ x ∧ x ≤ 9)) → K.wd x = 1 := by intro x hx; simp [K, modNet, hx]
  have mk : ∀ k, k ∈ modKinds w n → k ∈ K.kinds := fun k hk => hk
  have heq : GKind.eqc 1 (n - 1) 4 (eqcBits 13 w) (eqcNs 13 w) (eqcTs 13 w) ∈ K.kinds := mk _ (by simp [modKinds])
  have hokq := NO.kinds _ heq
  have hnw : n - 1 < 2 ^ w := by
    have := hokq
    simp only [GKind.okb, Bool.and_eq_true, decide_eq_true_eq] at this
    have h := this.1.1.2
    rw [wdw 1 (by simp)] at h
    exact h
  have hnw' : n ≤ 2 ^ w := by omega
  have v4 : V 4 = if q = n - 1 then 1 else 0 := by
    have := eqc_val hfx 1 (n - 1) 4 _ _ _ hokq (gk_mem K _ heq) (by rw [h1, wdw 1 (by simp)]; exact hq)
    rw [this, h1]
  have hcar : modCarry w (n : Int) q = if q = n - 1 then 1 else 0 := modCarry_spec w n q hw hn hnw' hq
  have v5 : V 5 = const w 1 := by
    have := fix_const hfx 1 5 (prim_mem K _ (mk _ (by simp [modKinds])))
    rw [this, wdw 5 (by omega)]; rfl
  have v6 : V 6 = const w 0 := by
    have := fix_const hfx 0 6 (prim_mem K _ (mk _ (by simp [modKinds])))
    rw [this, wdw 6 (by omega)]; rfl
  have v12 : V 12 = const 1 0 := by
    have := fix_const hfx 0 12 (prim_mem K _ (mk _ (by simp [modKinds])))
    rw [this, wd1 12 (by omega)]; rfl
  have v7 : V 7 = addS w q (const w 1) := by
    have := fix_addc hfx 1 5 12 7 (prim_mem K _ (mk _ (by simp [modKinds])))
    rw [this, wdw 7 (by omega), h1, v5, v12]; rfl
  have v11 : V 11 = or2 1 reset (modCarry w (n : Int) q) := by
    have := fix_or2 hfx 2 4 11 (prim_mem K _ (mk _ (by simp [modKinds])))
    rw [this, wd1 11 (by omega), h2, v4, hcar]
  have v9 : V 9 = mux2 w inc q (addS w q (const w 1)) := by
    have := fix_mux2 hfx 3 1 7 9 (prim_mem K _ (mk _ (by simp [modKinds])))
    rw [this, wdw 9 (by omega), h3, h1, v7]
  have v8 : V 8 = mux2 w (or2 1 reset (modCarry w (n : Int) q)) (mux2 w inc q (addS w q (const w 1))) (const w 0) := by
    have := fix_mux2 hfx 11 9 6 8 (prim_mem K _ (mk _ (by simp [modKinds])))
    rw [this, wdw 8 (by omega), v11, v9, v6]
  have v10 : V 10 = or2 1 reset inc := by
    have := fix_or2 hfx 2 3 10 (prim_mem K _ (mk _ (by simp [modKinds])))
    rw [this, wd1 10 (by omega), h2, h3]
  exact ⟨hnw', by rw [v4, hcar], v10, v8⟩

theorem mod_step (w n : Nat) (order : List Nat) (hw : 0 < w) (hn : 0 < n) (hok : (modNet w n order).okb = true)
    (s : State Int) (st : RegSt) (i : CounterIn) (hv : i.reset < 2 ∧ i.inc < 2)
    (hI : ModInv w (modNet w n order).netD s st) :
    let D := (modNet w n order).netD
    let s' := clk D.design 1 ((modPokes i).foldl (putW D.design) s)
    ModInv w D s' ((moduloCounter w (n : Int)).step st i) ∧
    [1, 4].map s'.val = (fun o : Nat × Nat => [o.1, o.2])
      ((moduloCounter w (n : Int)).out ((moduloCounter w (n : Int)).step st i) i) := by
  intro D s'
  let K := modNet w n order
  have NO := okb_sound K hok
  obtain ⟨q, rfl, hq, hst, hvq, hp⟩ := hI
  obtain ⟨hr, hi⟩ := hv
  let sp := (modPokes i).foldl (putW D.design) s
  have wd1 : ∀ x, ¬ (x = 1 ∨ (5 ≤ x ∧ x ≤ 9)) → D.wd x = 1 := by intro x hx; simp [D, MNet.netD, modNet, hx]
  have wdq : D.wd 1 = w := by simp [D, MNet.netD, modNet]
  have spv : sp.val = upd (upd s.val 2 i.reset) 3 i.inc := by
    simp only [sp, modPokes, List.foldl_cons, List.foldl_nil, putW_val, wd1 2 (by omega), wd1 3 (by omega), Bits.put_ofNat]
    simp [Nat.mod_eq_of_lt hr, Nat.mod_eq_of_lt hi]
  have spst : sp.st = s.st := by simp only [sp, modPokes, List.foldl_cons, List.foldl_nil, putW_val]
  have spp : sp.prepared = [] := by simp only [sp, modPokes, List.foldl_cons, List.foldl_nil, putW_val]; exact hp
  have hqd : ∀ (a b : Nat) (R R' : RLeaf), D.regs[a]? = some R → D.regs[b]? = some R' → R.q = R'.q → a = b := by
    intro a b R R' ha hb _
    rw [(mod_one_reg w n order a R ha).1, (mod_one_reg w n order b R' hb).1]
  have free : ∀ x, (x = 1 ∨ x = 2 ∨ x = 3) → ∀ c, c ∈ D.combs → ∀ o, o ∈ c.outs.map (·.1) → o ≠ x := by
    intro x hx; exact NO.free x (by simp [K, modNet]; omega)
  have hqf : ∀ R, R ∈ D.regs → ∀ c, c ∈ D.combs → ∀ o, o ∈ c.outs.map (·.1) → o ≠ R.q := by
    intro R hR
    obtain ⟨j, hj, hjR⟩ := List.mem_iff_getElem.mp hR
    rw [(mod_one_reg w n order j R (by rw [List.getElem?_eq_getElem hj, hjR])).2]
    exact free 1 (by simp)
  have hC := cycle D NO.sched hqd hqf sp spp (fun _ => q) (by
    intro j hj
    have : j = 0 := by simp [D, MNet.netD, modNet] at hj; omega
    subst this; rw [spst]; exact hst)
  obtain ⟨hreg, hfix1, hfix2, hin1, hin2, hp2⟩ := hC
  have v1 : (propagateAll D.design sp).val 1 = q := by rw [hin1 1 (free 1 (by simp)), spv]; simp [upd, hvq]
  have v2 : (propagateAll D.design sp).val 2 = i.reset := by rw [hin1 2 (free 2 (by simp)), spv]; simp [upd]
  have v3 : (propagateAll D.design sp).val 3 = i.inc := by rw [hin1 3 (free 3 (by simp)), spv]; simp [upd]
  obtain ⟨hnw, _, c10, c8⟩ := mod_comb w n order hw hn hok _ hfix1 q i.reset i.inc hq v1 v2 v3
  have hR := hreg 0 modReg (by simp [D, MNet.netD, modNet])
  have hrn : regNextV (propagateAll D.design sp).val modReg q =
      C01.regNext false true 0 0 ((propagateAll D.design sp).val 10) ((propagateAll D.design sp).val 8) q := by
    simp [regNextV, modReg, C01.regNext]
  rw [hrn, c10, c8] at hR
  have hnx := nat_regNext w false true 0 (or2 1 i.reset i.inc)
    (mux2 w (or2 1 i.reset (modCarry w (n : Int) q)) (mux2 w i.inc q (addS w q (const w 1))) (const w 0)) q (mux2_lt ..) hq
  have hstep : (moduloCounter w (n : Int)).step (nat q) i = nat (C01.regNext false true 0 0 (or2 1 i.reset i.inc)
      (mux2 w (or2 1 i.reset (modCarry w (n : Int) q)) (mux2 w i.inc q (addS w q (const w 1))) (const w 0)) q) := by
    rw [← hnx.1]
    simp only [moduloCounter, modClk, nat_q, opt]
    rfl
  have hvq' : (clk D.design 1 sp).val 1 = C01.regNext false true 0 0 (or2 1 i.reset i.inc)
      (mux2 w (or2 1 i.reset (modCarry w (n : Int) q)) (mux2 w i.inc q (addS w q (const w 1))) (const w 0)) q := by
    have := hR.1
    simp only [modReg, wdq, Bits.put_ofNat] at this
    rw [this]; exact Nat.mod_eq_of_lt hnx.2
  refine ⟨⟨_, hstep, hnx.2, hR.2, hvq', hp2⟩, ?_⟩
  rw [hstep]
  have notreg : ∀ x, x ≠ 1 → ∀ R, R ∈ D.regs → R.q ≠ x := by
    intro x hx R hR
    obtain ⟨j, hj, hjR⟩ := List.mem_iff_getElem.mp hR
    rw [(mod_one_reg w n order j R (by rw [List.getElem?_eq_getElem hj, hjR])).2]
    simp [modReg]; omega
  have w2 : (clk D.design 1 sp).val 2 = i.reset := by rw [hin2 2 (free 2 (by simp)) (notreg 2 (by omega)), spv]; simp [upd]
  have w3 : (clk D.design 1 sp).val 3 = i.inc := by rw [hin2 3 (free 3 (by simp)) (notreg 3 (by omega)), spv]; simp [upd]
  obtain ⟨_, c4, _, _⟩ := mod_comb w n order hw hn hok _ hfix2 _ i.reset i.inc hnx.2 hvq' w2 w3
  simp only [List.map, moduloCounter, nat_q]
  show [(clk D.design 1 sp).val 1, (clk D.design 1 sp).val 4] = _
  rw [hvq', c4]

/-- **ModuloCounter, netlist level**: for every width w ≥ 1, modulus n ≥ 1 and schedule such that the decidable side
    conditions `okb` hold (they imply n ≤ 2^w; harness/c09.py evaluates them on the live schedule of every imported
    instance), the constructor's netlist — 3 Constants, 2 Or2, 2 Mux2, AddCarryIn, Reg and the EqualConstant internals
    (Not/Buf for w = 1, else BitsLSBF + Minterm Nots + And2 ladder), generated leaves under `Net.Sim` from power-up —
    shows on (q, carryout) after every `poke reset,inc; clk(1)` the after-edge outputs of `Lib.moduloCounter` -/
theorem moduloCounter_net (w n : Nat) (order : List Nat) (hw : 0 < w) (hn : 0 < n) (hok : (modNet w n order).okb = true)
    (h : List CounterIn) (hv : ∀ x ∈ h, x.reset < 2 ∧ x.inc < 2) :
    let D := (modNet w n order).netD
    netTrace D modPokes [1, 4] (initC D.design D.st0 D.cons) h =
      ((moduloCounter w (n : Int)).trace (moduloCounter w (n : Int)).init h).map (fun ab => [ab.2.1, ab.2.2]) := by
  intro D
  have NO := okb_sound (modNet w n order) hok
  apply netTrace_sim D (moduloCounter w (n : Int)) modPokes [1, 4] (fun o => [o.1, o.2]) (fun x => x.reset < 2 ∧ x.inc < 2)
    (ModInv w D)
  · intro s st i hi hI; exact mod_step w n order hw hn hok s st i hi hI
  · exact hv
  · have hqd : ∀ (a b : Nat) (R R' : RLeaf), D.regs[a]? = some R → D.regs[b]? = some R' → R.q = R'.q → a = b := by
      intro a b R R' ha hb _
      rw [(mod_one_reg w n order a R ha).1, (mod_one_reg w n order b R' hb).1]
    have hqf : ∀ R, R ∈ D.regs → ∀ c, c ∈ D.combs → ∀ o, o ∈ c.outs.map (·.1) → o ≠ R.q := by
      intro R hR
      obtain ⟨j, hj, hjR⟩ := List.mem_iff_getElem.mp hR
      rw [(mod_one_reg w n order j R (by rw [List.getElem?_eq_getElem hj, hjR])).2]
      exact NO.free 1 (by simp [modNet])
    have hi := init_state D hqd hqf
    have h0 := hi.2 0 modReg (by simp [D, MNet.netD, modNet])
    refine ⟨0, regInit_zero w, Nat.two_pow_pos w, h0.1, ?_, hi.1⟩
    have := h0.2
    simp only [modReg] at this
    rw [this]; exact put_zero _

example : (modNet 3 5 [0, 1, 8, 6, 7, 5, 3, 9, 10, 11, 12, 2, 4]).okb = true := by decide

set_option maxRecDepth 16384 in
example : netTrace (modNet 2 3 [0, 1, 8, 6, 7, 5, 3, 9, 10, 2, 4]).netD modPokes [1, 4]
    (initC (modNet 2 3 [0, 1, 8, 6, 7, 5, 3, 9, 10, 2, 4]).netD.design (modNet 2 3 [0, 1, 8, 6, 7, 5, 3, 9, 10, 2, 4]).netD.st0
      (modNet 2 3 [0, 1, 8, 6, 7, 5, 3, 9, 10, 2, 4]).netD.cons)
    [⟨0, 1⟩, ⟨0, 1⟩, ⟨0, 1⟩, ⟨0, 0⟩] = [[1, 0], [2, 1], [0, 0], [0, 0]] := by decide


/-! ## ClockDivider -/

def DivInv (qw : Nat) (D : NetD) (s : State Int) (st : DivSt) : Prop :=
  ∃ c ph, st = ⟨nat c, nat ph⟩ ∧ c < 2 ^ qw ∧ ph < 2 ∧ s.st (D.rid 0) = (c : Int) ∧ s.st (D.rid 1) = (ph : Int) ∧
    s.val 3 = c ∧ s.val 1 = ph ∧ s.prepared = []

theorem div_regs (n qw : Nat) (hr : Bool) (order : List Nat) (j : Nat) (R : RLeaf)
    (h : (divNet n qw hr order).netD.regs[j]? = some R) : (j = 0 ∧ R = divCntReg) ∨ (j = 1 ∧ R = divTffReg) := by
  rcases j with _ | _ | j
  · simp [MNet.netD, divNet] at h; exact Or.inl ⟨rfl, h.symm⟩
  · simp [MNet.netD, divNet] at h; exact Or.inr ⟨rfl, h.symm⟩
  · simp [MNet.netD, divNet] at h

/-- the combinational part of the ClockDivider netlist at its fixpoint -/
theorem div_comb (n qw : Nat) (hr : Bool) (order : List Nat) (hw : 0 < qw) (hn : 0 < n) (hok : (divNet n qw hr order).okb = true)
    (V : Nat → Nat) (hfix : CombFix (divNet n qw hr order).netD V) (c ph reset : Nat) (hc : c < 2 ^ qw)
    (h1 : V 1 = ph) (h3 : V 3 = c) (h2 : hr = true → V 2 = reset) (h2' : hr = false → reset = 0) :
    n ≤ 2 ^ qw ∧ V 2 = reset ∧ V 5 = const 1 1 ∧ V 4 = modCarry qw (n : Int) c ∧
    V 11 = or2 1 reset (const 1 1) ∧
    V 9 = mux2 qw (or2 1 reset (modCarry qw (n : Int) c)) (mux2 qw (const 1 1) c (addS qw c (const qw 1))) (const qw 0) ∧
    V 15 = mux2 1 (modCarry qw (n : Int) c) ph (not1 1 ph) := by
  let K := divNet n qw hr order
  have NO := okb_sound K hok
  have hfx : LeavesFix K.wd V K.netD.combs := hfix
  have wdw : ∀ x, (x = 3 ∨ (6 ≤ x ∧ x ≤ 10)) → K.wd x = qw := by intro x hx; simp [K, divNet, hx]
  have wd1 : ∀ x, ¬ (x = 3 ∨ (6 ≤ x ∧ x ≤ 10)) → K.wd x = 1 := by intro x hx; simp [K, divNet, hx]
  have mk : ∀ k, k ∈ divKinds n qw hr → k ∈ K.kinds := fun k hk => hk
  have heq : GKind.eqc 3 (n - 1) 4 (eqcBits 16 qw) (eqcNs 16 qw) (eqcTs 16 qw) ∈ K.kinds := mk _ (by simp [divKinds])
  have hokq := NO.kinds _ heq
  have hnw : n - 1 < 2 ^ qw := by
    have := hokq
    simp only [GKind.okb, Bool.and_eq_true, decide_eq_true_eq] at this
    have h := this.1.1.2
    rw [wdw 3 (by simp)] at h
    exact h
  have hnw' : n ≤ 2 ^ qw := by omega
  have v4 : V 4 = if c = n - 1 then 1 else 0 := by
    have := eqc_val hfx 3 (n - 1) 4 _ _ _ hokq (gk_mem K _ heq) (by rw [h3, wdw 3 (by simp)]; exact hc)
    rw [this, h3]
  have hcar : modCarry qw (n : Int) c = if c = n - 1 then 1 else 0 := modCarry_spec qw n c hw hn hnw' hc
  have v2 : V 2 = reset := by
    cases hh : hr
    · have := fix_const hfx 0 2 (prim_mem K _ (mk _ (by simp [divKinds, hh])))
      rw [this, wd1 2 (by omega), h2' hh]
      exact const_zero 1
    · exact h2 hh
  have v5 : V 5 = const 1 1 := by
    have := fix_const hfx 1 5 (prim_mem K _ (mk _ (by simp [divKinds])))
    rw [this, wd1 5 (by omega)]; rfl
  have v6 : V 6 = const qw 1 := by
    have := fix_const hfx 1 6 (prim_mem K _ (mk _ (by simp [divKinds])))
    rw [this, wdw 6 (by omega)]; rfl
  have v7 : V 7 = const qw 0 := by
    have := fix_const hfx 0 7 (prim_mem K _ (mk _ (by simp [divKinds])))
    rw [this, wdw 7 (by omega)]; rfl
  have v13 : V 13 = const 1 0 := by
    have := fix_const hfx 0 13 (prim_mem K _ (mk _ (by simp [divKinds])))
    rw [this, wd1 13 (by omega)]; rfl
  have v8 : V 8 = addS qw c (const qw 1) := by
    have := fix_addc hfx 3 6 13 8 (prim_mem K _ (mk _ (by simp [divKinds])))
    rw [this, wdw 8 (by omega), h3, v6, v13]; rfl
  have v12 : V 12 = or2 1 reset (modCarry qw (n : Int) c) := by
    have := fix_or2 hfx 2 4 12 (prim_mem K _ (mk _ (by simp [divKinds])))
    rw [this, wd1 12 (by omega), v2, v4, hcar]
  have v10 : V 10 = mux2 qw (const 1 1) c (addS qw c (const qw 1)) := by
    have := fix_mux2 hfx 5 3 8 10 (prim_mem K _ (mk _ (by simp [divKinds])))
    rw [this, wdw 10 (by omega), v5, h3, v8]
  have v9 : V 9 = mux2 qw (or2 1 reset (modCarry qw (n : Int) c)) (mux2 qw (const 1 1) c (addS qw c (const qw 1))) (const qw 0) := by
    have := fix_mux2 hfx 12 10 7 9 (prim_mem K _ (mk _ (by simp [divKinds])))
    rw [this, wdw 9 (by omega), v12, v10, v7]
  have v11 : V 11 = or2 1 reset (const 1 1) := by
    have := fix_or2 hfx 2 5 11 (prim_mem K _ (mk _ (by simp [divKinds])))
    rw [this, wd1 11 (by omega), v2, v5]
  have v14 : V 14 = not1 1 ph := by
    have := fix_not1 hfx 1 14 (prim_mem K _ (mk _ (by simp [divKinds])))
    rw [this, wd1 14 (by omega), h1]
  have v15 : V 15 = mux2 1 (modCarry qw (n : Int) c) ph (not1 1 ph) := by
    have := fix_mux2 hfx 4 1 14 15 (prim_mem K _ (mk _ (by simp [divKinds])))
    rw [this, wd1 15 (by omega), v4, hcar, h1, v14]
  exact ⟨hnw', v2, v5, by rw [v4, hcar], v11, v9, v15⟩

theorem div_step (n qw : Nat) (hr : Bool) (order : List Nat) (hw : 0 < qw) (hn : 0 < n)
    (hok : (divNet n qw hr order).okb = true) (s : State Int) (st : DivSt) (i : Nat)
    (hv : i < 2 ∧ (hr = false → i = 0)) (hI : DivInv qw (divNet n qw hr order).netD s st) :
    let D := (divNet n qw hr order).netD
    let s' := clk D.design 1 ((divPokes hr i).foldl (putW D.design) s)
    DivInv qw D s' ((clockDivider (n : Int) qw).step st i) ∧
    [1].map s'.val = [(clockDivider (n : Int) qw).out ((clockDivider (n : Int) qw).step st i) i] := by
  intro D s'
  let K := divNet n qw hr order
  have NO := okb_sound K hok
  obtain ⟨c, ph, rfl, hc, hph, hst0, hst1, hv3, hv1, hp⟩ := hI
  obtain ⟨hi2, hi0⟩ := hv
  let sp := (divPokes hr i).foldl (putW D.design) s
  have wd1 : ∀ x, ¬ (x = 3 ∨ (6 ≤ x ∧ x ≤ 10)) → D.wd x = 1 := by intro x hx; simp [D, MNet.netD, divNet, hx]
  have wdq : D.wd 3 = qw := by simp [D, MNet.netD, divNet]
  have spv : sp.val = if hr then upd s.val 2 i else s.val := by
    cases hr
    · simp [sp, divPokes]
    · simp only [sp, divPokes, if_true, List.foldl_cons, List.foldl_nil, putW_val, wd1 2 (by omega), Bits.put_ofNat]
      simp [Nat.mod_eq_of_lt hi2]
  have spst : sp.st = s.st := by
    cases hr
    · simp [sp, divPokes]
    · simp only [sp, divPokes, if_true, List.foldl_cons, List.foldl_nil, putW_val]
  have spp : sp.prepared = [] := by
    cases hr
    · simpa [sp, divPokes] using hp
    · simp only [sp, divPokes, if_true, List.foldl_cons, List.foldl_nil, putW_val]; exact hp
  have hqd : ∀ (a b : Nat) (R R' : RLeaf), D.regs[a]? = some R → D.regs[b]? = some R' → R.q = R'.q → a = b := by
    intro a b R R' ha hb e
    rcases div_regs n qw hr order a R ha with ⟨rfl, rfl⟩ | ⟨rfl, rfl⟩ <;>
      rcases div_regs n qw hr order b R' hb with ⟨rfl, rfl⟩ | ⟨rfl, rfl⟩ <;> simp [divCntReg, divTffReg] at e ⊢
  have free13 : ∀ x, (x = 1 ∨ x = 3) → ∀ c', c' ∈ D.combs → ∀ o, o ∈ c'.outs.map (·.1) → o ≠ x := by
    intro x hx; exact NO.free x (by cases hr <;> simp [K, divNet] <;> omega)
  have free2 : hr = true → ∀ c', c' ∈ D.combs → ∀ o, o ∈ c'.outs.map (·.1) → o ≠ 2 := by
    intro hh; exact NO.free 2 (by simp [K, divNet, hh])
  have hqf : ∀ R, R ∈ D.regs → ∀ c', c' ∈ D.combs → ∀ o, o ∈ c'.outs.map (·.1) → o ≠ R.q := by
    intro R hR
    obtain ⟨j, hj, hjR⟩ := List.mem_iff_getElem.mp hR
    rcases div_regs n qw hr order j R (by rw [List.getElem?_eq_getElem hj, hjR]) with ⟨_, rfl⟩ | ⟨_, rfl⟩
    · exact free13 3 (by simp)
    · exact free13 1 (by simp)
  have hC := cycle D NO.sched hqd hqf sp spp (fun j => if j = 0 then c else ph) (by
    intro j hj
    have : j = 0 ∨ j = 1 := by simp [D, MNet.netD, divNet] at hj; omega
    rcases this with rfl | rfl
    · rw [spst]; simpa using hst0
    · rw [spst]; simpa using hst1)
  obtain ⟨hreg, hfix1, hfix2, hin1, hin2, hp2⟩ := hC
  have sp1 : sp.val 1 = ph := by rw [spv]; cases hr <;> simp [upd, hv1]
  have sp3 : sp.val 3 = c := by rw [spv]; cases hr <;> simp [upd, hv3]
  have sp2 : hr = true → sp.val 2 = i := by intro hh; rw [spv]; simp [hh, upd]
  have v1 : (propagateAll D.design sp).val 1 = ph := by rw [hin1 1 (free13 1 (by simp)), sp1]
  have v3 : (propagateAll D.design sp).val 3 = c := by rw [hin1 3 (free13 3 (by simp)), sp3]
  have v2 : hr = true → (propagateAll D.design sp).val 2 = i := by intro hh; rw [hin1 2 (free2 hh), sp2 hh]
  obtain ⟨hnw, c2, c5, c4, c11, c9, c15⟩ := div_comb n qw hr order hw hn hok _ hfix1 c ph i hc v1 v3 v2 hi0
  -- counter register
  have hR0 := hreg 0 divCntReg (by simp [D, MNet.netD, divNet])
  have hrn0 : regNextV (propagateAll D.design sp).val divCntReg c =
      C01.regNext false true 0 0 ((propagateAll D.design sp).val 11) ((propagateAll D.design sp).val 9) c := by
    simp [regNextV, divCntReg, C01.regNext]
  simp only [if_true] at hR0
  rw [hrn0, c11, c9] at hR0
  have hnx0 := nat_regNext qw false true 0 (or2 1 i (const 1 1))
    (mux2 qw (or2 1 i (modCarry qw (n : Int) c)) (mux2 qw (const 1 1) c (addS qw c (const qw 1))) (const qw 0)) c (mux2_lt ..) hc
  -- toggle register
  have hR1 := hreg 1 divTffReg (by simp [D, MNet.netD, divNet])
  have hrn1 : regNextV (propagateAll D.design sp).val divTffReg ph =
      C01.regNext true true 0 ((propagateAll D.design sp).val 2) ((propagateAll D.design sp).val 5) ((propagateAll D.design sp).val 15) ph := by
    simp [regNextV, divTffReg, C01.regNext]
  have e1 : ∀ x y : Nat, (if (1 : Nat) = 0 then x else y) = y := by intros; rfl
  simp only [e1] at hR1
  rw [hrn1, c2, c5, c15] at hR1
  have hnx1 := nat_regNext 1 true true i (const 1 1) (mux2 1 (modCarry qw (n : Int) c) ph (not1 1 ph)) ph (mux2_lt ..) (by simpa using hph)
  have hstep : (clockDivider (n : Int) qw).step ⟨nat c, nat ph⟩ i =
      ⟨nat (C01.regNext false true 0 0 (or2 1 i (const 1 1))
        (mux2 qw (or2 1 i (modCarry qw (n : Int) c)) (mux2 qw (const 1 1) c (addS qw c (const qw 1))) (const qw 0)) c),
       nat (C01.regNext true true 0 i (const 1 1) (mux2 1 (modCarry qw (n : Int) c) ph (not1 1 ph)) ph)⟩ := by
    rw [← hnx0.1, ← hnx1.1]
    simp only [clockDivider, modClk, tregClk, nat_q, opt]
    rfl
  have hq3 : (clk D.design 1 sp).val 3 = C01.regNext false true 0 0 (or2 1 i (const 1 1))
        (mux2 qw (or2 1 i (modCarry qw (n : Int) c)) (mux2 qw (const 1 1) c (addS qw c (const qw 1))) (const qw 0)) c := by
    have := hR0.1
    simp only [divCntReg, wdq, Bits.put_ofNat] at this
    rw [this]; exact Nat.mod_eq_of_lt hnx0.2
  have hq1 : (clk D.design 1 sp).val 1 = C01.regNext true true 0 i (const 1 1) (mux2 1 (modCarry qw (n : Int) c) ph (not1 1 ph)) ph := by
    have := hR1.1
    simp only [divTffReg, wd1 1 (by omega), Bits.put_ofNat] at this
    rw [this]; exact Nat.mod_eq_of_lt hnx1.2
  refine ⟨⟨_, _, hstep, hnx0.2, by simpa using hnx1.2, hR0.2, hR1.2, hq3, hq1, hp2⟩, ?_⟩
  rw [hstep]
  simp only [List.map, clockDivider, nat_q]
  show [(clk D.design 1 sp).val 1] = _
  rw [hq1]

/-- **ClockDivider, netlist level**: for every n ≥ 1, counter width qw ≥ 1 and schedule with `okb` (which implies
    n ≤ 2^qw; evaluated by harness/c09.py on the live schedule of every imported instance), with or without reset port
    (without: the constant-0 wire the constructor creates; the model's reset input is then 0): the constructor's
    netlist — the ModuloCounter netlist with inc = constant 1, the TReg netlist (Not, Mux2, Reg with enable = that
    constant and the same reset) — under `Net.Sim` from power-up shows on `clkout` after every `poke reset; clk(1)` the
    after-edge output of `Lib.clockDivider`.  With `clockDivider_refines` / `clockDivider_period`: clkout = ⌊k/n⌋ mod 2. -/
theorem clockDivider_net (n qw : Nat) (hr : Bool) (order : List Nat) (hw : 0 < qw) (hn : 0 < n)
    (hok : (divNet n qw hr order).okb = true) (h : List Nat) (hv : ∀ x ∈ h, x < 2 ∧ (hr = false → x = 0)) :
    let D := (divNet n qw hr order).netD
    netTrace D (divPokes hr) [1] (initC D.design D.st0 D.cons) h =
      ((clockDivider (n : Int) qw).trace (clockDivider (n : Int) qw).init h).map (fun ab => [ab.2]) := by
  intro D
  have NO := okb_sound (divNet n qw hr order) hok
  apply netTrace_sim D (clockDivider (n : Int) qw) (divPokes hr) [1] (fun o => [o]) (fun x => x < 2 ∧ (hr = false → x = 0))
    (DivInv qw D)
  · intro s st i hi hI; exact div_step n qw hr order hw hn hok s st i hi hI
  · exact hv
  · have hqd : ∀ (a b : Nat) (R R' : RLeaf), D.regs[a]? = some R → D.regs[b]? = some R' → R.q = R'.q → a = b := by
      intro a b R R' ha hb e
      rcases div_regs n qw hr order a R ha with ⟨rfl, rfl⟩ | ⟨rfl, rfl⟩ <;>
        rcases div_regs n qw hr order b R' hb with ⟨rfl, rfl⟩ | ⟨rfl, rfl⟩ <;> simp [divCntReg, divTffReg] at e ⊢
    have free13 : ∀ x, (x = 1 ∨ x = 3) → ∀ c', c' ∈ D.combs → ∀ o, o ∈ c'.outs.map (·.1) → o ≠ x := by
      intro x hx; exact NO.free x (by cases hr <;> simp [divNet] <;> omega)
    have hqf : ∀ R, R ∈ D.regs → ∀ c', c' ∈ D.combs → ∀ o, o ∈ c'.outs.map (·.1) → o ≠ R.q := by
      intro R hR
      obtain ⟨j, hj, hjR⟩ := List.mem_iff_getElem.mp hR
      rcases div_regs n qw hr order j R (by rw [List.getElem?_eq_getElem hj, hjR]) with ⟨_, rfl⟩ | ⟨_, rfl⟩
      · exact free13 3 (by simp)
      · exact free13 1 (by simp)
    have hi := init_state D hqd hqf
    have h0 := hi.2 0 divCntReg (by simp [D, MNet.netD, divNet])
    have h1 := hi.2 1 divTffReg (by simp [D, MNet.netD, divNet])
    refine ⟨0, 0, ?_, Nat.two_pow_pos qw, by decide, h0.1, h1.1, ?_, ?_, hi.1⟩
    · simp [clockDivider, regInit_zero]
    · have := h0.2; simp only [divCntReg] at this; rw [this]; exact put_zero _
    · have := h1.2; simp only [divTffReg] at this; rw [this]; exact put_zero _

example : (divNet 5 3 true [0, 1, 2, 9, 7, 8, 6, 4, 10, 11, 12, 13, 3, 5, 14, 15]).okb = true := by decide

set_option maxRecDepth 32768 in
example : netTrace (divNet 2 2 false [0, 1, 2, 3, 10, 8, 9, 7, 5, 11, 12, 4, 6, 13, 14]).netD (divPokes false) [1]
    (initC (divNet 2 2 false [0, 1, 2, 3, 10, 8, 9, 7, 5, 11, 12, 4, 6, 13, 14]).netD.design
      (divNet 2 2 false [0, 1, 2, 3, 10, 8, 9, 7, 5, 11, 12, 4, 6, 13, 14]).netD.st0
      (divNet 2 2 false [0, 1, 2, 3, 10, 8, 9, 7, 5, 11, 12, 4, 6, 13, 14]).netD.cons)
    [0, 0, 0, 0, 0] = [[0], [1], [1], [0], [0]] := by decide


end C09M
