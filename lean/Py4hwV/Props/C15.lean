import Py4hwV.Proofs.C15Render
import Py4hwV.Proofs.C15Capture
import Py4hwV.Proofs.C15Net
import Py4hwV.Props.C06
/-
  C15 — Waveform capture records exactly what the wires carried, once per cycle.

  Model: Proto/Waveform.lean (class Waveform, statement by statement), Proto/WaveformNet.lean (the Waveform as a
  clockable leaf of Net.Sim).  Helper developments: Proofs/C15Render (run-length / 2-state encoding and its decoder),
  Proofs/C15Capture (constructor de-duplication, clock, clear, runs), Proofs/C15Net (clock phase of a cycle).

  Headline theorems (all in namespace C15; the ones not stated here live in the Proofs files):
    wavedrom_roundtrip, wavedrom_roundtrip_wide, wavedrom_span, render_injective         (Proofs/C15Render)
    init_inv, init_raises_iff, init_by_identity, capture_model, clear_resets, alias_share, no_raise  (Proofs/C15Capture)
    clockDrivers_val, clkCycle_recorder, capture_gated, capture_clk                       (Proofs/C15Net)
    getWavedrom_rows / _decodes / _span / _clk, capture_once_per_cycle, waveform_end_to_end, gated_counterexample (here)
    session_capture, session_render_spec, session_dict_spec, session_queries_transparent   (Props/C15Session.lean, imports this file:
                                                        arbitrary operation lists with queries, several Waveform objects)
-/
namespace C15
open Net Waveform

/-! ### the whole `get_wavedrom` dictionary -/

theorem zip_map_self {α β γ : Type} (l : List α) (f : α → β) (g : α × β → γ) :
    (l.zip (l.map f)).map g = l.map (fun x => g (x, f x)) := by
  induction l with
  | nil => rfl
  | cons a l ih => simp [ih]

/-- the row rendered for a watch-list entry -/
def rowOf (width : Nat → Nat) (wf : Wf) (short : Bool) (e : Entry) : Row :=
  (renderRow width wf short e (fmtOf width e)).1

/-- one row per watch-list entry, in watch-list order, repetitions and aliases included -/
theorem getWavedrom_rows (width : Nat → Nat) (wf : Wf) (short : Bool) (h : Inv width wf) :
    (getWavedrom width wf short).rows = wf.wires.map (rowOf width wf short) := by
  simp only [getWavedrom, List.map_map]
  rw [h.fmt, zip_map_self]
  rfl

/-- every row of the rendering decodes back to the recorded samples of its wire, spans them exactly, and carries the
    entry's name -/
theorem getWavedrom_decodes (width : Nat → Nat) (wf : Wf) (short : Bool) (h : Inv width wf)
    (hfit : ∀ w x, x ∈ samples wf w → x < 2 ^ width w) :
    ∀ e ∈ wf.wires, ∃ w, e.wire? = some w ∧
      decodeWave (width w) (rowOf width wf short e).wave (rowOf width wf short e).data = some (samples wf w) ∧
      (rowOf width wf short e).wave.length = (samples wf w).length + 2 ∧
      (rowOf width wf short e).name = (if short then e.short else e.full) := by
  intro e he
  obtain ⟨w, h1, _⟩ := h.mem e he
  refine ⟨w, h1, ?_, ?_, ?_⟩
  · simp only [rowOf, renderRow, fmtOf, h1, Option.getD_some]
    exact wavedrom_roundtrip (width w) (samples wf w) (hfit w)
  · simp only [rowOf, renderRow, fmtOf, h1, Option.getD_some]
    exact wavedrom_span (width w) _ (samples wf w) (bit_of_range _ _ (hfit w))
  · simp [rowOf, renderRow]

/-- **getWavedrom_span**: when n cycles are recorded, every signal row has n + 2 characters (n = 0: `xx`) -/
theorem getWavedrom_span (width : Nat → Nat) (wf : Wf) (short : Bool) (h : Inv width wf)
    (hfit : ∀ w x, x ∈ samples wf w → x < 2 ^ width w) (n : Nat)
    (hn : ∀ e ∈ wf.wires, ∀ w, e.wire? = some w → (samples wf w).length = n) :
    ∀ r ∈ (getWavedrom width wf short).rows, r.wave.length = n + 2 := by
  rw [getWavedrom_rows width wf short h]
  intro r hr
  obtain ⟨e, he, rfl⟩ := List.mem_map.mp hr
  obtain ⟨w, h1, _, h3, _⟩ := getWavedrom_decodes width wf short h hfit e he
  rw [h3, hn e he w h1]

/-- **getWavedrom_clk**: the clock row is `P`, one dot per recorded cycle, `x`: it spans the same n + 2 characters and
    decodes to n (n = 0: `Px`) -/
theorem getWavedrom_clk (width : Nat → Nat) (wf : Wf) (short : Bool) (h : Inv width wf) (hne : wf.wires ≠ []) (n : Nat)
    (hn : ∀ e ∈ wf.wires, ∀ w, e.wire? = some w → (samples wf w).length = n) :
    (getWavedrom width wf short).clk.wave = 'P' :: (List.replicate n '.' ++ ['x']) ∧
    (getWavedrom width wf short).clk.wave.length = n + 2 ∧
    decodeClk (getWavedrom width wf short).clk.wave = some n := by
  have key : (((wf.wires.zip wf.format).map (fun p => renderRow width wf short p.1 p.2)).getLast?.map (·.2)).getD 0 = n := by
    rw [h.fmt, zip_map_self, List.getLast?_map]
    have hl := List.getLast?_eq_some_getLast hne
    rw [hl]
    have hm := List.getLast_mem hne
    obtain ⟨w, h1, _⟩ := h.mem _ hm
    simp only [Option.map_some, Option.getD_some, renderRow, h1]
    exact hn _ hm w h1
  have hw : (getWavedrom width wf short).clk.wave = 'P' :: (List.replicate n '.' ++ ['x']) := by
    simp only [getWavedrom]
    rw [key]
  refine ⟨hw, by rw [hw]; simp, ?_⟩
  rw [hw]
  simp [decodeClk, List.all_replicate]

/-! ### capture, tied to the simulator model -/

variable {σ : Type}

theorem run_clocks_data (wf : Wf) (vs : List Net.Val) :
    (Waveform.run wf (vs.map Waveform.Op.clock)).data = vs.foldl (fun D v => clockData wf.uniq v D) wf.data ∧
    (Waveform.run wf (vs.map Waveform.Op.clock)).uniq = wf.uniq ∧ (Waveform.run wf (vs.map Waveform.Op.clock)).wires = wf.wires ∧
    (Waveform.run wf (vs.map Waveform.Op.clock)).format = wf.format ∧ (Waveform.run wf (vs.map Waveform.Op.clock)).name = wf.name := by
  unfold Waveform.run
  induction vs generalizing wf with
  | nil => simp
  | cons v vs ih =>
    simp only [List.map_cons, List.foldl_cons]
    obtain ⟨a, b, c, e, f⟩ := ih (applyOp wf (Waveform.Op.clock v))
    exact ⟨a, b, c, e, f⟩

theorem foldl_track_clocks (w : Nat) (vs : List Net.Val) (acc : List Nat) :
    (vs.map Waveform.Op.clock).foldl (track w) acc = acc ++ vs.map (· w) := by
  induction vs generalizing acc with
  | nil => simp
  | cons v vs ih => simp [track, ih]

/-- the Waveform object whose `data` attribute is read from the simulator state -/
def wfAt (wf0 : Wf) (D : Dict) : Wf := { wf0 with data := D }

/-- **capture_once_per_cycle**: a Waveform scheduled once under an un-gated clock driver, in ANY design, started in
    ANY state, after `Simulator.clk(n)`: every watch-list entry (wire, port alias, repetition) has its previous samples
    followed by exactly n new ones, the t-th being the value the wire carried going into edge t — whatever the other
    clockables do and wherever the Waveform sits in the clocking order. -/
theorem capture_once_per_cycle (d : Design σ) (k : Nat) (proj : σ → Dict) (dr : Driver)
    (hs : SchedOnce d k dr) (hen : dr.enable = none)
    (width : Nat → Nat) (wf0 : Wf) (hinv : Inv width wf0) (hr : IsRecorder d k wf0.uniq proj)
    (s : State σ) (hdata : proj (s.st k) = wf0.data) (n : Nat) :
    ∀ e ∈ wf0.wires, ∃ w, e.wire? = some w ∧
      samples (wfAt wf0 (proj ((clk d n s).st k))) w
        = samples wf0 w ++ (edges d n (propagateAll d s)).map (· w) ∧
      (samples (wfAt wf0 (proj ((clk d n s).st k))) w).length = (samples wf0 w).length + n := by
  intro e he
  obtain ⟨w, h1, h2⟩ := hinv.mem e he
  have hc := capture_clk d k wf0.uniq proj hr dr hs hen n s
  obtain ⟨r1, _, _, _, _⟩ := run_clocks_data wf0 (edges d n (propagateAll d s))
  have hsame : samples (wfAt wf0 (proj ((clk d n s).st k))) w
      = samples (Waveform.run wf0 ((edges d n (propagateAll d s)).map Waveform.Op.clock)) w := by
    simp only [samples, wfAt]
    rw [hc, hdata, r1]
  have hm := capture_model width ((edges d n (propagateAll d s)).map Waveform.Op.clock) wf0 hinv w h2
  rw [foldl_track_clocks] at hm
  refine ⟨w, h1, hsame.trans hm, ?_⟩
  rw [hsame.trans hm]
  simp [edges_length]

theorem dictGet_none_of_not_mem (dd : Dict) (w : Nat) (h : w ∉ keys dd) : dictGet? dd w = none := by
  induction dd with
  | nil => rfl
  | cons p dd ih =>
    obtain ⟨k', l'⟩ := p
    simp only [keys, List.map_cons, List.mem_cons, not_or] at h
    have e : ¬ k' = w := fun e => h.1 e.symm
    simp only [dictGet?, e, if_false]
    exact ih h.2

/-- all pre-edge values of a run fit their widths (C06) -/
theorem edges_fit (d : Design σ) (n : Nat) (s : State σ) (h : C06.Inv d s) :
    ∀ v ∈ edges d n s, ∀ w, v w < 2 ^ d.width w := by
  induction n generalizing s with
  | zero => intro v hv; simp [edges] at hv
  | succ n ih =>
    intro v hv
    simp only [edges, List.mem_cons] at hv
    rcases hv with rfl | hv
    · exact h.1
    · exact ih (clkCycle d s) (C06.inv_clkCycle d s h) v hv

/-- **waveform_end_to_end**: the complete property for a freshly constructed Waveform on any design, any state with
    in-range wire values, any n ≥ 0: one row per watch-list entry; the row of each entry decodes to the sequence of
    values its wire carried going into the n edges (which is also what getDict() holds); every row and the clock row
    span n + 2 characters and the clock row decodes to n. -/
theorem waveform_end_to_end (d : Design σ) (k : Nat) (proj : σ → Dict) (dr : Driver)
    (hs : SchedOnce d k dr) (hen : dr.enable = none)
    (name : List Char) (wires : List Entry) (wf0 : Wf) (h0 : init d.width name wires = some wf0)
    (hr : IsRecorder d k wf0.uniq proj)
    (s : State σ) (hfit : C06.Inv d s) (hdata : proj (s.st k) = wf0.data) (n : Nat) (short : Bool) :
    let wf := wfAt wf0 (proj ((clk d n s).st k))
    let wd := getWavedrom d.width wf short
    let E := edges d n (propagateAll d s)
    wd.rows = wires.map (rowOf d.width wf short) ∧
    (∀ e ∈ wires, ∃ w, e.wire? = some w ∧
        samples wf w = E.map (· w) ∧
        decodeWave (d.width w) (rowOf d.width wf short e).wave (rowOf d.width wf short e).data = some (E.map (· w)) ∧
        (rowOf d.width wf short e).wave.length = n + 2) ∧
    wd.clk.wave.length = n + 2 ∧ decodeClk wd.clk.wave = some n := by
  intro wf wd E
  obtain ⟨hinv0, hw0, _, hs0⟩ := init_inv d.width name wires wf0 h0
  have hinv : Inv d.width wf := ⟨hinv0.nodup, by
      obtain ⟨r1, _⟩ := run_clocks_data wf0 E
      have hc := capture_clk d k wf0.uniq proj hr dr hs hen n s
      show keys (proj ((clk d n s).st k)) = wf0.uniq
      rw [hc, hdata, ← r1]
      have hu := (run_clocks_data wf0 E).2.1
      rw [← hu]
      exact (inv_run d.width _ wf0 hinv0).keys, hinv0.mem, hinv0.only, hinv0.fmt⟩
  have hwires : wf.wires = wires := hw0
  have hcap := capture_once_per_cycle d k proj dr hs hen d.width wf0 hinv0 hr s hdata n
  have hEfit := edges_fit d n (propagateAll d s) (C06.inv_propagateAll d s hfit)
  have hsamp : ∀ e ∈ wires, ∃ w, e.wire? = some w ∧ samples wf w = E.map (· w) := by
    intro e he
    obtain ⟨w, h1, h2, _⟩ := hcap e (hw0 ▸ he)
    exact ⟨w, h1, by rw [h2, hs0 w]; simp [E]⟩
  have hfitS : ∀ w x, x ∈ samples wf w → x < 2 ^ d.width w := by
    intro w x hx
    by_cases hu : w ∈ wf0.uniq
    · obtain ⟨e, he, hw⟩ := hinv0.only w hu
      obtain ⟨w', h1, h2⟩ := hsamp e (hw0 ▸ he)
      have : w' = w := by rw [hw] at h1; exact (Option.some.inj h1).symm
      subst this
      rw [h2] at hx
      obtain ⟨v, hv, rfl⟩ := List.mem_map.mp hx
      exact hEfit v hv w'
    · have hk : w ∉ keys wf.data := by rw [hinv.keys]; exact hu
      have : dictGet? wf.data w = none := dictGet_none_of_not_mem _ _ hk
      simp [samples, this] at hx
  have hlen : ∀ e ∈ wf.wires, ∀ w, e.wire? = some w → (samples wf w).length = n := by
    intro e he w hw
    obtain ⟨w', h1, h2⟩ := hsamp e (hwires ▸ he)
    have : w' = w := by rw [hw] at h1; exact (Option.some.inj h1).symm
    subst this
    rw [h2]; simp [E, edges_length]
  have hne : wf.wires ≠ [] := by
    rw [hwires]; intro e
    have := (init_raises_iff d.width name wires).mpr (Or.inl e)
    rw [this] at h0; cases h0
  refine ⟨by rw [← hwires]; exact getWavedrom_rows d.width wf short hinv, ?_, ?_⟩
  · intro e he
    obtain ⟨w, h1, h2⟩ := hsamp e he
    obtain ⟨w', g1, g2, g3, _⟩ := getWavedrom_decodes d.width wf short hinv hfitS e (hwires ▸ he)
    have : w' = w := by rw [h1] at g1; exact (Option.some.inj g1).symm
    subst this
    refine ⟨w', h1, h2, by rw [g2, h2], ?_⟩
    rw [g3, hlen e (hwires ▸ he) w' h1]
  · obtain ⟨_, c2, c3⟩ := getWavedrom_clk d.width wf short hinv hne n hlen
    exact ⟨c2, c3⟩

/-! ### the forced hypothesis: a recorder inside a gated clock domain -/

/-- a 1-bit wire 1 (enable, driven 0) gates the recorder's driver; wire 2 is watched -/
def gatedDesign : Design (Unit × Dict) :=
  withRecorders
    { width := fun _ => 1, leaf := fun _ => { prop := fun _ s => (s, []), clock := fun _ s => (s, []) },
      order := [], drivers := [{ enable := some 1, clockables := [0] }] }
    [(0, [2])]

/-- "one sample per SIMULATED cycle" is false for a Waveform under a gated clock: 3 cycles are simulated with the
    enable at 0 and nothing is recorded (capture_gated gives the exact behaviour: one sample per ENABLED cycle).
    Full statement kept in `capture_once_per_cycle` under `dr.enable = none`. -/
theorem gated_counterexample :
    ((clk gatedDesign 3 (Net.init gatedDesign (st0WithRecorders (fun _ => ()) [(0, [2])]))).st 0).2 = [(2, [])] ∧
    (clk gatedDesign 3 (Net.init gatedDesign (st0WithRecorders (fun _ => ()) [(0, [2])]))).clks = 3 := by
  decide

/-! ### non-vacuity -/

/-- watch list: wire 1 (1 bit), wire 2 (8 bits), a port of wire 2, wire 1 again -/
def exWires : List Entry :=
  [{ obj := .wire 1, full := "a".toList }, { obj := .wire 2, full := "b".toList },
   { obj := .port (some 2), full := "p".toList }, { obj := .wire 1, full := "a".toList }]

def exWidth : Nat → Nat := fun w => if w = 1 then 1 else 8

def exVals : List Net.Val :=
  [fun w => if w = 1 then 1 else 5, fun w => if w = 1 then 1 else 5, fun w => if w = 1 then 0 else 255,
   fun w => if w = 1 then 0 else 16]

def exWf : Option Wf := (init exWidth "wf".toList exWires).map (fun wf => Waveform.run wf (exVals.map Waveform.Op.clock))

-- de-duplication, shared lists, run-length dots, bit characters, hex labels, frame and clock row
example : (exWf.map (·.uniq)) = some [1, 2] := by decide
example : (exWf.map getDict) = some [(1, [1, 1, 0, 0]), (2, [5, 5, 255, 16])] := by decide
example : (exWf.map (fun wf => (getWavedrom exWidth wf).rows.map (fun r => (String.ofList r.wave, r.data.map String.ofList))))
    = some [("x1.0.x", []), ("x2.22x", ["5", "FF", "10"]), ("x2.22x", ["5", "FF", "10"]), ("x1.0.x", [])] := by decide
example : (exWf.map (fun wf => String.ofList (getWavedrom exWidth wf).clk.wave)) = some "P....x" := by decide
example : decodeWave 8 "x2.22x".toList ["5".toList, "FF".toList, "10".toList] = some [5, 5, 255, 16] := by decide
example : decodeWave 1 "x1.0.x".toList [] = some [1, 1, 0, 0] := by decide
-- zero cycles
example : ((init exWidth "wf".toList exWires).map (fun wf => (getWavedrom exWidth wf).rows.map (·.wave)))
    = some ["xx".toList, "xx".toList, "xx".toList, "xx".toList] := by decide
example : decodeWave 8 "xx".toList [] = some [] := by decide
-- clear() between runs
example : (exWf.map (fun wf => getDict (Waveform.run wf [Waveform.Op.clear, Waveform.Op.clock (fun _ => 7)]))) = some [(1, [7]), (2, [7])] := by decide
-- the decoder rejects malformed rows (so `= some samples` says something)
example : decodeWave 8 "x2.2x".toList ["5".toList] = none := by decide
example : decodeWave 8 "x.2x".toList ["5".toList] = none := by decide
example : decodeWave 8 "x2x".toList ["5g".toList] = none := by decide
-- identity, not name: wires 5 and 6 are both called "q" (internal wires of sibling blocks) -> two records;
-- wire 5 under three different names (itself, a port, a repetition) -> one record
example : ((init exWidth [] [{ obj := .wire 5, full := "/s1[q]".toList, short := "q".toList },
                             { obj := .wire 6, full := "/s2[q]".toList, short := "q".toList },
                             { obj := .port (some 5), full := "/s1/buf[a]".toList, short := "a".toList },
                             { obj := .wire 5, full := "/s1[q]".toList, short := "q".toList }]).map
            (fun wf => getDict (Waveform.run wf [Waveform.Op.clock (fun w => w * 2)])))
    = some [(5, [10]), (6, [12])] := by decide
-- the constructor raises on an empty list / unconnected port
example : init exWidth [] [] = none := by decide
example : init exWidth [] [{ obj := .port none }] = none := by decide

/-- the hypotheses of the simulator-level theorems are satisfiable: an un-gated recorder (leaf 1) next to a counter-like
    leaf 0 that prepares wire 2 := wire 2 + 1 each cycle -/
def exDesign : Design (Unit × Dict) :=
  withRecorders
    { width := fun _ => 8,
      leaf := fun _ => { prop := fun _ s => (s, []), clock := fun v s => (s, [(2, (v 2 : Int) + 1)]) },
      order := [], drivers := [{ enable := none, clockables := [1, 0] }] }
    [(1, [2])]

example : SchedOnce exDesign 1 { enable := none, clockables := [1, 0] } :=
  ⟨⟨[], [], rfl, by simp, by simp⟩, by decide⟩
example : IsRecorder exDesign 1 [2] Prod.snd := withRecorders_isRecorder _ _ 1 [2] rfl (by simp)
example : ((clk exDesign 4 (Net.init exDesign (st0WithRecorders (fun _ => ()) [(1, [2])]))).st 1).2 = [(2, [0, 1, 2, 3])] := by
  decide

end C15
