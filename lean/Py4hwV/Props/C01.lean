import Py4hwV.Verilog.Sem
import Py4hwV.Lib.Leaf
/-
  C01 — Generated Verilog behaves like the simulated structural design: the universally quantified part.

  For every inlinable primitive, the expression the emitter writes (rtl_generation.py Inline*), read under the IEEE 1364
  sizing/signedness rules of `V.eval`, assigned to a net of ANY width `rw`, for operands of ANY widths and ANY values,
  yields exactly the value the Python leaf lands on its output wire (`Leaf.*`, bridged in Lib/Leaf.lean to the code
  generated from the Python source).  Where that is false of the emitter as it stands, the negative is proved by a
  concrete witness and the positive is kept under the forced hypothesis.
-/
namespace C01
open V

/-- net/variable `n` is declared with width `w` (unsigned) and currently carries the known value `v < 2^w` -/
structure Known (r : Rd) (n : String) (w v : Nat) : Prop where
  info : r.info n = some { width := w }
  val : r.val n = ⟨w, v, true⟩
  lt : v < 2 ^ w

theorem selfW_id {r : Rd} {n : String} {w v : Nat} (h : Known r n w v) : selfW r (.id n) = w := by
  simp [selfW, widthOf, h.info]

theorem isSg_id {r : Rd} {n : String} {w v : Nat} (h : Known r n w v) : isSg r (.id n) = false := by
  simp [isSg, signedOf, h.info]

theorem widthOf_k {r : Rd} {n : String} {w v : Nat} (h : Known r n w v) : widthOf r n = w := by
  simp [widthOf, h.info]

theorem signedOf_k {r : Rd} {n : String} {w v : Nat} (h : Known r n w v) : signedOf r n = false := by
  simp [signedOf, h.info]

theorem ext_known (W w v : Nat) (hv : v < 2 ^ w) (hW : w ≤ W) : ext W false ⟨w, v, true⟩ = ⟨W, v, true⟩ := by
  unfold ext
  simp only [Bool.not_true, Bool.false_eq_true, if_false, Bool.false_and]
  by_cases h : W ≤ w
  · have : W = w := by omega
    subst this
    simp [Nat.mod_eq_of_lt hv]
  · simp [h]

theorem eval_id {r : Rd} {n : String} {w v : Nat} (h : Known r n w v) (W : Nat) (hW : w ≤ W) :
    eval r W false (.id n) = ⟨W, v, true⟩ := by
  simp only [eval, h.val]
  exact ext_known W w v h.lt hW

theorem mod_mod_pow (n a b : Nat) (h : a ≤ b) : (n % 2 ^ b) % 2 ^ a = n % 2 ^ a :=
  Nat.mod_mod_of_dvd n (Nat.pow_dvd_pow 2 h)

/-- generic shape of `assign r = a OP b` for the context-determined binary operators -/
theorem evalAssign_arith {r : Rd} {a b : String} {wa wb va vb : Nat} (op : String) (rw : Nat)
    (h1 : isRel op = false) (h2 : isLog op = false) (h3 : isShift op = false)
    (ha : Known r a wa va) (hb : Known r b wb vb) :
    evalAssign r rw (.bin op (.id a) (.id b)) =
      (let W := max rw (max wa wb)
       let x := arith op W false ⟨W, va, true⟩ ⟨W, vb, true⟩
       if x.k then ⟨rw, x.v % 2 ^ rw, true⟩ else BV.x rw) := by
  simp only [evalAssign, selfW, isSg, h1, h2, h3, widthOf_k ha, widthOf_k hb, signedOf_k ha, signedOf_k hb, eval,
    Bool.false_eq_true, if_false, Bool.and_self, Bool.or_self, ha.val, hb.val]
  rw [ext_known _ _ _ ha.lt (by omega), ext_known _ _ _ hb.lt (by omega)]

theorem inline_and2 {r : Rd} {a b : String} {wa wb va vb : Nat} (rw : Nat) (ha : Known r a wa va) (hb : Known r b wb vb) :
    evalAssign r rw (.bin "and" (.id a) (.id b)) = ⟨rw, Leaf.and2 rw va vb, true⟩ := by
  rw [evalAssign_arith "and" rw (by decide) (by decide) (by decide) ha hb]
  simp [arith, Leaf.and2]

theorem inline_or2 {r : Rd} {a b : String} {wa wb va vb : Nat} (rw : Nat) (ha : Known r a wa va) (hb : Known r b wb vb) :
    evalAssign r rw (.bin "or" (.id a) (.id b)) = ⟨rw, Leaf.or2 rw va vb, true⟩ := by
  rw [evalAssign_arith "or" rw (by decide) (by decide) (by decide) ha hb]
  simp [arith, Leaf.or2]

theorem inline_xor2 {r : Rd} {a b : String} {wa wb va vb : Nat} (rw : Nat) (ha : Known r a wa va) (hb : Known r b wb vb) :
    evalAssign r rw (.bin "xor" (.id a) (.id b)) = ⟨rw, (va ^^^ vb) % 2 ^ rw, true⟩ := by
  rw [evalAssign_arith "xor" rw (by decide) (by decide) (by decide) ha hb]
  simp [arith]

theorem inline_mul {r : Rd} {a b : String} {wa wb va vb : Nat} (rw : Nat) (ha : Known r a wa va) (hb : Known r b wb vb) :
    evalAssign r rw (.bin "mul" (.id a) (.id b)) = ⟨rw, Leaf.mul rw va vb, true⟩ := by
  rw [evalAssign_arith "mul" rw (by decide) (by decide) (by decide) ha hb]
  simp only [arith, BV.mk', Bool.and_self, Bool.not_true, Bool.false_eq_true, if_false, if_true, Leaf.mul]
  rw [mod_mod_pow _ _ _ (by omega)]

theorem inline_sub {r : Rd} {a b : String} {wa wb va vb : Nat} (rw : Nat) (ha : Known r a wa va) (hb : Known r b wb vb) :
    evalAssign r rw (.bin "sub" (.id a) (.id b)) = ⟨rw, Leaf.sub rw va vb, true⟩ := by
  rw [evalAssign_arith "sub" rw (by decide) (by decide) (by decide) ha hb]
  simp only [arith, BV.mk', Bool.and_self, Bool.not_true, Bool.false_eq_true, if_false, if_true, Leaf.sub]
  rw [mod_mod_pow _ _ _ (by omega)]
  congr 1
  -- (va + (2^W - vb % 2^W)) % 2^rw = put rw (va - vb)
  have hW : rw ≤ max rw (max wa wb) := by omega
  have hvb : vb < 2 ^ (max rw (max wa wb)) :=
    Nat.lt_of_lt_of_le hb.lt (Nat.pow_le_pow_right (by decide) (by omega))
  rw [Nat.mod_eq_of_lt hvb]
  have e : ((va:Int) - (vb:Int)) = ((va + (2 ^ (max rw (max wa wb)) - vb) : Nat) : Int)
      + (-(2 ^ (max rw (max wa wb) - rw) : Nat) : Int) * (2:Int) ^ rw := by
    have hp : (2 ^ (max rw (max wa wb)) : Nat) = 2 ^ (max rw (max wa wb) - rw) * 2 ^ rw := by
      rw [← Nat.pow_add]; congr 1; omega
    have h2 : ((2 ^ rw : Nat) : Int) = (2:Int) ^ rw := by simp
    rw [← h2, Int.neg_mul, ← Int.natCast_mul, ← hp]
    omega
  rw [e, Bits.put_add_mul, Bits.put_ofNat]


/-- unsized decimal literal `n` (the emitter prints Python ints in decimal) -/
def lit (n : Nat) : Expr := .num none true n true

theorem eval_lit_self (r : Rd) (n : Nat) (h : n < 2 ^ 32) : eval r 32 false (lit n) = ⟨32, n, true⟩ := by
  simp [lit, eval, BV.mk', ext, Nat.mod_eq_of_lt h]

theorem put_ofNat_sub (rw W x : Nat) (hW : rw ≤ W) (hx : x < 2 ^ W) :
    (2 ^ W - 1 - x) % 2 ^ rw = 2 ^ rw - 1 - x % 2 ^ rw := by
  rw [← Leaf.put_lnot rw x, ← Bits.put_ofNat]
  apply Bits.put_congr
  have hp : (2 ^ W : Nat) = 2 ^ (W - rw) * 2 ^ rw := by rw [← Nat.pow_add]; congr 1; omega
  have h2 : ((2 ^ rw : Nat) : Int) = (2:Int) ^ rw := by simp
  have e : Py.lnot (x:Int) = ((2 ^ W - 1 - x : Nat) : Int) + (-((2 ^ (W - rw) : Nat) : Int)) * (2:Int) ^ rw := by
    unfold Py.lnot
    rw [← h2, Int.neg_mul, ← Int.natCast_mul, ← hp]
    omega
  rw [e, Int.add_mul_emod_self_right]

theorem inline_not {r : Rd} {a : String} {wa va : Nat} (rw : Nat) (ha : Known r a wa va) :
    evalAssign r rw (.un "not" (.id a)) = ⟨rw, Leaf.not1 rw va, true⟩ := by
  simp [evalAssign, isRel, isLog, isShift, selfW, isSg, eval, widthOf_k ha, signedOf_k ha, ha.val, beq_self_eq_true, if_true]
  rw [ext_known _ _ _ ha.lt (by omega)]
  simp only [if_true, Leaf.not1]
  congr 1
  apply put_ofNat_sub _ _ _ (by omega)
  exact Nat.lt_of_lt_of_le ha.lt (Nat.pow_le_pow_right (by decide) (by omega))

/-- Buf and ZeroExtend are both emitted as `assign r = a` -/
theorem inline_buf {r : Rd} {a : String} {wa va : Nat} (rw : Nat) (ha : Known r a wa va) :
    evalAssign r rw (.id a) = ⟨rw, Leaf.buf rw va, true⟩ := by
  simp [evalAssign, isRel, isLog, isShift, selfW, isSg, eval, widthOf_k ha, signedOf_k ha, ha.val]
  rw [ext_known _ _ _ ha.lt (by omega)]
  simp [Leaf.buf]

theorem inline_nand2 {r : Rd} {a b : String} {wa wb va vb : Nat} (rw : Nat) (ha : Known r a wa va) (hb : Known r b wb vb) :
    evalAssign r rw (.un "not" (.bin "and" (.id a) (.id b))) = ⟨rw, Leaf.not1 rw (va &&& vb), true⟩ := by
  simp [evalAssign, isRel, isLog, isShift, selfW, isSg, eval, widthOf_k ha, widthOf_k hb, signedOf_k ha, signedOf_k hb, ha.val, hb.val,
    beq_self_eq_true, if_true, Bool.and_self, show isRel "and" = false by decide, show isLog "and" = false by decide,
    show isShift "and" = false by decide, Bool.false_eq_true, if_false]
  rw [ext_known _ _ _ ha.lt (by omega), ext_known _ _ _ hb.lt (by omega)]
  simp only [arith, Bool.and_self, Bool.not_true, Bool.false_eq_true, if_false, if_true, Leaf.not1]
  congr 1
  apply put_ofNat_sub _ _ _ (by omega)
  have h1 : va &&& vb ≤ va := Nat.and_le_left
  exact Nat.lt_of_le_of_lt h1 (Nat.lt_of_lt_of_le ha.lt (Nat.pow_le_pow_right (by decide) (by omega)))

theorem inline_nor2 {r : Rd} {a b : String} {wa wb va vb : Nat} (rw : Nat) (ha : Known r a wa va) (hb : Known r b wb vb) :
    evalAssign r rw (.un "not" (.bin "or" (.id a) (.id b))) = ⟨rw, Leaf.not1 rw (va ||| vb), true⟩ := by
  simp [evalAssign, isRel, isLog, isShift, selfW, isSg, eval, widthOf_k ha, widthOf_k hb, signedOf_k ha, signedOf_k hb, ha.val, hb.val,
    beq_self_eq_true, if_true, Bool.and_self, show isRel "or" = false by decide, show isLog "or" = false by decide,
    show isShift "or" = false by decide, Bool.false_eq_true, if_false]
  rw [ext_known _ _ _ ha.lt (by omega), ext_known _ _ _ hb.lt (by omega)]
  simp only [arith, Bool.and_self, Bool.not_true, Bool.false_eq_true, if_false, if_true, Leaf.not1]
  congr 1
  apply put_ofNat_sub _ _ _ (by omega)
  have hA : va < 2 ^ (max rw (max wa wb)) := Nat.lt_of_lt_of_le ha.lt (Nat.pow_le_pow_right (by decide) (by omega))
  have hB : vb < 2 ^ (max rw (max wa wb)) := Nat.lt_of_lt_of_le hb.lt (Nat.pow_le_pow_right (by decide) (by omega))
  exact Nat.or_lt_two_pow hA hB

/-- AddCarryIn: `assign r = a + b + ci` -/
theorem inline_add {r : Rd} {a b c : String} {wa wb wc va vb vc : Nat} (rw : Nat)
    (ha : Known r a wa va) (hb : Known r b wb vb) (hc : Known r c wc vc) :
    evalAssign r rw (.bin "add" (.bin "add" (.id a) (.id b)) (.id c)) = ⟨rw, Leaf.addc rw va vb vc, true⟩ := by
  simp [evalAssign, isRel, isLog, isShift, selfW, isSg, eval, widthOf_k ha, widthOf_k hb, widthOf_k hc, signedOf_k ha, signedOf_k hb,
    signedOf_k hc, ha.val, hb.val, hc.val, Bool.and_self, show isRel "add" = false by decide,
    show isLog "add" = false by decide, show isShift "add" = false by decide, Bool.false_eq_true, if_false]
  rw [ext_known _ _ _ ha.lt (by omega), ext_known _ _ _ hb.lt (by omega), ext_known _ _ _ hc.lt (by omega)]
  simp only [arith, BV.mk', Bool.and_self, Bool.not_true, Bool.false_eq_true, if_false, if_true, Leaf.addc]
  rw [mod_mod_pow _ _ _ (by omega), Nat.add_mod, mod_mod_pow _ _ _ (by omega), ← Nat.add_mod]

theorem inline_shl {r : Rd} {a : String} {wa va : Nat} (rw n : Nat) (hn : n < 2 ^ 32) (ha : Known r a wa va) :
    evalAssign r rw (.bin "shl" (.id a) (lit n)) = ⟨rw, Leaf.shlC rw va n, true⟩ := by
  have hm := mod_mod_pow (va <<< n) rw (max rw wa) (by omega)
  simp [evalAssign, isRel, isLog, isShift, selfW, isSg, eval, widthOf_k ha, signedOf_k ha, ha.val, lit, BV.mk',
    Nat.mod_eq_of_lt hn, ext_known _ _ _ ha.lt (show wa ≤ max rw wa by omega),
    ext_known 32 32 n hn (Nat.le_refl _), Leaf.shlC, hm]

theorem inline_shr {r : Rd} {a : String} {wa va : Nat} (rw n : Nat) (hn : n < 2 ^ 32) (ha : Known r a wa va) :
    evalAssign r rw (.bin "shr" (.id a) (lit n)) = ⟨rw, Leaf.shrC rw va n, true⟩ := by
  simp [evalAssign, isRel, isLog, isShift, selfW, isSg, eval, widthOf_k ha, signedOf_k ha, ha.val, lit, BV.mk',
    Nat.mod_eq_of_lt hn, ext_known _ _ _ ha.lt (show wa ≤ max rw wa by omega),
    ext_known 32 32 n hn (Nat.le_refl _), Leaf.shrC]

/-- (form emitted BEFORE fix f9a08aa) `(sel)? sel1 : sel0` is correct when the select is ONE bit wide … -/
theorem inline_mux2_bit {r : Rd} {s a b : String} {wa wb vs va vb : Nat} (rw : Nat)
    (hs : Known r s 1 vs) (ha : Known r a wa va) (hb : Known r b wb vb) :
    evalAssign r rw (.tern (.id s) (.id b) (.id a)) = ⟨rw, Leaf.mux2 rw vs va vb, true⟩ := by
  have hvs : vs = 0 ∨ vs = 1 := by have := hs.lt; omega
  simp [evalAssign, isRel, isLog, isShift, selfW, isSg, eval, widthOf_k ha, widthOf_k hb, widthOf_k hs, signedOf_k ha, signedOf_k hb,
    signedOf_k hs, ha.val, hb.val, hs.val, Bool.and_self]
  rw [ext_known _ _ _ hs.lt (Nat.le_refl _)]
  rcases hvs with h | h <;> subst h
  · simp only [truthy, if_true, bne_self_eq_false]
    rw [ext_known _ _ _ ha.lt (by omega)]
    simp [Leaf.mux2]
  · simp only [truthy, if_true, show ((1:Nat) != 0) = true by decide]
    rw [ext_known _ _ _ hb.lt (by omega)]
    simp [Leaf.mux2]

/-- … and was WRONG when it is wider (repaired by f9a08aa, kept as the witness of the fixed finding): Verilog tests `sel != 0`, the simulator (and the documentation) bit 0.
    sel = 2 (2 bits), sel0 = 0, sel1 = 1: Verilog drives 1, the simulator 0. -/
def rdMux : Rd :=
  { info := fun n => if n = "sel" then some { width := 2 } else some { width := 1 },
    val := fun n => if n = "sel" then ⟨2, 2, true⟩ else if n = "b" then ⟨1, 1, true⟩ else ⟨1, 0, true⟩,
    mem := fun _ _ => BV.x 1 }
theorem inline_mux2_wide_counterexample :
    evalAssign rdMux 1 (.tern (.id "sel") (.id "b") (.id "a")) = ⟨1, 1, true⟩ ∧ Leaf.mux2 1 2 0 1 = 0 := by decide

theorem eval_tern (r : Rd) (W : Nat) (sg : Bool) (c a b : Expr) :
    eval r W sg (.tern c a b) = (match truthy (eval r (selfW r c) (isSg r c) c) with
      | some true => eval r W sg a
      | some false => eval r W sg b
      | none => BV.x W) := by rw [eval]; rfl

/-- Mux2 as emitted now: `(sel & 1)? sel1 : sel0` — bit 0 of a select of ANY width, like `Mux2.propagate` -/
theorem inline_mux2 {r : Rd} {s a b : String} {ws wa wb vs va vb : Nat} (rw : Nat)
    (hs : Known r s ws vs) (ha : Known r a wa va) (hb : Known r b wb vb) :
    evalAssign r rw (.tern (.bin "and" (.id s) (lit 1)) (.id b) (.id a)) = ⟨rw, Leaf.mux2 rw vs va vb, true⟩ := by
  have hcw : selfW r (.bin "and" (.id s) (lit 1)) = max ws 32 := by simp [selfW, isRel, isLog, isShift, lit, widthOf_k hs]
  have hcs : isSg r (.bin "and" (.id s) (lit 1)) = false := by simp [isSg, isRel, isLog, isShift, lit, signedOf_k hs]
  have e1 : ext (max ws 32) false ⟨ws, vs, true⟩ = ⟨max ws 32, vs, true⟩ := ext_known _ _ _ hs.lt (by omega)
  have e2 : ext (max ws 32) false ⟨32, 1, true⟩ = ⟨max ws 32, 1, true⟩ := ext_known _ _ _ (by decide) (by omega)
  have hc : truthy (eval r (max ws 32) false (.bin "and" (.id s) (lit 1))) = some (vs % 2 == 1) := by
    simp only [eval, isRel, isLog, isShift, lit, hs.val, BV.mk', show (1 % 2 ^ 32) = 1 by decide, e1, e2, arith,
      Bool.and_self, Bool.not_true, Bool.false_eq_true, if_false, truthy, if_true, Nat.and_one_is_mod,
      show ("and" == "eq") = false by decide, show ("and" == "ne") = false by decide, show ("and" == "lt") = false by decide,
      show ("and" == "le") = false by decide, show ("and" == "gt") = false by decide, show ("and" == "ge") = false by decide,
      show ("and" == "land") = false by decide, show ("and" == "lor") = false by decide, show ("and" == "shl") = false by decide,
      show ("and" == "shr") = false by decide, show ("and" == "ashr") = false by decide, Bool.or_self]
    have : vs % 2 = 0 ∨ vs % 2 = 1 := by omega
    rcases this with h | h <;> simp [h]
  unfold evalAssign
  have hsw : selfW r (.tern (.bin "and" (.id s) (lit 1)) (.id b) (.id a)) = max wb wa := by
    simp [selfW, widthOf_k ha, widthOf_k hb]
  have hsg : isSg r (.tern (.bin "and" (.id s) (lit 1)) (.id b) (.id a)) = false := by
    simp [isSg, signedOf_k ha, signedOf_k hb]
  simp only [hsw, hsg]
  rw [eval_tern, hcw, hcs, hc]
  have : vs % 2 = 0 ∨ vs % 2 = 1 := by omega
  rcases this with h | h
  · simp only [h, show ((0:Nat) == 1) = false by decide, eval, ha.val]
    rw [ext_known _ _ _ ha.lt (by omega)]
    simp [Leaf.mux2, h]
  · simp only [h, beq_self_eq_true, eval, hb.val]
    rw [ext_known _ _ _ hb.lt (by omega)]
    simp [Leaf.mux2, h]

theorem inline_range {r : Rd} {a : String} {wa va : Nat} (rw hi lo : Nat) (h1 : lo ≤ hi) (h2 : hi < wa) (ha : Known r a wa va) :
    evalAssign r rw (.rng a hi lo) = ⟨rw, Leaf.range rw va hi lo, true⟩ := by
  have hlt : ¬ (hi ≥ wa) := by omega
  have hlo : ¬ (hi < lo) := by omega
  have hm : (va >>> lo) % 2 ^ (hi - lo + 1) < 2 ^ (hi - lo + 1) := Nat.mod_lt _ (Nat.two_pow_pos _)
  simp [evalAssign, isRel, isLog, isShift, selfW, isSg, eval, ha.val, Bool.not_true, Bool.false_or, decide_eq_true_eq, hlt, hlo,
    Bool.false_eq_true, if_false, decide_false, Bool.or_self]
  rw [ext_known _ _ _ hm (by omega)]
  simp [Leaf.range]

theorem inline_bit {r : Rd} {a : String} {wa va : Nat} (rw k : Nat) (hk : k < wa) (hk32 : k < 2 ^ 32) (ha : Known r a wa va) :
    evalAssign r rw (.idx a (lit k)) = ⟨rw, Leaf.bit rw va k, true⟩ := by
  have hnm : isMem r a = false := by simp [isMem, ha.info]
  have hge : ¬ (k ≥ wa) := by omega
  have hm : (va >>> k) % 2 < 2 ^ 1 := by have := Nat.mod_lt (va >>> k) (show 0 < 2 by decide); simpa using this
  simp [evalAssign, isRel, isLog, isShift, selfW, isSg, eval, hnm, lit, ha.val, Bool.false_eq_true, if_false, BV.mk', Nat.mod_eq_of_lt hk32,
    ext, Bool.not_true, Nat.le_refl, if_true, decide_eq_true_eq, hge, Bool.false_or, decide_false, Bool.or_self]
  by_cases h : max rw 1 ≤ 1
  · have : rw ≤ 1 := by omega
    simp only [h, if_true, Leaf.bit]
    rw [mod_mod_pow _ _ _ (by omega)]
  · simp [h, Leaf.bit]

theorem inline_div {r : Rd} {a b : String} {wa wb va vb : Nat} (rw : Nat) (ha : Known r a wa va) (hb : Known r b wb vb)
    (hz : vb ≠ 0) : evalAssign r rw (.bin "div" (.id a) (.id b)) = ⟨rw, Leaf.div rw va vb, true⟩ := by
  rw [evalAssign_arith "div" rw (by decide) (by decide) (by decide) ha hb]
  simp only [arith, BV.mk', Bool.and_self, Bool.not_true, Bool.false_eq_true, if_false, if_true, hz, Leaf.div]
  rw [mod_mod_pow _ _ _ (by omega)]

theorem inline_mod {r : Rd} {a b : String} {wa wb va vb : Nat} (rw : Nat) (ha : Known r a wa va) (hb : Known r b wb vb)
    (hz : vb ≠ 0) : evalAssign r rw (.bin "mod" (.id a) (.id b)) = ⟨rw, Leaf.mod rw va vb, true⟩ := by
  rw [evalAssign_arith "mod" rw (by decide) (by decide) (by decide) ha hb]
  simp only [arith, BV.mk', Bool.and_self, Bool.not_true, Bool.false_eq_true, if_false, if_true, hz, Leaf.mod]
  rw [mod_mod_pow _ _ _ (by omega)]

/-- Constant: `assign r[w-1:0] = value` for 0 ≤ value < 2^31 (larger or negative constants are printed as unsized
    decimal literals whose 32-bit signed reading differs from the Python int) -/
theorem inline_const (r : Rd) (rw v : Nat) (hv : v < 2 ^ 31) :
    evalAssign r rw (lit v) = ⟨rw, Leaf.const rw (v:Int), true⟩ := by
  have h32 : v < 2 ^ 32 := by omega
  simp [evalAssign, isRel, isLog, isShift, selfW, isSg, eval, lit, BV.mk', Nat.mod_eq_of_lt h32, if_true]
  unfold ext
  simp only [Bool.not_true, Bool.false_eq_true, if_false]
  have hns : ¬ (2 ^ (32 - 1) ≤ v) := by simp; omega
  by_cases h : max rw 32 ≤ 32
  · have : rw ≤ 32 := by omega
    simp only [h, if_true, Leaf.const, Bits.put_ofNat]
    rw [mod_mod_pow _ _ _ (by omega)]
  · simp [h, hns, Leaf.const, Bits.put_ofNat]

/-- EqualConstant: `assign r = (a == v)? 1 : 0` for a constant below 2^31 -/
theorem inline_equalconst {r : Rd} {a : String} {wa va : Nat} (rw v : Nat) (hv : v < 2 ^ 31) (hw : 1 ≤ rw)
    (ha : Known r a wa va) :
    evalAssign r rw (.tern (.bin "eq" (.id a) (lit v)) (lit 1) (lit 0)) = ⟨rw, if va = v then 1 else 0, true⟩ := by
  have h32 : v < 2 ^ 32 := by omega
  have e1 : ext (max wa 32) false ⟨wa, va, true⟩ = ⟨max wa 32, va, true⟩ := ext_known _ _ _ ha.lt (by omega)
  have e2 : ext (max wa 32) false ⟨32, v, true⟩ = ⟨max wa 32, v, true⟩ := ext_known _ _ _ h32 (by omega)
  have one_lt : (1:Nat) < 2 ^ rw := Nat.one_lt_two_pow (by omega)
  have x1 : ext (max rw 32) true ⟨32, 1, true⟩ = ⟨max rw 32, 1, true⟩ := by
    unfold ext
    by_cases h : max rw 32 ≤ 32
    · have : max rw 32 = 32 := by omega
      simp [h, this]
    · simp [h]
  have x0 : ext (max rw 32) true ⟨32, 0, true⟩ = ⟨max rw 32, 0, true⟩ := by
    unfold ext
    by_cases h : max rw 32 ≤ 32
    · have : max rw 32 = 32 := by omega
      simp [h, this]
    · simp [h]
  have eb : ∀ b : Bool, ext 1 false (b1 b) = b1 b := by intro b; cases b <;> decide
  have hc : eval r 1 false (.bin "eq" (.id a) (lit v)) = b1 (decide (va = v)) := by
    simp only [eval, isRel, lit, selfW, isSg, widthOf_k ha, signedOf_k ha, ha.val, BV.mk', Nat.mod_eq_of_lt h32,
      beq_self_eq_true, Bool.true_or, if_true, Bool.false_and, e1, e2, rel, Bool.and_self, Bool.not_true,
      Bool.false_eq_true, if_false]
    rw [eb]
    by_cases e : va = v
    · subst e; simp
    · have hne : ((va:Int) == (v:Int)) = false := by simp; omega
      simp [e, hne]
  unfold evalAssign
  have hsw : selfW r (.tern (.bin "eq" (.id a) (lit v)) (lit 1) (lit 0)) = 32 := by simp [selfW, lit]
  have hsg : isSg r (.tern (.bin "eq" (.id a) (lit v)) (lit 1) (lit 0)) = true := by simp [isSg, lit]
  have hcw : selfW r (.bin "eq" (.id a) (lit v)) = 1 := by simp [selfW, isRel]
  have hcs : isSg r (.bin "eq" (.id a) (lit v)) = false := by simp [isSg, isRel]
  simp only [hsw, hsg]
  rw [eval_tern, hcw, hcs]
  rw [hc]
  have l1 : eval r (max rw 32) true (lit 1) = ⟨max rw 32, 1, true⟩ := by simp [eval, lit, BV.mk', x1]
  have l0 : eval r (max rw 32) true (lit 0) = ⟨max rw 32, 0, true⟩ := by simp [eval, lit, BV.mk', x0]
  by_cases e : va = v
  · simp [e, truthy, b1, l1, Nat.mod_eq_of_lt one_lt]
  · simp [e, truthy, b1, l0]


/-! ### the register body (BodyReg) -/

/-- statement emitted by BodyReg (after parsing; `begin … end` around a single statement is that statement):
    `if (r == 1) rq <= RV; else if (e != 0) rq <= d;` -/
def regBody (hasR hasE : Bool) (rv : Nat) : Stmt :=
  let core := Stmt.nba (.lid "rq") (.id "d")
  let withE := if hasE then Stmt.ife (.bin "ne" (.id "e") (lit 0)) core .skip else core
  if hasR then Stmt.ife (.bin "eq" (.id "r") (lit 1)) (.nba (.lid "rq") (lit rv)) withE else withE

/-- the body emitted before fix ced6689 (`if (e == 1)`) -/
def regBodyOld (hasR hasE : Bool) (rv : Nat) : Stmt :=
  let core := Stmt.nba (.lid "rq") (.id "d")
  let withE := if hasE then Stmt.ife (.bin "eq" (.id "e") (lit 1)) core .skip else core
  if hasR then Stmt.ife (.bin "eq" (.id "r") (lit 1)) (.nba (.lid "rq") (lit rv)) withE else withE

/-- the register rule: reset (==1) > enable (!=0) > hold -/
def regNext (hasR hasE : Bool) (rv vr ve vd old : Nat) : Nat :=
  if hasR && vr == 1 then rv else if hasE && ve == 0 then old else vd

theorem cond_eq_one {r : Rd} {n : String} {w v : Nat} (h : Known r n w v) :
    truthy (eval r 1 false (.bin "eq" (.id n) (lit 1))) = some (v == 1) := by
  have e1 : ext (max w 32) false ⟨w, v, true⟩ = ⟨max w 32, v, true⟩ := ext_known _ _ _ h.lt (by omega)
  have e2 : ext (max w 32) false ⟨32, 1, true⟩ = ⟨max w 32, 1, true⟩ := ext_known _ _ _ (by decide) (by omega)
  have eb : ∀ b : Bool, ext 1 false (b1 b) = b1 b := by intro b; cases b <;> decide
  simp only [eval, isRel, lit, selfW, isSg, widthOf_k h, signedOf_k h, h.val, BV.mk', beq_self_eq_true, Bool.true_or,
    if_true, Bool.false_and, e1, show (1 % 2 ^ 32) = 1 by decide, e2, rel, Bool.and_self, Bool.not_true,
    Bool.false_eq_true, if_false, eb]
  by_cases e : v = 1
  · subst e; decide
  · have : ((v:Int) == 1) = false := by simp; omega
    simp [this, e, truthy, b1]

theorem cond_ne_zero {r : Rd} {n : String} {w v : Nat} (h : Known r n w v) :
    truthy (eval r 1 false (.bin "ne" (.id n) (lit 0))) = some (v != 0) := by
  have e1 : ext (max w 32) false ⟨w, v, true⟩ = ⟨max w 32, v, true⟩ := ext_known _ _ _ h.lt (by omega)
  have e2 : ext (max w 32) false ⟨32, 0, true⟩ = ⟨max w 32, 0, true⟩ := ext_known _ _ _ (by decide) (by omega)
  have eb : ∀ b : Bool, ext 1 false (b1 b) = b1 b := by intro b; cases b <;> decide
  simp only [eval, isRel, lit, selfW, isSg, widthOf_k h, signedOf_k h, h.val, BV.mk', beq_self_eq_true, Bool.true_or,
    Bool.or_true, if_true, Bool.false_and, e1, show (0 % 2 ^ 32) = 0 by decide, e2, rel, Bool.and_self, Bool.not_true,
    Bool.false_eq_true, if_false, eb, show ("ne" == "eq") = false by decide, Bool.false_or]
  by_cases e : v = 0
  · subst e; decide
  · have : ((v:Int) != 0) = true := by simp; omega
    simp [this, e, truthy, b1]

/-- **Register body, one edge.** For controls of ANY width, the non-blocking update queued by the emitted always block is
    exactly the register rule of `Reg.clock` (and nothing is queued when the register holds). -/
theorem reg_body_step {r : Rd} (hasR hasE : Bool) (rv w wr we vr ve vd : Nat)
    (hr : Known r "r" wr vr) (he : Known r "e" we ve) (hd : Known r "d" w vd)
    (hq : r.info "rq" = some { width := w }) (hrv : rv < 2 ^ 31) (q0 : List (Tgt × BV)) :
    (exec (σ := Unit) (fun _ => r) (fun s _ _ => s) none (regBody hasR hasE rv) { st := (), nba := q0 }).nba =
      q0 ++ (if hasR && vr == 1 then [(Tgt.whole "rq", (⟨w, rv % 2 ^ w, true⟩ : BV))]
             else if hasE && ve == 0 then [] else [(Tgt.whole "rq", (⟨w, vd, true⟩ : BV))]) := by
  have hcR : selfW r (.bin "eq" (.id "r") (lit 1)) = 1 := by simp [selfW, isRel]
  have hsR : isSg r (.bin "eq" (.id "r") (lit 1)) = false := by simp [isSg, isRel]
  have hcE : selfW r (.bin "ne" (.id "e") (lit 0)) = 1 := by simp [selfW, isRel]
  have hsE : isSg r (.bin "ne" (.id "e") (lit 0)) = false := by simp [isSg, isRel]
  have wq : widthOf r "rq" = w := by simp [widthOf, hq]
  have hres : resolve r (.lid "rq") = Tgt.whole "rq" := rfl
  have hlw : lhsWidth r (.lid "rq") = w := by simp [lhsWidth, wq]
  have hcoreV : evalAssign r w (.id "d") = ⟨w, vd, true⟩ := by
    have := inline_buf w hd
    simpa [Leaf.buf, Nat.mod_eq_of_lt hd.lt] using this
  have hrstV : evalAssign r w (lit rv) = ⟨w, rv % 2 ^ w, true⟩ := by
    have := inline_const r w rv hrv
    simpa [Leaf.const, Bits.put_ofNat] using this
  have bE : (ve != 0) = !(ve == 0) := by cases h : ve == 0 <;> simp_all
  cases hasR <;> cases hasE <;> simp only [regBody, Bool.false_and, Bool.true_and, Bool.false_eq_true, if_false, if_true]
  · simp [exec, hres, hlw, hcoreV]
  · simp only [exec, hcE, hsE, cond_ne_zero he, bE]
    cases h : ve == 0 <;> simp [exec, hres, hlw, hcoreV]
  · simp only [exec, hcR, hsR, cond_eq_one hr]
    cases h : vr == 1 <;> simp [exec, hres, hlw, hcoreV, hrstV]
  · simp only [exec, hcR, hsR, cond_eq_one hr]
    cases h : vr == 1
    · simp only [exec, hcE, hsE, cond_ne_zero he, bE]
      cases h2 : ve == 0 <;> simp [exec, hres, hlw, hcoreV]
    · simp [exec, hres, hlw, hrstV]

/-- the Python `Reg.clock` (generated from storage.py) follows the same rule, for controls of any value -/
theorem gen_reg_rule (hasR hasE : Bool) (rv vr ve vd old : Nat) :
    (Gen.Reg.step ⟨rv, hasE, hasR⟩ ⟨old⟩ ⟨ve, vr, vd⟩ ⟨⟩).1.value = (regNext hasR hasE rv vr ve vd old : Int) ∧
    (Gen.Reg.step ⟨rv, hasE, hasR⟩ ⟨old⟩ ⟨ve, vr, vd⟩ ⟨⟩).2.q = some (regNext hasR hasE rv vr ve vd old : Int) := by
  unfold Gen.Reg.step regNext
  by_cases e : vr = 1 <;> by_cases z : ve = 0
  all_goals
    have e' : ((vr:Int) = 1) = (vr = 1) := by simp; omega
    have z' : ((ve:Int) = 0) = (ve = 0) := by simp
    cases hasR <;> cases hasE <;> simp [Id.run, pure, Py.truthy, Py.ofBool, e, z, e', z']

/-- NEGATIVE (body emitted before fix ced6689): with a multi-bit enable it tested `e == 1`, the simulator `e != 0`:
    e = 2 (2 bits), d = 1: the simulator loads 1, the Verilog block queues nothing. -/
def rdRegWide : Rd :=
  { info := fun n => if n = "e" then some { width := 2 } else some { width := 1 },
    val := fun n => if n = "e" then ⟨2, 2, true⟩ else if n = "d" then ⟨1, 1, true⟩ else ⟨1, 0, true⟩,
    mem := fun _ _ => BV.x 1 }
theorem reg_body_wide_enable_counterexample :
    (exec (σ := Unit) (fun _ => rdRegWide) (fun s _ _ => s) none (regBodyOld false true 0) { st := (), nba := [] }).nba = [] ∧
    (Gen.Reg.step ⟨0, true, false⟩ ⟨0⟩ ⟨2, 0, 1⟩ ⟨⟩).2.q = some 1 := by decide

/-- NEGATIVE (before fix a9391b3): at power-up the Verilog `reg rq = reset_value; assign q = rq;` shows reset_value on q,
    while the simulator's wire q read 0 until the first edge.  Stated on the semantics of the declaration initialiser
    (since the fix, `Reg.__init__` puts reset_value on q: `Net.initC`): -/
def rdNone : Rd := { info := fun _ => none, val := fun _ => BV.x 1, mem := fun _ _ => BV.x 1 }
theorem reg_powerup_counterexample : evalAssign rdNone 4 (lit 5) = ⟨4, 5, true⟩ ∧ (0 : Nat) ≠ 5 := by decide

end C01
