import Py4hwV.Proofs.C17Frame
import Py4hwV.Proofs.C17Rx
import Py4hwV.Proofs.C17Link
/-
  C17 — The UART link delivers every byte once, unchanged and in order.

  Model: Py4hwV/Proto/Uart.lean (generated serializer / deserializer / ClockSyncFSM steps + hand-modelled divider, edge
  detector, composition, software receiver).  Bridges `ser_step_eq`, `des_step_eq`, `fsm_step_eq` (Proofs/C17Bridge.lean)
  tie the generated definitions to the reference machines the theorems below are proved on.
  Everything is parametric in the divider ratio n ≥ 2 (bit period P = 2n ≥ 4 system clocks), all byte values, all input
  streams (producer valid/v in every cycle: all gaps including none).
-/
set_option linter.unusedSimpArgs false
namespace C17
open Uart

/-! ## transmit side reaches only positions (mode, e) -/
theorem reach (n : Nat) (hn : 2 ≤ n) (ins : List (Nat × Nat)) :
    ∃ (s : TxN) (m : Mode) (e : Nat), TxInv n s m e ∧ TxSide.run n TxSide.init ins = s.toTx ∧
      (m, e) = posRun n (.gap 0 0) n ins := by
  have h := pos_inv n hn ins TxN.init (.gap 0 0) n (tx_inv_init n (by omega))
  exact ⟨_, _, _, h.1, by rw [← tx_init_eq]; exact h.2, rfl⟩

/-! ## baud pulse -/
def eAt (n : Nat) : Nat → Nat → Nat
  | e, 0 => e
  | e, k + 1 => eAt n (nextE n e) k

theorem posRun_snd (n : Nat) (ins : List (Nat × Nat)) : ∀ m e, (posRun n m e ins).2 = eAt n e ins.length := by
  induction ins with
  | nil => intro m e; rfl
  | cons i is ih => intro m e; obtain ⟨a, b⟩ := i; simp only [posRun, List.length_cons, eAt]; exact ih _ _

theorem eAt_closed (n : Nat) (hn : 1 ≤ n) (k : Nat) : ∀ e, e < 2 * n →
    eAt n e k < 2 * n ∧ (k + eAt n e k) % (2 * n) = e % (2 * n) := by
  induction k with
  | zero => intro e h; exact ⟨h, by simp [eAt]⟩
  | succ k ih =>
    intro e h
    have hl := nextE_lt n e hn h
    obtain ⟨h1, h2⟩ := ih (nextE n e) hl
    refine ⟨h1, ?_⟩
    simp only [eAt]
    have e1 : k + 1 + eAt n (nextE n e) k = (k + eAt n (nextE n e) k) + 1 := by omega
    rw [e1, Nat.add_mod, h2]
    by_cases he : e = 0
    · subst he
      have : nextE n 0 = 2 * n - 1 := by simp [nextE]
      rw [this, ← Nat.add_mod]
      have : 2 * n - 1 + 1 = 2 * n := by omega
      rw [this]; simp
    · have : nextE n e = e - 1 := by simp [nextE, he]
      rw [this, ← Nat.add_mod]
      have : e - 1 + 1 = e := by omega
      rw [this]

/-- `tx_clk_pulse` is 1 exactly once every P = 2n cycles: after k clocks it is 1 iff k ≡ n (mod 2n) — whatever the
    serializer is doing. -/
theorem divider_pulse_period (n : Nat) (hn : 2 ≤ n) (ins : List (Nat × Nat)) :
    (TxSide.run n TxSide.init ins).pulse = if ins.length % (2 * n) = n then 1 else 0 := by
  obtain ⟨s, m, e, hinv, hrun, hpos⟩ := reach n hn ins
  have hp := ph_pulse n s.div s.z e hinv.ph
  have he : e = eAt n n ins.length := by
    have := congrArg Prod.snd hpos; simp only at this; rw [this, posRun_snd]
  obtain ⟨c1, c2⟩ := eAt_closed n (by omega) ins.length n (by omega)
  rw [← he] at c1 c2
  rw [hrun]
  show edgePos s.div.clk s.z = _
  rw [hp]
  have hnn : n % (2 * n) = n := Nat.mod_eq_of_lt (by omega)
  rw [hnn] at c2
  by_cases h0 : e = 0
  · subst h0; simp at c2; simp [c2]
  · have : ¬ (ins.length % (2 * n) = n) := by
      intro hc
      rw [Nat.add_mod, hc] at c2
      by_cases hlt : n + e % (2 * n) < 2 * n
      · rw [Nat.mod_eq_of_lt hlt, Nat.mod_eq_of_lt c1] at c2; omega
      · rw [Nat.mod_eq_of_lt c1] at c2 hlt
        rw [Nat.mod_eq_sub_mod (by omega), Nat.mod_eq_of_lt (by omega)] at c2; omega
    simp [h0, this]

/-- state of a free-running ClockDivider after k clocks -/
def divIter (n : Nat) : Nat → Div
  | 0 => Div.init
  | k + 1 => (divIter n k).step n 0

/-- free-running ClockDivider in closed form: after k clocks q = k mod n and clkout = (k / n) mod 2 (period 2n), n ≥ 1 -/
theorem div_free_closed (n : Nat) (hn : 1 ≤ n) (k : Nat) :
    (divIter n k).q = k % n ∧ (divIter n k).clk = (k / n) % 2 := by
  have key : ∀ k, ∃ a, k = n * a + (divIter n k).q ∧ (divIter n k).q < n ∧ (divIter n k).clk = a % 2 := by
    intro k
    induction k with
    | zero => exact ⟨0, by simp [divIter, Div.init], by simp [divIter, Div.init]; omega, by simp [divIter, Div.init]⟩
    | succ k ih =>
      obtain ⟨a, h1, h2, h3⟩ := ih
      simp only [divIter]
      generalize divIter n k = d at *
      obtain ⟨q, clk⟩ := d
      simp only at h1 h2 h3
      by_cases hk : q = n - 1
      · refine ⟨a + 1, ?_, ?_, ?_⟩
        · simp [Div.step, Div.carry, hk, or1]; rw [Nat.mul_succ]; omega
        · simp [Div.step, Div.carry, hk, or1]; omega
        · simp [Div.step, Div.carry, hk, or1, not1, h3]; split <;> omega
      · refine ⟨a, ?_, ?_, ?_⟩
        · simp [Div.step, Div.carry, hk, or1, no_wrap n q h2]; omega
        · simp [Div.step, Div.carry, hk, or1, no_wrap n q h2]; omega
        · simp [Div.step, Div.carry, hk, or1, not1, h3]
  obtain ⟨a, h1, h2, h3⟩ := key k
  have := (Nat.div_mod_unique (a := k) (d := a) (c := (divIter n k).q) (show 0 < n by omega)).mpr ⟨by omega, h2⟩
  exact ⟨this.2.symm, by rw [h3, this.1]⟩

/-! ## serializer -/
/-- the `ready` wire is 1 exactly while the serializer FSM sits in state 1 (so the port-level definition of "accepted"
    coincides with the cycle in which `clock()` takes the byte) -/
theorem ser_ready_iff (n : Nat) (hn : 2 ≤ n) (ins : List (Nat × Nat)) :
    (TxSide.run n TxSide.init ins).ser.ready = 1 ↔ (TxSide.run n TxSide.init ins).ser.st.state = 1 := by
  obtain ⟨s, m, e, hinv, hrun, _⟩ := reach n hn ins
  rw [hrun]
  show s.ser.ready = 1 ↔ ((s.ser.st : Nat) : Int) = 1
  rw [hinv.ser]
  cases m with
  | gap tx j => simp [serOf]
  | ready j => simp [serOf]
  | wait b => simp [serOf]
  | frame b i => simp only [serOf]; split <;> (try split) <;> simp

/-- the line idles high: whenever the serializer is ready for a byte, tx = 1 -/
theorem ser_idle_high (n : Nat) (hn : 2 ≤ n) (ins : List (Nat × Nat)) :
    (TxSide.run n TxSide.init ins).ser.ready = 1 → (TxSide.run n TxSide.init ins).ser.tx = 1 := by
  obtain ⟨s, m, e, hinv, hrun, _⟩ := reach n hn ins
  rw [hrun]
  show s.ser.ready = 1 → s.ser.tx = 1
  intro h
  have hr := (ready_iff n m e)
  rw [← hinv.ser] at hr
  obtain ⟨j, hj⟩ := hr.mp h
  rw [hinv.ser, hj]; rfl

theorem run_append (n : Nat) (a b : List (Nat × Nat)) : ∀ s, TxSide.run n s (a ++ b) = TxSide.run n (TxSide.run n s a) b := by
  induction a with
  | nil => intro s; rfl
  | cons i is ih => intro s; obtain ⟨x, y⟩ := i; simp only [List.cons_append, TxSide.run]; exact ih _

/-- 8N1 waveform of ANY accepted byte, at any time, whatever the producer does afterwards:
    if after an arbitrary history `pre` the serializer is ready and (valid, v) is presented, then there is a wait d ≤ P for
    the next baud pulse such that, for every continuation `rest` of the input stream,
    (a) the line stays high for the d+1 samples following the accepting clock,
    (b) for frame bit i ∈ 0..9 (0 = start, 1..8 = data bits LSB first, 9 = stop) and every offset r < P the line sample
        number d+1+i·P+r is `fb v i`  — low start bit, v's bits least significant first, high stop bit, P samples each,
    (c) `ready` stays 0 for the whole frame (no byte can be accepted meanwhile). -/
theorem ser_frame (n : Nat) (hn : 2 ≤ n) (pre : List (Nat × Nat)) (valid v : Nat)
    (hr : (TxSide.run n TxSide.init pre).ser.ready = 1) (hv : valid ≠ 0) :
    ∃ d, d ≤ 2 * n ∧ ∀ rest : List (Nat × Nat),
      (∀ k, k ≤ d → k ≤ rest.length →
          (TxSide.run n TxSide.init (pre ++ (valid, v) :: rest.take k)).ser.tx = 1) ∧
      (∀ i r, i ≤ 9 → r < 2 * n → d + 1 + i * (2 * n) + r ≤ rest.length →
          (TxSide.run n TxSide.init (pre ++ (valid, v) :: rest.take (d + 1 + i * (2 * n) + r))).ser.tx = fb v i) ∧
      (∀ k, k ≤ d + 10 * (2 * n) → k ≤ rest.length →
          (TxSide.run n TxSide.init (pre ++ (valid, v) :: rest.take k)).ser.ready = 0) := by
  obtain ⟨s, m, e, hinv, hrun, _⟩ := reach n hn pre
  have hrd : s.ser.ready = 1 := by rw [hrun] at hr; exact hr
  have hm := (ready_iff n m e)
  rw [← hinv.ser] at hm
  obtain ⟨j, hj⟩ := hm.mp hrd
  subst hj
  -- after the accepting step: (wait v, e1)
  have h1 := tx_inv_step n hn s (.ready j) e valid v hinv
  have hnm : nextMode (.ready j) e valid v = .wait v := by simp [nextMode, hv]
  rw [hnm] at h1
  have he1 : nextE n e < 2 * n := h1.lt
  generalize nextE n e = e1 at *
  refine ⟨e1 + 1, by omega, ?_⟩
  intro rest
  -- state after k more inputs
  have key : ∀ k, k ≤ rest.length → k ≤ e1 + 10 * (2 * n) + 1 →
      ∃ s', TxSide.run n TxSide.init (pre ++ (valid, v) :: rest.take k) = TxN.toTx s' ∧
        s'.ser = serOf n (fpos n v e1 k).1 (fpos n v e1 k).2 := by
    intro k hk hk2
    have hp := pos_inv n hn (rest.take k) (s.step n valid v) (.wait v) e1 h1
    have hlen : (rest.take k).length = k := by rw [List.length_take]; omega
    have hf0 : fpos n v e1 0 = (Mode.wait v, e1) := by simp [fpos]
    have hpr := posRun_fpos n hn v e1 (rest.take k) 0 (by rw [hlen]; omega)
    rw [hf0] at hpr
    simp only at hpr
    rw [hpr, hlen, Nat.zero_add] at hp
    refine ⟨TxN.run n (s.step n valid v) (rest.take k), ?_, hp.1.ser⟩
    rw [run_append, hrun]
    simp only [TxSide.run, tx_step_eq]
    exact hp.2
  have hP : 0 < 2 * n := by omega
  refine ⟨?_, ?_, ?_⟩
  · intro k hk hkl
    obtain ⟨s', hs, hser⟩ := key k hkl (by omega)
    rw [hs]; show s'.ser.tx = 1
    rw [hser]
    by_cases hle : k ≤ e1
    · simp [fpos, hle, serOf]
    · have a1 : k - e1 - 1 = 0 := by omega
      have a2 : (0:Nat) < 10 * (2 * n) := by omega
      simp only [fpos, hle, if_false, a1, a2, if_true, Nat.zero_div, Nat.zero_mod, Nat.sub_zero]
      simp [serOf]
  · intro i r hi hr' hkl
    obtain ⟨s', hs, hser⟩ := key _ hkl (by
      have : i * (2 * n) ≤ 9 * (2 * n) := Nat.mul_le_mul_right _ hi
      omega)
    rw [hs]; show s'.ser.tx = fb v i
    rw [hser]
    generalize hK : e1 + 1 + 1 + i * (2 * n) + r = K
    have a0 : ¬ (K ≤ e1) := by omega
    have a1 : K - e1 - 1 = i * (2 * n) + r + 1 := by omega
    by_cases hlast : r + 1 = 2 * n
    · -- first cycle of the next bit: the line still shows bit i
      have hd : (i * (2 * n) + r + 1) / (2 * n) = i + 1 ∧ (i * (2 * n) + r + 1) % (2 * n) = 0 :=
        (Nat.div_mod_unique hP).mpr ⟨by rw [Nat.mul_succ, Nat.mul_comm]; omega, hP⟩
      by_cases h9 : i = 9
      · subst h9
        have a2 : ¬ (9 * (2 * n) + r + 1 < 10 * (2 * n)) := by omega
        simp only [fpos, a0, a1, a2, if_false]
        simp [serOf, fb]
      · have a2 : i * (2 * n) + r + 1 < 10 * (2 * n) := by
          have : i * (2 * n) ≤ 8 * (2 * n) := Nat.mul_le_mul_right _ (by omega)
          omega
        have a3 : ¬ (i + 1 = 0) := by omega
        simp only [fpos, a0, a1, a2, if_false, if_true, hd.1, hd.2, Nat.sub_zero]
        by_cases h8 : i + 1 ≤ 8
        · simp [serOf, a3, h8]
        · have : i = 8 := by omega
          subst this
          simp [serOf]
    · have hd : (i * (2 * n) + r + 1) / (2 * n) = i ∧ (i * (2 * n) + r + 1) % (2 * n) = r + 1 :=
        (Nat.div_mod_unique hP).mpr ⟨by rw [Nat.mul_comm]; omega, by omega⟩
      have a2 : i * (2 * n) + r + 1 < 10 * (2 * n) := by
        have : i * (2 * n) ≤ 9 * (2 * n) := Nat.mul_le_mul_right _ hi
        omega
      have a3 : ¬ (2 * n - 1 - (r + 1) = 2 * n - 1) := by omega
      simp only [fpos, a0, a1, a2, if_false, if_true, hd.1, hd.2]
      have hi' : i = 0 ∨ (1 ≤ i ∧ i ≤ 8) ∨ i = 9 := by omega
      rcases hi' with h | ⟨h, h'⟩ | h
      · subst h; simp [serOf, a3, fb]
      · have b1 : ¬ (i = 0) := by omega
        simp [serOf, a3, fb, b1, h']
      · subst h; simp [serOf, a3, fb]
  · intro k hk hkl
    obtain ⟨s', hs, hser⟩ := key k hkl (by omega)
    rw [hs]; show s'.ser.ready = 0
    rw [hser]
    generalize (fpos n v e1 k).2 = ee
    have hmode : ∀ mm, (∀ j, mm ≠ Mode.ready j) → (serOf n mm ee).ready = 0 := by
      intro mm hmm
      cases mm with
      | gap tx j => simp [serOf]
      | ready j => exact absurd rfl (hmm j)
      | wait b => simp [serOf]
      | frame b i => simp only [serOf]; split <;> (try split) <;> simp
    apply hmode
    intro j
    unfold fpos
    split
    · simp
    · split <;> simp


/-! ## the line is standard 8N1: the independent software receiver recovers exactly the accepted bytes -/
theorem pend_len (n : Nat) (m : Mode) (e : Nat) : (pend n m e).length ≤ 1 := by
  cases m with
  | gap tx j => simp [pend]
  | ready j => simp [pend]
  | wait b => simp [pend]
  | frame b i => simp only [pend]; split <;> simp

/-- safety, for EVERY input stream (all byte values, all gaps incl. none, valid dropped or held, any length): the software
    receiver's output is the list of accepted bytes (low 8 bits), unchanged, in order, each once — at most the byte that is
    still on the line is missing at the end of the observation -/
theorem line_8n1_inv (n : Nat) (hn : 2 ≤ n) (ins : List (Nat × Nat)) :
    ∃ p, p.length ≤ 1 ∧
      (TxSide.accepted n TxSide.init ins).map (· % 256) = softRx (2 * n) (TxSide.trace n TxSide.init ins) ++ p := by
  obtain ⟨m', e', _, _, hl⟩ := run_inv n hn ins TxN.init (.gap 0 0) n (tx_inv_init n (by omega))
  refine ⟨pend n m' e', pend_len n m' e', ?_⟩
  have h0 : pend n (.gap 0 0) n = [] := rfl
  have h1 : softOf n (.gap 0 0) n = {} := rfl
  rw [h0, h1, tx_init_eq, List.nil_append] at hl
  exact hl

theorem line_8n1_prefix (n : Nat) (hn : 2 ≤ n) (ins : List (Nat × Nat)) :
    softRx (2 * n) (TxSide.trace n TxSide.init ins) <+: (TxSide.accepted n TxSide.init ins).map (· % 256) := by
  obtain ⟨p, _, h⟩ := line_8n1_inv n hn ins
  exact ⟨p, h.symm⟩

/-- whenever the serializer has returned to `ready` (the frame of the last accepted byte is complete), the software
    receiver has recovered exactly the accepted bytes -/
theorem line_8n1_tx (n : Nat) (hn : 2 ≤ n) (ins : List (Nat × Nat))
    (hr : (TxSide.run n TxSide.init ins).ser.ready = 1) :
    softRx (2 * n) (TxSide.trace n TxSide.init ins) = (TxSide.accepted n TxSide.init ins).map (· % 256) := by
  obtain ⟨m', e', hinv, hrun, hl⟩ := run_inv n hn ins TxN.init (.gap 0 0) n (tx_inv_init n (by omega))
  have h0 : pend n (.gap 0 0) n = [] := rfl
  have h1 : softOf n (.gap 0 0) n = {} := rfl
  rw [h0, h1, tx_init_eq, List.nil_append] at hl
  rw [tx_init_eq] at hrun
  have hrd : (TxN.run n TxN.init ins).ser.ready = 1 := by rw [hrun] at hr; exact hr
  have hm := ready_iff n m' e'
  rw [← hinv.ser] at hm
  obtain ⟨j, hj⟩ := hm.mp hrd
  subst hj
  simp only [pend, List.append_nil] at hl
  exact hl.symm

/-! ### the same for the closed loop: the transmit side does not depend on the receive side -/
def txIns (ins : List LIn) : List (Nat × Nat) := ins.map fun i => (i.valid, i.v)

theorem link_tx (n : Nat) (ins : List LIn) : ∀ s : Link,
    (Link.run n s ins).tx = TxSide.run n s.tx (txIns ins) ∧
    Link.trace n s ins = TxSide.trace n s.tx (txIns ins) ∧
    Link.accepted n s ins = TxSide.accepted n s.tx (txIns ins) := by
  induction ins with
  | nil => intro s; exact ⟨rfl, rfl, rfl⟩
  | cons i is ih =>
    intro s
    obtain ⟨a, b, c⟩ := ih (s.step n i)
    refine ⟨?_, ?_, ?_⟩
    · simp only [Link.run, txIns, List.map_cons, TxSide.run]; exact a
    · simp only [Link.trace, txIns, List.map_cons, TxSide.trace, b]; rfl
    · simp only [Link.accepted, txIns, List.map_cons, TxSide.accepted, c]; rfl

/-- C17, line clause, on the closed loop `Link` (serializer + ClockGenerationAndRecovery + deserializer, tx wired to rx):
    for every divider ratio n ≥ 2 and every input stream (producer valid/v and consumer ready in every cycle), once the
    serializer is ready again the 8N1 software receiver with bit period 2n has recovered exactly the accepted bytes. -/
theorem line_8n1 (n : Nat) (hn : 2 ≤ n) (ins : List LIn)
    (hr : (Link.run n Link.init ins).tx.ser.ready = 1) :
    softRx (2 * n) (Link.trace n Link.init ins) = (Link.accepted n Link.init ins).map (· % 256) := by
  obtain ⟨a, b, c⟩ := link_tx n ins Link.init
  rw [b, c]
  apply line_8n1_tx n hn
  have : Link.init.tx = TxSide.init := rfl
  rw [← this, ← a]; exact hr

theorem line_8n1_link_prefix (n : Nat) (hn : 2 ≤ n) (ins : List LIn) :
    softRx (2 * n) (Link.trace n Link.init ins) <+: (Link.accepted n Link.init ins).map (· % 256) := by
  obtain ⟨_, b, c⟩ := link_tx n ins Link.init
  rw [b, c]; exact line_8n1_prefix n hn _

/-! ### non-vacuity: a concrete run at n = 2 (P = 4): idle, 0xA5, back-to-back 0x00, gap, 0xFF -/
def exIns : List LIn :=
  List.replicate 3 ⟨0, 0, 1⟩ ++ List.replicate 44 ⟨1, 0xA5, 1⟩ ++ List.replicate 44 ⟨1, 0, 1⟩ ++ List.replicate 7 ⟨0, 9, 1⟩ ++
    [⟨1, 0xFF, 1⟩] ++ List.replicate 48 ⟨0, 0, 1⟩

example : (Link.run 2 Link.init exIns).tx.ser.ready = 1 := by decide +kernel
example : Link.accepted 2 Link.init exIns = [0xA5, 0, 0xFF] := by decide +kernel
example : softRx 4 (Link.trace 2 Link.init exIns) = [0xA5, 0, 0xFF] := by decide +kernel
example : Link.delivered 2 Link.init exIns = [0xA5, 0, 0xFF] := by decide +kernel


/-! ## delivery clause
  The unconditional statement

    Link.delivered n Link.init ins = (Link.accepted n Link.init ins).map (· % 256)     (after the drain, ALL consumer timings)

  is NOT a theorem of the code as it is: it fails for consumers whose `ready` is high in fewer than two cycles between
  consecutive frame ends — the deserializer overwrites `v` and restarts its hand-off FSM (serdes.py:98-102), so bytes are lost
  AND duplicated (counterexample below = known finding C17-slow-consumer).  Under the hypothesis `keepsUp` it IS proved, for
  every n ≥ 2: `link_delivers` / `link_delivers_drained` at the end of this file. -/

/-- the probing witness, replayed on the model (inputs recorded from the real run: producer holds valid with bytes 1..6
    back-to-back, consumer ready every 30th cycle, then a drain with ready = 1), n = 2 -/
def slowIns : List LIn :=
  List.replicate 1 ⟨1,1,1⟩ ++ List.replicate 1 ⟨1,1,0⟩ ++ List.replicate 28 ⟨1,2,0⟩ ++ List.replicate 1 ⟨1,2,1⟩ ++
    List.replicate 14 ⟨1,2,0⟩ ++ List.replicate 15 ⟨1,3,0⟩ ++ List.replicate 1 ⟨1,3,1⟩ ++ List.replicate 28 ⟨1,3,0⟩ ++
    List.replicate 1 ⟨1,4,0⟩ ++ List.replicate 1 ⟨1,4,1⟩ ++ List.replicate 29 ⟨1,4,0⟩ ++ List.replicate 1 ⟨1,4,1⟩ ++
    List.replicate 12 ⟨1,4,0⟩ ++ List.replicate 17 ⟨1,5,0⟩ ++ List.replicate 1 ⟨1,5,1⟩ ++ List.replicate 26 ⟨1,5,0⟩ ++
    List.replicate 3 ⟨1,6,0⟩ ++ List.replicate 1 ⟨1,6,1⟩ ++ List.replicate 29 ⟨1,6,0⟩ ++ List.replicate 1 ⟨1,6,1⟩ ++
    List.replicate 10 ⟨1,6,0⟩ ++ List.replicate 64 ⟨0,0,1⟩

/-- negative result: with a slow consumer the link loses bytes 1 and 3 and delivers 2 and 4 twice, although the line itself
    carried all six bytes correctly -/
theorem slow_consumer_counterexample :
    Link.accepted 2 Link.init slowIns = [1, 2, 3, 4, 5, 6] ∧
    Link.delivered 2 Link.init slowIns = [2, 2, 4, 4, 5, 6] ∧
    softRx 4 (Link.trace 2 Link.init slowIns) = [1, 2, 3, 4, 5, 6] := by decide +kernel


/-! ### what IS proved about delivery: the hand-off FSM, for all consumers that keep up (all n, all inputs) -/
theorem delivered_eq_hs (n : Nat) (ins : List LIn) : ∀ (s : Link) (d : DesN), s.rx.des = d.toDes →
    Link.delivered n s ins = hsDelivered d.hs (rxEvents n s ins) := by
  induction ins with
  | nil => intro s d _; rfl
  | cons i is ih =>
    intro s d hd
    have hstep : (s.step n i).rx.des = (desSpec d s.line s.rx.sample i.ready).toDes := by
      show s.rx.des.step s.line s.rx.sample i.ready = _
      rw [hd, des_step_eq]
    have := ih (s.step n i) _ hstep
    simp only [Link.delivered, rxEvents, hsDelivered, this, des_handoff, hd, feOfDes_eq]
    congr 1
    simp only [RxSide.deliver, hd, DesN.toDes, DesN.hs]
    split
    · next h => exact (if_pos h).symm
    · next h => exact (if_neg h).symm

/-- hand-off half of `link_delivers`: in the closed loop, for every divider ratio, every producer and every consumer timing
    that keeps up (`keepsUp`: the two ready cycles of the hand-off of byte k happen at the latest in the clock in which frame k+1 completes), the bytes handed over on the
    deserializer's ready/valid port are exactly the bytes latched by the receive FSM at its frame ends — each once, unchanged,
    in order.  (The other half is `rx_sampling` below.) -/
theorem rx_handoff_partial (n : Nat) (ins : List LIn) (hk : keepsUp 2 (rxEvents n Link.init ins) = true) :
    Link.delivered n Link.init ins = (rxEvents n Link.init ins).filterMap (·.1) := by
  have h := delivered_eq_hs n ins Link.init ⟨0, 0, 0, 0, 0, 0, 0⟩ rfl
  rw [h]
  have := handoff_inv (rxEvents n Link.init ins) 2 ⟨0, 0, 0⟩ [] (by left; simp) hk
  simpa [DesN.hs] using this

example : keepsUp 2 (rxEvents 2 Link.init exIns) = true := by decide +kernel
example : (rxEvents 2 Link.init exIns).filterMap (·.1) = [0xA5, 0, 0xFF] := by decide +kernel
/-- the slow consumer of the counterexample is exactly outside the hypothesis -/
example : keepsUp 2 (rxEvents 2 Link.init slowIns) = false := by decide +kernel
example : (rxEvents 2 Link.init slowIns).filterMap (·.1) = [1, 2, 3, 4, 5, 6] := by decide +kernel


/-! ## serializer liveness: `ready` returns within 22n+1 = 11·P + 1 cycles, whatever the producer does -/
theorem ser_live (n : Nat) (hn : 2 ≤ n) (pre rest : List (Nat × Nat)) (hl : 22 * n + 1 ≤ rest.length) :
    ∃ k, k ≤ 22 * n + 1 ∧ (TxSide.run n TxSide.init (pre ++ rest.take k)).ser.ready = 1 := by
  obtain ⟨s, m, e, hinv, hrun, _⟩ := reach n hn pre
  have hr := rank_le n m e hinv.wf hinv.lt (by omega)
  obtain ⟨j, hj⟩ := live_pos n (by omega) (rank n m e) m e rest hinv.wf hinv.lt rfl (by omega)
  refine ⟨rank n m e, hr, ?_⟩
  have hp := pos_inv n hn (rest.take (rank n m e)) s m e hinv
  rw [run_append, hrun, hp.2]
  show (TxN.run n s (rest.take (rank n m e))).ser.ready = 1
  rw [hp.1.ser, hj]; rfl

theorem accepted_append (n : Nat) (a b : List (Nat × Nat)) : ∀ s,
    TxSide.accepted n s (a ++ b) = TxSide.accepted n s a ++ TxSide.accepted n (TxSide.run n s a) b := by
  induction a with
  | nil => intro s; rfl
  | cons i is ih =>
    intro s; obtain ⟨x, y⟩ := i
    simp only [List.cons_append, TxSide.accepted, TxSide.run, ih, optCons_eq, List.append_assoc]

theorem accepted_idle (n : Nat) (dr : List (Nat × Nat)) (hd : ∀ x ∈ dr, x.1 = 0) : ∀ s, TxSide.accepted n s dr = [] := by
  induction dr with
  | nil => intro s; rfl
  | cons i is ih =>
    intro s; obtain ⟨x, y⟩ := i
    have : x = 0 := hd (x, y) (by simp)
    subst this
    simp only [TxSide.accepted, TxSide.accept]
    rw [ih (fun z hz => hd z (by simp [hz]))]
    simp [optCons]

/-- after a drain of 22n+1 producer-idle cycles the serializer is ready -/
theorem ready_after_drain (n : Nat) (hn : 2 ≤ n) (ins dr : List (Nat × Nat)) (hd : ∀ x ∈ dr, x.1 = 0)
    (hl : 22 * n + 1 ≤ dr.length) : (TxSide.run n TxSide.init (ins ++ dr)).ser.ready = 1 := by
  obtain ⟨s, m, e, hinv, hrun, _⟩ := reach n hn ins
  have hr := rank_le n m e hinv.wf hinv.lt (by omega)
  obtain ⟨j, hj⟩ := live_pos n (by omega) (rank n m e) m e dr hinv.wf hinv.lt rfl (by omega)
  have hsplit : dr = dr.take (rank n m e) ++ dr.drop (rank n m e) := (List.take_append_drop _ _).symm
  have hpos : (posRun n m e dr).1 = .ready j := by
    rw [hsplit, posRun_append]
    generalize (posRun n m e (dr.take (rank n m e))).2 = e2
    rw [hj]
    exact posRun_idle n _ (fun x hx => hd x (List.mem_of_mem_drop hx)) j e2
  have hp := pos_inv n hn dr s m e hinv
  rw [run_append, hrun, hp.2]
  show (TxN.run n s dr).ser.ready = 1
  rw [hp.1.ser, hpos]; rfl

/-- C17, line clause without the "ready again" hypothesis: for EVERY input stream followed by a drain of at least
    11·P + 1 producer-idle cycles, the software 8N1 receiver recovers exactly the accepted bytes -/
theorem line_8n1_drained (n : Nat) (hn : 2 ≤ n) (ins dr : List (Nat × Nat)) (hd : ∀ x ∈ dr, x.1 = 0)
    (hl : 22 * n + 1 ≤ dr.length) :
    softRx (2 * n) (TxSide.trace n TxSide.init (ins ++ dr)) = (TxSide.accepted n TxSide.init ins).map (· % 256) := by
  rw [line_8n1_tx n hn (ins ++ dr) (ready_after_drain n hn ins dr hd hl), accepted_append,
    accepted_idle n dr hd, List.append_nil]

/-! ## delivery clause, closed loop -/
/-- safety: the bytes latched by the receive FSM are the accepted bytes, at most one behind (every n ≥ 2, every stream) -/
theorem rx_sampling_inv (n : Nat) (hn : 2 ≤ n) (ins : List LIn) :
    ∃ p, p.length ≤ 1 ∧
      (Link.accepted n Link.init ins).map (· % 256) = (rxEvents n Link.init ins).filterMap (·.1) ++ p := by
  obtain ⟨m', e', ph', _, hl⟩ := link_run_inv n hn ins Link.init _ _ _ (link_inv_init n (by omega))
  refine ⟨pendRx m' ph', ?_, by simpa [pendRx] using hl⟩
  unfold pendRx
  cases ph' with
  | busy b k er => simp
  | idle z => cases m' <;> simp <;> split <;> simp
  | ended => cases m' <;> simp <;> split <;> simp

/-- `rx_sampling`: the recovered clock samples every frame bit once, mid-bit — once the serializer is ready again, the bytes
    latched by the receive FSM at its frame ends are exactly the accepted bytes (every n ≥ 2, every input stream, every
    consumer) -/
theorem rx_sampling (n : Nat) (hn : 2 ≤ n) (ins : List LIn) (hr : (Link.run n Link.init ins).tx.ser.ready = 1) :
    (rxEvents n Link.init ins).filterMap (·.1) = (Link.accepted n Link.init ins).map (· % 256) := by
  obtain ⟨m', e', ph', hinv, hl⟩ := link_run_inv n hn ins Link.init _ _ _ (link_inv_init n (by omega))
  obtain ⟨t, r, ht, _, hti, _, hj⟩ := hinv
  have hrd : t.ser.ready = 1 := by rw [ht] at hr; exact hr
  have hm := ready_iff n m' e'
  rw [← hti.ser] at hm
  obtain ⟨j, hjm⟩ := hm.mp hrd
  subst hjm
  have hp : pendRx (.ready j) ph' = [] := by
    simp only [J] at hj
    rcases hj with ⟨z, _, h⟩ | ⟨_, _, h⟩ <;> subst h <;> rfl
  rw [hp] at hl
  simpa [pendRx] using hl.symm

/-- **C17, delivery clause** (`link_delivers`): closed loop, every divider ratio n ≥ 2 (≥ 4 clocks per bit), every producer
    behaviour (all byte values, all gaps including none), every consumer timing that keeps up — once the serializer is ready
    again, every accepted byte has been presented on the deserializer's ready/valid port exactly once, unchanged (low 8 bits),
    in order. -/
theorem link_delivers (n : Nat) (hn : 2 ≤ n) (ins : List LIn)
    (hk : keepsUp 2 (rxEvents n Link.init ins) = true) (hr : (Link.run n Link.init ins).tx.ser.ready = 1) :
    Link.delivered n Link.init ins = (Link.accepted n Link.init ins).map (· % 256) := by
  rw [rx_handoff_partial n ins hk, rx_sampling n hn ins hr]

theorem txIns_append (a b : List LIn) : txIns (a ++ b) = txIns a ++ txIns b := by simp [txIns]

/-- the same with an explicit drain instead of "ready again": after at least 11·P + 1 producer-idle cycles (any consumer
    behaviour that keeps up over the whole run) delivered = accepted and the software receiver agrees -/
theorem link_delivers_drained (n : Nat) (hn : 2 ≤ n) (ins dr : List LIn) (hd : ∀ x ∈ dr, x.valid = 0)
    (hl : 22 * n + 1 ≤ dr.length) (hk : keepsUp 2 (rxEvents n Link.init (ins ++ dr)) = true) :
    Link.delivered n Link.init (ins ++ dr) = (Link.accepted n Link.init ins).map (· % 256) ∧
    softRx (2 * n) (Link.trace n Link.init (ins ++ dr)) = (Link.accepted n Link.init ins).map (· % 256) := by
  obtain ⟨a, b, c⟩ := link_tx n (ins ++ dr) Link.init
  obtain ⟨_, _, c'⟩ := link_tx n ins Link.init
  have hd' : ∀ x ∈ txIns dr, x.1 = 0 := by
    intro x hx
    simp only [txIns, List.mem_map] at hx
    obtain ⟨y, hy, rfl⟩ := hx
    exact hd y hy
  have hlen : 22 * n + 1 ≤ (txIns dr).length := by simp [txIns]; exact hl
  have hrd : (Link.run n Link.init (ins ++ dr)).tx.ser.ready = 1 := by
    rw [a, txIns_append]; exact ready_after_drain n hn _ _ hd' hlen
  have hacc : Link.accepted n Link.init (ins ++ dr) = Link.accepted n Link.init ins := by
    rw [c, c', txIns_append, accepted_append, accepted_idle n _ hd', List.append_nil]
  refine ⟨?_, ?_⟩
  · rw [link_delivers n hn _ hk hrd, hacc]
  · rw [line_8n1 n hn _ hrd, hacc]

/-- non-vacuity of `link_delivers` -/
example : keepsUp 2 (rxEvents 2 Link.init exIns) = true ∧ (Link.run 2 Link.init exIns).tx.ser.ready = 1 := by decide +kernel

end C17
