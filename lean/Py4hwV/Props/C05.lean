import Py4hwV.Net.Sim
import Py4hwV.Net.PrepLemma
/-
  C05 — Clock edges are atomic: every sequential block sees pre-edge values.

  Model: Net.Sim (clockDrivers / settleAll / propagateAll / clkCycle / clk), leaves are ARBITRARY functions
  `clock : Val → σ → σ × List (wire × value)`; they read the wire valuation and cannot write it (they only `prepare`).
  Universal over designs, leaf functions, states, visiting orders, splittings.
-/
namespace C05
open Net

variable {σ : Type}

/-! ### what one edge does, independent of the visiting order -/

/-- result of `clock()` of leaf `k` evaluated on the PRE-EDGE state `s` -/
def res (d : Design σ) (s : State σ) (k : Nat) : σ × List (Nat × Int) := (d.leaf k).clock s.val (s.st k)

/-- `clockLeaf` with the leaf's result supplied from outside -/
def applyRes (d : Design σ) (r : Nat → σ × List (Nat × Int)) (s' : State σ) (k : Nat) : State σ :=
  (r k).2.foldl (prepW d) { s' with st := upd s'.st k (r k).1 }

/-- the clockables actually clocked at this edge, in visiting order (enable tested on valuation `v`) -/
def enabledClockables (v : Val) (ds : List Driver) : List Nat :=
  ds.flatMap fun dr => if enabled v dr.enable then dr.clockables else []

/-- wires a leaf prepares at this edge -/
def targets (r : Nat → σ × List (Nat × Int)) (k : Nat) : List Nat := (r k).2.map Prod.fst

/-- value stored by prepare (independent of the state: `Net.prepVal_eq`) -/
def P (d : Design σ) (wv : Nat × Int) : Nat := Bits.put (d.width wv.1) wv.2

def nstep (d : Design σ) (n : Val) (wv : Nat × Int) : Val := upd n wv.1 (P d wv)

/-! #### prepW never touches val / st / clks -/
theorem foldl_prepW_val (d : Design σ) (l : List (Nat × Int)) (s : State σ) : (l.foldl (prepW d) s).val = s.val := by
  induction l generalizing s with
  | nil => rfl
  | cons a l ih => simp [List.foldl, ih, prepW]

theorem foldl_prepW_st (d : Design σ) (l : List (Nat × Int)) (s : State σ) : (l.foldl (prepW d) s).st = s.st := by
  induction l generalizing s with
  | nil => rfl
  | cons a l ih => simp [List.foldl, ih, prepW]

theorem foldl_prepW_clks (d : Design σ) (l : List (Nat × Int)) (s : State σ) : (l.foldl (prepW d) s).clks = s.clks := by
  induction l generalizing s with
  | nil => rfl
  | cons a l ih => simp [List.foldl, ih, prepW]

theorem foldl_prepW_prepared (d : Design σ) (l : List (Nat × Int)) (s : State σ) :
    (l.foldl (prepW d) s).prepared = s.prepared ++ l.map Prod.fst := by
  induction l generalizing s with
  | nil => simp
  | cons a l ih => simp [List.foldl, ih, prepW]

theorem foldl_prepW_nxt (d : Design σ) (l : List (Nat × Int)) (s : State σ) :
    (l.foldl (prepW d) s).nxt = l.foldl (nstep d) s.nxt := by
  induction l generalizing s with
  | nil => rfl
  | cons a l ih => simp [List.foldl, ih, prepW, nstep, P, prepVal_eq]

/-- ATOMICITY, step form: a `clock()` call does not change any wire value — later leaves still read pre-edge values -/
theorem clockLeaf_val (d : Design σ) (s : State σ) (k : Nat) : (clockLeaf d s k).val = s.val := by
  unfold clockLeaf; rw [foldl_prepW_val]

theorem applyRes_val (d : Design σ) (r) (s : State σ) (k : Nat) : (applyRes d r s k).val = s.val := by
  unfold applyRes; rw [foldl_prepW_val]

theorem applyRes_st (d : Design σ) (r) (s : State σ) (k : Nat) : (applyRes d r s k).st = upd s.st k (r k).1 := by
  unfold applyRes; rw [foldl_prepW_st]

theorem foldl_applyRes_val (d : Design σ) (r) (l : List Nat) (s : State σ) :
    (l.foldl (applyRes d r) s).val = s.val := by
  induction l generalizing s with
  | nil => rfl
  | cons a l ih => simp [List.foldl, ih, applyRes_val]

theorem foldl_applyRes_clks (d : Design σ) (r) (l : List Nat) (s : State σ) :
    (l.foldl (applyRes d r) s).clks = s.clks := by
  induction l generalizing s with
  | nil => rfl
  | cons a l ih =>
    simp only [List.foldl, ih]
    unfold applyRes; rw [foldl_prepW_clks]

theorem foldl_applyRes_st (d : Design σ) (r) (l : List Nat) (s : State σ) (j : Nat) :
    (l.foldl (applyRes d r) s).st j = if j ∈ l then (r j).1 else s.st j := by
  induction l generalizing s with
  | nil => simp
  | cons a l ih =>
    simp only [List.foldl, ih, applyRes_st]
    by_cases h1 : j ∈ l
    · simp [h1]
    · by_cases h2 : j = a
      · subst h2; simp [h1]
      · simp [h1, h2, upd]

theorem foldl_applyRes_prepared (d : Design σ) (r) (l : List Nat) (s : State σ) :
    (l.foldl (applyRes d r) s).prepared = s.prepared ++ (l.flatMap fun k => (r k).2).map Prod.fst := by
  induction l generalizing s with
  | nil => simp
  | cons a l ih =>
    simp only [List.foldl, ih]
    unfold applyRes
    rw [foldl_prepW_prepared]
    simp [List.flatMap_cons]

theorem foldl_applyRes_nxt (d : Design σ) (r) (l : List Nat) (s : State σ) :
    (l.foldl (applyRes d r) s).nxt = (l.flatMap fun k => (r k).2).foldl (nstep d) s.nxt := by
  induction l generalizing s with
  | nil => simp
  | cons a l ih =>
    simp only [List.foldl, ih]
    unfold applyRes
    rw [foldl_prepW_nxt]
    simp [List.flatMap_cons, List.foldl_append]

/-- every leaf is evaluated on the pre-edge state: visiting a duplicate-free list with `clockLeaf` is visiting it
    with results precomputed from `s` -/
theorem foldl_clockLeaf_eq (d : Design σ) (s : State σ) (l : List Nat) (hn : l.Nodup) (s' : State σ)
    (hv : s'.val = s.val) (hs : ∀ k, k ∈ l → s'.st k = s.st k) :
    l.foldl (clockLeaf d) s' = l.foldl (applyRes d (res d s)) s' := by
  induction l generalizing s' with
  | nil => rfl
  | cons a l ih =>
    have hstep : clockLeaf d s' a = applyRes d (res d s) s' a := by
      unfold clockLeaf applyRes res
      rw [hv, hs a (by simp)]
    simp only [List.foldl]
    rw [hstep]
    have hnd := List.nodup_cons.mp hn
    apply ih hnd.2
    · rw [applyRes_val, hv]
    · intro k hk
      rw [applyRes_st]
      have : k ≠ a := by intro e; subst e; exact hnd.1 hk
      simp [upd, this]
      exact hs k (by simp [hk])

/-- the loop over drivers only looks at the pre-edge valuation to decide which drivers are enabled -/
theorem clockDrivers_eq (d : Design σ) (s : State σ) (ds : List Driver) :
    clockDrivers d s ds = (enabledClockables s.val ds).foldl (clockLeaf d) s := by
  unfold clockDrivers enabledClockables
  suffices h : ∀ s' : State σ, s'.val = s.val →
      ds.foldl (fun s dr => if enabled s.val dr.enable then dr.clockables.foldl (clockLeaf d) s else s) s' =
      (ds.flatMap fun dr => if enabled s.val dr.enable then dr.clockables else []).foldl (clockLeaf d) s' from h s rfl
  induction ds with
  | nil => intro s' _; rfl
  | cons dr ds ih =>
    intro s' hv
    simp only [List.foldl, List.flatMap_cons, List.foldl_append]
    rw [hv]
    by_cases he : enabled s.val dr.enable
    · simp only [he, if_true]
      apply ih
      have : ∀ (l : List Nat) (x : State σ), (l.foldl (clockLeaf d) x).val = x.val := by
        intro l
        induction l with
        | nil => intro x; rfl
        | cons a l ih2 => intro x; simp [List.foldl, ih2, clockLeaf_val]
      rw [this, hv]
    · simp only [he, if_false, List.foldl]
      exact ih s' hv

/-! #### the settled result depends on the visiting order only through its set of leaves -/

theorem foldl_nstep_at (d : Design σ) (ps : List (Nat × Int)) (n1 n2 : Val) (w : Nat) (h : n1 w = n2 w) :
    (ps.foldl (nstep d) n1) w = (ps.foldl (nstep d) n2) w := by
  induction ps generalizing n1 n2 with
  | nil => exact h
  | cons a ps ih =>
    simp only [List.foldl]
    apply ih
    unfold nstep upd
    by_cases e : w = a.1 <;> simp [e, h]

/-- at wire `w` only the prepares that target `w` matter -/
theorem foldl_nstep_filter (d : Design σ) (ps : List (Nat × Int)) (n0 : Val) (w : Nat) :
    (ps.foldl (nstep d) n0) w = ((ps.filter fun wv => wv.1 == w).foldl (nstep d) n0) w := by
  induction ps generalizing n0 with
  | nil => rfl
  | cons a ps ih =>
    simp only [List.foldl, List.filter_cons]
    by_cases e : a.1 = w
    · simp only [e, beq_self_eq_true, if_true, List.foldl]
      exact ih _
    · have : (a.1 == w) = false := by simp [e]
      simp only [this]
      rw [ih]
      apply foldl_nstep_at
      unfold nstep upd
      have : w ≠ a.1 := fun h => e h.symm
      simp [this]

theorem settle_val (nxt : Val) (l : List Nat) (v : Val) (x : Nat) :
    (l.foldl (fun v w => upd v w (nxt w)) v) x = if x ∈ l then nxt x else v x := by
  induction l generalizing v with
  | nil => simp
  | cons a l ih =>
    simp only [List.foldl, ih]
    by_cases h1 : x ∈ l
    · simp [h1]
    · by_cases h2 : x = a
      · subst h2; simp [h1]
      · simp [h1, h2, upd]

/-- flatMap over a duplicate-free list in which at most one element contributes is order-independent -/
theorem flatMap_perm_eq {α β : Type} (f : α → List β) (l₁ l₂ : List α) (hp : l₁.Perm l₂) (hn : l₁.Nodup)
    (h1 : ∀ a, a ∈ l₁ → ∀ b, b ∈ l₁ → a ≠ b → f a = [] ∨ f b = []) : l₁.flatMap f = l₂.flatMap f := by
  induction hp with
  | nil => rfl
  | cons x _ ih =>
    simp only [List.flatMap_cons]
    have hnd := List.nodup_cons.mp hn
    rw [ih hnd.2 (fun a ha b hb => h1 a (by simp [ha]) b (by simp [hb]))]
  | swap x y l =>
    simp only [List.flatMap_cons]
    have hnd := List.nodup_cons.mp hn
    have hxy : y ≠ x := by
      intro e; apply hnd.1; simp [e]
    rcases h1 y (by simp) x (by simp) hxy with h | h <;> simp [h]
  | trans p₁ _ ih₁ ih₂ =>
    rw [ih₁ hn h1]
    apply ih₂ (p₁.nodup_iff.mp hn)
    intro a ha b hb
    exact h1 a (p₁.mem_iff.mpr ha) b (p₁.mem_iff.mpr hb)

/-- Distinct sequential blocks prepare distinct wires (the single-driver invariant of C11) -/
def DisjointTargets (r : Nat → σ × List (Nat × Int)) (l : List Nat) : Prop :=
  ∀ a, a ∈ l → ∀ b, b ∈ l → a ≠ b → ∀ w, w ∈ targets r a → w ∉ targets r b

theorem filter_targets_empty (r : Nat → σ × List (Nat × Int)) (k w : Nat) (h : w ∉ targets r k) :
    (r k).2.filter (fun wv => wv.1 == w) = [] := by
  apply List.filter_eq_nil_iff.mpr
  intro wv hwv
  simp only [beq_iff_eq]
  intro e
  apply h
  unfold targets
  exact List.mem_map.mpr ⟨wv, hwv, e⟩

/-- the state after all `clock()` calls of an edge and `settleAll`, for two visiting orders of the same leaves -/
theorem settle_perm (d : Design σ) (r : Nat → σ × List (Nat × Int)) (s : State σ) (l₁ l₂ : List Nat)
    (hp : l₁.Perm l₂) (hn : l₁.Nodup) (hd : DisjointTargets r l₁) :
    settleAll (l₁.foldl (applyRes d r) s) = settleAll (l₂.foldl (applyRes d r) s) := by
  have hnxt : (l₁.foldl (applyRes d r) s).nxt = (l₂.foldl (applyRes d r) s).nxt := by
    funext w
    rw [foldl_applyRes_nxt, foldl_applyRes_nxt, foldl_nstep_filter, foldl_nstep_filter (ps := l₂.flatMap _)]
    rw [List.filter_flatMap, List.filter_flatMap]
    rw [flatMap_perm_eq _ l₁ l₂ hp hn]
    intro a ha b hb hab
    by_cases hw : w ∈ targets r a
    · right; exact filter_targets_empty r b w (hd a ha b hb hab w hw)
    · left; exact filter_targets_empty r a w hw
  have hprep : ∀ x, x ∈ (l₁.foldl (applyRes d r) s).prepared ↔ x ∈ (l₂.foldl (applyRes d r) s).prepared := by
    intro x
    rw [foldl_applyRes_prepared, foldl_applyRes_prepared]
    have : (l₁.flatMap fun k => (r k).2).Perm (l₂.flatMap fun k => (r k).2) := hp.flatMap_right _
    simp only [List.mem_append]
    rw [(this.map Prod.fst).mem_iff]
  have hst : (l₁.foldl (applyRes d r) s).st = (l₂.foldl (applyRes d r) s).st := by
    funext j
    rw [foldl_applyRes_st, foldl_applyRes_st]
    simp [hp.mem_iff]
  unfold settleAll
  have hval : (l₁.foldl (applyRes d r) s).val = (l₂.foldl (applyRes d r) s).val := by
    rw [foldl_applyRes_val, foldl_applyRes_val]
  have hclk : (l₁.foldl (applyRes d r) s).clks = (l₂.foldl (applyRes d r) s).clks := by
    rw [foldl_applyRes_clks, foldl_applyRes_clks]
  have hv2 : (List.foldl (fun v w => upd v w ((l₁.foldl (applyRes d r) s).nxt w)) (l₁.foldl (applyRes d r) s).val
      (l₁.foldl (applyRes d r) s).prepared) =
      (List.foldl (fun v w => upd v w ((l₂.foldl (applyRes d r) s).nxt w)) (l₂.foldl (applyRes d r) s).val
      (l₂.foldl (applyRes d r) s).prepared) := by
    funext x
    rw [settle_val, settle_val, hnxt, hval]
    by_cases h : x ∈ (l₁.foldl (applyRes d r) s).prepared
    · simp [h, (hprep x).mp h]
    · have : x ∉ (l₂.foldl (applyRes d r) s).prepared := fun h' => h ((hprep x).mpr h')
      simp [h, this]
  rw [hv2, hnxt, hst, hclk]

/-- **C05 (order independence).** Two simulators for the same design that visit the clock drivers in different
    orders and the clockables of each driver in different orders (any two driver lists whose enabled clockables
    are permutations of each other) produce the same post-edge state — wires, leaf states, pending list, cycle count —
    provided each sequential block is visited once and distinct blocks drive distinct wires. -/
theorem clkCycle_perm_indep (d : Design σ) (ds₁ ds₂ : List Driver) (s : State σ)
    (hp : (enabledClockables s.val ds₁).Perm (enabledClockables s.val ds₂))
    (hn : (enabledClockables s.val ds₁).Nodup)
    (hd : DisjointTargets (res d s) (enabledClockables s.val ds₁)) :
    clkCycle { d with drivers := ds₁ } s = clkCycle { d with drivers := ds₂ } s := by
  unfold clkCycle
  simp only
  rw [clockDrivers_eq, clockDrivers_eq]
  have e1 := foldl_clockLeaf_eq { d with drivers := ds₁ } s _ hn s rfl (fun _ _ => rfl)
  have e2 := foldl_clockLeaf_eq { d with drivers := ds₂ } s _ (hp.nodup_iff.mp hn) s rfl (fun _ _ => rfl)
  rw [e1, e2]
  have := settle_perm d (res d s) s _ _ hp hn hd
  -- the three designs differ only in `drivers`, which none of these functions reads
  have hA : ∀ (dd : Design σ) (l : List Nat), dd.width = d.width → dd.leaf = d.leaf →
      l.foldl (applyRes dd (res dd s)) s = l.foldl (applyRes d (res d s)) s := by
    intro dd l hw hl
    have hr : res dd s = res d s := by funext k; simp [res, hl]
    rw [hr]
    congr 1
    funext s' k
    simp [applyRes, prepW, prepVal, hw]
    congr 1
    funext s'' wv
    simp [prepW, prepVal, hw]
  rw [hA { d with drivers := ds₁ } _ rfl rfl, hA { d with drivers := ds₂ } _ rfl rfl, this]
  rfl

/-- **C05 (pre-edge values).** Every sequential block's new state is its `clock()` evaluated on the wire values and
    on its own state as they were BEFORE the edge, whatever position it has in the visiting order. -/
theorem leaf_sees_pre_edge (d : Design σ) (s : State σ) (k : Nat)
    (hn : (enabledClockables s.val d.drivers).Nodup) (hk : k ∈ enabledClockables s.val d.drivers) :
    (clockDrivers d s d.drivers).st k = ((d.leaf k).clock s.val (s.st k)).1 := by
  rw [clockDrivers_eq, foldl_clockLeaf_eq d s _ hn s rfl (fun _ _ => rfl), foldl_applyRes_st]
  simp [hk, res]

/-- a block that is not clocked at this edge keeps its state -/
theorem unclocked_keeps_state (d : Design σ) (s : State σ) (k : Nat)
    (hn : (enabledClockables s.val d.drivers).Nodup) (hk : k ∉ enabledClockables s.val d.drivers) :
    (clockDrivers d s d.drivers).st k = s.st k := by
  rw [clockDrivers_eq, foldl_clockLeaf_eq d s _ hn s rfl (fun _ _ => rfl), foldl_applyRes_st]
  simp [hk]

/-- **C05 (all prepared updates become visible together, none before).** No wire changes while the blocks are clocked… -/
theorem no_update_before_settle (d : Design σ) (s : State σ) : (clockDrivers d s d.drivers).val = s.val := by
  rw [clockDrivers_eq]
  generalize enabledClockables s.val d.drivers = l
  induction l generalizing s with
  | nil => rfl
  | cons a l ih =>
    simp only [List.foldl]
    have h := clockLeaf_val d s a
    have := ih (clockLeaf d s a)
    rw [h] at this
    -- ih is stated for the state whose own val is the reference; re-derive directly
    clear this
    have gen : ∀ (l : List Nat) (x : State σ), (l.foldl (clockLeaf d) x).val = x.val := by
      intro l
      induction l with
      | nil => intro x; rfl
      | cons a l ih2 => intro x; simp [List.foldl, ih2, clockLeaf_val]
    rw [gen, h]

/-- … and `settleAll` gives every prepared wire its (last) prepared value and leaves every other wire alone -/
theorem settle_exactly (s : State σ) (w : Nat) :
    (settleAll s).val w = if w ∈ s.prepared then s.nxt w else s.val w := by
  unfold settleAll; exact settle_val s.nxt s.prepared s.val w

theorem foldl_putW_prepared (d : Design σ) (l : List (Nat × Int)) (s : State σ) :
    (l.foldl (putW d) s).prepared = s.prepared := by
  induction l generalizing s with
  | nil => rfl
  | cons a l ih => simp [List.foldl, ih, putW]

theorem propagateAll_prepared (d : Design σ) (s : State σ) : (propagateAll d s).prepared = s.prepared := by
  unfold propagateAll
  generalize d.order = l
  induction l generalizing s with
  | nil => rfl
  | cons a l ih =>
    simp only [List.foldl, ih]
    unfold propLeaf
    rw [foldl_putW_prepared]

/-- **C05 (none is lost or carried over).** After a cycle the pending list is empty: nothing prepared at edge t can be
    settled at edge t+1. -/
theorem prepared_empty_after_cycle (d : Design σ) (s : State σ) : (clkCycle d s).prepared = [] := by
  unfold clkCycle
  simp only
  rw [propagateAll_prepared]
  rfl

theorem total_clks_cycle (d : Design σ) (s : State σ) :
    (clkCycle d s).clks = (propagateAll d (settleAll (clockDrivers d s d.drivers))).clks + 1 := rfl

/-! ### clk(m+n) = clk(n) ∘ clk(m) -/

/-- the leading `propagateAll` of `clk()` is the identity on a state that `propagateAll` produced
    (C04 proves this for stateless combinational leaves evaluated in a topological order) -/
def PropIdem (d : Design σ) : Prop := ∀ s : State σ, propagateAll d (propagateAll d s) = propagateAll d s

theorem foldl_putW_clks (d : Design σ) (l : List (Nat × Int)) (s : State σ) (c : Nat) :
    l.foldl (putW d) { s with clks := c } = { l.foldl (putW d) s with clks := c } := by
  induction l generalizing s with
  | nil => rfl
  | cons a l ih =>
    simp only [List.foldl]
    have : putW d { s with clks := c } a = { putW d s a with clks := c } := rfl
    rw [this, ih]

theorem propagateAll_clks (d : Design σ) (s : State σ) (c : Nat) :
    propagateAll d { s with clks := c } = { propagateAll d s with clks := c } := by
  unfold propagateAll
  generalize d.order = l
  induction l generalizing s with
  | nil => rfl
  | cons a l ih =>
    simp only [List.foldl]
    have : propLeaf d { s with clks := c } a = { propLeaf d s a with clks := c } :=
      foldl_putW_clks d ((d.leaf a).prop s.val (s.st a)).2
        { s with st := upd s.st a ((d.leaf a).prop s.val (s.st a)).1 } c
    rw [this, ih]

theorem iter_add {α : Type} (f : α → α) (m n : Nat) (a : α) : iter f (m + n) a = iter f n (iter f m a) := by
  induction m generalizing a with
  | zero => simp [iter]
  | succ m ih =>
    have : m + 1 + n = (m + n) + 1 := by omega
    rw [this]; simp only [iter]; exact ih _

/-- a state produced by clk(m) is settled -/
theorem clk_settled (d : Design σ) (h : PropIdem d) (m : Nat) (s : State σ) :
    propagateAll d (clk d m s) = clk d m s := by
  unfold clk
  induction m generalizing s with
  | zero => exact h s
  | succ m ih =>
    -- iter f (m+1) a = iter f m (f a); rewrite as f applied last
    have comm : ∀ (k : Nat) (a : State σ), iter (clkCycle d) (k + 1) a = clkCycle d (iter (clkCycle d) k a) := by
      intro k
      induction k with
      | zero => intro a; rfl
      | succ k ihk => intro a; simp only [iter] at *; exact ihk _
    rw [comm]
    unfold clkCycle
    simp only
    rw [propagateAll_clks, h]

/-- **C05 (splitting).** Advancing m+n cycles in one call is the same as clk(m) followed by clk(n) (inputs not
    re-poked in between), for every m and n — hence clk(n) is n single-cycle calls. -/
theorem clk_split (d : Design σ) (h : PropIdem d) (m n : Nat) (s : State σ) :
    clk d (m + n) s = clk d n (clk d m s) := by
  have hs := clk_settled d h m s
  unfold clk at *
  rw [iter_add, hs]

theorem clk_eq_singles (d : Design σ) (h : PropIdem d) (n : Nat) (s : State σ) :
    clk d n s = iter (clk d 1) n (propagateAll d s) := by
  induction n generalizing s with
  | zero => rfl
  | succ n ih =>
    have e : clk d (n + 1) s = clk d n (clk d 1 s) := by
      rw [show n + 1 = 1 + n by omega]; exact clk_split d h 1 n s
    rw [e, ih]
    show iter (clk d 1) n (propagateAll d (clk d 1 s)) = iter (clk d 1) n (clk d 1 (propagateAll d s))
    have : propagateAll d (clk d 1 s) = clk d 1 s := clk_settled d h 1 s
    rw [this]
    have h0 : clk d 1 (propagateAll d s) = clk d 1 s := by
      unfold clk; rw [h s]
    rw [h0]

/-! ### non-vacuity: a two-register swap (each reads the other's pre-edge value) -/
def swapDesign (order : List Nat) : Design Unit :=
  { width := fun _ => 4,
    leaf := fun k => { prop := fun _ s => (s, []),
                       clock := fun v s => (s, [(k, (v (1 - k) : Int))]) },   -- leaf 0 drives wire 0 from wire 1, leaf 1 the converse
    order := [], drivers := [{ enable := none, clockables := order }] }

def st01 : State Unit := { val := fun w => if w = 0 then 3 else 9, nxt := fun _ => 0, prepared := [], st := fun _ => (), clks := 0 }

example : ((clkCycle (swapDesign [0, 1]) st01).val 0, (clkCycle (swapDesign [0, 1]) st01).val 1) = (9, 3) := by decide
example : ((clkCycle (swapDesign [1, 0]) st01).val 0, (clkCycle (swapDesign [1, 0]) st01).val 1) = (9, 3) := by decide
example : (enabledClockables st01.val (swapDesign [0, 1]).drivers).Nodup := by decide
example : PropIdem (swapDesign [0, 1]) := fun _ => rfl

end C05
