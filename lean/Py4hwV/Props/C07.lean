import Py4hwV.Proofs.C07Rot
import Py4hwV.Proofs.C07Bcd
import Py4hwV.Proofs.C07Clz
/-
  C07 — Integer arithmetic blocks compute their mathematical function for all inputs.

  Every theorem: model of the constructor (Lib.*, same recursion as the Python, over the reference leaves Leaf.* that
  are bridged to the GENERATED propagate() bodies by Leaf.gen_*) = specification (ArithSpec.*, plain integer
  arithmetic modulo 2^(output width)), for ALL widths and ALL input values in range.
-/
namespace C07
open Bits

/-! ## Add -/

theorem add_none (rw cow a b : Nat) : Lib.add rw cow a b none = Lib.add rw cow a b (some 0) := by
  unfold Lib.add; simp only [Leaf.const, put_zero]

/-- `Add`, all options: the sum output is `(a + b + ci) mod 2^rw` (ci = 0 when there is no carry-in port; a carry-in
    wire of any width contributes its full value) -/
theorem add_spec (rw cow a b : Nat) (ci : Option Nat) (hrw : 1 ≤ rw) :
    (Lib.add rw cow a b ci).1 = ArithSpec.add rw a b (ci.getD 0) := by
  have hs : ∀ c, (Lib.add rw cow a b (some c)).1 = ArithSpec.add rw a b c := by
    intro c
    unfold Lib.add ArithSpec.add
    simp only []
    split
    · rfl
    · simp only [range_low _ _ hrw, Leaf.addc]
      exact Nat.mod_mod_of_dvd _ ⟨2, Nat.pow_succ 2 rw⟩
  cases ci with
  | none => rw [add_none]; exact hs 0
  | some c => exact hs c

/-- carry out = bit `rw` of the full sum -/
theorem add_co_spec (rw cow a b : Nat) (ci : Option Nat) (hco : 1 ≤ cow) :
    (Lib.add rw cow a b ci).2 = ArithSpec.addCo rw a b (ci.getD 0) := by
  have hs : ∀ c, (Lib.add rw cow a b (some c)).2 = ArithSpec.addCo rw a b c := by
    intro c
    unfold Lib.add ArithSpec.addCo
    simp only []
    rw [if_neg (by omega)]
    simp only [bit_one _ _ _ hco, Leaf.addc]
    rw [Nat.pow_succ, Nat.mod_mul_right_div_self, Nat.mod_mod]
  cases ci with
  | none => rw [add_none]; exact hs 0
  | some c => exact hs c

/-- … so `{co, r}` is the exact `(rw+1)`-bit sum -/
theorem add_co_exact (rw cow a b : Nat) (ci : Option Nat) (hrw : 1 ≤ rw) (hco : 1 ≤ cow) :
    (Lib.add rw cow a b ci).1 + 2^rw * (Lib.add rw cow a b ci).2 = (a + b + ci.getD 0) % 2^(rw+1) := by
  rw [add_spec _ _ _ _ _ hrw, add_co_spec _ _ _ _ _ hco]
  unfold ArithSpec.add ArithSpec.addCo
  rw [Nat.pow_succ, Nat.mod_mul]

example : Lib.add 4 1 9 8 (some 1) = (2, 1) := by decide
example : Lib.addLegal 4 4 4 1 false = true ∧ Lib.addLegal 6 4 4 1 false = false := by decide

/-! ## SignedAdd -/

theorem signedAdd_spec (aw bw rw cow a b : Nat) (ci : Option Nat) (haw : 1 ≤ aw) (hbw : 1 ≤ bw)
    (hl : Lib.signedAddLegal aw bw rw = true) (ha : a < 2^aw) (hb : b < 2^bw) :
    (Lib.signedAdd aw bw rw cow a b ci).1 = ArithSpec.signedAdd aw bw rw a b (ci.getD 0) := by
  simp only [Lib.signedAddLegal, Bool.and_eq_true, decide_eq_true_eq] at hl
  unfold Lib.signedAdd
  simp only []
  rw [sext_operand rw aw a haw ha hl.1, sext_operand rw bw b hbw hb hl.2, add_spec _ _ _ _ _ (by omega)]
  unfold ArithSpec.add ArithSpec.signedAdd
  rw [sgn_of_lt aw a ha, sgn_of_lt bw b hb, ← put_ofNat]
  simp only [Int.natCast_add]
  rw [Int.add_assoc, put_put_add, ← Int.add_assoc, Int.add_comm (toSigned aw a), Int.add_assoc, put_put_add,
    ← Int.add_assoc, Int.add_comm (toSigned bw b)]

theorem signedAdd_co_spec (aw bw rw cow a b : Nat) (ci : Option Nat) (haw : 1 ≤ aw) (hbw : 1 ≤ bw)
    (hl : Lib.signedAddLegal aw bw rw = true) (ha : a < 2^aw) (hb : b < 2^bw) (hco : 1 ≤ cow) :
    (Lib.signedAdd aw bw rw cow a b ci).2 = ArithSpec.signedAddCo aw bw rw a b (ci.getD 0) := by
  simp only [Lib.signedAddLegal, Bool.and_eq_true, decide_eq_true_eq] at hl
  unfold Lib.signedAdd
  simp only []
  rw [sext_operand rw aw a haw ha hl.1, sext_operand rw bw b hbw hb hl.2, add_co_spec _ _ _ _ _ hco]
  unfold ArithSpec.addCo ArithSpec.signedAddCo
  rw [sgn_of_lt aw a ha, sgn_of_lt bw b hb]

example : (Lib.signedAdd 3 2 5 1 5 3 none).1 = 28 ∧ ArithSpec.signedAdd 3 2 5 5 3 0 = 28 := by decide  -- (-3)+(-1) = -4

/-! ## Sub / SignedSub / Neg -/

theorem sub_spec (rw a b : Nat) : Lib.sub rw a b = ArithSpec.sub rw a b := rfl

theorem signedSub_spec (aw bw rw a b : Nat) (haw : 1 ≤ aw) (hbw : 1 ≤ bw)
    (hl : Lib.signedSubLegal aw bw rw = true) (ha : a < 2^aw) (hb : b < 2^bw) :
    Lib.signedSub aw bw rw a b = ArithSpec.signedSub aw bw rw a b := by
  simp only [Lib.signedSubLegal, Bool.and_eq_true, decide_eq_true_eq] at hl
  unfold Lib.signedSub
  simp only []
  rw [sext_operand rw aw a haw ha hl.1, sext_operand rw bw b hbw hb hl.2, add_spec _ _ _ _ _ (by omega)]
  unfold ArithSpec.add ArithSpec.signedSub
  rw [sgn_of_lt aw a ha, sgn_of_lt bw b hb]
  have hB := put_lt rw (toSigned bw b)
  rw [not1_of_lt _ _ hB]
  simp only [Option.getD, Leaf.const, put_one 1 (Nat.le_refl 1)]
  generalize hBv : put rw (toSigned bw b) = B at *
  have hp : 0 < 2^rw := Nat.two_pow_pos rw
  have e : put rw (toSigned aw a) + (2^rw - 1 - B) + 1 = put rw (toSigned aw a) + (2^rw - B) := by omega
  rw [e, ← put_ofNat]
  have c := cast_two_pow rw
  have e2 : ((put rw (toSigned aw a) + (2^rw - B) : Nat) : Int)
      = ((put rw (toSigned aw a) : Nat) : Int) + (-(B:Int)) + 1 * (2:Int)^rw := by omega
  rw [e2, put_add_mul, put_put_add, ← hBv]
  rw [show toSigned aw a + -((put rw (toSigned bw b) : Nat) : Int) = -((put rw (toSigned bw b) : Nat) : Int) + toSigned aw a
    from Int.add_comm _ _]
  apply put_congr
  rw [put_cast]
  have := Int.emod_add_emod (-(toSigned bw b % (2:Int)^rw)) ((2:Int)^rw) (toSigned aw a)
  have h2 : (-(toSigned bw b % (2:Int)^rw)) % (2:Int)^rw = (-(toSigned bw b)) % (2:Int)^rw := by
    have := Int.sub_emod_emod 0 (toSigned bw b) ((2:Int)^rw)
    simpa using this
  rw [← Int.emod_add_emod, h2, Int.emod_add_emod]
  congr 1
  omega

example : Lib.signedSub 3 3 4 5 2 = 11 ∧ ArithSpec.signedSub 3 3 4 5 2 = 11 := by decide  -- (-3) - 2 = -5

/-- `Neg`: `(-a) mod 2^rw` for every pair of widths (the operand is read as the unsigned wire value; when
    `rw ≤ aw` this is also the negation of the two's-complement reading — `neg_signed`) -/
theorem neg_spec (rw a : Nat) : Lib.neg rw a = ArithSpec.neg rw a := by
  unfold Lib.neg ArithSpec.neg Leaf.sub Leaf.const
  rw [put_zero]; simp

theorem neg_signed (aw rw a : Nat) (hle : rw ≤ aw) : Lib.neg rw a = put rw (-(toSigned aw a)) := by
  rw [neg_spec]; unfold ArithSpec.neg
  rw [← put_neg_put rw (toSigned aw a), put_toSigned_le rw aw a hle, put_neg_mod]

example : Lib.neg 4 3 = 13 := by decide

/-! ## Sign / Abs -/

theorem sign_spec (aw a : Nat) (haw : 1 ≤ aw) (ha : a < 2^aw) : Lib.sign aw 1 a = ArithSpec.isNeg aw a := by
  unfold Lib.sign ArithSpec.isNeg
  rw [bit_one _ _ _ (Nat.le_refl 1), ← Nat.shiftRight_eq_div_pow, shr_top aw a haw ha, sgn_of_lt aw a ha]
  have := toSigned_neg_iff aw a ha
  by_cases h : a < 2^(aw-1)
  · rw [if_pos h, if_neg (by rw [this]; exact fun hn => hn h)]
  · rw [if_neg h, if_pos (this.mpr h)]

/-- `Abs`: `|a| mod 2^rw` where `a` is read as two's complement on `aw` bits, for every pair of widths,
    with or without the `inverted` port (`iw ∈ {0,1}`) -/
theorem abs_spec (aw rw iw a : Nat) (haw : 1 ≤ aw) (ha : a < 2^aw) (hi : Lib.absLegal iw = true) :
    (Lib.abs aw rw iw a).1 = ArithSpec.abs aw rw a := by
  simp only [Lib.absLegal, decide_eq_true_eq] at hi
  have hiw : (if iw = 0 then 1 else iw) = 1 := by split <;> omega
  unfold Lib.abs ArithSpec.abs
  simp only [hiw]
  rw [sign_spec aw a haw ha, neg_spec, sgn_of_lt aw a ha, ← abs_core aw a haw ha]
  unfold ArithSpec.isNeg ArithSpec.neg Leaf.mux2
  rw [sgn_of_lt aw a ha]
  have := toSigned_neg_iff aw a ha
  by_cases h : a < 2^(aw-1)
  · have hn : ¬ toSigned aw a < 0 := fun hh => (this.mp hh) h
    simp [hn, h]
  · have hp : toSigned aw a < 0 := this.mpr h
    simp [hp, h]

theorem abs_inverted_spec (aw rw a : Nat) (haw : 1 ≤ aw) (ha : a < 2^aw) :
    (Lib.abs aw rw 1 a).2 = ArithSpec.isNeg aw a := by
  unfold Lib.abs; exact sign_spec aw a haw ha

example : Lib.abs 4 4 1 13 = (3, 1) ∧ Lib.abs 4 6 0 8 = (8, 1) ∧ Lib.abs 4 2 0 5 = (1, 0) := by decide

/-! ## extensions, multiply, divide, modulo -/

theorem signExtend_spec (aw rw a : Nat) (haw : 1 ≤ aw) (ha : a < 2^aw) :
    Lib.signExtend aw rw a = ArithSpec.signExtend aw rw a := by
  unfold Lib.signExtend ArithSpec.signExtend
  rw [sext_eq rw aw a haw ha, sgn_of_lt aw a ha]

theorem zeroExtend_spec (rw a : Nat) : Lib.zeroExtend rw a = ArithSpec.zeroExtend rw a := rfl
theorem mul_spec (rw a b : Nat) : Lib.mul rw a b = ArithSpec.mul rw a b := rfl
theorem signedMul_spec (aw bw rw a b : Nat) : Lib.signedMul aw bw rw a b = ArithSpec.signedMul aw bw rw a b := rfl
/-- (only meaningful for `b ≠ 0`: the bridge `Leaf.gen_div` needs it — for `b = 0` the Python draws a random number) -/
theorem div_spec (rw a b : Nat) (_hb : b ≠ 0) : Lib.div rw a b = ArithSpec.div rw a b := rfl
theorem mod_spec (rw a b : Nat) (_hb : b ≠ 0) : Lib.mod rw a b = ArithSpec.mod rw a b := rfl

example : Lib.signExtend 3 6 5 = 61 ∧ Lib.signExtend 3 2 5 = 1 ∧ Lib.signedMul 3 3 6 5 2 = 58 := by decide

/-! ## SignedDiv (truncating division of the two's-complement readings) -/

theorem abs_self_width (w a : Nat) (hw : 1 ≤ w) (ha : a < 2^w) : (Lib.abs w w 0 a).1 = (toSigned w a).natAbs := by
  rw [abs_spec w w 0 a hw ha (by decide)]
  unfold ArithSpec.abs
  rw [sgn_of_lt w a ha]
  exact Nat.mod_eq_of_lt (toSigned_natAbs_lt w a hw ha)

/-- the `Div` leaf inside `SignedDiv` is only used inside its specified domain -/
theorem signedDiv_inner_divisor_ne_zero (bw b : Nat) (hbw : 1 ≤ bw) (hb : b < 2^bw) (hb0 : b ≠ 0) :
    (Lib.abs bw bw 0 b).1 ≠ 0 := by
  rw [abs_self_width bw b hbw hb]
  have c := cast_two_pow bw
  unfold toSigned
  split <;> omega

theorem signedDiv_spec (aw bw rw a b : Nat) (haw : 1 ≤ aw) (hbw : 1 ≤ bw) (ha : a < 2^aw) (hb : b < 2^bw)
    (_hb0 : b ≠ 0) : Lib.signedDiv aw bw rw a b = ArithSpec.signedDiv aw bw rw a b := by
  unfold Lib.signedDiv ArithSpec.signedDiv
  simp only []
  rw [abs_self_width aw a haw ha, abs_self_width bw b hbw hb, sign_spec aw a haw ha, sign_spec bw b hbw hb,
    neg_spec, sgn_of_lt aw a ha, sgn_of_lt bw b hb, tdiv_signs]
  have hx : ArithSpec.isNeg aw a < 2 := by unfold ArithSpec.isNeg; split <;> omega
  have hy : ArithSpec.isNeg bw b < 2 := by unfold ArithSpec.isNeg; split <;> omega
  rw [xor2_bits _ _ hx hy]
  unfold ArithSpec.isNeg ArithSpec.neg Leaf.mux2 Leaf.div
  rw [sgn_of_lt aw a ha, sgn_of_lt bw b hb]
  generalize (toSigned aw a).natAbs / (toSigned bw b).natAbs = q
  have hq1 : put rw (-((q % 2^rw : Nat) : Int)) % 2^rw = put rw (-(q:Int)) := by
    rw [put_neg_mod, Nat.mod_eq_of_lt (put_lt _ _)]
  have hq0 : q % 2^rw % 2^rw = put rw (q:Int) := by rw [Nat.mod_mod, put_ofNat]
  have hc : ((q % 2^rw : Nat) : Int) = (q:Int) % (2:Int)^rw := by simp
  have hq2 := hq1
  rw [hc] at hq2
  by_cases h1 : toSigned aw a < 0 <;> by_cases h2 : toSigned bw b < 0 <;> simp [h1, h2, hq0, hq1, hq2]

example : Lib.signedDiv 4 4 4 9 2 = 13 ∧ ArithSpec.signedDiv 4 4 4 9 2 = 13 := by decide   -- -7 / 2 = -3
example : Lib.signedDiv 4 3 6 8 7 = 8 := by decide                                         -- -8 / -1 = 8

/-! ## constant shifts and rotations (primitive leaves) -/

theorem shiftLeftConstant_spec (rw a n : Nat) : Lib.shiftLeftConstant rw a n = ArithSpec.shiftLeft rw a n := by
  unfold Lib.shiftLeftConstant Leaf.shlC ArithSpec.shiftLeft; rw [Nat.shiftLeft_eq]

theorem shiftRightConstant_spec (rw a n : Nat) : Lib.shiftRightConstant rw a n = ArithSpec.shiftRightL rw a n := by
  unfold Lib.shiftRightConstant Leaf.shrC ArithSpec.shiftRightL; rw [Nat.shiftRight_eq_div_pow]

/-- `RotateLeftConstant`: rotation of the `aw`-bit word by `n ≤ aw`, seen through the result wire, for EVERY pair
    of widths (since /repo 6b4070f the leaf masks the rotated word to the width of `a`; before that fix the statement
    was false for `rw > aw`, see `rotateLeftConstantOld_counterexample`) -/
theorem rotateLeftConstant_spec (aw rw a n : Nat) (hn : Lib.rotateConstantLegal aw n = true) (ha : a < 2^aw) :
    Lib.rotateLeftConstant aw rw a n = ArithSpec.rotl aw a n % 2^rw := by
  simp only [Lib.rotateConstantLegal, decide_eq_true_eq] at hn
  unfold Lib.rotateLeftConstant
  rw [leaf_rotl_eq_rotv rw aw a n hn ha, spec_rotl_eq_rotv aw a n hn ha]

theorem rotateRightConstant_spec (aw rw a n : Nat) (hn : Lib.rotateConstantLegal aw n = true) (ha : a < 2^aw) :
    Lib.rotateRightConstant aw rw a n = ArithSpec.rotr aw a n % 2^rw := by
  simp only [Lib.rotateConstantLegal, decide_eq_true_eq] at hn
  unfold Lib.rotateRightConstant
  rw [leaf_rotr_eq_rotl _ _ _ _ hn, spec_rotr_eq_rotl _ _ _ hn]
  exact rotateLeftConstant_spec aw rw a (aw - n) (by simp [Lib.rotateConstantLegal]) ha

/-- the propagate() bodies as they were BEFORE /repo 6b4070f (no mask to the width of `a`): kept only to record
    why the finding `C07-rotate-constant-wide-output` existed -/
def rotlOld (rw w a n : Nat) : Nat := ((a <<< n) ||| (a >>> (w - n))) % 2^rw
def rotrOld (rw w a n : Nat) : Nat := ((a >>> n) ||| (a <<< (w - n))) % 2^rw
theorem rotateLeftConstantOld_counterexample :
    rotlOld 3 2 2 1 = 5 ∧ ArithSpec.rotl 2 2 1 % 2^3 = 1 ∧ Lib.rotateLeftConstant 2 3 2 1 = 1 := by decide
theorem rotateRightConstantOld_counterexample :
    rotrOld 3 2 3 1 = 7 ∧ ArithSpec.rotr 2 3 1 % 2^3 = 3 ∧ Lib.rotateRightConstant 2 3 3 1 = 3 := by decide

example : Lib.rotateLeftConstant 4 4 9 1 = 3 ∧ Lib.rotateRightConstant 4 3 9 1 = 4 ∧ Lib.rotateLeftConstant 4 7 9 1 = 3 := by decide

/-! ## variable shifts -/

/-- `ShiftLeft`: `(a · 2^b) mod 2^rw` for EVERY shift amount `b < 2^wb`, including `b ≥` the data width -/
theorem shiftLeft_spec (aw wb rw a b : Nat) (hl : Lib.shiftLegal wb = true) (hb : b < 2^wb) :
    Lib.shiftLeft aw wb rw a b = ArithSpec.shiftLeft rw a b := by
  simp only [Lib.shiftLegal, decide_eq_true_eq] at hl
  unfold Lib.shiftLeft ArithSpec.shiftLeft Leaf.buf
  simp only []
  rcases barrel_shl (max aw rw) wb b a with h | h
  · rw [h, Nat.mod_eq_of_lt hb]
    exact Nat.mod_mod_of_dvd _ (Nat.pow_dvd_pow 2 (Nat.le_max_right aw rw))
  · omega

example : Lib.shiftLeft 3 3 8 5 5 = 160 ∧ Lib.shiftLeft 3 3 3 5 7 = 0 := by decide

/-- logical `ShiftRight` (arithmetic=False): `⌊a / 2^b⌋ mod 2^rw` for every amount -/
theorem shiftRight_logical_spec (aw wb rw a b : Nat) (ha : a < 2^aw) (hb : b < 2^wb) :
    Lib.shiftRight aw wb rw (.const false) a b = ArithSpec.shiftRightL rw a b := by
  unfold Lib.shiftRight ArithSpec.shiftRightL Leaf.buf
  simp only []
  rw [barrel_shr aw wb b a ha, Nat.mod_eq_of_lt hb]

/-- a word sign-extended to `ew` bits and shifted right by `b`, seen through an `rw`-bit wire, when the extension
    leaves room for the shift (`rw + b ≤ ew`) -/
theorem shr_extended (aw ew rw a b : Nat) (ha : a < 2^aw) (hle : aw ≤ ew) (hd : rw + b ≤ ew) :
    (put ew (toSigned aw a) / 2^b) % 2^rw = put rw (toSigned aw a / (2:Int)^b) := by
  by_cases hs : a < 2^(aw-1)
  · have e : toSigned aw a = (a:Int) := by unfold toSigned; rw [if_pos hs]
    have h1 : 2^aw ≤ 2^ew := two_pow_le hle
    rw [e, put_of_lt _ _ (by omega), ← put_ofNat, Int.natCast_ediv, cast_two_pow]
  · have e : toSigned aw a = (a:Int) - (2:Int)^aw := by unfold toSigned; rw [if_neg hs]
    have hE : ((put ew (toSigned aw a) : Nat) : Int) = toSigned aw a + (2:Int)^ew := by
      rw [put_cast]
      have c1 := cast_two_pow aw
      have c2 := cast_two_pow ew
      have h1 : 2^aw ≤ 2^ew := two_pow_le hle
      rw [e]
      have : ((a:Int) - (2:Int)^aw) = ((a + (2^ew - 2^aw) : Nat) : Int) + (-1) * (2:Int)^ew := by omega
      rw [this, Int.add_mul_emod_self_right]
      rw [Int.emod_eq_of_lt (by omega) (by omega)]
      omega
    rw [← put_ofNat, Int.natCast_ediv, hE, cast_two_pow]
    have hsplit : (2:Int)^ew = (2:Int)^(ew - b - rw) * (2:Int)^rw * (2:Int)^b := by
      rw [← Int.pow_add, ← Int.pow_add]; congr 1; omega
    rw [hsplit, Int.add_mul_ediv_right _ _ (Int.ne_of_gt (two_pow_pos_int b)), put_add_mul]

/-- arithmetic `ShiftRight` (arithmetic=True): `⌊sgn a / 2^b⌋ mod 2^rw` for EVERY (aw, wb, rw), every amount `b < 2^wb`.
    (Before /repo f333ccb the constructor sign-extended `a` to `aw + 2^wb` bits only and the statement needed the window
    hypothesis `0 ≤ sgn a ∨ rw + b ≤ aw + 2^wb`; old witness: aw=4, wb=2, rw=8, a=8 (−8), b=3 gave 0x1F instead of 0xFF —
    now the positive example below.) -/
theorem shiftRight_arith_spec (aw wb rw a b : Nat) (haw : 1 ≤ aw) (ha : a < 2^aw) (hb : b < 2^wb) :
    Lib.shiftRight aw wb rw (.const true) a b = ArithSpec.shiftRightA aw rw a b := by
  unfold Lib.shiftRight ArithSpec.shiftRightA Leaf.buf
  simp only []
  rw [barrel_shr _ wb b _ (sext_lt _ _ _), Nat.mod_eq_of_lt hb, sext_eq _ aw a haw ha, sgn_of_lt aw a ha]
  exact shr_extended aw _ rw a b ha (by omega) (by omega)

/-- `arithmetic` given as a wire: bit 0 of the wire selects between the two behaviours, every (aw, wb, rw) -/
theorem shiftRight_wire_spec (aw wb rw a b v : Nat) (haw : 1 ≤ aw) (ha : a < 2^aw) (hb : b < 2^wb) :
    Lib.shiftRight aw wb rw (.wire v) a b =
      if v % 2 = 1 then ArithSpec.shiftRightA aw rw a b else ArithSpec.shiftRightL rw a b := by
  have h1 : 2^aw ≤ 2^(max aw rw + 2^wb) := two_pow_le (by omega)
  unfold Lib.shiftRight Leaf.buf Leaf.mux2
  simp only []
  split
  · next hv =>
    rw [Nat.mod_eq_of_lt (sext_lt _ _ _)]
    unfold ArithSpec.shiftRightA
    rw [barrel_shr _ wb b _ (sext_lt _ _ _), Nat.mod_eq_of_lt hb, sext_eq _ aw a haw ha, sgn_of_lt aw a ha]
    exact shr_extended aw _ rw a b ha (by omega) (by omega)
  · unfold Leaf.zext ArithSpec.shiftRightL
    rw [Nat.mod_mod, Nat.mod_eq_of_lt (show a < 2^(max aw rw + 2^wb) by omega),
      barrel_shr _ wb b a (by omega), Nat.mod_eq_of_lt hb]

/-- the former counterexample (finding C07-shr-arith-wide-output), now a regression example: −8 >> 3 = −1 on 8 bits -/
theorem shiftRight_arith_former_witness :
    Lib.shiftRight 4 2 8 (.const true) 8 3 = 255 ∧ ArithSpec.shiftRightA 4 8 8 3 = 255
      ∧ Lib.shiftRight 4 2 8 (.wire 1) 8 3 = 255 := by decide

example : Lib.shiftRight 4 2 4 (.const true) 8 3 = 15 ∧ Lib.shiftRight 4 3 4 (.const false) 8 7 = 0
    ∧ Lib.shiftRight 4 3 5 (.wire 1) 9 6 = 31 := by decide

/-! ## variable rotations -/

theorem rotateLegal_stages (aw wb : Nat) (hl : Lib.rotateLegal aw wb = true) : ∀ i, i < wb → 2^i ≤ aw := by
  simp only [Lib.rotateLegal, Bool.and_eq_true, decide_eq_true_eq] at hl
  intro i hi
  exact Nat.le_trans (two_pow_le (by omega)) hl.2

/-- `RotateLeft`: rotation of the `aw`-bit word by `b mod aw` seen through the result wire, for EVERY result width and
    EVERY amount `b < 2^wb` (so all amounts ≤ the data width, and beyond).  `rotateLegal` (`2^(wb-1) ≤ aw`) is exactly
    "the first propagation does not raise".  (Before /repo 6d96f2c the per-stage wire `shifted` had the width of `r` and
    the statement needed `aw ≤ rw`; old witness aw=4, rw=2, a=0b0100, b=3 gave 0 instead of 0b10 — now the positive
    example below.) -/
theorem rotateLeft_spec (aw wb rw a b : Nat) (haw : 1 ≤ aw) (hl : Lib.rotateLegal aw wb = true)
    (ha : a < 2^aw) (hb : b < 2^wb) :
    Lib.rotateLeft aw wb rw a b = ArithSpec.rotateLeft aw rw a b := by
  unfold Lib.rotateLeft ArithSpec.rotateLeft Leaf.buf
  simp only []
  rw [barrel_rotl aw wb aw b a (Nat.le_refl _) (rotateLegal_stages aw wb hl) ha, Nat.mod_eq_of_lt hb,
    Nat.mod_eq_of_lt ha, rotRes_spec aw a b haw ha]

theorem rotateRight_spec (aw wb rw a b : Nat) (haw : 1 ≤ aw) (hl : Lib.rotateLegal aw wb = true)
    (ha : a < 2^aw) (hb : b < 2^wb) :
    Lib.rotateRight aw wb rw a b = ArithSpec.rotateRight aw rw a b := by
  have hst := rotateLegal_stages aw wb hl
  have hn : b % aw ≤ aw := Nat.le_of_lt (Nat.mod_lt _ haw)
  unfold Lib.rotateRight ArithSpec.rotateRight Leaf.buf
  simp only []
  rw [barrel_rotr aw wb aw b a (Nat.le_refl _) hst ha, Nat.mod_eq_of_lt ha, rotRes_spec aw a _ haw ha,
    expR_spec aw b wb haw hb hst, spec_rotr_eq_rotl aw a _ hn, ← rotRes_spec aw a _ haw ha,
    rotRes_eq_rotl_le aw a _ (Nat.sub_le _ _) ha]

/-- the former counterexamples (finding C07-rotate-narrow-output), now regression examples -/
theorem rotateLeft_former_witness :
    Lib.rotateLeft 4 2 2 4 3 = 2 ∧ ArithSpec.rotateLeft 4 2 4 3 = 2 := by decide
theorem rotateRight_former_witness :
    Lib.rotateRight 4 2 2 8 3 = 1 ∧ ArithSpec.rotateRight 4 2 8 3 = 1 := by decide

example : Lib.rotateLegal 5 3 = true ∧ Lib.rotateLeft 5 3 5 19 7 = 14 ∧ Lib.rotateRight 5 3 7 19 6 = 25 := by decide

/-! ## BinaryToBCD -/

/-- `BinaryToBCD`: nibble `i` of the result is decimal digit `i` of `a`, for `rw/4` digits, every operand width -/
theorem binaryToBCD_spec (aw rw a : Nat) (ha : a < 2^aw) :
    Lib.binaryToBCD aw rw a = ArithSpec.binaryToBCD rw a := by
  unfold Lib.binaryToBCD ArithSpec.binaryToBCD Leaf.concat
  simp only []
  rw [show Leaf.const 4 10 = 10 by decide,
    concat_fold_digits 4 _ (bcdLoop_digits_lt aw (rw / 4) a), bcdLoop_val aw (rw / 4) a ha]

/-- with a legal result width (`rw % 4 = 0`) the digits fit: nothing is lost in the final mask -/
theorem binaryToBCD_exact (aw rw a : Nat) (ha : a < 2^aw) (hl : Lib.binaryToBCDLegal rw = true) :
    Lib.binaryToBCD aw rw a = ArithSpec.bcd a (rw / 4) := by
  simp only [Lib.binaryToBCDLegal, decide_eq_true_eq] at hl
  rw [binaryToBCD_spec aw rw a ha]
  unfold ArithSpec.binaryToBCD
  apply Nat.mod_eq_of_lt
  have := bcd_lt a (rw / 4)
  rwa [show 4 * (rw / 4) = rw by omega] at this

example : Lib.binaryToBCD 8 12 255 = 0x255 ∧ Lib.binaryToBCD 8 8 255 = 0x55 := by decide

/-! ## CountLeadingZeros -/

/-- `CountLeadingZeros`: `r = (number of leading zeros of the aw-bit word) mod 2^rw` (`aw` for the zero word), for every
    operand width (power of two or not), every legal result width, any width ≥ 1 of the `z` wire -/
theorem countLeadingZeros_spec (aw rw zw a : Nat) (_hl : Lib.countLeadingZerosLegal aw rw = true) (hzw : 1 ≤ zw)
    (ha : a < 2^aw) : (Lib.countLeadingZeros aw rw zw a).1 = ArithSpec.countLeadingZeros aw rw a := by
  have hN := le_two_pow_clog2 aw
  have haN : a < 2^(2^(Lib.clog2 aw)) := Nat.lt_of_lt_of_le ha (two_pow_le hN)
  have hI := clz_internal (Lib.clog2 aw) a haN
  unfold Lib.countLeadingZeros ArithSpec.countLeadingZeros ArithSpec.clz
  simp only []
  rw [show Leaf.zext (2^(Lib.clog2 aw)) a = a from Nat.mod_eq_of_lt haN, Nat.mod_eq_of_lt ha]
  unfold Leaf.mux2
  by_cases h0 : a = 0
  · rw [hI.1 h0, if_pos (not1_parity_zero zw hzw), if_pos h0]
    unfold Leaf.const
    rw [put_ofNat, Nat.mod_mod]
  · have hp : a.log2 < aw := (Nat.log2_lt h0).mpr ha
    rw [(hI.2 h0).1, (hI.2 h0).2, if_neg (not1_parity_one zw hzw), if_neg h0]
    unfold Leaf.zext
    split
    · unfold Leaf.sub Leaf.const
      rw [put_sub_mod_put, Nat.mod_eq_of_lt (put_lt _ _), ← put_ofNat]
      congr 1
      omega
    · rw [Nat.mod_mod]
      congr 1
      omega

/-- the zero flag (on a 1-bit `z` wire) -/
theorem countLeadingZeros_z_spec (aw rw a : Nat) (ha : a < 2^aw) :
    (Lib.countLeadingZeros aw rw 1 a).2 = ArithSpec.isZero aw a := by
  have hN := le_two_pow_clog2 aw
  have haN : a < 2^(2^(Lib.clog2 aw)) := Nat.lt_of_lt_of_le ha (two_pow_le hN)
  have hI := clz_internal (Lib.clog2 aw) a haN
  unfold Lib.countLeadingZeros ArithSpec.isZero
  simp only []
  rw [show Leaf.zext (2^(Lib.clog2 aw)) a = a from Nat.mod_eq_of_lt haN, Nat.mod_eq_of_lt ha]
  by_cases h0 : a = 0
  · rw [hI.1 h0, if_pos h0]; decide
  · rw [(hI.2 h0).1, if_neg h0]; decide

example : Lib.countLeadingZerosLegal 5 3 = true ∧ Lib.countLeadingZeros 5 3 1 3 = (3, 0)
    ∧ Lib.countLeadingZeros 5 3 1 0 = (5, 1) ∧ Lib.countLeadingZeros 8 3 1 0 = (0, 1) := by decide

/-! ## the primitive blocks, stated directly on the GENERATED propagate() bodies

  `Leaf.landed w o` = what `Wire.put` stores on a `w`-bit wire when the leaf passes `o` (C06).  Each statement is the
  composition of the bridge `Leaf.gen_*` with the specification theorem above, so a semantic change of the Python
  method breaks it. -/

theorem gen_AddCarryIn_spec (rw a b ci : Nat) :
    Leaf.landed rw (Gen.AddCarryIn.step ⟨⟩ ⟨⟩ ⟨a, b, ci⟩ ⟨⟩).2.r = ArithSpec.add rw a b ci := Leaf.gen_addc rw a b ci

theorem gen_Sub_spec (rw a b : Nat) :
    Leaf.landed rw (Gen.Sub.step ⟨rw⟩ ⟨⟩ ⟨a, b⟩ ⟨⟩).2.r = ArithSpec.sub rw a b := Leaf.gen_sub rw a b

theorem gen_Mul_spec (rw a b : Nat) :
    Leaf.landed rw (Gen.Mul.step ⟨⟩ ⟨⟩ ⟨a, b⟩ ⟨⟩).2.r = ArithSpec.mul rw a b := Leaf.gen_mul rw a b

theorem gen_SignedMul_spec (aw bw rw a b : Nat) (ha : 1 ≤ aw) (hb : 1 ≤ bw) :
    Leaf.landed rw (Gen.SignedMul.step ⟨aw, bw, rw⟩ ⟨⟩ ⟨a, b⟩ ⟨⟩).2.r = ArithSpec.signedMul aw bw rw a b :=
  Leaf.gen_smul rw aw bw a b ha hb

theorem gen_Div_spec (rw a b : Nat) (hb : b ≠ 0) :
    Leaf.landed rw (Gen.Div.step ⟨⟩ ⟨⟩ ⟨b, a⟩ ⟨⟩).2.r = ArithSpec.div rw a b := Leaf.gen_div rw a b hb

theorem gen_Mod_spec (rw a b : Nat) (hb : b ≠ 0) :
    Leaf.landed rw (Gen.Mod.step ⟨⟩ ⟨⟩ ⟨b, a⟩ ⟨⟩).2.r = ArithSpec.mod rw a b := Leaf.gen_mod rw a b hb

theorem gen_SignExtend_spec (aw rw a : Nat) (haw : 1 ≤ aw) (ha : a < 2^aw) :
    Leaf.landed rw (Gen.SignExtend.step ⟨aw, rw⟩ ⟨⟩ ⟨a⟩ ⟨⟩).2.r = ArithSpec.signExtend aw rw a := by
  rw [Leaf.gen_sext]; exact signExtend_spec aw rw a haw ha

theorem gen_ZeroExtend_spec (rw a : Nat) :
    Leaf.landed rw (Gen.ZeroExtend.step ⟨⟩ ⟨⟩ ⟨a⟩ ⟨⟩).2.r = ArithSpec.zeroExtend rw a := Leaf.gen_zext rw a

theorem gen_ShiftLeftConstant_spec (rw a n : Nat) :
    Leaf.landed rw (Gen.ShiftLeftConstant.step ⟨n⟩ ⟨⟩ ⟨a⟩ ⟨⟩).2.r = ArithSpec.shiftLeft rw a n := by
  rw [Leaf.gen_shlC]; exact shiftLeftConstant_spec rw a n

theorem gen_ShiftRightConstant_spec (rw a n : Nat) :
    Leaf.landed rw (Gen.ShiftRightConstant.step ⟨n⟩ ⟨⟩ ⟨a⟩ ⟨⟩).2.r = ArithSpec.shiftRightL rw a n := by
  rw [Leaf.gen_shrC]; exact shiftRightConstant_spec rw a n

theorem gen_RotateLeftConstant_spec (aw rw a n : Nat) (hn : n ≤ aw) (ha : a < 2^aw) :
    Leaf.landed rw (Gen.RotateLeftConstant.step ⟨n, aw⟩ ⟨⟩ ⟨a⟩ ⟨⟩).2.r = ArithSpec.rotl aw a n % 2^rw := by
  rw [Leaf.gen_rotl rw aw a n hn]
  exact rotateLeftConstant_spec aw rw a n (by simp [Lib.rotateConstantLegal, hn]) ha

theorem gen_RotateRightConstant_spec (aw rw a n : Nat) (hn : n ≤ aw) (ha : a < 2^aw) :
    Leaf.landed rw (Gen.RotateRightConstant.step ⟨n, aw⟩ ⟨⟩ ⟨a⟩ ⟨⟩).2.r = ArithSpec.rotr aw a n % 2^rw := by
  rw [Leaf.gen_rotr rw aw a n hn]
  exact rotateRightConstant_spec aw rw a n (by simp [Lib.rotateConstantLegal, hn]) ha

example : Leaf.landed 4 (Gen.SignedMul.step ⟨3, 3, 4⟩ ⟨⟩ ⟨5, 2⟩ ⟨⟩).2.r = 10 := by decide   -- (-3)·2 = -6 ≡ 10

end C07
