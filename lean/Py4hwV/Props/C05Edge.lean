import Py4hwV.Props.C05
import Py4hwV.Gen.Leaves
import Py4hwV.Net.C05Spec
/-
  C05, second part — what an edge commits when the pending list has DUPLICATES, shared (bidirectional) lines,
  SILENT edges (no block prepares anything) and arbitrary splittings of a run.

  Same model as Props/C05.lean (Net.Sim): `prepW` = `Wire.prepare` / `BidirWire.prepare` (append to the pending list — also
  when the wire is already in it — and overwrite `next`), `settleAll` = `for w in Wire.prepared: w.settle()` then
  `Wire.prepared = []`.  Nothing here assumes that a wire is prepared at most once per edge.
-/
namespace C05
open Net

variable {σ : Type}

/-! ### 1. the pending list may contain any wire any number of times, in any positions -/

theorem foldl_nstep_acc (d : Design σ) (ps : List (Nat × Int)) (w : Nat) (base : Nat) (n0 : Val) (acc : Option Int)
    (h : n0 w = match acc with | some v => Bits.put (d.width w) v | none => base) :
    (ps.foldl (nstep d) n0) w =
      match ps.foldl (fun acc wv => if wv.1 = w then some wv.2 else acc) acc with
      | some v => Bits.put (d.width w) v
      | none => base := by
  induction ps generalizing n0 acc with
  | nil => exact h
  | cons a ps ih =>
    obtain ⟨a1, a2⟩ := a
    simp only [List.foldl]
    apply ih
    by_cases e : a1 = w
    · subst e; simp [nstep, P, upd]
    · have e' : w ≠ a1 := fun x => e x.symm
      simp [nstep, upd, e, e']; exact h

/-- `Wire.next` after any sequence of prepare calls: the LAST value prepared for the wire, masked -/
theorem foldl_nstep_last (d : Design σ) (ps : List (Nat × Int)) (n0 : Val) (w : Nat) :
    (ps.foldl (nstep d) n0) w = match lastFor ps w with
                                | some v => Bits.put (d.width w) v
                                | none => n0 w :=
  foldl_nstep_acc d ps w (n0 w) n0 none rfl

theorem lastFor_acc_none_iff (ps : List (Nat × Int)) (w : Nat) (acc : Option Int) :
    ps.foldl (fun acc wv => if wv.1 = w then some wv.2 else acc) acc = none ↔ (acc = none ∧ w ∉ ps.map Prod.fst) := by
  induction ps generalizing acc with
  | nil => simp
  | cons a ps ih =>
    obtain ⟨a1, a2⟩ := a
    simp only [List.foldl, ih]
    by_cases e : a1 = w
    · subst e; simp
    · have e' : w ≠ a1 := fun x => e x.symm
      simp [e, e']

theorem lastFor_none_iff (ps : List (Nat × Int)) (w : Nat) : lastFor ps w = none ↔ w ∉ ps.map Prod.fst := by
  unfold lastFor; rw [lastFor_acc_none_iff]; simp

/-- **C05 (every prepared wire settles to its LAST prepared value, no other update is lost, the list is emptied) — for
    ANY call list**: duplicates of a wire in any positions, other wires prepared in between, a pending list that was
    not empty before.  `ps` is the sequence of `prepare(value)` calls in execution order. -/
theorem settleAll_prepares (d : Design σ) (s : State σ) (ps : List (Nat × Int)) (w : Nat) :
    (settleAll (ps.foldl (prepW d) s)).val w =
      match lastFor ps w with
      | some v => Bits.put (d.width w) v
      | none => if w ∈ s.prepared then s.nxt w else s.val w := by
  rw [settle_exactly, foldl_prepW_prepared, foldl_prepW_nxt, foldl_prepW_val, foldl_nstep_last]
  cases hl : lastFor ps w with
  | none =>
    have : w ∉ ps.map Prod.fst := (lastFor_none_iff ps w).mp hl
    simp [this]
  | some v =>
    have : w ∈ ps.map Prod.fst := by
      apply Classical.byContradiction
      intro hc
      rw [(lastFor_none_iff ps w).mpr hc] at hl
      cases hl
    simp [this]

theorem settleAll_prepares_empty (d : Design σ) (s : State σ) (ps : List (Nat × Int)) :
    (settleAll (ps.foldl (prepW d) s)).prepared = [] := rfl

theorem settleAll_prepares_st (d : Design σ) (s : State σ) (ps : List (Nat × Int)) :
    (settleAll (ps.foldl (prepW d) s)).st = s.st := by
  show (ps.foldl (prepW d) s).st = s.st
  exact foldl_prepW_st d ps s

/-- the executable MODEL of the commit phase (what Drv/C05.lean runs against the real `prepare`/`settleAll`) meets the SPEC -/
theorem commitModel_eq_spec (width : Nat → Nat) (val : Val) (ps : List (Nat × Int)) :
    (commitModel width val ps).val = commitSpec width val ps ∧ (commitModel width val ps).prepared = [] := by
  refine ⟨?_, rfl⟩
  funext w
  unfold commitModel commitSpec
  rw [settleAll_prepares]
  cases lastFor ps w <;> simp [bareDesign]

/-- `BidirWire.prepare` (generated from base.py) stores the same masked value as `Wire.prepare`: one model (`prepW`) for
    both kinds of wire -/
theorem gen_bidir_prepare_eq (w : Nat) (v : Int) : Gen.BidirWire.prepare (w : Int) v = ((Bits.put w v : Nat) : Int) := by
  simp only [Gen.BidirWire.prepare, Id.run, pure, Py.shlT, Int.toNat_natCast]
  rw [Bits.put_eq_land]

theorem gen_bidir_prepare_eq_wire (w : Nat) (al v : Int) : Gen.BidirWire.prepare (w : Int) v = Gen.Wire.prepare (w : Int) al v := by
  rw [gen_bidir_prepare_eq, gen_wire_prepare_eq]

/-! #### non-vacuity: queue [x, q, x] and adjacent duplicates [x, x] -/
def d3 : Design Unit := { width := fun _ => 4, leaf := fun _ => { prop := fun _ s => (s, []), clock := fun _ s => (s, []) },
                          order := [], drivers := [] }
def s3 : State Unit := { val := fun w => w + 1, nxt := fun _ => 0, prepared := [], st := fun _ => (), clks := 0 }

example : lastFor [(0, 7), (1, 5), (0, 9)] 0 = some 9 := by decide
example : lastFor [(0, 7), (1, 5), (0, 9)] 1 = some 5 := by decide
example : lastFor [(0, 7), (1, 5), (0, 9)] 2 = none := by decide
example : ([0, 1, 2].map (settleAll ([(0, 7), (1, 5), (0, 9)].foldl (prepW d3) s3)).val) = [9, 5, 3] := by decide
example : ([0, 1, 2].map (settleAll ([(0, 7), (0, 25), (1, 5)].foldl (prepW d3) s3)).val) = [9, 5, 3] := by decide

/-! ### 2. the whole edge, for every visiting order, WITHOUT the single-driver hypothesis -/

/-- all `prepare` calls of an edge in execution order: every clocked block evaluated on the PRE-EDGE state -/
def edgePrepares (d : Design σ) (s : State σ) (l : List Nat) : List (Nat × Int) := l.flatMap fun k => (res d s k).2

/-- **C05 (what an edge commits).** For every visiting order `l` (each block visited once), whatever wires the blocks
    share and however often a wire is prepared: after `settleAll` a wire holds the last value prepared for it at this
    edge (computed from pre-edge values), every wire that nobody prepared keeps its value. -/
theorem edge_commit (d : Design σ) (s : State σ) (h0 : s.prepared = [])
    (hn : (enabledClockables s.val d.drivers).Nodup) (w : Nat) :
    (settleAll (clockDrivers d s d.drivers)).val w =
      match lastFor (edgePrepares d s (enabledClockables s.val d.drivers)) w with
      | some v => Bits.put (d.width w) v
      | none => s.val w := by
  rw [clockDrivers_eq, foldl_clockLeaf_eq d s _ hn s rfl (fun _ _ => rfl)]
  rw [settle_exactly, foldl_applyRes_prepared, foldl_applyRes_nxt, foldl_applyRes_val, foldl_nstep_last, h0]
  unfold edgePrepares
  cases hl : lastFor ((enabledClockables s.val d.drivers).flatMap fun k => (res d s k).2) w with
  | none =>
    have : w ∉ ((enabledClockables s.val d.drivers).flatMap fun k => (res d s k).2).map Prod.fst := (lastFor_none_iff _ w).mp hl
    simp only [List.nil_append, this, if_false]
  | some v =>
    have : w ∈ ((enabledClockables s.val d.drivers).flatMap fun k => (res d s k).2).map Prod.fst := by
      apply Classical.byContradiction
      intro hc
      rw [(lastFor_none_iff _ w).mpr hc] at hl
      cases hl
    simp only [List.nil_append, this, if_true]

/-- nothing of the edge survives it -/
theorem edge_commit_empty (d : Design σ) (s : State σ) : (settleAll (clockDrivers d s d.drivers)).prepared = [] := rfl

/-! ### 3. order independence with shared lines -/

/-- per wire: either at most one of the clocked blocks prepares it (single driver — it may prepare it several times,
    default-then-override style), or it is a shared line on which every value prepared at this edge is the same -/
def SharedOK (d : Design σ) (r : Nat → σ × List (Nat × Int)) (l : List Nat) : Prop :=
  ∀ w, (∀ a, a ∈ l → ∀ b, b ∈ l → a ≠ b → w ∈ targets r a → w ∉ targets r b) ∨
       (∃ v, ∀ k, k ∈ l → ∀ wv, wv ∈ (r k).2 → wv.1 = w → P d wv = v)

theorem sharedOK_of_disjoint (d : Design σ) (r : Nat → σ × List (Nat × Int)) (l : List Nat) (h : DisjointTargets r l) :
    SharedOK d r l := fun w => Or.inl fun a ha b hb hab hw => h a ha b hb hab w hw

theorem foldl_nstep_const (d : Design σ) (ps : List (Nat × Int)) (n0 : Val) (w v : Nat)
    (h : ∀ wv, wv ∈ ps → wv.1 = w → P d wv = v) :
    (ps.foldl (nstep d) n0) w = if w ∈ ps.map Prod.fst then v else n0 w := by
  induction ps generalizing n0 with
  | nil => simp
  | cons a ps ih =>
    simp only [List.foldl]
    rw [ih _ (fun wv hwv => h wv (by simp [hwv]))]
    by_cases h1 : w ∈ ps.map Prod.fst
    · simp [h1]
    · by_cases h2 : a.1 = w
      · have := h a (by simp) h2
        simp [h1, nstep, upd, h2, this]
      · have h2' : w ≠ a.1 := fun x => h2 x.symm
        simp [h1, nstep, upd, h2']

theorem settle_perm_shared (d : Design σ) (r : Nat → σ × List (Nat × Int)) (s : State σ) (l₁ l₂ : List Nat)
    (hp : l₁.Perm l₂) (hn : l₁.Nodup) (hd : SharedOK d r l₁) :
    settleAll (l₁.foldl (applyRes d r) s) = settleAll (l₂.foldl (applyRes d r) s) := by
  have hfm : (l₁.flatMap fun k => (r k).2).Perm (l₂.flatMap fun k => (r k).2) := hp.flatMap_right _
  have hnxt : (l₁.foldl (applyRes d r) s).nxt = (l₂.foldl (applyRes d r) s).nxt := by
    funext w
    rw [foldl_applyRes_nxt, foldl_applyRes_nxt]
    rcases hd w with h | ⟨v, hv⟩
    · rw [foldl_nstep_filter, foldl_nstep_filter (ps := l₂.flatMap _)]
      rw [List.filter_flatMap, List.filter_flatMap]
      rw [flatMap_perm_eq _ l₁ l₂ hp hn]
      intro a ha b hb hab
      by_cases hw : w ∈ targets r a
      · right; exact filter_targets_empty r b w (h a ha b hb hab hw)
      · left; exact filter_targets_empty r a w hw
    · have c1 : ∀ wv, wv ∈ (l₁.flatMap fun k => (r k).2) → wv.1 = w → P d wv = v := by
        intro wv hwv e
        obtain ⟨k, hk, hin⟩ := List.mem_flatMap.mp hwv
        exact hv k hk wv hin e
      have c2 : ∀ wv, wv ∈ (l₂.flatMap fun k => (r k).2) → wv.1 = w → P d wv = v :=
        fun wv hwv e => c1 wv (hfm.mem_iff.mpr hwv) e
      rw [foldl_nstep_const d _ _ w v c1, foldl_nstep_const d _ _ w v c2]
      simp only [(hfm.map Prod.fst).mem_iff]
  have hprep : ∀ x, x ∈ (l₁.foldl (applyRes d r) s).prepared ↔ x ∈ (l₂.foldl (applyRes d r) s).prepared := by
    intro x
    rw [foldl_applyRes_prepared, foldl_applyRes_prepared]
    simp only [List.mem_append]
    rw [(hfm.map Prod.fst).mem_iff]
  have hst : (l₁.foldl (applyRes d r) s).st = (l₂.foldl (applyRes d r) s).st := by
    funext j
    rw [foldl_applyRes_st, foldl_applyRes_st]
    simp [hp.mem_iff]
  unfold settleAll
  have hval : (l₁.foldl (applyRes d r) s).val = (l₂.foldl (applyRes d r) s).val := by
    rw [foldl_applyRes_val, foldl_applyRes_val]
  have hclk : (l₁.foldl (applyRes d r) s).clks = (l₂.foldl (applyRes d r) s).clks := by
    rw [foldl_applyRes_clks, foldl_applyRes_clks]
  have hv2 : (List.foldl (fun v w => upd v w ((l₁.foldl (applyRes d r) s).nxt w)) (l₁.foldl (applyRes d r) s).val
      (l₁.foldl (applyRes d r) s).prepared) =
      (List.foldl (fun v w => upd v w ((l₂.foldl (applyRes d r) s).nxt w)) (l₂.foldl (applyRes d r) s).val
      (l₂.foldl (applyRes d r) s).prepared) := by
    funext x
    rw [settle_val, settle_val, hnxt, hval]
    by_cases h : x ∈ (l₁.foldl (applyRes d r) s).prepared
    · simp [h, (hprep x).mp h]
    · have : x ∉ (l₂.foldl (applyRes d r) s).prepared := fun h' => h ((hprep x).mpr h')
      simp [h, this]
  rw [hv2, hnxt, hst, hclk]

/-- **C05 (order independence, shared lines included).** As `clkCycle_perm_indep`, but a wire may be prepared by several
    blocks at the same edge (a BidirWire with several sequential drivers) provided they prepare the same value there. -/
theorem clkCycle_perm_indep_shared (d : Design σ) (ds₁ ds₂ : List Driver) (s : State σ)
    (hp : (enabledClockables s.val ds₁).Perm (enabledClockables s.val ds₂))
    (hn : (enabledClockables s.val ds₁).Nodup)
    (hd : SharedOK d (res d s) (enabledClockables s.val ds₁)) :
    clkCycle { d with drivers := ds₁ } s = clkCycle { d with drivers := ds₂ } s := by
  unfold clkCycle
  simp only
  rw [clockDrivers_eq, clockDrivers_eq]
  have e1 := foldl_clockLeaf_eq { d with drivers := ds₁ } s _ hn s rfl (fun _ _ => rfl)
  have e2 := foldl_clockLeaf_eq { d with drivers := ds₂ } s _ (hp.nodup_iff.mp hn) s rfl (fun _ _ => rfl)
  rw [e1, e2]
  have := settle_perm_shared d (res d s) s _ _ hp hn hd
  have hA : ∀ (dd : Design σ) (l : List Nat), dd.width = d.width → dd.leaf = d.leaf →
      l.foldl (applyRes dd (res dd s)) s = l.foldl (applyRes d (res d s)) s := by
    intro dd l hw hl
    have hr : res dd s = res d s := by funext k; simp [res, hl]
    rw [hr]
    congr 1
    funext s' k
    simp [applyRes, prepW, prepVal, hw]
    congr 1
    funext s'' wv
    simp [prepW, prepVal, hw]
  rw [hA { d with drivers := ds₁ } _ rfl rfl, hA { d with drivers := ds₂ } _ rfl rfl, this]
  rfl

/-- two blocks that prepare DIFFERENT values on a shared line at the same edge (a bus conflict): the line takes the value
    of the block visited last — the hypothesis `SharedOK` cannot be dropped -/
def conflictDesign (order : List Nat) : Design Unit :=
  { width := fun _ => 4,
    leaf := fun k => { prop := fun _ s => (s, []), clock := fun _ s => (s, [(0, (k : Int) + 5)]) },
    order := [], drivers := [{ enable := none, clockables := order }] }

theorem shared_line_conflict_counterexample :
    (clkCycle (conflictDesign [0, 1]) st01).val 0 ≠ (clkCycle (conflictDesign [1, 0]) st01).val 0 := by decide

/-- agreeing drivers of a shared line plus a default-then-override block: hypotheses of the theorem are satisfiable -/
def sharedDesign (order : List Nat) : Design Unit :=
  { width := fun _ => 4,
    leaf := fun k => { prop := fun _ s => (s, []),
                       clock := fun v s => if k = 2 then (s, [(1, 0), (2, (v 0 : Int)), (1, 1)])   -- default, other wire, override
                                           else (s, [(0, (v 1 : Int) + 3)]) },                    -- blocks 0 and 1 share line 0
    order := [], drivers := [{ enable := none, clockables := order }] }

example : [0, 1, 2].map (clkCycle (sharedDesign [0, 2, 1]) st01).val = [12, 1, 3] := by decide
example : [0, 1, 2].map (clkCycle (sharedDesign [2, 1, 0]) st01).val = [12, 1, 3] := by decide
example : SharedOK (sharedDesign [0, 2, 1]) (res (sharedDesign [0, 2, 1]) st01) [0, 2, 1] := by
  intro w
  by_cases h0 : w = 0
  · right; refine ⟨12, ?_⟩
    intro k hk wv hwv e
    have hk' : k = 0 ∨ k = 2 ∨ k = 1 := by simpa using hk
    rcases hk' with rfl | rfl | rfl
    · simp [res, sharedDesign] at hwv; subst hwv; decide
    · simp [res, sharedDesign] at hwv
      rcases hwv with rfl | rfl | rfl <;> (subst h0; simp at e)
    · simp [res, sharedDesign] at hwv; subst hwv; decide
  · left
    intro a ha b hb hab hw
    have ha' : a = 0 ∨ a = 2 ∨ a = 1 := by simpa using ha
    have hb' : b = 0 ∨ b = 2 ∨ b = 1 := by simpa using hb
    rcases ha' with rfl | rfl | rfl <;> rcases hb' with rfl | rfl | rfl <;>
      simp [targets, res, sharedDesign] at hw ⊢ <;> omega

/-! ### 4. silent edges: nobody prepares anything, the edge still happens -/

/-- no clocked block calls `prepare` at this edge -/
def SilentAt (d : Design σ) (s : State σ) : Prop := ∀ k, k ∈ enabledClockables s.val d.drivers → (res d s k).2 = []

theorem foldl_applyRes_silent (d : Design σ) (r : Nat → σ × List (Nat × Int)) (l : List Nat) (s : State σ)
    (hs : ∀ k, k ∈ l → (r k).2 = []) :
    l.foldl (applyRes d r) s = { s with st := fun j => if j ∈ l then (r j).1 else s.st j } := by
  induction l generalizing s with
  | nil => simp
  | cons a l ih =>
    simp only [List.foldl]
    rw [ih _ (fun k hk => hs k (by simp [hk]))]
    have ha : (r a).2 = [] := hs a (by simp)
    simp only [applyRes, ha, List.foldl]
    congr 1
    funext j
    by_cases h1 : j ∈ l
    · simp [h1]
    · by_cases h2 : j = a
      · subst h2; simp [h1]
      · simp [h1, h2, upd]

/-- **C05 (a silent edge is still an edge).** If no block prepares anything, the edge is NOT a no-op: every clocked block's
    state becomes its `clock()` result on the pre-edge values, the combinational part is re-evaluated on those states and
    the cycle counter advances — so an edge can never be skipped because "nothing was scheduled". -/
theorem silent_edge (d : Design σ) (s : State σ) (h0 : s.prepared = [])
    (hn : (enabledClockables s.val d.drivers).Nodup) (hs : SilentAt d s) :
    clkCycle d s =
      let p := propagateAll d { s with st := fun j => if j ∈ enabledClockables s.val d.drivers then (res d s j).1 else s.st j }
      { p with clks := p.clks + 1 } := by
  unfold clkCycle
  simp only
  rw [clockDrivers_eq, foldl_clockLeaf_eq d s _ hn s rfl (fun _ _ => rfl), foldl_applyRes_silent d _ _ s hs]
  have : settleAll { s with st := fun j => if j ∈ enabledClockables s.val d.drivers then (res d s j).1 else s.st j } =
      { s with st := fun j => if j ∈ enabledClockables s.val d.drivers then (res d s j).1 else s.st j } := by
    unfold settleAll
    simp [h0]
  rw [this]

/-! #### the cycle counter -/

theorem propagateAll_clks_eq (d : Design σ) (s : State σ) : (propagateAll d s).clks = s.clks := by
  have := propagateAll_clks d s s.clks
  have e : ({ s with clks := s.clks } : State σ) = s := rfl
  rw [e] at this
  rw [this]

theorem foldl_clockLeaf_clks (d : Design σ) (l : List Nat) (s : State σ) : (l.foldl (clockLeaf d) s).clks = s.clks := by
  induction l generalizing s with
  | nil => rfl
  | cons a l ih =>
    simp only [List.foldl, ih]
    unfold clockLeaf
    rw [foldl_prepW_clks]

theorem clkCycle_clks (d : Design σ) (s : State σ) : (clkCycle d s).clks = s.clks + 1 := by
  rw [total_clks_cycle, propagateAll_clks_eq]
  show (clockDrivers d s d.drivers).clks + 1 = s.clks + 1
  rw [clockDrivers_eq, foldl_clockLeaf_clks]

theorem iter_clkCycle_clks (d : Design σ) (n : Nat) (s : State σ) : (iter (clkCycle d) n s).clks = s.clks + n := by
  induction n generalizing s with
  | zero => rfl
  | succ n ih => simp only [iter]; rw [ih, clkCycle_clks]; omega

/-- **C05 (no edge is dropped).** `clk(n)` advances `total_clks` by exactly n — for every design, silent edges included,
    and every one of these n edges is a full `clkCycle` (`Net.clk` is `iter clkCycle n`) -/
theorem clk_clks (d : Design σ) (n : Nat) (s : State σ) : (clk d n s).clks = s.clks + n := by
  unfold clk
  rw [iter_clkCycle_clks, propagateAll_clks_eq]

/-! ### 5. every splitting of a run -/

/-- **C05 (all splittings).** Any sequence of `clk()` calls — pieces of any sizes, empty pieces included — is one call
    with the sum of the cycles. -/
theorem clk_pieces (d : Design σ) (h : PropIdem d) (ns : List Nat) (s : State σ) :
    ns.foldl (fun s n => clk d n s) (propagateAll d s) = clk d ns.sum s := by
  induction ns generalizing s with
  | nil => rfl
  | cons n ns ih =>
    simp only [List.foldl, List.sum_cons]
    have e1 : clk d n (propagateAll d s) = clk d n s := by unfold clk; rw [h s]
    rw [e1, ← clk_settled d h n s, ih, clk_split d h]

/-- the same from ANY state — e.g. right after a test bench poked inputs, when the wires are not settled — for a splitting
    with at least one piece (`n :: ns`) -/
theorem clk_pieces_cons (d : Design σ) (h : PropIdem d) (n : Nat) (ns : List Nat) (s : State σ) :
    (n :: ns).foldl (fun s n => clk d n s) s = clk d (n + ns.sum) s := by
  induction ns generalizing n with
  | nil => simp
  | cons m ns ih =>
    have := ih (n + m)
    simp only [List.foldl, List.sum_cons] at this ⊢
    rw [← clk_split d h n m s, this, Nat.add_assoc]

/-- user level (`Net.Op`): replacing one `sim.clk(n)` of a session by calls `sim.clk(n₁); …; sim.clk(nₖ)` (k ≥ 1, Σ nᵢ = n,
    empty pieces allowed) changes nothing, wherever in the session — after pokes included — it stands -/
theorem applyOp_clk_pieces (d : Design σ) (h : PropIdem d) (n : Nat) (ns : List Nat) (s : State σ) :
    ((n :: ns).map Op.clk).foldl (applyOp d) s = applyOp d s (Op.clk (n + ns.sum)) := by
  have e : ∀ (l : List Nat) (x : State σ), (l.map Op.clk).foldl (applyOp d) x = l.foldl (fun s n => clk d n s) x := by
    intro l
    induction l with
    | nil => intro x; rfl
    | cons a l ih => intro x; simp only [List.map, List.foldl, applyOp]; exact ih _
  rw [e]
  exact clk_pieces_cons d h n ns s

/-- two splittings with the same total are indistinguishable -/
theorem clk_pieces_eq (d : Design σ) (h : PropIdem d) (ns ms : List Nat) (hsum : ns.sum = ms.sum) (s : State σ) :
    ns.foldl (fun s n => clk d n s) (propagateAll d s) = ms.foldl (fun s n => clk d n s) (propagateAll d s) := by
  rw [clk_pieces d h, clk_pieces d h, hsum]

/-! #### non-vacuity on the generated `AutoReset.clock` (py4hw/logic/clock.py): its 2nd edge is silent and changes state -/

def autoResetLeaf : LeafSem Gen.AutoReset.St :=
  { prop := fun _ s => (s, []),
    clock := fun _ s => let r := Gen.AutoReset.step ⟨⟩ s ⟨⟩ ⟨⟩
                        (r.1, match r.2.reset with | some v => [(0, v)] | none => []) }

/-- an AutoReset alone: no Reg / Sequence / memory that would prepare at every edge -/
def autoResetDesign : Design Gen.AutoReset.St :=
  { width := fun _ => 1, leaf := fun _ => autoResetLeaf, order := [], drivers := [{ enable := none, clockables := [0] }] }

def ar0 : State Gen.AutoReset.St := { val := fun _ => 0, nxt := fun _ => 0, prepared := [], st := fun _ => Gen.AutoReset.init, clks := 0 }

theorem autoReset_second_edge_silent :
    SilentAt autoResetDesign (clk autoResetDesign 1 ar0) ∧
    ((clk autoResetDesign 2 ar0).st 0).state ≠ ((clk autoResetDesign 1 ar0).st 0).state := by
  constructor
  · intro k hk
    have : k = 0 := by simpa [enabledClockables, autoResetDesign, enabled] using hk
    subst this
    decide
  · decide

example : [1, 2, 3, 4].map (fun n => (clk autoResetDesign n ar0).val 0) = [1, 1, 0, 0] := by decide
example : PropIdem autoResetDesign := fun _ => rfl
example : clk autoResetDesign 5 ar0 = [2, 0, 3].foldl (fun s n => clk autoResetDesign n s) (propagateAll autoResetDesign ar0) :=
  (clk_pieces autoResetDesign (fun _ => rfl) [2, 0, 3] ar0).symm
example : (clk autoResetDesign 5 ar0).clks = 5 := clk_clks _ _ _

/-! ### 6. `stop()` requested from inside `clock()` -/

theorem iter_one_add {α : Type} (f : α → α) (k : Nat) (a : α) : iter f (1 + k) a = iter f k (f a) := by
  rw [Nat.add_comm]; rfl

theorem clkLoop_eq_iter (d : Design σ) (q : State σ → Bool) (n : Nat) (run : Bool) (s : State σ) :
    clkLoop d q n run s = iter (clkCycle d) (execCount d q n run s) s := by
  induction n generalizing run s with
  | zero => rfl
  | succ n ih =>
    simp only [clkLoop, execCount]
    cases run with
    | false => rfl
    | true => simp only [if_true]; rw [iter_one_add]; exact ih _ _

/-- **C05 (a stopped call is a shorter call).** Whatever blocks request `stop()` and whenever: `clk(n)` simulates k whole
    edges (the edge during which `stop()` was called completes: settle, propagate, counter) and leaves exactly the state of
    `clk(k)` — nothing half-done, nothing carried over -/
theorem clkS_eq_clk (d : Design σ) (q : State σ → Bool) (n : Nat) (s : State σ) :
    clkS d q n s = clk d (execCount d q n true (propagateAll d s)) s := by
  unfold clkS clk; exact clkLoop_eq_iter d q n true _

theorem execCount_le (d : Design σ) (q : State σ → Bool) (n : Nat) (run : Bool) (s : State σ) : execCount d q n run s ≤ n := by
  induction n generalizing run s with
  | zero => exact Nat.le_refl 0
  | succ n ih =>
    simp only [execCount]
    cases run with
    | false => simp
    | true => simp only [if_true]; have := ih (!q s) (clkCycle d s); omega

/-- a call asking for at least one cycle simulates at least one edge: a stop request of an EARLIER call is not carried over
    (`do_run` is re-armed at the top of `clk`) -/
theorem execCount_pos (d : Design σ) (q : State σ → Bool) (n : Nat) (s : State σ) (hn : 1 ≤ n) : 1 ≤ execCount d q n true s := by
  cases n with
  | zero => omega
  | succ n => simp only [execCount, if_true]; omega

/-- all n edges are simulated unless `stop()` is requested during one of the first n-1 edges OF THIS CALL -/
theorem execCount_full (d : Design σ) (q : State σ → Bool) (n : Nat) (s : State σ)
    (h : ∀ k, k + 1 < n → q (iter (clkCycle d) k s) = false) : execCount d q n true s = n := by
  induction n generalizing s with
  | zero => rfl
  | succ n ih =>
    simp only [execCount, if_true]
    cases n with
    | zero => rfl
    | succ m =>
      have h0 : q s = false := h 0 (by omega)
      rw [h0]
      have := ih (clkCycle d s) (fun k hk => h (k + 1) (by omega))
      simp only [Bool.not_false] at this ⊢
      omega

/-- `stop()` requested during edge k+1 of the call (and not before): exactly k+1 edges are simulated -/
theorem execCount_stop (d : Design σ) (q : State σ → Bool) (n k : Nat) (s : State σ) (hk : k < n)
    (h : ∀ j, j < k → q (iter (clkCycle d) j s) = false) (hs : q (iter (clkCycle d) k s) = true) :
    execCount d q n true s = k + 1 := by
  induction k generalizing n s with
  | zero =>
    cases n with
    | zero => omega
    | succ n =>
      have hs' : q s = true := hs
      simp only [execCount, if_true, hs', Bool.not_true]
      cases n <;> simp [execCount]
  | succ k ih =>
    cases n with
    | zero => omega
    | succ n =>
      have h0 : q s = false := h 0 (by omega)
      simp only [execCount, if_true, h0, Bool.not_false]
      rw [ih n (clkCycle d s) (by omega) (fun j hj => h (j + 1) (by omega)) hs]
      omega

theorem clkS_no_stop (d : Design σ) (n : Nat) (s : State σ) : clkS d (fun _ => false) n s = clk d n s := by
  rw [clkS_eq_clk, execCount_full]; intro _ _; rfl

/-- resuming a stopped call for the remaining cycles gives the uninterrupted run -/
theorem clkS_resume (d : Design σ) (h : PropIdem d) (q : State σ → Bool) (n m : Nat) (s : State σ) :
    clk d m (clkS d q n s) = clk d (execCount d q n true (propagateAll d s) + m) s := by
  rw [clkS_eq_clk, clk_split d h]

/-- non-vacuity: AutoReset alone, a breakpoint at edge 2 of a clk(5): 2 edges, and the resumed run is clk(5) -/
def bp2 : State Gen.AutoReset.St → Bool := fun s => s.clks + 1 == 2
example : (clkS autoResetDesign bp2 5 ar0).clks = 2 := by decide
example : execCount autoResetDesign bp2 5 true (propagateAll autoResetDesign ar0) = 2 := by decide
example : (clk autoResetDesign 3 (clkS autoResetDesign bp2 5 ar0)).val 0 = (clk autoResetDesign 5 ar0).val 0 := by decide
example : stopRun [2, 3, 9] 0 [5, 3, 0, 4, 1] = [2, 3, 3, 7, 8] := by decide

end C05
