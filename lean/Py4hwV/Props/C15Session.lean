import Py4hwV.Props.C15
/-
  C15, composed statement over ARBITRARY user sessions (model: `Waveform.session`, Proto/WaveformNet.lean):
  any design, several Waveform objects (overlapping watch lists allowed: each object has its own `data`), any list of
  operations  poke / clk n / clear(i) / get_wavedrom(i, shortNames) / getDict(i)  in any order.

    session_data / session_now      the `data` attribute of Waveform i after the list = `Waveform.run` of its own trace
                                    (one `clock v` per enabled edge with the pre-edge values, one `clear` per clear(i));
                                    clears and queries of OTHER Waveforms and all queries do not touch it
    session_capture                 hence: samples of every watched wire = values at the cycles since the last clear(i)
    session_render_spec             EVERY get_wavedrom answer, wherever it is issued in the list, is `getWavedrom` of the
                                    recorder's content at that moment (no stale state), has one row per entry, and each
                                    row decodes to the samples since the last clear(i) and spans exactly that many cycles
    session_dict_spec               same for getDict answers
    session_queries_transparent     deleting all queries changes neither the final state nor the trace
    session_render_twice            asking twice in a row (with either shortNames) gives the answer of the same content
    trace_cycles_ungated            un-gated recorder: recorded cycles = simulated cycles since the last clear(i)
-/
namespace C15
open Net Waveform

variable {σ : Type}

/-! ### `Waveform.run` seen on the `data` attribute alone -/

def dataOp (uniq : List Nat) (D : Dict) : Waveform.Op → Dict
  | .clock v => clockData uniq v D
  | .clear => clearData D

theorem run_eq (wf : Wf) (ops : List Waveform.Op) :
    Waveform.run wf ops = wf.withData (ops.foldl (dataOp wf.uniq) wf.data) := by
  unfold Waveform.run
  induction ops generalizing wf with
  | nil => rfl
  | cons op ops ih =>
    simp only [List.foldl_cons]
    rw [ih]
    cases op <;> rfl

/-! ### a recorder under ANY clock driver (gated or not): one sample per enabled edge -/

/-- the pre-edge value vectors of the cycles in which the driver `dr` is enabled -/
def recEdges (d : Design σ) (dr : Driver) (n : Nat) (s : State σ) : List Net.Val :=
  (edges d n s).filter (fun v => enabled v dr.enable)

theorem recEdges_ungated (d : Design σ) (dr : Driver) (h : dr.enable = none) (n : Nat) (s : State σ) :
    recEdges d dr n s = edges d n s := by
  simp [recEdges, h, enabled]

theorem capture_iter_gated (d : Design σ) (k : Nat) (uniq : List Nat) (proj : σ → Dict)
    (hr : IsRecorder d k uniq proj) (dr : Driver) (hs : SchedOnce d k dr) (n : Nat) (s : State σ) :
    proj ((iter (clkCycle d) n s).st k) = (recEdges d dr n s).foldl (fun D v => clockData uniq v D) (proj (s.st k)) := by
  induction n generalizing s with
  | zero => rfl
  | succ n ih =>
    have ih' := ih (clkCycle d s)
    simp only [recEdges] at ih' ⊢
    simp only [iter, edges]
    rw [ih', capture_gated d k uniq proj hr dr hs s]
    by_cases he : enabled s.val dr.enable = true
    · simp [he]
    · have he' : enabled s.val dr.enable = false := by simpa using he
      simp [he']

/-- **capture_clk_gated**: `Simulator.clk(n)` on a recorder under any driver -/
theorem capture_clk_gated (d : Design σ) (k : Nat) (uniq : List Nat) (proj : σ → Dict)
    (hr : IsRecorder d k uniq proj) (dr : Driver) (hs : SchedOnce d k dr) (n : Nat) (s : State σ) :
    proj ((clk d n s).st k) =
      (recEdges d dr n (propagateAll d s)).foldl (fun D v => clockData uniq v D) (proj (s.st k)) := by
  unfold clk
  rw [capture_iter_gated d k uniq proj hr dr hs n (propagateAll d s)]
  congr 1
  unfold propagateAll
  rw [propagate_st d d.order s k hr.noprop]

/-! ### sessions -/

/-- what the session theorems assume about Waveform `i` of the session: it is the object `r`, its leaf is a recorder
    scheduled once (under `dr`), no other Waveform object shares its leaf (they are different objects), and the
    attribute accessor is lawful -/
structure RecOk (d : Design σ) (acc : Acc σ) (recs : List Rec) (i : Nat) (r : Rec) (dr : Driver) : Prop where
  at_i   : recs[i]? = some r
  isrec  : IsRecorder d r.leaf r.wf0.uniq acc.proj
  sched  : SchedOnce d r.leaf dr
  others : ∀ j r', recs[j]? = some r' → j ≠ i → r'.leaf ≠ r.leaf
  getset : ∀ s D, acc.proj (acc.setD s D) = D

/-- the recorder-level operations Waveform `i` sees during one user operation issued in state `s` -/
def opTrace (d : Design σ) (dr : Driver) (i : Nat) (s : State σ) : SOp → List Waveform.Op
  | .clk n => (recEdges d dr n (propagateAll d s)).map Waveform.Op.clock
  | .clear j => if j = i then [Waveform.Op.clear] else []
  | _ => []

/-- … during a whole list of user operations -/
def trace (d : Design σ) (acc : Acc σ) (recs : List Rec) (dr : Driver) (i : Nat) : State σ → List SOp → List Waveform.Op
  | _, [] => []
  | s, op :: ops => opTrace d dr i s op ++ trace d acc recs dr i (sessStep d acc recs s op) ops

theorem session_fst (d : Design σ) (acc : Acc σ) (recs : List Rec) (s : State σ) (ops : List SOp) :
    (session d acc recs s ops).1 = ops.foldl (sessStep d acc recs) s := by
  induction ops generalizing s with
  | nil => rfl
  | cons op ops ih => simp only [session, List.foldl_cons]; exact ih _

theorem session_append (d : Design σ) (acc : Acc σ) (recs : List Rec) (s : State σ) (a b : List SOp) :
    session d acc recs s (a ++ b) =
      ((session d acc recs (session d acc recs s a).1 b).1,
       (session d acc recs s a).2 ++ (session d acc recs (session d acc recs s a).1 b).2) := by
  induction a generalizing s with
  | nil => simp [session]
  | cons op a ih =>
    simp only [List.cons_append, session]
    rw [ih]
    simp

theorem trace_append (d : Design σ) (acc : Acc σ) (recs : List Rec) (dr : Driver) (i : Nat) (s : State σ)
    (a b : List SOp) :
    trace d acc recs dr i s (a ++ b) =
      trace d acc recs dr i s a ++ trace d acc recs dr i (session d acc recs s a).1 b := by
  induction a generalizing s with
  | nil => simp [trace, session]
  | cons op a ih =>
    simp only [List.cons_append, trace, session]
    rw [ih]
    simp

theorem sessStep_data (d : Design σ) (acc : Acc σ) (recs : List Rec) (i : Nat) (r : Rec) (dr : Driver)
    (h : RecOk d acc recs i r dr) (s : State σ) (op : SOp) :
    acc.proj ((sessStep d acc recs s op).st r.leaf) =
      (opTrace d dr i s op).foldl (dataOp r.wf0.uniq) (acc.proj (s.st r.leaf)) := by
  cases op with
  | poke w v => simp [sessStep, opTrace, putW]
  | clk n =>
    simp only [sessStep, opTrace]
    rw [capture_clk_gated d r.leaf r.wf0.uniq acc.proj h.isrec dr h.sched n s, List.foldl_map]
    rfl
  | clear j =>
    by_cases hj : j = i
    · subst hj
      simp [sessStep, h.at_i, clearRec, opTrace, h.getset, dataOp]
    · cases hr : recs[j]? with
      | none => simp [sessStep, hr, opTrace, hj]
      | some r' =>
        have hne := h.others j r' hr hj
        have hne' : ¬ r.leaf = r'.leaf := fun e => hne e.symm
        simp [sessStep, hr, clearRec, opTrace, hj, upd, hne']
  | render j b => simp [sessStep, opTrace]
  | dict j => simp [sessStep, opTrace]

/-- **session_data**: after ANY list of user operations, `data` of Waveform `i` is what its own trace produces -/
theorem session_data (d : Design σ) (acc : Acc σ) (recs : List Rec) (i : Nat) (r : Rec) (dr : Driver)
    (h : RecOk d acc recs i r dr) (ops : List SOp) (s : State σ) :
    acc.proj ((session d acc recs s ops).1.st r.leaf) =
      (trace d acc recs dr i s ops).foldl (dataOp r.wf0.uniq) (acc.proj (s.st r.leaf)) := by
  induction ops generalizing s with
  | nil => rfl
  | cons op ops ih =>
    simp only [session, trace, List.foldl_append]
    rw [ih, sessStep_data d acc recs i r dr h]

/-- **session_now**: the whole object after the list = `Waveform.run` of the object before, on its trace -/
theorem session_now (d : Design σ) (acc : Acc σ) (recs : List Rec) (i : Nat) (r : Rec) (dr : Driver)
    (h : RecOk d acc recs i r dr) (ops : List SOp) (s : State σ) :
    r.now acc (session d acc recs s ops).1 = Waveform.run (r.now acc s) (trace d acc recs dr i s ops) := by
  rw [run_eq]
  simp only [Rec.now, Wf.withData]
  rw [session_data d acc recs i r dr h]

/-- **session_capture**: after ANY list of user operations every watched wire of Waveform `i` holds exactly the values
    it carried going into the (enabled) edges since the last `clear(i)`, in cycle order; the object stays a valid
    recorder. -/
theorem session_capture (d : Design σ) (acc : Acc σ) (recs : List Rec) (i : Nat) (r : Rec) (dr : Driver)
    (h : RecOk d acc recs i r dr) (width : Nat → Nat) (s : State σ) (hinv : Inv width (r.now acc s)) (ops : List SOp) :
    Inv width (r.now acc (session d acc recs s ops).1) ∧
    ∀ w ∈ r.wf0.uniq, samples (r.now acc (session d acc recs s ops).1) w
        = (trace d acc recs dr i s ops).foldl (track w) (samples (r.now acc s) w) := by
  rw [session_now d acc recs i r dr h]
  exact ⟨inv_run width _ _ hinv, fun w hw => capture_model width _ (r.now acc s) hinv w hw⟩

/-! ### every recorded value fits its wire (C06), along any session -/

def OpFit (width : Nat → Nat) : Waveform.Op → Prop
  | .clock v => ∀ w, v w < 2 ^ width w
  | .clear => True

theorem sessStep_inv06 (d : Design σ) (acc : Acc σ) (recs : List Rec) (s : State σ) (hs : C06.Inv d s) (op : SOp) :
    C06.Inv d (sessStep d acc recs s op) := by
  cases op with
  | poke w v => exact C06.inv_putW d s (w, v) hs
  | clk n => exact C06.inv_clk d n s hs
  | clear j =>
    simp only [sessStep]
    cases recs[j]? with
    | none => exact hs
    | some r' => exact C06.inv_st d s _ hs
  | render j b => exact hs
  | dict j => exact hs

theorem session_inv06 (d : Design σ) (acc : Acc σ) (recs : List Rec) (ops : List SOp) (s : State σ) (hs : C06.Inv d s) :
    C06.Inv d (session d acc recs s ops).1 := by
  induction ops generalizing s with
  | nil => exact hs
  | cons op ops ih => simp only [session]; exact ih _ (sessStep_inv06 d acc recs s hs op)

theorem trace_fit (d : Design σ) (acc : Acc σ) (recs : List Rec) (dr : Driver) (i : Nat) (ops : List SOp)
    (s : State σ) (hs : C06.Inv d s) : ∀ o ∈ trace d acc recs dr i s ops, OpFit d.width o := by
  induction ops generalizing s with
  | nil => intro o ho; simp [trace] at ho
  | cons op ops ih =>
    intro o ho
    simp only [trace, List.mem_append] at ho
    rcases ho with ho | ho
    · cases op with
      | clk n =>
        simp only [opTrace, recEdges, List.mem_map, List.mem_filter] at ho
        obtain ⟨v, ⟨hv, _⟩, rfl⟩ := ho
        exact edges_fit d n (propagateAll d s) (C06.inv_propagateAll d s hs) v hv
      | clear j =>
        simp only [opTrace] at ho
        by_cases hj : j = i
        · simp [hj] at ho; subst ho; trivial
        · simp [hj] at ho
      | poke w v => simp [opTrace] at ho
      | render j b => simp [opTrace] at ho
      | dict j => simp [opTrace] at ho
    · exact ih _ (sessStep_inv06 d acc recs s hs op) o ho

theorem track_mem (w : Nat) (ops : List Waveform.Op) (acc : List Nat) (x : Nat)
    (hx : x ∈ ops.foldl (track w) acc) : x ∈ acc ∨ ∃ v, Waveform.Op.clock v ∈ ops ∧ x = v w := by
  induction ops generalizing acc with
  | nil => exact Or.inl hx
  | cons op ops ih =>
    simp only [List.foldl_cons] at hx
    rcases ih _ hx with h | ⟨v, hv, e⟩
    · cases op with
      | clock v =>
        simp only [track, List.mem_append, List.mem_singleton] at h
        rcases h with h | h
        · exact Or.inl h
        · exact Or.inr ⟨v, by simp, h⟩
      | clear => simp [track] at h
    · exact Or.inr ⟨v, by simp [hv], e⟩

/-! ### the queries -/

/-- **session_render_spec** — the composed statement of C15 for arbitrary sessions.  Waveform `i` was constructed from
    the watch list `wires`; the session starts right after construction in any simulator state with in-range values;
    `pre` is ANY list of operations (pokes, clk, clear of this or other Waveforms, earlier queries of any kind), then
    `get_wavedrom(shortNames)` is called on Waveform `i`, then anything (`post`).  The answer of that call
      * is `getWavedrom` of the object's content at that moment (nothing remembered from earlier calls),
      * has one row per watch-list entry, in order,
      * each row decodes to the values its wire carried going into the (enabled) edges since the last `clear(i)` —
        which is also what `data` holds — spans exactly that many cycles and has the entry's name,
      * the clock row spans and decodes to the same number of cycles. -/
theorem session_render_spec (d : Design σ) (acc : Acc σ) (recs : List Rec) (i : Nat) (r : Rec) (dr : Driver)
    (h : RecOk d acc recs i r dr) (name : List Char) (wires : List Entry)
    (h0 : init d.width name wires = some r.wf0)
    (s : State σ) (hfit : C06.Inv d s) (hdata : acc.proj (s.st r.leaf) = r.wf0.data)
    (pre post : List SOp) (short : Bool) :
    let sp := (session d acc recs s pre).1
    let wf := r.now acc sp
    let T := trace d acc recs dr i s pre
    let n := T.foldl cyclesOf 0
    let wd := getWavedrom d.width wf short
    (session d acc recs s (pre ++ SOp.render i short :: post)).2[(session d acc recs s pre).2.length]?
        = some (Out.wd i short wd) ∧
    wd.rows = wires.map (rowOf d.width wf short) ∧
    (∀ e ∈ wires, ∃ w, e.wire? = some w ∧
        samples wf w = T.foldl (track w) [] ∧
        decodeWave (d.width w) (rowOf d.width wf short e).wave (rowOf d.width wf short e).data
          = some (T.foldl (track w) []) ∧
        (rowOf d.width wf short e).wave.length = n + 2 ∧
        (rowOf d.width wf short e).name = (if short then e.short else e.full)) ∧
    wd.clk.wave.length = n + 2 ∧ decodeClk wd.clk.wave = some n := by
  intro sp wf T n wd
  obtain ⟨hinv0, hw0, _, hs0⟩ := init_inv d.width name wires r.wf0 h0
  have hstart : r.now acc s = r.wf0 := by
    simp only [Rec.now, Wf.withData, hdata]
  have hinvS : Inv d.width (r.now acc s) := by rw [hstart]; exact hinv0
  obtain ⟨hinv, hcap⟩ := session_capture d acc recs i r dr h d.width s hinvS pre
  have hwires : wf.wires = wires := hw0
  have hsamp : ∀ e ∈ wires, ∃ w, e.wire? = some w ∧ w ∈ r.wf0.uniq ∧ samples wf w = T.foldl (track w) [] := by
    intro e he
    obtain ⟨w, h1, h2⟩ := hinv0.mem e (hw0 ▸ he)
    refine ⟨w, h1, h2, ?_⟩
    have := hcap w h2
    rw [hstart, hs0 w] at this
    exact this
  have hTfit := trace_fit d acc recs dr i pre s hfit
  have hfitS : ∀ w x, x ∈ samples wf w → x < 2 ^ d.width w := by
    intro w x hx
    by_cases hu : w ∈ r.wf0.uniq
    · have := hcap w hu
      rw [hstart, hs0 w] at this
      have hx' : x ∈ T.foldl (track w) [] := this ▸ hx
      rcases track_mem w T [] x hx' with hh | ⟨v, hv, e⟩
      · simp at hh
      · subst e; exact hTfit _ hv w
    · have hk : w ∉ keys wf.data := by rw [hinv.keys]; exact hu
      have : dictGet? wf.data w = none := dictGet_none_of_not_mem _ _ hk
      simp [samples, this] at hx
  have hlen : ∀ e ∈ wf.wires, ∀ w, e.wire? = some w → (samples wf w).length = n := by
    intro e he w hw
    obtain ⟨w', h1, _, h3⟩ := hsamp e (hwires ▸ he)
    have : w' = w := by rw [hw] at h1; exact (Option.some.inj h1).symm
    subst this
    rw [h3, track_length]; rfl
  have hne : wf.wires ≠ [] := by
    rw [hwires]; intro e
    have := (init_raises_iff d.width name wires).mpr (Or.inl e)
    rw [this] at h0; cases h0
  refine ⟨?_, by rw [← hwires]; exact getWavedrom_rows d.width wf short hinv, ?_, ?_⟩
  · rw [session_append]
    simp only [session, sessOut, h.at_i, Option.map_some, Option.toList_some]
    simp
    rfl
  · intro e he
    obtain ⟨w, h1, _, h3⟩ := hsamp e he
    obtain ⟨w', g1, g2, g3, g4⟩ := getWavedrom_decodes d.width wf short hinv hfitS e (hwires ▸ he)
    have : w' = w := by rw [h1] at g1; exact (Option.some.inj g1).symm
    subst this
    refine ⟨w', h1, h3, by rw [g2, h3], ?_, g4⟩
    rw [g3, hlen e (hwires ▸ he) w' h1]
  · obtain ⟨_, c2, c3⟩ := getWavedrom_clk d.width wf short hinv hne n hlen
    exact ⟨c2, c3⟩

/-- **session_dict_spec**: a `getDict()` issued anywhere in a session returns, for every watch-list entry (wire, port
    alias, repetition), the values its wire carried into the (enabled) edges since the last `clear(i)` -/
theorem session_dict_spec (d : Design σ) (acc : Acc σ) (recs : List Rec) (i : Nat) (r : Rec) (dr : Driver)
    (h : RecOk d acc recs i r dr) (name : List Char) (wires : List Entry)
    (h0 : init d.width name wires = some r.wf0)
    (s : State σ) (hdata : acc.proj (s.st r.leaf) = r.wf0.data) (pre post : List SOp) :
    let D := acc.proj ((session d acc recs s pre).1.st r.leaf)
    (session d acc recs s (pre ++ SOp.dict i :: post)).2[(session d acc recs s pre).2.length]? = some (Out.dict i D) ∧
    keys D = r.wf0.uniq ∧
    ∀ e ∈ wires, ∃ w, e.wire? = some w ∧
      dictGet? D w = some ((trace d acc recs dr i s pre).foldl (track w) []) := by
  intro D
  obtain ⟨hinv0, hw0, _, hs0⟩ := init_inv d.width name wires r.wf0 h0
  have hstart : r.now acc s = r.wf0 := by
    simp only [Rec.now, Wf.withData, hdata]
  have hinvS : Inv d.width (r.now acc s) := by rw [hstart]; exact hinv0
  obtain ⟨hinv, hcap⟩ := session_capture d acc recs i r dr h d.width s hinvS pre
  refine ⟨?_, hinv.keys, ?_⟩
  · rw [session_append]
    simp only [session, sessOut, h.at_i, Option.map_some, Option.toList_some]
    simp
    rfl
  · intro e he
    obtain ⟨w, h1, h2⟩ := hinv0.mem e (hw0 ▸ he)
    refine ⟨w, h1, ?_⟩
    have hc := hcap w h2
    rw [hstart, hs0 w] at hc
    obtain ⟨l, hl⟩ := dictGet_of_mem D w (by rw [show keys D = r.wf0.uniq from hinv.keys]; exact h2)
    have : samples (r.now acc (session d acc recs s pre).1) w = l := by
      simp only [samples, Rec.now, Wf.withData]
      show (dictGet? D w).getD [] = l
      rw [hl]; rfl
    rw [hl, ← this, hc]

/-! ### queries are observers -/

/-- the session with every query deleted -/
def dropQueries : List SOp → List SOp
  | [] => []
  | .render _ _ :: ops => dropQueries ops
  | .dict _ :: ops => dropQueries ops
  | .poke w v :: ops => .poke w v :: dropQueries ops
  | .clk n :: ops => .clk n :: dropQueries ops
  | .clear j :: ops => .clear j :: dropQueries ops

/-- **session_queries_transparent**: deleting every query from a session changes neither the simulator / recorder
    state it ends in nor what any Waveform sees (so no answer can depend on which queries were asked before) -/
theorem session_queries_transparent (d : Design σ) (acc : Acc σ) (recs : List Rec) (dr : Driver) (i : Nat)
    (ops : List SOp) (s : State σ) :
    (session d acc recs s (dropQueries ops)).1 = (session d acc recs s ops).1 ∧
    trace d acc recs dr i s (dropQueries ops) = trace d acc recs dr i s ops := by
  induction ops generalizing s with
  | nil => exact ⟨rfl, rfl⟩
  | cons op ops ih =>
    cases op with
    | poke w v => simp only [dropQueries, session, trace]; exact ⟨(ih _).1, by rw [(ih _).2]⟩
    | clk n => simp only [dropQueries, session, trace]; exact ⟨(ih _).1, by rw [(ih _).2]⟩
    | clear j => simp only [dropQueries, session, trace]; exact ⟨(ih _).1, by rw [(ih _).2]⟩
    | render j b =>
      simp only [dropQueries, session, trace, opTrace, List.nil_append, sessStep]
      exact ih s
    | dict j =>
      simp only [dropQueries, session, trace, opTrace, List.nil_append, sessStep]
      exact ih s

/-- **session_render_twice**: two renderings in a row (any shortNames values) are renderings of the same content; with
    the same shortNames the two answers are equal -/
theorem session_render_twice (d : Design σ) (acc : Acc σ) (recs : List Rec) (i : Nat) (r : Rec)
    (hr : recs[i]? = some r) (s : State σ) (b1 b2 : Bool) (post : List SOp) :
    (session d acc recs s (SOp.render i b1 :: SOp.render i b2 :: post)).2 =
      Out.wd i b1 (getWavedrom d.width (r.now acc s) b1) :: Out.wd i b2 (getWavedrom d.width (r.now acc s) b2) ::
        (session d acc recs s post).2 := by
  simp [session, sessOut, sessStep, hr]

/-! ### un-gated recorder: recorded cycles = simulated cycles since the last clear -/

/-- number of cycles simulated since the last `clear(i)` — read off the operation list alone -/
def sessCycles (i : Nat) (c : Nat) : SOp → Nat
  | .clk n => c + n
  | .clear j => if j = i then 0 else c
  | _ => c

theorem cycles_clocks (vs : List Net.Val) (c : Nat) :
    (vs.map Waveform.Op.clock).foldl cyclesOf c = c + vs.length := by
  induction vs generalizing c with
  | nil => rfl
  | cons v vs ih => simp only [List.map_cons, List.foldl_cons, cyclesOf, ih, List.length_cons]; omega

/-- **trace_cycles_ungated**: for a Waveform whose clock driver has no enable, the number of recorded cycles (= span of
    every rendering, by `session_render_spec`) is the number of cycles simulated since its last clear() -/
theorem trace_cycles_ungated (d : Design σ) (acc : Acc σ) (recs : List Rec) (dr : Driver) (hen : dr.enable = none)
    (i : Nat) (ops : List SOp) (s : State σ) (c : Nat) :
    (trace d acc recs dr i s ops).foldl cyclesOf c = ops.foldl (sessCycles i) c := by
  induction ops generalizing s c with
  | nil => rfl
  | cons op ops ih =>
    simp only [trace, List.foldl_append, List.foldl_cons]
    rw [ih]
    congr 1
    cases op with
    | clk n => simp only [opTrace, sessCycles]; rw [recEdges_ungated d dr hen, cycles_clocks, edges_length]
    | clear j =>
      by_cases hj : j = i
      · simp [opTrace, sessCycles, hj, cyclesOf]
      · simp [opTrace, sessCycles, hj]
    | poke w v => rfl
    | render j b => rfl
    | dict j => rfl

/-! ### non-vacuity: a session on `exDesign` (counter on wire 2, un-gated Waveform at leaf 1 watching wire 2 twice) -/

def exRecs : List Rec :=
  match init exDesign.width "wf".toList [{ obj := .wire 2, full := "c".toList }, { obj := .port (some 2), full := "p".toList }] with
  | some wf0 => [{ leaf := 1, wf0 := wf0 }]
  | none => []

def exS0 : State (Unit × Dict) := Net.init exDesign (st0WithRecorders (fun _ => ()) [(1, [2])])

/-- record 3 cycles – render – clear – record 3 cycles again (other values) – render – render (short) – getDict -/
def exOps : List SOp :=
  [.clk 3, .render 0 false, .clear 0, .poke 2 9, .clk 2, .clk 1, .render 0 false, .render 0 true, .dict 0]

def showOut : Out → String × List (String × List String)
  | .wd _ _ r => (String.ofList r.clk.wave, r.rows.map (fun x => (String.ofList x.wave, x.data.map String.ofList)))
  | .dict _ dd => ("dict", dd.map (fun p => (toString p.1, p.2.map toString)))

example : exRecs.length = 1 := by decide

-- the second rendering shows the second run (9, A, B), not the equally long first one (0, 1, 2)
example : ((session exDesign Acc.snd exRecs exS0 exOps).2.map showOut) =
    [("P...x", [("x222x", ["0", "1", "2"]), ("x222x", ["0", "1", "2"])]),
     ("P...x", [("x222x", ["9", "A", "B"]), ("x222x", ["9", "A", "B"])]),
     ("P...x", [("x222x", ["9", "A", "B"]), ("x222x", ["9", "A", "B"])]),
     ("dict", [("2", ["9", "10", "11"])])] := by decide

example (r : Rec) (hr : exRecs[0]? = some r) :
    RecOk exDesign Acc.snd exRecs 0 r { enable := none, clockables := [1, 0] } := by
  have e : exRecs = [r] := by
    have hl : exRecs.length = 1 := by decide
    match hx : exRecs, hl, hr with
    | [x], _, hr => simp at hr; rw [hr]
  have hleaf : r.leaf = 1 ∧ r.wf0.uniq = [2] := by
    have : exRecs.map (fun r => (r.leaf, r.wf0.uniq)) = [(1, [2])] := by decide
    rw [e] at this
    simpa using this
  refine ⟨hr, ?_, ?_, ?_, fun _ _ => rfl⟩
  · rw [hleaf.1, hleaf.2]
    exact withRecorders_isRecorder _ _ 1 [2] rfl (by simp)
  · rw [hleaf.1]
    exact ⟨⟨[], [], rfl, by simp, by simp⟩, by decide⟩
  · intro j r' hj hne
    rw [e] at hj
    cases j with
    | zero => exact absurd rfl hne
    | succ j => simp at hj

end C15
