import Py4hwV.Lib.Seq
import Py4hwV.Net.Sim
import Py4hwV.Net.PrepLemma
namespace C09
open Lib Leaf

universe u
variable {σ τ ι ο : Type}

/-- `m` shows the outputs of the reference machine `sp` after every history of valid inputs from power-up,
    for whatever (valid) inputs are currently applied -/
def Refines (m : Machine σ ι ο) (sp : Machine τ ι ο) (valid : ι → Prop) : Prop :=
  ∀ h : List ι, (∀ x ∈ h, valid x) → ∀ i, valid i → m.out (m.run h) i = sp.out (sp.run h) i

theorem foldl_sim (m : Machine σ ι ο) (sp : Machine τ ι ο) (valid : ι → Prop) (R : σ → τ → Prop)
    (hs : ∀ s t i, valid i → R s t → R (m.step s i) (sp.step t i)) :
    ∀ (h : List ι) (s : σ) (t : τ), (∀ x ∈ h, valid x) → R s t → R (h.foldl m.step s) (h.foldl sp.step t) := by
  intro h
  induction h with
  | nil => intro s t _ r; exact r
  | cons x xs ih =>
    intro s t hv r
    exact ih _ _ (fun y hy => hv y (List.mem_cons_of_mem _ hy)) (hs s t x (hv x (List.mem_cons_self ..)) r)

theorem refines_of_sim (m : Machine σ ι ο) (sp : Machine τ ι ο) (valid : ι → Prop) (R : σ → τ → Prop)
    (h0 : R m.init sp.init)
    (hs : ∀ s t i, valid i → R s t → R (m.step s i) (sp.step t i))
    (ho : ∀ s t i, valid i → R s t → m.out s i = sp.out t i) : Refines m sp valid := by
  intro h hv i hi
  exact ho _ _ i hi (foldl_sim m sp valid R hs h _ _ hv h0)

/-- the observable trace (outputs before and after every edge) is the reference machine's -/
theorem trace_of_sim (m : Machine σ ι ο) (sp : Machine τ ι ο) (valid : ι → Prop) (R : σ → τ → Prop)
    (hs : ∀ s t i, valid i → R s t → R (m.step s i) (sp.step t i))
    (ho : ∀ s t i, valid i → R s t → m.out s i = sp.out t i) :
    ∀ (h : List ι) (s : σ) (t : τ), (∀ x ∈ h, valid x) → R s t → m.trace s h = sp.trace t h := by
  intro h
  induction h with
  | nil => intro s t _ _; rfl
  | cons x xs ih =>
    intro s t hv r
    have hx := hv x (List.mem_cons_self ..)
    have r' := hs s t x hx r
    simp only [Machine.trace]
    rw [ho s t x hx r, ho _ _ x hx r', ih _ _ (fun y hy => hv y (List.mem_cons_of_mem _ hy)) r']

/-! ## the register rule, on the generated `Reg.clock` -/

/-- one edge of `Reg` (generated code + wire mask): reset (== 1) > enable (!= 0) > hold -/
theorem regClk_rule (w : Nat) (rv : Int) (e r : Option Nat) (d : Nat) (s : RegSt) :
    regClk w rv e r d s =
      if r = some 1 then ⟨rv, Bits.put w rv⟩
      else if e = some 0 then ⟨s.value, Bits.put w s.value⟩
      else ⟨(d : Int), d % 2 ^ w⟩ := by
  have c1 : ∀ n : Nat, ((n : Int) = 1) = (n = 1) := by intro n; apply propext; omega
  cases e <;> cases r <;>
    simp [regClk, Gen.Reg.step, Id.run, pure, landed, Py.ofBool, Py.truthy, Bits.put_ofNat, c1] <;>
    repeat' split <;> simp_all [Bits.put_ofNat]

/-- `Reg` from power-up (and already at power-up): the wire `q` shows the reference register's state, for every
    history of enable / reset / data values, every width and every (also negative or oversized) reset value -/
theorem reg_rule (c : RegCfg) : Refines (reg c) (Spec.reg c) (fun _ => True) := by
  apply refines_of_sim _ _ _ (fun s t => s.q = t ∧ Bits.put c.w s.value = t)
  · exact ⟨rfl, rfl⟩
  · intro s t x _ ⟨_, hst⟩
    simp only [reg, Spec.reg, Spec.regNext, regClk_rule]
    repeat' split
    all_goals simp_all [Bits.put_ofNat]
  · intro s t _ _ ⟨h, _⟩; exact h

/-- at power-up the attribute holds the reset value and the wire shows it masked to the width of `q` -/
theorem reg_powerup (c : RegCfg) (i : RegIn) :
    (reg c).out ((reg c).run []) i = Bits.put c.w c.rv ∧ ((reg c).run []).value = c.rv := ⟨rfl, rfl⟩

example : (reg ⟨4, 5, true, true⟩).out ((reg ⟨4, 5, true, true⟩).run []) ⟨0, 0, 0⟩ = 5 := by decide
example : (reg ⟨4, 5, true, true⟩).out ((reg ⟨4, 5, true, true⟩).run [⟨0, 0, 3⟩]) ⟨0, 0, 0⟩ = 5 := by decide
example : (reg ⟨4, 21, true, true⟩).out ((reg ⟨4, 21, true, true⟩).run [⟨1, 0, 3⟩, ⟨1, 1, 9⟩]) ⟨0, 0, 0⟩ = 5 := by decide

/-! ## registers with reset value 0 inside the structural blocks: attribute = wire value -/

def nat (q : Nat) : RegSt := ⟨(q : Int), q⟩

theorem default_nat : (default : RegSt) = nat 0 := rfl
@[simp] theorem nat_q (q : Nat) : (nat q).q = q := rfl

theorem put_zero (w : Nat) : Bits.put w 0 = 0 := by
  have := Bits.put_ofNat w 0
  simpa using this
theorem put_one (w : Nat) : Bits.put w 1 = 1 % 2 ^ w := by
  have := Bits.put_ofNat w 1
  simpa using this

theorem regInit_zero (w : Nat) : regInit w 0 = nat 0 := by simp [regInit, nat, put_zero]

theorem regClk_nat (w : Nat) (e r : Option Nat) (d q : Nat) (hd : d < 2 ^ w) (hq : q < 2 ^ w) :
    regClk w 0 e r d (nat q) = nat (if r = some 1 then 0 else if e = some 0 then q else d) := by
  rw [regClk_rule]
  repeat' split
  all_goals simp_all [nat, Bits.put_ofNat, Nat.mod_eq_of_lt, put_zero]

theorem regNext_lt (w : Nat) (e r : Option Nat) (d q : Nat) (hd : d < 2 ^ w) (hq : q < 2 ^ w) :
    (if r = some 1 then 0 else if e = some 0 then q else d) < 2 ^ w := by
  have := Nat.two_pow_pos w
  repeat' split
  all_goals omega

theorem opt_eq_some (b : Bool) (v k : Nat) : (opt b v = some k) = (b = true ∧ v = k) := by
  cases b <;> simp [opt]

/-! ## small facts about the combinational leaves -/
theorem mux2_eq (rw sel s0 s1 : Nat) : mux2 rw sel s0 s1 = if sel % 2 = 1 then s1 % 2 ^ rw else s0 % 2 ^ rw := rfl
theorem mux2_lt (rw sel s0 s1 : Nat) : mux2 rw sel s0 s1 < 2 ^ rw := by
  rw [mux2_eq]; split <;> exact Nat.mod_lt _ (Nat.two_pow_pos rw)
theorem const_zero (w : Nat) : const w 0 = 0 := by
  simp [const, put_zero]
theorem const_one (w : Nat) : const w 1 = 1 % 2 ^ w := by
  simp [const, put_one]
theorem add_eq (w a b : Nat) : addS w a b = (a + b) % 2 ^ w := by
  simp [addS, addc, const_zero]
theorem or2_one (a b : Nat) : or2 1 a b = if a % 2 = 1 ∨ b % 2 = 1 then 1 else 0 := by
  have ha : a % 2 = 0 ∨ a % 2 = 1 := by omega
  have hb : b % 2 = 0 ∨ b % 2 = 1 := by omega
  have : or2 1 a b = (a % 2 ||| b % 2) := by
    simp [or2, Nat.or_mod_two_pow (n := 1)]
  rw [this]
  rcases ha with ha | ha <;> rcases hb with hb | hb <;> simp [ha, hb]
theorem not1_one (a : Nat) (h : a < 2) : not1 1 a = 1 - a := by
  simp [not1, Nat.mod_eq_of_lt h]
theorem buf_lt (w a : Nat) (h : a < 2 ^ w) : buf w a = a := by simp [buf, Nat.mod_eq_of_lt h]

/-! ## TReg -/
theorem tregClk_nat (e r : Option Nat) (t q : Nat) (hq : q < 2) :
    tregClk e r t (nat q) = nat (if r = some 1 then 0 else if e = some 0 then q else if t % 2 = 1 then 1 - q else q) := by
  have hm : mux2 1 t q (not1 1 q) = if t % 2 = 1 then 1 - q else q := by
    rw [mux2_eq, not1_one q hq]; split <;> (simp; omega)
  unfold tregClk
  simp only [nat_q]
  rw [hm, regClk_nat 1 e r _ q (by split <;> omega) (by omega)]

/-- toggle register: for every history of t / enable / reset values the output is the reference toggle flip-flop -/
theorem treg_refines (c : TRegCfg) : Refines (treg c) (Spec.treg c) (fun _ => True) := by
  apply refines_of_sim _ _ _ (fun s q => s = nat q ∧ q < 2)
  · exact ⟨rfl, show (0 : Nat) < 2 by decide⟩
  · intro s q i _ ⟨hs, hq⟩
    subst hs
    simp only [treg, Spec.treg, tregClk_nat _ _ _ _ hq, opt_eq_some]
    refine ⟨by simp, ?_⟩
    repeat' split
    all_goals omega
  · intro s q i _ ⟨hs, _⟩; subst hs; rfl

example : (treg ⟨true, true⟩).out ((treg ⟨true, true⟩).run [⟨1, 1, 0⟩, ⟨1, 1, 0⟩, ⟨1, 1, 0⟩, ⟨1, 0, 0⟩]) ⟨0, 0, 0⟩ = 1 := by decide

/-! ## Counter, StepUpCounter -/
theorem counterClk_nat (w reset inc step q : Nat) (hq : q < 2 ^ w) :
    counterClk w reset inc step (nat q) = nat (Spec.counterNext w reset inc step q) ∧
    Spec.counterNext w reset inc step q < 2 ^ w := by
  have hp := Nat.two_pow_pos w
  have hlt : Spec.counterNext w reset inc step q < 2 ^ w := by
    unfold Spec.counterNext
    repeat' split
    · exact hp
    · exact Nat.mod_lt _ hp
    · exact hq
  refine ⟨?_, hlt⟩
  unfold counterClk
  simp only [nat_q]
  rw [regClk_nat w _ _ _ q (mux2_lt ..) hq]
  congr 1
  simp only [or2_one, mux2_eq, add_eq, const_zero, Spec.counterNext]
  have hr : reset % 2 = 0 ∨ reset % 2 = 1 := by omega
  have hi : inc % 2 = 0 ∨ inc % 2 = 1 := by omega
  rcases hr with hr | hr <;> rcases hi with hi | hi <;>
    simp [hr, hi]

/-- counter: reset → 0, else inc → +1 wrapping at 2^w, else hold; absent reset = never, absent inc = always -/
theorem counter_refines (c : CounterCfg) (hw : 0 < c.w) : Refines (counter c) (Spec.counter c) (fun _ => True) := by
  have h1 : 1 % 2 ^ c.w = 1 := Nat.mod_eq_of_lt (Nat.one_lt_two_pow (by omega))
  apply refines_of_sim _ _ _ (fun s q => s = nat q ∧ q < 2 ^ c.w)
  · exact ⟨rfl, Nat.two_pow_pos _⟩
  · intro s q i _ ⟨hs, hq⟩
    subst hs
    simp only [counter, Spec.counter, const_zero, const_one, h1]
    have := counterClk_nat c.w (if c.hasReset then i.reset else 0) (if c.hasInc then i.inc else 1) 1 q hq
    exact this
  · intro s q i _ ⟨hs, _⟩; subst hs; rfl

example : (counter ⟨2, true, true⟩).out ((counter ⟨2, true, true⟩).run
    [⟨0, 1⟩, ⟨0, 1⟩, ⟨0, 0⟩, ⟨0, 1⟩, ⟨0, 1⟩, ⟨0, 1⟩]) ⟨0, 0⟩ = 1 := by decide

/-- stepped counter: reset → 0, else inc → +step (the value on the step wire at that edge) wrapping at 2^w, else hold;
    absent reset = never, absent inc (inc=None) = always -/
theorem stepUpCounter_refines (w : Nat) (hasReset hasInc : Bool) :
    Refines (stepUpCounter w hasReset hasInc) (Spec.stepUpCounter w hasReset hasInc) (fun _ => True) := by
  have hc1 : const 1 1 = 1 := by rw [const_one]
  apply refines_of_sim _ _ _ (fun s q => s = nat q ∧ q < 2 ^ w)
  · exact ⟨regInit_zero w, Nat.two_pow_pos _⟩
  · intro s q i _ ⟨hs, hq⟩
    subst hs
    simp only [stepUpCounter, Spec.stepUpCounter, const_zero, hc1]
    exact counterClk_nat w (if hasReset then i.reset else 0) (if hasInc then i.inc else 1) i.step q hq
  · intro s q i _ ⟨hs, _⟩; subst hs; rfl

example : (stepUpCounter 4 true true).out ((stepUpCounter 4 true true).run [⟨0, 1, 5⟩, ⟨0, 1, 5⟩, ⟨0, 1, 7⟩]) ⟨0, 0, 0⟩ = 1 := by decide
example : (stepUpCounter 4 true false).out ((stepUpCounter 4 true false).run [⟨0, 0, 5⟩, ⟨0, 0, 5⟩, ⟨1, 0, 7⟩, ⟨0, 0, 3⟩]) ⟨0, 0, 0⟩ = 3 := by decide

/-! ## EqualConstant (BitsLSBF + Minterm + And ladder) = numeric equality -/
theorem and2_one (a b : Nat) (ha : a < 2) (hb : b < 2) : and2 1 a b = if a = 1 ∧ b = 1 then 1 else 0 := by
  have ha' : a = 0 ∨ a = 1 := by omega
  have hb' : b = 0 ∨ b = 1 := by omega
  rcases ha' with rfl | rfl <;> rcases hb' with rfl | rfl <;> decide

theorem foldl_and (ps : List Nat) : ∀ p, p < 2 → (∀ x ∈ ps, x < 2) →
    ps.foldl (and2 1) p = if p = 1 ∧ ∀ x ∈ ps, x = 1 then 1 else 0 := by
  induction ps with
  | nil => intro p hp _; have : p = 0 ∨ p = 1 := by omega
           rcases this with rfl | rfl <;> simp
  | cons a as ih =>
    intro p hp hall
    have ha : a < 2 := hall a (List.mem_cons_self ..)
    have has : ∀ x ∈ as, x < 2 := fun x hx => hall x (List.mem_cons_of_mem _ hx)
    simp only [List.foldl_cons]
    rw [ih _ (by rw [and2_one p a hp ha]; split <;> omega) has, and2_one p a hp ha]
    by_cases h1 : p = 1 <;> by_cases h2 : a = 1 <;> simp [h1, h2]

theorem andLadder_one (l : List Nat) (hne : l ≠ []) (hall : ∀ x ∈ l, x < 2) :
    andLadder 1 l = if ∀ x ∈ l, x = 1 then 1 else 0 := by
  cases l with
  | nil => exact absurd rfl hne
  | cons p ps =>
    simp only [andLadder]
    rw [foldl_and ps p (hall p (List.mem_cons_self ..)) (fun x hx => hall x (List.mem_cons_of_mem _ hx))]
    simp

theorem bit_eq_iff (a v : Nat) (w : Nat) (ha : a < 2 ^ w) (hv : v < 2 ^ w) :
    (∀ i, i < w → Bits.bit a i = Bits.bit v i) ↔ a = v := by
  constructor
  · intro h
    apply Nat.eq_of_testBit_eq
    intro i
    by_cases hi : i < w
    · have := h i hi
      rw [Bits.bit_eq_testBit, Bits.bit_eq_testBit] at this
      cases h1 : a.testBit i <;> cases h2 : v.testBit i <;> simp_all
    · have hwi : 2 ^ w ≤ 2 ^ i := Nat.pow_le_pow_right (by decide) (by omega)
      rw [Nat.testBit_lt_two_pow (Nat.lt_of_lt_of_le ha hwi), Nat.testBit_lt_two_pow (Nat.lt_of_lt_of_le hv hwi)]
  · intro h _ _; rw [h]

/-- `EqualConstant(a, v, r)` on a `w`-bit `a` and a 1-bit `r`, for a constant that fits: r = 1 exactly when a = v -/
theorem eqConst_spec (w a v : Nat) (hw : 0 < w) (ha : a < 2 ^ w) (hv : v < 2 ^ w) :
    eqConst w 1 a (v : Int) = if a = v then 1 else 0 := by
  unfold eqConst
  by_cases h1 : w = 1
  · subst h1
    have ha' : a = 0 ∨ a = 1 := by omega
    have hv' : v = 0 ∨ v = 1 := by omega
    rcases ha' with rfl | rfl <;> rcases hv' with rfl | rfl <;> decide
  · simp only [h1, if_false]
    have hpart : ∀ i, (if Py.land (Py.shr (v : Int) i) 1 = 0 then not1 1 (Bits.bit a i) else Bits.bit a i) =
        if Bits.bit a i = Bits.bit v i then 1 else 0 := by
      intro i
      rw [Bits.shr_ofNat, Leaf.land_one]
      have hb := Bits.bit_lt a i
      have hc := Bits.bit_lt v i
      have e : ((v >>> i) % 2) = Bits.bit v i := rfl
      rw [e, not1_one _ hb]
      have hb' : Bits.bit a i = 0 ∨ Bits.bit a i = 1 := by omega
      have hc' : Bits.bit v i = 0 ∨ Bits.bit v i = 1 := by omega
      rcases hb' with hb' | hb' <;> rcases hc' with hc' | hc' <;> simp [hb', hc']
    simp only [hpart]
    rw [andLadder_one]
    · have : (∀ x ∈ List.map (fun i => if Bits.bit a i = Bits.bit v i then 1 else 0) (List.range w), x = 1) ↔ a = v := by
        rw [← bit_eq_iff a v w ha hv]
        simp only [List.mem_map, List.mem_range]
        constructor
        · intro h i hi
          have := h _ ⟨i, hi, rfl⟩
          by_cases hh : Bits.bit a i = Bits.bit v i
          · exact hh
          · simp [hh] at this
        · rintro h x ⟨i, hi, rfl⟩
          simp [h i hi]
      by_cases hav : a = v
      · simp [hav]
      · simp only [this, hav, if_false]
    · intro hnil
      have := congrArg List.length hnil
      simp at this; omega
    · intro x hx
      simp only [List.mem_map] at hx
      obtain ⟨i, _, rfl⟩ := hx
      split <;> decide

example : eqConst 3 1 5 5 = 1 ∧ eqConst 3 1 4 5 = 0 ∧ eqConst 1 1 0 0 = 1 := by decide

/-! ## ModuloCounter -/
theorem modCarry_spec (w n q : Nat) (hw : 0 < w) (hn : 0 < n) (hnw : n ≤ 2 ^ w) (hq : q < 2 ^ w) :
    modCarry w (n : Int) q = if q = n - 1 then 1 else 0 := by
  unfold modCarry
  have : ((n : Int) - 1) = ((n - 1 : Nat) : Int) := by omega
  rw [this, eqConst_spec w q (n - 1) hw hq (by omega)]

theorem modClk_nat (w n reset inc q : Nat) (hw : 0 < w) (hn : 0 < n) (hnw : n ≤ 2 ^ w) (hq : q < n) :
    modClk w (n : Int) reset inc (nat q) =
      nat (if reset % 2 = 1 then 0 else if inc % 2 = 1 then (q + 1) % n else q) ∧
    (if reset % 2 = 1 then 0 else if inc % 2 = 1 then (q + 1) % n else q) < n := by
  have hq' : q < 2 ^ w := by omega
  have h1 : 1 % 2 ^ w = 1 := Nat.mod_eq_of_lt (Nat.one_lt_two_pow (by omega))
  have hlt : (if reset % 2 = 1 then 0 else if inc % 2 = 1 then (q + 1) % n else q) < n := by
    repeat' split
    · exact hn
    · exact Nat.mod_lt _ hn
    · exact hq
  refine ⟨?_, hlt⟩
  unfold modClk
  simp only [nat_q]
  rw [regClk_nat w _ _ _ q (mux2_lt ..) hq', modCarry_spec w n q hw hn hnw hq']
  congr 1
  simp only [or2_one, mux2_eq, add_eq, const_zero, const_one, h1]
  have hr : reset % 2 = 0 ∨ reset % 2 = 1 := by omega
  have hi : inc % 2 = 0 ∨ inc % 2 = 1 := by omega
  by_cases hc : q = n - 1
  · have e : (q + 1) % n = 0 := by
      have : q + 1 = n := by omega
      rw [this, Nat.mod_self]
    have e' : (n - 1 + 1) % n = 0 := by
      have : n - 1 + 1 = n := by omega
      rw [this, Nat.mod_self]
    rcases hr with hr | hr <;> rcases hi with hi | hi <;> simp [hr, hi, hc, e']
  · have e : (q + 1) % n = q + 1 := Nat.mod_eq_of_lt (by omega)
    have e2 : (q + 1) % 2 ^ w = q + 1 := Nat.mod_eq_of_lt (by omega)
    rcases hr with hr | hr <;> rcases hi with hi | hi <;> simp [hr, hi, hc, e, e2]

/-- modulo counter, for every modulus 1 ≤ n ≤ 2^w: counts 0 … n-1 cyclically under inc, reset has priority, carry is 1
    exactly while the count is n-1 -/
theorem moduloCounter_refines (w n : Nat) (hw : 0 < w) (hn : 0 < n) (hnw : n ≤ 2 ^ w) :
    Refines (moduloCounter w (n : Int)) (Spec.moduloCounter n) (fun _ => True) := by
  apply refines_of_sim _ _ _ (fun s q => s = nat q ∧ q < n)
  · exact ⟨rfl, hn⟩
  · intro s q i _ ⟨hs, hq⟩
    subst hs
    exact modClk_nat w n i.reset i.inc q hw hn hnw hq
  · intro s q i _ ⟨hs, hq⟩
    subst hs
    simp only [moduloCounter, Spec.moduloCounter, nat_q, modCarry_spec w n q hw hn hnw (by omega)]

example : (moduloCounter 3 5).out ((moduloCounter 3 5).run [⟨0, 1⟩, ⟨0, 1⟩, ⟨0, 1⟩, ⟨0, 1⟩]) ⟨0, 0⟩ = (4, 1) := by decide
example : (moduloCounter 3 5).out ((moduloCounter 3 5).run [⟨0, 1⟩, ⟨0, 1⟩, ⟨0, 1⟩, ⟨0, 1⟩, ⟨0, 1⟩]) ⟨0, 0⟩ = (0, 0) := by decide

/-! ## EdgeDetector -/
/-- edge detector (pos / neg / both): the output compares the input applied now with the input sampled at the last edge -/
theorem edgeDetector_refines (dir : Dir) : Refines (edgeDetector dir) (Spec.edgeDetector dir) (fun a => a < 2) := by
  apply refines_of_sim _ _ _ (fun s p => s = nat p ∧ p < 2)
  · exact ⟨rfl, show (0 : Nat) < 2 by decide⟩
  · intro s p a ha ⟨hs, hp⟩
    subst hs
    simp only [edgeDetector, Spec.edgeDetector]
    rw [regClk_nat 1 none none a p (by omega) (by omega)]
    have : a % 2 = a := Nat.mod_eq_of_lt ha
    simp [this, ha]
  · intro s p a ha ⟨hs, hp⟩
    subst hs
    have ha' : a = 0 ∨ a = 1 := by omega
    have hp' : p = 0 ∨ p = 1 := by omega
    cases dir <;> rcases ha' with rfl | rfl <;> rcases hp' with rfl | rfl <;> decide

example : (edgeDetector .pos).out ((edgeDetector .pos).run [0, 1, 0]) 1 = 1 := by decide
example : (edgeDetector .pos).out ((edgeDetector .pos).run [0, 1, 1]) 1 = 0 := by decide

/-! ## ClockDivider -/
/-- clock divider with its reset, for every n with 1 ≤ n ≤ 2^qw -/
theorem clockDivider_refines (n qw : Nat) (hw : 0 < qw) (hn : 0 < n) (hnw : n ≤ 2 ^ qw) :
    Refines (clockDivider (n : Int) qw) (Spec.clockDivider n) (fun r => r < 2) := by
  apply refines_of_sim _ _ _ (fun s t => s.cnt = nat t.1 ∧ t.1 < n ∧ s.tff = nat t.2 ∧ t.2 < 2)
  · exact ⟨rfl, hn, rfl, show (0 : Nat) < 2 by decide⟩
  · intro s t r hr ⟨h1, h2, h3, h4⟩
    obtain ⟨c, ph⟩ := t
    obtain ⟨cnt, tff⟩ := s
    simp only at h1 h2 h3 h4
    subst h1 h3
    have hc1 : const 1 1 = 1 := by rw [const_one]
    simp only [clockDivider, Spec.clockDivider, hc1, nat_q]
    have hm := modClk_nat qw n r 1 c hw hn hnw h2
    rw [hm.1, tregClk_nat _ _ _ _ h4, modCarry_spec qw n c hw hn hnw (by omega)]
    have hr' : r = 0 ∨ r = 1 := by omega
    by_cases hc : c = n - 1
    · have e : (n - 1 + 1) % n = 0 := by
        have : n - 1 + 1 = n := by omega
        rw [this, Nat.mod_self]
      clear hm
      rcases hr' with rfl | rfl <;> simp [hc, e] <;> omega
    · have e : (c + 1) % n = c + 1 := Nat.mod_eq_of_lt (by omega)
      clear hm
      rcases hr' with rfl | rfl <;> simp [hc, e] <;> omega
  · intro s t r _ ⟨_, _, h3, _⟩
    simp only [clockDivider, Spec.clockDivider, h3, nat_q]

theorem clockDivider_spec_run (n : Nat) (hn : 0 < n) : ∀ (h : List Nat) (c p : Nat), c < n → p < 2 → (∀ x ∈ h, x = 0) →
    h.foldl (Spec.clockDivider n).step (c, p) = ((c + h.length) % n, (p + (c + h.length) / n) % 2) := by
  intro h
  induction h with
  | nil =>
    intro c p hc hp _
    simp [Nat.mod_eq_of_lt hc, Nat.div_eq_of_lt hc, Nat.mod_eq_of_lt hp]
  | cons x xs ih =>
    intro c p hc hp hall
    have hx : x = 0 := hall x (List.mem_cons_self ..)
    have hxs : ∀ y ∈ xs, y = 0 := fun y hy => hall y (List.mem_cons_of_mem _ hy)
    subst hx
    simp only [List.foldl_cons, List.length_cons]
    by_cases hcn : c = n - 1
    · have st : (Spec.clockDivider n).step (c, p) 0 = (0, 1 - p) := by simp [Spec.clockDivider, hcn]
      rw [st, ih 0 (1 - p) hn (by omega) hxs]
      have e : c + (xs.length + 1) = n + xs.length := by omega
      rw [e, Nat.add_mod_left, Nat.add_div_left _ hn]
      simp only [Nat.zero_add]
      congr 1
      omega
    · have st : (Spec.clockDivider n).step (c, p) 0 = (c + 1, p) := by simp [Spec.clockDivider, hcn]
      rw [st, ih (c + 1) p (by omega) hp hxs]
      have e : c + 1 + xs.length = c + (xs.length + 1) := by omega
      rw [e]

/-- with reset low the divided clock after k edges is ⌊k/n⌋ mod 2: it toggles exactly every n edges (first toggle at
    edge n), for every n with 1 ≤ n ≤ 2^qw and every k -/
theorem clockDivider_period (n qw : Nat) (hw : 0 < qw) (hn : 0 < n) (hnw : n ≤ 2 ^ qw) (h : List Nat)
    (hall : ∀ x ∈ h, x = 0) :
    (clockDivider (n : Int) qw).out ((clockDivider (n : Int) qw).run h) 0 = (h.length / n) % 2 := by
  rw [clockDivider_refines n qw hw hn hnw h (fun x hx => by rw [hall x hx]; decide) 0 (by decide)]
  simp only [Machine.run]
  have := clockDivider_spec_run n hn h 0 0 hn (by decide) hall
  simp only [Spec.clockDivider] at this ⊢
  rw [this]
  simp

example : (clockDivider 3 2).out ((clockDivider 3 2).run [0, 0, 0]) 0 = 1 ∧
          (clockDivider 3 2).out ((clockDivider 3 2).run [0, 0, 0, 0, 0]) 0 = 1 ∧
          (clockDivider 3 2).out ((clockDivider 3 2).run [0, 0, 0, 0, 0, 0]) 0 = 0 := by decide

/-! ## AutoReset -/
/-- power-on reset: 1 after the first and the second edge, 0 before and from the third edge on -/
theorem autoReset_pulse : Refines autoReset Spec.autoReset (fun _ => True) := by
  apply refines_of_sim _ _ _ (fun s k => (k = 0 ∧ s = ⟨⟨0⟩, 0⟩) ∨ (k = 1 ∧ s = ⟨⟨1⟩, 1⟩) ∨ (k = 2 ∧ s = ⟨⟨2⟩, 1⟩) ∨
                                        (3 ≤ k ∧ s = ⟨⟨2⟩, 0⟩))
  · exact Or.inl ⟨rfl, rfl⟩
  · intro s k _ _ h
    rcases h with ⟨rfl, rfl⟩ | ⟨rfl, rfl⟩ | ⟨rfl, rfl⟩ | ⟨hk, rfl⟩
    · exact Or.inr (Or.inl ⟨rfl, rfl⟩)
    · exact Or.inr (Or.inr (Or.inl ⟨rfl, rfl⟩))
    · exact Or.inr (Or.inr (Or.inr ⟨show 3 ≤ 2 + 1 by decide, rfl⟩))
    · refine Or.inr (Or.inr (Or.inr ⟨?_, rfl⟩))
      show 3 ≤ k + 1
      omega
  · intro s k _ _ h
    rcases h with ⟨rfl, rfl⟩ | ⟨rfl, rfl⟩ | ⟨rfl, rfl⟩ | ⟨hk, rfl⟩
    · rfl
    · rfl
    · rfl
    · show 0 = if k = 1 ∨ k = 2 then 1 else 0
      have : ¬ (k = 1 ∨ k = 2) := by omega
      simp [this]

/-! ## synchronous memories -/
theorem getD_set (l : List Int) (k a : Nat) (v : Int) (hk : k < l.length) :
    (l.set k v).getD a 0 = if a = k then v else l.getD a 0 := by
  simp only [List.getD_eq_getElem?_getD, List.getElem?_set]
  by_cases h : k = a
  · subst h; simp [hk]
  · have : ¬ a = k := fun e => h e.symm
    simp [h, this]

/-- memory relation: the list of cells is the address → value function on the 2^aw addresses -/
def MemRel (aw : Nat) (data : List Int) (mem : Nat → Nat) : Prop :=
  data.length = 2 ^ aw ∧ ∀ a, a < 2 ^ aw → data.getD a 0 = (mem a : Int)

theorem memRel_init (aw : Nat) : MemRel aw (List.replicate (2 ^ aw) 0) (fun _ => 0) := by
  refine ⟨by simp, ?_⟩
  intro a ha
  simp [List.getD_eq_getElem?_getD, ha]

theorem memRel_write (aw : Nat) (data : List Int) (mem : Nat → Nat) (wa wd : Nat) (h : MemRel aw data mem)
    (hwa : wa < 2 ^ aw) :
    MemRel aw (Py.lset data (wa : Int) (wd : Int)) (fun a => if a = wa then wd else mem a) := by
  obtain ⟨hl, hm⟩ := h
  refine ⟨by simp [Py.lset, hl], ?_⟩
  intro a ha
  simp only [Py.lset, Int.toNat_natCast]
  rw [getD_set _ _ _ _ (by omega)]
  split
  · rfl
  · exact hm a ha

theorem memRel_read (aw dw : Nat) (data : List Int) (mem : Nat → Nat) (ra : Nat) (h : MemRel aw data mem)
    (hra : ra < 2 ^ aw) : Bits.put dw (Py.lget data (ra : Int)) = mem ra % 2 ^ dw := by
  simp only [Py.lget, Int.toNat_natCast]
  rw [h.2 ra hra, Bits.put_ofNat]

/-- synchronous memory (generated `clock`), every address width and data width, every history of in-range addresses:
    the value read at an edge is the content BEFORE the write of the same edge; a write is visible from the next edge -/
theorem syncMem_read_before_write (aw dw : Nat) :
    Refines (syncMem aw dw) (Spec.syncMem dw) (fun i => i.ra < 2 ^ aw ∧ i.wa < 2 ^ aw) := by
  apply refines_of_sim _ _ _ (fun s t => MemRel aw s.data t.mem ∧ s.readdata = t.readdata)
  · exact ⟨memRel_init aw, rfl⟩
  · intro s t i ⟨hra, hwa⟩ ⟨hm, _⟩
    have hrd := memRel_read aw dw s.data t.mem i.ra hm hra
    by_cases hwe : i.we = 0
    · simp [syncMem, Spec.syncMem, memClk, Gen.SynchronousMemory.step, Id.run, pure, Py.truthy, landed, hwe, hrd, hm]
    · have hw := memRel_write aw s.data t.mem i.wa i.wd hm hwa
      simp [syncMem, Spec.syncMem, memClk, Gen.SynchronousMemory.step, Id.run, pure, Py.truthy, landed, hwe, hrd, hw]
  · intro s t i _ ⟨_, h⟩; exact h

-- write 7 to cell 1 while reading cell 1: the read shows the old 0; the next read shows 7
example : (syncMem 2 4).out ((syncMem 2 4).run [⟨1, 1, 1, 7⟩]) ⟨0, 0, 0, 0⟩ = 0 ∧
          (syncMem 2 4).out ((syncMem 2 4).run [⟨1, 1, 1, 7⟩, ⟨1, 0, 0, 0⟩]) ⟨0, 0, 0, 0⟩ = 7 := by decide

/-- DualPortSynchronousMemory (generated `clock`, repo ≥ 942d9ca), every address and data width, every history of
    in-range addresses: both ports read the content BEFORE the edge (no port sees a same-edge write of either port),
    writes are visible from the next edge, port b's write wins on an address collision.
    (The code before 942d9ca raised AttributeError on every first edge: notes/C09.md.) -/
theorem dualPort_read_before_write (aw dw : Nat) :
    Refines (dualPort aw dw) (Spec.dualPort dw)
      (fun i => i.a.ra < 2 ^ aw ∧ i.a.wa < 2 ^ aw ∧ i.b.ra < 2 ^ aw ∧ i.b.wa < 2 ^ aw) := by
  apply refines_of_sim _ _ _ (fun s t => MemRel aw s.data t.mem ∧ s.rda = t.rda ∧ s.rdb = t.rdb)
  · exact ⟨memRel_init aw, rfl, rfl⟩
  · intro s t i ⟨h1, h2, h3, h4⟩ ⟨hm, _, _⟩
    have ra := memRel_read aw dw s.data t.mem i.a.ra hm h1
    have rb := memRel_read aw dw s.data t.mem i.b.ra hm h3
    by_cases ha : i.a.we = 0 <;> by_cases hb : i.b.we = 0
    · simp [dualPort, Spec.dualPort, dualPortClk, Gen.DualPortSynchronousMemory.step, Id.run, pure, Py.truthy, landed,
        ha, hb, ra, rb, hm]
    · have hw := memRel_write aw _ _ _ i.b.wd hm h4
      simp [dualPort, Spec.dualPort, dualPortClk, Gen.DualPortSynchronousMemory.step, Id.run, pure, Py.truthy, landed,
        ha, hb, ra, rb, hw]
    · have hw := memRel_write aw _ _ _ i.a.wd hm h2
      simp [dualPort, Spec.dualPort, dualPortClk, Gen.DualPortSynchronousMemory.step, Id.run, pure, Py.truthy, landed,
        ha, hb, ra, rb, hw]
    · have hw := memRel_write aw _ _ _ i.b.wd (memRel_write aw _ _ _ i.a.wd hm h2) h4
      simp [dualPort, Spec.dualPort, dualPortClk, Gen.DualPortSynchronousMemory.step, Id.run, pure, Py.truthy, landed,
        ha, hb, ra, rb, hw]
  · intro s t i _ ⟨_, h1, h2⟩
    simp [dualPort, Spec.dualPort, h1, h2]

-- port a writes 7 to cell 1 while port b reads cell 1 (old 0); both then read cell 1 after port b also wrote 5 there
example : (dualPort 1 4).out ((dualPort 1 4).run [⟨⟨0, 1, 1, 7⟩, ⟨1, 0, 0, 0⟩⟩]) ⟨⟨0, 0, 0, 0⟩, ⟨0, 0, 0, 0⟩⟩ = (0, 0) := by decide
example : (dualPort 1 4).out ((dualPort 1 4).run [⟨⟨0, 1, 1, 7⟩, ⟨1, 1, 1, 5⟩⟩, ⟨⟨1, 0, 0, 0⟩, ⟨1, 0, 0, 0⟩⟩])
    ⟨⟨0, 0, 0, 0⟩, ⟨0, 0, 0, 0⟩⟩ = (5, 5) := by decide

/-! ## DelayLine -/
theorem chainClk_nat (w : Nat) (e r : Option Nat) : ∀ (l : List Nat) (last : Nat), last < 2 ^ w → (∀ x ∈ l, x < 2 ^ w) →
    chainClk w e r last (l.map nat) =
      (if r = some 1 then List.replicate l.length 0 else if e = some 0 then l else (last :: l).take l.length).map nat := by
  intro l
  induction l with
  | nil => intro last _ _; repeat' split
           all_goals simp [chainClk]
  | cons x xs ih =>
    intro last hl hall
    have hx : x < 2 ^ w := hall x (List.mem_cons_self ..)
    have hxs : ∀ y ∈ xs, y < 2 ^ w := fun y hy => hall y (List.mem_cons_of_mem _ hy)
    simp only [List.map_cons, chainClk, nat_q]
    rw [ih x hx hxs, regClk_nat w e r last x hl hx]
    by_cases h1 : r = some 1
    · simp [h1, List.replicate_succ]
    · by_cases h2 : e = some 0
      · simp [h1, h2]
      · simp [h1, h2, List.take_succ_cons]

theorem chainLast_nat : ∀ (l : List Nat) (a : Nat), chainLast a (l.map nat) = l.getLast?.getD a := by
  intro l
  induction l with
  | nil => intro a; rfl
  | cons x xs ih =>
    intro a
    simp only [List.map_cons, chainLast, nat_q]
    rw [ih x]
    cases xs with
    | nil => rfl
    | cons y ys =>
      rw [List.getLast?_cons_cons]
      cases h : (y :: ys).getLast? with
      | none => simp at h
      | some v => rfl

/-- delay line of `delay` registers with optional enable and reset, every width and delay (0 included): a shift
    register that takes the input at every enabled edge; the output is its oldest cell -/
theorem delayLine_refines (c : DelayCfg) : Refines (delayLine c) (Spec.delayLine c) (fun i => i.a < 2 ^ c.w) := by
  apply refines_of_sim _ _ _ (fun s l => s = l.map nat ∧ l.length = c.delay ∧ ∀ x ∈ l, x < 2 ^ c.w)
  · refine ⟨by simp [delayLine, Spec.delayLine, regInit_zero], by simp [Spec.delayLine], ?_⟩
    intro x hx
    simp only [Spec.delayLine, List.mem_replicate] at hx
    rw [hx.2]; exact Nat.two_pow_pos _
  · intro s l i hi ⟨hs, hlen, hall⟩
    subst hs
    simp only [delayLine, Spec.delayLine]
    rw [chainClk_nat c.w _ _ l i.a hi hall]
    simp only [opt_eq_some, hlen, Nat.mod_eq_of_lt hi]
    refine ⟨?_, ?_, ?_⟩
    · first | rfl | trivial
    · repeat' split
      · simp
      · exact hlen
      · simp [List.length_take]; omega
    · intro x hx
      repeat' split at hx
      · simp only [List.mem_replicate] at hx; rw [hx.2]; exact Nat.two_pow_pos _
      · exact hall x hx
      · have := List.mem_of_mem_take hx
        rcases List.mem_cons.mp this with rfl | h
        · exact hi
        · exact hall x h
  · intro s l i hi ⟨hs, _, _⟩
    subst hs
    simp only [delayLine, Spec.delayLine, chainLast_nat, buf]

example : (delayLine ⟨4, 2, true, true⟩).out ((delayLine ⟨4, 2, true, true⟩).run
    [⟨3, 1, 0⟩, ⟨4, 1, 0⟩, ⟨5, 0, 0⟩, ⟨6, 1, 0⟩]) ⟨0, 0, 0⟩ = 4 := by decide

theorem take_append_take (n : Nat) (A B : List Nat) : (A ++ B.take n).take n = (A ++ B).take n := by
  rw [List.take_append, List.take_append, List.take_take]
  congr 2
  omega

/-- without reset and always enabled: after the history `h` the cells hold the last `delay` inputs, newest first,
    zeros before power-up — so the output is the input applied `delay` edges earlier (0 for the first `delay` edges) -/
theorem delayLine_delay (c : DelayCfg) (hr : c.hasReset = false) (he : c.hasEn = false) (h : List DelayIn)
    (hv : ∀ x ∈ h, x.a < 2 ^ c.w) (i : DelayIn) (hi : i.a < 2 ^ c.w) :
    (delayLine c).out ((delayLine c).run h) i =
      (((h.reverse.map DelayIn.a) ++ List.replicate c.delay 0).take c.delay).getLast?.getD i.a % 2 ^ c.w := by
  rw [delayLine_refines c h hv i hi]
  have run : ∀ (h : List DelayIn) (l : List Nat), (∀ x ∈ h, x.a < 2 ^ c.w) →
      h.foldl (Spec.delayLine c).step l = ((h.reverse.map DelayIn.a) ++ l).take c.delay ∨ ¬ l.length = c.delay := by
    intro h
    induction h with
    | nil => intro l _
             by_cases hl : l.length = c.delay
             · left; simp [← hl]
             · right; exact hl
    | cons x xs ih =>
      intro l hv
      by_cases hl : l.length = c.delay
      · left
        have hx := hv x (List.mem_cons_self ..)
        have st : (Spec.delayLine c).step l x = (x.a :: l).take c.delay := by
          simp [Spec.delayLine, hr, he, Nat.mod_eq_of_lt hx]
        simp only [List.foldl_cons, st]
        rcases ih ((x.a :: l).take c.delay) (fun y hy => hv y (List.mem_cons_of_mem _ hy)) with h1 | h1
        · rw [h1, take_append_take]
          simp
        · exfalso; apply h1; simp [List.length_take]; omega
      · right; exact hl
  rcases run h (List.replicate c.delay 0) hv with h1 | h1
  · simp only [Machine.run, Spec.delayLine] at h1 ⊢
    rw [h1]
  · exfalso; apply h1; simp

/-! ## PipelinePhase -/
/-- lane-wise `value < 2^width`, same number of lanes -/
inductive Fits : List Nat → List Nat → Prop
  | nil : Fits [] []
  | cons {w x : Nat} {ws l : List Nat} : x < 2 ^ w → Fits ws l → Fits (w :: ws) (x :: l)

theorem pipeClk_nat (reset : Nat) : ∀ (ws ds l : List Nat), Fits ws ds → Fits ws l →
    pipeClk reset ws ds (l.map nat) =
      (if reset = 1 then ws.map (fun _ => 0) else List.zipWith (fun w d => d % 2 ^ w) ws ds).map nat ∧
    Fits ws (if reset = 1 then ws.map (fun _ => 0) else List.zipWith (fun w d => d % 2 ^ w) ws ds) := by
  intro ws
  induction ws with
  | nil =>
    intro ds l hd hl
    cases hd; cases hl
    split <;> simp [pipeClk] <;> exact Fits.nil
  | cons w ws ih =>
    intro ds l hd hl
    cases hd with
    | cons hd0 hds =>
      cases hl with
      | cons hl0 hls =>
        rename_i d ds' x l'
        have := ih ds' l' hds hls
        simp only [List.map_cons, pipeClk]
        rw [this.1, regClk_nat w none (some reset) d x hd0 hl0]
        by_cases hr : reset = 1
        · simp only [hr, if_true, List.map_cons] at this ⊢
          exact ⟨by simp, Fits.cons (Nat.two_pow_pos w) this.2⟩
        · simp only [hr, if_false, List.zipWith_cons_cons, List.map_cons] at this ⊢
          refine ⟨by simp [hr, Nat.mod_eq_of_lt hd0], Fits.cons (Nat.mod_lt _ (Nat.two_pow_pos w)) this.2⟩

/-- pipeline stage: every lane is a register with the common reset, for every number of lanes and every lane width -/
theorem pipelinePhase_refines (ws : List Nat) :
    Refines (pipelinePhase ws) (Spec.pipelinePhase ws) (fun i => Fits ws i.ins) := by
  apply refines_of_sim _ _ _ (fun s l => s = l.map nat ∧ Fits ws l)
  · refine ⟨by simp [pipelinePhase, Spec.pipelinePhase, regInit_zero], ?_⟩
    simp only [Spec.pipelinePhase]
    induction ws with
    | nil => exact Fits.nil
    | cons w ws ih => exact Fits.cons (Nat.two_pow_pos w) ih
  · intro s l i hi ⟨hs, hl⟩
    subst hs
    exact pipeClk_nat i.reset ws i.ins l hi hl
  · intro s l i _ ⟨hs, _⟩
    subst hs
    simp [pipelinePhase, Spec.pipelinePhase, Function.comp_def]

example : (pipelinePhase [2, 4]).out ((pipelinePhase [2, 4]).run [⟨0, [3, 9]⟩, ⟨1, [1, 1]⟩, ⟨0, [2, 15]⟩]) ⟨0, []⟩ = [2, 15] := by decide

/-! ## ShiftRegisterBidirectional and Stack_ShiftRegister -/

theorem getD_map_nat (l : List Nat) (k : Nat) : (l.map nat).getD k default = nat (l.getD k 0) := by
  simp only [List.getD_eq_getElem?_getD, List.getElem?_map]
  cases l[k]? <;> rfl

theorem getD_lt (w : Nat) (l : List Nat) (hall : ∀ x ∈ l, x < 2 ^ w) (k : Nat) : l.getD k 0 < 2 ^ w := by
  simp only [List.getD_eq_getElem?_getD]
  cases h : l[k]? with
  | none => exact Nat.two_pow_pos w
  | some v => exact hall v (List.mem_of_getElem? h)

theorem srb_elem (w depth : Nat) (i : SrbIn) (l : List Nat) (hd : 0 < depth) (hlen : l.length = depth)
    (hall : ∀ x ∈ l, x < 2 ^ w) (k : Nat) (hk : k < depth) :
    ((Spec.shiftRegBidir w depth).step l i)[k]? =
      some (if or2 1 i.shiftLeft i.shiftRight = 0 then l.getD k 0
            else mux2 w i.shiftLeft (if k = 0 then i.leftIn else l.getD (k - 1) 0)
                   (if k = depth - 1 then i.rightIn else l.getD (k + 1) 0)) := by
  have hsl : i.shiftLeft % 2 = 0 ∨ i.shiftLeft % 2 = 1 := by omega
  have hsr : i.shiftRight % 2 = 0 ∨ i.shiftRight % 2 = 1 := by omega
  simp only [Spec.shiftRegBidir, or2_one, mux2_eq]
  rcases hsl with hsl | hsl
  · rcases hsr with hsr | hsr
    · simp [hsl, hsr, List.getD_eq_getElem?_getD]
      have : k < l.length := by omega
      simp [List.getElem?_eq_getElem this]
    · simp [hsl, hsr, hk, List.getElem?_cons]
      by_cases h0 : k = 0
      · simp [h0]
      · simp [h0]
        have : k - 1 < l.length := by omega
        simp [List.getElem?_eq_getElem this]
        exact (Nat.mod_eq_of_lt (hall _ (List.getElem_mem _))).symm
  · simp [hsl, List.getElem?_append, List.length_tail, hlen]
    by_cases hl : k = depth - 1
    · have : ¬ k < depth - 1 := by omega
      simp [hl]
    · have h1 : k < depth - 1 := by omega
      have h2 : k + 1 < l.length := by omega
      simp [hl, h1, List.getElem?_eq_getElem h2]
      exact (Nat.mod_eq_of_lt (hall _ (List.getElem_mem _))).symm

theorem srb_step_len (w depth : Nat) (i : SrbIn) (l : List Nat) (hd : 0 < depth) (hlen : l.length = depth) :
    ((Spec.shiftRegBidir w depth).step l i).length = depth := by
  simp only [Spec.shiftRegBidir]
  repeat' split
  · simp [List.length_tail, hlen]; omega
  · simp [List.length_take, hlen]
  · exact hlen

theorem srb_step_lt (w depth : Nat) (i : SrbIn) (l : List Nat) (hall : ∀ x ∈ l, x < 2 ^ w) :
    ∀ x ∈ (Spec.shiftRegBidir w depth).step l i, x < 2 ^ w := by
  intro x hx
  simp only [Spec.shiftRegBidir] at hx
  repeat' split at hx
  · rcases List.mem_append.mp hx with h | h
    · exact hall x (List.mem_of_mem_tail h)
    · simp at h; rw [h]; exact Nat.mod_lt _ (Nat.two_pow_pos w)
  · rcases List.mem_cons.mp (List.mem_of_mem_take hx) with h | h
    · rw [h]; exact Nat.mod_lt _ (Nat.two_pow_pos w)
    · exact hall x h
  · exact hall x hx

theorem srbClk_nat (w depth : Nat) (i : SrbIn) (l : List Nat) (hd : 0 < depth) (hlen : l.length = depth)
    (hall : ∀ x ∈ l, x < 2 ^ w) :
    srbClk w depth i (l.map nat) = ((Spec.shiftRegBidir w depth).step l i).map nat := by
  apply List.ext_getElem?
  intro k
  by_cases hk : k < depth
  · simp only [srbClk, List.getElem?_map, List.getElem?_range hk, Option.map_some, qAt, getD_map_nat, nat_q]
    rw [srb_elem w depth i l hd hlen hall k hk, regClk_nat w _ _ _ _ (mux2_lt ..) (getD_lt w l hall k)]
    simp
  · have h1 : (srbClk w depth i (l.map nat)).length = depth := by simp [srbClk]
    have h2 : (((Spec.shiftRegBidir w depth).step l i).map nat).length = depth := by
      simp [srb_step_len w depth i l hd hlen]
    rw [List.getElem?_eq_none (by omega), List.getElem?_eq_none (by omega)]

/-- bidirectional shift register, every width and depth ≥ 1: shift-left (priority) drops the left end and takes
    right_in, shift-right drops the right end and takes left_in, else hold; the outputs are the two ends -/
theorem shiftRegBidir_refines (w depth : Nat) (hd : 0 < depth) :
    Refines (shiftRegBidir w depth) (Spec.shiftRegBidir w depth) (fun _ => True) := by
  apply refines_of_sim _ _ _ (fun s l => s = l.map nat ∧ l.length = depth ∧ ∀ x ∈ l, x < 2 ^ w)
  · refine ⟨by simp [shiftRegBidir, Spec.shiftRegBidir, regInit_zero], by simp [Spec.shiftRegBidir], ?_⟩
    intro x hx
    simp only [Spec.shiftRegBidir, List.mem_replicate] at hx
    rw [hx.2]; exact Nat.two_pow_pos _
  · intro s l i _ ⟨hs, hlen, hall⟩
    subst hs
    exact ⟨srbClk_nat w depth i l hd hlen hall, srb_step_len w depth i l hd hlen, srb_step_lt w depth i l hall⟩
  · intro s l i _ ⟨hs, hlen, hall⟩
    subst hs
    simp only [shiftRegBidir, Spec.shiftRegBidir, qAt, getD_map_nat, nat_q]
    rw [buf_lt w _ (getD_lt w l hall 0), buf_lt w _ (getD_lt w l hall (depth - 1))]
    congr 1
    · cases l <;> rfl
    · rw [List.getLast?_eq_getElem?, hlen, List.getD_eq_getElem?_getD]

example : (shiftRegBidir 4 3).out ((shiftRegBidir 4 3).run [⟨1, 9, 0, 1⟩, ⟨2, 9, 0, 1⟩, ⟨3, 9, 1, 0⟩]) ⟨0, 0, 0, 0⟩ = (1, 9) := by decide

/-- the shift register seen as a stack: the stack content (top first) padded with zeros -/
def pad (depth : Nat) (stk : List Nat) : List Nat := stk ++ List.replicate (depth - stk.length) 0

theorem pad_pop (depth : Nat) (stk : List Nat) (hd : 0 < depth) (hl : stk.length ≤ depth) :
    (pad depth stk).tail ++ [0] = pad depth stk.tail := by
  cases stk with
  | nil =>
    obtain ⟨d, rfl⟩ : ∃ d, depth = d + 1 := ⟨depth - 1, by omega⟩
    simp only [pad, List.nil_append, List.length_nil, Nat.sub_zero, List.tail_nil]
    rw [List.replicate_succ, List.tail_cons, ← List.replicate_succ', List.replicate_succ]
  | cons x xs =>
    simp only [List.length_cons] at hl
    obtain ⟨d, hd'⟩ : ∃ d, depth - xs.length = d + 1 := ⟨depth - xs.length - 1, by omega⟩
    have : depth - (xs.length + 1) = d := by omega
    simp [pad, this, hd', List.replicate_succ']

theorem pad_push (depth : Nat) (stk : List Nat) (x : Nat) (hl : stk.length < depth) :
    (x :: pad depth stk).take depth = pad depth (x :: stk) := by
  obtain ⟨d, rfl⟩ : ∃ d, depth = d + 1 := ⟨depth - 1, by omega⟩
  simp only [pad, List.take_succ_cons, List.length_cons, List.cons_append]
  congr 1
  rw [List.take_append]
  have h1 : List.take d stk = stk := List.take_of_length_le (by omega)
  rw [h1, List.take_replicate]
  congr 2
  omega

theorem pad_len (depth : Nat) (stk : List Nat) (hl : stk.length ≤ depth) : (pad depth stk).length = depth := by
  simp [pad]; omega

theorem pad_lt (w depth : Nat) (stk : List Nat) (hall : ∀ x ∈ stk, x < 2 ^ w) : ∀ x ∈ pad depth stk, x < 2 ^ w := by
  intro x hx
  rcases List.mem_append.mp hx with h | h
  · exact hall x h
  · simp only [List.mem_replicate] at h; rw [h.2]; exact Nat.two_pow_pos w

def StackRel (w depth : Nat) (s : StackSt) (t : Spec.StackSt) : Prop :=
  s.sr = (pad depth t.stk).map nat ∧ t.stk.length ≤ depth ∧ (∀ x ∈ t.stk, x < 2 ^ w) ∧ s.dout = nat t.dout ∧ t.dout < 2 ^ w

theorem stack_step (w depth : Nat) (hd : 0 < depth) (s : StackSt) (t : Spec.StackSt) (i : StackIn)
    (hpush : i.push < 2) (hpop : i.pop < 2) (hdin : i.din < 2 ^ w)
    (hroom : i.pop % 2 = 1 ∨ i.push % 2 ≠ 1 ∨ t.stk.length < depth) (hR : StackRel w depth s t) :
    StackRel w depth ((stack w depth).step s i) ((Spec.stack w).step t i) := by
  obtain ⟨hsr, hlen, hall, hdo, hdl⟩ := hR
  have hpl := pad_len depth t.stk hlen
  have hpa := pad_lt w depth t.stk hall
  have hsr' := srbClk_nat w depth ⟨i.din, 0, i.pop, i.push⟩ (pad depth t.stk) hd hpl hpa
  have htop : buf w (qAt ((pad depth t.stk).map nat) 0) = t.stk.headD 0 := by
    rw [qAt, getD_map_nat, nat_q, buf_lt w _ (getD_lt w _ hpa 0)]
    cases h : t.stk with
    | nil => simp [pad, List.getD_eq_getElem?_getD, hd]
    | cons x xs => simp [pad]
  have htl : t.stk.headD 0 < 2 ^ w := by
    cases h : t.stk with
    | nil => exact Nat.two_pow_pos w
    | cons x xs => rw [h] at hall; exact hall x (List.mem_cons_self ..)
  simp only [stack, Spec.stack, const_zero, hsr, hdo, hsr', htop]
  rw [regClk_nat w _ _ _ _ htl hdl]
  simp only [Spec.shiftRegBidir]
  have hp : i.pop = 0 ∨ i.pop = 1 := by omega
  have hq : i.push = 0 ∨ i.push = 1 := by omega
  rcases hp with hp | hp
  · rcases hq with hq | hq
    · simp only [hp, hq]
      exact ⟨rfl, hlen, hall, rfl, hdl⟩
    · have hroom' : t.stk.length < depth := by
        rcases hroom with h | h | h
        · rw [hp] at h; simp at h
        · rw [hq] at h; simp at h
        · exact h
      simp only [hp, hq, Nat.mod_eq_of_lt hdin]
      refine ⟨by simp [pad_push depth t.stk i.din hroom'], by simp; omega, ?_, by simp, hdl⟩
      intro x hx
      rcases List.mem_cons.mp hx with rfl | h
      · exact hdin
      · exact hall x h
  · simp only [hp]
    refine ⟨by simp [pad_pop depth t.stk hd hlen], by simp; omega, ?_, by simp, htl⟩
    intro x hx
    exact hall x (List.mem_of_mem_tail hx)

theorem stack_sim (w depth : Nat) (hd : 0 < depth) : ∀ (h : List StackIn) (s : StackSt) (t : Spec.StackSt) (stk' : List Nat),
    StackRel w depth s t → stk'.length = t.stk.length →
    (∀ x ∈ h, x.push < 2 ∧ x.pop < 2 ∧ x.din < 2 ^ w) → Spec.stackWithin depth stk' h = true →
    StackRel w depth (h.foldl (stack w depth).step s) (h.foldl (Spec.stack w).step t) := by
  intro h
  induction h with
  | nil => intro s t _ hR _ _ _; exact hR
  | cons x xs ih =>
    intro s t stk' hR hl hv hw
    obtain ⟨h1, h2, h3⟩ := hv x (List.mem_cons_self ..)
    have hvs : ∀ y ∈ xs, y.push < 2 ∧ y.pop < 2 ∧ y.din < 2 ^ w := fun y hy => hv y (List.mem_cons_of_mem _ hy)
    simp only [List.foldl_cons]
    simp only [Spec.stackWithin] at hw
    by_cases hp : x.pop % 2 = 1
    · simp only [hp, if_true] at hw
      refine ih _ _ stk'.tail (stack_step w depth hd s t x h1 h2 h3 (Or.inl hp) hR) ?_ hvs hw
      simp [Spec.stack, hp, hl]
    · by_cases hq : x.push % 2 = 1
      · simp only [hp, hq, if_true, if_false, Bool.and_eq_true, decide_eq_true_eq] at hw
        refine ih _ _ (x.din :: stk') (stack_step w depth hd s t x h1 h2 h3 (Or.inr (Or.inr (by omega))) hR) ?_ hvs hw.2
        simp [Spec.stack, hp, hq, hl]
      · simp only [hp, hq, if_false] at hw
        refine ih _ _ stk' (stack_step w depth hd s t x h1 h2 h3 (Or.inr (Or.inl hq)) hR) ?_ hvs hw
        simp [Spec.stack, hp, hq, hl]

/-- shift-register stack, every width and depth ≥ 1: for every push/pop history that never pushes onto a full stack,
    the output register shows what an (unbounded) list stack pops — last in, first out; pop has priority over push and
    popping the empty stack gives 0 -/
theorem stack_lifo (w depth : Nat) (hd : 0 < depth) (h : List StackIn)
    (hv : ∀ x ∈ h, x.push < 2 ∧ x.pop < 2 ∧ x.din < 2 ^ w) (hw : Spec.stackWithin depth [] h = true) (i : StackIn) :
    (stack w depth).out ((stack w depth).run h) i = (Spec.stack w).out ((Spec.stack w).run h) i := by
  have h0 : StackRel w depth (stack w depth).init (Spec.stack w).init := by
    refine ⟨by simp [stack, Spec.stack, pad, regInit_zero], by simp [Spec.stack], by simp [Spec.stack], rfl, Nat.two_pow_pos w⟩
  have := stack_sim w depth hd h _ _ [] h0 rfl hv hw
  simp only [stack, Spec.stack, Machine.run] at this ⊢
  rw [this.2.2.2.1]; rfl

-- push 5, push 6, pop, pop on a depth-3 stack: 6 then 5
example : (stack 4 3).out ((stack 4 3).run [⟨5, 1, 0⟩, ⟨6, 1, 0⟩, ⟨0, 0, 1⟩]) ⟨0, 0, 0⟩ = 6 ∧
          (stack 4 3).out ((stack 4 3).run [⟨5, 1, 0⟩, ⟨6, 1, 0⟩, ⟨0, 0, 1⟩, ⟨0, 0, 1⟩]) ⟨0, 0, 0⟩ = 5 ∧
          Spec.stackWithin 3 [] [⟨5, 1, 0⟩, ⟨6, 1, 0⟩, ⟨0, 0, 1⟩, ⟨0, 0, 1⟩] = true := by decide


/-- bridge: the generated `BitsLSBF.propagate` produces the bits `Bits.bit a i` that `eqConst` is written over -/
theorem gen_bitsLSBF (w a : Nat) :
    (Gen.BitsLSBF.step ⟨(w : Int)⟩ ⟨⟩ ⟨(a : Int)⟩ ⟨⟩).2.ol_bits =
      some ((List.range w).map fun i => ((Bits.bit a i : Nat) : Int)) := by
  simp only [Gen.BitsLSBF.step, Id.run, pure, Int.toNat_natCast, Int.toNat_zero, Nat.sub_zero]
  congr 1
  rw [List.range_eq_range']
  apply List.map_congr_left
  intro i _
  simp only [Py.shrT, Int.ofNat_eq_natCast, Int.toNat_natCast]
  rw [Bits.shr_ofNat, Leaf.land_one]
  rfl

/-! ## specimen: flattened netlist under the simulator model = functional model (EdgeDetector 'pos') -/
section NetSpecimen
open Net

theorem wput (w : Nat) (v : Int) : (Gen.Wire.put (w : Int) v).toNat = Bits.put w v := by
  have : Gen.Wire.put (w : Int) v = ((Bits.put w v : Nat) : Int) := by
    simp only [Gen.Wire.put, Id.run, pure, Py.shlT, Int.toNat_natCast]
    rw [Bits.put_eq_land]
  rw [this]; simp
def nolf : LeafSem Int := { prop := fun _ s => (s, []), clock := fun _ s => (s, []) }
def edReg : LeafSem Int :=
  { prop := fun _ s => (s, []),
    clock := fun v s =>
      let o := Gen.Reg.step { a_reset_value := 0, has_e := false, has_r := false } ⟨s⟩ { e := 0, r := 0, d := (v 1 : Int) } ⟨⟩
      (o.1.value, [(3, o.2.q.getD 0)]) }
def edNot : LeafSem Int :=
  { prop := fun v s => (s, [(4, (Gen.Not.step ⟨⟩ ⟨⟩ ⟨(v 3 : Int)⟩ ⟨⟩).2.r.getD 0)]), clock := fun _ s => (s, []) }
def edAnd : LeafSem Int :=
  { prop := fun v s => (s, [(2, (Gen.And2.step ⟨⟩ ⟨⟩ ⟨(v 1 : Int), (v 4 : Int)⟩ ⟨⟩).2.r.getD 0)]), clock := fun _ s => (s, []) }

/-- the flattened netlist of `EdgeDetector(a, r, 'pos')` as the simulator sees it, running the GENERATED leaves.
    wires: 1 = a, 2 = r, 3 = z1, 4 = nz1 (all 1 bit); leaves: 0 = Reg z1, 1 = Not nz1, 2 = And2 r; leaf state = Reg.value -/
def edNet : Design Int :=
  { width := fun _ => 1,
    leaf := fun k => if k = 0 then edReg else if k = 1 then edNot else if k = 2 then edAnd else nolf,
    order := [1, 2], drivers := [{ enable := none, clockables := [0] }] }

theorem ed_putW (s : State Int) (w : Nat) (v : Int) : putW edNet s (w, v) = { s with val := upd s.val w (Bits.put 1 v) } := by
  simp only [putW, edNet]
  rw [show ((1 : Nat) : Int) = (1 : Int) from rfl] at *
  congr 2
  exact wput 1 v

theorem ed_prop (s : State Int) :
    propagateAll edNet s =
      { s with val := upd (upd s.val 4 (not1 1 (s.val 3))) 2 (and2 1 (s.val 1) (not1 1 (s.val 3))),
               st := upd (upd s.st 1 (s.st 1)) 2 (s.st 2) } := by
  have l1 : edNet.leaf 1 = edNot := rfl
  have l2 : edNet.leaf 2 = edAnd := rfl
  simp only [propagateAll, show edNet.order = [1, 2] from rfl, List.foldl_cons, List.foldl_nil, propLeaf, l1, l2,
    edNot, edAnd, ed_putW]
  have hn := Leaf.gen_not 1 (s.val 3)
  simp only [landed] at hn
  simp only [hn, upd]
  have ha := Leaf.gen_and2 1 (s.val 1) (not1 1 (s.val 3))
  simp only [landed] at ha
  simp [ha]

theorem ed_prepW (s : State Int) (w : Nat) (v : Int) :
    prepW edNet s (w, v) = { s with nxt := upd s.nxt w (Bits.put 1 v), prepared := s.prepared ++ [w] } := by
  simp only [prepW, Net.prepVal_eq]
  rfl

/-- consistency of a simulator state of `edNet` with a state of the functional model -/
def EdInv (s : State Int) (st : RegSt) : Prop :=
  s.val 3 = st.q ∧ s.st 0 = st.value ∧ s.prepared = []

theorem ed_clk1 (s : State Int) (st : RegSt) (h : EdInv s st) :
    EdInv (clk edNet 1 s) ((edgeDetector .pos).step st (s.val 1)) ∧ (clk edNet 1 s).val 1 = s.val 1 ∧
    (clk edNet 1 s).val 2 = (edgeDetector .pos).out ((edgeDetector .pos).step st (s.val 1)) (s.val 1) := by
  obtain ⟨h3, h0, hp⟩ := h
  have l0 : edNet.leaf 0 = edReg := rfl
  simp only [clk, iter, clkCycle, ed_prop, clockDrivers, show edNet.drivers = [{ enable := none, clockables := [0] }] from rfl,
    List.foldl_cons, List.foldl_nil, enabled, if_true, clockLeaf, l0, edReg, ed_prepW, settleAll, hp, List.nil_append]
  simp only [EdInv, edgeDetector, regClk, upd, landed]
  simp [h0]

/-- what a test bench reads on wire `r` after each `a.put(x); sim.clk(1)` -/
def edSimTrace (s : State Int) : List Nat → List Nat
  | [] => []
  | a :: t =>
    let s' := applyOp edNet (applyOp edNet s (.poke 1 (a : Int))) (.clk 1)
    s'.val 2 :: edSimTrace s' t

theorem ed_trace (h : List Nat) : ∀ (s : State Int) (st : RegSt), EdInv s st →
    edSimTrace s h = ((edgeDetector .pos).trace st (h.map (· % 2))).map (·.2) := by
  induction h with
  | nil => intro _ _ _; rfl
  | cons a t ih =>
    intro s st hI
    have hpoke : EdInv (applyOp edNet s (.poke 1 (a : Int))) st ∧ (applyOp edNet s (.poke 1 (a : Int))).val 1 = a % 2 := by
      obtain ⟨h3, h0, hp⟩ := hI
      simp only [applyOp, ed_putW, EdInv, upd]
      simp [h3, h0, hp, Bits.put_ofNat]
    have hc := ed_clk1 _ st hpoke.1
    rw [hpoke.2] at hc
    simp only [edSimTrace, List.map_cons, Machine.trace]
    have e : applyOp edNet (applyOp edNet s (.poke 1 (a : Int))) (.clk 1) = clk edNet 1 (applyOp edNet s (.poke 1 (a : Int))) := rfl
    rw [e, hc.2.2, ih _ _ hc.1]

/-- SPECIMEN of the link that is otherwise validated by correspondence: on the flattened netlist of EdgeDetector('pos')
    (generated Reg / Not / And2 leaves under `Net.Sim`, power-up with the Reg's construction-time put), for every
    sequence of `a.put(x); sim.clk(1)` the values read on wire `r` are the after-edge outputs of the functional model -/
theorem edgeDetector_net (h : List Nat) :
    edSimTrace (initC edNet (fun _ => 0) [(3, 0)]) h =
      ((edgeDetector .pos).trace (edgeDetector .pos).init (h.map (· % 2))).map (·.2) := by
  apply ed_trace
  simp only [initC, List.foldl_cons, List.foldl_nil, ed_putW, ed_prop, EdInv, upd, edgeDetector, regInit]
  simp [put_zero]

example : edSimTrace (initC edNet (fun _ => 0) [(3, 0)]) [1, 1, 0, 1] = [0, 0, 0, 0] := by decide

end NetSpecimen

end C09
