import Py4hwV.Props.C14
import Py4hwV.Props.C12
/-
  C14 — agreement of the helper class `FixedPoint` (py4hw/helper.py:461-560; model Helper/FixedPoint.lean with
  `signExtend` GENERATED from helper.py, theorems `C12.fx_add_spec / fx_sub_spec / fx_mult_spec`) with the fixed-point
  BLOCKS on equal formats: for every format with `int_bits ≥ 1` (C12's theorems now hold for `int_bits ≥ 0` too — repo commit
  b11b379 repaired the former finding C12-fx-iw0 — the hypothesis `1 ≤ q.i` below is kept only because `helper_mult_spec` uses it)
  and every pair of raw encodings, `FixedPoint.add/sub/mult` return exactly what
  FixedPointAdd/Sub/Mult put on their output wire.  Kept in its own module: it imports C12's whole development.
-/
namespace C14
open Bits Lib.Fxp

/-- the helper's format record for a block format -/
def hfmt (q : Lib.Fxp.Fmt) : Helper.FixedPoint.Fmt := ⟨q.s, q.i, q.f⟩

theorem hfmt_width (q : Lib.Fxp.Fmt) : Helper.FixedPoint.width (hfmt q) = (q.width : Int) := by
  unfold Helper.FixedPoint.width hfmt Fmt.width; push_cast; rfl

theorem c2Signed_eq (w a : Nat) (ha : a < 2^w) : Helper.c2Signed w (a:Int) = toSigned w a := by
  have hc := cast_pow w
  have hc1 := cast_pow (w-1)
  have e : (a:Int) % (2:Int)^w = a := Int.emod_eq_of_lt (by omega) (by omega)
  unfold Helper.c2Signed toSigned
  rw [e]
  by_cases h : a < 2^(w-1)
  · rw [if_pos h, if_pos (by omega)]
  · rw [if_neg h, if_neg (by omega)]

theorem helper_add_agrees (q : Lib.Fxp.Fmt) (a b : Nat) (hi : 1 ≤ q.i) :
    Helper.FixedPoint.add (hfmt q) a b = some ((Lib.Fxp.add q.width a b : Nat) : Int) := by
  rw [C12.fx_add_spec (hfmt q) q.width (hfmt_width q) (by unfold hfmt; simp only; omega), fxpAdd_mod]
  push_cast; rfl

theorem helper_sub_agrees (q : Lib.Fxp.Fmt) (a b : Nat) (hi : 1 ≤ q.i) :
    Helper.FixedPoint.sub (hfmt q) a b = some ((Lib.Fxp.sub q.width a b : Nat) : Int) := by
  rw [C12.fx_sub_spec (hfmt q) q.width (hfmt_width q) (by unfold hfmt; simp only; omega), fxpSub_mod, put_cast]

theorem helper_mult_agrees (q : Lib.Fxp.Fmt) (a b : Nat) (hi : 1 ≤ q.i) (ha : a < 2^q.width) (hb : b < 2^q.width) :
    Helper.FixedPoint.mult (hfmt q) a b = some ((Lib.Fxp.mult q.width q.width q.width q q q a b : Nat) : Int) := by
  have hw : 1 ≤ q.width := by unfold Fmt.width; omega
  rw [C12.fx_mult_spec (hfmt q) q.width q.f (hfmt_width q) rfl (by unfold hfmt; simp only; omega)
        (by unfold hfmt; simp only; omega) hw,
      fxpMult_spec_same_format q a b hw ha hb, put_cast, c2Signed_eq _ a ha, c2Signed_eq _ b hb]

/-- … hence the helper's `mult` is the specification too: the exact product truncated to the (common) format -/
theorem helper_mult_spec (q : Lib.Fxp.Fmt) (a b : Nat) (hi : 1 ≤ q.i) (ha : a < 2^q.width) (hb : b < 2^q.width) :
    Helper.FixedPoint.mult (hfmt q) a b = some ((FxpSpec.mult q.width q.width q.width q.f q.f q.f a b : Nat) : Int) := by
  have hw : 1 ≤ q.width := by unfold Fmt.width; omega
  have hl : multLegal q.width q.width q.width q q q = true := by
    simp only [multLegal, Bool.and_eq_true, decide_eq_true_eq]
    refine ⟨⟨⟨⟨⟨?_, ?_⟩, ?_⟩, hw⟩, hw⟩, by omega⟩ <;> trivial
  rw [helper_mult_agrees q a b hi ha hb,
    fxpMult_spec_partial _ _ _ q q q a b hl ha hb (by left; unfold multLow Fmt.width; omega)]

example : Helper.FixedPoint.mult (hfmt ⟨1,3,4⟩) 0x18 0xF8 = some 0xF4 ∧
    Lib.Fxp.mult 8 8 8 ⟨1,3,4⟩ ⟨1,3,4⟩ ⟨1,3,4⟩ 0x18 0xF8 = 0xF4 := by decide

end C14
