import Py4hwV.Proofs.C03EmitFlat
import Py4hwV.Proofs.C03EmitHier
import Py4hwV.Proofs.C03EmitRel
/-
  C03 — well-formedness of everything the MODEL emitter writes for flat designs, as a universal theorem.

  `FlatM.FlatSrc` (lean/Py4hwV/Emit/FlatText.lean, the C01 emitter model) describes a structural block whose children are
  inlinable primitives (19 kinds) and `Reg`s; `FlatSrc.emit : V.Design` is the module list rtl_generation.py writes for it
  (top module + one module per distinct register module name) and `FlatSrc.check` the decidable side conditions of the C01
  theorems (names injective, nets in scope, single driver, acyclic, module names consistent, …).
  `emit_wf_flat`: for EVERY description S with `S.check` and `namesOKb S` (the name conditions `check` does not contain:
  no reserved word among module / instance / net / clock names, instance names distinct from each other, from the nets and
  from the clock) the emitted design satisfies every rule of `WF.WellFormed` — no error of the proved-sound-and-complete
  checker.  Per design, lean/Drv/C03Emit.lean decides `parsed real text = S.emit ∧ S.check ∧ namesOKb S` for the S imported
  from the live circuit; for those designs well-formedness of the REAL text is then proved, not only checked.
-/
namespace C03Emit
open V V.WF FlatM FlatM.FlatSrc

/-- the checker reports nothing on the emitted design -/
theorem emit_checkE_flat (S : FlatSrc) (h : S.check = true) (hn : namesOKb S = true) : checkE { mods := S.emit } = [] := by
  have F := facts S h hn
  simp only [checkE, Env.all, List.append_nil, List.append_eq_nil_iff, flatMap_nil]
  exact ⟨⟨emit_header S F, emit_body S F⟩, emit_pdef S _⟩

/-- **`emit_wf_flat`**: the design the model emitter writes for a checked flat description is well formed (every identifier
    declared exactly once and not reserved, every identifier used declared, every instance bound to a module defined exactly
    once with the connected port names / directions / widths, every net exactly one driver of the right kind, no parameters) -/
theorem emit_wf_flat (S : FlatSrc) (h : S.check = true) (hn : namesOKb S = true) : WellFormed S.emit :=
  (C03.checkE_iff _).1 (emit_checkE_flat S h hn)

theorem emit_check_flat (S : FlatSrc) (h : S.check = true) (hn : namesOKb S = true) : WF.check S.emit = [] :=
  C03.check_complete _ (emit_wf_flat S h hn)

/-- what the harness uses: when the PARSED REAL TEXT equals `S.emit`, the real text is well formed -/
theorem real_text_wf (d : Design) (S : FlatSrc) (hd : d = S.emit) (h : S.check = true) (hn : namesOKb S = true) : WellFormed d :=
  hd ▸ emit_wf_flat S h hn

/-- non-vacuity: Top(in a[4], in b[4]; out r[4], q[4]){ w_t = a & b; r = ~w_t; Reg4 i_ff(d = w_t, q = q) } -/
def exS : FlatSrc :=
  { top := "Top", clk := "clk", widths := [4, 4, 4, 4, 4], names := ["a", "b", "r", "q", "w_t"],
    inputs := [0, 1], outputs := [2, 3], locals := [4],
    children := [.prim (.and2 0 1 4), .prim (.not1 4 2),
                 .reg { iname := "i_ff", mname := "Reg4", leaf := { hasR := false, hasE := false, rv := 0, d := 4, e := 0, r := 0, q := 3 } }],
    order := [0, 1] }

example : exS.check = true ∧ namesOKb exS = true := by decide
example : exS.emit.length = 2 ∧ WF.check exS.emit = [] := ⟨by decide, emit_check_flat exS (by decide) (by decide)⟩
/-- the name conditions are needed: the same circuit with a net called `wire` passes `FlatSrc.check` but is not well formed -/
example : ({ exS with names := ["a", "b", "r", "q", "wire"] } : FlatSrc).check = true ∧
    namesOKb { exS with names := ["a", "b", "r", "q", "wire"] } = false ∧
    WF.check ({ exS with names := ["a", "b", "r", "q", "wire"] } : FlatSrc).emit ≠ [] := by decide

/-! ## hierarchical designs of any depth

  `HSrc` (lean/Py4hwV/Verilog/EmitMD.lean) lists the modules of a hierarchical design in emission order: structural modules
  (ports, local wires, children = inlined children `GKind` of the C01 model — the 19 primitives, N-ary gates, Div/Mod, Bits*,
  Nand2/Nor2/Xor2, Equal, EqualConstant — `Reg` instances and instances of structural sub-modules) and register modules.
  `HSrc.emit` is the module list the emitter writes (every name once); `HSrc.okb` the decidable, module-LOCAL conditions on the
  description: per module no net on two ports / twice among ports and locals, names injective and = the port names, children's
  nets in scope, every output and local net driven by exactly one child and no input driven, instance names distinct and
  fresh, no reserved word, every instance bound (first module of that name) to a module with the interface its instance line
  was written for, port names of every sub-module distinct. -/

theorem emit_checkE_hier (H : HSrc) (h : H.okb = true) : checkE { mods := H.emit } = [] := by
  simp only [checkE, Env.all, List.append_nil, List.append_eq_nil_iff, flatMap_nil]
  exact ⟨⟨hemit_header H h, hemit_body H h⟩, hemit_pdef H _⟩

/-- **`emit_wf_hier`**: the design the model emitter writes for a checked hierarchical description is well formed -/
theorem emit_wf_hier (H : HSrc) (h : H.okb = true) : WellFormed H.emit :=
  (C03.checkE_iff _).1 (emit_checkE_hier H h)

theorem emit_check_hier (H : HSrc) (h : H.okb = true) : WF.check H.emit = [] :=
  C03.check_complete _ (emit_wf_hier H h)

/-- what the harness uses: when the PARSED REAL TEXT equals `H.emit`, the real text is well formed -/
theorem real_text_wf_hier (d : Design) (H : HSrc) (hd : d = H.emit) (h : H.okb = true) : WellFormed d :=
  hd ▸ emit_wf_hier H h

/-- non-vacuity: Top(a, b -> r){ Inv i_u(a -> w_t);  r = w_t & b }, Inv(a -> r){ Reg4 i_ff(d = a, q = w_q); r = ~w_q } -/
def exH : HSrc :=
  { clk := "clk", widths := [4, 4, 4, 4, 4],
    mods := [
      .str { mname := "Top", names := [(0, "a"), (1, "b"), (2, "r"), (3, "w_t")], inputs := [("a", 0), ("b", 1)], outputs := [("r", 2)],
             locals := [3],
             children := [.sub { iname := "i_u", mname := "Inv", hasClk := true, inputs := [("a", 0)], outputs := [("r", 3)] },
                          .kind (.prim (.and2 3 1 2))] },
      .str { mname := "Inv", names := [(0, "a"), (3, "r"), (4, "w_q")], inputs := [("a", 0)], outputs := [("r", 3)], locals := [4],
             children := [.reg { iname := "i_ff", mname := "Reg4", leaf := { hasR := false, hasE := false, rv := 0, d := 0, e := 0, r := 0, q := 4 } },
                          .kind (.prim (.not1 4 3))] },
      .reg { iname := "i_ff", mname := "Reg4", leaf := { hasR := false, hasE := false, rv := 0, d := 0, e := 0, r := 0, q := 4 } }] }

example : exH.okb = true := by decide
example : exH.emit.length = 3 ∧ WF.check exH.emit = [] := ⟨by decide, emit_check_hier exH (by decide)⟩

/-! ## the same theorem about the C01 model's emitter

  `FlatM.HierSrc` (lean/Py4hwV/Emit/Hier.lean) is the NESTED description C01's theorems are about (`HierSrc.emit`);
  `S.toHS` (lean/Py4hwV/Verilog/EmitMDOf.lean) lists it level-free and `C03Emit.toHS_emit : S.toHS.emit = S.emit`
  (with `C03Emit.toHS_mods`, Proofs/C03EmitRel.lean) proves that both models emit the same module list, so the
  well-formedness theorem holds for the design C01's theorems speak about. -/

/-- **`emit_wf_hierSrc`**: the module list the C01 model emitter writes for a nested description whose level-free listing
    passes `HSrc.okb` is well formed -/
theorem emit_wf_hierSrc (S : FlatM.HierSrc) (h : S.toHS.okb = true) : V.WF.WellFormed S.emit :=
  toHS_emit S ▸ emit_wf_hier S.toHS h

theorem emit_check_hierSrc (S : FlatM.HierSrc) (h : S.toHS.okb = true) : WF.check S.emit = [] :=
  C03.check_complete _ (emit_wf_hierSrc S h)

/-- what the harness uses: when the PARSED REAL TEXT equals `S.emit` (C01's check, and `hcheck` of lean/Drv/C03Emit.lean after
    `hsrc`, through `toHS_emit`), the real text is well formed -/
theorem real_text_wf_hierSrc (S : FlatM.HierSrc) (d : V.Design) (hd : d = S.emit) (h : S.toHS.okb = true) : V.WF.WellFormed d :=
  hd ▸ emit_wf_hierSrc S h

/-- non-vacuity: the nested form of `exH` (depth 1; the sub-module `Inv` contains a register and an inlined `Not`) -/
def exHS : FlatM.HierSrc :=
  { depth := 1, clk := "clk", widths := [4, 4, 4, 4, 4],
    top :=
      { mname := "Top", names := [(0, "a"), (1, "b"), (2, "r"), (3, "w_t")], inputs := [("a", 0), ("b", 1)], outputs := [("r", 2)],
        locals := [3],
        children :=
          [.sub "i_u"
             { mname := "Inv", names := [(0, "a"), (3, "r"), (4, "w_q")], inputs := [("a", 0)], outputs := [("r", 3)], locals := [4],
               children := [.reg { iname := "i_ff", mname := "Reg4", leaf := { hasR := false, hasE := false, rv := 0, d := 0, e := 0, r := 0, q := 4 } },
                            .kind (.prim (.not1 4 3))] },
           .g (.kind (.prim (.and2 3 1 2)))] },
    order := [], vorder := [] }

example : exHS.toHS.okb = true := by decide
example : exHS.toHS.mods.length = 3 ∧ exHS.emit.length = 3 := by decide
example : WellFormed exHS.emit ∧ WF.check exHS.emit = [] := ⟨emit_wf_hierSrc exHS (by decide), emit_check_hierSrc exHS (by decide)⟩
/-- the conversion of the nested example gives the level-free example's module list -/
example : exHS.toHS.emit = exH.emit := by decide

end C03Emit
