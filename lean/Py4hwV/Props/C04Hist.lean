import Py4hwV.Net.Hist
import Py4hwV.Props.C04Complete
/-
  C04 — "when the simulator is created AND AFTER EVERY CLOCK CALL … the netlist sits at its fixpoint", as ONE theorem over
  arbitrary histories of public operations (`Net.Hist`): construction, pokes on any wire, `clk n` for every n (0 included),
  blocks added after the simulator exists followed by `getSimulator()`.

  The boundary "stateless combinational block" / "propagatable with state" is explicit (`Hier.comb`):
    * the claim (`Sess.Settled`) is about the wires driven by `comb` leaves only;
    * the hypotheses about leaf BEHAVIOUR (`WF.comb_det`, `WF.comb_nodup`) are required of `comb` leaves only;
    * every propagatable, stateful or not, must keep to its output ports (`WF.puts_sub`), be scheduled from complete
      dependency information (`WF.hedges` — exactly what C04o breaks) and be the only driver of its wires (`WF.single`, C11).
  A stateful propagatable may sit anywhere in the netlist, upstream or downstream of stateless logic: the stateless blocks
  still settle (`propagate_settled`), the theorem just says nothing about the stateful block's own outputs — and it cannot:
  `stateful_not_settled` exhibits a propagatable with state whose output is NOT a function of the current inputs after clk().
-/
namespace C04
open Net Sched

variable {σ : Type}

/-- hypotheses on one object graph -/
structure WF (h : Hier σ) : Prop where
  /-- every propagatable (stateless or not) puts only on wires of its own output ports -/
  puts_sub : ∀ k v x wx, wx ∈ ((h.leaf k).prop v x).2 → wx.1 ∈ h.writes k
  /-- a stateless combinational block: what it puts is a function of the values on its input ports — not of its attributes,
      not of any other wire -/
  comb_det : ∀ k, h.comb k = true → ∀ v v' x x', (∀ w, w ∈ h.reads k → v w = v' w) →
      ((h.leaf k).prop v x).2 = ((h.leaf k).prop v' x').2
  /-- … and it puts at most once on each wire in one call -/
  comb_nodup : ∀ k, h.comb k = true → ∀ v x, (((h.leaf k).prop v x).2.map Prod.fst).Nodup
  nodup : h.props.Nodup
  /-- dependency discovery is complete: a propagatable that drives a wire read by a stateless block has that block among the
      sinks the scheduler collects for it -/
  hedges : ∀ u v, u ∈ h.props → v ∈ h.props → h.comb v = true → (∃ w, w ∈ h.writes u ∧ w ∈ h.reads v) → v ∈ h.succs u
  /-- single driver (C11) -/
  single : ∀ a b, a ∈ h.props → b ∈ h.props → a ≠ b → ∀ w, w ∈ h.writes a → w ∉ h.writes b

/-- `l` is an evaluation order for the stateless blocks in it: nothing at or after a stateless block drives what it reads,
    nothing after it drives what it drives -/
def TopoOKH (h : Hier σ) : List Nat → Prop
  | [] => True
  | a :: rest => (h.comb a = true → ∀ b, b ∈ a :: rest → ∀ w, w ∈ h.reads a → w ∉ h.writes b) ∧
                 (h.comb a = true → ∀ b, b ∈ rest → ∀ w, w ∈ h.writes a → w ∉ h.writes b) ∧ TopoOKH h rest

section Fix
variable (h : Hier σ) (d : Design σ)

theorem propLeaf_val_otherH (hl : d.leaf = h.leaf) (wf : WF h) (s : State σ) (k w : Nat) (hw : w ∉ h.writes k) :
    (propLeaf d s k).val w = s.val w := by
  unfold propLeaf
  apply C10.foldl_putW_val_other
  intro hin
  rcases List.mem_map.mp hin with ⟨wx, hwx, e⟩
  subst e
  rw [hl] at hwx
  exact hw (wf.puts_sub k _ _ wx hwx)

theorem fold_propLeaf_val_otherH (hl : d.leaf = h.leaf) (wf : WF h) (l : List Nat) (s : State σ) (w : Nat)
    (hw : ∀ k, k ∈ l → w ∉ h.writes k) : (l.foldl (propLeaf d) s).val w = s.val w := by
  induction l generalizing s with
  | nil => rfl
  | cons a l ih =>
    simp only [List.foldl]
    rw [ih _ (fun k hk => hw k (by simp [hk])), propLeaf_val_otherH h d hl wf s a w (hw a (by simp))]

/-- **C04 (fixpoint, with propagatables that have state in the netlist).** After evaluating the leaves once in an order
    that is an evaluation order for the stateless blocks, every stateless block's outputs equal its function of the FINAL
    wire values — from ANY starting state, whatever the stateful propagatables did. -/
theorem propagate_settled (hl : d.leaf = h.leaf) (wf : WF h) (l : List Nat) (hT : TopoOKH h l) (s : State σ) :
    ∀ k, k ∈ l → h.comb k = true →
      ∀ wx, wx ∈ ((d.leaf k).prop (l.foldl (propLeaf d) s).val ((l.foldl (propLeaf d) s).st k)).2 →
        (l.foldl (propLeaf d) s).val wx.1 = landed d wx := by
  induction l generalizing s with
  | nil => intro k hk; cases hk
  | cons a rest ih =>
    obtain ⟨hr, hw, hrest⟩ := hT
    simp only [List.foldl]
    intro k hk hc wx hwx
    simp at hk
    by_cases hka : k ∈ rest
    · exact ih hrest (propLeaf d s a) k hka hc wx hwx
    · have hk : k = a := by rcases hk with hk | hk; exact hk; exact absurd hk hka
      subst hk
      have hreads : ∀ w, w ∈ h.reads k → (rest.foldl (propLeaf d) (propLeaf d s k)).val w = s.val w := by
        intro w hwr
        rw [fold_propLeaf_val_otherH h d hl wf rest _ w (fun b hb => hr hc b (by simp [hb]) w hwr)]
        exact propLeaf_val_otherH h d hl wf s k w (hr hc k (by simp) w hwr)
      have hputs : ((d.leaf k).prop (rest.foldl (propLeaf d) (propLeaf d s k)).val
            ((rest.foldl (propLeaf d) (propLeaf d s k)).st k)).2 = ((d.leaf k).prop s.val (s.st k)).2 := by
        rw [hl]; exact wf.comb_det k hc _ _ _ _ hreads
      rw [hputs] at hwx
      have hwk : wx.1 ∈ h.writes k := by rw [hl] at hwx; exact wf.puts_sub k _ _ wx hwx
      rw [fold_propLeaf_val_otherH h d hl wf rest _ wx.1 (fun b hb => hw hc b hb wx.1 hwk)]
      unfold propLeaf
      have := foldl_putW_hit d ((d.leaf k).prop s.val (s.st k)).2
        { s with st := upd s.st k ((d.leaf k).prop s.val (s.st k)).1 }
        (by rw [hl]; exact wf.comb_nodup k hc _ _) wx hwx
      exact this

end Fix

/-- **sorter ⇒ evaluation order** (netlist level): whatever `topologicalSort` returns on a well-formed object graph is an
    evaluation order for its stateless blocks -/
theorem topoOKH_of_schedule (h : Hier σ) (wf : WF h) (d : Design σ) (hs : h.schedule = some d) :
    TopoOKH h d.order ∧ d.leaf = h.leaf ∧ d.width = h.width ∧ d.order.Perm h.props := by
  unfold Hier.schedule at hs
  cases ho : topoSortCode h.succs h.props with
  | none => rw [ho] at hs; cases hs
  | some o =>
    rw [ho] at hs
    simp only [Option.map_some, Option.some.injEq] at hs
    subst hs
    have ⟨pm, hr⟩ := topoSort_sound _ h.succs h.props o ho
    have hn : o.Nodup := pm.nodup_iff.mpr wf.nodup
    refine ⟨?_, rfl, rfl, pm⟩
    show TopoOKH h o
    -- pairwise form, then fold into TopoOKH
    have hpw := pairwise_idx o hn
    have key : ∀ l : List Nat, (∀ x, x ∈ l → x ∈ o) → l.Pairwise (fun a b => idx o a < idx o b) → TopoOKH h l := by
      intro l
      induction l with
      | nil => intro _ _; trivial
      | cons a rest ih =>
        intro hin hp
        have ⟨h1, h2⟩ := List.pairwise_cons.mp hp
        have ha : a ∈ o := hin a (by simp)
        refine ⟨?_, ?_, ih (fun x hx => hin x (by simp [hx])) h2⟩
        · intro hc b hb w hwr hww
          have hbo : b ∈ o := hin b hb
          have hedge : a ∈ h.succs b :=
            wf.hedges b a (pm.mem_iff.mp hbo) (pm.mem_iff.mp ha) hc ⟨w, hww, hwr⟩
          have hlt := edge_order h.succs o hn hr b a hbo hedge
          simp at hb
          rcases hb with hb | hb
          · subst hb; omega
          · have := h1 b hb; omega
        · intro _ b hb w hwa
          have hne : a ≠ b := by
            intro e; subst e
            have := h1 a hb; omega
          exact wf.single a b (pm.mem_iff.mp ha) (pm.mem_iff.mp (hin b (by simp [hb]))) hne w hwa
    exact key o (fun _ hx => hx) hpw

theorem iter_succ_last {α : Type} (f : α → α) (n : Nat) (a : α) : iter f (n + 1) a = f (iter f n a) := by
  have := C05.iter_add f n 1 a
  simpa [iter] using this

/-- every `clk n` — n = 0 included — ends with a `propagateAll` -/
theorem clk_ends_with_propagate (d : Design σ) (n : Nat) (s : State σ) :
    ∃ s', (clk d n s).val = (propagateAll d s').val ∧ (clk d n s).st = (propagateAll d s').st := by
  unfold clk
  cases n with
  | zero => exact ⟨s, rfl, rfl⟩
  | succ n =>
    rw [iter_succ_last]
    exact ⟨settleAll (clockDrivers d (iter (clkCycle d) n (propagateAll d s)) d.drivers), rfl, rfl⟩

/-- the session invariant: the current object graph is well formed and the schedule in use is the one the sorter computed
    for it -/
def Inv (ss : Sess σ) : Prop := WF ss.h ∧ ss.h.schedule = some ss.d

/-- an operation is admissible when the object graph it installs is well formed (pokes and clock calls always are) -/
def Admissible : HOp σ → Prop
  | .extend h _ _ => WF h
  | _ => True

theorem settled_of_propagate (ss : Sess σ) (hi : Inv ss) (s' : State σ)
    (hv : ss.s.val = (propagateAll ss.d s').val) (hst : ss.s.st = (propagateAll ss.d s').st) : ss.Settled := by
  obtain ⟨wf, hs⟩ := hi
  obtain ⟨hT, hl, _, _⟩ := topoOKH_of_schedule ss.h wf ss.d hs
  intro k hk hc wx hwx
  rw [hv, hst] at hwx
  rw [hv]
  exact propagate_settled ss.h ss.d hl wf ss.d.order hT s' k hk hc wx hwx

/-- **C04, creation clause.** Right after `getSimulator()` on a well-formed object graph the netlist sits at its fixpoint. -/
theorem create_settled (h : Hier σ) (wf : WF h) (st0 : Nat → σ) (cons : List (Nat × Int)) (ss : Sess σ)
    (hc : create h st0 cons = some ss) : Inv ss ∧ ss.Settled := by
  unfold create at hc
  cases hd : h.schedule with
  | none => rw [hd] at hc; cases hc
  | some d =>
    rw [hd] at hc
    simp only [Option.map_some, Option.some.injEq] at hc
    subst hc
    have hi : Inv (σ := σ) { h := h, d := d, s := initC d st0 cons } := ⟨wf, hd⟩
    exact ⟨hi, settled_of_propagate _ hi _ rfl rfl⟩

theorem stepH_inv (ss ss' : Sess σ) (op : HOp σ) (hi : Inv ss) (ha : Admissible op) (hs : stepH ss op = some ss') :
    Inv ss' := by
  cases op with
  | poke w v => simp [stepH] at hs; subst hs; exact hi
  | clk n => simp [stepH] at hs; subst hs; exact hi
  | extend h fresh cons =>
    simp only [stepH] at hs
    cases hd : h.schedule with
    | none => rw [hd] at hs; cases hs
    | some d =>
      rw [hd] at hs
      simp only [Option.map_some, Option.some.injEq] at hs
      subst hs
      exact ⟨ha, hd⟩

theorem runH_none (ops : List (HOp σ)) : runH (none : Option (Sess σ)) ops = none := by
  induction ops with
  | nil => rfl
  | cons op ops ih => simpa [runH, List.foldl] using ih

theorem runH_inv (ss0 ss : Sess σ) (ops : List (HOp σ)) (hi : Inv ss0) (ha : ∀ op, op ∈ ops → Admissible op)
    (hr : runH (some ss0) ops = some ss) : Inv ss := by
  induction ops generalizing ss0 with
  | nil => simp [runH] at hr; subst hr; exact hi
  | cons op ops ih =>
    simp only [runH, List.foldl, Option.bind_some] at hr
    cases h1 : stepH ss0 op with
    | none =>
      rw [h1] at hr
      have := runH_none (σ := σ) ops
      simp only [runH] at this
      rw [this] at hr; cases hr
    | some ss1 =>
      rw [h1] at hr
      exact ih ss1 (stepH_inv ss0 ss1 op hi (ha op (by simp)) h1) (fun o ho => ha o (by simp [ho])) hr

theorem runH_append (o : Option (Sess σ)) (a b : List (HOp σ)) : runH o (a ++ b) = runH (runH o a) b := by
  simp [runH, List.foldl_append]

/-- **C04, the whole statement over histories.**  Take ANY history of public operations on a simulator created on a well-formed
    object graph — pokes on arbitrary wires, clock calls of any length, blocks added later and scheduled by `getSimulator()`
    (each well formed as a whole) — that did not raise.  Whenever the last operation is a clock call `clk n` (n = 0 included),
    every wire driven by a stateless combinational block of the CURRENT object graph holds the value that block computes from
    the current values of its inputs.  (Prefix-closed: the histories are arbitrary, so this is "after every clock call".) -/
theorem history_settled (h0 : Hier σ) (wf0 : WF h0) (st0 : Nat → σ) (cons0 : List (Nat × Int))
    (ops : List (HOp σ)) (ha : ∀ op, op ∈ ops → Admissible op) (n : Nat) (ss : Sess σ)
    (hr : runH (create h0 st0 cons0) (ops ++ [HOp.clk n]) = some ss) : ss.Settled := by
  rw [runH_append] at hr
  cases hc : create h0 st0 cons0 with
  | none => rw [hc, runH_none] at hr; simp [runH] at hr
  | some ss0 =>
    rw [hc] at hr
    cases hm : runH (some ss0) ops with
    | none => rw [hm] at hr; simp [runH] at hr
    | some ss1 =>
      rw [hm] at hr
      simp only [runH, List.foldl, Option.bind_some, stepH, Option.some.injEq] at hr
      subst hr
      have hi1 : Inv ss1 := runH_inv ss0 ss1 ops (create_settled h0 wf0 st0 cons0 ss0 hc).1 ha hm
      obtain ⟨s', hv, hst⟩ := clk_ends_with_propagate ss1.d n ss1.s
      exact settled_of_propagate { ss1 with s := clk ss1.d n ss1.s } hi1 s' hv hst

/-- the executable oracle decides the predicate -/
theorem settledB_iff (ss : Sess σ) : settledB ss.d ss.h.comb ss.s.val ss.s.st = true ↔ ss.Settled := by
  unfold settledB Sess.Settled
  simp only [List.all_eq_true, Bool.or_eq_true, Bool.not_eq_true', beq_iff_eq]
  constructor
  · intro hh k hk hc wx hwx
    rcases hh k hk with h1 | h1
    · rw [hc] at h1; cases h1
    · exact h1 wx hwx
  · intro hh k hk
    cases hc : ss.h.comb k with
    | false => left; rfl
    | true => right; intro wx hwx; exact hh k hk hc wx hwx

/-! ## the boundary is sharp: a propagatable WITH state need not be "settled"

  leaf 0 is a transparent latch without reset: `if en: self.v = d` then `q.put(self.v)`  (wires: 0 = d, 1 = en, 2 = q).
  It is scheduled and evaluated like any other propagatable; after `clk()` its output is its remembered value, which is
  not a function of the current inputs: two histories ending in the same input values leave different values on q. -/
def latchH : Hier Nat :=
  { width := fun _ => 8,
    leaf := fun _ => { prop := fun v s => let s' := if v 1 != 0 then v 0 else s; (s', [(2, (s' : Int))]), clock := fun _ s => (s, []) },
    props := [0], succs := fun _ => [], drivers := [],
    reads := fun _ => [0, 1], writes := fun _ => [2], comb := fun _ => false }

theorem stateful_not_settled :
    ∃ ops₁ ops₂ : List (HOp Nat), ∃ s₁ s₂ : Sess Nat,
      runH (create latchH (fun _ => 0) []) ops₁ = some s₁ ∧ runH (create latchH (fun _ => 0) []) ops₂ = some s₂ ∧
      s₁.s.val 0 = s₂.s.val 0 ∧ s₁.s.val 1 = s₂.s.val 1 ∧ s₁.s.val 2 ≠ s₂.s.val 2 := by
  refine ⟨[.poke 0 5, .poke 1 1, .clk 1, .poke 1 0, .poke 0 9, .clk 1], [.poke 0 9, .poke 1 0, .clk 1], ?_⟩
  simp only [runH, create, Hier.schedule, List.foldl]
  refine ⟨_, _, rfl, rfl, ?_, ?_, ?_⟩ <;> decide

/-- … while the very same netlist with a stateless block behind the latch (leaf 1: r = NOT q, wire 3) IS covered: the
    theorem applies to the stateless block although a stateful propagatable feeds it -/
def latchNotH : Hier Nat :=
  { latchH with
    leaf := fun k => if k = 0 then latchH.leaf 0
                     else { prop := fun v s => (s, [(3, 255 - (v 2 : Int))]), clock := fun _ s => (s, []) },
    props := [1, 0], succs := fun k => if k = 0 then [1] else [],
    reads := fun k => if k = 0 then [0, 1] else [2], writes := fun k => if k = 0 then [2] else [3],
    comb := fun k => k == 1 }

theorem latchNotH_wf : WF latchNotH where
  puts_sub := by
    intro k v x wx hwx
    by_cases hk : k = 0
    · subst hk; simp [latchNotH, latchH] at hwx ⊢; rw [hwx]
    · simp [latchNotH, hk] at hwx ⊢; rw [hwx]
  comb_det := by
    intro k hc v v' x x' hv
    have hk : k = 1 := by simpa [latchNotH] using hc
    subst hk
    have := hv 2 (by simp [latchNotH])
    simp [latchNotH, this]
  comb_nodup := by
    intro k hc v x
    have hk : k = 1 := by simpa [latchNotH] using hc
    subst hk; simp [latchNotH]
  nodup := by decide
  hedges := by
    intro u v hu hv hc hw
    have hk : v = 1 := by simpa [latchNotH] using hc
    subst hk
    obtain ⟨w, hwu, hwr⟩ := hw
    by_cases h0 : u = 0
    · subst h0; simp [latchNotH]
    · simp [latchNotH, h0] at hwu hwr; omega
  single := by
    intro a b ha hb hne w hwa hwb
    simp [latchNotH, latchH] at ha hb
    rcases ha with rfl | rfl <;> rcases hb with rfl | rfl <;> simp [latchNotH] at hwa hwb hne <;> omega

/-- non-vacuity of `history_settled`: a latch feeding an inverter, instantiated reader first; pokes, a clk(0), a late
    re-installation of the same graph, clocks — the history runs (the sorter accepts) and the inverter is settled -/
example : ∃ ss, runH (create latchNotH (fun _ => 0) [])
    ([.poke 0 5, .poke 1 1, .clk 0, .poke 2 77, .extend latchNotH [] [], .poke 1 0] ++ [HOp.clk 2]) = some ss ∧ ss.Settled := by
  have hrun : ∃ ss, runH (create latchNotH (fun _ => 0) [])
      ([.poke 0 5, .poke 1 1, .clk 0, .poke 2 77, .extend latchNotH [] [], .poke 1 0] ++ [HOp.clk 2]) = some ss := by
    have hs : (latchNotH.schedule).isSome = true := by
      simp only [Hier.schedule, Option.isSome_map]; decide
    obtain ⟨d, hd⟩ := Option.isSome_iff_exists.mp hs
    simp [runH, create, stepH, hd]
  obtain ⟨ss, hss⟩ := hrun
  exact ⟨ss, hss, history_settled latchNotH latchNotH_wf _ _ _
    (by intro op hop; simp at hop; rcases hop with rfl | rfl | rfl | rfl | rfl | rfl <;> first | trivial | exact latchNotH_wf) 2 ss hss⟩

end C04
