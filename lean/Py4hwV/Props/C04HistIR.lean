import Py4hwV.Net.HistIR
import Py4hwV.Props.C04Hist
/-
  C04 — `history_settled` instantiated on CONCRETE object graphs (`Net.HNet`: leaves run the functions generated from the
  library source, ports/graph exported from the live py4hw hierarchy).

  * `dyn_stateless`: for every kind in `Net.statelessKinds` the generated `propagate()` ignores the leaf's attributes — this
    is the library side of the boundary "stateless combinational block" (it is re-checked against the regenerated code on
    every run: a leaf that starts to keep state in propagate() breaks it);
  * `wf_of_wfB`: the executable check `HNet.wfB` (evaluated by Drv/C04Hist.lean on every object graph the harness exports)
    implies the hypotheses `C04.WF` of the history theorem;
  * `ir_history_settled`: hence, for every history on exported object graphs that pass the check, the netlist sits at its
    fixpoint after every clock call.
-/
namespace C04
open Net

theorem dyn_stateless (k : String) (hk : k ∈ statelessKinds) (c s s' : List (List Int)) (i : List Int)
    (il : List (List (Int × Int))) :
    (Gen.dynStep k c s i il).map (fun r => r.2) = (Gen.dynStep k c s' i il).map (fun r => r.2) := by
  simp only [statelessKinds, List.mem_cons, List.not_mem_nil, or_false] at hk
  rcases hk with rfl | rfl | rfl | rfl | rfl | rfl | rfl | rfl | rfl | rfl | rfl | rfl | rfl | rfl | rfl | rfl | rfl | rfl |
    rfl | rfl | rfl | rfl | rfl <;> rfl

theorem zip_fst_sublist {α β : Type} (a : List α) (b : List β) : ((a.zip b).map Prod.fst).Sublist a := by
  induction a generalizing b with
  | nil => simp
  | cons x a ih =>
    cases b with
    | nil => simp
    | cons y b => simp only [List.zip_cons_cons, List.map_cons]; exact (ih b).cons_cons x

theorem zipPuts_fst_sublist (ws : List Nat) (vs : List (Option Int)) : ((zipPuts ws vs).map Prod.fst).Sublist ws := by
  unfold zipPuts
  induction ws generalizing vs with
  | nil => simp
  | cons w ws ih =>
    cases vs with
    | nil => simp
    | cons v vs =>
      simp only [List.zip_cons_cons, List.filterMap_cons]
      cases v with
      | none => simp only [Option.map_none]; exact (ih vs).cons w
      | some x => simp only [Option.map_some, List.map_cons]; exact (ih vs).cons_cons w

theorem zipPutLs_fst_sublist (wss : List (List Nat)) (vss : List (Option (List Int))) :
    ((zipPutLs wss vss).map Prod.fst).Sublist wss.flatten := by
  unfold zipPutLs
  induction wss generalizing vss with
  | nil => simp
  | cons ws wss ih =>
    cases vss with
    | nil => simp
    | cons vs vss =>
      simp only [List.zip_cons_cons, List.map_cons, List.flatten_cons, List.map_append]
      apply List.Sublist.append _ (ih vss)
      cases vs with
      | none => simp
      | some l => exact zip_fst_sublist ws l

theorem call_fst_sublist (width : Nat → Nat) (l : LeafInst) (v : Val) (s : LSt) :
    ((l.call width v s).2.map Prod.fst).Sublist l.writes := by
  unfold LeafInst.call LeafInst.writes
  simp only
  split
  · simp only [List.map_append]
    exact List.Sublist.append (zipPuts_fst_sublist _ _) (zipPutLs_fst_sublist _ _)
  · simp

theorem sem_prop_fst_sublist (width : Nat → Nat) (l : LeafInst) (v : Val) (s : LSt) :
    ((((l.sem width).prop v s).2).map Prod.fst).Sublist l.writes := by
  unfold LeafInst.sem
  simp only
  split
  · exact call_fst_sublist width l v s
  · simp

theorem call_det (width : Nat → Nat) (l : LeafInst) (hc : l.comb = true) (v v' : Val) (s s' : LSt)
    (hv : ∀ w, w ∈ l.reads → v w = v' w) : ((l.sem width).prop v s).2 = ((l.sem width).prop v' s').2 := by
  unfold LeafInst.comb at hc
  simp only [Bool.and_eq_true, List.contains_iff_mem] at hc
  obtain ⟨hp, hk⟩ := hc
  unfold LeafInst.sem LeafInst.call
  simp only [hp, if_true]
  have hi : (l.ins.map fun w => (v w : Int)) = (l.ins.map fun w => (v' w : Int)) := by
    apply List.map_congr_left
    intro w hw
    rw [hv w (by unfold LeafInst.reads; simp [hw])]
  have hil : (l.inls.map fun ws => ws.map fun w => ((width w : Int), (v w : Int))) =
      (l.inls.map fun ws => ws.map fun w => ((width w : Int), (v' w : Int))) := by
    apply List.map_congr_left
    intro ws hws
    apply List.map_congr_left
    intro w hw
    rw [hv w (by unfold LeafInst.reads; simp only [List.mem_append, List.mem_flatten]; exact Or.inr ⟨ws, hws, hw⟩)]
  rw [hi, hil]
  have hd := dyn_stateless l.kind hk l.cfg s s' (l.ins.map fun w => (v' w : Int))
    (l.inls.map fun ws => ws.map fun w => ((width w : Int), (v' w : Int)))
  cases h1 : Gen.dynStep l.kind l.cfg s (l.ins.map fun w => (v' w : Int))
      (l.inls.map fun ws => ws.map fun w => ((width w : Int), (v' w : Int))) with
  | none =>
    rw [h1] at hd
    cases h2 : Gen.dynStep l.kind l.cfg s' (l.ins.map fun w => (v' w : Int))
        (l.inls.map fun ws => ws.map fun w => ((width w : Int), (v' w : Int))) with
    | none => rfl
    | some r2 => rw [h2] at hd; simp at hd
  | some r1 =>
    rw [h1] at hd
    cases h2 : Gen.dynStep l.kind l.cfg s' (l.ins.map fun w => (v' w : Int))
        (l.inls.map fun ws => ws.map fun w => ((width w : Int), (v' w : Int))) with
    | none => rw [h2] at hd; simp at hd
    | some r2 =>
      rw [h2] at hd
      simp only [Option.map_some, Option.some.injEq] at hd
      obtain ⟨a1, b1, c1⟩ := r1
      obtain ⟨a2, b2, c2⟩ := r2
      simp only [Prod.mk.injEq] at hd
      obtain ⟨e1, e2⟩ := hd
      subst e1; subst e2
      rfl

theorem lf_comb_mem (n : HNet) (k : Nat) (hc : (n.lf k).comb = true) : n.lf k ∈ n.leaves := by
  unfold HNet.lf at hc ⊢
  by_cases hk : k < n.leaves.length
  · simp [List.getD, hk]
  · have : n.leaves.getD k default = default := by simp [List.getD, Nat.not_lt.mp hk]
    rw [this] at hc
    have hp : (default : LeafInst).isProp = false := rfl
    simp [LeafInst.comb, hp] at hc

/-- **the executable check implies the hypotheses of the history theorem** -/
theorem wf_of_wfB (n : HNet) (h : n.wfB = true) : WF n.hier := by
  unfold HNet.wfB at h
  simp only [Bool.and_eq_true, decide_eq_true_eq, List.all_eq_true, Bool.or_eq_true, Bool.not_eq_true',
    List.any_eq_true, List.contains_iff_mem, beq_iff_eq] at h
  obtain ⟨⟨⟨⟨hnd, _⟩, hout⟩, hedge⟩, hsingle⟩ := h
  refine ⟨?_, ?_, ?_, hnd, ?_, ?_⟩
  · intro k v x wx hwx
    have hs := sem_prop_fst_sublist (fun w => n.widths.getD w 1) (n.lf k) v x
    exact hs.subset (List.mem_map.mpr ⟨wx, hwx, rfl⟩)
  · intro k hc v v' x x' hv
    exact call_det _ (n.lf k) hc v v' x x' hv
  · intro k hc v x
    have hs := sem_prop_fst_sublist (fun w => n.widths.getD w 1) (n.lf k) v x
    have hw : (n.lf k).writes.Nodup := by
      have hc' : (n.lf k).comb = true := hc
      rcases hout (n.lf k) (lf_comb_mem n k hc') with h1 | h1
      · rw [hc'] at h1; cases h1
      · exact h1
    exact hs.nodup hw
  · intro u v hu hv hc ⟨w, hwu, hwr⟩
    rcases hedge u hu v hv with (h1 | h1) | h1
    · have : (n.lf v).comb = true := hc
      rw [this] at h1; cases h1
    · exfalso
      have : ((n.lf u).writes.any fun w => (n.lf v).reads.contains w) = true := by
        simp only [List.any_eq_true, List.contains_iff_mem]
        exact ⟨w, hwu, hwr⟩
      rw [this] at h1; cases h1
    · exact h1
  · intro a b ha hb hne w hwa hwb
    rcases hsingle a ha b hb with h1 | h1
    · exact hne h1
    · have := h1 w hwa
      have hx : ((n.lf b).writes.contains w) = true := by simp only [List.contains_iff_mem]; exact hwb
      rw [hx] at this; cases this

/-- **C04 on exported object graphs.**  A history on concrete object graphs — created on `n0`, then pokes, clock calls and
    late extensions by further exported graphs, each passing the executable check — that ends with a clock call leaves every
    wire driven by a library stateless block at the value the (generated) block function computes from the current inputs. -/
theorem ir_history_settled (n0 : HNet) (h0 : n0.wfB = true) (cons0 : List (Nat × Int))
    (ops : List (HOp LSt))
    (ha : ∀ op, op ∈ ops → match op with | .extend h _ _ => ∃ n : HNet, n.wfB = true ∧ h = n.hier | _ => True)
    (k : Nat) (ss : Sess LSt)
    (hr : runH (create n0.hier n0.st0 cons0) (ops ++ [HOp.clk k]) = some ss) : ss.Settled := by
  apply history_settled n0.hier (wf_of_wfB n0 h0) n0.st0 cons0 ops _ k ss hr
  intro op hop
  have := ha op hop
  cases op with
  | poke w v => trivial
  | clk m => trivial
  | extend h fresh cons =>
    obtain ⟨n, hn, e⟩ := this
    subst e
    exact wf_of_wfB n hn

/-! non-vacuity: q = NOT(BUF a), the inverter instantiated first (ids: 0 = Not, 1 = Buf; wires 1 = a, 2 = t, 3 = q) -/
def exN : HNet :=
  { widths := [1, 1, 1, 1],
    leaves := [{ kind := "Not", cfg := [[1], [1]], ins := [2], inls := [], outs := [3], outls := [], st0 := [], isProp := true, isClk := false },
               { kind := "Buf", cfg := [[1], [1]], ins := [1], inls := [], outs := [2], outls := [], st0 := [], isProp := true, isClk := false }],
    props := [0, 1], succs := [[], [0]], drivers := [] }
example : exN.wfB = true := by decide
example : ∃ ss, runH (create exN.hier exN.st0 []) ([.poke 1 1, .extend exN.hier [] []] ++ [HOp.clk 0]) = some ss ∧ ss.Settled := by
  have hs : (exN.hier.schedule).isSome = true := by
    simp only [Hier.schedule, Option.isSome_map]; decide
  obtain ⟨d, hd⟩ := Option.isSome_iff_exists.mp hs
  have hrun : ∃ ss, runH (create exN.hier exN.st0 []) ([.poke 1 1, .extend exN.hier [] []] ++ [HOp.clk 0]) = some ss := by
    simp [runH, create, stepH, hd]
  obtain ⟨ss, hss⟩ := hrun
  exact ⟨ss, hss, ir_history_settled exN (by decide) [] _
    (by intro op hop; simp at hop; rcases hop with rfl | rfl; trivial; exact ⟨exN, by decide, rfl⟩) 0 ss hss⟩

end C04
