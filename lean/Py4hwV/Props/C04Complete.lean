import Py4hwV.Proofs.C04Complete
/-
  C04 — completeness clause of the sorter ("every ACYCLIC netlist, in every instantiation order, is accepted").

  PROVED here (proofs in Proofs/C04Complete.lean):
    * the swap-until-stable loop of `Simulator.topologicalSort` terminates successfully on every acyclic netlist from
      every initial order within  n(n-1)/2 + 1  passes (`accepted_within`), hence with ANY pass limit above n(n-1)/2
      (`accepted_of_limit`);
    * with the limit written in the source, `max(1000, n+1)`, every acyclic netlist of at most 45 propagatable
      leaves is accepted (`accepted_upto45`)  [45·44/2 = 990 < 1000];
    * `Acyclic` (= a ranking exists) ⇔ `NoCycle` (no path a → … → z → a, `acyclic_iff_noCycle`), and is implied by the existence of any valid schedule
      (`acyclic_of_schedule`), so:  a valid evaluation order exists  ⇒  the sorter finds one (`schedulable_sorted`).

    * certificate form `accepted_of_inversions` (any ranking with fewer inversions than the limit), the quadratic-limit
      decision statement `accepted_iff_noCycle_quadratic_limit`, and the NEGATIVE `depth2_needs_n_passes` (no depth-based
      bound: a depth-2 netlist of n leaves can need n passes).

  NOT proved (open; no counterexample found — see notes/C04deep.md):
      theorem acyclic_accepted : Acyclic succs l → ∃ σ, topoSortCode succs l = some σ        -- for EVERY length
    which needs the conjectured bound "≤ n passes" (exhaustively true for n ≤ 5, n = 6 sampled, hill-climbing
    searches up to n = 14 reach exactly n and never more).  The gap is exactly: 46 ≤ n with more than 1000 passes
    needed, i.e. a convergence bound between n+1 and n(n-1)/2+1.
-/
namespace C04
open Sched C04Complete

/-- **C04 (completeness, explicit bound).** On an acyclic netlist the sorter succeeds within n(n-1)/2+1 passes from
    every instantiation order, and what it returns is a dependency-respecting permutation. -/
theorem accepted_within (succs : Nat → List Nat) (l : List Nat) (h : Acyclic succs l) :
    ∃ σ, topoSort (l.length * (l.length - 1) / 2 + 1) succs l = some σ ∧ σ.Perm l ∧ Respects succs σ := by
  obtain ⟨σ, hσ⟩ := topoSort_complete succs l h _ (Nat.lt_succ_self _)
  exact ⟨σ, hσ, topoSort_sound _ succs l σ hσ⟩

/-- any pass limit above n(n-1)/2 is enough -/
theorem accepted_of_limit (succs : Nat → List Nat) (l : List Nat) (h : Acyclic succs l) (limit : Nat)
    (hl : l.length * (l.length - 1) / 2 < limit) :
    ∃ σ, topoSort limit succs l = some σ ∧ σ.Perm l ∧ Respects succs σ := by
  obtain ⟨σ, hσ⟩ := topoSort_complete succs l h limit hl
  exact ⟨σ, hσ, topoSort_sound _ succs l σ hσ⟩

/-- **C04 (completeness with the limit as written in the source), up to 45 propagatable leaves.** -/
theorem accepted_upto45 (succs : Nat → List Nat) (l : List Nat) (h : Acyclic succs l) (hs : l.length ≤ 45) :
    ∃ σ, topoSortCode succs l = some σ ∧ σ.Perm l ∧ Respects succs σ := by
  apply accepted_of_limit succs l h
  have h1 : l.length * (l.length - 1) ≤ 45 * 44 := Nat.mul_le_mul hs (by omega)
  have h2 : l.length * (l.length - 1) / 2 ≤ 45 * 44 / 2 := Nat.div_le_div_right h1
  have h3 : 1000 ≤ codeLimit l.length := by unfold codeLimit; exact Nat.le_max_left _ _
  omega

/-- if ANY valid evaluation order of the leaves exists, the sorter finds one (given enough passes) -/
theorem schedulable_sorted (succs : Nat → List Nat) (l τ : List Nat) (hn : l.Nodup) (hp : τ.Perm l)
    (hr : Respects succs τ) :
    ∃ σ, topoSort (l.length * (l.length - 1) / 2 + 1) succs l = some σ ∧ σ.Perm l ∧ Respects succs σ :=
  accepted_within succs l (acyclic_of_schedule succs l τ hn hp hr)

/-- and conversely acceptance (with any limit) implies acyclicity: acceptance ⇔ acyclic, for limits above n(n-1)/2 -/
theorem accepted_iff_acyclic (succs : Nat → List Nat) (l : List Nat) (hn : l.Nodup) (limit : Nat)
    (hl : l.length * (l.length - 1) / 2 < limit) :
    (∃ σ, topoSort limit succs l = some σ) ↔ Acyclic succs l := by
  constructor
  · rintro ⟨σ, hσ⟩
    have ⟨pm, hr⟩ := topoSort_sound limit succs l σ hσ
    exact acyclic_of_schedule succs l σ hn pm hr
  · intro h
    obtain ⟨σ, hσ, _⟩ := accepted_of_limit succs l h limit hl
    exact ⟨σ, hσ⟩

/-- `Acyclic` (a ranking exists) is the same as: no dependency cycle a → … → z → a among the leaves of `l`
    (self-loops included) — exactly the situations `C04.cyclic_rejected` refuses. -/
theorem acyclic_iff_noCycle (succs : Nat → List Nat) (l : List Nat) (hn : l.Nodup) :
    Acyclic succs l ↔ NoCycle succs l :=
  ⟨noCycle_of_acyclic succs l, acyclic_of_noCycle succs l hn⟩

/-- **C04 (decision).** For every netlist of at most 45 propagatable leaves, in every instantiation order, the code's
    sorter accepts (returning a dependency-respecting permutation) exactly when there is no combinational cycle. -/
theorem accepted_iff_noCycle_upto45 (succs : Nat → List Nat) (l : List Nat) (hn : l.Nodup) (hs : l.length ≤ 45) :
    (∃ σ, topoSortCode succs l = some σ) ↔ NoCycle succs l := by
  rw [← acyclic_iff_noCycle succs l hn]
  constructor
  · rintro ⟨σ, hσ⟩
    have ⟨pm, hr⟩ := topoSort_sound _ succs l σ hσ
    exact acyclic_of_schedule succs l σ hn pm hr
  · intro h
    obtain ⟨σ, hσ, _⟩ := accepted_upto45 succs l h hs
    exact ⟨σ, hσ⟩

/-! non-vacuity: the reverse chain of 4 leaves (needs 4 passes) is acyclic with rank 3-u, from the worst order -/
example : Acyclic (fun u => if u = 0 then [] else [u - 1]) [0, 1, 2, 3] :=
  ⟨fun u => 3 - u, by
    intro u hu w hw _
    simp at hu
    rcases hu with rfl | rfl | rfl | rfl <;> simp at hw <;> subst hw <;> decide⟩
example : ∃ σ, topoSortCode (fun u => if u = 0 then [] else [u - 1]) [0, 1, 2, 3] = some σ ∧ σ.Perm [0, 1, 2, 3] ∧
    Respects (fun u => if u = 0 then [] else [u - 1]) σ :=
  accepted_upto45 _ _ ⟨fun u => 3 - u, by
    intro u hu w hw _
    simp at hu
    rcases hu with rfl | rfl | rfl | rfl <;> simp at hw <;> subst hw <;> decide⟩ (by decide)

/-- certificate form: ANY ranking with fewer inversions than the pass limit guarantees acceptance (a netlist
    instantiated almost in dependency order needs few passes, whatever its size) -/
theorem accepted_of_inversions (succs : Nat → List Nat) (l : List Nat) (rk : Nat → Nat) (hr : Ranked succs l rk)
    (limit : Nat) (hi : inv rk l < limit) :
    ∃ σ, topoSort limit succs l = some σ ∧ σ.Perm l ∧ Respects succs σ := by
  obtain ⟨σ, hσ⟩ := sortLoop_complete succs rk l hr limit l (List.Perm.refl _) hi
  exact ⟨σ, hσ, topoSort_sound _ succs l σ hσ⟩

/-- with a quadratic pass limit `max 1000 (n(n-1)/2+1)` instead of `max 1000 (n+1)` the sorter would be a decision
    procedure for acyclicity at EVERY size (this is the statement a change of `maxloops` would make provable today) -/
theorem accepted_iff_noCycle_quadratic_limit (succs : Nat → List Nat) (l : List Nat) (hn : l.Nodup) :
    (∃ σ, topoSort (max 1000 (l.length * (l.length - 1) / 2 + 1)) succs l = some σ) ↔ NoCycle succs l := by
  rw [← acyclic_iff_noCycle succs l hn]
  exact accepted_iff_acyclic succs l hn _ (Nat.lt_of_lt_of_le (Nat.lt_succ_self _) (Nat.le_max_right _ _))

/-- NEGATIVE: no bound in terms of the depth (longest dependency path) is possible.  The "hourglass" m sources → hub →
    r sinks has depth 2, yet stored as [hub, sinks…, sources…] it needs exactly n = m+r+1 passes (here m = r = 3). -/
def hourglass7 : Nat → List Nat := fun u => if u = 0 then [4, 5, 6] else if u ≤ 3 then [0] else []
theorem depth2_needs_n_passes :
    topoSort 6 hourglass7 [0, 4, 5, 6, 1, 2, 3] = none ∧
    topoSort 7 hourglass7 [0, 4, 5, 6, 1, 2, 3] = some [1, 2, 3, 0, 6, 5, 4] := by decide

/-! non-vacuity of the certificate form: 3 leaves already in dependency order have 0 inversions, one pass suffices -/
example : ∃ σ, topoSort 1 (fun u => if u = 0 then [1] else if u = 1 then [2] else []) [0, 1, 2] = some σ ∧ σ.Perm [0, 1, 2] ∧
    Respects (fun u => if u = 0 then [1] else if u = 1 then [2] else []) σ :=
  accepted_of_inversions _ _ (fun u => u) (by
    intro u hu w hw _
    simp at hu
    rcases hu with rfl | rfl | rfl <;> simp at hw <;> subst hw <;> decide) 1 (by decide)

end C04
