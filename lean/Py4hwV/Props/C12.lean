import Py4hwV.Proofs.C12Int
import Py4hwV.Proofs.C12FP
import Py4hwV.Proofs.C12Ieee
import Py4hwV.Proofs.C12Enc
import Py4hwV.Proofs.C12Conv
import Py4hwV.Proofs.C12Narrow
import Py4hwV.Proofs.C12Float
/-
  C12 — Number-format helpers are bit-exact and arithmetically exact.

  (1) two's complement: theorems about the definitions GENERATED from py4hw/helper.py
      (`Gen.IntegerHelper.signed_to_c2 / c2_to_signed`, `Gen.Helper.signExtend`), all widths `w ≥ 1`, all Python ints.
      (`w ≤ 0`: `1 << (w-1)` raises ValueError in Python; the generated code is only specified for `w ≥ 1`.)
-/
namespace C12
open Py Bits Helper Helper.FPNum

/-! ### (1) two's complement -/

theorem signed_to_c2_spec (v : Int) (w : Nat) :
    Gen.IntegerHelper.signed_to_c2 v w = v % (2:Int)^w := by
  simp only [Gen.IntegerHelper.signed_to_c2, Id.run, pure]
  exact land_maskT v w

theorem c2_to_signed_spec (v : Int) (w : Nat) (hw : 1 ≤ w) :
    Gen.IntegerHelper.c2_to_signed v w = c2Signed w v := by
  have hb := emod_two_pow_bounds v w
  have hs := land_signbit_pos (v % (2:Int)^w) w hw hb.1 hb.2
  simp only [Gen.IntegerHelper.c2_to_signed, Id.run, pure, shlT_one, shlT_one_pred w hw, c2Signed, land_pow_mask]
  by_cases c : (2:Int)^(w-1) ≤ v % (2:Int)^w
  · have : Py.land (v % (2:Int)^w) ((2:Int)^(w-1)) > 0 := hs.mpr c
    have c' : ¬ (v % (2:Int)^w < (2:Int)^(w-1)) := by omega
    simp [gt_iff_lt] at this; simp [this, c']
  · have : ¬ (Py.land (v % (2:Int)^w) ((2:Int)^(w-1)) > 0) := fun h => c (hs.mp h)
    have c' : v % (2:Int)^w < (2:Int)^(w-1) := by omega
    simp only [gt_iff_lt] at this; simp [this, c']

theorem c2Signed_range (v : Int) (w : Nat) (hw : 1 ≤ w) :
    -(2:Int)^(w-1) ≤ c2Signed w v ∧ c2Signed w v < (2:Int)^(w-1) := by
  have hb := emod_two_pow_bounds v w
  have h2 := two_pow_succ_pred w hw
  unfold c2Signed
  split <;> omega

theorem c2Signed_emod (v : Int) (w : Nat) : c2Signed w v % (2:Int)^w = v % (2:Int)^w := by
  unfold c2Signed
  split
  · exact Int.emod_emod_of_dvd v (Int.dvd_refl _)
  · rw [Int.sub_emod, Int.emod_self, Int.emod_emod_of_dvd v (Int.dvd_refl _)]
    simp

/-- every result of `c2_to_signed` is a `w`-bit signed number -/
theorem c2_to_signed_range (v : Int) (w : Nat) (hw : 1 ≤ w) :
    -(2:Int)^(w-1) ≤ Gen.IntegerHelper.c2_to_signed v w ∧ Gen.IntegerHelper.c2_to_signed v w < (2:Int)^(w-1) := by
  rw [c2_to_signed_spec v w hw]; exact c2Signed_range v w hw

/-- signed → two's complement → signed is the identity on every representable value, for every width -/
theorem c2_roundtrip_signed (w : Nat) (hw : 1 ≤ w) (v : Int) (h : -(2:Int)^(w-1) ≤ v ∧ v < (2:Int)^(w-1)) :
    Gen.IntegerHelper.c2_to_signed (Gen.IntegerHelper.signed_to_c2 v w) w = v := by
  rw [signed_to_c2_spec, c2_to_signed_spec _ w hw,
      c2Signed_congr w _ v (Int.emod_emod_of_dvd v (Int.dvd_refl _))]
  exact c2Signed_of_range w hw v h

/-- two's complement → signed → two's complement is the identity on every `w`-bit pattern, for every width -/
theorem c2_roundtrip_unsigned (w : Nat) (hw : 1 ≤ w) (x : Int) (h : 0 ≤ x ∧ x < (2:Int)^w) :
    Gen.IntegerHelper.signed_to_c2 (Gen.IntegerHelper.c2_to_signed x w) w = x := by
  rw [signed_to_c2_spec, c2_to_signed_spec _ w hw, c2Signed_emod]
  exact Int.emod_eq_of_lt h.1 h.2

/-- `signExtend(v, w, nw)` (generated) is the `nw`-bit two's complement of the signed reading of the low `w` bits of `v` -/
theorem signExtend_spec (v : Int) (w nw : Nat) (hw : 1 ≤ w) (h : w ≤ nw) :
    Gen.Helper.signExtend v w nw = c2Signed w v % (2:Int)^nw := by
  have hb := emod_two_pow_bounds v w
  have h2 := two_pow_succ_pred w hw
  have hp1 := two_pow_pos_int (w-1)
  have hd : ((nw : Int) - (w : Int)).toNat = nw - w := by omega
  have hnw : (2:Int)^nw = (2:Int)^(nw - w) * (2:Int)^w := by
    rw [← Int.pow_add]; congr 1; omega
  have hpd := two_pow_pos_int (nw - w)
  simp only [Gen.Helper.signExtend, Id.run, pure, shlT_one, land_pow_mask, shrT_pred _ w hw, land_one, c2Signed]
  generalize hx : v % (2:Int)^w = x at *
  by_cases c : (2:Int)^(w-1) ≤ x
  · have hq : x / (2:Int)^(w-1) = 1 :=
      ((Int.ediv_emod_unique hp1).mpr ⟨show (x - (2:Int)^(w-1)) + (2:Int)^(w-1) * 1 = x by omega, by omega, by omega⟩).1
    have c' : ¬ (x < (2:Int)^(w-1)) := by omega
    simp only [hq, c']
    have e1 : Py.shlT (Py.shlT 1 ((nw:Int) - (w:Int)) - 1) (w:Int) = ((2:Int)^(nw-w) - 1) * (2:Int)^w := by
      simp [Py.shlT, Py.shl, hd]
    have e2 : ((1:Int) % 2 == 1) = true := by decide
    rw [e1]; simp only [e2, if_true, if_false]
    rw [lor_disjoint x _ w hb.1 hb.2 (by omega)]
    have e3 : x + ((2:Int)^(nw-w) - 1) * (2:Int)^w = (x - (2:Int)^w) + (2:Int)^nw := by
      rw [hnw, Int.sub_mul]; omega
    have hle : (2:Int)^w ≤ (2:Int)^nw := two_pow_le_int w nw h
    rw [e3]
    have : (x - (2:Int)^w + (2:Int)^nw) % (2:Int)^nw = x - (2:Int)^w + (2:Int)^nw :=
      Int.emod_eq_of_lt (by omega) (by omega)
    rw [← this, Int.add_emod_right]
  · have hq : x / (2:Int)^(w-1) = 0 := Int.ediv_eq_zero_of_lt hb.1 (by omega)
    have c' : x < (2:Int)^(w-1) := by omega
    simp only [hq, c']
    have e1 : Py.shlT 0 (w:Int) = 0 := by simp [Py.shlT, Py.shl]
    have e2 : ((0:Int) % 2 == 1) = false := by decide
    rw [e1]; simp only [e2, if_true]
    have hle : (2:Int)^w ≤ (2:Int)^nw := two_pow_le_int w nw h
    have := lor_disjoint x 0 w hb.1 hb.2 (by omega)
    simp at this; rw [this]
    exact (Int.emod_eq_of_lt hb.1 (by omega)).symm

/-- … so the signed value is preserved by sign extension -/
theorem signExtend_preserves_signed (v : Int) (w nw : Nat) (hw : 1 ≤ w) (h : w ≤ nw) :
    Gen.IntegerHelper.c2_to_signed (Gen.Helper.signExtend v w nw) nw = Gen.IntegerHelper.c2_to_signed v w := by
  rw [signExtend_spec v w nw hw h, c2_to_signed_spec _ nw (by omega), c2_to_signed_spec _ w hw,
      c2Signed_congr nw _ (c2Signed w v) (Int.emod_emod_of_dvd _ (Int.dvd_refl _))]
  have r := c2Signed_range v w hw
  have hle := two_pow_le_int (w-1) (nw-1) (by omega)
  exact c2Signed_of_range nw (by omega) _ ⟨by omega, by omega⟩

example : Gen.Helper.signExtend 5 3 8 = 253 ∧ Gen.Helper.signExtend 3 3 8 = 3 := by decide
example : Gen.IntegerHelper.signed_to_c2 (-3) 4 = 13 ∧ Gen.IntegerHelper.c2_to_signed 13 4 = -3 := by decide
example : Gen.IntegerHelper.c2_to_signed (Gen.IntegerHelper.signed_to_c2 (-128) 8) 8 = -128 := by decide

/-! ### (2) FixedPoint -/

theorem fx_ctor0 (f : FixedPoint.Fmt) (hiw : 0 ≤ f.iw) : ∃ r, FixedPoint.intToFixedPoint f 0 = some r := by
  unfold FixedPoint.intToFixedPoint
  have h1 : ¬ (f.iw < 0) := by omega
  have h2 : ¬ ((0:Int) > Py.shrT (Py.shlT 1 f.iw) 1) := by
    have h := two_pow_pos_int f.iw.toNat
    have e : Py.shrT (Py.shlT 1 f.iw) 1 = (2:Int)^f.iw.toNat / 2 := by
      simp [Py.shlT, Py.shl, Py.shrT, Py.shr, Int.shiftRight_eq_div_pow]
    rw [e]; omega
  simp [h1, h2]

theorem fx_mask (f : FixedPoint.Fmt) (w : Nat) (hwd : FixedPoint.width f = w) (x : Int) :
    Py.land x (FixedPoint.mask f) = x % (2:Int)^w := by
  unfold FixedPoint.mask; rw [hwd]; exact land_maskT x w

/-- `add` on raw encodings is the sum modulo `2^w`, for EVERY format (`iw ≥ 0`, Q0.n included since repo commit b11b379) and
    ALL Python ints `a`, `b` -/
theorem fx_add_spec (f : FixedPoint.Fmt) (w : Nat) (hwd : FixedPoint.width f = w) (hiw : 0 ≤ f.iw) (a b : Int) :
    FixedPoint.add f a b = some ((a + b) % (2:Int)^w) := by
  obtain ⟨r, hr⟩ := fx_ctor0 f hiw
  simp [FixedPoint.add, hr, fx_mask f w hwd]

theorem fx_sub_spec (f : FixedPoint.Fmt) (w : Nat) (hwd : FixedPoint.width f = w) (hiw : 0 ≤ f.iw) (a b : Int) :
    FixedPoint.sub f a b = some ((a - b) % (2:Int)^w) := by
  obtain ⟨r, hr⟩ := fx_ctor0 f hiw
  simp [FixedPoint.sub, hr, fx_mask f w hwd]

/-- `mult`: the product of the SIGNED readings of both raw encodings, truncated (floor) by `fw` bits, modulo `2^w`;
    every format of total width `w ≥ 1` (for `w = 0` `signExtend(v, 0, 0)` raises) -/
theorem fx_mult_spec (f : FixedPoint.Fmt) (w fw : Nat) (hwd : FixedPoint.width f = w) (hfw : f.fw = fw)
    (hiw : 0 ≤ f.iw) (hsw : 0 ≤ f.sw) (hw1 : 1 ≤ w) (a b : Int) :
    FixedPoint.mult f a b = some ((c2Signed w a * c2Signed w b) / (2:Int)^fw % (2:Int)^w) := by
  obtain ⟨r, hr⟩ := fx_ctor0 f hiw
  have hww : (w : Int) = f.sw + f.iw + (fw : Int) := by rw [← hwd, ← hfw]; rfl
  have hle : fw ≤ w := by omega
  have e2 : ((w : Int) * 2) = ((2 * w : Nat) : Int) := by simp; omega
  have hw1' : ¬ ((w : Int) < 1) := by omega
  simp only [FixedPoint.mult, hr, hwd, hfw, e2, bind, Option.bind, pure, fx_mask f w hwd, hw1', if_false,
    signExtend_spec _ w (2*w) hw1 (by omega)]
  have e3 : ∀ X : Int, Py.shrT X (fw : Int) = X / (2:Int)^fw := by
    intro X; simp [Py.shrT, Py.shr, Int.shiftRight_eq_div_pow]
  rw [e3]
  congr 1
  apply shr_mod_depends
  have hdvd : (2:Int)^(fw + w) ∣ (2:Int)^(2*w) := by
    have : 2 * w = (fw + w) + (w - fw) := by omega
    rw [this, Int.pow_add ((2:Int)) (fw + w) (w - fw)]; exact Int.dvd_mul_right _ _
  rw [Int.mul_emod, Int.emod_emod_of_dvd _ hdvd, Int.emod_emod_of_dvd _ hdvd, ← Int.mul_emod]

/-- formats without integer bits work (repo commit b11b379).  Q0.7 with sign: 0.25 + 0.5 = 0.75, 0.25 − 0.5 = −0.25, 0.25 · 0.5 = 0.125.
    Before that commit `FixedPoint(sw, 0, fw, 0)` evaluated `1 << -1`: all three operations raised (model: `none`) — the former
    `fx_iw0_counterexample`; `fx_*_spec` then carried `1 ≤ iw`. -/
theorem fx_iw0_works :
    FixedPoint.add ⟨1, 0, 7⟩ 0x20 0x40 = some 0x60 ∧ FixedPoint.sub ⟨1, 0, 7⟩ 0x20 0x40 = some 0xE0 ∧
    FixedPoint.mult ⟨1, 0, 7⟩ 0x20 0x40 = some 0x10 ∧
    FixedPoint.intToFixedPoint ⟨1, 0, 7⟩ 0 = some 0 ∧ FixedPoint.intToFixedPoint ⟨1, 0, 7⟩ 1 = none := by
  decide

-- non-vacuity: Q3.4 with sign: 1.5 · (−0.5) = −0.75 ; 7.9375 + 0.0625 wraps to −8
example : FixedPoint.mult ⟨1, 3, 4⟩ 0x18 0xF8 = some 0xF4 := by decide
example : FixedPoint.add ⟨1, 3, 4⟩ 0x7F 0x01 = some 0x80 := by decide
-- frac_bits = 0 (a plain signed 8-bit integer: 100 + 100 wraps to 200 = −56; (−3)·5 = −15 = 0xF1), int_bits = 0 without sign (Q0.4:
-- 0.75 · 0.25 read SIGNED = (−0.25)·0.25 = −0.0625 = 0xF), and the two degenerate one-bit formats
example : FixedPoint.add ⟨1, 7, 0⟩ 100 100 = some 200 ∧ FixedPoint.mult ⟨1, 7, 0⟩ 0xFD 5 = some 0xF1 := by decide
example : FixedPoint.mult ⟨0, 0, 4⟩ 0xC 0x4 = some 0xF ∧ FixedPoint.sub ⟨0, 0, 4⟩ 0x1 0x2 = some 0xF := by decide
example : FixedPoint.mult ⟨1, 0, 0⟩ 1 1 = some 1 ∧ FixedPoint.add ⟨0, 1, 0⟩ 1 1 = some 0 ∧ FixedPoint.mult ⟨0, 0, 1⟩ 1 1 = some 0 := by decide
example : (c2Signed 8 0x18 * c2Signed 8 0xF8) / (2:Int)^4 % (2:Int)^8 = 0xF4 := by decide

/-! ### (3) FPNum: an FPNum denotes the rational  s · m / p · 2^e  (`FPNum.value`, Helper/Spec.lean) -/

/- Remark (purity).  In this model `add`, `sub`, `mul`, `compare`, `convert` are FUNCTIONS of their operands: `a.add b` cannot change
   `a` or `b`, so every theorem below silently assumes that the real methods leave both operand objects untouched (the real `add`
   and `compare` work on fresh copies `FPNum(self.s, …)`, `FPNum(bref.s, …)` and call the in-place `increase_exponent /
   increase_precision` only on those).  That assumption is not provable here; it is CHECKED on the implementation by the harness
   oracle "operands are not modified" (harness/c12.py `oracle_arith`: components, flags and `convert(fmt)` bits of both operand objects
   are snapshotted before and compared after every add/sub/mul/compare, and the same objects are re-used in a chain of operations). -/
example (a b : FPNum) : (fun (_ : Option FPNum) => (a, b)) (a.add b) = (a, b) := rfl

/-- normalisation never changes the value, keeps the sign, and leaves `m = 0` or `p ≤ m < 2p` -/
theorem adjust_semp_preserves_value (x y : FPNum) (hp : 0 < x.p) (hm : 0 ≤ x.m) (h : adjust_semp x = some y) :
    y.value = x.value ∧ y.s = x.s ∧ 0 < y.p ∧ (y.m = 0 ∨ (y.p ≤ y.m ∧ y.m < 2 * y.p)) :=
  let a := adjust_semp_spec x y hp hm h
  ⟨a.value, a.s, a.p_pos, a.normal⟩

/-- … and its three `while` loops terminate (within the model's fuel) on every positive precision and non-negative mantissa -/
theorem adjust_semp_total (x : FPNum) (hp : 0 < x.p) (hm : 0 ≤ x.m) : ∃ y, adjust_semp x = some y :=
  adjust_semp_total' x hp hm

/-- `FPNum(s, e, m, p)` denotes s·m/p·2^e -/
theorem mk4_value (s e m p : Int) (y : FPNum) (hp : 0 < p) (hm : 0 ≤ m) (h : mk4 s e m p = some y) :
    y.value = (s : Rat) * (m : Rat) / (p : Rat) * (2 : Rat) ^ e ∧ y.s = s ∧ y.infinity = false ∧ y.nan = false :=
  let q := mk4_spec s e m p y hp hm h
  ⟨q.value, q.s, q.inf, q.nan⟩

theorem mk4_total (s e m p : Int) (hp : 0 < p) (hm : 0 ≤ m) : ∃ y, mk4 s e m p = some y := mk4_total' s e m p hp hm

/-- **exact sum**: for all finite operands, whatever `add` returns denotes the rational sum -/
theorem fpnum_add_exact (a b r : FPNum) (ha : a.Finite) (hb : b.Finite) (h : a.add b = some r) :
    r.Finite ∧ r.value = a.value + b.value := by
  unfold FPNum.add at h
  simp only [ha.notInf, ha.notNan, hb.notInf, hb.notNan, Bool.or_self, Bool.false_eq_true, if_false,
    Bool.and_self, Bool.false_and] at h
  cases h1 : mk4 a.s a.e a.m a.p with
  | none => simp [h1] at h
  | some a1 =>
    cases h2 : mk4 b.s b.e b.m b.p with
    | none => simp [h1, h2] at h
    | some b1 =>
      have q1 := mk4_spec _ _ _ _ a1 ha.prec ha.mant h1
      have q2 := mk4_spec _ _ _ _ b1 hb.prec hb.mant h2
      cases h3 : equalize a1 b1 with
      | none => simp [h1, h2, h3] at h
      | some ab =>
        obtain ⟨a2, b2⟩ := ab
        have q := equalize_spec a1 b1 a2 b2 q1.p_pos q1.m_nonneg q2.p_pos q2.m_nonneg h3
        simp only [h1, h2, h3, bind, Option.bind] at h
        have t := add_tail a2 b2 r (by rw [q.sa.s, q1.s]; exact ha.sign) (by rw [q.sb.s, q2.s]; exact hb.sign)
          q.sa.p_pos q.sa.m_nonneg q.sb.m_nonneg q.e_eq q.p_eq h
        refine ⟨t.1, ?_⟩
        rw [t.2, q.sa.value, q.sb.value, q1.value, q2.value, value_eq, value_eq]
/-- **exact difference** -/
theorem fpnum_sub_exact (a b r : FPNum) (ha : a.Finite) (hb : b.Finite) (h : a.sub b = some r) :
    r.Finite ∧ r.value = a.value - b.value := by
  unfold FPNum.sub at h
  simp only [ha.notInf, ha.notNan, hb.notInf, hb.notNan, Bool.or_self, Bool.false_eq_true, if_false,
    Bool.and_self, Bool.false_and] at h
  cases h1 : mk4 (b.s * -1) b.e b.m b.p with
  | none => rw [h1] at h; simp [bind, Option.bind] at h
  | some b1 =>
    have q1 := mk4_spec _ _ _ _ b1 hb.prec hb.mant h1
    have hs : b.s * -1 = 1 ∨ b.s * -1 = -1 := by rcases hb.sign with c | c <;> omega
    simp only [h1, bind, Option.bind] at h
    have t := fpnum_add_exact a b1 r ha (finite_of_mk4 hs q1) h
    refine ⟨t.1, ?_⟩
    rw [t.2, q1.value, val4_neg, value_eq b]; grind

/-- **exact product** -/
theorem fpnum_mul_exact (a b r : FPNum) (ha : a.Finite) (hb : b.Finite) (h : a.mul b = some r) :
    r.Finite ∧ r.value = a.value * b.value := by
  unfold FPNum.mul at h
  simp only [ha.notInf, ha.notNan, hb.notInf, hb.notNan, Bool.or_self, Bool.false_eq_true, if_false] at h
  have q := mk4_spec _ _ _ _ r (Int.mul_pos ha.prec hb.prec) (Int.mul_nonneg ha.mant hb.mant) h
  have hs : a.s * b.s = 1 ∨ a.s * b.s = -1 := by
    rcases ha.sign with c | c <;> rcases hb.sign with d | d <;> rw [c, d] <;> decide
  exact ⟨finite_of_mk4 hs q, by rw [q.value, value_eq, value_eq]; exact val4_mul _ _ _ _ _ _ _ _ ha.prec hb.prec⟩

/-- **order**: `compare` orders ALL finite values like the rationals they denote, signed zeros included
    (`compare(+0, −0) = 0` since repo commit fc3735b).
    Before that commit the code had no `if (a.m == 0 and b.m == 0): return 0`; then
    `compare {s:=1,e:=-127,m:=0,p:=1} {s:=-1,e:=-127,m:=0,p:=1} = some 1` (and `some (-1)` the other way) although both denote 0 —
    the former `fpnum_compare_signed_zero_counterexample`; the theorem then needed `¬ (a.m = 0 ∧ b.m = 0 ∧ a.s ≠ b.s)`. -/
theorem fpnum_compare_spec (a b : FPNum) (c : Int) (ha : a.Finite) (hb : b.Finite)
    (h : a.compare b = some c) :
    c = ratCmp a.value b.value := by
  unfold FPNum.compare at h
  simp only [ha.notInf, ha.notNan, hb.notInf, hb.notNan, Bool.or_self, Bool.false_eq_true, if_false,
    Bool.and_self, Bool.false_and] at h
  cases h1 : mk4 a.s a.e a.m a.p with
  | none => simp [h1] at h
  | some a1 =>
    cases h2 : mk4 b.s b.e b.m b.p with
    | none => simp [h1, h2] at h
    | some b1 =>
      have q1 := mk4_spec _ _ _ _ a1 ha.prec ha.mant h1
      have q2 := mk4_spec _ _ _ _ b1 hb.prec hb.mant h2
      cases h3 : equalize a1 b1 with
      | none => simp [h1, h2, h3] at h
      | some ab =>
        obtain ⟨a2, b2⟩ := ab
        have q := equalize_spec a1 b1 a2 b2 q1.p_pos q1.m_nonneg q2.p_pos q2.m_nonneg h3
        simp only [h1, h2, h3, bind, Option.bind] at h
        have va : a.value = val4 a2.s a2.e a2.m a2.p := by
          rw [← value_eq, q.sa.value, q1.value, value_eq]
        have vb : b.value = val4 b2.s a2.e b2.m a2.p := by
          rw [q.e_eq, q.p_eq, ← value_eq, q.sb.value, q2.value, value_eq]
        rw [va, vb, ratCmp_val4 _ _ _ _ _ _ q.sa.p_pos]
        have sa : a2.s = a.s := by rw [q.sa.s, q1.s]
        have sb : b2.s = b.s := by rw [q.sb.s, q2.s]
        have za : a.m = 0 ↔ a2.m = 0 := q1.zero.trans q.sa.zero
        have zb : b.m = 0 ↔ b2.m = 0 := q2.zero.trans q.sb.zero
        have ma := q.sa.m_nonneg
        have mb := q.sb.m_nonneg
        rw [sa, sb] at h ⊢
        unfold intCmp
        by_cases hzz : (a2.m == 0 && b2.m == 0) = true
        · rw [if_pos hzz] at h
          simp only [pure, Option.some.injEq] at h
          subst h
          simp only [Bool.and_eq_true, beq_iff_eq] at hzz
          rw [hzz.1, hzz.2]; simp
        rw [if_neg hzz] at h
        have this : ¬ (a2.m = 0 ∧ b2.m = 0) := by
          simpa only [Bool.and_eq_true, beq_iff_eq] using hzz
        rcases ha.sign with ca | ca <;> rcases hb.sign with cb | cb <;> rw [ca, cb] at h ⊢ <;>
          simp only [pure, show ((1:Int) == 1) = true by decide, show ((-1:Int) == 1) = false by decide,
            show ((1:Int) == -1) = false by decide, show ((-1:Int) == -1) = true by decide,
            Bool.and_self, Bool.and_false, Bool.false_and, Bool.false_eq_true, if_true, if_false,
            Option.some.injEq] at h
        · subst h
          simp only [beq_iff_eq]
          repeat' split
          all_goals omega
        · subst h
          repeat' split
          all_goals omega
        · subst h
          repeat' split
          all_goals omega
        · subst h
          simp only [beq_iff_eq]
          repeat' split
          all_goals omega

/-- both zeros compare equal in both directions, and denote the same rational -/
theorem fpnum_compare_signed_zero :
    FPNum.compare { s := 1, e := -127, m := 0, p := 1 } { s := -1, e := -127, m := 0, p := 1 } = some 0 ∧
    FPNum.compare { s := -1, e := -127, m := 0, p := 1 } { s := 1, e := -127, m := 0, p := 1 } = some 0 ∧
    ({ s := 1, e := -127, m := 0, p := 1 } : FPNum).value = ({ s := -1, e := -127, m := 0, p := 1 } : FPNum).value := by
  refine ⟨by decide, by decide, ?_⟩
  simp [FPNum.value]

theorem add_total (a b : FPNum) (ha : a.Finite) (hb : b.Finite) (pa : IsPow2 a.p) (pb : IsPow2 b.p) :
    ∃ r, a.add b = some r ∧ IsPow2 r.p := by
  unfold FPNum.add
  simp only [ha.notInf, ha.notNan, hb.notInf, hb.notNan, Bool.or_self, Bool.false_eq_true, if_false,
    Bool.and_self, Bool.false_and]
  obtain ⟨a1, h1, pa1⟩ := mk4_total_pow2 a.s a.e a.m a.p pa ha.mant
  obtain ⟨b1, h2, pb1⟩ := mk4_total_pow2 b.s b.e b.m b.p pb hb.mant
  have q1 := mk4_spec _ _ _ _ a1 ha.prec ha.mant h1
  have q2 := mk4_spec _ _ _ _ b1 hb.prec hb.mant h2
  obtain ⟨ab, h3, pab⟩ := equalize_total a1 b1 pa1 q1.m_nonneg pb1 q2.m_nonneg
  obtain ⟨a2, b2⟩ := ab
  have q := equalize_spec a1 b1 a2 b2 q1.p_pos q1.m_nonneg q2.p_pos q2.m_nonneg h3
  simp only [h1, h2, h3, bind, Option.bind]
  have sa : a2.s = a.s := by rw [q.sa.s, q1.s]
  have sb : b2.s = b.s := by rw [q.sb.s, q2.s]
  have ma := q.sa.m_nonneg
  have mb := q.sb.m_nonneg
  simp only at pab
  rw [sa, sb]
  rcases ha.sign with ca | ca <;> rcases hb.sign with cb | cb <;> rw [ca, cb] <;>
    simp only [show ((1:Int) == 1) = true by decide, show ((-1:Int) == 1) = false by decide,
      show ((1:Int) == -1) = false by decide, show ((-1:Int) == -1) = true by decide,
      Bool.and_self, Bool.and_false, Bool.false_and, Bool.or_false, Bool.false_or, Bool.or_self,
      Bool.false_eq_true, if_true, if_false]
  · exact mk4_total_pow2 _ _ _ _ pab (by omega)
  · split
    · exact mk4_total_pow2 _ _ _ _ pab (by omega)
    · exact mk4_total_pow2 _ _ _ _ pab (by omega)
  · split
    · exact mk4_total_pow2 _ _ _ _ pab (by omega)
    · exact mk4_total_pow2 _ _ _ _ pab (by omega)
  · exact mk4_total_pow2 _ _ _ _ pab (by omega)


/-- totality: on finite operands whose precisions are powers of two (everything the constructors from IEEE encodings /
    floats and the arithmetic itself produce) no `assert` fails, no loop diverges, and the result again has a
    power-of-two precision.  (With a precision that is not a power of two `assert(a.p == b.p)` can fail: the model returns
    `none`, the exactness theorems above then say nothing.) -/
theorem fpnum_arith_total (a b : FPNum) (ha : a.Finite) (hb : b.Finite) (pa : IsPow2 a.p) (pb : IsPow2 b.p) :
    (∃ r, a.add b = some r ∧ IsPow2 r.p) ∧ (∃ r, a.sub b = some r ∧ IsPow2 r.p) ∧
    (∃ r, a.mul b = some r ∧ IsPow2 r.p) ∧ (∃ c, a.compare b = some c) := by
  refine ⟨add_total a b ha hb pa pb, ?_, ?_, ?_⟩
  · unfold FPNum.sub
    simp only [ha.notInf, ha.notNan, hb.notInf, hb.notNan, Bool.or_self, Bool.false_eq_true, if_false,
      Bool.and_self, Bool.false_and]
    obtain ⟨b1, h1, pb1⟩ := mk4_total_pow2 (b.s * -1) b.e b.m b.p pb hb.mant
    have q1 := mk4_spec _ _ _ _ b1 hb.prec hb.mant h1
    have hs : b.s * -1 = 1 ∨ b.s * -1 = -1 := by rcases hb.sign with c | c <;> omega
    rw [h1]
    exact add_total a b1 ha (finite_of_mk4 hs q1) pa pb1
  · unfold FPNum.mul
    simp only [ha.notInf, ha.notNan, hb.notInf, hb.notNan, Bool.or_self, Bool.false_eq_true, if_false]
    obtain ⟨i, hi⟩ := pa
    obtain ⟨j, hj⟩ := pb
    exact mk4_total_pow2 _ _ _ _ ⟨i + j, by rw [hi, hj, Int.pow_add]⟩ (Int.mul_nonneg ha.mant hb.mant)
  · unfold FPNum.compare
    simp only [ha.notInf, ha.notNan, hb.notInf, hb.notNan, Bool.or_self, Bool.false_eq_true, if_false,
      Bool.and_self, Bool.false_and]
    obtain ⟨a1, h1, pa1⟩ := mk4_total_pow2 a.s a.e a.m a.p pa ha.mant
    obtain ⟨b1, h2, pb1⟩ := mk4_total_pow2 b.s b.e b.m b.p pb hb.mant
    have q1 := mk4_spec _ _ _ _ a1 ha.prec ha.mant h1
    have q2 := mk4_spec _ _ _ _ b1 hb.prec hb.mant h2
    obtain ⟨ab, h3, -⟩ := equalize_total a1 b1 pa1 q1.m_nonneg pb1 q2.m_nonneg
    obtain ⟨a2, b2⟩ := ab
    have q := equalize_spec a1 b1 a2 b2 q1.p_pos q1.m_nonneg q2.p_pos q2.m_nonneg h3
    simp only [h1, h2, h3, bind, Option.bind]
    have sa : a2.s = a.s := by rw [q.sa.s, q1.s]
    have sb : b2.s = b.s := by rw [q.sb.s, q2.s]
    rw [sa, sb]
    rcases ha.sign with ca | ca <;> rcases hb.sign with cb | cb <;> rw [ca, cb] <;>
      simp [pure] <;> split <;> exact ⟨_, rfl⟩

-- non-vacuity: 1.5 + (−0.25) = 1.25, 1.5 · (−0.25) = −0.375, compare, and the hypotheses are satisfiable
example : FPNum.add { s := 1, e := 0, m := 3, p := 2 } { s := -1, e := -2, m := 1, p := 1 }
    = some { s := 1, e := 0, m := 5, p := 4 } := by decide
example : FPNum.mul { s := 1, e := 0, m := 3, p := 2 } { s := -1, e := -2, m := 1, p := 1 }
    = some { s := -1, e := -2, m := 3, p := 2 } := by decide
example : FPNum.compare { s := 1, e := 0, m := 3, p := 2 } { s := -1, e := -2, m := 1, p := 1 } = some 1 := by decide
example : ({ s := 1, e := 0, m := 3, p := 2 } : FPNum).Finite ∧ IsPow2 2 := ⟨by decide, ⟨1, rfl⟩⟩

/-! ### (4) IEEE-754 encodings -/

/-- `sp_to_ieee754` keeps the sign of −0.0 (repo commit 8e05c48: the `copysign` lines `dp_to_ieee754_parts` always had), so the
    encode∘decode round trip holds at both zeros of both formats.
    Before that commit `sp_to_ieee754_parts` returned `0,0,0` for `m == 0` and
    `FPH.sp_to_ieee754 (FPH.ieee754_to_sp 0x80000000) = some 0` (the former `sp_encode_neg_zero_counterexample`). -/
theorem sp_encode_neg_zero :
    FPH.ieee754_to_sp 0x80000000 = .fin true ⟨0, 0⟩ ∧
    FPH.sp_to_ieee754 (FPH.ieee754_to_sp 0x80000000) = some 0x80000000 ∧
    FPH.sp_to_ieee754 (FPH.ieee754_to_sp 0) = some 0 ∧
    FPH.dp_to_ieee754 (FPH.ieee754_to_dp 0x8000000000000000) = some 0x8000000000000000 := by decide

/-! half-precision subnormals (repo commit cdf528d: `from_ieee754_hp` uses the format's minimum exponent −14).
    Before that commit the code had `e = -16`: `from_ieee754 .hp 0x0001 = some {s := 1, e := -26, m := 1024, p := 1024}` (2^-26 instead
    of 2^-24), `convert .hp` of it gave `0x0000`, and `0x03FF ↦ 0x00FF` (the former `hp_subnormal_value_counterexample` /
    `hp_subnormal_roundtrip_counterexample`). -/

/- (an exhaustive `decide +kernel` table over the 2·1024 half patterns with exponent field 0 stood here; it is superseded by the
   parametric theorems `fpnum_from_hp_value` and `fpnum_roundtrip_hp` below, which cover all 2^16 half patterns) -/

example : IEEE.decode IEEE.half 0x0001 = .fin false ⟨1, -24⟩ := by decide
example : FPNum.from_ieee754 .hp 0x0001 = some { s := 1, e := -24, m := 1024, p := 1024 } := by decide

/-- bridges: the `pack_ieee754_*_parts` functions GENERATED from the source place sign / exponent / mantissa fields -/
theorem gen_pack_sp_eq (s e m : Int) :
    Gen.C12.fpnum_pack_sp s e m = (s % 2) * (2:Int)^31 + (e % (2:Int)^8) * (2:Int)^23 + m % (2:Int)^23 := by
  have := pack_generic s e m 8 23
  simp only [Gen.C12.fpnum_pack_sp, Id.run, pure]
  exact this

theorem gen_pack_hp_eq (s e m : Int) :
    Gen.C12.fpnum_pack_hp s e m = (s % 2) * (2:Int)^15 + (e % (2:Int)^5) * (2:Int)^10 + m % (2:Int)^10 := by
  have := pack_generic s e m 5 10
  simp only [Gen.C12.fpnum_pack_hp, Id.run, pure]
  exact this

theorem gen_pack_dp_eq (s e m : Int) :
    Gen.C12.fpnum_pack_dp s e m = (s % 2) * (2:Int)^63 + (e % (2:Int)^11) * (2:Int)^52 + m % (2:Int)^52 := by
  have := pack_generic s e m 11 52
  simp only [Gen.C12.fpnum_pack_dp, Id.run, pure]
  exact this

theorem gen_fph_pack_sp_eq (s e m : Int) :
    Gen.C12.fph_pack_sp s e m = (s % 2) * (2:Int)^31 + (e % (2:Int)^8) * (2:Int)^23 + m % (2:Int)^23 := by
  have := pack_generic s e m 8 23
  simp only [Gen.C12.fph_pack_sp, Id.run, pure]
  exact this

/-- `ieee754_to_sp` / `ieee754_to_dp` are the standard's value function (`IEEE.decode`, Helper/Spec.lean) on EVERY
    32-bit / 64-bit pattern: signed zeros, subnormals, normals, infinities, NaNs -/
theorem sp_decode_spec (b : Nat) (h : b < 2^32) : FPH.ieee754_to_sp b = IEEE.decode IEEE.single b := by
  unfold FPH.ieee754_to_sp FPH.unpack_ieee754_sp_parts IEEE.decode IEEE.signOf IEEE.expOf IEEE.manOf
  simp only [shr_nat, shl_one, show ((0xFF:Int)) = (2:Int)^8 - 1 by decide, land_mask_nat]
  exact sp_decode_core b (b / 2^31) (b / 2^23 % 2^8) (b % 2^23) (by omega) (by omega) (by omega) (by omega)
theorem dp_decode_spec (b : Nat) (h : b < 2^64) : FPH.ieee754_to_dp b = IEEE.decode IEEE.double b := by
  unfold FPH.ieee754_to_dp FPH.unpack_ieee754_dp_parts IEEE.decode IEEE.signOf IEEE.expOf IEEE.manOf
  simp only [shr_nat, shl_one, show ((0x7FF:Int)) = (2:Int)^11 - 1 by decide, land_mask_nat]
  exact dp_decode_core b (b / 2^63) (b / 2^52 % 2^11) (b % 2^52) (by omega) (by omega) (by omega) (by omega)

example : FPH.ieee754_to_sp 0x3FC00000 = .fin false ⟨0xC00000, -23⟩ := by decide     -- 1.5
example : IEEE.decode IEEE.single 0x80000001 = .fin true ⟨1, -149⟩ := by decide        -- −2^-149

/-! #### encode ∘ decode (FloatingPointHelper).  The loops of `fp_to_parts` have the closed form `fp_to_parts_spec`
     (Proofs/C12Enc.lean): on `N·2^k` with `2^j ≤ N < 2^(j+1)` they end with exponent `j+k` and mantissa `N·2^-j`. -/

/-- **encode ∘ decode = id, single precision**: every non-NaN 32-bit pattern, both zeros, all subnormals, ±inf -/
theorem sp_encode_decode (b : Nat) (hb : b < 2^32) (hnan : IEEE.isNaN IEEE.single b = false) :
    FPH.sp_to_ieee754 (IEEE.decode IEEE.single b) = some (b : Int) := by
  have hs : IEEE.signOf IEEE.single b < 2 := by unfold IEEE.signOf; omega
  unfold FPH.sp_to_ieee754 FPH.sp_to_ieee754_parts
  rw [parts_of_decode FPH.spCfg IEEE.single spCfg_ok b hs hnan]
  simp only [bind, Option.bind, pure]
  have := assemble_fields (IEEE.signOf IEEE.single b) (IEEE.expOf IEEE.single b) (IEEE.manOf IEEE.single b) 8 23
    (Nat.mod_lt _ (by decide)) (Nat.mod_lt _ (by decide))
  rw [show ((8 + 23 : Nat)) = 31 from rfl] at this
  rw [this]
  congr 2
  unfold IEEE.signOf IEEE.expOf IEEE.manOf IEEE.single
  simp only
  omega

theorem dp_encode_decode (b : Nat) (hb : b < 2^64) (hnan : IEEE.isNaN IEEE.double b = false) :
    FPH.dp_to_ieee754 (IEEE.decode IEEE.double b) = some (b : Int) := by
  have hs : IEEE.signOf IEEE.double b < 2 := by unfold IEEE.signOf; omega
  unfold FPH.dp_to_ieee754 FPH.dp_to_ieee754_parts
  rw [parts_of_decode FPH.dpCfg IEEE.double dpCfg_ok b hs hnan]
  simp only [bind, Option.bind, pure]
  have := assemble_fields (IEEE.signOf IEEE.double b) (IEEE.expOf IEEE.double b) (IEEE.manOf IEEE.double b) 11 52
    (Nat.mod_lt _ (by decide)) (Nat.mod_lt _ (by decide))
  rw [show ((11 + 52 : Nat)) = 63 from rfl] at this
  rw [this]
  congr 2
  unfold IEEE.signOf IEEE.expOf IEEE.manOf IEEE.double
  simp only
  omega

/-- … composed with the decoder theorems: the helper's own round trip on every non-NaN pattern -/
theorem sp_roundtrip (b : Nat) (hb : b < 2^32) (hnan : IEEE.isNaN IEEE.single b = false) :
    FPH.sp_to_ieee754 (FPH.ieee754_to_sp b) = some (b : Int) := by
  rw [sp_decode_spec b hb]; exact sp_encode_decode b hb hnan

theorem dp_roundtrip (b : Nat) (hb : b < 2^64) (hnan : IEEE.isNaN IEEE.double b = false) :
    FPH.dp_to_ieee754 (FPH.ieee754_to_dp b) = some (b : Int) := by
  rw [dp_decode_spec b hb]; exact dp_encode_decode b hb hnan

example : IEEE.isNaN IEEE.single 0x7F800000 = false ∧ IEEE.isNaN IEEE.single 0x7FC00000 = true ∧
    IEEE.isNaN IEEE.single 0x80000001 = false := by decide

/-! #### FPNum: `convert fmt ∘ from_ieee754 fmt = id` on every non-NaN pattern of every format.
     Parametric argument (Proofs/C12Conv.lean): `adjust_semp_shape` (both m and p lose a common 2^k, then m is doubled d times),
     `stdPrec_exact` (the two standardisation loops rescale exactly), `hidden_bit`, `roundtrip_fields` (generic format). -/

/-- **FPNum round trip, single precision**: every non-NaN 32-bit pattern -/
theorem fpnum_roundtrip_sp (b : Nat) (hb : b < 2^32) (hnan : IEEE.isNaN IEEE.single b = false) :
    (FPNum.from_ieee754 .sp (b : Int)).bind (fun x => x.convert .sp) = some (b : Int) := by
  have hn := isNaN_false IEEE.single b hnan
  unfold IEEE.expOf IEEE.manOf IEEE.single at hn
  simp only at hn
  obtain ⟨x, hx, hc⟩ := roundtrip_fields 0xFF (-126) 127 23 IEEE754_SP_NAN_MANTISA (b / 2^31 % 2) (b / 2^23 % 2^8) (b % 2^23)
    (by omega) (by omega) (by omega) (by intro h; apply hn; omega) (by decide) (by decide)
  unfold FPNum.from_ieee754 FPNum.from_ieee754_sp unpack_ieee754_sp_parts
  simp only [shr_nat, shl_one, show ((0xFF:Int)) = (2:Int)^8 - 1 by decide, land_mask_nat, land_one_nat]
  rw [show ((2:Int)^8 - 1) = (0xFF : Int) by decide, hx]
  simp only [Option.bind, FPNum.convert, fmtConsts, shl_one, IEEE754_SP_INF_MANTISA]
  rw [hc]
  simp only [Option.map, pack, gen_pack_sp_eq]
  congr 1
  omega
/-- **FPNum round trip, double precision**: every non-NaN 64-bit pattern -/
theorem fpnum_roundtrip_dp (b : Nat) (hb : b < 2^64) (hnan : IEEE.isNaN IEEE.double b = false) :
    (FPNum.from_ieee754 .dp (b : Int)).bind (fun x => x.convert .dp) = some (b : Int) := by
  have hn := isNaN_false IEEE.double b hnan
  unfold IEEE.expOf IEEE.manOf IEEE.double at hn
  simp only at hn
  obtain ⟨x, hx, hc⟩ := roundtrip_fields 0x7FF (-1022) 1023 52 IEEE754_DP_NAN_MANTISA (b / 2^63 % 2) (b / 2^52 % 2^11) (b % 2^52)
    (by omega) (by omega) (by omega) (by intro h; apply hn; omega) (by decide) (by decide)
  unfold FPNum.from_ieee754 FPNum.from_ieee754_dp unpack_ieee754_dp_parts
  simp only [shr_nat, shl_one, show ((0x7FF:Int)) = (2:Int)^11 - 1 by decide, land_mask_nat, land_one_nat]
  rw [show ((2:Int)^11 - 1) = (0x7FF : Int) by decide, hx]
  simp only [Option.bind, FPNum.convert, fmtConsts, shl_one, IEEE754_DP_INF_MANTISA]
  rw [hc]
  simp only [Option.map, pack, gen_pack_dp_eq]
  congr 1
  omega
/-- **FPNum round trip, half precision**: every non-NaN 16-bit pattern -/
theorem fpnum_roundtrip_hp (b : Nat) (hb : b < 2^16) (hnan : IEEE.isNaN IEEE.half b = false) :
    (FPNum.from_ieee754 .hp (b : Int)).bind (fun x => x.convert .hp) = some (b : Int) := by
  have hn := isNaN_false IEEE.half b hnan
  unfold IEEE.expOf IEEE.manOf IEEE.half at hn
  simp only at hn
  obtain ⟨x, hx, hc⟩ := roundtrip_fields 0x1F (-14) 15 10 IEEE754_HP_NAN_MANTISA (b / 2^15 % 2) (b / 2^10 % 2^5) (b % 2^10)
    (by omega) (by omega) (by omega) (by intro h; apply hn; omega) (by decide) (by decide)
  unfold FPNum.from_ieee754 FPNum.from_ieee754_hp unpack_ieee754_hp_parts
  simp only [shr_nat, shl_one, show ((0x1F:Int)) = (2:Int)^5 - 1 by decide, land_mask_nat, land_one_nat]
  rw [show ((2:Int)^5 - 1) = (0x1F : Int) by decide, hx]
  simp only [Option.bind, FPNum.convert, fmtConsts, shl_one, IEEE754_HP_INF_MANTISA]
  rw [hc]
  simp only [Option.map, pack, gen_pack_hp_eq]
  congr 1
  omega

example : (FPNum.from_ieee754 .hp 0x0001).bind (fun x => x.convert .hp) = some 0x0001 := by decide
example : (FPNum.from_ieee754 .sp 0xFF800000).bind (fun x => x.convert .sp) = some 0xFF800000 := by decide

/-! #### what `FPNum(b, fmt)` denotes: the rational the standard assigns to `b` (`IEEE.decode`), for every finite pattern -/

/-- **decoding agrees with the standard, single precision**: for every finite pattern (exponent field ≠ 255), `FPNum(b,'sp')`
    is a finite FPNum denoting exactly the rational that IEEE 754 assigns to `b` -/
theorem fpnum_from_sp_value (b : Nat) (hfin : IEEE.expOf IEEE.single b ≠ 2^8 - 1) :
    ∃ x, FPNum.from_ieee754 .sp (b : Int) = some x ∧ x.Finite ∧ x.value = (IEEE.decode IEEE.single b).toRat := by
  unfold IEEE.expOf IEEE.single at hfin
  simp only at hfin
  obtain ⟨x, hx, hf, hv⟩ := from_parts_value 0xFF (-126) 127 23 (b / 2^31 % 2) (b / 2^23 % 2^8) (b % 2^23)
    (by omega) (by omega) (by omega)
  refine ⟨x, ?_, hf, ?_⟩
  · unfold FPNum.from_ieee754 FPNum.from_ieee754_sp unpack_ieee754_sp_parts
    simp only [shr_nat, shl_one, show ((0xFF:Int)) = (2:Int)^8 - 1 by decide, land_mask_nat, land_one_nat]
    rw [show ((2:Int)^8 - 1) = (0xFF : Int) by decide, hx]
  · rw [hv]
    unfold IEEE.decode IEEE.signOf IEEE.expOf IEEE.manOf IEEE.Format.bias IEEE.single PyFloat.toRat
    have e31 : b / 2^(8+23) = b / 2^31 := rfl
    simp only [e31]
    have hfin' : (b / 2^23 % 2^8 == 2^8 - 1) = false := by simp; omega
    simp only [hfin', Bool.false_eq_true, if_false]
    have hsgn : (if (b / 2^31 % 2 == 1) = true then (-1:Rat) else 1) = (if b / 2^31 % 2 = 0 then 1 else -1 : Rat) := by
      rcases (show b / 2^31 % 2 = 0 ∨ b / 2^31 % 2 = 1 by omega) with c | c <;> simp [c]
    by_cases ce : b / 2^23 % 2^8 = 0
    · simp only [ce, beq_self_eq_true, if_true]
      by_cases cm : b % 2^23 = 0
      · simp [cm, Dy.toRat]
      · have : (b % 2^23 == 0) = false := by simp [cm]
        simp only [this, Bool.false_eq_true, if_false, hsgn]
        congr 2
    · have : (b / 2^23 % 2^8 == 0) = false := by simp [ce]
      simp only [this, Bool.false_eq_true, if_false, ce, hsgn]
      congr 2
/-- **decoding agrees with the standard, double precision**: for every finite pattern (exponent field ≠ 2047), `FPNum(b,'dp')`
    is a finite FPNum denoting exactly the rational that IEEE 754 assigns to `b` -/
theorem fpnum_from_dp_value (b : Nat) (hfin : IEEE.expOf IEEE.double b ≠ 2^11 - 1) :
    ∃ x, FPNum.from_ieee754 .dp (b : Int) = some x ∧ x.Finite ∧ x.value = (IEEE.decode IEEE.double b).toRat := by
  unfold IEEE.expOf IEEE.double at hfin
  simp only at hfin
  obtain ⟨x, hx, hf, hv⟩ := from_parts_value 0x7FF (-1022) 1023 52 (b / 2^63 % 2) (b / 2^52 % 2^11) (b % 2^52)
    (by omega) (by omega) (by omega)
  refine ⟨x, ?_, hf, ?_⟩
  · unfold FPNum.from_ieee754 FPNum.from_ieee754_dp unpack_ieee754_dp_parts
    simp only [shr_nat, shl_one, show ((0x7FF:Int)) = (2:Int)^11 - 1 by decide, land_mask_nat, land_one_nat]
    rw [show ((2:Int)^11 - 1) = (0x7FF : Int) by decide, hx]
  · rw [hv]
    unfold IEEE.decode IEEE.signOf IEEE.expOf IEEE.manOf IEEE.Format.bias IEEE.double PyFloat.toRat
    have esh : b / 2^(11+52) = b / 2^63 := rfl
    simp only [esh]
    have hfin' : (b / 2^52 % 2^11 == 2^11 - 1) = false := by simp; omega
    simp only [hfin', Bool.false_eq_true, if_false]
    have hsgn : (if (b / 2^63 % 2 == 1) = true then (-1:Rat) else 1) = (if b / 2^63 % 2 = 0 then 1 else -1 : Rat) := by
      rcases (show b / 2^63 % 2 = 0 ∨ b / 2^63 % 2 = 1 by omega) with c | c <;> simp [c]
    by_cases ce : b / 2^52 % 2^11 = 0
    · simp only [ce, beq_self_eq_true, if_true]
      by_cases cm : b % 2^52 = 0
      · simp [cm, Dy.toRat]
      · have : (b % 2^52 == 0) = false := by simp [cm]
        simp only [this, Bool.false_eq_true, if_false, hsgn]
        congr 2
    · have : (b / 2^52 % 2^11 == 0) = false := by simp [ce]
      simp only [this, Bool.false_eq_true, if_false, ce, hsgn]
      congr 2
/-- **decoding agrees with the standard, half precision**: for every finite pattern (exponent field ≠ 31), `FPNum(b,'hp')`
    is a finite FPNum denoting exactly the rational that IEEE 754 assigns to `b` -/
theorem fpnum_from_hp_value (b : Nat) (hfin : IEEE.expOf IEEE.half b ≠ 2^5 - 1) :
    ∃ x, FPNum.from_ieee754 .hp (b : Int) = some x ∧ x.Finite ∧ x.value = (IEEE.decode IEEE.half b).toRat := by
  unfold IEEE.expOf IEEE.half at hfin
  simp only at hfin
  obtain ⟨x, hx, hf, hv⟩ := from_parts_value 0x1F (-14) 15 10 (b / 2^15 % 2) (b / 2^10 % 2^5) (b % 2^10)
    (by omega) (by omega) (by omega)
  refine ⟨x, ?_, hf, ?_⟩
  · unfold FPNum.from_ieee754 FPNum.from_ieee754_hp unpack_ieee754_hp_parts
    simp only [shr_nat, shl_one, show ((0x1F:Int)) = (2:Int)^5 - 1 by decide, land_mask_nat, land_one_nat]
    rw [show ((2:Int)^5 - 1) = (0x1F : Int) by decide, hx]
  · rw [hv]
    unfold IEEE.decode IEEE.signOf IEEE.expOf IEEE.manOf IEEE.Format.bias IEEE.half PyFloat.toRat
    have esh : b / 2^(5+10) = b / 2^15 := rfl
    simp only [esh]
    have hfin' : (b / 2^10 % 2^5 == 2^5 - 1) = false := by simp; omega
    simp only [hfin', Bool.false_eq_true, if_false]
    have hsgn : (if (b / 2^15 % 2 == 1) = true then (-1:Rat) else 1) = (if b / 2^15 % 2 = 0 then 1 else -1 : Rat) := by
      rcases (show b / 2^15 % 2 = 0 ∨ b / 2^15 % 2 = 1 by omega) with c | c <;> simp [c]
    by_cases ce : b / 2^10 % 2^5 = 0
    · simp only [ce, beq_self_eq_true, if_true]
      by_cases cm : b % 2^10 = 0
      · simp [cm, Dy.toRat]
      · have : (b % 2^10 == 0) = false := by simp [cm]
        simp only [this, Bool.false_eq_true, if_false, hsgn]
        congr 2
    · have : (b / 2^10 % 2^5 == 0) = false := by simp [ce]
      simp only [this, Bool.false_eq_true, if_false, ce, hsgn]
      congr 2

example : (IEEE.decode IEEE.half 0x0001).toRat = (1:Rat) * ((1:Int) : Rat) * (2:Rat)^(-24 : Int) := by
  simp [IEEE.decode, IEEE.signOf, IEEE.expOf, IEEE.manOf, IEEE.half, IEEE.Format.bias, PyFloat.toRat, Dy.toRat]

/-! #### widening conversions are exact (hp → sp, hp → dp, sp → dp).  Generic argument: `widen_fields` (Proofs/C12Conv.lean):
     a decoded finite non-zero number is normalised (`adjust_semp_shape`), is a NORMAL number of every wider format
     (`shape_exp_bounds`), and `convertFinite_exact_normal` only shifts its fraction bits up. -/

/-- **widening half → single is exact**: for every non-NaN half pattern `b`, `FPNum(b,'hp').convert('sp')` is a 32-bit pattern with the
    same sign bit; infinities map to the infinity of the same sign; every finite `b` maps to a finite pattern denoting the same
    rational (so ±0 ↦ ±0, and half subnormals become single normals of equal value) -/
theorem fpnum_widen_hp_sp (b : Nat) (hnan : IEEE.isNaN IEEE.half b = false) :
    ∃ x, ∃ b2 : Nat, FPNum.from_ieee754 .hp (b : Int) = some x ∧ x.convert .sp = some (b2 : Int) ∧ b2 < 2^32 ∧
      IEEE.signOf IEEE.single b2 = IEEE.signOf IEEE.half b ∧
      (IEEE.expOf IEEE.half b = 2^5 - 1 → IEEE.decode IEEE.single b2 = IEEE.decode IEEE.half b) ∧
      (IEEE.expOf IEEE.half b ≠ 2^5 - 1 → IEEE.expOf IEEE.single b2 ≠ 2^8 - 1 ∧
          (IEEE.decode IEEE.single b2).toRat = (IEEE.decode IEEE.half b).toRat) := by
  have hn : b / 2^10 % 2^5 = 31 → b % 2^10 = 0 := isNaN_false IEEE.half b hnan
  have hsrc : IEEE.signOf IEEE.half b = b / 2^15 % 2 ∧ IEEE.expOf IEEE.half b = b / 2^10 % 2^5 ∧ IEEE.manOf IEEE.half b = b % 2^10 :=
    ⟨rfl, rfl, rfl⟩
  obtain ⟨x, E2, M2, hx, hc, hM20, hM21, hcase⟩ := widen_fields 0x1F (-14) 15 127 0xFF 10 23 IEEE754_SP_NAN_MANTISA
    (b / 2^15 % 2) (b / 2^10 % 2^5) (b % 2^10) (by omega) (by omega) (by omega) (by intro h; apply hn; omega)
    (by decide) (by decide) (by decide) (by decide) (by decide) (by decide)
  have hxfrom : FPNum.from_ieee754 .hp (b : Int) = some x := by
    unfold FPNum.from_ieee754 FPNum.from_ieee754_hp unpack_ieee754_hp_parts
    simp only [shr_nat, shl_one, show ((0x1F:Int)) = (2:Int)^5 - 1 by decide, land_mask_nat, land_one_nat]
    rw [show ((2:Int)^5 - 1) = (0x1F : Int) by decide, hx]
  have hE2 : 0 ≤ E2 ∧ E2 ≤ 255 := by
    rcases hcase with ⟨_, h, _⟩ | ⟨_, _, _, h, _⟩ | ⟨_, _, h1, h2, _⟩ <;> omega
  obtain ⟨E2n, rfl⟩ := Int.eq_ofNat_of_zero_le hE2.1
  obtain ⟨M2n, rfl⟩ := Int.eq_ofNat_of_zero_le hM20
  have hM2n : M2n < 2^23 := by
    have : ((M2n : Nat) : Int) < ((2^23 : Nat) : Int) := by simpa using hM21
    exact Int.ofNat_lt.mp this
  have hE2n : E2n < 2^8 := by omega
  have hS : b / 2^15 % 2 < 2 := by omega
  obtain ⟨f1, f2, f3⟩ := fields_of_sp (b / 2^15 % 2) E2n M2n hS hE2n hM2n
  refine ⟨x, (b / 2^15 % 2) * 2^31 + E2n * 2^23 + M2n, hxfrom, ?_, by omega, by rw [f1, hsrc.1], ?_, ?_⟩
  · simp only [FPNum.convert, fmtConsts, shl_one, IEEE754_SP_INF_MANTISA]
    rw [hc]
    simp only [Option.map, pack, gen_pack_sp_eq]
    refine congrArg some ?_
    omega
  · intro he
    rw [hsrc.2.1] at he
    rcases hcase with ⟨_, h2, h3⟩ | ⟨h1, _⟩ | ⟨h1, _⟩
    · have hm := hn he
      have e2 : E2n = 2^8 - 1 := by omega
      have m2 : M2n = 0 := by omega
      rw [decode_eq_decodeF, decode_eq_decodeF, f1, f2, f3, hsrc.1, hsrc.2.1, hsrc.2.2, he, hm, e2, m2]
      simp [decodeF, IEEE.single, IEEE.half]
    · exfalso; apply h1; omega
    · exfalso; apply h1; omega
  · intro he
    rw [hsrc.2.1] at he
    rcases hcase with ⟨h1, _⟩ | ⟨_, hE0, hM0, h2, h3⟩ | ⟨_, hnz, h2, h3, hv⟩
    · exfalso; apply he; omega
    · have e2 : E2n = 0 := by omega
      have m2 : M2n = 0 := by omega
      refine ⟨by rw [f2]; omega, ?_⟩
      rw [decode_eq_decodeF, decode_eq_decodeF, f1, f2, f3, hsrc.1, hsrc.2.1, hsrc.2.2, hE0, hM0, e2, m2]
      simp [decodeF, IEEE.single, IEEE.half]
    · refine ⟨by rw [f2]; omega, ?_⟩
      obtain ⟨x', hx', -, hv'⟩ := fpnum_from_hp_value b (by rw [hsrc.2.1]; exact he)
      rw [hxfrom] at hx'
      have : x = x' := Option.some.inj hx'
      subst this
      rw [← hv', hv]
      rw [decode_eq_decodeF, f1, f2, f3]
      unfold decodeF PyFloat.toRat
      have c1 : (E2n == 2^IEEE.single.ebits - 1) = false := by simp [IEEE.single]; omega
      have c2 : (E2n == 0) = false := by simp; omega
      simp only [c1, c2, Bool.false_eq_true, if_false]
      have hsg : (if (b / 2^15 % 2 == 1) = true then (-1:Rat) else 1) = (if b / 2^15 % 2 = 0 then 1 else -1 : Rat) := by
        rcases (show b / 2^15 % 2 = 0 ∨ b / 2^15 % 2 = 1 by omega) with c | c <;> simp [c]
      rw [hsg]
      rfl
/-- **widening half → double is exact**: for every non-NaN half pattern `b`, `FPNum(b,'hp').convert('dp')` is a 64-bit pattern with the
    same sign bit; infinities map to the infinity of the same sign; every finite `b` maps to a finite pattern denoting the same
    rational (so ±0 ↦ ±0, and half subnormals become double normals of equal value) -/
theorem fpnum_widen_hp_dp (b : Nat) (hnan : IEEE.isNaN IEEE.half b = false) :
    ∃ x, ∃ b2 : Nat, FPNum.from_ieee754 .hp (b : Int) = some x ∧ x.convert .dp = some (b2 : Int) ∧ b2 < 2^64 ∧
      IEEE.signOf IEEE.double b2 = IEEE.signOf IEEE.half b ∧
      (IEEE.expOf IEEE.half b = 2^5 - 1 → IEEE.decode IEEE.double b2 = IEEE.decode IEEE.half b) ∧
      (IEEE.expOf IEEE.half b ≠ 2^5 - 1 → IEEE.expOf IEEE.double b2 ≠ 2^11 - 1 ∧
          (IEEE.decode IEEE.double b2).toRat = (IEEE.decode IEEE.half b).toRat) := by
  have hn : b / 2^10 % 2^5 = 31 → b % 2^10 = 0 := isNaN_false IEEE.half b hnan
  have hsrc : IEEE.signOf IEEE.half b = b / 2^15 % 2 ∧ IEEE.expOf IEEE.half b = b / 2^10 % 2^5 ∧ IEEE.manOf IEEE.half b = b % 2^10 :=
    ⟨rfl, rfl, rfl⟩
  obtain ⟨x, E2, M2, hx, hc, hM20, hM21, hcase⟩ := widen_fields 0x1F (-14) 15 1023 0x7FF 10 52 IEEE754_DP_NAN_MANTISA
    (b / 2^15 % 2) (b / 2^10 % 2^5) (b % 2^10) (by omega) (by omega) (by omega) (by intro h; apply hn; omega)
    (by decide) (by decide) (by decide) (by decide) (by decide) (by decide)
  have hxfrom : FPNum.from_ieee754 .hp (b : Int) = some x := by
    unfold FPNum.from_ieee754 FPNum.from_ieee754_hp unpack_ieee754_hp_parts
    simp only [shr_nat, shl_one, show ((0x1F:Int)) = (2:Int)^5 - 1 by decide, land_mask_nat, land_one_nat]
    rw [show ((2:Int)^5 - 1) = (0x1F : Int) by decide, hx]
  have hE2 : 0 ≤ E2 ∧ E2 ≤ 2047 := by
    rcases hcase with ⟨_, h, _⟩ | ⟨_, _, _, h, _⟩ | ⟨_, _, h1, h2, _⟩ <;> omega
  obtain ⟨E2n, rfl⟩ := Int.eq_ofNat_of_zero_le hE2.1
  obtain ⟨M2n, rfl⟩ := Int.eq_ofNat_of_zero_le hM20
  have hM2n : M2n < 2^52 := by
    have : ((M2n : Nat) : Int) < ((2^52 : Nat) : Int) := by simpa using hM21
    exact Int.ofNat_lt.mp this
  have hE2n : E2n < 2^11 := by omega
  have hS : b / 2^15 % 2 < 2 := by omega
  obtain ⟨f1, f2, f3⟩ := fields_of_dp (b / 2^15 % 2) E2n M2n hS hE2n hM2n
  refine ⟨x, (b / 2^15 % 2) * 2^63 + E2n * 2^52 + M2n, hxfrom, ?_, by omega, by rw [f1, hsrc.1], ?_, ?_⟩
  · simp only [FPNum.convert, fmtConsts, shl_one, IEEE754_DP_INF_MANTISA]
    rw [hc]
    simp only [Option.map, pack, gen_pack_dp_eq]
    refine congrArg some ?_
    omega
  · intro he
    rw [hsrc.2.1] at he
    rcases hcase with ⟨_, h2, h3⟩ | ⟨h1, _⟩ | ⟨h1, _⟩
    · have hm := hn he
      have e2 : E2n = 2^11 - 1 := by omega
      have m2 : M2n = 0 := by omega
      rw [decode_eq_decodeF, decode_eq_decodeF, f1, f2, f3, hsrc.1, hsrc.2.1, hsrc.2.2, he, hm, e2, m2]
      simp [decodeF, IEEE.double, IEEE.half]
    · exfalso; apply h1; omega
    · exfalso; apply h1; omega
  · intro he
    rw [hsrc.2.1] at he
    rcases hcase with ⟨h1, _⟩ | ⟨_, hE0, hM0, h2, h3⟩ | ⟨_, hnz, h2, h3, hv⟩
    · exfalso; apply he; omega
    · have e2 : E2n = 0 := by omega
      have m2 : M2n = 0 := by omega
      refine ⟨by rw [f2]; omega, ?_⟩
      rw [decode_eq_decodeF, decode_eq_decodeF, f1, f2, f3, hsrc.1, hsrc.2.1, hsrc.2.2, hE0, hM0, e2, m2]
      simp [decodeF, IEEE.double, IEEE.half]
    · refine ⟨by rw [f2]; omega, ?_⟩
      obtain ⟨x', hx', -, hv'⟩ := fpnum_from_hp_value b (by rw [hsrc.2.1]; exact he)
      rw [hxfrom] at hx'
      have : x = x' := Option.some.inj hx'
      subst this
      rw [← hv', hv]
      rw [decode_eq_decodeF, f1, f2, f3]
      unfold decodeF PyFloat.toRat
      have c1 : (E2n == 2^IEEE.double.ebits - 1) = false := by simp [IEEE.double]; omega
      have c2 : (E2n == 0) = false := by simp; omega
      simp only [c1, c2, Bool.false_eq_true, if_false]
      have hsg : (if (b / 2^15 % 2 == 1) = true then (-1:Rat) else 1) = (if b / 2^15 % 2 = 0 then 1 else -1 : Rat) := by
        rcases (show b / 2^15 % 2 = 0 ∨ b / 2^15 % 2 = 1 by omega) with c | c <;> simp [c]
      rw [hsg]
      rfl
/-- **widening single → double is exact**: for every non-NaN single pattern `b`, `FPNum(b,'sp').convert('dp')` is a 64-bit pattern with the
    same sign bit; infinities map to the infinity of the same sign; every finite `b` maps to a finite pattern denoting the same
    rational (so ±0 ↦ ±0, and single subnormals become double normals of equal value) -/
theorem fpnum_widen_sp_dp (b : Nat) (hnan : IEEE.isNaN IEEE.single b = false) :
    ∃ x, ∃ b2 : Nat, FPNum.from_ieee754 .sp (b : Int) = some x ∧ x.convert .dp = some (b2 : Int) ∧ b2 < 2^64 ∧
      IEEE.signOf IEEE.double b2 = IEEE.signOf IEEE.single b ∧
      (IEEE.expOf IEEE.single b = 2^8 - 1 → IEEE.decode IEEE.double b2 = IEEE.decode IEEE.single b) ∧
      (IEEE.expOf IEEE.single b ≠ 2^8 - 1 → IEEE.expOf IEEE.double b2 ≠ 2^11 - 1 ∧
          (IEEE.decode IEEE.double b2).toRat = (IEEE.decode IEEE.single b).toRat) := by
  have hn : b / 2^23 % 2^8 = 255 → b % 2^23 = 0 := isNaN_false IEEE.single b hnan
  have hsrc : IEEE.signOf IEEE.single b = b / 2^31 % 2 ∧ IEEE.expOf IEEE.single b = b / 2^23 % 2^8 ∧ IEEE.manOf IEEE.single b = b % 2^23 :=
    ⟨rfl, rfl, rfl⟩
  obtain ⟨x, E2, M2, hx, hc, hM20, hM21, hcase⟩ := widen_fields 0xFF (-126) 127 1023 0x7FF 23 52 IEEE754_DP_NAN_MANTISA
    (b / 2^31 % 2) (b / 2^23 % 2^8) (b % 2^23) (by omega) (by omega) (by omega) (by intro h; apply hn; omega)
    (by decide) (by decide) (by decide) (by decide) (by decide) (by decide)
  have hxfrom : FPNum.from_ieee754 .sp (b : Int) = some x := by
    unfold FPNum.from_ieee754 FPNum.from_ieee754_sp unpack_ieee754_sp_parts
    simp only [shr_nat, shl_one, show ((0xFF:Int)) = (2:Int)^8 - 1 by decide, land_mask_nat, land_one_nat]
    rw [show ((2:Int)^8 - 1) = (0xFF : Int) by decide, hx]
  have hE2 : 0 ≤ E2 ∧ E2 ≤ 2047 := by
    rcases hcase with ⟨_, h, _⟩ | ⟨_, _, _, h, _⟩ | ⟨_, _, h1, h2, _⟩ <;> omega
  obtain ⟨E2n, rfl⟩ := Int.eq_ofNat_of_zero_le hE2.1
  obtain ⟨M2n, rfl⟩ := Int.eq_ofNat_of_zero_le hM20
  have hM2n : M2n < 2^52 := by
    have : ((M2n : Nat) : Int) < ((2^52 : Nat) : Int) := by simpa using hM21
    exact Int.ofNat_lt.mp this
  have hE2n : E2n < 2^11 := by omega
  have hS : b / 2^31 % 2 < 2 := by omega
  obtain ⟨f1, f2, f3⟩ := fields_of_dp (b / 2^31 % 2) E2n M2n hS hE2n hM2n
  refine ⟨x, (b / 2^31 % 2) * 2^63 + E2n * 2^52 + M2n, hxfrom, ?_, by omega, by rw [f1, hsrc.1], ?_, ?_⟩
  · simp only [FPNum.convert, fmtConsts, shl_one, IEEE754_DP_INF_MANTISA]
    rw [hc]
    simp only [Option.map, pack, gen_pack_dp_eq]
    refine congrArg some ?_
    omega
  · intro he
    rw [hsrc.2.1] at he
    rcases hcase with ⟨_, h2, h3⟩ | ⟨h1, _⟩ | ⟨h1, _⟩
    · have hm := hn he
      have e2 : E2n = 2^11 - 1 := by omega
      have m2 : M2n = 0 := by omega
      rw [decode_eq_decodeF, decode_eq_decodeF, f1, f2, f3, hsrc.1, hsrc.2.1, hsrc.2.2, he, hm, e2, m2]
      simp [decodeF, IEEE.double, IEEE.single]
    · exfalso; apply h1; omega
    · exfalso; apply h1; omega
  · intro he
    rw [hsrc.2.1] at he
    rcases hcase with ⟨h1, _⟩ | ⟨_, hE0, hM0, h2, h3⟩ | ⟨_, hnz, h2, h3, hv⟩
    · exfalso; apply he; omega
    · have e2 : E2n = 0 := by omega
      have m2 : M2n = 0 := by omega
      refine ⟨by rw [f2]; omega, ?_⟩
      rw [decode_eq_decodeF, decode_eq_decodeF, f1, f2, f3, hsrc.1, hsrc.2.1, hsrc.2.2, hE0, hM0, e2, m2]
      simp [decodeF, IEEE.double, IEEE.single]
    · refine ⟨by rw [f2]; omega, ?_⟩
      obtain ⟨x', hx', -, hv'⟩ := fpnum_from_sp_value b (by rw [hsrc.2.1]; exact he)
      rw [hxfrom] at hx'
      have : x = x' := Option.some.inj hx'
      subst this
      rw [← hv', hv]
      rw [decode_eq_decodeF, f1, f2, f3]
      unfold decodeF PyFloat.toRat
      have c1 : (E2n == 2^IEEE.double.ebits - 1) = false := by simp [IEEE.double]; omega
      have c2 : (E2n == 0) = false := by simp; omega
      simp only [c1, c2, Bool.false_eq_true, if_false]
      have hsg : (if (b / 2^31 % 2 == 1) = true then (-1:Rat) else 1) = (if b / 2^31 % 2 = 0 then 1 else -1 : Rat) := by
        rcases (show b / 2^31 % 2 = 0 ∨ b / 2^31 % 2 = 1 by omega) with c | c <;> simp [c]
      rw [hsg]
      rfl

example : (FPNum.from_ieee754 .hp 0x0001).bind (fun x => x.convert .sp) = some 0x33800000 := by decide   -- 2^-24


/-! ### (5) narrowing conversions, `FPNum(float)`, and "every representable value gets the platform's encoding"

   Proofs/C12Narrow.lean: for EVERY normalised FPNum (the class invariant: what the constructors and add/sub/mul return) and EVERY
   target format, `convert` = sign bit + `truncFields` (`convertParts_norm`, `convertFinite_norm`; the two standardisation loops
   are `⌊m·2^c / 2^a⌋`, `stdPrec_trunc`).  `truncFields_rounds_toward_zero`: the rounding mode is truncation of the magnitude
   (`denoted ≤ |x| < denoted + ulp`), subnormal/zero below the smallest normal, infinity from `2^(emax+1)` on.
   `truncFields_of_representable` / `convert_repr_core`: a value representable in the target is converted exactly.
   Proofs/C12Float.lean: `FPNum(v)` for a Python float (`adjust_sem` + `adjust_semp`) terminates, is normalised and denotes `v`. -/

/-- **every value representable in a format is converted to the platform's encoding of it**: a normalised FPNum `x` (however it was
    produced: from an encoding of any format, from a float, by exact arithmetic) whose sign and value are those of the finite pattern
    `b` of `fmt` satisfies `x.convert(fmt) = b` — signed zeros, subnormals, normals up to the largest finite number -/
theorem fpnum_convert_representable (fmt : Fmt) (x : FPNum) (b : Nat) (hx : Normalised x)
    (hb : b < 2 ^ fmt.ieee.width) (hfin : IEEE.expOf fmt.ieee b ≠ 2 ^ fmt.ieee.ebits - 1)
    (hs : x.s = if IEEE.signOf fmt.ieee b = 0 then 1 else -1)
    (hv : x.value = (IEEE.decode fmt.ieee b).toRat) : x.convert fmt = some (b : Int) := by
  cases fmt
  · have hc := convert_repr_core IEEE.half 0x1F IEEE754_HP_NAN_MANTISA IEEE754_HP_INF_MANTISA x b hx (by decide) (by decide) hfin hs hv
    have hbias : IEEE.half.bias = 15 := by decide
    rw [hbias] at hc
    simp only [FPNum.convert, fmtConsts, shl_one]
    simp only [IEEE.half] at hc
    rw [hc]
    simp only [Option.map, pack, gen_pack_hp_eq]
    congr 1
    simp only [Fmt.ieee, IEEE.half, IEEE.Format.width] at hb
    unfold IEEE.signOf IEEE.expOf IEEE.manOf
    simp only
    omega
  · have hc := convert_repr_core IEEE.single 0xFF IEEE754_SP_NAN_MANTISA IEEE754_SP_INF_MANTISA x b hx (by decide) (by decide) hfin hs hv
    have hbias : IEEE.single.bias = 127 := by decide
    rw [hbias] at hc
    simp only [FPNum.convert, fmtConsts, shl_one]
    simp only [IEEE.single] at hc
    rw [hc]
    simp only [Option.map, pack, gen_pack_sp_eq]
    congr 1
    simp only [Fmt.ieee, IEEE.single, IEEE.Format.width] at hb
    unfold IEEE.signOf IEEE.expOf IEEE.manOf
    simp only
    omega
  · have hc := convert_repr_core IEEE.double 0x7FF IEEE754_DP_NAN_MANTISA IEEE754_DP_INF_MANTISA x b hx (by decide) (by decide) hfin hs hv
    have hbias : IEEE.double.bias = 1023 := by decide
    rw [hbias] at hc
    simp only [FPNum.convert, fmtConsts, shl_one]
    simp only [IEEE.double] at hc
    rw [hc]
    simp only [Option.map, pack, gen_pack_dp_eq]
    congr 1
    simp only [Fmt.ieee, IEEE.double, IEEE.Format.width] at hb
    unfold IEEE.signOf IEEE.expOf IEEE.manOf
    simp only
    omega


theorem decode_finite_form (f : IEEE.Format) (b : Nat) (hfin : IEEE.expOf f b ≠ 2 ^ f.ebits - 1) :
    ∃ N k : Int, 0 ≤ N ∧ IEEE.decode f b = .fin (IEEE.signOf f b == 1) ⟨N, k⟩ := by
  unfold IEEE.decode
  have c1 : (IEEE.expOf f b == 2 ^ f.ebits - 1) = false := by simp [hfin]
  simp only [c1, Bool.false_eq_true, if_false]
  split
  · split
    · exact ⟨0, 0, by omega, rfl⟩
    · exact ⟨_, _, by omega, rfl⟩
  · exact ⟨_, _, by have := two_pow_pos_int f.mbits; omega, rfl⟩

/-- `FPNum(±inf).convert(fmt)` is the infinity of that sign -/
theorem fpnum_float_inf (fmt : Fmt) (neg : Bool) :
    (FPNum.convert_float_to_semp (.inf neg)).bind (fun x => x.convert fmt) =
      some (((if neg then 1 else 0) * 2 ^ (fmt.ieee.ebits + fmt.ieee.mbits) + (2 ^ fmt.ieee.ebits - 1) * 2 ^ fmt.ieee.mbits : Nat) : Int) := by
  cases fmt <;> cases neg <;> decide

/-- **`FPNum(v).convert(fmt)` is the platform's encoding of `v`, for every `v` representable in `fmt`**: for every non-NaN pattern
    `b` of half / single / double precision, constructing an FPNum from the Python float that `b` denotes (`IEEE.decode`, the
    value `struct.unpack` returns) and converting it to that format gives back `b` — both zeros, every subnormal, the smallest
    normal, the largest finite number, both infinities -/
theorem fpnum_float_convert (fmt : Fmt) (b : Nat) (hb : b < 2 ^ fmt.ieee.width) (hnan : IEEE.isNaN fmt.ieee b = false) :
    (FPNum.convert_float_to_semp (IEEE.decode fmt.ieee b)).bind (fun x => x.convert fmt) = some (b : Int) := by
  by_cases hfin : IEEE.expOf fmt.ieee b = 2 ^ fmt.ieee.ebits - 1
  · have hm := isNaN_false fmt.ieee b hnan hfin
    have hd : IEEE.decode fmt.ieee b = .inf (IEEE.signOf fmt.ieee b == 1) := by
      unfold IEEE.decode; simp [hfin, hm]
    rw [hd, fpnum_float_inf]
    congr 2
    have hs2 : IEEE.signOf fmt.ieee b < 2 := by unfold IEEE.signOf; omega
    have hsb : (if (IEEE.signOf fmt.ieee b == 1) = true then 1 else 0) = IEEE.signOf fmt.ieee b := by
      rcases (show IEEE.signOf fmt.ieee b = 0 ∨ IEEE.signOf fmt.ieee b = 1 by omega) with c | c <;> simp [c]
    rw [hsb]
    revert hfin hm hb
    unfold IEEE.signOf IEEE.expOf IEEE.manOf IEEE.Format.width
    cases fmt <;> simp only [Fmt.ieee, IEEE.half, IEEE.single, IEEE.double] <;> omega
  · obtain ⟨N, k, hN, hd⟩ := decode_finite_form fmt.ieee b hfin
    obtain ⟨y, hy, hnorm, hys, hyv⟩ := float_to_semp_spec (IEEE.signOf fmt.ieee b == 1) N k hN
    rw [hd, hy]
    simp only [Option.bind]
    apply fpnum_convert_representable fmt y b hnorm hb hfin
    · rw [hys]
      have hs2 : IEEE.signOf fmt.ieee b < 2 := by unfold IEEE.signOf; omega
      rcases (show IEEE.signOf fmt.ieee b = 0 ∨ IEEE.signOf fmt.ieee b = 1 by omega) with c | c <;> simp [c]
    · rw [hyv, hd]

-- non-vacuity: largest half subnormal, smallest half normal, largest finite half, −0.0 and the smallest double subnormal
example : (FPNum.convert_float_to_semp (IEEE.decode IEEE.half 0x03FF)).bind (fun x => x.convert .hp) = some 0x03FF := by decide
example : (FPNum.convert_float_to_semp (IEEE.decode IEEE.half 0x0400)).bind (fun x => x.convert .hp) = some 0x0400 := by decide
example : (FPNum.convert_float_to_semp (IEEE.decode IEEE.half 0x7BFF)).bind (fun x => x.convert .hp) = some 0x7BFF := by decide
example : (FPNum.convert_float_to_semp (.fin true ⟨0, 0⟩)).bind (fun x => x.convert .sp) = some 0x80000000 := by decide
example : IEEE.isNaN Fmt.dp.ieee 1 = false ∧ 1 < 2 ^ Fmt.dp.ieee.width := by decide


/-! #### conversions between formats: exact whenever the value is representable in the target (narrowing included) -/

theorem from_parts_normalised (e_max e_sub e_bias : Int) (mb : Nat) (S E M : Nat) (hS : S < 2) (hne : (E : Int) ≠ e_max)
    (x : FPNum) (hx : from_parts (S : Int) (E : Int) (M : Int) e_max e_sub e_bias mb = some x) :
    Normalised x ∧ x.s = (if S = 0 then 1 else -1) := by
  have hmbpos := two_pow_pos_int mb
  have hsg2 : (if ((S : Int) == 0) = true then (1:Int) else -1) = 1 ∨ (if ((S : Int) == 0) = true then (1:Int) else -1) = -1 := by
    rcases (show S = 0 ∨ S = 1 by omega) with rfl | rfl <;> simp
  have hsg : (if ((S : Int) == 0) = true then (1:Int) else -1) = (if S = 0 then 1 else -1) := by
    rcases (show S = 0 ∨ S = 1 by omega) with rfl | rfl <;> simp
  unfold from_parts at hx
  have : ((E : Int) == e_max) = false := by simp [hne]
  simp only [this, Bool.false_eq_true, if_false, shl_one] at hx
  rw [set_semp_finite _ _ _ _ hmbpos] at hx
  have hm : (0:Int) ≤ (if ((E : Int) == 0) = true then (e_sub, (M : Int)) else ((E : Int) - e_bias, Py.lor ((2:Int)^mb) (M : Int))).2 := by
    split
    · show (0:Int) ≤ (M : Int); omega
    · show (0:Int) ≤ Py.lor ((2:Int)^mb) (M : Int)
      have e2 : ((2:Int)^mb) = ((2^mb : Nat) : Int) := by simp
      rw [e2, lor_ofNat]; omega
  have post := adjust_semp_spec _ x (by exact hmbpos) (by exact hm) hx
  exact ⟨normalised_of_adj hsg2 ⟨mb, rfl⟩ post rfl rfl, by rw [post.s]; exact hsg⟩

/-- `FPNum(b, fmt)` for a finite pattern: a normalised FPNum with the pattern's sign, denoting the pattern's value (all formats) -/
theorem from_ieee754_normalised (fmt : Fmt) (b : Nat) (hfin : IEEE.expOf fmt.ieee b ≠ 2 ^ fmt.ieee.ebits - 1) :
    ∃ x, FPNum.from_ieee754 fmt (b : Int) = some x ∧ Normalised x ∧
      x.s = (if IEEE.signOf fmt.ieee b = 0 then 1 else -1) ∧ x.value = (IEEE.decode fmt.ieee b).toRat := by
  cases fmt
  · obtain ⟨x, hx, -, hv⟩ := fpnum_from_hp_value b hfin
    have hx0 := hx
    unfold IEEE.expOf at hfin
    simp only [Fmt.ieee, IEEE.half] at hfin
    unfold FPNum.from_ieee754 FPNum.from_ieee754_hp unpack_ieee754_hp_parts at hx
    simp only [shr_nat, shl_one, show ((0x1F:Int)) = (2:Int)^5 - 1 by decide, land_mask_nat, land_one_nat] at hx
    rw [show ((2:Int)^5 - 1) = (0x1F : Int) by decide] at hx
    obtain ⟨hn, hs⟩ := from_parts_normalised 0x1F (-14) 15 10 (b / 2^15 % 2) (b / 2^10 % 2^5) (b % 2^10) (by omega) (by omega) x hx
    exact ⟨x, hx0, hn, hs, hv⟩
  · obtain ⟨x, hx, -, hv⟩ := fpnum_from_sp_value b hfin
    have hx0 := hx
    unfold IEEE.expOf at hfin
    simp only [Fmt.ieee, IEEE.single] at hfin
    unfold FPNum.from_ieee754 FPNum.from_ieee754_sp unpack_ieee754_sp_parts at hx
    simp only [shr_nat, shl_one, show ((0xFF:Int)) = (2:Int)^8 - 1 by decide, land_mask_nat, land_one_nat] at hx
    rw [show ((2:Int)^8 - 1) = (0xFF : Int) by decide] at hx
    obtain ⟨hn, hs⟩ := from_parts_normalised 0xFF (-126) 127 23 (b / 2^31 % 2) (b / 2^23 % 2^8) (b % 2^23) (by omega) (by omega) x hx
    exact ⟨x, hx0, hn, hs, hv⟩
  · obtain ⟨x, hx, -, hv⟩ := fpnum_from_dp_value b hfin
    have hx0 := hx
    unfold IEEE.expOf at hfin
    simp only [Fmt.ieee, IEEE.double] at hfin
    unfold FPNum.from_ieee754 FPNum.from_ieee754_dp unpack_ieee754_dp_parts at hx
    simp only [shr_nat, shl_one, show ((0x7FF:Int)) = (2:Int)^11 - 1 by decide, land_mask_nat, land_one_nat] at hx
    rw [show ((2:Int)^11 - 1) = (0x7FF : Int) by decide] at hx
    obtain ⟨hn, hs⟩ := from_parts_normalised 0x7FF (-1022) 1023 52 (b / 2^63 % 2) (b / 2^52 % 2^11) (b % 2^52) (by omega) (by omega) x hx
    exact ⟨x, hx0, hn, hs, hv⟩

/-- **conversion between ANY two formats (narrowing dp → sp, dp → hp, sp → hp included) is exact on every value representable in the
    target**: if the finite source pattern `b` and the finite target pattern `b2` have the same sign bit and denote the same
    rational, then `FPNum(b, src).convert(dst) = b2` -/
theorem fpnum_convert_between (src dst : Fmt) (b b2 : Nat)
    (hfin : IEEE.expOf src.ieee b ≠ 2 ^ src.ieee.ebits - 1)
    (hb2 : b2 < 2 ^ dst.ieee.width) (hfin2 : IEEE.expOf dst.ieee b2 ≠ 2 ^ dst.ieee.ebits - 1)
    (hsign : IEEE.signOf dst.ieee b2 = IEEE.signOf src.ieee b)
    (hval : (IEEE.decode dst.ieee b2).toRat = (IEEE.decode src.ieee b).toRat) :
    (FPNum.from_ieee754 src (b : Int)).bind (fun x => x.convert dst) = some (b2 : Int) := by
  obtain ⟨x, hx, hn, hs, hv⟩ := from_ieee754_normalised src b hfin
  rw [hx]
  simp only [Option.bind]
  exact fpnum_convert_representable dst x b2 hn hb2 hfin2 (by rw [hs, hsign]) (by rw [hv, hval])

-- non-vacuity (narrowing): the double 2^-24 is the smallest half subnormal; 65504.0 as a single is the largest finite half
example : (FPNum.from_ieee754 .dp 0x3E70000000000000).bind (fun x => x.convert .hp) = some 0x0001 := by decide
example : (FPNum.from_ieee754 .sp 0x477FE000).bind (fun x => x.convert .hp) = some 0x7BFF := by decide

/-- **the rounding mode of every conversion** (`convert` up to the final `pack`, any format given by `bias`, `emask > 0`, `mb`), for
    every normalised non-zero FPNum `x`, magnitude `|x| = m/p · 2^e`:
    * `e + bias ≥ emask` (i.e. `|x| ≥ 2^(emask − bias)`): the fields of INFINITY (overflow is not saturated to the largest finite number);
    * otherwise a finite encoding `(E, M)`, `0 ≤ E < emask`, `0 ≤ M < 2^mb`, subnormal (`E = 0`) exactly when `|x|` is below the smallest
      normal, whose magnitude is `|x|` ROUNDED TOWARD ZERO:  `denoted ≤ |x| < denoted + ulp(E)`.
    The sign bit is `0` for `x.s > 0`, else `1`.  (`struct.pack('<f', v)` rounds to nearest-even instead: the two agree exactly on the
    values representable in the target — `fpnum_convert_representable`.) -/
theorem fpnum_convert_rounds_toward_zero (bias emask : Int) (mb : Nat) (nanM infM : Int) (x : FPNum)
    (hx : Normalised x) (hm : x.m ≠ 0) (hmask : 0 < emask) :
    ∃ E M : Int, convertParts x bias emask ((2:Int)^mb) nanM infM = some (if x.s > 0 then 0 else 1, E, M) ∧
      (x.e + bias ≥ emask → E = emask ∧ M = 0) ∧
      (x.e + bias < emask → 0 ≤ E ∧ E < emask ∧ 0 ≤ M ∧ M < (2:Int)^mb ∧ (E = 0 ↔ x.e + bias < 1) ∧
        Dy.toRat (IEEE.fieldsDy bias mb E M) ≤ val4 1 x.e x.m x.p ∧
        val4 1 x.e x.m x.p < Dy.toRat (IEEE.fieldsDy bias mb E M) + (2:Rat)^(ulpExp bias mb E)) := by
  obtain ⟨a, ha⟩ := hx.pow2
  have hn : x.p ≤ x.m ∧ x.m < 2 * x.p := by
    rcases hx.normal with h | h
    · exact absurd h hm
    · exact h
  rw [ha] at hn
  refine ⟨(truncFields bias emask mb a x.e x.m).1, (truncFields bias emask mb a x.e x.m).2, ?_, ?_, ?_⟩
  · rw [convertParts_norm bias emask mb a nanM infM x hx.fin ha hx.normal hmask]
    simp [hm]
  · intro h; unfold truncFields; simp [h]
  · intro h
    rw [ha]
    exact truncFields_rounds_toward_zero bias emask mb a x.e x.m hn.1 (by rw [two_pow_succ_int]; exact hn.2) hmask h

-- non-vacuity: 1 + 2^-11 (halfway between two halfs) → half 1.0 (truncated, nearest-even gives the same); 1 + 3·2^-11 → 0x3C01
-- (nearest-even would give 0x3C02); 65520 = 2^16 − 2^4 (≥ max half, < 2^16) → 0x7BFF, not infinity; 2^16 → infinity; 2^-25 → +0
example : (FPNum.from_ieee754 .sp 0x3F801000).bind (fun x => x.convert .hp) = some 0x3C00 := by decide
example : (FPNum.from_ieee754 .sp 0x3F803000).bind (fun x => x.convert .hp) = some 0x3C01 := by decide
example : (FPNum.from_ieee754 .sp 0x477FF000).bind (fun x => x.convert .hp) = some 0x7BFF := by decide
example : (FPNum.from_ieee754 .sp 0x47800000).bind (fun x => x.convert .hp) = some 0x7C00 := by decide
example : (FPNum.from_ieee754 .sp 0xB3000000).bind (fun x => x.convert .hp) = some 0x8000 := by decide

end C12
