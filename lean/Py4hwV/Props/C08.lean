import Py4hwV.Proofs.C08Gates
import Py4hwV.Proofs.C08Wide
import Py4hwV.Proofs.C08Legal
/-
  C08 — Logic, selection and comparison blocks implement their truth tables exactly.

  Shape of every theorem:   <hypotheses on widths / arities / input ranges>  →  Lib.<block> … = Lib.LSpec.<block> …
    Lib.<block>        functional model with the SAME structure as the Python constructor (Lib/Bitwise.lean, Lib/Relational.lean),
                       over the leaf reference functions Leaf.* which are bridged to the definitions GENERATED from the Python
                       propagate() methods (Leaf.gen_*, and gen_bits*/gen_concat* below) — a semantic change of a propagate()
                       breaks its bridge, a change of a constructor breaks the model-vs-real correspondence of harness/c08.py;
    Lib.LSpec.<block>  the truth table / mathematical function (Lib/LogicSpec.lean), evaluated by the harness on the REAL outputs.
  Widths, arities, constants, select values are theorem variables; proofs are by induction over input lists / select bits
  and by bit extensionality (`eq_ofBitFn`).  The theorems themselves are in Proofs/C08Lemmas.lean (`andN_spec`, `orN_spec`)
  and Proofs/C08Gates.lean (all the others, same namespace `C08`); this file holds the generated-code bridges, the
  statements made directly about the generated leaves, and one non-vacuity instance per theorem.

  index (all in namespace C08)
    gates        and2_spec or2_spec not_spec buf_spec andN_spec orN_spec nand2_spec nor2_spec norN_spec xor2_spec xorN_spec
    bits         bit_spec range_spec bitsLSBF_spec bitsMSBF_spec concatMSBF_spec concatLSBF_spec repeat_spec bufEnable_spec
                 andBits_spec orBits_spec
    selectors    mux2_spec mux_spec demux_spec decoder_spec select_spec select_onehot oneHotDemux_spec selectDefault_spec
                 priorityEncoder_inc_spec priorityEncoder_dec_spec minterm_spec sumOfMinterms_spec swap_spec
    comparators  equal_spec equalConstant_spec equalConstant_wrap notEqualConstant_spec anyEqual_spec comparator_spec
                 comparatorSU_spec max2_spec min2_spec signedMax2_spec signedMin2_spec
    repaired     xor2_wide_fixed (former xor2_wide_counterexample, /repo commit 4cfd4ac), norN_wide_fixed (99fa1f2), nor2_wide_fixed (aa5aa9b)
    negative     equalConstant_out_of_range_counterexample priorityEncoder_docstring_counterexample
    round 8 (Proofs/C08Wide.lean): exact characterisations outside the documented domain
                 sumOfMinterms_wrap sumOfMintermsWrap_congr sumOfMintermsWrap_in_range sumOfMinterms_complement
                 priorityEncoder_general priorityEncoder_spec_of_le
                 minterm_wide equalConstant_wide equalConstantW_one notEqualConstant_wide equal_wide comparator_wide
    negative     sumOfMinterms_out_of_range_counterexample priorityEncoder_narrow_first_counterexample equal_wide_counterexample
    legality (Proofs/C08Legal.lean): constructor accepted (Lib.*Legal, tied to the real constructors by legal-vs-raises) ⇒ specification
                 andN_spec_of_legal orN_spec_of_legal norN_spec_of_legal xorN_spec_of_legal concatMSBF_spec_of_legal
                 concatLSBF_spec_of_legal bufEnable_spec_of_legal andBits_spec_of_legal orBits_spec_of_legal muxLegal_iff
                 mux_spec_of_legal demux_spec_of_legal decoder_spec_of_legal select_spec_of_legal sumOfMinterms_wrap_of_legal
                 equalConstant_wide_of_legal equal_wide_of_legal comparator_wide_of_legal comparatorSU_spec_of_legal
    negative     mux_zero_select_counterexample
-/
namespace C08
open Lib Leaf

/-! ### leaf bridges missing from Lib/Leaf.lean: bit split and concatenation (generated code = reference) -/

theorem gen_bits_elem (a i : Nat) : Py.land (Py.shrT (a:Int) (Int.ofNat i)) (1:Int) = (((a >>> i) % 2 : Nat) : Int) := by
  simp only [Py.shrT, Int.ofNat_eq_natCast, Int.toNat_natCast]
  rw [Bits.shr_ofNat, Leaf.land_one]

theorem gen_bitsLSBF (aw a : Nat) :
    (Gen.BitsLSBF.step ⟨aw⟩ ⟨⟩ ⟨a⟩ ⟨⟩).2.ol_bits = some ((Leaf.bits aw a).map fun (b : Nat) => (b : Int)) := by
  simp only [Gen.BitsLSBF.step, Id.run, pure, Leaf.bits, Int.toNat_natCast, Int.toNat_zero, Nat.sub_zero, List.map_map,
    List.range_eq_range']
  congr 1
  apply List.map_congr_left
  intro i _
  exact gen_bits_elem a i

theorem gen_bitsMSBF (aw a : Nat) :
    (Gen.BitsMSBF.step ⟨aw⟩ ⟨⟩ ⟨a⟩ ⟨⟩).2.ol_bits = some ((Leaf.bits aw a).map fun (b : Nat) => (b : Int)) := by
  simp only [Gen.BitsMSBF.step, Id.run, pure, Leaf.bits, Int.toNat_natCast, Int.toNat_zero, Nat.sub_zero, List.map_map,
    List.range_eq_range']
  congr 1
  apply List.map_congr_left
  intro i _
  exact gen_bits_elem a i

theorem concat_fold (ins : List (Nat × Nat)) (acc : Nat) :
    List.foldl (fun acc_ (lp_item : Int × Int) => Py.lor (Py.shlT acc_ lp_item.1) lp_item.2) (acc : Int)
        (ins.map fun wv => ((wv.1 : Int), (wv.2 : Int)))
      = ((ins.foldl (fun acc wv => (acc <<< wv.1) ||| wv.2) acc : Nat) : Int) := by
  induction ins generalizing acc with
  | nil => rfl
  | cons wv rest ih =>
    simp only [List.map_cons, List.foldl_cons, Py.shlT, Int.toNat_natCast]
    rw [Bits.shl_ofNat, Bits.lor_ofNat]
    exact ih _

/-- `ConcatenateMSBF.propagate` on in-range widths and values lands `Leaf.concat` -/
theorem gen_concatMSBF (rw : Nat) (ins : List (Nat × Nat)) :
    landed rw (Gen.ConcatenateMSBF.step ⟨⟩ ⟨⟩ ⟨⟩ ⟨ins.map fun wv => ((wv.1 : Int), (wv.2 : Int))⟩).2.r = Leaf.concat rw ins := by
  simp only [Gen.ConcatenateMSBF.step, Id.run, pure, landed, Leaf.concat, Option.getD]
  have := concat_fold ins 0
  simp only [Int.natCast_zero] at this
  rw [this, Bits.put_ofNat]

/-- `ConcatenateLSBF.propagate` runs the same loop (on the list reversed by the constructor) -/
theorem gen_concatLSBF (rw : Nat) (ins : List (Nat × Nat)) :
    landed rw (Gen.ConcatenateLSBF.step ⟨⟩ ⟨⟩ ⟨⟩ ⟨ins.map fun wv => ((wv.1 : Int), (wv.2 : Int))⟩).2.r = Leaf.concat rw ins := by
  simp only [Gen.ConcatenateLSBF.step, Id.run, pure, landed, Leaf.concat, Option.getD]
  have := concat_fold ins 0
  simp only [Int.natCast_zero] at this
  rw [this, Bits.put_ofNat]


/-! ### the generated leaves implement their truth tables (statements directly about `Gen.*`) -/
open Lib.LSpec

theorem gen_and2_spec (rw a b : Nat) : landed rw (Gen.And2.step ⟨⟩ ⟨⟩ ⟨a, b⟩ ⟨⟩).2.r = LSpec.andN rw [a, b] := by
  rw [Leaf.gen_and2, and2_spec]
theorem gen_or2_spec (rw a b : Nat) : landed rw (Gen.Or2.step ⟨⟩ ⟨⟩ ⟨a, b⟩ ⟨⟩).2.r = LSpec.orN rw [a, b] := by
  rw [Leaf.gen_or2, or2_spec]
theorem gen_not_spec (rw a : Nat) : landed rw (Gen.Not.step ⟨⟩ ⟨⟩ ⟨a⟩ ⟨⟩).2.r = LSpec.not1 rw a := by
  rw [Leaf.gen_not, not_spec]
theorem gen_buf_spec (rw a : Nat) : landed rw (Gen.Buf.step ⟨⟩ ⟨⟩ ⟨a⟩ ⟨⟩).2.r = LSpec.buf rw a := by
  rw [Leaf.gen_buf, buf_spec]
theorem gen_bit_spec (rw a k : Nat) (h : 1 ≤ rw) : landed rw (Gen.Bit.step ⟨k⟩ ⟨⟩ ⟨a⟩ ⟨⟩).2.r = LSpec.bit a k := by
  rw [Leaf.gen_bit, bit_spec rw a k h]
theorem gen_mux2_spec (rw sel s0 s1 : Nat) :
    landed rw (Gen.Mux2.step ⟨⟩ ⟨⟩ ⟨sel, s1, s0⟩ ⟨⟩).2.r = LSpec.mux2 rw sel s0 s1 := by
  rw [Leaf.gen_mux2, mux2_spec]
theorem gen_repeat_spec (rw i : Nat) (h : i < 2) : landed rw (Gen.Repeat.step ⟨rw⟩ ⟨⟩ ⟨i⟩ ⟨⟩).2.r = LSpec.repeat1 rw i := by
  rw [Leaf.gen_repeat, repeat_spec rw i h]
theorem gen_range_spec (rw a hi lo : Nat) (h : lo ≤ hi) :
    landed rw (Gen.Range.step ⟨hi, lo⟩ ⟨⟩ ⟨a⟩ ⟨⟩).2.r = LSpec.range rw a hi lo := by
  rw [Leaf.gen_range rw a hi lo h, range_spec]
/-- Constant(value, r) with the constant inside the range of `r` -/
theorem gen_constant_spec (rw v : Nat) (h : v < 2 ^ rw) : landed rw (Gen.Constant.step ⟨(v : Int)⟩ ⟨⟩ ⟨⟩ ⟨⟩).2.r = v := by
  rw [Leaf.gen_const]; exact Bits.put_of_lt rw v h
theorem gen_bitsLSBF_spec (aw a : Nat) :
    (Gen.BitsLSBF.step ⟨aw⟩ ⟨⟩ ⟨a⟩ ⟨⟩).2.ol_bits = some ((LSpec.bitsLSBF aw a).map fun (b : Nat) => (b : Int)) := by
  rw [gen_bitsLSBF]; congr 2; exact bitsLSBF_spec aw a
theorem gen_concatMSBF_spec (rw : Nat) (ins : List (Nat × Nat)) (hl : (ins.map (·.1)).sum ≤ rw) (h : ∀ wv ∈ ins, wv.2 < 2 ^ wv.1) :
    landed rw (Gen.ConcatenateMSBF.step ⟨⟩ ⟨⟩ ⟨⟩ ⟨ins.map fun wv => ((wv.1 : Int), (wv.2 : Int))⟩).2.r = LSpec.concatMSBF ins := by
  rw [gen_concatMSBF]; exact concatMSBF_spec rw ins hl h

/-! ### non-vacuity: every theorem instantiated on a non-trivial configuration (hypotheses discharged by evaluation) -/

example : Lib.andN 3 [7, 5, 6, 13] = 4 := by rw [andN_spec 3 _ (by decide)]; decide
example : Lib.orN 3 [1, 4, 8] = 5 := by rw [orN_spec 3 _ (by decide)]; decide
example : Lib.xorN 3 [(3, 5), (3, 3), (3, 7), (3, 1)] = 0 := by
  rw [xorN_spec 3 _ (by decide) (by decide)]; decide
example : Lib.xorN 5 [(2, 3), (4, 9), (3, 5)] = 15 := by      -- mixed widths, result wider than every input
  rw [xorN_spec 5 _ (by decide) (by decide)]; decide
example : Lib.norN 3 [1, 4] = 2 := by rw [norN_spec 3 _ (by decide)]; decide
example : Lib.norN 8 [41, 54, 127, 1] = 128 := by rw [norN_spec 8 _ (by decide)]; decide      -- former witness of C08-nor-wide
example : Lib.nand2 3 3 6 3 = 5 := by rw [nand2_spec 3 3 6 3 (by decide)]; decide
example : Lib.nor2 3 3 4 1 = 2 := by rw [nor2_spec]; decide
example : Lib.nor2 2 4 0 12 = 3 := by rw [nor2_spec]; decide      -- former witness of C08-nor2-wide
example : Lib.xor2 3 3 3 6 3 = 5 := by rw [xor2_spec 3 3 3 6 3 (by decide) (by decide)]; decide
example : Lib.xor2 8 10 9 122 1 = 123 := by      -- former witness of C08-xor2-wide: result wider than `a`
  rw [xor2_val 8 10 9 122 1 (by decide) (by decide)]; decide
example : Leaf.bit 1 10 3 = 1 := by rw [bit_spec 1 10 3 (by decide)]; decide
example : Leaf.range 3 0b110100 4 2 = 5 := by rw [range_spec]; decide
example : Lib.bitsLSBF 4 10 = [0, 1, 0, 1] := by rw [bitsLSBF_spec]; decide
example : Lib.bitsMSBF 4 10 = [1, 0, 1, 0] := by rw [bitsMSBF_spec]; decide
example : Lib.concatMSBF 6 [(2, 3), (3, 1), (1, 0)] = 0b110010 := by rw [concatMSBF_spec 6 _ (by decide) (by decide)]; decide
example : Lib.concatLSBF 6 [(2, 3), (3, 1), (1, 0)] = 0b000111 := by rw [concatLSBF_spec 6 _ (by decide) (by decide)]; decide
example : Leaf.repeat1 5 1 = 31 := by rw [repeat_spec 5 1 (by decide)]; decide
example : Lib.bufEnable 4 11 1 = 11 ∧ Lib.bufEnable 4 11 0 = 0 := by
  rw [bufEnable_spec 4 11 1 (by decide), bufEnable_spec 4 11 0 (by decide)]; decide
example : Lib.andBits 4 1 15 = 1 ∧ Lib.andBits 4 1 14 = 0 := by
  rw [andBits_spec 4 1 15 (by decide) (by decide) (by decide), andBits_spec 4 1 14 (by decide) (by decide) (by decide)]; decide
example : Lib.orBits 4 1 8 = 1 ∧ Lib.orBits 4 1 0 = 0 := by
  rw [orBits_spec 4 1 8 (by decide) (by decide) (by decide), orBits_spec 4 1 0 (by decide) (by decide) (by decide)]; decide
example : Lib.mux 4 3 5 [10, 11, 12, 13, 14, 15, 0, 1] = 15 := by
  rw [mux_spec 4 3 5 _ (by decide) (by decide) (by decide)]; decide
example : Lib.demux 3 2 5 2 = [0, 0, 5, 0] := by rw [demux_spec 3 2 5 2 (by decide) (by decide)]; decide
example : Lib.decoder 3 6 8 = [0, 0, 0, 0, 0, 0, 1, 0] := by rw [decoder_spec 3 6 8 (by decide) (by decide) (by decide)]; decide
example : Lib.select 4 [0, 1, 0] [(4, 9), (4, 6), (4, 15)] = 6 := by
  rw [select_spec 4 _ _ (by decide) (by decide) (by decide)]; decide
example : Lib.select 4 [0, 0, 1] [(4, 9), (4, 6), (4, 13)] = 13 := by
  rw [select_spec 4 _ _ (by decide) (by decide) (by decide), select_onehot 4 _ _ 2 (by decide) (by decide) (by decide)]; decide
example : Lib.oneHotDemux 4 9 [0, 1, 0] [4, 4, 4] = [0, 9, 0] := by rw [oneHotDemux_spec 4 9 _ _ (by decide)]; decide
example : Lib.selectDefault 4 [0, 1, 1] [3, 5, 7] 9 = 5 ∧ Lib.selectDefault 4 [0, 0, 0] [3, 5, 7] 9 = 9 := by
  rw [selectDefault_spec, selectDefault_spec]; decide
example : Lib.priorityEncoder 1 1 true [1, 0, 1, 1, 0] = [0, 0, 0, 1, 0] := by rw [priorityEncoder_inc_spec]; decide
example : Lib.priorityEncoder 1 1 false [0, 1, 1, 0, 1] = [0, 1, 0, 0, 0] := by rw [priorityEncoder_dec_spec]; decide
example : Lib.priorityEncoder 1 1 true [1, 1, 1, 1, 1, 1, 1] = [0, 0, 0, 0, 0, 0, 1] := by   -- Test_PriorityEncoder: 127 → 64
  rw [priorityEncoder_inc_spec]; decide
example : Lib.minterm 1 [1, 0, 1] 5 = 1 ∧ Lib.minterm 1 [1, 1, 1] 5 = 0 ∧ Lib.minterm 1 [1, 1, 1] (-1) = 1 := by
  rw [minterm_spec 1 _ 5 (by decide) (by decide) (by decide), minterm_spec 1 _ 5 (by decide) (by decide) (by decide),
    minterm_spec 1 _ (-1) (by decide) (by decide) (by decide)]; decide
example : Lib.sumOfMinterms 3 1 5 [1, 5, 6] = 1 ∧ Lib.sumOfMinterms 3 1 4 [1, 5, 6] = 0 := by
  rw [sumOfMinterms_spec 3 1 5 _ (by decide) (by decide) (by decide) (by decide) (by decide),
    sumOfMinterms_spec 3 1 4 _ (by decide) (by decide) (by decide) (by decide) (by decide)]; decide
example : Lib.equalConstant 4 1 11 11 = 1 ∧ Lib.equalConstant 4 1 11 3 = 0 := by
  rw [equalConstant_spec 4 11 11 (by decide) (by decide) (by decide) (by decide),
    equalConstant_spec 4 11 3 (by decide) (by decide) (by decide) (by decide)]; decide
example : Lib.equalConstant 3 1 5 13 = 1 ∧ Lib.equalConstant 3 1 7 (-1) = 1 := by      -- wrap-around: 13 mod 8 = 5, −1 mod 8 = 7
  rw [equalConstant_wrap 3 5 13 (by decide) (by decide), equalConstant_wrap 3 7 (-1) (by decide) (by decide)]; decide
example : Lib.notEqualConstant 4 1 11 3 = 1 := by
  rw [notEqualConstant_spec 4 11 3 (by decide) (by decide) (by decide) (by decide)]; decide
example : Lib.equal 4 4 1 9 9 = 1 ∧ Lib.equal 4 4 1 9 8 = 0 := by
  rw [equal_spec 4 4 9 9 (by decide) (by decide) (by decide) (by decide),
    equal_spec 4 4 9 8 (by decide) (by decide) (by decide) (by decide)]; decide
example : Lib.anyEqual 1 [(3, 1), (3, 5), (3, 1)] = 1 ∧ Lib.anyEqual 1 [(3, 1), (3, 5), (3, 2)] = 0 := by
  rw [anyEqual_spec 3 1 _ (by decide) (by decide) (by decide) (by decide),
    anyEqual_spec 3 1 _ (by decide) (by decide) (by decide) (by decide)]; decide
example : Lib.comparator 4 1 1 9 5 = (1, 0, 0) ∧ Lib.comparator 4 1 1 5 9 = (0, 0, 1) ∧ Lib.comparator 4 1 1 7 7 = (0, 1, 0) := by
  rw [comparator_spec 4 9 5 (by decide) (by decide), comparator_spec 4 5 9 (by decide) (by decide),
    comparator_spec 4 7 7 (by decide) (by decide)]; decide
example : Lib.comparatorSU 4 9 5 = (1, 0, 0, 0, 1) := by      -- 9 > 5 unsigned, but 9 = −7 < 5 signed
  rw [comparatorSU_spec 4 9 5 (by decide) (by decide) (by decide)]; decide
example : Lib.max2 4 4 9 5 = 9 ∧ Lib.min2 4 4 9 5 = 5 := by
  rw [max2_spec 4 4 9 5 (by decide) (by decide), min2_spec 4 4 9 5 (by decide) (by decide)]; decide
example : Lib.signedMax2 4 4 9 5 = 5 ∧ Lib.signedMin2 4 4 9 5 = 9 := by
  rw [signedMax2_spec 4 4 9 5 (by decide) (by decide) (by decide), signedMin2_spec 4 4 9 5 (by decide) (by decide) (by decide)]; decide
-- round 8: outside the documented domain
example : Lib.sumOfMinterms 3 1 5 [13, 5, -3, 13] = 1 ∧ Lib.sumOfMinterms 3 1 4 [13, 5, -3, 13] = 0 := by   -- 13, −3 wrap to 5
  rw [sumOfMinterms_wrap 3 1 5 _ (by decide) (by decide) (by decide) (by decide),
    sumOfMinterms_wrap 3 1 4 _ (by decide) (by decide) (by decide) (by decide)]; decide
example : Lib.sumOfMinterms 2 1 3 [0, 1, 2] = 0 := by      -- dense list without the all-ones value (seed C08m), input all ones
  rw [sumOfMinterms_wrap 2 1 3 _ (by decide) (by decide) (by decide) (by decide)]; decide
example : LSpec.sumOfMinterms 3 [0, 1, 2] = 1 - LSpec.sumOfMinterms 3 [3] :=
  sumOfMinterms_complement 2 3 [3] [0, 1, 2] (by decide) (by decide)
example : Lib.priorityEncoder 1 2 false [0, 2, 3] = [0, 0, 1] := by rw [priorityEncoder_general]; decide
example : Lib.priorityEncoder 3 2 true [5, 2, 9, 4] = [0, 2, 1, 0] := by      -- 2-bit outputs, 3-bit helper wires, wider inputs
  rw [priorityEncoder_spec_of_le 3 2 true _ (by decide)]; decide
example : Lib.minterm 3 [1, 0, 1] 5 = 1 := by rw [minterm_wide 3 _ 5 (by decide) (by decide)]; decide
example : Lib.equalConstant 1 3 0 0 = 7 ∧ Lib.equalConstant 1 3 1 0 = 6 ∧ Lib.equalConstant 3 2 5 13 = 1 := by
  rw [equalConstant_wide 1 3 0 0 (by decide) (by decide), equalConstant_wide 1 3 1 0 (by decide) (by decide),
    equalConstant_wide 3 2 5 13 (by decide) (by decide)]; decide
example : Lib.notEqualConstant 2 3 2 2 = 6 ∧ Lib.notEqualConstant 2 3 1 2 = 7 := by
  rw [notEqualConstant_wide 2 3 2 2 (by decide) (by decide), notEqualConstant_wide 2 3 1 2 (by decide) (by decide)]; decide
example : Lib.equal 2 2 2 1 1 = 3 ∧ Lib.equal 2 2 2 1 2 = 2 := by
  rw [equal_wide 2 2 2 1 1 (by decide) (by decide) (by decide) (by decide),
    equal_wide 2 2 2 1 2 (by decide) (by decide) (by decide) (by decide)]; decide
example : Lib.comparator 2 2 3 3 1 = (1, 0, 0) ∧ Lib.comparator 0 2 2 0 0 = (0, 3, 0) := by
  rw [comparator_wide 2 2 3 3 1 (by decide) (by decide) (by decide), comparator_wide 0 2 2 0 0 (by decide) (by decide) (by decide)]; decide
-- legality: the hypotheses are the decidable predicates evaluated by the driver
example : Lib.andN 3 [7, 5, 6] = 4 := by rw [andN_spec_of_legal 3 _ (by decide)]; decide
example : Lib.xorN 3 [(3, 5), (2, 3), (3, 7)] = 1 := by rw [xorN_spec_of_legal 3 _ (by decide) (by decide)]; decide
example : Lib.concatLSBF 6 [(2, 3), (3, 1), (1, 0)] = 0b000111 := by rw [concatLSBF_spec_of_legal 6 _ (by decide) (by decide)]; decide
example : Lib.bufEnable 4 11 1 = 11 := by rw [bufEnable_spec_of_legal 4 1 4 11 1 (by decide) (by decide)]; decide
example : muxLegal 3 8 = true ∧ muxLegal 1 3 = true ∧ muxLegal 0 1 = true ∧ muxLegal 2 3 = false ∧ muxLegal 2 5 = false := by decide
example : Lib.mux 4 3 5 [10, 11, 12, 13, 14, 15, 0, 1] = 15 := by rw [mux_spec_of_legal 4 3 5 _ (by decide) (by decide) (by decide)]; decide
example : Lib.demux 3 2 5 2 = [0, 0, 5, 0] := by rw [demux_spec_of_legal 3 2 5 2 4 (by decide) (by decide)]; decide
example : Lib.decoder 3 6 5 = [0, 0, 0, 0, 0] := by rw [decoder_spec_of_legal 3 6 5 (by decide) (by decide) (by decide)]; decide
example : Lib.select 4 [0, 1] [(4, 9), (4, 6), (4, 15)] = 6 := by rw [select_spec_of_legal 4 _ _ (by decide) (by decide)]; decide
example : Lib.sumOfMinterms 3 1 5 [13, -3] = 1 := by rw [sumOfMinterms_wrap_of_legal 3 1 5 _ (by decide) (by decide) (by decide)]; decide
example : Lib.comparator 3 1 2 6 6 = (0, 1, 0) := by rw [comparator_wide_of_legal 3 3 1 2 6 6 (by decide) (by decide) (by decide) (by decide)]; decide
example : Lib.comparatorSU 4 9 5 = (1, 0, 0, 0, 1) := by rw [comparatorSU_spec_of_legal 4 4 9 5 (by decide) (by decide) (by decide)]; decide
example : Lib.swap 4 4 3 8 1 = (8, 3) ∧ Lib.swap 4 4 3 8 0 = (3, 8) := by rw [swap_spec, swap_spec]; decide

end C08
