import Py4hwV.Proofs.C01Cert3
import Py4hwV.Proofs.C01HierElab
/-
  C01 — design level, GENERALISED: children that are several leaves / several assigns (BitsLSBF, BitsMSBF, Nand2, Nor2, Xor2),
  and ONE level of structural hierarchy (instances of structural sub-modules, each with its own Reg instances).

  * `cert_run` / `cert_powerup`  the C01 statement for ANY flattened text that carries a checked certificate `CertSrc`
       (a table name ↦ net, one tag per assign, registers under arbitrary instance prefixes, clock aliases).
  * `hier_elab`                  `V.flatten (HierSrc.emit S) = (HierSrc.cert S).flat`: instances of sub-modules become prefixed
       copies of their bodies plus the port-connection assigns; `V.mkSim` of the emitted module list is the certified text.
  * `hier_text_run` / `hier_text_powerup`   C01 on the emitted text of a hierarchical design: all widths, every input
       history from power-up, shipped interpreter (`V.Sim.cycle`).
  The tie to the real generator is, as for `C01Flat.text_run`, the per-design decidable check `parsed text = S.emit`
  (lean/Drv/C01Hier.lean, streams `hier_text_*` of harness/c01.py).
-/
namespace C01Hier
open V FlatM Net

/-- **C01 for a certified flattened text** -/
theorem cert_run (C : CertSrc) (h : C.check = true) (ops : List Op) (hops : ∀ op, op ∈ ops → C.OpOK op) (n : Nat)
    (hg : GoodRun C.netD (initC C.netD.design C.netD.st0 C.netD.cons) (ops ++ [Op.clk (n + 1)])) :
    ((C.zeroOps ++ (ops ++ [Op.clk (n + 1)])).foldl C.shipOp C.certSim).errors = [] ∧
    ∀ nm k, C.net nm = some k →
      ((C.zeroOps ++ (ops ++ [Op.clk (n + 1)])).foldl C.shipOp C.certSim).st.rd.val nm =
        ⟨C.wd k, (runC C.netD.design C.netD.st0 C.netD.cons (ops ++ [Op.clk (n + 1)])).val k, true⟩ :=
  CertSrc.cert_run h ops hops n hg

theorem cert_powerup (C : CertSrc) (h : C.check = true) (hg : C.netD.good (initC C.netD.design C.netD.st0 C.netD.cons).val) :
    (C.zeroOps.foldl C.shipOp C.certSim).settle.errors = [] ∧
    ∀ nm k, C.net nm = some k →
      (C.zeroOps.foldl C.shipOp C.certSim).settle.st.rd.val nm =
        ⟨C.wd k, (initC C.netD.design C.netD.st0 C.netD.cons).val k, true⟩ :=
  CertSrc.cert_powerup h hg

/-- **flattening**: the emitted module list (top module, structural sub-modules, register modules; every module name
    once) flattens to the certificate's text, and `V.mkSim` of it is the certified simulator -/
theorem hier_elab (S : HierSrc) (h : S.modsOKb = true) :
    flatten S.emit S.top.mname = S.cert.flat ∧ mkSim S.emit S.top.mname S.clk = S.cert.certSim := by
  have hf := HierSrc.flatten_emitH S h
  refine ⟨hf, ?_⟩
  rw [FlatM.mkSim_eq, hf]
  rfl

/-- a top-level port name denotes its net -/
def HierSrc.portNet (S : HierSrc) (pn : String) : Option Nat := S.cert.net ("" ++ pn)

/-- **C01 on the emitted text of a design with one level of structural hierarchy** -/
theorem hier_text_run (S : HierSrc) (h : S.check = true) (ops : List Op) (hops : ∀ op, op ∈ ops → S.cert.OpOK op) (n : Nat)
    (hg : GoodRun S.cert.netD (initC S.cert.netD.design S.cert.netD.st0 S.cert.netD.cons) (ops ++ [Op.clk (n + 1)])) :
    ((S.cert.zeroOps ++ (ops ++ [Op.clk (n + 1)])).foldl S.cert.shipOp (mkSim S.emit S.top.mname S.clk)).errors = [] ∧
    ∀ nm k, S.cert.net nm = some k →
      ((S.cert.zeroOps ++ (ops ++ [Op.clk (n + 1)])).foldl S.cert.shipOp (mkSim S.emit S.top.mname S.clk)).st.rd.val nm =
        ⟨S.wd k, (runC S.cert.netD.design S.cert.netD.st0 S.cert.netD.cons (ops ++ [Op.clk (n + 1)])).val k, true⟩ := by
  simp only [HierSrc.check, Bool.and_eq_true] at h
  rw [(hier_elab S h.1).2]
  exact CertSrc.cert_run h.2 ops hops n hg

theorem hier_text_powerup (S : HierSrc) (h : S.check = true)
    (hg : S.cert.netD.good (initC S.cert.netD.design S.cert.netD.st0 S.cert.netD.cons).val) :
    (S.cert.zeroOps.foldl S.cert.shipOp (mkSim S.emit S.top.mname S.clk)).settle.errors = [] ∧
    ∀ nm k, S.cert.net nm = some k →
      (S.cert.zeroOps.foldl S.cert.shipOp (mkSim S.emit S.top.mname S.clk)).settle.st.rd.val nm =
        ⟨S.wd k, (initC S.cert.netD.design S.cert.netD.st0 S.cert.netD.cons).val k, true⟩ := by
  simp only [HierSrc.check, Bool.and_eq_true] at h
  rw [(hier_elab S h.1).2]
  exact CertSrc.cert_powerup h.2 hg

/-- a design without Div / Mod: no side condition remains -/
theorem hier_text_run_divfree (S : HierSrc) (h : S.check = true) (hd : S.cert.divFree = true) (ops : List Op)
    (hops : ∀ op, op ∈ ops → S.cert.OpOK op) (n : Nat) :
    ((S.cert.zeroOps ++ (ops ++ [Op.clk (n + 1)])).foldl S.cert.shipOp (mkSim S.emit S.top.mname S.clk)).errors = [] ∧
    ∀ nm k, S.cert.net nm = some k →
      ((S.cert.zeroOps ++ (ops ++ [Op.clk (n + 1)])).foldl S.cert.shipOp (mkSim S.emit S.top.mname S.clk)).st.rd.val nm =
        ⟨S.wd k, (runC S.cert.netD.design S.cert.netD.st0 S.cert.netD.cons (ops ++ [Op.clk (n + 1)])).val k, true⟩ :=
  hier_text_run S h ops hops n (goodRun_of_all _ (CertSrc.good_of_divFree hd) _ _)

theorem hier_text_powerup_divfree (S : HierSrc) (h : S.check = true) (hd : S.cert.divFree = true) :
    (S.cert.zeroOps.foldl S.cert.shipOp (mkSim S.emit S.top.mname S.clk)).settle.errors = [] ∧
    ∀ nm k, S.cert.net nm = some k →
      (S.cert.zeroOps.foldl S.cert.shipOp (mkSim S.emit S.top.mname S.clk)).settle.st.rd.val nm =
        ⟨S.wd k, (initC S.cert.netD.design S.cert.netD.st0 S.cert.netD.cons).val k, true⟩ :=
  hier_text_powerup S h (CertSrc.good_of_divFree hd _)

end C01Hier
