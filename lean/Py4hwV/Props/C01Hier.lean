import Py4hwV.Proofs.C01Cert3
import Py4hwV.Proofs.C01HierElab
import Py4hwV.Proofs.C01CertIR
/-
  C01 — design level, GENERALISED.

  Children of a structural block may be (`FlatM.GKind`) any inlinable primitive, or a block that is SEVERAL simulator leaves
  and/or SEVERAL assigns: BitsLSBF / BitsMSBF (one leaf, one put and one assign per bit), And / Or / Nor of any arity (a Buf
  or a ladder of And2 / Or2 through internal wires; one `a & b & …` assign), Nand2 / Nor2 / Xor2 (two / eight leaves, one assign),
  Equal and EqualConstant (Xor2 + BitsLSBF + Nor, BitsLSBF + Minterm; one `(a == b)? 1:0` assign; inside the domain where text
  and simulator agree — the classes of the known findings C01-equal-irregular / C01-equalconst-oversized fail `GKind.okb`),
  Div / Mod (claimed where the divisor is not 0 at every settle: `NetD.good`, `FlatM.GoodRun`), Reg — or INSTANCES of structural
  sub-blocks of the same shape, to ANY nesting depth (`FlatM.HierSrc`, `FlatM.ModN`).

  * `cert_run` / `cert_powerup`  the C01 statement for ANY flattened text that carries a checked certificate `CertSrc`
       (a table name ↦ net, one tag per assign, registers under arbitrary instance prefixes, clock aliases).
  * `hier_elab`                  `V.flatten (HierSrc.emit S) = (HierSrc.cert S).flat`: instances of sub-modules become prefixed
       copies of their bodies plus the port-connection assigns, recursively (`FlatM.HierSrc.lowN_ok`: induction on the depth,
       every level is `Low.up` of the level below); `V.mkSim` of the emitted module list is the certified simulator.
  * `hier_text_run` / `hier_text_powerup`   C01 on the emitted text of a hierarchical design: all widths, every input
       history from power-up on which no divisor is 0 at a settle, shipped interpreter (`V.Sim.cycle`);
    `hier_text_run_divfree` / `hier_text_powerup_divfree`: no side condition for designs without Div / Mod.
  * leaves ↔ netlist IR: `FlatM.kind_inst_prop` (single-output leaves), `FlatM.bitsL_inst_prop`, `bitsM_inst_prop`, `dm_inst_prop`
       (Proofs/C01CertIR.lean): the puts of the `CLeaf`s are the puts of the IR leaves harness/dump_ir.py exports.
  The tie to the real generator is, as for `C01Flat.text_run`, the per-design decidable check `parsed text = S.emit`
  (lean/Drv/C01Hier.lean, streams `hier_text_*` of harness/c01.py).
-/
namespace C01Hier
open V FlatM Net

/-- **C01 for a certified flattened text** -/
theorem cert_run (C : CertSrc) (h : C.check = true) (ops : List Op) (hops : ∀ op, op ∈ ops → C.OpOK op) (n : Nat)
    (hg : GoodRun C.netD (initC C.netD.design C.netD.st0 C.netD.cons) (ops ++ [Op.clk (n + 1)])) :
    ((C.zeroOps ++ (ops ++ [Op.clk (n + 1)])).foldl C.shipOp C.certSim).errors = [] ∧
    ∀ nm k, C.net nm = some k →
      ((C.zeroOps ++ (ops ++ [Op.clk (n + 1)])).foldl C.shipOp C.certSim).st.rd.val nm =
        ⟨C.wd k, (runC C.netD.design C.netD.st0 C.netD.cons (ops ++ [Op.clk (n + 1)])).val k, true⟩ :=
  CertSrc.cert_run h ops hops n hg

theorem cert_powerup (C : CertSrc) (h : C.check = true) (hg : C.netD.good (initC C.netD.design C.netD.st0 C.netD.cons).val) :
    (C.zeroOps.foldl C.shipOp C.certSim).settle.errors = [] ∧
    ∀ nm k, C.net nm = some k →
      (C.zeroOps.foldl C.shipOp C.certSim).settle.st.rd.val nm =
        ⟨C.wd k, (initC C.netD.design C.netD.st0 C.netD.cons).val k, true⟩ :=
  CertSrc.cert_powerup h hg

/-- **flattening**: the emitted module list (top module, structural sub-modules, register modules; every module name
    once) flattens to the certificate's text, and `V.mkSim` of it is the certified simulator -/
theorem hier_elab (S : HierSrc) (h : S.modsOKb = true) :
    flatten S.emit S.top.mname = S.cert.flat ∧ mkSim S.emit S.top.mname S.clk = S.cert.certSim := by
  have hf := HierSrc.flatten_emitH S h
  refine ⟨hf, ?_⟩
  rw [FlatM.mkSim_eq, hf]
  rfl

/-- a top-level port name denotes its net -/
def HierSrc.portNet (S : HierSrc) (pn : String) : Option Nat := S.cert.net ("" ++ pn)

/-- **C01 on the emitted text of a design with one level of structural hierarchy** -/
theorem hier_text_run (S : HierSrc) (h : S.check = true) (ops : List Op) (hops : ∀ op, op ∈ ops → S.cert.OpOK op) (n : Nat)
    (hg : GoodRun S.cert.netD (initC S.cert.netD.design S.cert.netD.st0 S.cert.netD.cons) (ops ++ [Op.clk (n + 1)])) :
    ((S.cert.zeroOps ++ (ops ++ [Op.clk (n + 1)])).foldl S.cert.shipOp (mkSim S.emit S.top.mname S.clk)).errors = [] ∧
    ∀ nm k, S.cert.net nm = some k →
      ((S.cert.zeroOps ++ (ops ++ [Op.clk (n + 1)])).foldl S.cert.shipOp (mkSim S.emit S.top.mname S.clk)).st.rd.val nm =
        ⟨S.wd k, (runC S.cert.netD.design S.cert.netD.st0 S.cert.netD.cons (ops ++ [Op.clk (n + 1)])).val k, true⟩ := by
  simp only [HierSrc.check, Bool.and_eq_true] at h
  rw [(hier_elab S h.1).2]
  exact CertSrc.cert_run h.2 ops hops n hg

theorem hier_text_powerup (S : HierSrc) (h : S.check = true)
    (hg : S.cert.netD.good (initC S.cert.netD.design S.cert.netD.st0 S.cert.netD.cons).val) :
    (S.cert.zeroOps.foldl S.cert.shipOp (mkSim S.emit S.top.mname S.clk)).settle.errors = [] ∧
    ∀ nm k, S.cert.net nm = some k →
      (S.cert.zeroOps.foldl S.cert.shipOp (mkSim S.emit S.top.mname S.clk)).settle.st.rd.val nm =
        ⟨S.wd k, (initC S.cert.netD.design S.cert.netD.st0 S.cert.netD.cons).val k, true⟩ := by
  simp only [HierSrc.check, Bool.and_eq_true] at h
  rw [(hier_elab S h.1).2]
  exact CertSrc.cert_powerup h.2 hg

/-- a design without Div / Mod: no side condition remains -/
theorem hier_text_run_divfree (S : HierSrc) (h : S.check = true) (hd : S.cert.divFree = true) (ops : List Op)
    (hops : ∀ op, op ∈ ops → S.cert.OpOK op) (n : Nat) :
    ((S.cert.zeroOps ++ (ops ++ [Op.clk (n + 1)])).foldl S.cert.shipOp (mkSim S.emit S.top.mname S.clk)).errors = [] ∧
    ∀ nm k, S.cert.net nm = some k →
      ((S.cert.zeroOps ++ (ops ++ [Op.clk (n + 1)])).foldl S.cert.shipOp (mkSim S.emit S.top.mname S.clk)).st.rd.val nm =
        ⟨S.wd k, (runC S.cert.netD.design S.cert.netD.st0 S.cert.netD.cons (ops ++ [Op.clk (n + 1)])).val k, true⟩ :=
  hier_text_run S h ops hops n (goodRun_of_all _ (CertSrc.good_of_divFree hd) _ _)

theorem hier_text_powerup_divfree (S : HierSrc) (h : S.check = true) (hd : S.cert.divFree = true) :
    (S.cert.zeroOps.foldl S.cert.shipOp (mkSim S.emit S.top.mname S.clk)).settle.errors = [] ∧
    ∀ nm k, S.cert.net nm = some k →
      (S.cert.zeroOps.foldl S.cert.shipOp (mkSim S.emit S.top.mname S.clk)).settle.st.rd.val nm =
        ⟨S.wd k, (initC S.cert.netD.design S.cert.netD.st0 S.cert.netD.cons).val k, true⟩ :=
  hier_text_powerup S h (CertSrc.good_of_divFree hd _)

end C01Hier

/-! ## non-vacuity: two REAL emitted texts (tools/c01/hier_examples.py prints them from live py4hw designs) -/
namespace C01Hier
open V FlatM Net

/-! ### three levels: Top → Mid → Blk (And2 + Reg), and Blk again directly under Top (another module of the same contents:
    the emitter names structural modules by object identity); the clock goes down through two instance boundaries -/

def exH : HierSrc :=
  { depth := 2, clk := "clk",
    widths := [3, 3, 3, 3, 3, 3],
    top :=
      { mname := "Top",
        names := [(0, "a"), (1, "b"), (2, "o1"), (3, "o2")],
        inputs := [("a", 0), ("b", 1)],
        outputs := [("o1", 2), ("o2", 3)],
        locals := [],
        children :=
         [.sub "i_m"
           { mname := "Mid_7f9e547f4950",
             names := [(0, "mx"), (1, "my"), (2, "mz")],
             inputs := [("mx", 0), ("my", 1)],
             outputs := [("mz", 2)],
             locals := [],
             children :=
              [.sub "i_b"
                { mname := "Blk_7f9e547f4a10",
                  names := [(0, "x"), (1, "y"), (4, "w_t"), (2, "z")],
                  inputs := [("x", 0), ("y", 1)],
                  outputs := [("z", 2)],
                  locals := [4],
                  children :=
                   [.kind (.prim (.and2 0 1 4)),
                   .reg { iname := "i_r", mname := "Reg3", leaf := { hasR := false, hasE := false, rv := 0, d := 4, e := 0, r := 0, q := 2 } }] }] },
         .sub "i_k"
           { mname := "Blk_7f9e547f4980",
             names := [(0, "x"), (2, "y"), (5, "w_t"), (3, "z")],
             inputs := [("x", 0), ("y", 2)],
             outputs := [("z", 3)],
             locals := [5],
             children :=
              [.g (.kind (.prim (.and2 0 2 5))),
              .g (.reg { iname := "i_r", mname := "Reg3", leaf := { hasR := false, hasE := false, rv := 0, d := 5, e := 0, r := 0, q := 3 } })] }] },
    order := [0, 1],
    vorder := [1, 9, 10, 11, 14, 18, 19, 4, 5, 6, 7, 15, 17, 0, 2, 8, 21, 3, 12, 20, 13, 16] }

/-- parsed from the text the real generator wrote -/
def exHText : V.Design :=
  [{ name := "Top", params := [],
     ports :=
      [{ dir := .inp, isReg := false, width := 1, name := "clk" },
       { dir := .inp, isReg := false, width := 3, name := "a" },
       { dir := .inp, isReg := false, width := 3, name := "b" },
       { dir := .out, isReg := false, width := 3, name := "o1" },
       { dir := .out, isReg := false, width := 3, name := "o2" }],
     items :=
      [.inst "Mid_7f9e547f4950" "i_m" [] [("clk", .id "clk"), ("mx", .id "a"), ("my", .id "b"), ("mz", .id "o1")],
       .inst "Blk_7f9e547f4980" "i_k" [] [("clk", .id "clk"), ("x", .id "a"), ("y", .id "o1"), ("z", .id "o2")]] },
   { name := "Mid_7f9e547f4950", params := [],
     ports :=
      [{ dir := .inp, isReg := false, width := 1, name := "clk" },
       { dir := .inp, isReg := false, width := 3, name := "mx" },
       { dir := .inp, isReg := false, width := 3, name := "my" },
       { dir := .out, isReg := false, width := 3, name := "mz" }],
     items :=
      [.inst "Blk_7f9e547f4a10" "i_b" [] [("clk", .id "clk"), ("x", .id "mx"), ("y", .id "my"), ("z", .id "mz")]] },
   { name := "Blk_7f9e547f4a10", params := [],
     ports :=
      [{ dir := .inp, isReg := false, width := 1, name := "clk" },
       { dir := .inp, isReg := false, width := 3, name := "x" },
       { dir := .inp, isReg := false, width := 3, name := "y" },
       { dir := .out, isReg := false, width := 3, name := "z" }],
     items :=
      [.wire "w_t" 3,
       .assign (.lid "w_t") (.bin "and" (.id "x") (.id "y")),
       .inst "Reg3" "i_r" [] [("clk", .id "clk"), ("d", .id "w_t"), ("q", .id "z")]] },
   { name := "Reg3", params := [],
     ports :=
      [{ dir := .inp, isReg := false, width := 1, name := "clk" },
       { dir := .inp, isReg := false, width := 3, name := "d" },
       { dir := .out, isReg := false, width := 3, name := "q" }],
     items :=
      [.reg "rq" 3 (some (.num none true 0 true)),
       .always (.pos "clk") (.nba (.lid "rq") (.id "d")),
       .assign (.lid "q") (.id "rq")] },
   { name := "Blk_7f9e547f4980", params := [],
     ports :=
      [{ dir := .inp, isReg := false, width := 1, name := "clk" },
       { dir := .inp, isReg := false, width := 3, name := "x" },
       { dir := .inp, isReg := false, width := 3, name := "y" },
       { dir := .out, isReg := false, width := 3, name := "z" }],
     items :=
      [.wire "w_t" 3,
       .assign (.lid "w_t") (.bin "and" (.id "x") (.id "y")),
       .inst "Reg3" "i_r" [] [("clk", .id "clk"), ("d", .id "w_t"), ("q", .id "z")]] }]

theorem exH_text : exH.emit = exHText := by decide
theorem exH_check : exH.check = true := by decide
theorem exH_divfree : exH.cert.divFree = true := by decide

/-- the output `o2` of the real text (a Reg two levels down feeds an And2 in a sibling block) follows the py4hw simulator on
    every input history from power-up -/
theorem exH_o2 (ops : List Op) (hops : ∀ op, op ∈ ops → exH.cert.OpOK op) (n : Nat) :
    ((exH.cert.zeroOps ++ (ops ++ [Op.clk (n + 1)])).foldl exH.cert.shipOp (mkSim exHText "Top" "clk")).st.rd.val "o2" =
      ⟨3, (runC exH.cert.netD.design exH.cert.netD.st0 exH.cert.netD.cons (ops ++ [Op.clk (n + 1)])).val 3, true⟩ := by
  rw [← exH_text]
  exact (hier_text_run_divfree exH exH_check exH_divfree ops hops n).2 "o2" 3 (by decide)

/-! ### children with several leaves and assigns: Equal, EqualConstant, Nor (3 inputs), Div, Xor2, BitsLSBF -/

def exG : HierSrc :=
  { depth := 0, clk := "clk",
    widths := [2, 2, 1, 1, 2, 2, 2, 1, 1, 2, 2, 2, 2, 2, 2, 2, 2, 1, 1, 1, 1, 1, 1, 2, 2, 2, 2, 2, 2, 2, 2, 2],
    top :=
      { mname := "Top",
        names := [(0, "a"), (1, "b"), (2, "e"), (3, "c"), (4, "x"), (5, "n"), (6, "dv"), (7, "b0"), (8, "b1")],
        inputs := [("a", 0), ("b", 1)],
        outputs := [("e", 2), ("c", 3), ("n", 5), ("dv", 6), ("x", 4), ("b0", 7), ("b1", 8)],
        locals := [],
        children :=
         [.kind (.equal 0 1 2 9 10 11 12 13 14 15 16 [17, 18] [] 19),
         .kind (.eqc 0 2 3 [20, 21] [22, 0] []),
         .kind (.nary .nor [0, 1, 4] 5 [23] 24),
         .kind (.dm false 0 1 6),
         .kind (.xor2 0 1 4 25 26 27 28 29 30 31),
         .kind (.bitsL 0 [7, 8])] },
    order := [0, 1, 2, 3, 4, 5, 6, 7, 8, 9, 10, 11, 12, 13, 14, 18, 19, 17, 20, 21, 22, 23, 24, 25, 15, 16, 26],
    vorder := [0, 1, 3, 4, 5, 6, 2] }

/-- parsed from the text the real generator wrote (`(a == b)? 1:0`, `(a == 2)? 1 : 0`, `~( a | b | x )`, `a / b`, `a ^ b`, `a[0]`, `a[1]`) -/
def exGText : V.Design :=
  [{ name := "Top", params := [],
     ports :=
      [{ dir := .inp, isReg := false, width := 2, name := "a" },
       { dir := .inp, isReg := false, width := 2, name := "b" },
       { dir := .out, isReg := false, width := 1, name := "e" },
       { dir := .out, isReg := false, width := 1, name := "c" },
       { dir := .out, isReg := false, width := 2, name := "n" },
       { dir := .out, isReg := false, width := 2, name := "dv" },
       { dir := .out, isReg := false, width := 2, name := "x" },
       { dir := .out, isReg := false, width := 1, name := "b0" },
       { dir := .out, isReg := false, width := 1, name := "b1" }],
     items :=
      [.assign (.lid "e") (.tern (.bin "eq" (.id "a") (.id "b")) (.num none true 1 true) (.num none true 0 true)),
       .assign (.lid "c") (.tern (.bin "eq" (.id "a") (.num none true 2 true)) (.num none true 1 true) (.num none true 0 true)),
       .assign (.lid "n") (.un "not" (.bin "or" (.bin "or" (.id "a") (.id "b")) (.id "x"))),
       .assign (.lid "dv") (.bin "div" (.id "a") (.id "b")),
       .assign (.lid "x") (.bin "xor" (.id "a") (.id "b")),
       .assign (.lid "b0") (.idx "a" (.num none true 0 true)),
       .assign (.lid "b1") (.idx "a" (.num none true 1 true))] }]


theorem exG_text : exG.emit = exGText := by decide
theorem exG_check : exG.check = true := by decide

/-- every output of the real text follows the simulator on every history on which the divisor `b` is not 0 at any settle -/
theorem exG_outputs (ops : List Op) (hops : ∀ op, op ∈ ops → exG.cert.OpOK op) (n : Nat)
    (hg : GoodRun exG.cert.netD (initC exG.cert.netD.design exG.cert.netD.st0 exG.cert.netD.cons) (ops ++ [Op.clk (n + 1)])) :
    ∀ nm k, (nm, k) ∈ [("e", 2), ("c", 3), ("n", 5), ("dv", 6), ("x", 4), ("b0", 7), ("b1", 8)] →
    ((exG.cert.zeroOps ++ (ops ++ [Op.clk (n + 1)])).foldl exG.cert.shipOp (mkSim exGText "Top" "clk")).st.rd.val nm =
      ⟨exG.wd k, (runC exG.cert.netD.design exG.cert.netD.st0 exG.cert.netD.cons (ops ++ [Op.clk (n + 1)])).val k, true⟩ := by
  intro nm k hmem
  rw [← exG_text]
  apply (hier_text_run exG exG_check ops hops n hg).2 nm k
  simp only [List.mem_cons, Prod.mk.injEq, List.not_mem_nil, or_false] at hmem
  rcases hmem with ⟨e1, e2⟩ | ⟨e1, e2⟩ | ⟨e1, e2⟩ | ⟨e1, e2⟩ | ⟨e1, e2⟩ | ⟨e1, e2⟩ | ⟨e1, e2⟩ <;> subst e1 e2 <;> decide

theorem exG_kinds : exG.cert.kinds = [.equal 0 1 2 9 10 11 12 13 14 15 16 [17, 18] [] 19, .eqc 0 2 3 [20, 21] [22, 0] [],
    .nary .nor [0, 1, 4] 5 [23] 24, .dm false 0 1 6, .xor2 0 1 4 25 26 27 28 29 30 31, .bitsL 0 [7, 8]] := rfl

/-- the side condition of `exG` is exactly: the divisor wire `b` (net 1) is not 0 -/
theorem exG_good (V : Nat → Nat) : exG.cert.netD.good V ↔ V 1 ≠ 0 := by
  show (∀ k, k ∈ exG.cert.kinds → k.good V) ↔ _
  rw [exG_kinds]
  constructor
  · intro h; exact h (.dm false 0 1 6) (by simp)
  · intro h k hk
    simp only [List.mem_cons, List.not_mem_nil, or_false] at hk
    rcases hk with e | e | e | e | e | e <;> subst e <;> first | trivial | exact h

end C01Hier
