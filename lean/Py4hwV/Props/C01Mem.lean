import Py4hwV.Emit.MemSim
/-
  C01 for the three memory blocks of py4hw/logic/storage.py: the hand-written Verilog bodies (`verilogBody()`), read under the
  dedicated IEEE-1364 cycle semantics of Verilog/MemBody.lean, against the simulator-side step functions GENERATED from
  storage.py (`Gen.SynchronousMemory.step`, `Gen.AsynchronousMemory.step`, `Gen.DualPortSynchronousMemory.step`).

  All theorems: EVERY address width `aw`, word width `dw`, write-enable width `ww`, write-data width `wdw`, EVERY input history
  of in-range addresses, from power-up.

    sync_body_run       SynchronousMemory: the body shows on `readdata`, after every cycle, exactly the simulator's read data
                        (read-before-write on a same-address collision included) — or x while the cell read had never been written
    sync_body_sim       … hence the simulator's trajectory itself once every cell read has been written before
    sync_powerup_x      the power-up class: before the first edge the body shows x, the simulator 0
    async_body_run / async_body_sim / async_powerup_x      the same for AsynchronousMemory (transparent write)
    dual_reg_body_run   DualPortSynchronousMemory (`Mem.dualRegBody`, the text emitted since repo commit a7c9173: registered reads): `readdata_a/b`
                        are exactly the simulator's read data on EVERY history (x while the cell read had not been written before)
    msg_fixed_body_run  MsgSequencer (`Mem.msgBody clk msg wc 0`, the text emitted since repo commit 0f39eeb): `(valid, v)` are exactly the simulator's
                        for every message, count width, clock name and ready schedule; msg_powerup: no x at power-up
    history of two repaired defects (theorems about the OLD template terms, kept so that a recurrence is recognised):
    dual_body_run / dual_body_run_partial / dual_body_counterexample   the dual-port body BEFORE a7c9173 (`Mem.dualBody`: `assign readdata_a =
                        mem[read_address_a]`) showed the cell AFTER the edge: equal to the simulator only on `dpQuiet` histories; witness: body 1, simulator 3
    msg_body_counterexample   the sequencer body BEFORE 0f39eeb (`Mem.msgBody … 1`) waited on the opposite ready level ("Hi", ready 1,1: valid 1 vs 0)
    dual_swap_run_partial / dual_swap_counterexample   the two `always` blocks of the (old) dual-port body may execute in either order
                        (IEEE 1364-2005 §11.4.2); the result is independent of it iff the ports never write one cell on one edge
    sync_blocking_write_differs   the semantics separates `mem[a] = d` from `mem[a] <= d` in the clocked block (write-first)
-/
set_option linter.unusedSimpArgs false
set_option linter.unusedVariables false
namespace Mem
open Lib Leaf

@[simp] theorem sync_minit (aw dw ww wdw : Nat) : (syncBody aw dw ww wdw).minit = [] := rfl
@[simp] theorem sync_inits (aw dw ww wdw : Nat) : (syncBody aw dw ww wdw).inits = [] := rfl
@[simp] theorem async_minit (aw dw ww wdw : Nat) : (asyncBody aw dw ww wdw).minit = [] := rfl
@[simp] theorem async_inits (aw dw ww wdw : Nat) : (asyncBody aw dw ww wdw).inits = [] := rfl
@[simp] theorem dual_minit (aw dw ww wdw : Nat) : (dualBody aw dw ww wdw).minit = [] := rfl
@[simp] theorem dual_inits (aw dw ww wdw : Nat) : (dualBody aw dw ww wdw).inits = [] := rfl
@[simp] theorem dualReg_minit (aw dw ww wdw : Nat) : (dualRegBody aw dw ww wdw).minit = [] := rfl
@[simp] theorem dualReg_inits (aw dw ww wdw : Nat) : (dualRegBody aw dw ww wdw).inits = [] := rfl

/-! ### the generated simulator steps in closed form -/
theorem memClk_eq (dw : Nat) (i : MemIn) (s : MemSt) :
    memClk dw i s = ⟨if i.we ≠ 0 then s.data.set i.wa (i.wd : Int) else s.data, Bits.put dw (s.data.getD i.ra 0)⟩ := by
  by_cases h : i.we = 0 <;>
  simp [memClk, Gen.SynchronousMemory.step, Id.run, pure, Py.truthy, Py.lget, Py.lset, landed, h]

theorem asyncClk_eq (dw : Nat) (i : MemIn) (s : MemSt) :
    asyncClk dw i s = ⟨if i.we ≠ 0 then s.data.set i.wa (i.wd : Int) else s.data,
                       Bits.put dw ((if i.we ≠ 0 then s.data.set i.wa (i.wd : Int) else s.data).getD i.ra 0)⟩ := by
  by_cases h : i.we = 0 <;>
  simp [asyncClk, Gen.AsynchronousMemory.step, Id.run, pure, Py.truthy, Py.lget, Py.lset, landed, h]

/-- the simulator's data after one edge of the dual-port memory: port a's write, then port b's -/
def dualData (i : DpIn) (d : List Int) : List Int :=
  let d1 := if i.a.we ≠ 0 then d.set i.a.wa (i.a.wd : Int) else d
  if i.b.we ≠ 0 then d1.set i.b.wa (i.b.wd : Int) else d1

theorem dualPortClk_eq (dw : Nat) (i : DpIn) (s : DpSt) :
    dualPortClk dw i s = ⟨dualData i s.data, Bits.put dw (s.data.getD i.a.ra 0), Bits.put dw (s.data.getD i.b.ra 0)⟩ := by
  by_cases ha : i.a.we = 0 <;> by_cases hb : i.b.we = 0 <;>
  simp [dualPortClk, dualData, Gen.DualPortSynchronousMemory.step, Id.run, pure, Py.truthy, Py.lget, Py.lset, landed, ha, hb]

/-- evaluating `propagate()` again with the same inputs changes nothing (the simulator calls it several times per cycle) -/
theorem asyncClk_idem (dw : Nat) (i : MemIn) (s : MemSt) : asyncClk dw i (asyncClk dw i s) = asyncClk dw i s := by
  by_cases h : i.we = 0 <;> simp [asyncClk_eq, h, List.set_set]

/-! ### the abstraction of the array -/
theorem absMem_length (dw : Nat) (wr : List Bool) (d : List Int) (h : d.length = wr.length) :
    (absMem dw wr d).length = wr.length := by simp [absMem, h]

theorem absMem_getD (dw : Nat) (wr : List Bool) (d : List Int) (h : d.length = wr.length) (i : Nat) :
    (absMem dw wr d).getD i none = mask (wr.getD i false) (Bits.put dw (d.getD i 0)) := by
  unfold absMem
  by_cases hi : i < wr.length
  · have hi' : i < d.length := by omega
    simp [List.getD_eq_getElem?_getD, List.getElem?_zipWith, hi, hi', List.getElem?_eq_getElem]
  · have hi' : ¬ i < d.length := by omega
    simp [List.getD_eq_getElem?_getD, List.getElem?_zipWith, List.getElem?_eq_none, Nat.le_of_not_lt hi, Nat.le_of_not_lt hi', mask]

theorem absMem_set (dw : Nat) (wr : List Bool) (d : List Int) (i v : Nat) :
    (absMem dw wr d).set i (some (v % 2 ^ dw)) = absMem dw (wr.set i true) (d.set i (v : Int)) := by
  unfold absMem
  apply List.ext_getElem?
  intro j
  by_cases hij : i = j
  · subst hij
    by_cases h1 : i < wr.length <;> by_cases h2 : i < d.length <;>
      simp [List.getElem?_set, List.getElem?_zipWith, h1, h2, mask, Bits.put_ofNat, List.getElem?_eq_none, Nat.le_of_not_lt] <;>
      omega
  · simp [List.getElem?_set, List.getElem?_zipWith, hij]

theorem absMem_replicate (dw n : Nat) : absMem dw (List.replicate n false) (List.replicate n 0) = List.replicate n none := by
  apply List.ext_getElem?
  intro j
  by_cases h : j < n <;> simp [absMem, List.getElem?_zipWith, List.getElem?_replicate, h, mask]

theorem markW_length (wr : List Bool) (i : MemIn) : (markW wr i).length = wr.length := by
  unfold markW; split <;> simp

theorem trunc_mask (dw : Nat) (k : Bool) (v : Int) : trunc dw (mask k (Bits.put dw v)) = mask k (Bits.put dw v) := by
  cases k <;> simp [trunc, mask, Nat.mod_eq_of_lt (Bits.put_lt dw v)]

/-- one write step on the abstraction -/
theorem absMem_write (dw : Nat) (wr : List Bool) (d : List Int) (i : MemIn) :
    (if i.we ≠ 0 then (absMem dw wr d).set i.wa (some (i.wd % 2 ^ dw)) else absMem dw wr d)
      = absMem dw (markW wr i) (if i.we ≠ 0 then d.set i.wa (i.wd : Int) else d) := by
  by_cases h : i.we = 0 <;> simp [markW, h, absMem_set]

/-! ## SynchronousMemory -/
section sync
variable (aw dw ww wdw : Nat)

theorem sync_lo : (syncBody aw dw ww wdw).lo = 0 := by simp [Body.lo, syncBody]
theorem sync_hi : (syncBody aw dw ww wdw).hi = 2 ^ aw - 1 := by simp [Body.hi, syncBody]
theorem sync_size : (syncBody aw dw ww wdw).size = 2 ^ aw := by
  have : 0 < 2 ^ aw := Nat.pos_of_ne_zero (by simp)
  simp [Body.size, sync_lo, sync_hi]; omega

/-- one cycle of the emitted body, array: the non-blocking write lands after the read was taken -/
theorem sync_cycle_mem (x : MemIn) (s : Sto) (h : okIn aw x) :
    (cycle (syncBody aw dw ww wdw) (syncInp x) s).mem
      = if x.we ≠ 0 then s.mem.set x.wa (some (x.wd % 2 ^ dw)) else s.mem := by
  obtain ⟨h1, h2⟩ := h
  have hw : x.wa ≤ 2 ^ aw - 1 := by omega
  by_cases hwe : x.we = 0 <;>
  simp [cycle, combPass, edge, exec, eval, flush, resolve, Sto.write, syncInp, List.lookup, Body.isReg, Body.regW,
        sync_lo, sync_hi, hw, hwe, trunc]
  all_goals simp [syncBody, exec, eval, flush, resolve, Sto.write, List.lookup, Body.isReg, hwe, Body.lo, Body.hi, hw, trunc, Body.regW]

/-- one cycle of the emitted body, read register: the cell as it was BEFORE the edge -/
theorem sync_cycle_reg (x : MemIn) (s : Sto) (h : okIn aw x) :
    (cycle (syncBody aw dw ww wdw) (syncInp x) s).regs "rreaddata" = trunc dw (s.mem.getD x.ra none) := by
  obtain ⟨h1, h2⟩ := h
  have hr : x.ra ≤ 2 ^ aw - 1 := by omega
  have hw : x.wa ≤ 2 ^ aw - 1 := by omega
  by_cases hwe : x.we = 0 <;>
  simp [cycle, combPass, edge, exec, eval, flush, resolve, Sto.write, syncInp, List.lookup, Body.isReg, Body.regW,
        sync_lo, sync_hi, hw, hr, hwe]
  all_goals simp [syncBody, exec, eval, flush, resolve, Sto.write, List.lookup, Body.isReg, hwe, Body.lo, Body.hi, hw, hr, Body.regW]

theorem sync_outs (inp : Inp) (s : Sto) :
    outs (syncBody aw dw ww wdw) inp s = [("readdata", trunc dw (s.regs "rreaddata"))] := by
  simp [outs, syncBody, eval, Body.isReg, Body.outW, List.lookup]

/-- correspondence between the storage of the body and the (ghost-instrumented) simulator state -/
structure SyncRel (v : Sto) (g : SyncG) : Prop where
  mem : v.mem = absMem dw g.wr g.s.data
  lw : g.wr.length = 2 ^ aw
  ld : g.s.data.length = 2 ^ aw
  reg : v.regs "rreaddata" = mask g.rk g.s.readdata
  rlt : g.s.readdata < 2 ^ dw

theorem sync_step_rel (x : MemIn) (v : Sto) (g : SyncG) (hx : okIn aw x) (r : SyncRel aw dw v g) :
    SyncRel aw dw (cycle (syncBody aw dw ww wdw) (syncInp x) v) (g.step dw x) := by
  have hl : g.s.data.length = g.wr.length := by rw [r.ld, r.lw]
  refine ⟨?_, ?_, ?_, ?_, ?_⟩
  · rw [sync_cycle_mem aw dw ww wdw x v hx, r.mem]
    simp only [SyncG.step, memClk_eq]
    exact absMem_write dw g.wr g.s.data x
  · simp [SyncG.step, markW_length, r.lw]
  · simp only [SyncG.step, memClk_eq]; split <;> simp [r.ld]
  · rw [sync_cycle_reg aw dw ww wdw x v hx, r.mem, absMem_getD dw _ _ hl, trunc_mask]
    simp [SyncG.step, memClk_eq]
  · simp only [SyncG.step, memClk_eq]; exact Bits.put_lt _ _

theorem sync_power_rel : SyncRel aw dw (power (syncBody aw dw ww wdw)) (SyncG.init aw) := by
  refine ⟨?_, ?_, ?_, ?_, ?_⟩
  · simp [power, sync_size, SyncG.init, absMem_replicate]
  · simp [SyncG.init]
  · simp [SyncG.init]
  · simp [power, SyncG.init, mask]
  · simp [SyncG.init]; exact Nat.pos_of_ne_zero (by simp)

theorem sync_run_from (h : List MemIn) : ∀ (v : Sto) (g : SyncG), SyncRel aw dw v g → (∀ x ∈ h, okIn aw x) →
    trace (syncBody aw dw ww wdw) v (h.map syncInp) = (syncSpec dw g h).map fun o => [("readdata", o)] := by
  induction h with
  | nil => intro v g _ _; rfl
  | cons x h ih =>
    intro v g r hok
    have r' := sync_step_rel aw dw ww wdw x v g (hok x (by simp)) r
    simp only [List.map_cons, trace, syncSpec]
    rw [ih _ _ r' (fun y hy => hok y (by simp [hy])), sync_outs, r'.reg]
    congr 2
    simp only [SyncG.out]
    cases hk : (g.step dw x).rk <;> simp [mask, trunc, Nat.mod_eq_of_lt r'.rlt]

theorem syncSpec_eq (h : List MemIn) : ∀ g : SyncG,
    syncSpec dw g h = List.zipWith mask (syncKnown g.wr h) (syncSim dw g.s h) := by
  induction h with
  | nil => intro g; rfl
  | cons x h ih => intro g; simp [syncSpec, syncKnown, syncSim, ih, SyncG.step, SyncG.out]

end sync

/-! ## AsynchronousMemory -/
section async
variable (aw dw ww wdw : Nat)

theorem async_size : (asyncBody aw dw ww wdw).size = 2 ^ aw := by
  have : 0 < 2 ^ aw := Nat.pos_of_ne_zero (by simp)
  simp [Body.size, Body.lo, Body.hi, asyncBody]; omega

/-- one evaluation of the `always @(*)` block: the blocking write is in the array at once -/
theorem async_pass_mem (x : MemIn) (s : Sto) (h : okIn aw x) :
    (combPass (asyncBody aw dw ww wdw) (syncInp x) s).mem
      = if x.we ≠ 0 then s.mem.set x.wa (some (x.wd % 2 ^ dw)) else s.mem := by
  obtain ⟨h1, h2⟩ := h
  have hw : x.wa ≤ 2 ^ aw - 1 := by omega
  by_cases hwe : x.we = 0 <;>
  simp [combPass, asyncBody, exec, eval, flush, resolve, Sto.write, syncInp, List.lookup, Body.isReg, Body.regW,
        Body.lo, Body.hi, hw, hwe, trunc]

theorem async_pass_regs (x : MemIn) (s : Sto) : (combPass (asyncBody aw dw ww wdw) (syncInp x) s).regs = s.regs := by
  by_cases hwe : x.we = 0 <;>
  simp [combPass, asyncBody, exec, eval, flush, resolve, Sto.write, syncInp, List.lookup, Body.isReg, hwe] <;>
  split <;> rfl

/-- the `always @(*)` block is idempotent: evaluating it once per settle is the fixpoint an event-driven simulator reaches -/
theorem async_pass_idem (x : MemIn) (s : Sto) (h : okIn aw x) :
    combPass (asyncBody aw dw ww wdw) (syncInp x) (combPass (asyncBody aw dw ww wdw) (syncInp x) s)
      = combPass (asyncBody aw dw ww wdw) (syncInp x) s := by
  have hm : (combPass (asyncBody aw dw ww wdw) (syncInp x) (combPass (asyncBody aw dw ww wdw) (syncInp x) s)).mem
      = (combPass (asyncBody aw dw ww wdw) (syncInp x) s).mem := by
    rw [async_pass_mem aw dw ww wdw x _ h, async_pass_mem aw dw ww wdw x _ h]
    by_cases hwe : x.we = 0 <;> simp [hwe, List.set_set]
  have hr := async_pass_regs aw dw ww wdw x (combPass (asyncBody aw dw ww wdw) (syncInp x) s)
  cases h1 : combPass (asyncBody aw dw ww wdw) (syncInp x) (combPass (asyncBody aw dw ww wdw) (syncInp x) s)
  cases h2 : combPass (asyncBody aw dw ww wdw) (syncInp x) s
  simp_all

theorem async_edge (inp : Inp) (s : Sto) : edge (asyncBody aw dw ww wdw) inp s = s := by
  simp [edge, asyncBody, flush]

theorem async_cycle (x : MemIn) (s : Sto) (h : okIn aw x) :
    cycle (asyncBody aw dw ww wdw) (syncInp x) s = combPass (asyncBody aw dw ww wdw) (syncInp x) s := by
  simp only [cycle, async_edge]; exact async_pass_idem aw dw ww wdw x s h

theorem async_outs (x : MemIn) (s : Sto) (h : okIn aw x) :
    outs (asyncBody aw dw ww wdw) (syncInp x) s = [("readdata", trunc dw (s.mem.getD x.ra none))] := by
  have hr : x.ra ≤ 2 ^ aw - 1 := by have := h.1; omega
  simp [outs, asyncBody, eval, Body.isReg, Body.outW, List.lookup, syncInp, Body.lo, Body.hi, hr]

structure AsyncRel (v : Sto) (g : AsyncG) : Prop where
  mem : v.mem = absMem dw g.wr g.s.data
  lw : g.wr.length = 2 ^ aw
  ld : g.s.data.length = 2 ^ aw

theorem async_step_rel (x : MemIn) (v : Sto) (g : AsyncG) (hx : okIn aw x) (r : AsyncRel aw dw v g) :
    AsyncRel aw dw (cycle (asyncBody aw dw ww wdw) (syncInp x) v) (g.step dw x) := by
  refine ⟨?_, ?_, ?_⟩
  · rw [async_cycle aw dw ww wdw x v hx, async_pass_mem aw dw ww wdw x v hx, r.mem]
    simp only [AsyncG.step, asyncClk_eq]
    exact absMem_write dw g.wr g.s.data x
  · simp [AsyncG.step, markW_length, r.lw]
  · simp only [AsyncG.step, asyncClk_eq]; split <;> simp [r.ld]

theorem async_power_rel : AsyncRel aw dw (power (asyncBody aw dw ww wdw)) (AsyncG.init aw) := by
  refine ⟨?_, ?_, ?_⟩
  · simp [power, async_size, AsyncG.init, absMem_replicate]
  · simp [AsyncG.init]
  · simp [AsyncG.init]

theorem async_step_read (x : MemIn) (g : AsyncG) :
    (g.step dw x).s.readdata = Bits.put dw ((g.step dw x).s.data.getD x.ra 0) := by
  simp [AsyncG.step, asyncClk_eq]

theorem async_run_from (h : List MemIn) : ∀ (v : Sto) (g : AsyncG), AsyncRel aw dw v g → (∀ x ∈ h, okIn aw x) →
    trace (asyncBody aw dw ww wdw) v (h.map syncInp) = (asyncSpec dw g h).map fun o => [("readdata", o)] := by
  induction h with
  | nil => intro v g _ _; rfl
  | cons x h ih =>
    intro v g r hok
    have hx := hok x (by simp)
    have r' := async_step_rel aw dw ww wdw x v g hx r
    have hl : (g.step dw x).s.data.length = (g.step dw x).wr.length := by rw [r'.ld, r'.lw]
    simp only [List.map_cons, trace, asyncSpec]
    rw [ih _ _ r' (fun y hy => hok y (by simp [hy])), async_outs aw dw ww wdw x _ hx, r'.mem, absMem_getD dw _ _ hl,
        trunc_mask, async_step_read]

theorem asyncSpec_eq (h : List MemIn) : ∀ g : AsyncG,
    asyncSpec dw g h = List.zipWith mask (asyncKnown g.wr h) (asyncSim dw g.s h) := by
  induction h with
  | nil => intro g; rfl
  | cons x h ih => intro g; simp [asyncSpec, asyncKnown, asyncSim, ih, AsyncG.step]

theorem async_all_known (h : List MemIn) : ∀ (wr : List Bool) (s : MemSt), (∀ k ∈ asyncKnown wr h, k = true) →
    List.zipWith mask (asyncKnown wr h) (asyncSim dw s h) = (asyncSim dw s h).map some := by
  induction h with
  | nil => intro wr s _; rfl
  | cons x h ih =>
    intro wr s hk
    simp only [asyncKnown, asyncSim, List.zipWith_cons_cons, List.map_cons]
    rw [ih _ _ (fun k hk' => hk k (by simp [asyncKnown, hk'])), hk ((markW wr x).getD x.ra false) (by simp [asyncKnown])]
    rfl

end async

/-! ## DualPortSynchronousMemory -/
section dual
variable (aw dw ww wdw : Nat)


theorem dual_size : (dualBody aw dw ww wdw).size = 2 ^ aw := by
  have : 0 < 2 ^ aw := Nat.pos_of_ne_zero (by simp)
  simp [Body.size, Body.lo, Body.hi, dualBody]; omega

/-- the array after one edge of the emitted body: port a's queued write, then port b's -/
def dualMem (dw : Nat) (x : DpIn) (m : List Val) : List Val :=
  let m1 := if x.a.we ≠ 0 then m.set x.a.wa (some (x.a.wd % 2 ^ dw)) else m
  if x.b.we ≠ 0 then m1.set x.b.wa (some (x.b.wd % 2 ^ dw)) else m1

theorem dual_cycle_mem (x : DpIn) (s : Sto) (h : okDp aw x) :
    (cycle (dualBody aw dw ww wdw) (dualInp x) s).mem = dualMem dw x s.mem := by
  obtain ⟨⟨h1, h2⟩, ⟨h3, h4⟩⟩ := h
  have hwa : x.a.wa ≤ 2 ^ aw - 1 := by omega
  have hwb : x.b.wa ≤ 2 ^ aw - 1 := by omega
  by_cases ha : x.a.we = 0 <;> by_cases hb : x.b.we = 0 <;>
  simp [cycle, combPass, edge, dualBody, dualMem, exec, eval, flush, resolve, Sto.write, dualInp, List.lookup, Body.isReg,
        Body.regW, Body.lo, Body.hi, hwa, hwb, ha, hb, trunc]

/-- the other execution order of the two `always` blocks: port b's queued write first -/
def dualMemSwap (dw : Nat) (x : DpIn) (m : List Val) : List Val :=
  let m1 := if x.b.we ≠ 0 then m.set x.b.wa (some (x.b.wd % 2 ^ dw)) else m
  if x.a.we ≠ 0 then m1.set x.a.wa (some (x.a.wd % 2 ^ dw)) else m1

theorem dual_swap_cycle_mem (x : DpIn) (s : Sto) (h : okDp aw x) :
    (cycle (dualBody aw dw ww wdw).swap (dualInp x) s).mem = dualMemSwap dw x s.mem := by
  obtain ⟨⟨h1, h2⟩, ⟨h3, h4⟩⟩ := h
  have hwa : x.a.wa ≤ 2 ^ aw - 1 := by omega
  have hwb : x.b.wa ≤ 2 ^ aw - 1 := by omega
  by_cases ha : x.a.we = 0 <;> by_cases hb : x.b.we = 0 <;>
  simp [cycle, combPass, edge, Body.swap, dualBody, dualMemSwap, exec, eval, flush, resolve, Sto.write, dualInp, List.lookup,
        Body.isReg, Body.regW, Body.lo, Body.hi, hwa, hwb, ha, hb, trunc]

theorem dual_cycle_regs (b : Body) (hb : b = dualBody aw dw ww wdw ∨ b = (dualBody aw dw ww wdw).swap) (x : DpIn) (s : Sto)
    (h : okDp aw x) : (cycle b (dualInp x) s).regs = s.regs := by
  obtain ⟨⟨h1, h2⟩, ⟨h3, h4⟩⟩ := h
  have hwa : x.a.wa ≤ 2 ^ aw - 1 := by omega
  have hwb : x.b.wa ≤ 2 ^ aw - 1 := by omega
  rcases hb with rfl | rfl <;> by_cases ha : x.a.we = 0 <;> by_cases hb : x.b.we = 0 <;>
  simp [cycle, combPass, edge, Body.swap, dualBody, exec, eval, flush, resolve, Sto.write, dualInp, List.lookup, Body.isReg,
        Body.lo, Body.hi, hwa, hwb, ha, hb]

theorem dualMem_swap (x : DpIn) (m : List Val) (h : dpClash x = false) : dualMemSwap dw x m = dualMem dw x m := by
  by_cases ha : x.a.we = 0 <;> by_cases hb : x.b.we = 0 <;> simp [dualMem, dualMemSwap, ha, hb]
  have hne : x.a.wa ≠ x.b.wa := by
    intro e; simp [dpClash, ha, hb, e] at h
  exact List.set_comm _ _ (Ne.symm hne)

theorem dual_outs (b : Body) (hb : b = dualBody aw dw ww wdw ∨ b = (dualBody aw dw ww wdw).swap) (x : DpIn) (s : Sto)
    (h : okDp aw x) :
    outs b (dualInp x) s
      = [("readdata_a", trunc dw (s.mem.getD x.a.ra none)), ("readdata_b", trunc dw (s.mem.getD x.b.ra none))] := by
  have hra : x.a.ra ≤ 2 ^ aw - 1 := by have := h.1.1; omega
  have hrb : x.b.ra ≤ 2 ^ aw - 1 := by have := h.2.1; omega
  rcases hb with rfl | rfl <;>
  simp [outs, Body.swap, dualBody, eval, Body.isReg, Body.outW, List.lookup, dualInp, Body.lo, Body.hi, hra, hrb]

structure DualRel (v : Sto) (g : DualG) : Prop where
  mem : v.mem = absMem dw g.wr g.s.data
  lw : g.wr.length = 2 ^ aw
  ld : g.s.data.length = 2 ^ aw

theorem dualMem_abs (x : DpIn) (wr : List Bool) (d : List Int) :
    dualMem dw x (absMem dw wr d) = absMem dw (markW (markW wr x.a) x.b) (dualData x d) := by
  unfold dualMem dualData
  simp only []
  rw [absMem_write dw wr d x.a, absMem_write dw _ _ x.b]

theorem dual_step_rel (x : DpIn) (v : Sto) (g : DualG) (hx : okDp aw x) (r : DualRel aw dw v g) :
    DualRel aw dw (cycle (dualBody aw dw ww wdw) (dualInp x) v) (g.step dw x) := by
  refine ⟨?_, ?_, ?_⟩
  · rw [dual_cycle_mem aw dw ww wdw x v hx, r.mem, dualMem_abs]
    simp [DualG.step, dualPortClk_eq]
  · simp [DualG.step, markW_length, r.lw]
  · simp only [DualG.step, dualPortClk_eq, dualData]; (repeat' split) <;> simp [r.ld]

theorem dual_power_rel : DualRel aw dw (power (dualBody aw dw ww wdw)) (DualG.init aw) := by
  refine ⟨?_, ?_, ?_⟩
  · simp [power, dual_size, DualG.init, absMem_replicate]
  · simp [DualG.init]
  · simp [DualG.init]

def dualRow (p : Val × Val) : List (String × Val) := [("readdata_a", p.1), ("readdata_b", p.2)]

theorem dual_run_from (h : List DpIn) : ∀ (v : Sto) (g : DualG), DualRel aw dw v g → (∀ x ∈ h, okDp aw x) →
    trace (dualBody aw dw ww wdw) v (h.map dualInp) = (dualSpec dw g h).map dualRow := by
  induction h with
  | nil => intro v g _ _; rfl
  | cons x h ih =>
    intro v g r hok
    have hx := hok x (by simp)
    have r' := dual_step_rel aw dw ww wdw x v g hx r
    have hl : (g.step dw x).s.data.length = (g.step dw x).wr.length := by rw [r'.ld, r'.lw]
    simp only [List.map_cons, trace, dualSpec]
    rw [ih _ _ r' (fun y hy => hok y (by simp [hy])), dual_outs aw dw ww wdw _ (Or.inl rfl) x _ hx, r'.mem,
        absMem_getD dw _ _ hl, absMem_getD dw _ _ hl, trunc_mask, trunc_mask]
    rfl

/-- the swapped block order computes the same storage on histories without write clashes -/
theorem dual_swap_trace (h : List DpIn) : ∀ (v : Sto), (∀ x ∈ h, okDp aw x) → (∀ x ∈ h, dpClash x = false) →
    trace (dualBody aw dw ww wdw).swap v (h.map dualInp) = trace (dualBody aw dw ww wdw) v (h.map dualInp) := by
  induction h with
  | nil => intro v _ _; rfl
  | cons x h ih =>
    intro v hok hc
    have hx := hok x (by simp)
    have hm : (cycle (dualBody aw dw ww wdw).swap (dualInp x) v).mem = (cycle (dualBody aw dw ww wdw) (dualInp x) v).mem := by
      rw [dual_swap_cycle_mem aw dw ww wdw x v hx, dual_cycle_mem aw dw ww wdw x v hx, dualMem_swap dw x _ (hc x (by simp))]
    have hr : (cycle (dualBody aw dw ww wdw).swap (dualInp x) v).regs = (cycle (dualBody aw dw ww wdw) (dualInp x) v).regs := by
      rw [dual_cycle_regs aw dw ww wdw _ (Or.inr rfl) x v hx, dual_cycle_regs aw dw ww wdw _ (Or.inl rfl) x v hx]
    have hs : cycle (dualBody aw dw ww wdw).swap (dualInp x) v = cycle (dualBody aw dw ww wdw) (dualInp x) v := by
      cases h1 : cycle (dualBody aw dw ww wdw).swap (dualInp x) v
      cases h2 : cycle (dualBody aw dw ww wdw) (dualInp x) v
      simp_all
    simp only [List.map_cons, trace]
    rw [hs, ih _ (fun y hy => hok y (by simp [hy])) (fun y hy => hc y (by simp [hy])),
        dual_outs aw dw ww wdw _ (Or.inr rfl) x _ hx, dual_outs aw dw ww wdw _ (Or.inl rfl) x _ hx]

/-- on a quiet edge the cells that are read keep their content and their known flag -/
theorem dual_quiet_cell (x : DpIn) (g : DualG) (hq : dpQuiet x = true) (a : Nat) (ha : a = x.a.ra ∨ a = x.b.ra) :
    (g.step dw x).cell dw a = mask (g.wr.getD a false) (Bits.put dw (g.s.data.getD a 0)) := by
  have h1 : x.a.we ≠ 0 → x.a.wa ≠ a := by
    intro hw e; rcases ha with rfl | rfl <;> simp [dpQuiet, hw, e] at hq
  have h2 : x.b.we ≠ 0 → x.b.wa ≠ a := by
    intro hw e; rcases ha with rfl | rfl <;> simp [dpQuiet, hw, e] at hq
  simp only [DualG.cell, DualG.step, dualPortClk_eq, dualData, markW]
  by_cases ha' : x.a.we = 0 <;> by_cases hb' : x.b.we = 0 <;>
  simp [ha', hb', List.getD_eq_getElem?_getD, List.getElem?_set_ne, h1, h2]

theorem dual_quiet_spec (h : List DpIn) : ∀ g : DualG, (∀ x ∈ h, dpQuiet x = true) → dualSpec dw g h = dualSimSpec dw g h := by
  induction h with
  | nil => intro g _; rfl
  | cons x h ih =>
    intro g hq
    have q := hq x (by simp)
    simp only [dualSpec, dualSimSpec]
    rw [ih _ (fun y hy => hq y (by simp [hy])), dual_quiet_cell dw x g q _ (Or.inl rfl), dual_quiet_cell dw x g q _ (Or.inr rfl)]
    simp [DualG.step, dualPortClk_eq]

theorem dualSimSpec_eq (h : List DpIn) : ∀ g : DualG,
    dualSimSpec dw g h = List.zipWith mask2 (dualKnown g.wr h) (dualSim dw g.s h) := by
  induction h with
  | nil => intro g; rfl
  | cons x h ih => intro g; simp [dualSimSpec, dualKnown, dualSim, ih, DualG.step, mask2]

/-! ### the dual-port body with registered reads (proposed fix): no side condition -/
theorem dualReg_cycle_mem (x : DpIn) (s : Sto) (h : okDp aw x) :
    (cycle (dualRegBody aw dw ww wdw) (dualInp x) s).mem = dualMem dw x s.mem := by
  obtain ⟨⟨h1, h2⟩, ⟨h3, h4⟩⟩ := h
  have hwa : x.a.wa ≤ 2 ^ aw - 1 := by omega
  have hwb : x.b.wa ≤ 2 ^ aw - 1 := by omega
  by_cases ha : x.a.we = 0 <;> by_cases hb : x.b.we = 0 <;>
  simp [cycle, combPass, edge, dualRegBody, dualBody, dualMem, exec, eval, flush, resolve, Sto.write, dualInp, List.lookup, Body.isReg,
        Body.regW, Body.lo, Body.hi, hwa, hwb, ha, hb, trunc]

theorem dualReg_cycle_regs (x : DpIn) (s : Sto) (h : okDp aw x) :
    (cycle (dualRegBody aw dw ww wdw) (dualInp x) s).regs "rreaddata_a" = trunc dw (s.mem.getD x.a.ra none) ∧
    (cycle (dualRegBody aw dw ww wdw) (dualInp x) s).regs "rreaddata_b" = trunc dw (s.mem.getD x.b.ra none) := by
  obtain ⟨⟨h1, h2⟩, ⟨h3, h4⟩⟩ := h
  have hwa : x.a.wa ≤ 2 ^ aw - 1 := by omega
  have hwb : x.b.wa ≤ 2 ^ aw - 1 := by omega
  have hra : x.a.ra ≤ 2 ^ aw - 1 := by omega
  have hrb : x.b.ra ≤ 2 ^ aw - 1 := by omega
  by_cases ha : x.a.we = 0 <;> by_cases hb : x.b.we = 0 <;>
  simp [cycle, combPass, edge, dualRegBody, dualBody, exec, eval, flush, resolve, Sto.write, dualInp, List.lookup, Body.isReg,
        Body.regW, Body.lo, Body.hi, hwa, hwb, hra, hrb, ha, hb]

theorem dualReg_outs (inp : Inp) (s : Sto) :
    outs (dualRegBody aw dw ww wdw) inp s
      = [("readdata_a", trunc dw (s.regs "rreaddata_a")), ("readdata_b", trunc dw (s.regs "rreaddata_b"))] := by
  simp [outs, dualRegBody, dualBody, eval, Body.isReg, Body.outW, List.lookup]

/-- ghost for the registered reads: known flags of the two read registers -/
structure DualRegRel (v : Sto) (g : DualG) (k : Bool × Bool) : Prop where
  mem : v.mem = absMem dw g.wr g.s.data
  lw : g.wr.length = 2 ^ aw
  ld : g.s.data.length = 2 ^ aw
  ra : v.regs "rreaddata_a" = mask k.1 g.s.rda
  rb : v.regs "rreaddata_b" = mask k.2 g.s.rdb
  lta : g.s.rda < 2 ^ dw
  ltb : g.s.rdb < 2 ^ dw

theorem dualReg_step_rel (x : DpIn) (v : Sto) (g : DualG) (k : Bool × Bool) (hx : okDp aw x) (r : DualRegRel aw dw v g k) :
    DualRegRel aw dw (cycle (dualRegBody aw dw ww wdw) (dualInp x) v) (g.step dw x)
      (g.wr.getD x.a.ra false, g.wr.getD x.b.ra false) := by
  have hl : g.s.data.length = g.wr.length := by rw [r.ld, r.lw]
  have hr := dualReg_cycle_regs aw dw ww wdw x v hx
  refine ⟨?_, ?_, ?_, ?_, ?_, ?_, ?_⟩
  · rw [dualReg_cycle_mem aw dw ww wdw x v hx, r.mem, dualMem_abs]
    simp [DualG.step, dualPortClk_eq]
  · simp [DualG.step, markW_length, r.lw]
  · simp only [DualG.step, dualPortClk_eq, dualData]; (repeat' split) <;> simp [r.ld]
  · rw [hr.1, r.mem, absMem_getD dw _ _ hl, trunc_mask]; simp [DualG.step, dualPortClk_eq]
  · rw [hr.2, r.mem, absMem_getD dw _ _ hl, trunc_mask]; simp [DualG.step, dualPortClk_eq]
  · simp only [DualG.step, dualPortClk_eq]; exact Bits.put_lt _ _
  · simp only [DualG.step, dualPortClk_eq]; exact Bits.put_lt _ _

theorem dualReg_power_rel : DualRegRel aw dw (power (dualRegBody aw dw ww wdw)) (DualG.init aw) (false, false) := by
  have : 0 < 2 ^ dw := Nat.pos_of_ne_zero (by simp)
  have hs : (dualRegBody aw dw ww wdw).size = 2 ^ aw := dual_size aw dw ww wdw
  refine ⟨?_, ?_, ?_, ?_, ?_, ?_, ?_⟩ <;> simp [power, hs, DualG.init, absMem_replicate, mask, this]

theorem dualReg_run_from (h : List DpIn) : ∀ (v : Sto) (g : DualG) (k : Bool × Bool), DualRegRel aw dw v g k → (∀ x ∈ h, okDp aw x) →
    trace (dualRegBody aw dw ww wdw) v (h.map dualInp) = (dualSimSpec dw g h).map dualRow := by
  induction h with
  | nil => intro v g k _ _; rfl
  | cons x h ih =>
    intro v g k r hok
    have r' := dualReg_step_rel aw dw ww wdw x v g k (hok x (by simp)) r
    simp only [List.map_cons, trace, dualSimSpec]
    rw [ih _ _ _ r' (fun y hy => hok y (by simp [hy])), dualReg_outs, r'.ra, r'.rb]
    congr 1
    cases h1 : g.wr.getD x.a.ra false <;> cases h2 : g.wr.getD x.b.ra false <;>
      simp [dualRow, mask, trunc, Nat.mod_eq_of_lt r'.lta, Nat.mod_eq_of_lt r'.ltb]

end dual

/-! ## MsgSequencer (py4hw/logic/protocol/uart/sequencer.py): the fourth hand-written body with a reg array -/
/-- the `initial` block of `msgBody` fills the array with the message -/
theorem fill_get (f : Nat → Nat) (dw n : Nat) : ∀ k, k ≤ n →
    ∀ j, (((List.range k).map fun i => (i, f i)).foldl
            (fun (m : List Val) iv => if iv.1 ≤ n - 1 then m.set iv.1 (some (iv.2 % 2 ^ dw)) else m)
            (List.replicate n none))[j]?
        = if j < k then some (some (f j % 2 ^ dw)) else if j < n then some none else none := by
  intro k
  induction k with
  | zero => intro _ j; by_cases h : j < n <;> simp [h]
  | succ k ih =>
    intro hk j
    have hk' : k ≤ n - 1 := by omega
    have hkn : k < n := by omega
    rw [List.range_succ, List.map_append, List.foldl_append]
    simp only [List.map_cons, List.map_nil, List.foldl_cons, List.foldl_nil, hk', if_true]
    generalize hL : List.foldl (fun (m : List Val) iv => if iv.1 ≤ n - 1 then m.set iv.1 (some (iv.2 % 2 ^ dw)) else m)
            (List.replicate n none) ((List.range k).map fun i => (i, f i)) = L at ih ⊢
    rw [List.getElem?_set]
    by_cases hj : k = j
    · subst hj
      have hthis := ih (by omega) k
      have hl : k < L.length := by
        rcases Nat.lt_or_ge k L.length with h | h
        · exact h
        · have h2 : L[k]? = none := List.getElem?_eq_none h
          rw [h2] at hthis
          simp [hkn] at hthis
      simp [hl]
    · rw [if_neg hj, ih (by omega) j]
      by_cases h1 : j < k
      · simp [h1, Nat.lt_succ_of_lt h1]
      · have : ¬ j < k + 1 := by omega
        simp [h1, this]

section msg
variable (clk : String) (msg : List Nat) (wc rdy : Nat)

theorem msg_power_mem (h : 0 < msg.length) :
    (power (msgBody clk msg wc rdy)).mem = msg.map fun c => some (c % 2 ^ 8) := by
  apply List.ext_getElem?
  intro j
  have := fill_get (fun i => msg.getD i 0) 8 msg.length msg.length (Nat.le_refl _) j
  have hs : msg.length - 1 + 1 = msg.length := by omega
  simp only [power, msgBody, Body.lo, Body.hi, Body.size, Nat.zero_min, Nat.zero_max, Nat.zero_le, true_and, Nat.sub_zero, hs]
  rw [this]
  by_cases hj : j < msg.length <;> simp [hj, List.getD_eq_getElem?_getD, List.getElem?_eq_getElem]

/-- next (state, count, valid, v) of the sequencer for `ready = r` -/
def msgNext (msg : List Nat) (s c va rv r : Nat) : Nat × Nat × Nat × Nat :=
  if s = 0 then (if r ≠ 0 then (1, c, 1, rv) else (0, c, 0, rv))
  else (if r = 0 then (1, c, 1, msg.getD c 0) else (0, (c + 1) % msg.length, 0, msg.getD c 0))

structure MsgRel (v : Sto) (s c va rv : Nat) : Prop where
  mem : v.mem = msg.map some
  st : v.regs "state" = some s
  ct : v.regs "count" = some c
  va : v.regs "rvalid" = some va
  rv : v.regs "rv" = some rv
  s1 : s ≤ 1
  cl : c < msg.length

theorem msg_sim_step (s c va rv r : Nat) (hs : s ≤ 1) (hb : ∀ x ∈ msg, x < 256) (hc : c < msg.length) :
    msgClk msg r ⟨⟨(c : Int), (s : Int)⟩, va, rv⟩
      = ⟨⟨((msgNext msg s c va rv r).2.1 : Nat), ((msgNext msg s c va rv r).1 : Nat)⟩, (msgNext msg s c va rv r).2.2.1,
         (msgNext msg s c va rv r).2.2.2⟩ := by
  have hsc : s = 0 ∨ s = 1 := by omega
  have hg : msg.getD c 0 < 256 := by
    rw [List.getD_eq_getElem?_getD, List.getElem?_eq_getElem hc]; exact hb _ (List.getElem_mem hc)
  rcases hsc with rfl | rfl <;> by_cases hr : r = 0 <;>
  simp [msgClk, msgNext, Gen.MsgSequencer.step, Id.run, pure, Py.truthy, Py.lget, Py.fmod, hr, Bits.put_ofNat, Bits.put,
        List.getD_eq_getElem?_getD, hc, Nat.mod_eq_of_lt hg]
  · have hm : msg[c] < 256 := hb _ (List.getElem_mem hc)
    omega
  · have hm : msg[c] < 256 := hb _ (List.getElem_mem hc)
    refine ⟨?_, by omega⟩
    exact Int.fmod_eq_emod_of_nonneg _ (by omega)

/-- one cycle of the REPAIRED body (`rdy = 0`) follows `msgNext` -/
theorem msg_body_step (v : Sto) (s c va rv r : Nat) (hr : r ≤ 1) (hl : msg.length ≤ 2 ^ wc) (hb : ∀ x ∈ msg, x < 256)
    (R : MsgRel msg v s c va rv) :
    MsgRel msg (cycle (msgBody clk msg wc 0) (msgInp r) v) (msgNext msg s c va rv r).1 (msgNext msg s c va rv r).2.1
      (msgNext msg s c va rv r).2.2.1 (msgNext msg s c va rv r).2.2.2 := by
  have hsc : s = 0 ∨ s = 1 := by have := R.s1; omega
  have hrc : r = 0 ∨ r = 1 := by omega
  have hc := R.cl
  have hc' : c ≤ msg.length - 1 := by omega
  have hg : msg.getD c 0 < 256 := by
    rw [List.getD_eq_getElem?_getD, List.getElem?_eq_getElem hc]; exact hb _ (List.getElem_mem hc)
  have hmod : (c + 1) % msg.length % 2 ^ wc = (c + 1) % msg.length :=
    Nat.mod_eq_of_lt (Nat.lt_of_lt_of_le (Nat.mod_lt _ (by omega)) hl)
  have hmem : v.mem.getD c none = some (msg.getD c 0) := by
    rw [R.mem]; simp [List.getD_eq_getElem?_getD, hc]
  have h0 : msg.length ≠ 0 := by omega
  rcases hsc with rfl | rfl <;> rcases hrc with rfl | rfl <;>
  refine ⟨?_, ?_, ?_, ?_, ?_, ?_, ?_⟩ <;>
  simp [cycle, combPass, edge, msgBody, exec, eval, flush, resolve, Sto.write, msgInp, List.lookup, Body.isReg, Body.regW,
        Body.lo, Body.hi, trunc, msgNext, R.st, R.ct, R.va, R.rv, R.mem, hc, hc', hmem, hmod, h0, Nat.mod_eq_of_lt hg, Nat.mod_lt]
  all_goals first | exact hb _ (List.getElem_mem hc) | exact Nat.mod_lt _ (by omega)

theorem msg_outs (inp : Inp) (v : Sto) :
    outs (msgBody clk msg wc rdy) inp v = [("valid", trunc 1 (v.regs "rvalid")), ("v", trunc 8 (v.regs "rv"))] := by
  simp [outs, msgBody, eval, Body.isReg, Body.outW, List.lookup]

theorem msg_run_from (hl : msg.length ≤ 2 ^ wc) (hb : ∀ x ∈ msg, x < 256) (h : List Nat) :
    ∀ (v : Sto) (s c va rv : Nat), MsgRel msg v s c va rv → va ≤ 1 → rv < 256 → (∀ r ∈ h, r ≤ 1) →
    trace (msgBody clk msg wc 0) v (h.map msgInp) = (msgSim msg ⟨⟨(c : Int), (s : Int)⟩, va, rv⟩ h).map msgRow := by
  induction h with
  | nil => intro v s c va rv _ _ _ _; rfl
  | cons r h ih =>
    intro v s c va rv R hva hrv hok
    have hr := hok r (by simp)
    have R' := msg_body_step clk msg wc v s c va rv r hr hl hb R
    have hsim := msg_sim_step msg s c va rv r R.s1 hb R.cl
    have hg : msg.getD c 0 < 256 := by
      rw [List.getD_eq_getElem?_getD, List.getElem?_eq_getElem R.cl]; exact hb _ (List.getElem_mem R.cl)
    have hva' : (msgNext msg s c va rv r).2.2.1 ≤ 1 := by
      unfold msgNext; split <;> split <;> simp [hva] <;> omega
    have hrv' : (msgNext msg s c va rv r).2.2.2 < 256 := by
      unfold msgNext; split <;> split <;> first | exact hrv | exact hg
    simp only [List.map_cons, trace, msgSim]
    rw [hsim, ih _ _ _ _ _ R' hva' hrv' (fun y hy => hok y (by simp [hy])), msg_outs, R'.va, R'.rv]
    congr 1
    simp [msgRow, trunc, Nat.mod_eq_of_lt hrv', Nat.mod_eq_of_lt (Nat.lt_succ_of_le hva')]
end msg

theorem msg_power_rel (clk : String) (msg : List Nat) (wc rdy : Nat) (h0 : 0 < msg.length) (hb : ∀ x ∈ msg, x < 256) :
    MsgRel msg (power (msgBody clk msg wc rdy)) 0 0 0 0 := by
  refine ⟨?_, ?_, ?_, ?_, ?_, by omega, h0⟩
  · rw [msg_power_mem clk msg wc rdy h0]
    apply List.map_congr_left
    intro c hc
    simp [Nat.mod_eq_of_lt (hb c hc)]
  all_goals simp [power, msgBody, List.lookup, Body.regW]

end Mem

namespace C01Mem
open Mem Lib

/-- **SynchronousMemory, emitted body vs simulator, every width, every history from power-up.**
    After every cycle the body drives `readdata` with the simulator's read data (`syncSim` = the generated `clock()` + the mask of
    `readdata.prepare`; the content BEFORE the edge also when the same cell is written on that edge) — or with x exactly while the
    cell read at the last edge had not been written at an earlier edge (`syncKnown`, a function of the addresses only). -/
theorem sync_body_run (aw dw ww wdw : Nat) (h : List MemIn) (hok : ∀ x ∈ h, okIn aw x) :
    trace (syncBody aw dw ww wdw) (power (syncBody aw dw ww wdw)) (h.map syncInp)
      = (List.zipWith mask (syncKnown (List.replicate (2 ^ aw) false) h)
           (syncSim dw ⟨List.replicate (2 ^ aw) 0, 0⟩ h)).map fun o => [("readdata", o)] := by
  rw [sync_run_from aw dw ww wdw h _ _ (sync_power_rel aw dw ww wdw) hok, syncSpec_eq]
  rfl

theorem sync_all_known (dw : Nat) (h : List MemIn) : ∀ (wr : List Bool) (s : MemSt), (∀ k ∈ syncKnown wr h, k = true) →
    List.zipWith mask (syncKnown wr h) (syncSim dw s h) = (syncSim dw s h).map some := by
  induction h with
  | nil => intro wr s _; rfl
  | cons x h ih =>
    intro wr s hk
    simp only [syncKnown, syncSim, List.zipWith_cons_cons, List.map_cons]
    rw [ih _ _ (fun k hk' => hk k (by simp [syncKnown, hk'])), hk (wr.getD x.ra false) (by simp [syncKnown])]
    rfl

/-- once every cell read has been written before: exactly the simulator's trajectory -/
theorem sync_body_sim (aw dw ww wdw : Nat) (h : List MemIn) (hok : ∀ x ∈ h, okIn aw x)
    (hk : ∀ k ∈ syncKnown (List.replicate (2 ^ aw) false) h, k = true) :
    trace (syncBody aw dw ww wdw) (power (syncBody aw dw ww wdw)) (h.map syncInp)
      = (syncSim dw ⟨List.replicate (2 ^ aw) 0, 0⟩ h).map fun r => [("readdata", some r)] := by
  rw [sync_body_run aw dw ww wdw h hok, sync_all_known dw h _ _ hk, List.map_map]
  rfl

/-- power-up class: before the first edge the body's read register is x (a `reg` without initial value), the simulator's wire 0 -/
theorem sync_powerup_x (aw dw ww wdw : Nat) : observe0 (syncBody aw dw ww wdw) = [("readdata", none)] := by
  simp [observe0, combPass, syncBody, outs, eval, Body.isReg, power, trunc]

/-- **AsynchronousMemory, emitted body vs simulator, every width, every history from power-up**: after every cycle `readdata` is the
    simulator's read data (generated `propagate()`: the write is transparent) — or x exactly while the cell read has never been
    written (`asyncKnown`: writes up to and including this cycle). -/
theorem async_body_run (aw dw ww wdw : Nat) (h : List MemIn) (hok : ∀ x ∈ h, okIn aw x) :
    trace (asyncBody aw dw ww wdw) (power (asyncBody aw dw ww wdw)) (h.map syncInp)
      = (List.zipWith mask (asyncKnown (List.replicate (2 ^ aw) false) h)
           (asyncSim dw ⟨List.replicate (2 ^ aw) 0, 0⟩ h)).map fun o => [("readdata", o)] := by
  rw [async_run_from aw dw ww wdw h _ _ (async_power_rel aw dw ww wdw) hok, asyncSpec_eq]
  rfl

theorem async_body_sim (aw dw ww wdw : Nat) (h : List MemIn) (hok : ∀ x ∈ h, okIn aw x)
    (hk : ∀ k ∈ asyncKnown (List.replicate (2 ^ aw) false) h, k = true) :
    trace (asyncBody aw dw ww wdw) (power (asyncBody aw dw ww wdw)) (h.map syncInp)
      = (asyncSim dw ⟨List.replicate (2 ^ aw) 0, 0⟩ h).map fun r => [("readdata", some r)] := by
  rw [async_body_run aw dw ww wdw h hok, async_all_known dw h _ _ hk, List.map_map]
  rfl

theorem async_powerup_x (aw dw ww wdw : Nat) : observe0 (asyncBody aw dw ww wdw) = [("readdata", none)] := by
  have : 0 < 2 ^ aw := Nat.pos_of_ne_zero (by simp)
  simp [observe0, combPass, asyncBody, outs, eval, exec, flush, Body.isReg, power, trunc, List.lookup, Body.lo, Body.hi, Body.size]

/-- (history of the defect repaired by a7c9173) **what the OLD dual-port body showed, every width, every history from power-up**: the array corresponds to
    the simulator's data after every edge (port b's write wins a same-cell clash, as in `clock()`), and `readdata_a/b` carry the
    content of the addressed cells AFTER the edge (`assign readdata_a = mem[read_address_a]` reads the updated array). -/
theorem dual_body_run (aw dw ww wdw : Nat) (h : List DpIn) (hok : ∀ x ∈ h, okDp aw x) :
    trace (dualBody aw dw ww wdw) (power (dualBody aw dw ww wdw)) (h.map dualInp)
      = (dualSpec dw (DualG.init aw) h).map dualRow :=
  dual_run_from aw dw ww wdw h _ _ (dual_power_rel aw dw ww wdw) hok

/- FULL statement (false, see `dual_body_counterexample`):
     ∀ h, (∀ x ∈ h, okDp aw x) → trace (dualBody …) (power …) (h.map dualInp)
            = (List.zipWith mask2 (dualKnown (replicate (2^aw) false) h) (dualSim dw ⟨replicate (2^aw) 0, 0, 0⟩ h)).map dualRow -/
/-- `_partial`: on histories in which no port writes, on an edge, a cell that is read on that edge (`dpQuiet`), the body shows the
    simulator's read data (x while the cell had not been written before). -/
theorem dual_body_run_partial (aw dw ww wdw : Nat) (h : List DpIn) (hok : ∀ x ∈ h, okDp aw x) (hq : ∀ x ∈ h, dpQuiet x = true) :
    trace (dualBody aw dw ww wdw) (power (dualBody aw dw ww wdw)) (h.map dualInp)
      = (List.zipWith mask2 (dualKnown (List.replicate (2 ^ aw) false) h)
           (dualSim dw ⟨List.replicate (2 ^ aw) 0, 0, 0⟩ h)).map dualRow := by
  rw [dual_body_run aw dw ww wdw h hok, dual_quiet_spec dw h _ hq, dualSimSpec_eq]
  rfl

/-- outside `dpQuiet`: cell 0 is written with 3; on the next edge port a reads cell 0 while writing 1 to it.
    The simulator (`clock()`: read first) shows the old 3, the emitted body the new 1. -/
theorem dual_body_counterexample :
    let h : List DpIn := [⟨⟨1, 0, 1, 3⟩, ⟨1, 0, 0, 0⟩⟩, ⟨⟨0, 0, 1, 1⟩, ⟨1, 0, 0, 0⟩⟩]
    (trace (dualBody 1 2 1 2) (power (dualBody 1 2 1 2)) (h.map dualInp)).getLast? = some [("readdata_a", some 1), ("readdata_b", none)]
    ∧ (dualSim 2 ⟨List.replicate 2 0, 0, 0⟩ h).getLast? = some (3, 0)
    ∧ (dualKnown (List.replicate 2 false) h).getLast? = some (true, false) := by
  decide

theorem dual_powerup_x (aw dw ww wdw : Nat) :
    observe0 (dualBody aw dw ww wdw) = [("readdata_a", none), ("readdata_b", none)] := by
  have : 0 < 2 ^ aw := Nat.pos_of_ne_zero (by simp)
  simp [observe0, combPass, dualBody, outs, eval, Body.isReg, power, trunc, List.lookup, Body.lo, Body.hi, Body.size]

/-- **DualPortSynchronousMemory, emitted body (since repo commit a7c9173) vs simulator, every width, every history, NO side condition**:
    `readdata_a/b` are the simulator's read data after every cycle (x while the cell read had not been written before). -/
theorem dual_reg_body_run (aw dw ww wdw : Nat) (h : List DpIn) (hok : ∀ x ∈ h, okDp aw x) :
    trace (dualRegBody aw dw ww wdw) (power (dualRegBody aw dw ww wdw)) (h.map dualInp)
      = (List.zipWith mask2 (dualKnown (List.replicate (2 ^ aw) false) h)
           (dualSim dw ⟨List.replicate (2 ^ aw) 0, 0, 0⟩ h)).map dualRow := by
  rw [dualReg_run_from aw dw ww wdw h _ _ _ (dualReg_power_rel aw dw ww wdw) hok, dualSimSpec_eq]
  rfl

-- on the history of `dual_body_counterexample` the registered body shows the simulator's 3
example : (trace (dualRegBody 1 2 1 2) (power (dualRegBody 1 2 1 2))
            (([⟨⟨1, 0, 1, 3⟩, ⟨1, 0, 0, 0⟩⟩, ⟨⟨0, 0, 1, 1⟩, ⟨1, 0, 0, 0⟩⟩] : List DpIn).map dualInp)).getLast?
          = some [("readdata_a", some 3), ("readdata_b", none)] := by decide

/-- IEEE 1364-2005 §11.4.2 leaves the execution order of the two `always @(posedge clk)` blocks open.  `_partial`: on histories in
    which the two ports never write the same cell on the same edge (`dpClash`), both orders show the same outputs. -/
theorem dual_swap_run_partial (aw dw ww wdw : Nat) (h : List DpIn) (hok : ∀ x ∈ h, okDp aw x) (hc : ∀ x ∈ h, dpClash x = false) :
    trace (dualBody aw dw ww wdw).swap (power (dualBody aw dw ww wdw).swap) (h.map dualInp)
      = trace (dualBody aw dw ww wdw) (power (dualBody aw dw ww wdw)) (h.map dualInp) :=
  dual_swap_trace aw dw ww wdw h _ hok hc

/-- a clash: both ports write cell 0 (a: 1, b: 2), both read it.  Source order: b's write lands last (2, as in the simulator);
    the other order: a's (1). -/
theorem dual_swap_counterexample :
    let h : List DpIn := [⟨⟨0, 0, 1, 1⟩, ⟨0, 0, 1, 2⟩⟩]
    trace (dualBody 1 2 1 2) (power (dualBody 1 2 1 2)) (h.map dualInp) = [[("readdata_a", some 2), ("readdata_b", some 2)]]
    ∧ trace (dualBody 1 2 1 2).swap (power (dualBody 1 2 1 2)) (h.map dualInp) = [[("readdata_a", some 1), ("readdata_b", some 1)]] := by
  decide

/-- the body of SynchronousMemory with a BLOCKING write in the clocked block (what a shared "write port" helper taken from the
    asynchronous memory produces) -/
def syncBodyBlocking (aw dw ww wdw : Nat) : Body :=
  { syncBody aw dw ww wdw with
    posedge := [("clk", .seq (.ife (.id "write") (.ba (.cell (.id "write_address")) (.id "writedata")) .skip)
                             (.nba (.reg "rreaddata") (.rd (.id "read_address"))))] }

/-- the semantics separates `mem[a] = d` from `mem[a] <= d`: write 5 to cell 1; then read cell 1 while writing 9 to it.
    Non-blocking (as emitted): the old 5, as the simulator.  Blocking: the new 9 (write-first). -/
theorem sync_blocking_write_differs :
    let h : List MemIn := [⟨0, 1, 1, 5⟩, ⟨1, 1, 1, 9⟩]
    trace (syncBody 2 4 1 4) (power (syncBody 2 4 1 4)) (h.map syncInp) = [[("readdata", none)], [("readdata", some 5)]]
    ∧ trace (syncBodyBlocking 2 4 1 4) (power (syncBody 2 4 1 4)) (h.map syncInp) = [[("readdata", none)], [("readdata", some 9)]]
    ∧ syncSim 4 ⟨List.replicate 4 0, 0⟩ h = [0, 5] := by
  decide

/-- **MsgSequencer, emitted body (since repo commit 0f39eeb: the state-1 branch waits while `ready == 0`) vs `clock()`**:
    every message (non-empty, character codes < 256), every width `wc` of `count` with `len ≤ 2^wc`, every clock name, EVERY ready-schedule
    from power-up: `valid` and `v` are exactly the simulator's (`Gen.MsgSequencer.step` + the masks of `prepare`); no x anywhere
    (all regs and the array are initialised). -/
theorem msg_fixed_body_run (clk : String) (msg : List Nat) (wc : Nat) (h : List Nat) (h0 : 0 < msg.length)
    (hl : msg.length ≤ 2 ^ wc) (hb : ∀ x ∈ msg, x < 256) (hok : ∀ r ∈ h, r ≤ 1) :
    trace (msgBody clk msg wc 0) (power (msgBody clk msg wc 0)) (h.map msgInp) = (msgSim msg msgInit h).map msgRow :=
  msg_run_from clk msg wc hl hb h _ 0 0 0 0 (msg_power_rel clk msg wc 0 h0 hb) (by omega) (by omega) hok

/- history of the defect repaired by 0f39eeb: for the OLD text (`msgBody clk msg wc 1`: the state-1 branch tested `ready == 1`) the statement is FALSE: -/
/-- message "Hi", ready held at 1: cycle 1 both enter VALID (valid 1); cycle 2 `clock()` sees ready ≠ 0: valid 0, next character;
    the emitted body sees `ready == 1`: keeps valid 1 and waits.  Simulator valid = 0, emitted Verilog valid = 1. -/
theorem msg_body_counterexample :
    trace (msgBody "clk" [72, 105] 1 1) (power (msgBody "clk" [72, 105] 1 1)) ([1, 1].map msgInp)
      = [[("valid", some 1), ("v", some 0)], [("valid", some 1), ("v", some 72)]]
    ∧ msgSim [72, 105] msgInit [1, 1] = [(1, 0), (0, 72)] := by
  decide

/-- no power-up class for the sequencer: every reg is initialised -/
theorem msg_powerup (clk : String) (msg : List Nat) (wc rdy : Nat) :
    observe0 (msgBody clk msg wc rdy) = [("valid", some 0), ("v", some 0)] := by
  simp [observe0, combPass, msgBody, outs, eval, Body.isReg, Body.outW, Body.regW, power, trunc, List.lookup]

-- the repaired body on "Hi" with back-pressure: the hypotheses of `msg_fixed_body_run` are satisfiable, the trace is not trivial
example : trace (msgBody "clk" [72, 105] 1 0) (power (msgBody "clk" [72, 105] 1 0)) ([1, 0, 0, 1, 1, 1, 0, 1].map msgInp)
    = (msgSim [72, 105] msgInit [1, 0, 0, 1, 1, 1, 0, 1]).map msgRow
    ∧ msgSim [72, 105] msgInit [1, 0, 0, 1, 1, 1, 0, 1] = [(1, 0), (1, 72), (1, 72), (0, 72), (1, 72), (0, 105), (0, 105), (1, 105)]
    ∧ (msgBody "clk" [72, 105] 1 0).wf = true := by decide

/-! ### non-vacuity -/
-- a history that writes before it reads, with a same-address collision on the third edge: hypotheses of `sync_body_sim` hold
example : let h : List MemIn := [⟨0, 0, 1, 7⟩, ⟨0, 1, 1, 5⟩, ⟨1, 1, 1, 9⟩, ⟨1, 2, 0, 3⟩]
    (∀ x ∈ h, okIn 2 x) ∧ (∀ k ∈ (syncKnown (List.replicate 4 false) h).drop 1, k = true)
    ∧ syncSim 4 ⟨List.replicate 4 0, 0⟩ h = [0, 7, 5, 9] := by decide
example : trace (syncBody 2 4 1 4) (power (syncBody 2 4 1 4)) (([⟨0, 0, 1, 7⟩, ⟨0, 1, 1, 5⟩, ⟨1, 1, 1, 9⟩, ⟨1, 2, 0, 3⟩] : List MemIn).map syncInp)
    = [[("readdata", none)], [("readdata", some 7)], [("readdata", some 5)], [("readdata", some 9)]] := by decide
-- write data wider than the word: 23 lands as 23 % 16 = 7 on both sides
example : trace (syncBody 1 4 2 5) (power (syncBody 1 4 2 5)) (([⟨0, 0, 2, 23⟩, ⟨0, 0, 0, 0⟩] : List MemIn).map syncInp)
    = [[("readdata", none)], [("readdata", some 7)]] ∧ syncSim 4 ⟨List.replicate 2 0, 0⟩ [⟨0, 0, 2, 23⟩, ⟨0, 0, 0, 0⟩] = [0, 7] := by decide
-- asynchronous memory: the write is visible in the same cycle
example : let h : List MemIn := [⟨1, 1, 1, 6⟩, ⟨1, 0, 1, 2⟩, ⟨0, 0, 0, 0⟩]
    (∀ x ∈ h, okIn 1 x) ∧ (∀ k ∈ asyncKnown (List.replicate 2 false) h, k = true)
    ∧ asyncSim 3 ⟨List.replicate 2 0, 0⟩ h = [6, 6, 2]
    ∧ trace (asyncBody 1 3 1 3) (power (asyncBody 1 3 1 3)) (h.map syncInp)
        = [[("readdata", some 6)], [("readdata", some 6)], [("readdata", some 2)]] := by decide
-- dual port, a quiet history (hypotheses of `dual_body_run_partial`): a writes cell 0 and b cell 1, then both are read
example : let h : List DpIn := [⟨⟨2, 0, 1, 3⟩, ⟨3, 1, 1, 2⟩⟩, ⟨⟨0, 2, 0, 0⟩, ⟨1, 2, 0, 0⟩⟩]
    (∀ x ∈ h, okDp 2 x) ∧ (∀ x ∈ h, dpQuiet x = true) ∧ (∀ x ∈ h, dpClash x = false)
    ∧ dualSim 2 ⟨List.replicate 4 0, 0, 0⟩ h = [(0, 0), (3, 2)]
    ∧ dualKnown (List.replicate 4 false) h = [(false, false), (true, true)] := by decide
-- the fragment check accepts the three templates
example : (syncBody 3 8 1 8).wf = true ∧ (asyncBody 3 8 1 8).wf = true ∧ (dualBody 3 8 1 8).wf = true := by decide

end C01Mem
