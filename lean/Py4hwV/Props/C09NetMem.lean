import Py4hwV.Props.C09Net
import Py4hwV.Props.C09NetM
import Py4hwV.Proofs.C09MemFlat
/-
  C09, netlist level, MEMORIES INSIDE A NETLIST.

  `SeqMem.NetS` (Lib/SeqMem.lean): flat netlists whose leaves have a Python LIST as attribute — clocked leaves
  (Reg, SynchronousMemory, DualPortSynchronousMemory, all running their GENERATED `clock`) and propagatable leaves
  (the stateless combinational ones, and AsynchronousMemory whose generated `propagate` stores into `self.data`).

  Generic part
    `cycle`            one `sim.clk(1)` on ANY such netlist (C04 generalised to stateful propagate + C05)
    `init_state`       power-up
    `netTrace_sim`     simulation argument
  Memories embedded in ANY netlist, for EVERY test-bench history (arbitrary pokes of arbitrary wires between the edges):
    `smem_embedded`    a SynchronousMemory leaf: its `readdata` wire after every `clk(1)` is what the reference memory
                       `Spec.syncMem` answers when fed the SETTLED PRE-EDGE values of the leaf's port wires — whatever
                       drives them (other leaves, registers, the bench) — i.e. the content before a same-cycle write
    `smem_embedded_content`  … and `self.data` is the reference memory's content
    `dmem_embedded`    the same for both ports of a DualPortSynchronousMemory leaf (`Spec.dualPort`)
    `amem_pass`        AsynchronousMemory leaf: after every `propagateAll` the transparent-write rule on the final values
  A specimen with surrounding logic, compared with the LIVE netlist at every run (harness/c09.py `netlist-import`):
    `ramPipe_net`      Reg(address) → SynchronousMemory → Buf → Reg(out): the netlist under `Net.Sim` = `Lib.ramPipe`
    `ramPipe_refines`  `Lib.ramPipe` = registered-address / registered-output reference memory `Spec.ramPipe`
-/
set_option linter.unusedSimpArgs false
namespace C09S
open Net SeqFlat SeqMem Lib Leaf C09

/-- structural side conditions: the schedule is an evaluation order containing every propagatable leaf, the clocked
    leaves drive distinct wires, no propagatable leaf drives an output of a clocked leaf -/
structure NetOK (D : NetS) : Prop where
  sched : D.SchedOK
  qdist : (D.seqs.flatMap (·.outs)).Nodup
  qfree : ∀ q, q ∈ D.seqs → ∀ p, p ∈ D.props → p.out ∉ q.outs

theorem propfix_congr (D : NetS) (x y : Nat → LSt) (V : Nat → Nat) (x' : Nat → LSt)
    (h : ∀ k, k < D.props.length → x k = y k) (hf : PropFix D x V x') : PropFix D y V x' := by
  intro k p hk
  have hi : k < D.props.length := by
    rcases Nat.lt_or_ge k D.props.length with h' | h'
    · exact h'
    · rw [List.getElem?_eq_none h'] at hk; cases hk
  rw [← h k hi]
  exact hf k p hk

/-- **one `sim.clk(1)` on a flat netlist with list-state leaves** (stateful C04 + C05): with `s1` the settled pre-edge
    state (`clk` propagates first), every clocked leaf stores the attribute and shows on each output (masked) what its
    generated `clock()` computes from `s1`'s wire values and its old attribute; every propagatable leaf's output and
    attribute are at their fixpoint before and after; nothing else changes. -/
theorem cycle (D : NetS) (h : NetOK D) (s : State LSt) (hp : s.prepared = []) :
    let s1 := propagateAll D.design s
    let s2 := clk D.design 1 s
    (∀ j q, D.seqs[j]? = some q →
        s2.st (D.rid j) = (q.ck (q.ins.map s1.val) (s.st (D.rid j))).1 ∧
        ∀ i o, q.outs[i]? = some o →
          s2.val o = Bits.put (D.wd o) ((q.ck (q.ins.map s1.val) (s.st (D.rid j))).2.getD i 0)) ∧
    PropFix D s.st s1.val s1.st ∧ PropFix D s1.st s2.val s2.st ∧
    (∀ w, (∀ p, p ∈ D.props → p.out ≠ w) → s1.val w = s.val w) ∧
    (∀ w, (∀ p, p ∈ D.props → p.out ≠ w) → (∀ q, q ∈ D.seqs → w ∉ q.outs) → s2.val w = s.val w) ∧
    s2.prepared = [] := by
  intro s1 s2
  have hp1 : s1.prepared = [] := by rw [SeqMem.propagate_prepared]; exact hp
  have hE := edge_sim D s1 hp1 h.qdist
  have e2 : s2 = { propagateAll D.design (settleAll (clockDrivers D.design s1 D.design.drivers)) with
                   clks := (propagateAll D.design (settleAll (clockDrivers D.design s1 D.design.drivers))).clks + 1 } := rfl
  have v2 : s2.val = (propagateAll D.design (settleAll (clockDrivers D.design s1 D.design.drivers))).val := by rw [e2]
  have t2 : s2.st = (propagateAll D.design (settleAll (clockDrivers D.design s1 D.design.drivers))).st := by rw [e2]
  refine ⟨?_, propagate_propfix D h.sched s, ?_, ?_, ?_, ?_⟩
  · intro j q hq
    have hmem : q ∈ D.seqs := List.mem_of_getElem? hq
    have hs1 : s1.st (D.rid j) = s.st (D.rid j) := propagate_st_seq D s _ (rid_none D j)
    constructor
    · rw [t2, propagate_st_seq D _ _ (rid_none D j), (hE.1 j q hq).1, hs1]
    · intro i o ho
      have hoq : o ∈ q.outs := List.mem_of_getElem? ho
      rw [v2, propagate_val_other D _ o (fun p hp' e => h.qfree q hmem p hp' (e ▸ hoq)), (hE.1 j q hq).2 i o ho, hs1]
  · rw [v2, t2]
    exact propfix_congr D _ _ _ _ (fun k hk => hE.2.2.1 k hk) (propagate_propfix D h.sched _)
  · intro w hw; exact propagate_val_other D s w hw
  · intro w hw hr
    rw [v2, propagate_val_other D _ w hw, hE.2.1 w hr]
    exact propagate_val_other D s w hw
  · rw [e2]
    show (propagateAll D.design _).prepared = []
    rw [SeqMem.propagate_prepared]; exact hE.2.2.2

/-- poking a wire -/
theorem putW_val (D : NetS) (s : State LSt) (w : Nat) (v : Int) :
    putW D.design s (w, v) = { s with val := upd s.val w (Bits.put (D.wd w) v) } := by
  simp only [putW]
  congr 2
  exact SeqFlat.wput _ _

/-- a test bench's pokes touch neither the attributes nor the prepared list, and keep the values within their widths -/
theorem pokes_frame (D : NetS) (ps : List (Nat × Int)) (s : State LSt) :
    (ps.foldl (putW D.design) s).st = s.st ∧ (ps.foldl (putW D.design) s).prepared = s.prepared ∧
    (C06.Inv D.design s → C06.Inv D.design (ps.foldl (putW D.design) s)) :=
  ⟨C10.foldl_putW_st _ _ _, C05.foldl_putW_prepared _ _ _,
   fun h => C06.inv_foldl D.design (putW D.design) (fun s a => C06.inv_putW D.design s a) ps s h⟩

/-- power-up: attributes as constructed, constructor puts visible (masked), propagatable leaves at their fixpoint -/
theorem init_state (D : NetS) (hc : (D.cons.map Prod.fst).Nodup)
    (hcf : ∀ wv, wv ∈ D.cons → ∀ p, p ∈ D.props → p.out ≠ wv.1) :
    (initC D.design D.st0 D.cons).prepared = [] ∧
    (∀ j q, D.seqs[j]? = some q → (initC D.design D.st0 D.cons).st (D.rid j) = q.st0) ∧
    (∀ wv, wv ∈ D.cons → (initC D.design D.st0 D.cons).val wv.1 = Bits.put (D.wd wv.1) wv.2) ∧
    (∀ w, w ∉ D.cons.map Prod.fst → (∀ p, p ∈ D.props → p.out ≠ w) → (initC D.design D.st0 D.cons).val w = 0) ∧
    C06.Inv D.design (initC D.design D.st0 D.cons) := by
  refine ⟨?_, ?_, ?_, ?_, C06.inv_power_upC _ _ _⟩
  · simp only [initC]
    rw [SeqMem.propagate_prepared, C05.foldl_putW_prepared]
  · intro j q hq
    simp only [initC]
    rw [propagate_st_seq D _ _ (rid_none D j), C10.foldl_putW_st]
    have h1 : D.props[D.props.length + j]? = none := rid_none D j
    have h2 : D.props.length + j - D.props.length = j := by omega
    simp only [NetS.st0, NetS.rid, h1, h2, hq]
  · intro wv hwv
    simp only [initC]
    rw [propagate_val_other D _ wv.1 (fun p hp => hcf wv hwv p hp)]
    have := C04.foldl_putW_hit D.design D.cons
      { val := fun _ => 0, nxt := fun _ => 0, prepared := [], st := D.st0, clks := 0 } hc wv hwv
    rw [this]
    simp only [C04.mval]
    exact SeqFlat.wput _ _
  · intro w hw hp
    simp only [initC]
    rw [propagate_val_other D _ w hp, C10.foldl_putW_val_other _ _ _ _ hw]

/-- simulation argument at netlist level -/
theorem netTrace_sim {σ ι ο : Type} (D : NetS) (m : Machine σ ι ο) (pokes : ι → List (Nat × Int)) (outs : List Nat)
    (enc : ο → List Nat) (valid : ι → Prop) (Inv : State LSt → σ → Prop)
    (hstep : ∀ s st i, valid i → Inv s st →
      Inv (clk D.design 1 ((pokes i).foldl (putW D.design) s)) (m.step st i) ∧
      outs.map (clk D.design 1 ((pokes i).foldl (putW D.design) s)).val = enc (m.out (m.step st i) i)) :
    ∀ (h : List ι) (s : State LSt) (st : σ), (∀ x ∈ h, valid x) → Inv s st →
      SeqMem.netTrace D pokes outs s h = (m.trace st h).map (fun ab => enc ab.2) := by
  intro h
  induction h with
  | nil => intro _ _ _ _; rfl
  | cons i t ih =>
    intro s st hv hI
    have hs := hstep s st i (hv i (List.mem_cons_self ..)) hI
    simp only [SeqMem.netTrace, Machine.trace, List.map_cons]
    rw [hs.2, ih _ _ (fun x hx => hv x (List.mem_cons_of_mem _ hx)) hs.1]

/-! ## the generated `clock()` of the memories against the reference memory (address → value function) -/

theorem smemQ_ck (M : SMem) (dw : Nat) (data : List Int) (mem : Nat → Nat) (ra wa we wd : Nat)
    (hm : MemRel M.aw data mem) (hra : ra < 2 ^ M.aw) (hwa : wa < 2 ^ M.aw) :
    MemRel M.aw ((smemQ M).ck [ra, wa, we, wd] data).1
      (if we ≠ 0 then (fun a => if a = wa then wd else mem a) else mem) ∧
    Bits.put dw (((smemQ M).ck [ra, wa, we, wd] data).2.getD 0 0) = mem ra % 2 ^ dw := by
  have hrd := memRel_read M.aw dw data mem ra hm hra
  by_cases hwe : we = 0
  · simp [smemQ, gi, Gen.SynchronousMemory.step, Id.run, pure, Py.truthy, hwe, hrd, hm]
  · have hw := memRel_write M.aw data mem wa wd hm hwa
    simp [smemQ, gi, Gen.SynchronousMemory.step, Id.run, pure, Py.truthy, hwe, hrd, hw]


theorem dmemQ_ck (M : DMem) (dw : Nat) (data : List Int) (mem : Nat → Nat) (i : DpIn)
    (hm : MemRel M.a.aw data mem) (h1 : i.a.ra < 2 ^ M.a.aw) (h2 : i.a.wa < 2 ^ M.a.aw) (h3 : i.b.ra < 2 ^ M.a.aw)
    (h4 : i.b.wa < 2 ^ M.a.aw) :
    let r := (dmemQ M).ck [i.a.ra, i.a.wa, i.b.ra, i.b.wa, i.a.we, i.a.wd, i.b.we, i.b.wd] data
    MemRel M.a.aw r.1
      (if i.b.we ≠ 0 then (fun x => if x = i.b.wa then i.b.wd else
          (if i.a.we ≠ 0 then (fun x => if x = i.a.wa then i.a.wd else mem x) else mem) x)
       else (if i.a.we ≠ 0 then (fun x => if x = i.a.wa then i.a.wd else mem x) else mem)) ∧
    Bits.put dw (r.2.getD 0 0) = mem i.a.ra % 2 ^ dw ∧ Bits.put dw (r.2.getD 1 0) = mem i.b.ra % 2 ^ dw := by
  intro r
  have ra := memRel_read M.a.aw dw data mem i.a.ra hm h1
  have rb := memRel_read M.a.aw dw data mem i.b.ra hm h3
  by_cases ha : i.a.we = 0 <;> by_cases hb : i.b.we = 0
  · simp [r, dmemQ, gi, Gen.DualPortSynchronousMemory.step, Id.run, pure, Py.truthy, ha, hb, ra, rb, hm]
  · have hw := memRel_write M.a.aw _ _ _ i.b.wd hm h4
    simp [r, dmemQ, gi, Gen.DualPortSynchronousMemory.step, Id.run, pure, Py.truthy, ha, hb, ra, rb, hw]
  · have hw := memRel_write M.a.aw _ _ _ i.a.wd hm h2
    simp [r, dmemQ, gi, Gen.DualPortSynchronousMemory.step, Id.run, pure, Py.truthy, ha, hb, ra, rb, hw]
  · have hw := memRel_write M.a.aw _ _ _ i.b.wd (memRel_write M.a.aw _ _ _ i.a.wd hm h2) h4
    simp [r, dmemQ, gi, Gen.DualPortSynchronousMemory.step, Id.run, pure, Py.truthy, ha, hb, ra, rb, hw]

/-! ## a SynchronousMemory leaf embedded in ANY netlist, for EVERY test-bench history -/

/-- the values on the ports of memory `M` at the successive edges: the SETTLED PRE-EDGE wire values (`clk` propagates
    before it clocks), whatever drives those wires -/
def portTrace {ι : Type} (D : NetS) (M : SMem) (pokes : ι → List (Nat × Int)) (s : State LSt) : List ι → List MemIn
  | [] => []
  | i :: t =>
    let sp := (pokes i).foldl (putW D.design) s
    let s1 := propagateAll D.design sp
    ⟨s1.val M.ra, s1.val M.wa, s1.val M.we, s1.val M.wdat⟩ :: portTrace D M pokes (clk D.design 1 sp) t

/-- simulator state after the bench history -/
def stateAfter {ι : Type} (D : NetS) (pokes : ι → List (Nat × Int)) (s : State LSt) : List ι → State LSt
  | [] => s
  | i :: t => stateAfter D pokes (clk D.design 1 ((pokes i).foldl (putW D.design) s)) t

def MemInv (D : NetS) (aw j : Nat) (s : State LSt) (mem : Nat → Nat) : Prop :=
  s.prepared = [] ∧ C06.Inv D.design s ∧ MemRel aw (s.st (D.rid j)) mem

theorem smem_step (D : NetS) (h : NetOK D) (M : SMem) (j : Nat) (hM : D.seqs[j]? = some (smemQ M))
    (hra : D.wd M.ra = M.aw) (hwa : D.wd M.wa = M.aw) (ps : List (Nat × Int)) (s : State LSt) (t : Spec.MemSt)
    (hI : MemInv D M.aw j s t.mem) :
    let sp := ps.foldl (putW D.design) s
    let s1 := propagateAll D.design sp
    let i : MemIn := ⟨s1.val M.ra, s1.val M.wa, s1.val M.we, s1.val M.wdat⟩
    MemInv D M.aw j (clk D.design 1 sp) ((Spec.syncMem (D.wd M.rd)).step t i).mem ∧
    (clk D.design 1 sp).val M.rd = (Spec.syncMem (D.wd M.rd)).out ((Spec.syncMem (D.wd M.rd)).step t i) i := by
  intro sp s1 i
  obtain ⟨hp, hinv, hm⟩ := hI
  obtain ⟨fst_, fprep, finv⟩ := pokes_frame D ps s
  have spp : sp.prepared = [] := by show (ps.foldl (putW D.design) s).prepared = []; rw [fprep]; exact hp
  have spi : C06.Inv D.design sp := finv hinv
  have hC := cycle D h sp spp
  obtain ⟨hreg, _, _, _, _, hp2⟩ := hC
  have hR := hreg j (smemQ M) hM
  have i1 : C06.Inv D.design s1 := C06.inv_propagateAll _ _ spi
  have lra : s1.val M.ra < 2 ^ M.aw := by have := i1.1 M.ra; rw [← hra]; exact this
  have lwa : s1.val M.wa < 2 ^ M.aw := by have := i1.1 M.wa; rw [← hwa]; exact this
  have hst : sp.st (D.rid j) = s.st (D.rid j) := by show (ps.foldl (putW D.design) s).st _ = _; rw [fst_]
  have hck := smemQ_ck M (D.wd M.rd) (s.st (D.rid j)) t.mem (s1.val M.ra) (s1.val M.wa) (s1.val M.we) (s1.val M.wdat) hm lra lwa
  have hins : (smemQ M).ins.map s1.val = [s1.val M.ra, s1.val M.wa, s1.val M.we, s1.val M.wdat] := rfl
  rw [hins, hst] at hR
  refine ⟨⟨hp2, C06.inv_clk _ _ _ spi, ?_⟩, ?_⟩
  · rw [hR.1]; exact hck.1
  · rw [hR.2 0 M.rd rfl, hck.2]; rfl

/-- **SynchronousMemory inside a netlist.**  `D` is ANY flat netlist (side conditions `NetOK`) that contains the
    SynchronousMemory leaf `M` (address wires as wide as `M.aw`); the bench does ARBITRARY pokes between the edges.
    Then from any state in which `self.data` holds the reference content `t.mem`, the `readdata` wire read after every
    `clk(1)` is the answer of the reference memory `Spec.syncMem` to the settled pre-edge port values — the content BEFORE
    a same-cycle write — and `self.data` keeps holding the reference content. -/
theorem smem_embedded_from (D : NetS) (h : NetOK D) (M : SMem) (j : Nat) (hM : D.seqs[j]? = some (smemQ M))
    (hra : D.wd M.ra = M.aw) (hwa : D.wd M.wa = M.aw) {ι : Type} (pokes : ι → List (Nat × Int)) :
    ∀ (hist : List ι) (s : State LSt) (t : Spec.MemSt), MemInv D M.aw j s t.mem →
      SeqMem.netTrace D pokes [M.rd] s hist =
        ((Spec.syncMem (D.wd M.rd)).trace t (portTrace D M pokes s hist)).map (fun ab => [ab.2]) ∧
      MemInv D M.aw j (stateAfter D pokes s hist)
        ((portTrace D M pokes s hist).foldl (Spec.syncMem (D.wd M.rd)).step t).mem := by
  intro hist
  induction hist with
  | nil => intro s t hI; exact ⟨rfl, hI⟩
  | cons i rest ih =>
    intro s t hI
    have hs := smem_step D h M j hM hra hwa (pokes i) s t hI
    have := ih _ _ hs.1
    simp only [SeqMem.netTrace, portTrace, stateAfter, Machine.trace, List.map_cons, List.foldl_cons]
    refine ⟨?_, this.2⟩
    rw [this.1]
    simp only [List.map_cons, List.map_nil]
    rw [hs.2]

/-- power-up: nothing prepared, every clocked leaf holds its constructor attribute, all wire values fit -/
theorem init_attr (D : NetS) :
    (initC D.design D.st0 D.cons).prepared = [] ∧
    (∀ j q, D.seqs[j]? = some q → (initC D.design D.st0 D.cons).st (D.rid j) = q.st0) ∧
    C06.Inv D.design (initC D.design D.st0 D.cons) := by
  refine ⟨?_, ?_, C06.inv_power_upC _ _ _⟩
  · simp only [initC]
    rw [SeqMem.propagate_prepared, C05.foldl_putW_prepared]
  · intro j q hq
    simp only [initC]
    rw [propagate_st_seq D _ _ (rid_none D j), C10.foldl_putW_st]
    have h1 : D.props[D.props.length + j]? = none := rid_none D j
    have h2 : D.props.length + j - D.props.length = j := by omega
    simp only [NetS.st0, NetS.rid, h1, h2, hq]

/-- **from power-up** (every netlist, every bench history): `readdata` after every edge = the reference memory on the
    settled pre-edge port values -/
theorem smem_embedded (D : NetS) (h : NetOK D) (M : SMem) (j : Nat) (hM : D.seqs[j]? = some (smemQ M))
    (hra : D.wd M.ra = M.aw) (hwa : D.wd M.wa = M.aw) {ι : Type} (pokes : ι → List (Nat × Int)) (hist : List ι) :
    SeqMem.netTrace D pokes [M.rd] (initC D.design D.st0 D.cons) hist =
      ((Spec.syncMem (D.wd M.rd)).trace (Spec.syncMem (D.wd M.rd)).init
        (portTrace D M pokes (initC D.design D.st0 D.cons) hist)).map (fun ab => [ab.2]) := by
  obtain ⟨h1, h2, h3⟩ := init_attr D
  refine (smem_embedded_from D h M j hM hra hwa pokes hist _ (Spec.syncMem (D.wd M.rd)).init ⟨h1, h3, ?_⟩).1
  rw [h2 j _ hM]
  exact memRel_init M.aw

/-- … and the leaf's `self.data` is the reference memory's content after the whole history -/
theorem smem_embedded_content (D : NetS) (h : NetOK D) (M : SMem) (j : Nat) (hM : D.seqs[j]? = some (smemQ M))
    (hra : D.wd M.ra = M.aw) (hwa : D.wd M.wa = M.aw) {ι : Type} (pokes : ι → List (Nat × Int)) (hist : List ι) :
    MemRel M.aw ((stateAfter D pokes (initC D.design D.st0 D.cons) hist).st (D.rid j))
      ((Spec.syncMem (D.wd M.rd)).run (portTrace D M pokes (initC D.design D.st0 D.cons) hist)).mem := by
  obtain ⟨h1, h2, h3⟩ := init_attr D
  refine (smem_embedded_from D h M j hM hra hwa pokes hist _ (Spec.syncMem (D.wd M.rd)).init ⟨h1, h3, ?_⟩).2.2.2
  rw [h2 j _ hM]
  exact memRel_init M.aw

/-! ## a DualPortSynchronousMemory leaf embedded in any netlist -/

def portTraceD {ι : Type} (D : NetS) (M : DMem) (pokes : ι → List (Nat × Int)) (s : State LSt) : List ι → List DpIn
  | [] => []
  | i :: t =>
    let sp := (pokes i).foldl (putW D.design) s
    let s1 := propagateAll D.design sp
    ⟨⟨s1.val M.a.ra, s1.val M.a.wa, s1.val M.a.we, s1.val M.a.wdat⟩,
     ⟨s1.val M.b.ra, s1.val M.b.wa, s1.val M.b.we, s1.val M.b.wdat⟩⟩ :: portTraceD D M pokes (clk D.design 1 sp) t

theorem dmem_step (D : NetS) (h : NetOK D) (M : DMem) (j : Nat) (hM : D.seqs[j]? = some (dmemQ M))
    (hw : D.wd M.a.ra = M.a.aw ∧ D.wd M.a.wa = M.a.aw ∧ D.wd M.b.ra = M.a.aw ∧ D.wd M.b.wa = M.a.aw)
    (hdw : D.wd M.b.rd = D.wd M.a.rd)
    (ps : List (Nat × Int)) (s : State LSt) (t : Spec.DpSt) (hI : MemInv D M.a.aw j s t.mem) :
    let sp := ps.foldl (putW D.design) s
    let s1 := propagateAll D.design sp
    let i : DpIn := ⟨⟨s1.val M.a.ra, s1.val M.a.wa, s1.val M.a.we, s1.val M.a.wdat⟩,
                     ⟨s1.val M.b.ra, s1.val M.b.wa, s1.val M.b.we, s1.val M.b.wdat⟩⟩
    MemInv D M.a.aw j (clk D.design 1 sp) ((Spec.dualPort (D.wd M.a.rd)).step t i).mem ∧
    [M.a.rd, M.b.rd].map (clk D.design 1 sp).val =
      [((Spec.dualPort (D.wd M.a.rd)).out ((Spec.dualPort (D.wd M.a.rd)).step t i) i).1,
       ((Spec.dualPort (D.wd M.a.rd)).out ((Spec.dualPort (D.wd M.a.rd)).step t i) i).2] := by
  intro sp s1 i
  obtain ⟨hp, hinv, hm⟩ := hI
  obtain ⟨fst_, fprep, finv⟩ := pokes_frame D ps s
  have spp : sp.prepared = [] := by show (ps.foldl (putW D.design) s).prepared = []; rw [fprep]; exact hp
  have spi : C06.Inv D.design sp := finv hinv
  have hC := cycle D h sp spp
  obtain ⟨hreg, _, _, _, _, hp2⟩ := hC
  have hR := hreg j (dmemQ M) hM
  have i1 : C06.Inv D.design s1 := C06.inv_propagateAll _ _ spi
  have l1 : s1.val M.a.ra < 2 ^ M.a.aw := by have := i1.1 M.a.ra; rw [← hw.1]; exact this
  have l2 : s1.val M.a.wa < 2 ^ M.a.aw := by have := i1.1 M.a.wa; rw [← hw.2.1]; exact this
  have l3 : s1.val M.b.ra < 2 ^ M.a.aw := by have := i1.1 M.b.ra; rw [← hw.2.2.1]; exact this
  have l4 : s1.val M.b.wa < 2 ^ M.a.aw := by have := i1.1 M.b.wa; rw [← hw.2.2.2]; exact this
  have hst : sp.st (D.rid j) = s.st (D.rid j) := by show (ps.foldl (putW D.design) s).st _ = _; rw [fst_]
  have hck := dmemQ_ck M (D.wd M.a.rd) (s.st (D.rid j)) t.mem i hm l1 l2 l3 l4
  have hins : (dmemQ M).ins.map s1.val = [i.a.ra, i.a.wa, i.b.ra, i.b.wa, i.a.we, i.a.wd, i.b.we, i.b.wd] := rfl
  rw [hins, hst] at hR
  refine ⟨⟨hp2, C06.inv_clk _ _ _ spi, ?_⟩, ?_⟩
  · rw [hR.1]; exact hck.1
  · simp only [List.map_cons, List.map_nil]
    rw [hR.2 0 M.a.rd rfl, hR.2 1 M.b.rd rfl, hdw, hck.2.1, hck.2.2]; rfl

/-- **DualPortSynchronousMemory inside a netlist** (any netlist, arbitrary bench pokes, from power-up): after every edge
    both `readdata` wires show what the reference dual-port memory answers to the settled pre-edge port values: the content
    before the edge for both ports, port b's write winning a collision -/
theorem dmem_embedded (D : NetS) (h : NetOK D) (M : DMem) (j : Nat) (hM : D.seqs[j]? = some (dmemQ M))
    (hw : D.wd M.a.ra = M.a.aw ∧ D.wd M.a.wa = M.a.aw ∧ D.wd M.b.ra = M.a.aw ∧ D.wd M.b.wa = M.a.aw)
    (hdw : D.wd M.b.rd = D.wd M.a.rd) {ι : Type} (pokes : ι → List (Nat × Int)) (hist : List ι) :
    SeqMem.netTrace D pokes [M.a.rd, M.b.rd] (initC D.design D.st0 D.cons) hist =
      ((Spec.dualPort (D.wd M.a.rd)).trace (Spec.dualPort (D.wd M.a.rd)).init
        (portTraceD D M pokes (initC D.design D.st0 D.cons) hist)).map (fun ab => [ab.2.1, ab.2.2]) := by
  obtain ⟨h1, h2, h3⟩ := init_attr D
  have key : ∀ (hist : List ι) (s : State LSt) (t : Spec.DpSt), MemInv D M.a.aw j s t.mem →
      SeqMem.netTrace D pokes [M.a.rd, M.b.rd] s hist =
        ((Spec.dualPort (D.wd M.a.rd)).trace t (portTraceD D M pokes s hist)).map (fun ab => [ab.2.1, ab.2.2]) := by
    intro hist
    induction hist with
    | nil => intro s t _; rfl
    | cons i rest ih =>
      intro s t hI
      have hs := dmem_step D h M j hM hw hdw (pokes i) s t hI
      have hs2 := hs.2
      simp only [List.map_cons, List.map_nil] at hs2
      simp only [SeqMem.netTrace, portTraceD, Machine.trace, List.map_cons, List.map_nil]
      rw [ih _ _ hs.1, hs2]
  refine key hist _ (Spec.dualPort (D.wd M.a.rd)).init ⟨h1, h3, ?_⟩
  rw [h2 j _ hM]
  exact memRel_init M.a.aw


/-! ## AsynchronousMemory leaf (stateful `propagate`) in any netlist: the rule of one pass -/

/-- after EVERY `propagateAll` on any netlist containing the AsynchronousMemory leaf `M` (as propagatable leaf `k`):
    with `x` = `self.data` before the pass and `V` the final wire values, `self.data` is `x` with the transparent write
    applied (`write != 0`: cell `write_address` := `writedata`) and `readdata` shows the cell `read_address` of the
    UPDATED list (masked) — the generated `propagate` evaluated once on the FINAL values, although the leaf has state. -/
theorem amem_pass (D : NetS) (h : D.SchedOK) (M : SMem) (k : Nat) (hM : D.props[k]? = some (amemP M)) (s : State LSt) :
    let V := (propagateAll D.design s).val
    let x' := if V M.we ≠ 0 then Py.lset (s.st k) (V M.wa : Int) (V M.wdat : Int) else s.st k
    (propagateAll D.design s).st k = x' ∧ V M.rd = Bits.put (D.wd M.rd) (Py.lget x' (V M.ra : Int)) := by
  intro V x'
  have hf := propagate_propfix D h s k (amemP M) hM
  have e : (amemP M).f ((amemP M).ins.map V) (s.st k) = (x', Py.lget x' (V M.ra : Int)) := by
    by_cases hwe : V M.we = 0
    · simp [amemP, gi, Gen.AsynchronousMemory.step, Id.run, pure, Py.truthy, hwe, x']
    · simp [amemP, gi, Gen.AsynchronousMemory.step, Id.run, pure, Py.truthy, hwe, x']
  rw [e] at hf
  exact ⟨hf.2, hf.1⟩

/-! ## specimen: registered-address, registered-output RAM (Lib/SeqMem.lean `ramPipeNet`) -/

theorem regQ_ck (R : RLeaf) (ve vr vd old : Nat) :
    (regQ R).ck [ve, vr, vd] [(old : Int)] =
      ([((SeqFlat.regNext R.hasR R.hasE R.rv vr ve vd old : Nat) : Int)],
       [((SeqFlat.regNext R.hasR R.hasE R.rv vr ve vd old : Nat) : Int)]) := by
  have h := SeqFlat.gen_reg_rule R.hasR R.hasE R.rv vr ve vd old
  simp only [regQ, gi, List.getD_cons_zero, List.getD_cons_succ]
  rw [h.1, h.2]
  rfl

theorem smemQ_memClk (M : SMem) (dw : Nat) (i : MemIn) (st : MemSt) :
    ((smemQ M).ck [i.ra, i.wa, i.we, i.wd] st.data).1 = (memClk dw i st).data ∧
    Bits.put dw (((smemQ M).ck [i.ra, i.wa, i.we, i.wd] st.data).2.getD 0 0) = (memClk dw i st).readdata := ⟨rfl, rfl⟩

theorem ramPipeNet_ok (aw dw ww : Nat) : NetOK (ramPipeNet aw dw ww).netS := by
  refine ⟨⟨?_, ?_⟩, ?_, ?_⟩
  · simp [TopoOK, NetS.pcomb, NetS.reads, NetS.writes, KNetS.netS, ramPipeNet, PKind.leaf, PLeaf.ofC, Kind.leaf]
  · intro i hi
    simp [KNetS.netS, ramPipeNet] at hi ⊢
    omega
  · simp [KNetS.netS, ramPipeNet, SKind.leaf, regQ, smemQ, ramA, ramM, ramO]
  · intro q hq p hp
    simp [KNetS.netS, ramPipeNet, SKind.leaf, PKind.leaf, PLeaf.ofC, Kind.leaf] at hq hp
    subst hp
    rcases hq with rfl | rfl | rfl <;> simp [regQ, smemQ, ramA, ramM, ramO]

def RamInv (aw dw : Nat) (D : NetS) (s : State LSt) (st : RamSt) : Prop :=
  ∃ a o, st.raq = nat a ∧ a < 2 ^ aw ∧ st.outq = nat o ∧ o < 2 ^ dw ∧ st.mem.readdata < 2 ^ dw ∧
    s.st (D.rid 0) = [(a : Int)] ∧ s.val 5 = a ∧ s.st (D.rid 1) = st.mem.data ∧ s.val 6 = st.mem.readdata ∧
    s.st (D.rid 2) = [(o : Int)] ∧ s.val 8 = o ∧ s.prepared = []

theorem ramPipe_step (aw dw ww : Nat) (s : State LSt) (st : RamSt) (i : MemIn)
    (hv : i.ra < 2 ^ aw ∧ i.wa < 2 ^ aw ∧ i.we < 2 ∧ i.wd < 2 ^ ww) (hI : RamInv aw dw (ramPipeNet aw dw ww).netS s st) :
    let D := (ramPipeNet aw dw ww).netS
    let s' := clk D.design 1 ((ramPokes i).foldl (putW D.design) s)
    RamInv aw dw D s' ((ramPipe aw dw).step st i) ∧ [8].map s'.val = [(ramPipe aw dw).out ((ramPipe aw dw).step st i) i] := by
  intro D s'
  obtain ⟨a, o, hra, ha, hro, ho, hrd, hst0, hv5, hst1, hv6, hst2, hv8, hp⟩ := hI
  obtain ⟨h1, h2, h3, h4⟩ := hv
  let sp := (ramPokes i).foldl (putW D.design) s
  have wda : ∀ x, (x = 1 ∨ x = 2 ∨ x = 5) → D.wd x = aw := by intro x hx; simp [D, KNetS.netS, ramPipeNet, hx]
  have wd3 : D.wd 3 = 1 := by simp [D, KNetS.netS, ramPipeNet]
  have wd4 : D.wd 4 = ww := by simp [D, KNetS.netS, ramPipeNet]
  have wdd : ∀ x, (x = 6 ∨ x = 7 ∨ x = 8) → D.wd x = dw := by
    intro x hx; rcases hx with rfl | rfl | rfl <;> simp [D, KNetS.netS, ramPipeNet]
  have spv : sp.val = upd (upd (upd (upd s.val 1 i.ra) 2 i.wa) 3 i.we) 4 i.wd := by
    simp only [sp, ramPokes, List.foldl_cons, List.foldl_nil, putW_val, wda 1 (by simp), wda 2 (by simp), wd3, wd4, Bits.put_ofNat]
    simp [Nat.mod_eq_of_lt h1, Nat.mod_eq_of_lt h2, Nat.mod_eq_of_lt h3, Nat.mod_eq_of_lt h4]
  have spst : sp.st = s.st := (pokes_frame D (ramPokes i) s).1
  have spp : sp.prepared = [] := by rw [show sp.prepared = s.prepared from (pokes_frame D (ramPokes i) s).2.1]; exact hp
  obtain ⟨hreg, hfix1, hfix2, hin1, _, hp2⟩ := cycle D (ramPipeNet_ok aw dw ww) sp spp
  have free : ∀ x, x ≠ 7 → ∀ p, p ∈ D.props → p.out ≠ x := by
    intro x hx p hp'
    simp [D, KNetS.netS, ramPipeNet, PKind.leaf, PLeaf.ofC, Kind.leaf] at hp'
    subst hp'; exact fun e => hx e.symm
  have v1 : (propagateAll D.design sp).val 1 = i.ra := by rw [hin1 1 (free 1 (by omega)), spv]; simp [upd]
  have v2 : (propagateAll D.design sp).val 2 = i.wa := by rw [hin1 2 (free 2 (by omega)), spv]; simp [upd]
  have v3 : (propagateAll D.design sp).val 3 = i.we := by rw [hin1 3 (free 3 (by omega)), spv]; simp [upd]
  have v4 : (propagateAll D.design sp).val 4 = i.wd := by rw [hin1 4 (free 4 (by omega)), spv]; simp [upd]
  have v5 : (propagateAll D.design sp).val 5 = a := by rw [hin1 5 (free 5 (by omega)), spv]; simp [upd, hv5]
  have v6 : (propagateAll D.design sp).val 6 = st.mem.readdata := by rw [hin1 6 (free 6 (by omega)), spv]; simp [upd, hv6]
  have v7 : (propagateAll D.design sp).val 7 = buf dw st.mem.readdata := by
    have := (hfix1 0 (PKind.leaf D.wd (.comb (.buf 6 7))) (by simp [D, KNetS.netS, ramPipeNet])).1
    simp only [PKind.leaf, PLeaf.ofC, Kind.leaf, List.map, SeqFlat.g, List.getD_cons_zero, v6, wdd 7 (by simp)] at this
    rw [this]; exact Leaf.gen_buf dw _
  -- the three clocked leaves
  have hst0' : s.st (D.rid 0) = [(a : Int)] := hst0
  have hst1' : s.st (D.rid 1) = st.mem.data := hst1
  have hst2' : s.st (D.rid 2) = [(o : Int)] := hst2
  have hR0 := hreg 0 (regQ ramA) (by simp [D, KNetS.netS, ramPipeNet, SKind.leaf])
  have hR1 := hreg 1 (smemQ (ramM aw)) (by simp [D, KNetS.netS, ramPipeNet, SKind.leaf])
  have hR2 := hreg 2 (regQ ramO) (by simp [D, KNetS.netS, ramPipeNet, SKind.leaf])
  have hi0 : (regQ ramA).ins.map (propagateAll D.design sp).val
      = [(propagateAll D.design sp).val 0, (propagateAll D.design sp).val 0, i.ra] := by
    simp [regQ, ramA, v1]
  have hi1 : (smemQ (ramM aw)).ins.map (propagateAll D.design sp).val = [a, i.wa, i.we, i.wd] := by
    simp [smemQ, ramM, v2, v3, v4, v5]
  have hi2 : (regQ ramO).ins.map (propagateAll D.design sp).val
      = [(propagateAll D.design sp).val 0, (propagateAll D.design sp).val 0, buf dw st.mem.readdata] := by
    simp [regQ, ramO, v7]
  rw [hi0, spst, hst0', regQ_ck] at hR0
  rw [hi1, spst, hst1'] at hR1
  rw [hi2, spst, hst2', regQ_ck] at hR2
  have n0 : SeqFlat.regNext ramA.hasR ramA.hasE ramA.rv ((propagateAll D.design sp).val 0) ((propagateAll D.design sp).val 0) i.ra a = i.ra := by
    simp [SeqFlat.regNext, ramA]
  have n2 : SeqFlat.regNext ramO.hasR ramO.hasE ramO.rv ((propagateAll D.design sp).val 0) ((propagateAll D.design sp).val 0)
      (buf dw st.mem.readdata) o = buf dw st.mem.readdata := by simp [SeqFlat.regNext, ramO]
  rw [n0] at hR0
  rw [n2] at hR2
  have hb : buf dw st.mem.readdata < 2 ^ dw := Nat.mod_lt _ (Nat.two_pow_pos dw)
  have hm := smemQ_memClk (ramM aw) dw ⟨a, i.wa, i.we, i.wd⟩ st.mem
  have q0 := hR0.2 0 5 rfl
  have q1 := hR1.2 0 6 rfl
  have q2 := hR2.2 0 8 rfl
  simp only [List.getD_cons_zero] at q0 q2
  rw [wda 5 (by simp), Bits.put_ofNat, Nat.mod_eq_of_lt h1] at q0
  rw [wdd 8 (by simp), Bits.put_ofNat, Nat.mod_eq_of_lt hb] at q2
  rw [wdd 6 (by simp), hm.2] at q1
  have e0 : regClk aw 0 none none i.ra (nat a) = nat i.ra := by
    rw [regClk_nat aw none none i.ra a h1 ha]; simp
  have e2 : regClk dw 0 none none (buf dw st.mem.readdata) (nat o) = nat (buf dw st.mem.readdata) := by
    rw [regClk_nat dw none none _ o hb ho]; simp
  have hstep : (ramPipe aw dw).step st i =
      ⟨nat i.ra, memClk dw ⟨a, i.wa, i.we, i.wd⟩ st.mem, nat (buf dw st.mem.readdata)⟩ := by
    simp only [ramPipe, hra, hro, nat_q, e0, e2]
  have hrd' : (memClk dw ⟨a, i.wa, i.we, i.wd⟩ st.mem).readdata < 2 ^ dw := by
    simp only [memClk, landed]; exact Bits.put_lt _ _
  rw [hstep]
  refine ⟨⟨i.ra, buf dw st.mem.readdata, rfl, h1, rfl, hb, hrd', hR0.1, q0, ?_, q1, hR2.1, q2, hp2⟩, ?_⟩
  · rw [hR1.1]; exact hm.1
  · show [s'.val 8] = _
    rw [q2]; rfl

/-- **specimen, netlist level** (every address width, data width, writedata width; every history of in-range inputs): the
    netlist Reg → SynchronousMemory → Buf → Reg with the GENERATED leaves under `Net.Sim` from power-up shows on `out` after every
    `poke rain,wa,we,wdat; clk(1)` the after-edge output of `Lib.ramPipe` -/
theorem ramPipe_net (aw dw ww : Nat) (h : List MemIn) (hv : ∀ x ∈ h, x.ra < 2 ^ aw ∧ x.wa < 2 ^ aw ∧ x.we < 2 ∧ x.wd < 2 ^ ww) :
    let D := (ramPipeNet aw dw ww).netS
    SeqMem.netTrace D ramPokes [8] (initC D.design D.st0 D.cons) h =
      ((ramPipe aw dw).trace (ramPipe aw dw).init h).map (fun ab => [ab.2]) := by
  intro D
  apply netTrace_sim D (ramPipe aw dw) ramPokes [8] (fun o => [o])
    (fun x => x.ra < 2 ^ aw ∧ x.wa < 2 ^ aw ∧ x.we < 2 ∧ x.wd < 2 ^ ww) (RamInv aw dw D)
  · intro s st i hi hI; exact ramPipe_step aw dw ww s st i hi hI
  · exact hv
  · have hi := init_state D (by simp [D, NetS.cons, KNetS.netS, ramPipeNet, SKind.leaf, regQ, smemQ, ramA, ramM, ramO])
      (by
        intro wv hwv p hp
        simp [D, NetS.cons, KNetS.netS, ramPipeNet, SKind.leaf, regQ, smemQ, ramA, ramM, ramO, PKind.leaf, PLeaf.ofC, Kind.leaf] at hwv hp
        subst hp
        rcases hwv with rfl | rfl <;> simp)
    obtain ⟨hp, hst, hcv, hz, _⟩ := hi
    have s0 := hst 0 _ (show D.seqs[0]? = some (regQ ramA) by simp [D, KNetS.netS, ramPipeNet, SKind.leaf])
    have s1 := hst 1 _ (show D.seqs[1]? = some (smemQ (ramM aw)) by simp [D, KNetS.netS, ramPipeNet, SKind.leaf])
    have s2 := hst 2 _ (show D.seqs[2]? = some (regQ ramO) by simp [D, KNetS.netS, ramPipeNet, SKind.leaf])
    have c5 := hcv (5, 0) (by simp [D, NetS.cons, KNetS.netS, ramPipeNet, SKind.leaf, regQ, smemQ, ramA, ramM, ramO])
    have c8 := hcv (8, 0) (by simp [D, NetS.cons, KNetS.netS, ramPipeNet, SKind.leaf, regQ, smemQ, ramA, ramM, ramO])
    have z6 := hz 6 (by simp [D, NetS.cons, KNetS.netS, ramPipeNet, SKind.leaf, regQ, smemQ, ramA, ramM, ramO])
      (by intro p hp; simp [D, KNetS.netS, ramPipeNet, PKind.leaf, PLeaf.ofC, Kind.leaf] at hp; subst hp; simp)
    simp only [put_zero] at c5 c8
    refine ⟨0, 0, regInit_zero aw, Nat.two_pow_pos aw, regInit_zero dw, Nat.two_pow_pos dw, Nat.two_pow_pos dw,
      ?_, c5, ?_, z6, ?_, c8, hp⟩
    · rw [s0]; rfl
    · rw [s1]; rfl
    · rw [s2]; rfl

-- write 9 to cell 2, then read cell 2: address register (1 edge) + memory (1 edge) + output register (1 edge)
example : SeqMem.netTrace (ramPipeNet 2 4 4).netS ramPokes [8]
    (initC (ramPipeNet 2 4 4).netS.design (ramPipeNet 2 4 4).netS.st0 (ramPipeNet 2 4 4).netS.cons)
    [⟨0, 2, 1, 9⟩, ⟨2, 0, 0, 0⟩, ⟨0, 0, 0, 0⟩, ⟨0, 0, 0, 0⟩, ⟨0, 0, 0, 0⟩] = [[0], [0], [0], [9], [0]] := by decide

/-- the functional model is the registered-address / registered-output reference memory: the value on `out` after edge k+3
    is the content, BEFORE the write of edge k+2, of the cell addressed during edge k+1 … for every history -/
theorem ramPipe_refines (aw dw : Nat) :
    Refines (ramPipe aw dw) (Spec.ramPipe dw) (fun i => i.ra < 2 ^ aw ∧ i.wa < 2 ^ aw) := by
  apply refines_of_sim _ _ _ (fun s t => s.raq = nat t.raq ∧ t.raq < 2 ^ aw ∧ MemRel aw s.mem.data t.mem ∧
    s.mem.readdata = t.rd ∧ t.rd < 2 ^ dw ∧ s.outq = nat t.out ∧ t.out < 2 ^ dw)
  · exact ⟨regInit_zero aw, Nat.two_pow_pos aw, memRel_init aw, rfl, Nat.two_pow_pos dw, regInit_zero dw, Nat.two_pow_pos dw⟩
  · intro s t i ⟨h1, h2⟩ ⟨hq, hql, hm, hrd, hrdl, ho, hol⟩
    have hb : buf dw t.rd = t.rd := Nat.mod_eq_of_lt hrdl
    have e0 : regClk aw 0 none none i.ra (nat t.raq) = nat i.ra := by
      rw [regClk_nat aw none none i.ra t.raq h1 hql]; simp
    have e2 : regClk dw 0 none none t.rd (nat t.out) = nat t.rd := by
      rw [regClk_nat dw none none _ t.out hrdl hol]; simp
    have hr := memRel_read aw dw s.mem.data t.mem t.raq hm hql
    simp only [ramPipe, Spec.ramPipe, hq, ho, hrd, hb, nat_q, e0, e2]
    refine ⟨trivial, h1, ?_, ?_, Nat.mod_lt _ (Nat.two_pow_pos dw), trivial, hrdl⟩
    · by_cases hwe : i.we = 0
      · simp [memClk, Gen.SynchronousMemory.step, Id.run, pure, Py.truthy, hwe, hm]
      · have hw := memRel_write aw s.mem.data t.mem i.wa i.wd hm h2
        simp [memClk, Gen.SynchronousMemory.step, Id.run, pure, Py.truthy, hwe, hw]
    · by_cases hwe : i.we = 0
      · simp [memClk, Gen.SynchronousMemory.step, Id.run, pure, Py.truthy, landed, hwe, hr]
      · simp [memClk, Gen.SynchronousMemory.step, Id.run, pure, Py.truthy, landed, hwe, hr]
  · intro s t i _ ⟨_, _, _, _, _, ho, _⟩
    simp [ramPipe, Spec.ramPipe, ho]

example : (ramPipe 2 4).out ((ramPipe 2 4).run [⟨0, 2, 1, 9⟩, ⟨2, 0, 0, 0⟩, ⟨0, 0, 0, 0⟩, ⟨0, 0, 0, 0⟩]) ⟨0, 0, 0, 0⟩ = 9 := by decide


/-! ## non-vacuity of the embedded-memory theorems: netlists that satisfy their hypotheses -/

-- the SynchronousMemory of the specimen is leaf 1 of a netlist with `NetOK`; its address is driven by a register
example (aw dw ww : Nat) {ι : Type} (pokes : ι → List (Nat × Int)) (hist : List ι) :=
  smem_embedded (ramPipeNet aw dw ww).netS (ramPipeNet_ok aw dw ww) (ramM aw) 1
    (by simp [KNetS.netS, ramPipeNet, SKind.leaf]) (by simp [KNetS.netS, ramPipeNet, ramM]) (by simp [KNetS.netS, ramPipeNet, ramM])
    pokes hist

theorem dpNet_ok (aw dw : Nat) : NetOK (dpNet aw dw).netS := by
  refine ⟨⟨?_, ?_⟩, ?_, ?_⟩
  · simp [TopoOK, NetS.pcomb, NetS.reads, NetS.writes, KNetS.netS, dpNet, PKind.leaf, PLeaf.ofC, Kind.leaf]
  · intro i hi
    simp [KNetS.netS, dpNet] at hi ⊢
    omega
  · simp [KNetS.netS, dpNet, SKind.leaf, dmemQ, dpM]
  · intro q hq p hp
    simp [KNetS.netS, dpNet, SKind.leaf, PKind.leaf, PLeaf.ofC, Kind.leaf] at hq hp
    subst hp; subst hq
    simp [dmemQ, dpM]

example (aw dw : Nat) {ι : Type} (pokes : ι → List (Nat × Int)) (hist : List ι) :=
  dmem_embedded (dpNet aw dw).netS (dpNet_ok aw dw) (dpM aw) 0 (by simp [KNetS.netS, dpNet, SKind.leaf])
    (by simp [KNetS.netS, dpNet, dpM]) (by simp [KNetS.netS, dpNet, dpM]) pokes hist

-- port a writes 7 to cell 1 while port b reads cell 1 (old 0); then both read cell 1 while port b writes 5 there; then read
example : SeqMem.netTrace (dpNet 1 4).netS (pokes4 1) [5, 10, 11]
    (initC (dpNet 1 4).netS.design (dpNet 1 4).netS.st0 (dpNet 1 4).netS.cons)
    [[0, 1, 1, 7, 0, 1, 0, 0, 0], [1, 0, 0, 0, 0, 1, 1, 1, 5], [1, 0, 0, 0, 0, 1, 0, 0, 0]] = [[0, 0, 0], [7, 7, 7], [5, 5, 5]] := by decide

theorem amNet_sched (aw dw : Nat) : (amNet aw dw).netS.SchedOK := by
  refine ⟨?_, ?_⟩
  · simp [TopoOK, NetS.pcomb, NetS.reads, NetS.writes, KNetS.netS, amNet, PKind.leaf, PLeaf.ofC, Kind.leaf, amemP, amM]
  · intro i hi
    simp [KNetS.netS, amNet] at hi ⊢
    omega

example (aw dw : Nat) (s : State LSt) :=
  amem_pass (amNet aw dw).netS (amNet_sched aw dw) (amM aw) 0 (by simp [KNetS.netS, amNet, PKind.leaf]) s

-- the write is transparent: the value written to cell 1 is visible on `out` before any edge, and kept afterwards
example : SeqMem.netTrace2 (amNet 1 4).netS (pokes4 1) [5, 6]
    (initC (amNet 1 4).netS.design (amNet 1 4).netS.st0 (amNet 1 4).netS.cons)
    [[1, 1, 1, 9], [1, 0, 0, 3], [0, 0, 0, 0]] = [([9, 9], [9, 9]), ([9, 9], [9, 9]), ([0, 0], [0, 0])] := by decide

end C09S
