import Py4hwV.Proofs.C20Req
import Py4hwV.Proofs.C20Resp
import Py4hwV.Proofs.C20Chain
/-
  C20 — the hardware-in-the-loop UART command codec decodes and encodes exactly.

  All theorems are about the GENERATED `Gen.CMDRequest.step` / `Gen.CMDResponse.step` (regenerated from
  py4hw/emulation/HILWrapperUART.py on every run), executed inside the wire / producer / consumer model of
  `Proto/Hil.lean`.  Universal over: digit strings of any length (values unbounded), command streams of any length,
  the three bus widths and the character-wire width, every producer timing (idle gaps of any length before every
  character, any junk on `c` while `valid` is low), every consumer `ready` sequence.

  Reading guide.  `GoP k P cs evs Q cs'` (Proofs/C20Req.lean):  from every configuration satisfying `P`, for EVERY
  producer whose remaining characters are `cs`, the closed loop reaches a configuration satisfying `Q` with
  remaining characters `cs'`, and the strobe events observed on the way (one event per cycle in which a strobe is
  high, carrying the bus value of that cycle) are exactly `evs`.  `Idle` = state 0, accumulator 0, `ready` and all
  strobes low.  Request theorems are finally unfolded into `req_stream_forever`.
-/
namespace C20
open Hil Gen

variable (k : ReqCfg)

/-! ## request decoder -/

/-- one hex digit, directly on the generated step (any inputs): `temp := 16·temp + d`, back to state 0, no output written -/
theorem hex_accumulate (ct : Int) (t d : Nat) (hd : d < 16) (i : CMDRequest.In) :
    CMDRequest.step ⟨⟩ ⟨ct, (hexChar d : Nat), 2, t⟩ i ⟨⟩
      = (⟨ct, (hexChar d : Nat), 0, ((16 * t + d : Nat) : Int)⟩, ⟨none, none, none, none, none, none, none, none, none⟩) := by
  have hcases : d = 0 ∨ d = 1 ∨ d = 2 ∨ d = 3 ∨ d = 4 ∨ d = 5 ∨ d = 6 ∨ d = 7 ∨ d = 8 ∨ d = 9 ∨ d = 10 ∨
      d = 11 ∨ d = 12 ∨ d = 13 ∨ d = 14 ∨ d = 15 := by omega
  rcases hcases with rfl | rfl | rfl | rfl | rfl | rfl | rfl | rfl | rfl | rfl | rfl | rfl | rfl | rfl | rfl | rfl <;>
    (rw [← lor_shl4 t _ (by decide)]; simp [CMDRequest.step, hexChar])

/-- positional value: Horner form = most significant digit times 16^(remaining length) plus the rest -/
theorem hexFold_eq (ds : List Nat) (t : Nat) : hexFold t ds = t * 16 ^ ds.length + hexVal ds := by
  induction ds generalizing t with
  | nil => simp [hexFold, hexVal]
  | cons d ds ih =>
    have e1 : hexFold t (d :: ds) = hexFold (16 * t + d) ds := rfl
    have e2 : hexVal (d :: ds) = hexFold (16 * 0 + d) ds := rfl
    rw [e1, e2, ih, ih (16 * 0 + d), List.length_cons, Nat.pow_succ]
    simp only [Nat.mul_zero, Nat.zero_add, Nat.add_mul]
    rw [Nat.add_assoc]
    congr 1
    rw [Nat.mul_comm 16 t, Nat.mul_assoc, Nat.mul_comm 16]

theorem hexVal_cons (d : Nat) (ds : List Nat) : hexVal (d :: ds) = d * 16 ^ ds.length + hexVal ds := by
  have e : hexVal (d :: ds) = hexFold (16 * 0 + d) ds := rfl
  rw [e, hexFold_eq]; simp

/-- any number of hex digits, any producer timing: the accumulator ends with the value of the digit string
    (unbounded), nothing is strobed, and exactly these characters have been consumed -/
theorem hex_accumulate_fold (a b c : Nat) (ds : List Nat) (hds : ∀ d ∈ ds, d < 16) (t : Nat) (cs : List Nat) :
    GoP k (At 0 t (busW a b c)) (ds.map hexChar ++ cs) [] (At 0 (t * 16 ^ ds.length + hexVal ds) (busW a b c)) cs := by
  rw [← hexFold_eq]; exact go_hex k a b c ds hds t cs

/-- `I<hex n>=`: `set_index_in` is high in exactly one cycle, with `n` (mod the bus width) on `index_in` -/
theorem req_I (ds : List Nat) (hds : ∀ d ∈ ds, d < 16) (cs : List Nat) :
    GoP k Idle (73 :: (ds.map hexChar ++ 61 :: cs)) [Ev.selIn (hexVal ds % 2 ^ k.wIn)] Idle cs := by
  apply GoP.fromIdle; intro a b c
  have h1 := go_accept k 0 a b c 73 (ds.map hexChar ++ 61 :: cs)
  have h2 := go_letter k 73 (Or.inl rfl) 0 a b c (ds.map hexChar ++ 61 :: cs)
  have h3 := go_hex k a b c ds hds 0 (61 :: cs)
  have h4 := go_accept k (hexFold 0 ds) a b c 61 cs
  have h5 := go_eq k (hexFold 0 ds) a b c cs
  have := (((h1.trans k h2).trans k h3).trans k h4).trans k h5
  exact GoP.mono k (by simpa [hexVal] using this) toIdle

/-- `<hex v>!`: `set_v_in` is high in exactly one cycle, with `v` (mod the bus width) on `v_in` -/
theorem req_store (ds : List Nat) (hds : ∀ d ∈ ds, d < 16) (cs : List Nat) :
    GoP k Idle (ds.map hexChar ++ 33 :: cs) [Ev.store (hexVal ds % 2 ^ k.wV)] Idle cs := by
  apply GoP.fromIdle; intro a b c
  have h3 := go_hex k a b c ds hds 0 (33 :: cs)
  have h4 := go_accept k (hexFold 0 ds) a b c 33 cs
  have h5 := go_bang k (hexFold 0 ds) a b c cs
  have := (h3.trans k h4).trans k h5
  exact GoP.mono k (by simpa [hexVal] using this) toIdle

/-- `O<hex n>?`: `set_index_out` high in exactly one cycle with `n` on `index_out`, then `start_resp` high in exactly
    one (later) cycle -/
theorem req_O (ds : List Nat) (hds : ∀ d ∈ ds, d < 16) (cs : List Nat) :
    GoP k Idle (79 :: (ds.map hexChar ++ 63 :: cs)) [Ev.selOut (hexVal ds % 2 ^ k.wOut), Ev.startResp] Idle cs := by
  apply GoP.fromIdle; intro a b c
  have h1 := go_accept k 0 a b c 79 (ds.map hexChar ++ 63 :: cs)
  have h2 := go_letter k 79 (Or.inr (Or.inl rfl)) 0 a b c (ds.map hexChar ++ 63 :: cs)
  have h3 := go_hex k a b c ds hds 0 (63 :: cs)
  have h4 := go_accept k (hexFold 0 ds) a b c 63 cs
  have h5 := go_quest k (hexFold 0 ds) a b c cs
  have := (((h1.trans k h2).trans k h3).trans k h4).trans k h5
  exact GoP.mono k (by simpa [hexVal] using this) toIdle

/-- `K<hex n>;`: `clk_pulse` is high in exactly `n` cycles (n unbounded; see `clk_high_isolated`: never two in a row) -/
theorem req_K (ds : List Nat) (hds : ∀ d ∈ ds, d < 16) (cs : List Nat) :
    GoP k Idle (75 :: (ds.map hexChar ++ 59 :: cs)) (List.replicate (hexVal ds) Ev.clk) Idle cs := by
  apply GoP.fromIdle; intro a b c
  have h1 := go_accept k 0 a b c 75 (ds.map hexChar ++ 59 :: cs)
  have h2 := go_letter k 75 (Or.inr (Or.inr rfl)) 0 a b c (ds.map hexChar ++ 59 :: cs)
  have h3 := go_hex k a b c ds hds 0 (59 :: cs)
  have h4 := go_accept k (hexFold 0 ds) a b c 59 cs
  have h5 := go_semi k (hexFold 0 ds) a b c cs
  have := (((h1.trans k h2).trans k h3).trans k h4).trans k h5
  exact GoP.mono k (by simpa [hexVal] using this) toIdle

/-- a character outside the command alphabet between commands (the host's '\n'): no strobe -/
theorem req_sep (s : Nat) (hs : isCmdChar s = false) (cs : List Nat) : GoP k Idle (s :: cs) [] Idle cs := by
  apply GoP.fromIdle; intro a b c
  have h1 := go_accept k 0 a b c s cs
  have h2 := go_sep k s hs 0 a b c cs
  exact GoP.mono k (by simpa using h1.trans k h2) toIdle

/-- every well-formed command, in one statement -/
theorem req_cmd (cmd : Cmd) (hwf : cmd.wf) (cs : List Nat) :
    GoP k Idle (cmd.chars ++ cs) (cmd.meaning k) Idle cs := by
  cases cmd with
  | I ds => simpa [Cmd.chars, Cmd.meaning] using req_I k ds hwf cs
  | V ds => simpa [Cmd.chars, Cmd.meaning] using req_store k ds hwf cs
  | O ds => simpa [Cmd.chars, Cmd.meaning] using req_O k ds hwf cs
  | K ds => simpa [Cmd.chars, Cmd.meaning] using req_K k ds hwf cs
  | sep c => simpa [Cmd.chars, Cmd.meaning] using req_sep k c hwf cs

/-- a stream of commands = the concatenation of their effects (induction over the command list) -/
theorem req_stream (cmds : List Cmd) (hwf : ∀ c ∈ cmds, c.wf) :
    GoP k Idle (cmds.flatMap Cmd.chars) (cmds.flatMap (Cmd.meaning k)) Idle [] := by
  induction cmds with
  | nil => exact GoP.refl k _ _
  | cons c cmds ih =>
    have h1 := req_cmd k c (hwf c (by simp)) (cmds.flatMap Cmd.chars)
    have h2 := ih (fun x hx => hwf x (by simp [hx]))
    simpa using h1.trans k h2

/-- the same, unfolded, from power-up and for ever: for EVERY producer `p` (idle gaps and junk included) sending the
    characters of a well-formed command stream, there is a time `T0` after which all characters have been accepted
    and, for every later observation time, the strobe events seen since power-up are exactly the meanings of the
    commands in order — each strobe exactly once per command, `K<n>;` exactly `n` clock pulses, nothing else, ever. -/
theorem req_stream_forever (cmds : List Cmd) (hwf : ∀ c ∈ cmds, c.wf) (p : Prod)
    (hp : Prod.chars p = cmds.flatMap Cmd.chars) :
    ∃ T0, (after k T0 (reqInit p)).p = [] ∧
      ∀ n, events (trace k (T0 + n) (reqInit p)) = cmds.flatMap (Cmd.meaning k) := by
  have hidle : Idle CMDRequest.init ReqW.zero := ⟨0, 0, 0, rfl, rfl, rfl⟩
  obtain ⟨st', w', p', hq, hc, T0, ha, ht⟩ := req_stream k cmds hwf CMDRequest.init ReqW.zero p hidle hp
  have hp' : p' = [] := by
    cases p' with
    | nil => rfl
    | cons x xs => simp [Prod.chars] at hc
  subst hp'
  refine ⟨T0, by rw [reqInit, ha], fun n => ?_⟩
  rw [trace_add, events_append, reqInit, ht, ha, quiet_forever k st' w' hq n, List.append_nil]

/-! ### invariants of the decoder under ARBITRARY inputs (well-formed or not) -/

/-- `clk_pulse` can only be high while the FSM is in state 9; `ready` is high exactly in the accepting state 1 -/
def ReqInv (st : CMDRequest.St) (w : ReqW) : Prop :=
  (w.clk_pulse ≠ 0 → st.state = 9) ∧ (w.ready ≠ 0 ↔ st.state = 1) ∧ w.ready ≤ 1

theorem cyc2_any (ct nc t : Int) (w : ReqW) (v c : Nat) :
    (reqCycle k ⟨ct, nc, 2, t⟩ w v c).2 = w ∧
    ((reqCycle k ⟨ct, nc, 2, t⟩ w v c).1.state = 0 ∨ (reqCycle k ⟨ct, nc, 2, t⟩ w v c).1.state = 3 ∨
     (reqCycle k ⟨ct, nc, 2, t⟩ w v c).1.state = 4 ∨ (reqCycle k ⟨ct, nc, 2, t⟩ w v c).1.state = 5 ∨
     (reqCycle k ⟨ct, nc, 2, t⟩ w v c).1.state = 6 ∨ (reqCycle k ⟨ct, nc, 2, t⟩ w v c).1.state = 8) := by
  simp only [reqCycle, CMDRequest.step, Id.run, pure]
  simp
  repeat' split
  all_goals simp [upd]

theorem reqInv_step (st : CMDRequest.St) (w : ReqW) (v c : Nat) (h : ReqInv st w) :
    ReqInv (reqCycle k st w v c).1 (reqCycle k st w v c).2 ∧
    (w.clk_pulse ≠ 0 → (reqCycle k st w v c).2.clk_pulse = 0) := by
  obtain ⟨ct, nc, s, t⟩ := st
  have hs : s = 0 ∨ s = 1 ∨ s = 2 ∨ s = 3 ∨ s = 4 ∨ s = 5 ∨ s = 6 ∨ s = 7 ∨ s = 8 ∨ s = 9 ∨ s = 10 ∨
      (s ≠ 0 ∧ s ≠ 1 ∧ s ≠ 2 ∧ s ≠ 3 ∧ s ≠ 4 ∧ s ≠ 5 ∧ s ≠ 6 ∧ s ≠ 7 ∧ s ≠ 8 ∧ s ≠ 9 ∧ s ≠ 10) := by omega
  obtain ⟨r, x1, x2, x3, a, sr, b, c', cp⟩ := w
  rcases hs with rfl | rfl | rfl | rfl | rfl | rfl | rfl | rfl | rfl | rfl | rfl | hs
  · rw [cyc0]; simp [ReqInv] at h ⊢; omega
  · have hv : v = 0 ∨ v ≠ 0 := by omega
    rcases hv with rfl | hv
    · rw [cyc1n]; simp [ReqInv] at h ⊢; omega
    · have e : (reqCycle k ⟨ct, nc, 1, t⟩ ⟨r, x1, x2, x3, a, sr, b, c', cp⟩ v c)
          = (⟨ct, c, 2, t⟩, ⟨0, x1, x2, x3, a, sr, b, c', cp⟩) := by
        simp [reqCycle, CMDRequest.step, upd, Py.truthy, hv]
      rw [e]; simp [ReqInv] at h ⊢; omega
  · obtain ⟨e, hn⟩ := cyc2_any k ct nc t ⟨r, x1, x2, x3, a, sr, b, c', cp⟩ v c
    simp only [ReqInv] at h ⊢
    rw [e]
    simp at h ⊢
    omega
  · have e : (reqCycle k ⟨ct, nc, 3, t⟩ ⟨r, x1, x2, x3, a, sr, b, c', cp⟩ v c).2.clk_pulse = cp ∧
        (reqCycle k ⟨ct, nc, 3, t⟩ ⟨r, x1, x2, x3, a, sr, b, c', cp⟩ v c).2.ready = r ∧
        (reqCycle k ⟨ct, nc, 3, t⟩ ⟨r, x1, x2, x3, a, sr, b, c', cp⟩ v c).1.state = 4 := by
      simp [reqCycle, CMDRequest.step, upd]
    simp [ReqInv] at h ⊢; omega
  · rw [cyc4]; simp [ReqInv] at h ⊢; omega
  · have e : (reqCycle k ⟨ct, nc, 5, t⟩ ⟨r, x1, x2, x3, a, sr, b, c', cp⟩ v c).2.clk_pulse = cp ∧
        (reqCycle k ⟨ct, nc, 5, t⟩ ⟨r, x1, x2, x3, a, sr, b, c', cp⟩ v c).2.ready = r ∧
        (reqCycle k ⟨ct, nc, 5, t⟩ ⟨r, x1, x2, x3, a, sr, b, c', cp⟩ v c).1.state = 4 := by
      simp [reqCycle, CMDRequest.step, upd]
    simp [ReqInv] at h ⊢; omega
  · have e : (reqCycle k ⟨ct, nc, 6, t⟩ ⟨r, x1, x2, x3, a, sr, b, c', cp⟩ v c).2.clk_pulse = cp ∧
        (reqCycle k ⟨ct, nc, 6, t⟩ ⟨r, x1, x2, x3, a, sr, b, c', cp⟩ v c).2.ready = r ∧
        (reqCycle k ⟨ct, nc, 6, t⟩ ⟨r, x1, x2, x3, a, sr, b, c', cp⟩ v c).1.state = 10 := by
      simp [reqCycle, CMDRequest.step, upd]
    simp [ReqInv] at h ⊢; omega
  · rw [cyc7]; simp [ReqInv] at h ⊢; omega
  · have ht : t = 0 ∨ t ≠ 0 := by omega
    rcases ht with rfl | ht
    · rw [cyc8z]; simp [ReqInv] at h ⊢; omega
    · have e : (reqCycle k ⟨ct, nc, 8, t⟩ ⟨r, x1, x2, x3, a, sr, b, c', cp⟩ v c)
          = (⟨ct, nc, 9, t - 1⟩, ⟨r, x1, x2, x3, a, sr, b, c', 1⟩) := by
        simp [reqCycle, CMDRequest.step, upd, ht]
      rw [e]; simp [ReqInv] at h ⊢; omega
  · rw [cyc9]; simp [ReqInv] at h ⊢; omega
  · rw [cyc10]; simp [ReqInv] at h ⊢; omega
  · have e : reqCycle k ⟨ct, nc, s, t⟩ ⟨r, x1, x2, x3, a, sr, b, c', cp⟩ v c
        = (⟨ct, nc, s, t⟩, ⟨r, x1, x2, x3, a, sr, b, c', cp⟩) := by
      obtain ⟨h0, h1, h2, h3, h4, h5, h6, h7, h8, h9, h10⟩ := hs
      simp [reqCycle, CMDRequest.step, upd, h0, h1, h2, h3, h4, h5, h6, h7, h8, h9, h10]
    rw [e]; simp [ReqInv] at h ⊢; omega

theorem reqInv_init : ReqInv CMDRequest.init ReqW.zero := by
  simp [ReqInv, CMDRequest.init, ReqW.zero]

theorem clkIsolated_tail (x : ReqW) (l : List ReqW) (h : clkIsolated (x :: l) = true) : clkIsolated l = true := by
  cases l with
  | nil => rfl
  | cons b r => simp only [clkIsolated, Bool.and_eq_true] at h; exact h.2

theorem reqRun_inv (ins : List (Nat × Nat)) (st : CMDRequest.St) (w : ReqW) (h : ReqInv st w) :
    (∀ sw ∈ reqRun k st w ins, ReqInv sw.1 sw.2) ∧ clkIsolated (w :: (reqRun k st w ins).map (·.2)) = true := by
  induction ins generalizing st w with
  | nil => simp [reqRun, clkIsolated]
  | cons i ins ih =>
    obtain ⟨v, c⟩ := i
    obtain ⟨h1, h2⟩ := reqInv_step k st w v c h
    obtain ⟨i1, i2⟩ := ih _ _ h1
    refine ⟨?_, ?_⟩
    · intro sw hsw
      simp only [reqRun, List.mem_cons] at hsw
      rcases hsw with rfl | hsw
      · exact h1
      · exact i1 sw hsw
    · simp only [reqRun, List.map_cons, clkIsolated, i2, Bool.and_true]
      by_cases hc : w.clk_pulse = 0
      · simp [hc]
      · simp [h2 hc]

/-- whatever is fed to the decoder (any `valid`/`c` sequence, well-formed or not): `clk_pulse` is never high in two
    consecutive cycles, so the `n` high cycles of `K<n>;` are `n` separate pulses -/
theorem clk_high_isolated (ins : List (Nat × Nat)) :
    clkIsolated ((reqRun k CMDRequest.init ReqW.zero ins).map (·.2)) = true :=
  clkIsolated_tail _ _ (reqRun_inv k ins _ _ reqInv_init).2

/-- whatever is fed to the decoder: `ready` is 1 exactly when the FSM is in its accepting state (and 0 otherwise), so
    a compliant producer's character is taken exactly once, in the cycle where state = 1 and valid = 1 -/
theorem req_ready_iff_accepting (ins : List (Nat × Nat)) :
    ∀ sw ∈ reqRun k CMDRequest.init ReqW.zero ins, (sw.2.ready = 1 ↔ sw.1.state = 1) ∧ sw.2.ready ≤ 1 := by
  intro sw hsw
  obtain ⟨_, h2, h3⟩ := (reqRun_inv k ins _ _ reqInv_init).1 sw hsw
  refine ⟨?_, h3⟩
  rw [← h2]; omega

/-- non-vacuity: the stream  "I1F=" "A5!" "\n" "O2?" "K3;"  sent with gaps 0,2,0,1,… and junk that looks like commands -/
def exCmds : List Cmd := [.I [1, 15], .V [10, 5], .sep 10, .O [2], .K [3]]
def exProd : Prod := (exCmds.flatMap Cmd.chars).zipIdx.map fun (ch, i) => (List.replicate (i % 3) 75, ch)

example : ∀ c ∈ exCmds, c.wf := by decide
example : Prod.chars exProd = exCmds.flatMap Cmd.chars := by decide
example : events (trace ⟨4, 8, 3⟩ 120 (reqInit exProd))
    = [Ev.selIn 15, Ev.store 165, Ev.selOut 2, Ev.startResp, Ev.clk, Ev.clk, Ev.clk] := by decide +kernel

/-! ## response encoder -/

/-- one cycle, any phase of a response, any `ready`: see `C20.resp_step` in Proofs/C20Resp.lean (re-exported here
    because the whole response claim rests on it): the generated step keeps the phase invariant, never raises, hands over
    the head of the remaining characters iff `valid ∧ ready`, and a ready cycle always makes progress -/
theorem resp_step_ok (wv v : Nat) (ph : Ph) (s : CMDResponse.St) (w : RespW) (i : RespIn)
    (h : Inv wv v ph s w) (hst : i.start = 0) :
    ∃ ph' s' w', respCycle wv s w i = some (s', w') ∧ Inv wv v ph' s' w' ∧
      rest wv v ph = xfer w i ++ rest wv v ph' ∧ need ph' ≤ need ph - rdyBit i :=
  resp_step wv v ph s w i h hst

/-- the run of one response: idle encoder, a start cycle (`start_resp` high, value `v`, any size `s` incl. 0, any `ready`), then
    ANY list of cycles `cs` (any `ready` pattern, any junk on `vin`/`size`; `start_resp` low).  The run never raises;
    the characters handed over so far are a prefix of the response, the rest is still pending. -/
theorem resp_run (wv v s : Nat) (st : CMDResponse.St) (w : RespW) (h0 : st.state = 0) (hv : w.valid = 0)
    (i0 : RespIn) (hi : i0.start ≠ 0) (hvin : i0.vin = v) (hsz : i0.size = s)
    (cs : List RespIn) (hst : ∀ i ∈ cs, i.start = 0) :
    ∃ ph' s' w' tr, respRun wv st w (i0 :: cs) = some ((s', w'), tr) ∧ Inv wv v ph' s' w' ∧
      response wv s v = tr ++ rest wv v ph' ∧ need ph' ≤ (2 * s + 4) - readyCount cs := by
  obtain ⟨s1, w1, e1, h1, x1⟩ := resp_start wv v s st w i0 h0 hv hi hvin hsz
  obtain ⟨ph2, s2, w2, tr, e2, h2, r2, n2⟩ := resp_run_inv wv v cs hst _ s1 w1 h1
  refine ⟨ph2, s2, w2, tr, ?_, h2, ?_, ?_⟩
  · simp [respRun, e1, e2, x1]
  · rw [← r2]; simp [rest, response]
  · have : need (.p1 s) = 2 * s + 4 := by simp [need]
    omega

/-- safety, whatever the consumer's pacing (including a consumer that stalls for ever): what has been handed over is
    always a prefix of '=' ++ hex digits (MSB first, upper case) ++ '!' — no wrong, repeated or skipped character -/
theorem resp_prefix (wv v s : Nat) (st : CMDResponse.St) (w : RespW) (h0 : st.state = 0) (hv : w.valid = 0)
    (i0 : RespIn) (hi : i0.start ≠ 0) (hvin : i0.vin = v) (hsz : i0.size = s)
    (cs : List RespIn) (hst : ∀ i ∈ cs, i.start = 0) :
    ∃ f tr, respRun wv st w (i0 :: cs) = some (f, tr) ∧ tr <+: response wv s v := by
  obtain ⟨ph', s', w', tr, e, _, r, _⟩ := resp_run wv v s st w h0 hv i0 hi hvin hsz cs hst
  exact ⟨(s', w'), tr, e, ⟨_, r.symm⟩⟩

/-- completion: when the encoder is back in its idle state, exactly the whole response has been handed over, one
    character per valid∧ready handshake, and `valid` is low again -/
theorem resp_complete (wv v s : Nat) (st : CMDResponse.St) (w : RespW) (h0 : st.state = 0) (hv : w.valid = 0)
    (i0 : RespIn) (hi : i0.start ≠ 0) (hvin : i0.vin = v) (hsz : i0.size = s)
    (cs : List RespIn) (hst : ∀ i ∈ cs, i.start = 0) (f : CMDResponse.St × RespW) (tr : List Nat)
    (hrun : respRun wv st w (i0 :: cs) = some (f, tr)) (hidle : f.1.state = 0) :
    tr = response wv s v ∧ f.2.valid = 0 := by
  obtain ⟨ph', s', w', tr', e, hinv, r, _⟩ := resp_run wv v s st w h0 hv i0 hi hvin hsz cs hst
  rw [e] at hrun
  simp only [Option.some.injEq, Prod.mk.injEq] at hrun
  obtain ⟨rfl, rfl⟩ := hrun
  simp only at hidle
  cases ph' <;> simp [Inv, hidle] at hinv
  exact ⟨by simpa [rest] using r.symm, hinv⟩

/-- liveness: as soon as the consumer has been ready in 2s+4 cycles (spread in any way), the response is complete -/
theorem resp_live (wv v s : Nat) (st : CMDResponse.St) (w : RespW) (h0 : st.state = 0) (hv : w.valid = 0)
    (i0 : RespIn) (hi : i0.start ≠ 0) (hvin : i0.vin = v) (hsz : i0.size = s)
    (cs : List RespIn) (hst : ∀ i ∈ cs, i.start = 0) (hready : 2 * s + 4 ≤ readyCount cs) :
    ∃ f, respRun wv st w (i0 :: cs) = some (f, response wv s v) ∧ f.1.state = 0 ∧ f.2.valid = 0 := by
  obtain ⟨ph', s', w', tr, e, hinv, r, n⟩ := resp_run wv v s st w h0 hv i0 hi hvin hsz cs hst
  have hn : need ph' = 0 := by omega
  cases ph' <;> simp [need] at hn
  simp only [Inv] at hinv
  refine ⟨(s', w'), ?_, hinv.1, hinv.2⟩
  rw [e]; simp [rest] at r; rw [r]

/-- the response clause of the property in one statement: for every value, every requested number of digits `s` (0 included), every
    character-wire width and EVERY consumer pacing that is ready often enough, the characters handed over (one per
    valid∧ready handshake) are exactly '=' , the low `s` nibbles of `v` as upper-case hex MSB first, '!' -/
theorem resp_string (wv v s : Nat) (r0 : Nat) (cs : List RespIn) (hst : ∀ i ∈ cs, i.start = 0)
    (hready : 2 * s + 4 ≤ readyCount cs) :
    ∃ f, respRun wv CMDResponse.init ⟨0, 0⟩ (⟨1, v, s, r0⟩ :: cs) = some (f, response wv s v) ∧ f.1.state = 0 := by
  obtain ⟨f, e, h, _⟩ := resp_live wv v s CMDResponse.init ⟨0, 0⟩ rfl rfl ⟨1, v, s, r0⟩ (by simp) rfl rfl cs hst hready
  exact ⟨f, e, h⟩

/-- an idle encoder stays silent while `start_resp` is low -/
theorem resp_idle_silent (wv : Nat) (st : CMDResponse.St) (w : RespW) (h0 : st.state = 0) (hv : w.valid = 0)
    (cs : List RespIn) (hst : ∀ i ∈ cs, i.start = 0) :
    ∃ f, respRun wv st w cs = some (f, []) ∧ f.1.state = 0 ∧ f.2.valid = 0 := by
  obtain ⟨ph', s', w', tr, e, hinv, r, n⟩ := resp_run_inv wv 0 cs hst .done st w ⟨h0, hv⟩
  have hn : need ph' = 0 := by simp [need] at n; exact n
  cases ph' <;> simp [need] at hn
  simp [rest] at r
  subst r
  exact ⟨(s', w'), e, hinv.1, hinv.2⟩

/-- while a response is in progress (states 1–6) `start_resp`, `vin` and `size` are not looked at: a second start pulse
    is ignored, the value being sent cannot be disturbed -/
theorem resp_busy_ignores_inputs (wv : Nat) (st : CMDResponse.St) (w : RespW) (a b c a' b' c' r : Nat)
    (hbusy : 1 ≤ st.state ∧ st.state ≤ 6) :
    respCycle wv st w ⟨a, b, c, r⟩ = respCycle wv st w ⟨a', b', c', r⟩ := by
  obtain ⟨aux, s, t, ts⟩ := st
  obtain ⟨h1, h2⟩ := hbusy
  simp only at h1 h2
  have hs : s = 1 ∨ s = 2 ∨ s = 3 ∨ s = 4 ∨ s = 5 ∨ s = 6 := by omega
  rcases hs with rfl | rfl | rfl | rfl | rfl | rfl <;> simp [respCycle, respRaises, CMDResponse.step]

/-- `size = 0` (no digits requested): the response is "=!" — for every value, character width and every pacing that is ready at
    least 4 times.  (Before the repair 21add98 this was the negative theorem `resp_size_zero_raises`:
      respRun wv init ⟨0,0⟩ (⟨1,v,0,r0⟩ :: ⟨0,_,_,1⟩ :: ⟨0,_,_,1⟩ :: cs) = none
    i.e. after '=' had been taken `CMDResponse.clock` evaluated `temp >> (-4)` and Python raised ValueError; the former witness
    start=1, vin=5, size=0 is kept as a regression test in harness/c20.py.) -/
theorem resp_size_zero (wv v r0 : Nat) (cs : List RespIn) (hst : ∀ i ∈ cs, i.start = 0) (hready : 4 ≤ readyCount cs) :
    ∃ f, respRun wv CMDResponse.init ⟨0, 0⟩ (⟨1, v, 0, r0⟩ :: cs) = some (f, [61 % 2 ^ wv, 33 % 2 ^ wv]) ∧ f.1.state = 0 := by
  have h := resp_string wv v 0 r0 cs hst (by simpa using hready)
  simpa [response, hexUpper] using h

/-! ### the response format -/

theorem hexUpper_length (s v : Nat) : (hexUpper s v).length = s := by
  induction s with
  | zero => rfl
  | succ s ih => simp [hexUpper, ih]

/-- the digits are those of `v mod 16^s`: read back with the decoder's own positional rule they give that number -/
theorem hexUpper_roundtrip (s v : Nat) :
    ∃ ds : List Nat, hexUpper s v = ds.map hexChar ∧ ds.length = s ∧ (∀ d ∈ ds, d < 16) ∧ hexVal ds = v % 16 ^ s := by
  induction s with
  | zero => exact ⟨[], rfl, rfl, by simp, by simp [hexVal, hexFold, Nat.mod_one]⟩
  | succ s ih =>
    obtain ⟨ds, e, hl, hd, hv⟩ := ih
    refine ⟨nib v s :: ds, by simp [hexUpper, e], by simp [hl], ?_, ?_⟩
    · intro d hd'
      simp only [List.mem_cons] at hd'
      rcases hd' with rfl | hd'
      · exact nib_lt v s
      · exact hd d hd'
    · rw [hexVal_cons, hl, hv, Nat.mod_pow_succ]
      unfold nib
      rw [Nat.mul_comm]; omega

theorem hexChar_lt (d : Nat) (h : d < 16) : hexChar d < 128 := by unfold hexChar; split <;> omega

/-- on a character wire of at least 7 bits (8 in `createHILUART`) nothing is masked -/
theorem response_unmasked (wv s v : Nat) (hw : 7 ≤ wv) : response wv s v = 61 :: (hexUpper s v ++ [33]) := by
  have h128 : 128 ≤ 2 ^ wv := by
    have : 2 ^ 7 ≤ 2 ^ wv := Nat.pow_le_pow_right (by decide) hw
    simpa using this
  have hall : ∀ c ∈ (61 :: (hexUpper s v ++ [33])), c < 128 := by
    intro c hc
    simp only [List.mem_cons, List.mem_append, List.mem_nil_iff, or_false] at hc
    rcases hc with rfl | hc | rfl
    · decide
    · obtain ⟨ds, e, _, hd, _⟩ := hexUpper_roundtrip s v
      rw [e] at hc
      simp only [List.mem_map] at hc
      obtain ⟨d, hdm, rfl⟩ := hc
      exact hexChar_lt d (hd d hdm)
    · decide
  unfold response
  have : ∀ l : List Nat, (∀ c ∈ l, c < 128) → l.map (· % 2 ^ wv) = l := by
    intro l hl
    induction l with
    | nil => rfl
    | cons a l ih =>
      simp only [List.map_cons]
      rw [ih (fun c hc => hl c (by simp [hc])), Nat.mod_eq_of_lt (by have := hl a (by simp); omega)]
  exact this _ hall

/-- non-vacuity: 0xBEEF as 4 digits to a consumer that is ready every third cycle, with junk on vin/size meanwhile;
    and as 6 digits (leading zeros), and 2 digits (low byte only) -/
def exReady : List RespIn := (List.range 40).map fun t => ⟨0, t * 77, t, if t % 3 = 2 then 1 else 0⟩

example : ∀ i ∈ exReady, i.start = 0 := by decide
example : 2 * 4 + 4 ≤ readyCount exReady := by decide
example : (respRun 8 CMDResponse.init ⟨0, 0⟩ (⟨1, 0xBEEF, 4, 1⟩ :: exReady)).map (·.2)
    = some [61, 66, 69, 69, 70, 33] := by decide +kernel
example : response 8 6 0xBEEF = [61, 48, 48, 66, 69, 69, 70, 33] := by decide
example : response 8 2 0xBEEF = [61, 69, 70, 33] := by decide
example : response 4 1 0xA = [13, 1, 1] := by decide
example : (respRun 8 CMDResponse.init ⟨0, 0⟩ (⟨1, 5, 0, 1⟩ :: exReady)).map (·.2) = some [61, 33] := by decide +kernel

/-! ## sessions: several queries, start pulses at ANY time -/

/-- the session theorem.  From power-up, for ANY input sequence (start pulses whenever — also while a response is in
    flight —, any junk on `vin`/`size`, any `ready` pattern): `CMDResponse.clock` never raises and the cycle-by-cycle
    observation is accepted by the specification monitor `Hil.monStep`, i.e.
      * a start pulse seen while nothing is owed (that is exactly: the encoder is in state 0 — the coupling `Coup`;
        in particular in the very first cycle after the '!' handshake of the previous response) is answered with the
        complete string '=' ++ hex digits MSB first ++ '!' of the (vin, size) sampled in that cycle, delivered within
        `2·size+4` ready cycles;
      * a start pulse while a response is owed is ignored (the protocol's documented limitation, not hidden);
      * no character is ever handed over that is not the next owed one. -/
theorem resp_session (wv : Nat) (cs : List RespIn) :
    ∃ obs m', respObs wv CMDResponse.init ⟨0, 0⟩ cs = some obs ∧ monRun wv Mon.idle obs = some m' ∧
      obs.map (·.1) = cs :=
  resp_session_run wv cs Mon.idle CMDResponse.init ⟨0, 0⟩ (coup_powerup wv)

/-- "a start_resp pulse seen in state 0 always yields the full response string": idle encoder (any leftover register
    contents), a start cycle with (v, s) on the inputs, then ARBITRARY cycles `cs` (further start pulses and junk
    included) in which the consumer is ready at least `2s+4` times: some prefix `cs1` of `cs` hands over exactly
    `response wv s v` and leaves the encoder idle again (state 0, `valid` low), ready for the next query. -/
theorem resp_query_answered (wv v s : Nat) (st : CMDResponse.St) (w : RespW) (h0 : st.state = 0) (hv : w.valid = 0)
    (i0 : RespIn) (hi : i0.start ≠ 0) (hvin : i0.vin = v) (hsz : i0.size = s)
    (cs : List RespIn) (hready : 2 * s + 4 ≤ readyCount cs) :
    ∃ cs1 cs2 f, cs = cs1 ++ cs2 ∧ respRun wv st w (i0 :: cs1) = some (f, response wv s v) ∧
      f.1.state = 0 ∧ f.2.valid = 0 := by
  obtain ⟨s1, w1, e1, h1, x1⟩ := resp_start wv v s st w i0 h0 hv hi hvin hsz
  obtain ⟨cs1, cs2, s', w', hc, hr, hs0, hv0⟩ := resp_answered wv v cs (.p1 s) s1 w1 h1 (by simpa [need] using hready)
  refine ⟨cs1, cs2, (s', w'), hc, ?_, hs0, hv0⟩
  simp [respRun, e1, hr, x1, rest, response]

/-- non-vacuity of the session theorem: query (0xA5, 2 digits); a second start pulse while '=' is being sent (ignored);
    the consumer ready every other cycle; a third start pulse (0x3C7, 3 digits) in the FIRST cycle after the '!'
    handshake (accepted). -/
def exSession : List RespIn :=
  [⟨1, 0xA5, 2, 1⟩, ⟨0, 0, 0, 0⟩, ⟨1, 0x77, 1, 1⟩] ++
  (List.range 12).map (fun t => ⟨0, 9, 9, t % 2⟩) ++ [⟨1, 0x3C7, 3, 0⟩] ++ (List.range 22).map (fun t => ⟨0, 9, 9, t % 2⟩)

example : (respObs 8 CMDResponse.init ⟨0, 0⟩ exSession).map (fun o => (accepted 8 Mon.idle o, o.flatMap (·.2)))
    = some ([(0xA5, 2), (0x3C7, 3)], [61, 65, 53, 33, 61, 51, 67, 55, 33]) := by decide +kernel
example : (respObs 8 CMDResponse.init ⟨0, 0⟩ exSession).map (fun o => (o.map (·.2)).drop 13 |>.take 3)
    = some [[], [33], []] := by decide +kernel          -- '!' handed over in cycle 14, third start pulse in cycle 15
example : (exSession.drop 15).head?.map (·.start) = some 1 := by decide

/-! ## the chain: CMDRequest → Reg(index_out_r) → output table → CMDResponse -/

/-- ARBITRARY inputs (any valid/c sequence, well-formed or not, any ready sequence), from power-up: the chain never
    raises; the decoder side is exactly the stand-alone decoder (no feedback from the encoder), so every request
    theorem carries over; the encoder's ports satisfy the session monitor; and whenever the encoder sees `start_resp`
    high, the value and digit count it samples are the table entry of the number standing on the `index_out` bus -/
theorem chain_any_inputs (wv : Nat) (tab : Nat → Nat × Nat) (ins : List (Nat × Nat × Nat)) :
    ∃ rows m', chainRun k wv tab Chain.init ins = some rows ∧ monRun wv Mon.idle (rows.map (·.2)) = some m' ∧
      rows.map (fun r => (r.1.st, r.1.w)) = reqRun k CMDRequest.init ReqW.zero (ins.map fun x => (x.1, x.2.1)) ∧
      ∀ r ∈ rows, r.2.1.start ≠ 0 → (r.2.1.vin, r.2.1.size) = tab (r.1.w.index_out % 2 ^ k.wOut) :=
  chain_run_inv k wv tab ins Chain.init Mon.idle (selInv_init k) (coup_powerup wv)

/-- the composed statement for the full HIL chain.  For every well-formed command stream, EVERY producer timing, every
    consumer `ready` function of time, every output table and character width there is a time `T0` such that for every
    later observation time the run of the whole chain from power-up
      (1) never raises,
      (2) shows on the decoder's strobes exactly the meanings of the commands, in order, nothing else, ever,
      (3) satisfies the session monitor at the encoder's ports: each start pulse that finds nothing owed is answered
          completely ('=' digits '!') within `2·size+4` ready cycles, other start pulses are ignored, no other character,
      (4) and every start pulse presents the table entry of the LAST `selOut` event, which by (2) and
          `queries_of_meaning` is the number `n` of the very `O<n>?` command that raised it.
    What the composition cannot give (and the unchanged code does not do): a response for a query whose start pulse
    arrives while the previous response is still owed — the host must wait for '!' (DUTProxy does). -/
theorem hil_chain_stream (cmds : List Cmd) (hwf : ∀ c ∈ cmds, c.wf) (p : Prod)
    (hp : Prod.chars p = cmds.flatMap Cmd.chars) (wv : Nat) (tab : Nat → Nat × Nat) (rdy : Nat → Nat) :
    ∃ T0, ∀ n, ∃ rows m',
      chainRun k wv tab Chain.init (chainIns rdy 0 (loopIns k (T0 + n) (reqInit p))) = some rows ∧
      events (rows.map (·.1.w)) = cmds.flatMap (Cmd.meaning k) ∧
      monRun wv Mon.idle (rows.map (·.2)) = some m' ∧
      ∀ pre r post, rows = pre ++ r :: post → r.2.1.start ≠ 0 →
        (r.2.1.vin, r.2.1.size) = tab (lastSel 0 (events ((pre ++ [r]).map (·.1.w))) % 2 ^ k.wOut) := by
  obtain ⟨T0, _, hev⟩ := req_stream_forever k cmds hwf p hp
  refine ⟨T0, fun n => ?_⟩
  obtain ⟨rows, m', e, hm, hreq, hsmp⟩ :=
    chain_any_inputs k wv tab (chainIns rdy 0 (loopIns k (T0 + n) (reqInit p)))
  rw [chainIns_proj] at hreq
  have hw : rows.map (·.1.w) = (reqRun k CMDRequest.init ReqW.zero (loopIns k (T0 + n) (reqInit p))).map (·.2) := by
    rw [← hreq]; simp
  refine ⟨rows, m', e, ?_, hm, ?_⟩
  · rw [hw]
    have ht : trace k (T0 + n) (reqInit p)
        = (reqRun k CMDRequest.init ReqW.zero (loopIns k (T0 + n) (reqInit p))).map (·.2) :=
      trace_eq_reqRun k (T0 + n) (reqInit p)
    rw [← ht]
    exact hev n
  · intro pre r post hrows hst
    have hmem : r ∈ rows := by rw [hrows]; simp
    rw [hsmp r hmem hst]
    have hsplit : (reqRun k CMDRequest.init ReqW.zero (loopIns k (T0 + n) (reqInit p))).map (·.2)
        = pre.map (·.1.w) ++ r.1.w :: post.map (·.1.w) := by rw [← hw, hrows]; simp
    have := index_out_tracks k _ _ _ _ _ _ hsplit
    rw [this]
    simp [ReqW.zero]

/-- non-vacuity of the chain theorem, and the timing class of seed C20p as a kernel-checked run: "O1?" "O2?" with 8 idle
    cycles before the second 'O', consumer ready in even cycles.  The first response's '!' is handed over in cycle 26, the
    second start pulse is seen by the encoder in cycle 27 — the first idle cycle — and is answered. -/
def exTab : Nat → Nat × Nat := fun n => if n = 1 then (0xA5, 2) else if n = 2 then (0x3C7, 3) else (0, 0)
def exProd2 : Prod := [([], 79), ([], 49), ([], 63), ([0, 0, 0, 0, 0, 0, 0, 0], 79), ([], 50), ([], 63)]
def exChainRun : Option (List Row) :=
  chainRun ⟨4, 8, 3⟩ 8 exTab Chain.init (chainIns (fun t => if t % 2 = 0 then 1 else 0) 0 (loopIns ⟨4, 8, 3⟩ 56 (reqInit exProd2)))

example : Prod.chars exProd2 = [Cmd.O [1], Cmd.O [2]].flatMap Cmd.chars := by decide
example : exChainRun.map (fun rows => rows.flatMap (·.2.2)) = some [61, 65, 53, 33, 61, 51, 67, 55, 33] := by decide +kernel
example : exChainRun.map (fun rows => accepted 8 Mon.idle (rows.map (·.2))) = some [(0xA5, 2), (0x3C7, 3)] := by decide +kernel
example : exChainRun.map (fun rows => ((rows.map fun r => (r.2.1.start, r.2.2)).drop 26).take 2) = some [(0, [33]), (1, [])] := by
  decide +kernel
example : queries ⟨4, 8, 3⟩ [Cmd.O [1], Cmd.K [3], Cmd.O [2]] = [1, 2] := by decide

end C20
