import Py4hwV.Proofs.C02Power
import Py4hwV.Proofs.C02Run
/-
  C02 - Python-to-Verilog transpilation preserves the behaviour of behavioural blocks.

  Objects (all core-only, executable, run by lean/Drv/C02.lean):
    Tp.Expr / Tp.Stmt / Tp.ClassD   the accepted Python subset as data            (Transpile/PySyntax.lean)
    Tp.eval / Tp.exec               CPython semantics over unbounded Int          (Transpile/PySem.lean)
    Tp.evalD / Tp.execD             the same, defined only while every computed value stays in [0, 2^31)
    Tp.trE / Tp.trS / Tp.trModule   model of the transpiler's net effect, over the GENERATED operator tables
                                    Gen.TranspileOps (real VerilogOperator.getOp / toVerilog)   (Transpile/Model.lean)
    Tp.supported                    decidable fragment on which the translation is proved sound
    V.eval / V.exec                 IEEE 1364-2005 expression sizing / signedness and statement semantics (Verilog/Sem.lean)
  Tie to the code: harness/c02.py compares, per class, Tp.trModule with the parse of the REAL emitted text (equality on
  `supported`), Tp.exec with the real simulator, and V semantics of the real text with the real simulator.
-/
namespace C02
open Tp

/-! ## the generated tables are the ones the proofs assume (a change of the real operator table breaks these) -/

theorem ops_table :
    (∀ op, vBin (Gen.TranspileOps.binSym op) = match op with
      | .add => "add" | .sub => "sub" | .mul => "mul" | .fdiv => "div" | .fmod => "mod" | .band => "and" | .bor => "or"
      | .bxor => "xor" | .shl => "shl" | .shr => "shr") ∧
    (∀ op, vBin (Gen.TranspileOps.cmpSym op) = match op with
      | .eq => "eq" | .ne => "ne" | .lt => "lt" | .le => "le" | .gt => "gt" | .ge => "ge") ∧
    (∀ op, vUn (Gen.TranspileOps.unSym op) = match op with | .neg => "neg" | .inv => "not" | .lnot => "lnot") ∧
    vBin Gen.TranspileOps.andSym = "land" ∧ vBin Gen.TranspileOps.orSym = "lor" := by
  refine ⟨?_, ?_, ?_, ?_, ?_⟩
  · intro op; cases op <;> rfl
  · intro op; cases op <;> rfl
  · intro op; cases op <;> rfl
  · rfl
  · rfl

/-- local / state assignment and `put` are blocking (`put` since /repo b298f20), `prepare` is non-blocking -/
theorem assign_table :
    blocking Gen.TranspileOps.varAssign = true ∧ blocking Gen.TranspileOps.syncAssign = false ∧
    blocking Gen.TranspileOps.asyncAssign = true ∧
    Gen.TranspileOps.syncAssign = "a<=1;" ∧ Gen.TranspileOps.asyncAssign = "a=1;" := by decide

theorem paren_table :
    Gen.TranspileOps.parenLeft = "(1+2)*3" ∧ Gen.TranspileOps.parenRight = "3*(1+2)" ∧
    Gen.TranspileOps.parenUnary = "-(1+2)" ∧ Gen.TranspileOps.parenCmpRightList = "3==(1+2)" := by decide

/-- the parenthesisation RULE the translation model assumes, spelled out for every ordered pair (outer, inner) of the 10 binary and
    6 comparison operators: a nested operator is parenthesised on either side of a binary operator AND of a comparison
    (the right comparator too since /repo 72c6814) -/
def binOps : List BinOp := [.add, .sub, .mul, .fdiv, .fmod, .band, .bor, .bxor, .shl, .shr]
def cmpOps : List CmpOp := [.eq, .ne, .lt, .le, .gt, .ge]
def allSyms : List (String × Bool) :=
  binOps.map (fun o => (Gen.TranspileOps.binSym o, false)) ++ cmpOps.map (fun o => (Gen.TranspileOps.cmpSym o, true))
def expectedPairs : List String :=
  allSyms.flatMap fun (o, _) => allSyms.flatMap fun (i, _) =>
    ["(3" ++ i ++ "2)" ++ o ++ "1", "3" ++ o ++ "(2" ++ i ++ "1)"]

set_option maxRecDepth 100000 in
theorem paren_pairs_table : Gen.TranspileOps.parenPairs = expectedPairs := by decide +kernel

/-! ## Python side: the domain-restricted semantics is the real one -/

/-- inside the domain, `evalD` computes exactly what CPython computes -/
theorem evalD_eval (ρ : Env) : ∀ e v, evalD ρ e = some v → eval ρ e = .ok v := by
  intro e
  induction e with
  | const k => intro v h; simp only [evalD] at h; split at h <;> simp_all [eval]
  | loc n =>
    intro v h; simp only [evalD] at h
    split at h
    · split at h <;> simp_all [eval]
    · simp at h
  | attr n =>
    intro v h; simp only [evalD] at h
    split at h
    · split at h <;> simp_all [eval]
    · simp at h
  | get n =>
    intro v h; simp only [evalD] at h
    split at h
    · split at h <;> simp_all [eval]
    · simp at h
  | par n =>
    intro v h; simp only [evalD] at h
    split at h
    · split at h <;> simp_all [eval]
    · simp at h
  | un op e ih =>
    intro v h; simp only [evalD] at h
    split at h
    · rename_i a ha
      split at h
      · simp only [Option.some.injEq] at h; subst h
        simp [eval, ih a ha, bind, Except.bind, pure, Except.pure]
      · simp at h
    · simp at h
  | bin op a b iha ihb =>
    intro v h; simp only [evalD] at h
    split at h
    · rename_i x y hx hy
      split at h
      · rename_i vv hb
        split at h
        · simp only [Option.some.injEq] at h; subst h
          simp [eval, iha x hx, ihb y hy, bind, Except.bind, hb]
        · simp at h
      · simp at h
    · simp at h
  | cmp op a b iha ihb =>
    intro v h; simp only [evalD] at h
    split at h
    · rename_i x y hx hy
      simp only [Option.some.injEq] at h; subst h
      simp [eval, iha x hx, ihb y hy, bind, Except.bind, pure, Except.pure]
    · simp at h
  | and a b iha ihb =>
    intro v h; simp only [evalD] at h
    split at h
    · rename_i x hx
      split at h
      · rename_i ht
        simp [eval, iha x hx, bind, Except.bind, ht, ihb v h]
      · rename_i ht
        simp only [Option.some.injEq] at h; subst h
        simp [eval, iha x hx, bind, Except.bind, ht, pure, Except.pure]
    · simp at h
  | or a b iha ihb =>
    intro v h; simp only [evalD] at h
    split at h
    · rename_i x hx
      split at h
      · rename_i ht
        simp only [Option.some.injEq] at h; subst h
        simp [eval, iha x hx, bind, Except.bind, ht, pure, Except.pure]
      · rename_i ht
        simp [eval, iha x hx, bind, Except.bind, ht, ihb v h]
    · simp at h
  | ite cnd a b ihc iha ihb =>
    intro v h; simp only [evalD] at h
    split at h
    · rename_i x hx
      split at h
      · rename_i ht
        simp [eval, ihc x hx, bind, Except.bind, ht, iha v h]
      · rename_i ht
        simp [eval, ihc x hx, bind, Except.bind, ht, ihb v h]
    · simp at h

/-! ## expression level -/

/-- VALUE position.  For every expression of the fragment, every Python environment and every Verilog reader that agree
    (`Agree`: integers hold the Python value as 32-bit signed, ports as unsigned of their width) and are typed as the
    emitted module declares them, in EVERY context at least 32 bits wide and at least as wide as the expression, signed or
    not: the IEEE 1364 value of the translated expression is known and equals the Python value, provided CPython's
    evaluation stays in the domain [0, 2^31) (`evalD`). -/
theorem trE_sound (c : ClassD) (ρ : Env) (r : V.Rd) (hA : Agree c ρ r) (e : Expr) (ht : Typed c r e) (v : Int) (W : Nat) (sg : Bool)
    (hok : okV c e = true) (he : evalD ρ e = some v) (hW : 32 ≤ W) (hw : V.selfW r (trE c e) ≤ W)
    (hsg : sg = true → V.isSg r (trE c e) = true) :
    V.eval r W sg (trE c e) = ⟨W, v.toNat, true⟩ :=
  (trE_both hA e ht).1 v W sg hok he (Or.inl hW) hw hsg

/-- CONDITION position (if-test, operand of and/or/not, guard): self-determined evaluation has the Python truth value;
    `and`/`or` need not be boolean-valued here, and a short-circuited operand may be anything (even x). -/
theorem trE_cond_sound (c : ClassD) (ρ : Env) (r : V.Rd) (hA : Agree c ρ r) (e : Expr) (ht : Typed c r e) (v : Int)
    (hok : okC c e = true) (he : evalD ρ e = some v) :
    V.truthy (V.eval r (V.selfW r (trE c e)) (V.isSg r (trE c e)) (trE c e)) = some (Py.truthy v) :=
  (trE_both hA e ht).2 v hok he

/-- the value stored by `x = e` (blocking assignment to an `integer`): IEEE assignment sizing (context = max(32, width of e),
    signedness of e) gives the Python value -/
theorem transpile_expr_sound (c : ClassD) (ρ : Env) (r : V.Rd) (hA : Agree c ρ r) (e : Expr) (ht : Typed c r e) (v : Int)
    (hok : okV c e = true) (he : evalD ρ e = some v) :
    V.evalAssign r 32 (trE c e) = ⟨32, v.toNat, true⟩ := by
  unfold V.evalAssign
  have h := trE_sound c ρ r hA e ht v (max 32 (V.selfW r (trE c e))) (V.isSg r (trE c e)) hok he
    (Nat.le_max_left _ _) (Nat.le_max_right _ _) (fun h => h)
  simp only [h, if_true]
  rw [Nat.mod_eq_of_lt (by have := toNat_lt (evalD_inDom ρ e v he); omega)]

/-- the value handed to a port of width `lw` by `w.prepare(e)` / `w.put(e)` (`<=`): the Python value masked by the wire,
    whenever the assignment context is at least 32 bits wide -/
theorem transpile_port_assign_sound (c : ClassD) (ρ : Env) (r : V.Rd) (hA : Agree c ρ r) (e : Expr) (ht : Typed c r e) (v : Int)
    (lw : Nat) (hok : okV c e = true) (he : evalD ρ e = some v) (hwide : 32 ≤ max lw (V.selfW r (trE c e))) :
    V.evalAssign r lw (trE c e) = ⟨lw, (maskW lw v).toNat, true⟩ := by
  unfold V.evalAssign
  have h := trE_sound c ρ r hA e ht v (max lw (V.selfW r (trE c e))) (V.isSg r (trE c e)) hok he
    hwide (Nat.le_max_right _ _) (fun h => h)
  simp only [h, if_true]
  obtain ⟨m, rfl, _⟩ := dom_nat (evalD_inDom ρ e v he)
  unfold maskW
  rw [← Int.natCast_emod, Int.toNat_natCast, Int.toNat_natCast]

theorem transpile_cond_sound (c : ClassD) (ρ : Env) (r : V.Rd) (hA : Agree c ρ r) (e : Expr) (ht : Typed c r e) (v : Int)
    (hok : okC c e = true) (he : evalD ρ e = some v) :
    V.truthy (V.eval r (V.selfW r (trE c e)) (V.isSg r (trE c e)) (trE c e)) = some (Py.truthy v) :=
  trE_cond_sound c ρ r hA e ht v hok he

/-! ## refusal clause, for the model -/

/-- the model transpiler either refuses or emits a module of the proved fragment -/
theorem refuse_or_sound (c : ClassD) :
    model c = .error .unsupported ∨ (supported c = true ∧ model c = .ok (trModule c)) := by
  unfold model
  by_cases h : supported c = true
  · right; simp [h]
  · left; simp [h]

/-! ## statement level (sequential bodies) -/

/-- executing the translated body simulates executing the Python `clock()` body: blocking `=` is Python assignment to a
    local / state attribute, `<=` is `prepare` (queued, program order), `if` and `case` take the Python branch.
    Universal over statements of `okS`, over Python states, and over every Verilog store satisfying the get/set `Laws`. -/
theorem trS_sound {σ : Type} {rd : σ → V.Rd} {wr : σ → V.Tgt → V.BV → σ} (L : Laws rd wr) (c : ClassD) (hseq : c.isSeq = true)
    (stmt : Stmt) (s s' : St) (x : V.Ex σ) (hok : okS c stmt = true) (he : execD c none stmt s = some s') (hr : Rel c rd s x) :
    Rel c rd s' (V.exec rd wr none (trS c stmt) x) :=
  trS_sound_aux L c true stmt none none s s' x (by rw [okS, hseq] at hok; exact hok) he hr (Or.inl ⟨rfl, rfl⟩)

/-- inside the domain `execD` is CPython's `exec` -/
theorem execD_exec (c : ClassD) : ∀ stmt sv s s', execD c sv stmt s = some s' → exec c sv stmt s = .ok s' := by
  intro stmt
  induction stmt with
  | skip => intro sv s s' h; simp only [execD, Option.some.injEq] at h; subst h; rfl
  | seq a b iha ihb =>
    intro sv s s' h
    simp only [execD] at h
    split at h
    · rename_i s1 h1
      simp [exec, iha sv s s1 h1, ihb sv s1 s' h, bind, Except.bind]
    · simp at h
  | setLoc n e =>
    intro sv s s' h
    simp only [execD] at h
    split at h
    · rename_i v hv
      simp only [Option.some.injEq] at h; subst h
      simp [exec, evalD_eval _ e v hv, bind, Except.bind, pure, Except.pure]
    · simp at h
  | setAttr n e =>
    intro sv s s' h
    simp only [execD] at h
    split at h
    · rename_i v hv
      simp only [Option.some.injEq] at h; subst h
      simp [exec, evalD_eval _ e v hv, bind, Except.bind, pure, Except.pure]
    · simp at h
  | put w e =>
    intro sv s s' h
    simp only [execD] at h
    split at h
    · rename_i v p hv hp
      simp only [Option.some.injEq] at h; subst h
      simp [exec, evalD_eval _ e v hv, bind, Except.bind, pure, Except.pure, hp]
    · simp at h
  | prep w e =>
    intro sv s s' h
    simp only [execD] at h
    split at h
    · rename_i v p hv hp
      simp only [Option.some.injEq] at h; subst h
      simp [exec, evalD_eval _ e v hv, bind, Except.bind, pure, Except.pure, hp]
    · simp at h
  | ife cnd t e iht ihe =>
    intro sv s s' h
    simp only [execD] at h
    split at h
    · rename_i v hv
      split at h
      · rename_i ht
        simp [exec, evalD_eval _ cnd v hv, bind, Except.bind, ht, iht sv s s' h]
      · rename_i ht
        simp [exec, evalD_eval _ cnd v hv, bind, Except.bind, ht, ihe sv s s' h]
    · simp at h
  | mtch subj ch ih =>
    intro sv s s' h
    simp only [execD] at h
    split at h
    · rename_i v hv
      simp [exec, evalD_eval _ subj v hv, bind, Except.bind, ih (some v) s s' h]
    · simp at h
  | arm v g body rest ihb ihr =>
    intro sv s s' h
    cases sv with
    | none => simp [execD] at h
    | some x =>
      simp only [execD] at h
      split at h
      · simp at h
      · rename_i pv hpv
        split at h
        · rename_i hx
          cases g with
          | none => simp [exec, evalD_eval _ v pv hpv, bind, Except.bind, hx, ihb none s s' h]
          | some ge =>
            simp only at h
            split at h
            · rename_i gv hgv
              split at h
              · rename_i hg
                simp [exec, evalD_eval _ v pv hpv, bind, Except.bind, hx, evalD_eval _ ge gv hgv, hg, ihb none s s' h]
              · rename_i hg
                simp [exec, evalD_eval _ v pv hpv, bind, Except.bind, hx, evalD_eval _ ge gv hgv, hg, ihr (some x) s s' h]
            · simp at h
        · rename_i hx
          simp [exec, evalD_eval _ v pv hpv, bind, Except.bind, hx, ihr (some x) s s' h]
  | dflt body ih =>
    intro sv s s' h
    simp only [execD] at h
    simp [exec, ih none s s' h]

/-- SEQUENTIAL BISIMULATION over whole input histories - PARTIAL.
    Full statement (property C02, sequential clause): for every accepted `clock()` body and every input sequence in the
    domain, the emitted always-block module and the Python method produce the same port outputs and the same state-variable
    trajectory FROM POWER-UP, under the cycle semantics of Verilog/Run.lean.
    Proved here: for every class of `Tp.supported`'s statement fragment (`okS`), every input history `h` and every pair of
    related starting states, running the Python object through `h` inside the domain (`runD`: drive inputs, clock(),
    settle) and running the translated always-block through `h` (`vRun`: drive inputs, execute the body, apply the
    non-blocking updates) end in related states - in particular after EVERY prefix of `h`, so the whole trajectory of state
    variables and port values coincides.
    What is missing from the full statement: (1) the relation must hold initially - it does NOT at power-up for the real
    emitted module, whose `output reg`s are never initialised (`uninit_output_counterexample`, finding C02-uninit-output-regs);
    (2) the store is abstract (`Laws`) and the module-level scheduling of Run.lean (initial block, posedge detection, settle of
    continuous assigns) is tied by the three-way differential only; (3) combinational `propagate()` bodies are not covered. -/
theorem transpile_seq_sound_partial {σ : Type} {rd : σ → V.Rd} {wr : σ → V.Tgt → V.BV → σ} (L : Laws rd wr) (c : ClassD)
    (hseq : c.isSeq = true) (hok : okS c c.body = true) :
    ∀ (h : List (List (String × Int))) (s s' : St) (st : σ), CRel c rd s st → runD c s h = some s' →
      CRel c rd s' (vRun rd wr c st h) := by
  intro h
  induction h with
  | nil => intro s s' st hC hr; simp only [runD, Option.some.injEq] at hr; subst hr; exact hC
  | cons asg rest ih =>
    intro s s' st hC hr
    simp only [runD] at hr
    split at hr
    · rename_i s1 h1
      simp only [clockCycleD, Option.map_eq_some_iff] at h1
      obtain ⟨s0, he, hs0⟩ := h1
      subst hs0
      have hC1 := cycle_sound L c hseq hok _ s0 _ (drive_crel L c asg s st hC) he
      exact ih _ s' _ hC1 hr
    · simp at hr

/-! ## combinational bodies (`propagate()` -> `always @(*)`), statement / history level -/

/-- COMBINATIONAL CLAUSE.  For every class whose `propagate()` body is in the statement fragment (`okSg false`: locals, `put`, `if`,
    `match`; no state assignment, no `prepare`), for every history of input changes and every pair of related starting states, over
    any store satisfying the `Laws`: driving the inputs, activating the translated `always @(*)` body once and (nothing being queued)
    applying its non-blocking updates keeps the Verilog store related to the Python object after `propagate()` + `Wire.settleAll` -
    same value on every port after every step.  Since /repo b298f20 `put` is a blocking assignment, so NO read-after-put restriction
    is left (the former finding C02-read-after-put): `C02.comb_sound` is the single-activation step, `C02.transpile_sound_all` the
    mode-independent history theorem. -/
theorem transpile_comb_sound_all {σ : Type} {rd : σ → V.Rd} {wr : σ → V.Tgt → V.BV → σ} (L : Laws rd wr) (c : ClassD)
    (hok : okSg false c c.body = true) (h : List (List (String × Int))) (s s' : St) (st : σ)
    (hC : CRel c rd s st) (hr : runD c s h = some s') : CRel c rd s' (vRun rd wr c st h) :=
  transpile_sound_all L c false hok h s s' st hC hr

/-- `supported` gives exactly the hypothesis of the combinational clause -/
theorem supported_comb (c : ClassD) (hs : supported c = true) (hq : c.isSeq = false) : okSg false c c.body = true := by
  simp only [supported, Bool.and_eq_true] at hs
  have := hs.2; rw [okS, hq] at this; exact this

/-! ## power-up -/

/-- the emitted `initial` block repeats EVERY constructor assignment in order; executing it on any store declared as the module
    declares it leaves in every state integer the constant of the LAST assignment - the value the constructed Python object
    holds (`c.state`, tied by `okClass`) - and establishes the state part of `PowerUp`.  No distinctness of the assigned names. -/
theorem initial_block_sound {σ : Type} {rd : σ → V.Rd} {wr : σ → V.Tgt → V.BV → σ} (L : Laws rd wr) (c : ClassD) (st : σ)
    (hlast : ∀ n v, lookup c.state n = some v → lastVal c.inits n = some v)
    (hst : ∀ p, p ∈ c.inits → inDom p.2 = true ∧ isPort c p.1 = false)
    (ht : ∀ n, (rd st).info n = typing c n) :
    (∀ n v, lookup c.state n = some v →
       (rd (V.exec rd wr none (seqOf (initStmts c.inits)) ⟨st, []⟩).st).val n = ⟨32, v.toNat, true⟩) ∧
    (∀ k, lastVal c.inits k = none → (rd (V.exec rd wr none (seqOf (initStmts c.inits)) ⟨st, []⟩).st).val k = (rd st).val k) ∧
    (∀ n, (rd (V.exec rd wr none (seqOf (initStmts c.inits)) ⟨st, []⟩).st).info n = typing c n) := by
  rw [exec_seqOf]
  obtain ⟨h1, h2, h3, _⟩ := init_list_last L c c.inits ⟨st, []⟩ hst ht
  exact ⟨fun n v hl => h1 n v (hlast n v hl), h2, h3⟩

/-- a constructor that assigns `count` twice: the initial block is `count=0; count=5;` and leaves 5 -/
example : lastVal [("count", 0), ("lim", 3), ("count", 5)] "count" = some 5 ∧
          lastVal [("count", 0), ("lim", 3), ("count", 5)] "lim" = some 3 := by decide

/-- the `initial` and `always` items of the model module: every constructor assignment in order, then every output register := 0
    (/repo c2ba9bf, 01f85a2), for both kinds of body -/
theorem trModule_items (c : ClassD) :
    ∃ decls, (trModule c).items =
      decls ++ [V.Item.initial (seqOf (initStmts c.inits ++ zeroStmtsP (c.ports.filter (·.isOut)))),
                V.Item.always (if c.isSeq then .pos c.clk else .star) (trS c c.body)] :=
  ⟨(c.state.map (·.1) ++ newVars c).map fun n => V.Item.int n none, rfl⟩

/-- THE WHOLE `initial` BLOCK of the model module (constructor assignments, then every output register := 0) takes a store that is
    declared as the module declares it, has its parameters bound and its inputs driven to 0, to `PowerUpFull`: state integers hold
    the constructed object's values, every output register holds 0.  The side conditions say that the name spaces are separate
    (they follow from `okClass`: one name space, attribute name = port name). -/
theorem initial_block_establishes_powerup {σ : Type} {rd : σ → V.Rd} {wr : σ → V.Tgt → V.BV → σ} (L : Laws rd wr) (c : ClassD) (st : σ)
    (hlast : ∀ n v, lookup c.state n = some v → lastVal c.inits n = some v)
    (hst : ∀ p, p ∈ c.inits → inDom p.2 = true ∧ isPort c p.1 = false)
    (ht : ∀ n, (rd st).info n = typing c n)
    (houts : ∀ p, p ∈ c.ports.filter (·.isOut) → c.port? p.port = some p)
    (hout : ∀ n p, c.port? n = some p → p.isOut = true → p ∈ c.ports.filter (·.isOut) ∧ p.port = n)
    (hsep : ∀ n, n ∈ (c.ports.filter (·.isOut)).map (·.port) → lookup c.state n = none ∧ lookup c.params n = none ∧
              ∀ p, c.port? n = some p → p.isOut = true)
    (hparI : ∀ n v, lookup c.params n = some v → lastVal c.inits n = none ∧ (rd st).val n = ⟨32, v.toNat, true⟩)
    (hinpI : ∀ n p, c.port? n = some p → p.isOut = false → lastVal c.inits n = none ∧ (rd st).val n = ⟨p.width, 0, true⟩) :
    PowerUpFull c rd (V.exec rd wr none (seqOf (initStmts c.inits ++ zeroStmtsP (c.ports.filter (·.isOut)))) ⟨st, []⟩).st := by
  rw [exec_seqOf, execList_append]
  obtain ⟨a1, a2, a3, _⟩ := init_list_last L c c.inits ⟨st, []⟩ hst ht
  obtain ⟨b1, b2, b3, _⟩ := init_outputs_zero L c (c.ports.filter (·.isOut)) (execList rd wr (initStmts c.inits) ⟨st, []⟩) houts a3
  refine ⟨⟨b3, ?_, ?_, ?_⟩, ?_⟩
  · intro n v hl
    have hnot : n ∉ (c.ports.filter (·.isOut)).map (·.port) := by
      intro hm; have := (hsep n hm).1; rw [this] at hl; cases hl
    rw [b2 n hnot]; exact a1 n v (hlast n v hl)
  · intro n v hl
    have hnot : n ∉ (c.ports.filter (·.isOut)).map (·.port) := by
      intro hm; have := (hsep n hm).2.1; rw [this] at hl; cases hl
    rw [b2 n hnot, a2 n (hparI n v hl).1]; exact (hparI n v hl).2
  · intro n p hp ho
    have hnot : n ∉ (c.ports.filter (·.isOut)).map (·.port) := by
      intro hm; have := (hsep n hm).2.2 p hp; rw [ho] at this; cases this
    rw [b2 n hnot, a2 n (hinpI n p hp ho).1]; exact (hinpI n p hp ho).2
  · intro n p hp ho
    obtain ⟨hm, hpn⟩ := hout n p hp ho
    have := b1 p hm
    rw [hpn] at this; exact this

/-- SEQUENTIAL CLAUSE FROM POWER-UP.  The Verilog side starts as the emitted module starts (`PowerUp`: declarations, state
    integers from the `initial` block, inputs driven to 0 - and NOTHING known about the `output reg`s: x); the Python side is
    run with the not-yet-written outputs unknown (`initStU`), i.e. the run fails exactly when an output is read before it was
    written.  For every input history on which that run succeeds inside the domain:
      (1) the always-block run ends related to it: same state variables, same value on every input and every output WRITTEN so
          far - after every prefix of the history, hence for the whole trajectory from cycle 0;
      (2) the real Python object (all wires 0 at power-up, `initSt`) runs through the same history without raising and ends in
          the same state variables with the same value on every wire the masked run knows.
    The complement of the hypothesis - some output read before written - is the finding C02-uninit-output-regs
    (`uninit_output_counterexample`).  Still not included: the store is abstract (`Laws`) and Run.lean's scheduling. -/
theorem transpile_seq_sound_from_powerup {σ : Type} {rd : σ → V.Rd} {wr : σ → V.Tgt → V.BV → σ} (L : Laws rd wr) (c : ClassD)
    (hseq : c.isSeq = true) (hok : okS c c.body = true) (st : σ) (hP : PowerUp c rd st)
    (h : List (List (String × Int))) (sU : St) (hr : runD c (initStU c) h = some sU) :
    CRel c rd sU (vRun rd wr c st h) ∧ ∃ sT, runD c (initSt c) h = some sT ∧ Le sU sT :=
  ⟨transpile_seq_sound_partial L c hseq hok h (initStU c) sU st (powerup_crel hP) hr,
   runD_mono c h (initStU c) sU (initSt c) hr (initStU_le c)⟩

/-- AGREEMENT FROM POWER-UP, UNCONDITIONALLY (since /repo c2ba9bf the emitted `initial` block also sets every output register to 0,
    the simulator's power-up value).  From the state the emitted module is in after its `initial` block (`PowerUpFull`) and the
    REAL power-up state of the Python object (`initSt`: every wire 0), for both kinds of body and EVERY input history the Python
    object runs inside the domain: same state variables and same value on every port after every cycle, from cycle 0 - no
    "written before read" hypothesis any more (the former finding C02-uninit-output-regs was its complement; the masked-run
    theorem above stays true and is now subsumed). -/
theorem transpile_sound_from_powerup_all {σ : Type} {rd : σ → V.Rd} {wr : σ → V.Tgt → V.BV → σ} (L : Laws rd wr) (c : ClassD)
    (q : Bool) (hok : okSg q c c.body = true) (st : σ) (hP : PowerUpFull c rd st)
    (h : List (List (String × Int))) (s' : St) (hr : runD c (initSt c) h = some s') :
    CRel c rd s' (vRun rd wr c st h) :=
  transpile_sound_all L c q hok h (initSt c) s' st (powerup_crel_full hP) hr

/-- STATIC sufficient condition: if the body never reads an output port, every history the real Python object runs inside the
    domain is a history of the clause above (so agreement holds from cycle 0 for ALL in-domain histories). -/
theorem powerup_safe_of_noOutRead (c : ClassD) (hno : noOutRead c c.body) (h : List (List (String × Int))) (sT : St)
    (hr : runD c (initSt c) h = some sT) : ∃ sU, runD c (initStU c) h = some sU ∧ Masked c sU sT :=
  runD_masked c hno h (initSt c) sT (initStU c) hr (initStU_masked c)

/-! ## refusal: completeness for the model -/

/-- every class outside the proved fragment is refused by the model transpiler, and only those -/
theorem refuse_complete (c : ClassD) : model c = .error .unsupported ↔ supported c = false := by
  unfold model
  by_cases h : supported c = true
  · simp [h]
  · have : supported c = false := by simpa using h
    simp [this]

/-! ## non-vacuity: a concrete class, environment and store inside all hypotheses -/

def c0 : ClassD :=
  { name := "K", ports := [⟨"a", "a", 8, false⟩, ⟨"b", "b", 8, false⟩, ⟨"q", "q", 8, true⟩], state := [("s", 3)], inits := [("s", 0), ("s", 3)], consts := [("k", 7)],
    params := [], isSeq := true, clk := "clk",
    body := .seq (.setAttr "s" (.bin .band (.bin .add (.attr "s") (.bin .add (.get "a") (.attr "k"))) (.const 255)))
                 (.ife (.cmp .gt (.attr "s") (.get "b")) (.prep "q" (.attr "s")) (.prep "q" (.bin .shr (.attr "s") (.const 1)))) }

def ρ1 (a b s : Int) : Env :=
  { loc := fun _ => none,
    att := fun n => if n == "s" then some s else if n == "k" then some 7 else none,
    wire := fun n => if n == "a" then some a else if n == "b" then some b else if n == "q" then some 0 else none,
    par := fun _ => none }

def r1 (a b s : Nat) (q : V.BV) : V.Rd :=
  { info := typing c0,
    val := fun n => if n == "s" then ⟨32, s, true⟩ else if n == "a" then ⟨8, a, true⟩ else if n == "b" then ⟨8, b, true⟩
                    else if n == "q" then q else V.BV.x 1,
    mem := fun _ _ => V.BV.x 1 }

def e0 : Expr := .bin .band (.bin .add (.attr "s") (.bin .add (.get "a") (.attr "k"))) (.const 255)

theorem agree0 : Agree c0 (ρ1 200 100 3) (r1 200 100 3 ⟨8, 0, true⟩) where
  loc := by intro n v h; simp [ρ1] at h
  att := by
    intro n v h hd hp hs
    simp only [ρ1] at h
    split at h
    · rename_i hn; simp at hn; subst hn; simp at h; subst h; rfl
    · split at h
      · rename_i hn; simp at hn; subst hn
        rcases hs with hs | hs
        · simp [isState, c0, lookup] at hs
        · simp [c0, lookup] at hs
      · simp at h
  cst := by
    intro n v k h hs hk
    simp only [ρ1] at h
    split at h
    · rename_i hn; simp at hn; subst hn; simp [isState, c0, lookup] at hs
    · split at h
      · rename_i hn; simp at hn; subst hn; simp [c0, lookup] at hk; simp at h; omega
      · simp at h
  par := by intro n v h; simp [ρ1] at h
  wire := by
    intro n v p h hp
    simp only [ρ1] at h
    split at h
    · rename_i hn; simp at hn; subst hn; simp at h; subst h
      simp [c0, ClassD.port?] at hp; subst hp; decide
    · split at h
      · rename_i hn; simp at hn; subst hn; simp at h; subst h
        simp [c0, ClassD.port?] at hp; subst hp; decide
      · split at h
        · rename_i hn; simp at hn; subst hn; simp at h; subst h
          simp [c0, ClassD.port?] at hp; subst hp; decide
        · simp at h

theorem ok0 : okV c0 e0 = true := by simp [e0, okV, isShiftOp, isPort, ClassD.port?, c0]

/-- `trE_sound` applies to (s + (a + k)) & 255 with s=3, a=200, k=7 and yields 210 in a 40-bit unsigned context -/
example : V.eval (r1 200 100 3 ⟨8, 0, true⟩) 40 false (trE c0 e0) = ⟨40, 210, true⟩ :=
  trE_sound c0 (ρ1 200 100 3) (r1 200 100 3 ⟨8, 0, true⟩) agree0 e0 (fun _ _ => rfl) 210 40 false ok0 (by decide) (by decide)
    (by decide) (fun h => by cases h)

/-- a functional store satisfying the `Laws` -/
structure FStore where
  info : String → Option V.SigInfo
  val : String → V.BV

def rdF (s : FStore) : V.Rd := { info := s.info, val := s.val, mem := fun _ _ => V.BV.x 1 }
def wrF (s : FStore) (t : V.Tgt) (v : V.BV) : FStore :=
  match t with
  | .whole n => { s with val := fun k => if k == n then v else s.val k }
  | _ => s

theorem fstore_laws : Laws rdF wrF where
  info := by intro s t v; cases t <;> rfl
  same := by intro s n v; simp [rdF, wrF]
  other := by intro s n v k hk; simp [rdF, wrF, hk]

/-! non-vacuity of the statement / cycle / history theorems: the example class (state update, comparison against a port,
    shift, two prepares) with a concrete Python state and functional store, and a two-cycle history inside the domain -/

def sP : St := { loc := fun _ => none, att := fun n => if n == "s" then some 3 else none,
                 wire := fun n => if n == "a" then some 200 else if n == "b" then some 100 else if n == "q" then some 0 else none,
                 prep := [] }
def fsP : FStore := { info := typing c0,
                      val := fun n => if n == "s" then ⟨32, 3, true⟩ else if n == "a" then ⟨8, 200, true⟩
                                      else if n == "b" then ⟨8, 100, true⟩ else if n == "q" then ⟨8, 0, true⟩ else V.BV.x 1 }

theorem crel0 : CRel c0 rdF sP fsP where
  agree := {
    loc := by intro n v h; simp [St.env, sP] at h
    att := by
      intro n v h hd hp hs
      by_cases hn : n = "s"
      · subst hn; simp [St.env, sP] at h; subst h; rfl
      · by_cases hk : n = "k"
        · subst hk
          rcases hs with hs | hs
          · simp [isState, c0, lookup] at hs
          · simp [c0, lookup] at hs
        · simp [St.env, sP, hn, c0, lookup] at h
          exact absurd h.1.symm hk
    cst := by
      intro n v k h hs hk
      by_cases hn : n = "s"
      · subst hn; simp [isState, c0, lookup] at hs
      · by_cases hkk : n = "k"
        · subst hkk; simp [St.env, sP, c0, lookup] at h hk; omega
        · simp [c0, lookup] at hk
          exact absurd hk.1.symm hkk
    par := by intro n v h; simp [St.env, c0, lookup] at h
    wire := by
      intro n v p h hp
      simp only [St.env, sP] at h
      split at h
      · rename_i hn; simp at hn; subst hn; simp at h; subst h
        simp [c0, ClassD.port?] at hp; subst hp; decide
      · split at h
        · rename_i hn; simp at hn; subst hn; simp at h; subst h
          simp [c0, ClassD.port?] at hp; subst hp; decide
        · split at h
          · rename_i hn; simp at hn; subst hn; simp at h; subst h
            simp [c0, ClassD.port?] at hp; subst hp; decide
          · simp at h }
  typed := fun _ => rfl
  attDom := by
    intro k v h
    simp only [sP] at h
    split at h
    · rename_i hn; simp at hn; subst hn; simp [isState, c0, lookup]
    · simp at h
  noPrep := rfl

theorem okS0 : okS c0 c0.body = true := by
  simp [c0, okS, okSg, okV, okC, isState, isPort, isOutPort, ClassD.port?, lookup, wideAssign, sw, isShiftOp, exact, leaf]

/-- two cycles of the example class stay in the domain ... -/
example : (runD c0 sP [[("a", 5), ("b", 1)], [("a", 250), ("b", 255)]]).isSome = true := by decide

example : ∀ s', runD c0 sP [[("a", 5), ("b", 1)], [("a", 250), ("b", 255)]] = some s' →
    CRel c0 rdF s' (vRun rdF wrF c0 fsP [[("a", 5), ("b", 1)], [("a", 250), ("b", 255)]]) :=
  fun s' h => transpile_seq_sound_partial fstore_laws c0 rfl okS0 _ sP s' fsP crel0 h

/-! non-vacuity of the power-up clause: the example class on a store whose output `q` is x -/
def fsU : FStore := { info := typing c0,
                      val := fun n => if n == "s" then ⟨32, 3, true⟩ else if n == "a" then ⟨8, 0, true⟩
                                      else if n == "b" then ⟨8, 0, true⟩ else V.BV.x 8 }

theorem powerup0 : PowerUp c0 rdF fsU where
  typed := fun _ => rfl
  state := by
    intro n v h
    by_cases hn : n = "s"
    · subst hn; simp [c0, lookup] at h; subst h; rfl
    · simp [c0, lookup] at h; exact absurd h.1.symm hn
  par := by intro n v h; simp [c0, lookup] at h
  inp := by
    intro n p hp ho
    simp only [c0, ClassD.port?, List.find?] at hp
    split at hp
    · simp only [Option.some.injEq] at hp; subst hp
      rename_i hn; simp at hn; subst hn; rfl
    · split at hp
      · simp only [Option.some.injEq] at hp; subst hp
        rename_i hn; simp at hn; subst hn; rfl
      · split at hp
        · simp only [Option.some.injEq] at hp; subst hp; simp at ho
        · simp at hp

example : (runD c0 (initStU c0) [[("a", 5), ("b", 1)], [("a", 250), ("b", 255)]]).isSome = true := by decide

example : ∀ sU, runD c0 (initStU c0) [[("a", 5), ("b", 1)], [("a", 250), ("b", 255)]] = some sU →
    CRel c0 rdF sU (vRun rdF wrF c0 fsU [[("a", 5), ("b", 1)], [("a", 250), ("b", 255)]]) :=
  fun sU h => (transpile_seq_sound_from_powerup fstore_laws c0 rfl okS0 fsU powerup0 _ sU h).1

/-- the example class never reads its output -/
example : noOutRead c0 c0.body := by
  intro n hn
  simp [c0, getsS, getsE] at hn
  rcases hn with rfl | rfl <;> simp [isOutPort, c0, ClassD.port?]

/-! non-vacuity of the combinational clause -/
def cC : ClassD :=
  { name := "C", ports := [⟨"a", "a", 8, false⟩, ⟨"b", "b", 8, false⟩, ⟨"q", "q", 8, true⟩], state := [], inits := [], consts := [],
    params := [], isSeq := false, clk := "clk",
    body := .seq (.setLoc "t" (.bin .add (.get "a") (.const 1)))
                 (.seq (.ife (.cmp .gt (.loc "t") (.get "b")) (.put "q" (.loc "t")) (.put "q" (.get "b")))
                       (.put "q" (.bin .add (.get "q") (.const 1)))) }   -- reads back the wire it has just put

theorem okC0 : okSg false cC cC.body = true := by
  simp [cC, okSg, okV, okC, isState, isPort, isOutPort, ClassD.port?, lookup, wideAssign, sw, isShiftOp, exact, leaf]

example : supported cC = true := by
  simp [supported, okClass, okS, cC, okSg, okV, okC, isState, isPort, isOutPort, ClassD.port?, lookup, wideAssign, sw, isShiftOp,
    exact, leaf, allDistinct, newVars, namesS, namesE, dedup, getsS, getsE, putsS]
  decide

def sC : St := { loc := fun _ => none, att := fun _ => none,
                 wire := fun n => if n == "a" then some 0 else if n == "b" then some 0 else if n == "q" then some 0 else none, prep := [] }
def fsC : FStore := { info := typing cC,
                      val := fun n => if n == "a" then ⟨8, 0, true⟩ else if n == "b" then ⟨8, 0, true⟩ else if n == "q" then ⟨8, 0, true⟩ else V.BV.x 1 }

theorem crelC : CRel cC rdF sC fsC where
  agree := {
    loc := by intro n v h; simp [St.env, sC] at h
    att := by intro n v h; simp [St.env, sC, cC, lookup] at h
    cst := by intro n v k h; simp [St.env, sC, cC, lookup] at h
    par := by intro n v h; simp [St.env, cC, lookup] at h
    wire := by
      intro n v p h hp
      simp only [St.env, sC] at h
      split at h
      · rename_i hn; simp at hn; subst hn; simp at h; subst h
        simp [cC, ClassD.port?] at hp; subst hp; decide
      · split at h
        · rename_i hn; simp at hn; subst hn; simp at h; subst h
          simp [cC, ClassD.port?] at hp; subst hp; decide
        · split at h
          · rename_i hn; simp at hn; subst hn; simp at h; subst h
            simp [cC, ClassD.port?] at hp; subst hp; decide
          · simp at h }
  typed := fun _ => rfl
  attDom := by intro k v h; simp [sC] at h
  noPrep := rfl

example : (runD cC sC [[("a", 5), ("b", 1)], [("b", 200)], []]).isSome = true := by decide

example : ∀ s', runD cC sC [[("a", 5), ("b", 1)], [("b", 200)], []] = some s' →
    CRel cC rdF s' (vRun rdF wrF cC fsC [[("a", 5), ("b", 1)], [("b", 200)], []]) :=
  fun s' h => transpile_comb_sound_all fstore_laws cC okC0 _ sC s' fsC crelC h

/-! ## negative results: constructs the real transpiler accepts and mistranslates (each replayed on the real code) -/

/-- `x = a or b`: Python returns the operand 5, the emitted `a||b` is 1 -/
theorem or_value_counterexample :
    eval (ρ1 5 0 3) (.or (.get "a") (.get "b")) = .ok 5 ∧
    V.evalAssign (r1 5 0 3 ⟨8, 0, true⟩) 32 (trE c0 (.or (.get "a") (.get "b"))) = ⟨32, 1, true⟩ := ⟨rfl, by decide⟩

/-- 8-bit a=200, b=100, everything inside the domain: Python `(a+b) > b` is True, Verilog sizes the comparison to 8 bits: 44 > 100 -/
theorem narrow_compare_counterexample :
    evalD (ρ1 200 100 3) (.cmp .gt (.bin .add (.get "a") (.get "b")) (.get "b")) = some 1 ∧
    V.evalAssign (r1 200 100 3 ⟨8, 0, true⟩) 32 (trE c0 (.cmp .gt (.bin .add (.get "a") (.get "b")) (.get "b"))) = ⟨32, 0, true⟩ :=
  ⟨by decide, by decide⟩

/-- why the right comparator needs its parentheses (repaired in /repo 72c6814): the bare text `a==b&1` denotes `(a==b)&1`;
    a=b=3 gives Python False for `a == (b & 1)`, that tree gives 1 -/
theorem cmp_rhs_unparenthesised_counterexample :
    evalD (ρ1 3 3 3) (.cmp .eq (.get "a") (.bin .band (.get "b") (.const 1))) = some 0 ∧
    V.evalAssign (r1 3 3 3 ⟨8, 0, true⟩) 32 (.bin "and" (.bin "eq" (.id "a") (.id "b")) (.num none true 1 true)) = ⟨32, 1, true⟩ ∧
    V.evalAssign (r1 3 3 3 ⟨8, 0, true⟩) 32 (trE c0 (.cmp .eq (.get "a") (.bin .band (.get "b") (.const 1)))) = ⟨32, 0, true⟩ :=
  ⟨by decide, by decide, by decide⟩

/-- an output register that was never assigned: `q+1` is unknown in Verilog, 1 in the simulator -/
theorem uninit_output_counterexample :
    evalD (ρ1 0 0 3) (.bin .add (.get "q") (.const 1)) = some 1 ∧
    (V.evalAssign (r1 0 0 3 (V.BV.x 8)) 8 (trE c0 (.bin .add (.get "q") (.const 1)))).k = false := ⟨by decide, by decide⟩

/-- the edge of the domain: 2^31 held by an `integer` is negative: `s > 5` is True in Python, false in Verilog -/
theorem bit31_counterexample :
    eval (ρ1 0 0 (2^31)) (.cmp .gt (.attr "s") (.const 5)) = .ok 1 ∧
    evalD (ρ1 0 0 (2^31)) (.cmp .gt (.attr "s") (.const 5)) = none ∧
    V.evalAssign (r1 0 0 (2^31) ⟨8, 0, true⟩) 32 (trE c0 (.cmp .gt (.attr "s") (.const 5))) = ⟨32, 0, true⟩ :=
  ⟨rfl, by decide, by decide⟩

def guardStmt : Stmt :=
  .mtch (.attr "s") (.arm (.const 0) (some (.cmp .eq (.get "a") (.const 1))) (.setAttr "s" (.const 1)) (.dflt (.setAttr "s" (.const 2))))

def st0 : St := { loc := fun _ => none, att := fun n => if n == "s" then some 0 else none,
                  wire := fun n => if n == "a" then some 0 else none, prep := [] }
def fs0 : FStore := { info := typing c0, val := fun n => if n == "s" then ⟨32, 0, true⟩ else if n == "a" then ⟨8, 0, true⟩ else V.BV.x 1 }

/-- `case 0 if a == 1: s = 1 / case _: s = 2` with s=0, a=0: Python falls through to `case _` (s = 2), the emitted
    `0: if (a==1) s=1;` does nothing (s stays 0) -/
theorem guard_fallthrough_counterexample :
    (match exec c0 none guardStmt st0 with | .ok s => s.att "s" | .error _ => none) = some 2 ∧
    (rdF (V.exec rdF wrF none (trS c0 guardStmt) ⟨fs0, []⟩).st).val "s" = ⟨32, 0, true⟩ := ⟨by decide, by decide⟩

/-! ## the interpreter that is actually run on the emitted text (Verilog/Run.lean) -/

/-- `V.Store` (hash maps) has the write laws the statement theorems need: declarations never change, a normal-form value of the
    declared width (all `V.exec` ever writes: `evalAssign_norm`) is read back, other names are untouched. -/
theorem store_write_laws : WOK V.Store.rd V.Store.wr := store_wok

/-- SEQUENTIAL CLAUSE OVER THE INTERPRETER'S OWN STORE AND SCHEDULING (partial: see below).  `m` is any state of the interpreter
    (`V.Sim`) whose flattened design is the single block `always @(posedge clk) <translated body>` (`SeqSim`), with the clock at 1, and
    whose store agrees with a functional store `f` related to the Python object state `s` (`CRel`, e.g. power-up: `powerup_crel_full`)
    on every name of the body and every port.  Then for EVERY bench session - per cycle some inputs driven with `Sim.setIn` (the
    driver's `set`), then `Sim.cycle` (the driver's `step 1`: falling edge, rising edge, posedge detection, delta loop, settling,
    hash-map store) - on which the Python object runs inside the domain: the interpreter's store holds the Python value of every
    port and of every state variable the body mentions.
    PARTIAL: not proved here are (a) `flatten [trModule c]` has the `SeqSim` shape and (b) `mkSim0` + the `initial` block establish
    the agreement at power-up (the abstract-store version is `initial_block_establishes_powerup`); both are executed, not assumed, by
    the differential (`Drv/C02V.lean` runs `V.session` = `mkSim0` / `Sim.setIn` / `Sim.cycle` on the parsed real text).  Combinational
    bodies (`always @(*)`, re-activation until the store settles) are not covered. -/
theorem transpile_seq_sound_run_partial (c : ClassD) (hok : okSg true c c.body = true) (hD : ¬ DNames c c.clk)
    (m : V.Sim) (H : SeqSim m c.clk (trS c c.body)) (hclk : V.bitOf m.st c.clk = some 1)
    (f : FS) (s : St) (hC : CRel c rdFS s f) (hE : EqOn (DNames c) (rdFS f) m.st.rd)
    (h : List (List (String × Nat))) (hp : ∀ asg, asg ∈ h → ∀ nv, nv ∈ asg → isPort c nv.1 = true)
    (s' : St) (hr : runD c s (h.map natAsg) = some s') :
    (∀ n v p, s'.wire n = some v → c.port? n = some p →
        (h.foldl V.Sim.stepWith m).st.rd.val n = ⟨p.width, v.toNat, true⟩) ∧
    (∀ n v, s'.att n = some v → inDom v = true → isPort c n = false → n ∈ idsS (trS c c.body) →
        (h.foldl V.Sim.stepWith m).st.rd.val n = ⟨32, v.toNat, true⟩) := by
  have R := transpile_sound_all fs_laws c true hok (h.map natAsg) s s' f hC hr
  have E := run_history c hD h f m H hclk hC.typed hE hp
  refine ⟨?_, ?_⟩
  · intro n v p hw hpp
    have := (R.agree.wire n v p hw hpp).2.2
    rw [← (E n (Or.inr (by simp [isPort, hpp]))).2]; exact this
  · intro n v ha hd hpn hn
    have hst : isState c n = true := R.attDom n v ha
    have hatt : (s'.env c).att n = some v := by simp [St.env, ha]
    have := R.agree.att n v hatt hd hpn (Or.inl hst)
    rw [← (E n (Or.inl hn)).2]; exact this

end C02
