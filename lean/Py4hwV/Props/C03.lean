import Py4hwV.Proofs.C03Occ
import Py4hwV.Proofs.C03Names
/-
  C03 — Emitted Verilog is self-consistent: it parses, resolves and elaborates.

  What is proved here (universally, over every design `V.Design` / environment the parser can produce):
    * `checkE_iff`, `check_sound`, `check_complete`, `error_is_real`: the executable checker `WF.check` that the harness
      runs on the REAL emitted text of every visited design returns no error exactly when the design satisfies the
      declarative rules `WF.WellFormed` — one lemma per rule (`modErrs_nil` … `driverErrs_nil`);
    * second clause: everything the instantiating side checks depends on the bound module only through its signature
      (`bodyErrs_congr`), so replacing a body by another one of the same name and signature changes nothing
      (`same_sig_interchangeable`), while two bodies under one name with different signatures do change the result
      (`abs_binding_counterexample_prefix_naming`, the shape of the `Abs` finding before /repo 97fed70 and of the open `Latch` one);
    * model of the emitter's naming functions: prefixes `w_`, `i_`, `reserved_` never produce a reserved word
      (`localWireName_not_keyword` …), `getValidVerilogName` avoids every IEEE 1364-2005 keyword (`validName_not_keyword`,
      full since /repo a15e5f4; the pre-fix table is kept only as a labelled historical counterexample), and the three
      name spaces are not kept apart (`*_collision_counterexample`).
  Level: proof for the checker; the real emitter is tied per design (translation-validation shaped), see notes/C03.md.
-/
namespace C03
open V V.WF

/-! ### one lemma per rule -/

theorem modErrs_nil (all : List Module) (m : Module) :
    modErrs all m = [] ↔ (all.map (·.name)).count m.name = 1 ∧ m.name ∉ keywords := by
  simp only [modErrs, List.append_eq_nil_iff, need_nil, isKeyword_false, decide_eq_true_eq]

theorem onceErrs_nil (m : Module) : onceErrs m = [] ↔ ∀ n ∈ names m, (names m).count n = 1 := by
  simp only [onceErrs, flatMap_nil, need_decide_nil]

theorem headerErrs_nil (all : List Module) (m : Module) : headerErrs all m = [] ↔ HeaderWF all m := by
  simp only [headerErrs, List.append_eq_nil_iff, modErrs_nil, onceErrs_nil]
  exact ⟨fun ⟨⟨a, b⟩, c⟩ => ⟨a, b, c⟩, fun ⟨a, b, c⟩ => ⟨⟨a, b⟩, c⟩⟩

theorem kwErrs_nil (m : Module) : kwErrs m = [] ↔ ∀ n, (n ∈ names m ∨ Used m n) → n ∉ keywords := by
  simp only [kwErrs, flatMap_nil, need_nil, isKeyword_false, List.mem_append, mem_uses]

theorem declErrs_nil (m : Module) : declErrs m = [] ↔ ∀ n, Used m n → ∃ d ∈ decls m, d.name = n := by
  simp only [declErrs, flatMap_nil, need_decide_nil, mem_uses, declNames, List.mem_map]

theorem connErrs_nil (mn : String) (rd : Rd) (i : String) (sg : Sig) (c : String × Expr) :
    connErrs mn rd i sg c = [] ↔ ConnWF rd sg c := by
  unfold connErrs ConnWF
  cases h : sg.port c.1 with
  | none => simp
  | some pt =>
    simp only [List.append_eq_nil_iff, need_nil, Option.some.injEq, exists_eq_left',
      Bool.or_eq_true, decide_eq_true_eq, Option.isSome_iff_exists]
    constructor
    · rintro ⟨hw, hl⟩
      refine ⟨hw, fun hd => ?_⟩
      rcases hl with hl | hl
      · exact absurd hl hd
      · exact hl
    · rintro ⟨hw, hl⟩
      refine ⟨hw, ?_⟩
      by_cases hd : pt.dir = .inp
      · exact .inl hd
      · exact .inr (hl hd)

theorem instSigErrs_nil (mn : String) (rd : Rd) (i : String) (sg : Sig) (ps cs : List (String × Expr)) :
    instSigErrs mn rd i sg ps cs = [] ↔ InstSigWF rd sg ps cs := by
  simp only [instSigErrs, List.append_eq_nil_iff, flatMap_nil, connErrs_nil, need_nil,
    Bool.or_eq_true, decide_eq_true_eq]
  constructor
  · rintro ⟨⟨⟨⟨h1, h2⟩, h3⟩, h4⟩, h5⟩
    refine ⟨h1, h2, fun pt hpt hd => ?_, h4, h5⟩
    rcases h3 pt hpt with h | h
    · exact absurd hd h
    · exact h
  · rintro ⟨h1, h2, h3, h4, h5⟩
    refine ⟨⟨⟨⟨h1, h2⟩, fun pt hpt => ?_⟩, h4⟩, h5⟩
    by_cases hd : pt.dir = .inp
    · exact .inr (h3 pt hpt hd)
    · exact .inl hd

theorem instErrs_nil (all : List Module) (m : Module) (it : Item) : instErrs all m it = [] ↔ InstWF all m it := by
  cases it with
  | inst mn iname ps cs =>
    simp only [instErrs, InstWF]
    cases h : lookup all mn with
    | none => simp
    | some cm => simp [instSigErrs_nil]
  | _ => simp [instErrs, InstWF]

theorem all_isNetDrv (ks : List DK) : ks.all isNetDrv = true ↔ ∀ k ∈ ks, k ≠ .proc := by
  simp only [List.all_eq_true]
  constructor
  · intro h k hk e; subst e; exact absurd (h _ hk) (by simp [isNetDrv])
  · intro h k hk; cases k <;> simp [isNetDrv]; exact h _ hk rfl

theorem all_not_isNetDrv (ks : List DK) : (ks.all fun k => !isNetDrv k) = true ↔ ∀ k ∈ ks, k = .proc := by
  simp only [List.all_eq_true]
  constructor
  · intro h k hk; have := h k hk; cases k <;> simp_all [isNetDrv]
  · intro h k hk; rw [h k hk]; rfl

theorem driverErrs_nil (mn : String) (drv : List (String × DK)) (d : Decl) :
    driverErrs mn drv d = [] ↔ DriverWF (drvOf drv d.name) d.kind := by
  unfold driverErrs DriverWF
  cases d.kind <;>
    simp only [List.append_eq_nil_iff, need_nil, all_isNetDrv, all_not_isNetDrv, List.isEmpty_iff, decide_eq_true_eq]

theorem bodyErrs_nil (all : List Module) (m : Module) : bodyErrs all m = [] ↔ BodyWF all m := by
  simp only [bodyErrs, List.append_eq_nil_iff, kwErrs_nil, declErrs_nil, flatMap_nil, instErrs_nil, driverErrs_nil]
  exact ⟨fun ⟨⟨⟨a, b⟩, c⟩, d⟩ => ⟨a, b, c, d⟩, fun ⟨a, b, c, d⟩ => ⟨⟨⟨a, b⟩, c⟩, d⟩⟩

/-! ### the checker decides well-formedness -/

theorem pdefErrs_nil (env : Env) (m : Module) : pdefErrs env m = [] ↔ PDefWF env m := by
  simp only [pdefErrs, PDefWF, flatMap_nil]
  constructor
  · intro h p hp
    have := h p hp
    cases hd : defaultOf env m.name p with
    | none => rw [hd] at this; simp at this
    | some e =>
      rw [hd] at this
      simp only [flatMap_nil] at this
      refine ⟨e, rfl, fun n hn => ?_⟩
      have h2 := this n ((mem_exprIds e n).2 hn)
      simp only [List.append_eq_nil_iff, need_nil, isKeyword_false, decide_eq_true_eq] at h2
      exact h2
  · intro h p hp
    obtain ⟨e, he, hu⟩ := h p hp
    rw [he]
    simp only [flatMap_nil, List.append_eq_nil_iff, need_nil, isKeyword_false, decide_eq_true_eq]
    intro n hn
    exact hu n ((mem_exprIds e n).1 hn)

theorem checkE_iff (env : Env) : checkE env = [] ↔ WellFormedE env := by
  simp only [checkE, List.append_eq_nil_iff, flatMap_nil, headerErrs_nil, bodyErrs_nil, pdefErrs_nil]
  exact ⟨fun ⟨⟨a, b⟩, c⟩ => ⟨a, b, c⟩, fun ⟨a, b, c⟩ => ⟨⟨a, b⟩, c⟩⟩

/-- non-vacuity of R-pdef: a parameter chain is accepted, a bare parameter and a default over an undeclared name are not -/
def exParam : Module := { name := "P", params := ["A", "B"], ports := [⟨.inp, false, 1, "a"⟩, ⟨.out, false, 1, "r"⟩],
                          items := [.assign (.lid "r") (.id "a")] }
example : checkE { mods := [exParam], pdefs := [(("P", "A"), .num none true 2 true),
                                                  (("P", "B"), .bin "add" (.id "A") (.num none true 1 true))] } = [] := by decide
example : (checkE { mods := [exParam], pdefs := [(("P", "A"), .num none true 2 true)] }).map Err.msg = ["paramNoDefault|P|B"] := by decide
example : (checkE { mods := [exParam], pdefs := [(("P", "A"), .num none true 2 true), (("P", "B"), .id "C")] }).map Err.msg
    = ["undeclared|P|C"] := by decide

/-- soundness: no reported error ⇒ the design is a closed, legal, single-driver design -/
theorem check_sound (d : Design) : check d = [] → WellFormed d := by
  intro h
  exact (checkE_iff _).1 (by simpa [check] using h)

/-- completeness: a well-formed design is accepted, i.e. a non-empty error list is a real defect -/
theorem check_complete (d : Design) : WellFormed d → check d = [] := by
  intro h
  simp [check, (checkE_iff _).2 h]

theorem error_is_real (env : Env) (e : Err) : e ∈ checkE env → ¬ WellFormedE env := by
  intro he hw
  rw [(checkE_iff env).2 hw] at he
  simp at he

/-! ### second clause: only the signature of the bound module matters -/

/-- two module lists bind every name to modules with the same signature -/
def SameSigs (all all' : List Module) : Prop := ∀ n, (lookup all n).map sigOf = (lookup all' n).map sigOf

theorem instErrs_congr {all all' : List Module} (h : SameSigs all all') (m : Module) (it : Item) :
    instErrs all m it = instErrs all' m it := by
  cases it with
  | inst mn iname ps cs =>
    have := h mn
    simp only [instErrs]
    cases h1 : lookup all mn <;> cases h2 : lookup all' mn <;> simp_all
  | _ => rfl

theorem itemDrivers_congr {all all' : List Module} (h : SameSigs all all') (it : Item) :
    itemDrivers all it = itemDrivers all' it := by
  cases it with
  | inst mn iname ps cs =>
    have := h mn
    simp only [itemDrivers]
    cases h1 : lookup all mn <;> cases h2 : lookup all' mn <;> simp_all
  | _ => rfl

/-- every body rule of every module gives the same verdict under both bindings -/
theorem bodyErrs_congr {all all' : List Module} (h : SameSigs all all') (m : Module) :
    bodyErrs all m = bodyErrs all' m := by
  have h1 : instErrs all m = instErrs all' m := funext (instErrs_congr h m)
  have h2 : itemDrivers all = itemDrivers all' := funext (itemDrivers_congr h)
  simp only [bodyErrs, drivers, h1, h2]

theorem lookup_replace (pre post : List Module) (a b : Module) (hn : a.name = b.name) (n : String) :
    (lookup (pre ++ a :: post) n).map sigOf = (lookup (pre ++ b :: post) n).map sigOf ∨
    (lookup (pre ++ a :: post) n = some a ∧ lookup (pre ++ b :: post) n = some b) := by
  induction pre with
  | nil =>
    simp only [lookup, List.nil_append, List.find?_cons, hn]
    cases b.name == n <;> simp
  | cons x pre ih =>
    simp only [lookup, List.cons_append, List.find?_cons]
    cases x.name == n
    · exact ih
    · simp

/-- **interchangeability**: if the body emitted first under a name is replaced by any other body of the same name and
    the same signature (names, directions, widths of the ports in order, parameter names), no instance anywhere in the
    design changes its interface: all body rules of all modules give identical results. -/
theorem same_sig_interchangeable (pre post : List Module) (a b : Module) (hn : a.name = b.name)
    (hs : sigOf a = sigOf b) (m : Module) :
    bodyErrs (pre ++ a :: post) m = bodyErrs (pre ++ b :: post) m := by
  apply bodyErrs_congr
  intro n
  rcases lookup_replace pre post a b hn n with h | ⟨h1, h2⟩
  · exact h
  · rw [h1, h2]; simp [hs]

/-- non-vacuity + negative witness for "two bodies under one name with different signatures": the same instance
    `.a .r .inverted` is accepted when bound to the body that has the optional port and rejected when bound to the body
    without it.  HISTORICAL naming: this is what the emitter produced for `Abs` BEFORE /repo 97fed70, when both variants were
    called `Abs8` (finding C03-abs-optional-port, fixed: the variant with the port is now `Abs8_inv`, so the two bodies no
    longer meet under one name; the still-open instance of the same shape is `Latch<w>` with different d/e widths). -/
def exTop : Module :=
  { name := "Top", params := [],
    ports := [⟨.inp, false, 8, "a"⟩, ⟨.out, false, 8, "r"⟩, ⟨.out, false, 1, "inverted"⟩],
    items := [.inst "Abs8" "i_abs" [] [("a", .id "a"), ("r", .id "r"), ("inverted", .id "inverted")]] }
def exAbsA : Module :=
  { name := "Abs8", params := [], ports := [⟨.inp, false, 8, "a"⟩, ⟨.out, false, 8, "r"⟩],
    items := [.assign (.lid "r") (.id "a")] }
def exAbsB : Module :=
  { name := "Abs8", params := [], ports := [⟨.inp, false, 8, "a"⟩, ⟨.out, false, 8, "r"⟩, ⟨.out, false, 1, "inverted"⟩],
    items := [.assign (.lid "r") (.id "a"), .assign (.lid "inverted") (.idx "a" (.num none true 7 true))] }

theorem abs_binding_counterexample_prefix_naming :
    check [exTop, exAbsB] = [] ∧
    check [exTop, exAbsA] = ["noPort|Top|i_abs|inverted", "driverCount|Top|inverted|0"] ∧
    sameSig exAbsA exAbsB = false := by decide

example : WellFormed [exTop, exAbsB] := check_sound _ abs_binding_counterexample_prefix_naming.1
example : ¬ WellFormed [exTop, exAbsA] := fun h => by
  have := check_complete _ h
  rw [abs_binding_counterexample_prefix_naming.2.1] at this
  simp at this

/-- two definitions under one name are themselves an error, whatever their signatures -/
example : check [exTop, exAbsB, exAbsB] ≠ [] := by decide

/-! ### the emitter's naming functions -/

theorem prefixed_not_keyword (p : String) (hp : ∀ k ∈ keywords, (k.toList.take p.length) ≠ p.toList) (n : String) :
    p ++ n ∉ keywords := by
  intro h
  apply hp _ h
  rw [String.toList_append]
  exact List.take_left' String.length_toList

theorem localWireName_not_keyword (n : String) : localWireName n ∉ keywords :=
  prefixed_not_keyword "w_" (by decide +kernel) n

theorem getInstanceName_not_keyword (n : String) : getInstanceName n ∉ keywords :=
  prefixed_not_keyword "i_" (by decide +kernel) n

theorem reserved_prefix_not_keyword (n : String) : "reserved_" ++ n ∉ keywords :=
  prefixed_not_keyword "reserved_" (by decide +kernel) n

/-- `getValidVerilogName` never returns an IEEE 1364-2005 reserved word — full statement, all names
    (true since /repo a15e5f4 added `design` and `uwire` to the table; before, it held only for `n ∉ [design, uwire]`). -/
theorem validName_not_keyword (n : String) : getValidVerilogName n ∉ keywords := by
  unfold getValidVerilogName
  split
  · exact reserved_prefix_not_keyword n
  · rename_i hr
    intro hk
    apply hr
    simp [isReservedRepo, isKeyword, hk]

/-- HISTORICAL, about the labelled pre-fix table only (finding C03-keyword-table, status fixed): with the table as it was
    before a15e5f4 the two words came out unprefixed.  A recurrence in /repo breaks the `naming-model` correspondence and
    the name oracle reports a VIOLATION. -/
theorem validName_keyword_counterexample_prefix_table :
    getValidVerilogNamePreFix "uwire" ∈ keywords ∧ getValidVerilogNamePreFix "design" ∈ keywords ∧
    getValidVerilogName "uwire" = "reserved_uwire" ∧ getValidVerilogName "design" = "reserved_design" := by decide

example : getValidVerilogName "wire" = "reserved_wire" ∧ getValidVerilogName "data" = "data" := by decide

/-- the port, local-wire and instance name spaces are mapped into one Verilog name space without separation -/
theorem port_reserved_collision_counterexample : getPortName "reserved_wire" = getPortName "wire" := by decide
theorem port_wire_collision_counterexample : getPortName "w_x" = localWireName "x" := by decide
theorem port_instance_collision_counterexample : getPortName "i_x" = getInstanceName "x" := by decide

/-- **the naming scheme is collision free and keyword free — partial.**  For every module whose name space is the one
    the structural emitter builds from py4hw port names `ports`, local wire names `wires` and child names `insts`
    (`emittedNames`): every name is declared exactly once (rule R-once reports nothing) and none is a reserved word.
    The full statement (no hypothesis) is FALSE on the unchanged code — see the counterexamples below; the
    hypotheses are exactly the complements of the listed findings C03-name-collision (`no_prefix`) and
    C03-same-wire-name (`wires_nodup`).  (The former third hypothesis, ports ∉ [design, uwire], is gone with a15e5f4.) -/
theorem emit_names_wf_partial (m : Module) (ports wires insts : List String)
    (hm : names m = emittedNames ports wires insts) (h : NamesOK ports wires insts) :
    onceErrs m = [] ∧ ∀ n ∈ names m, n ∉ keywords := by
  constructor
  · rw [onceErrs_nil]
    intro n hn
    exact count_eq_one_of_nodup (hm ▸ emittedNames_nodup h) hn
  · intro n hn
    rw [hm] at hn
    simp only [emittedNames, List.mem_append, List.mem_map] at hn
    rcases hn with ⟨p, _, rfl⟩ | ⟨x, _, rfl⟩ | ⟨x, _, rfl⟩
    · exact validName_not_keyword p
    · exact localWireName_not_keyword x
    · exact getInstanceName_not_keyword x

theorem emit_names_collision_counterexamples :
    ¬ (emittedNames ["w_x"] ["x"] []).Nodup ∧ ¬ (emittedNames ["wire", "reserved_wire"] [] []).Nodup ∧
    ¬ (emittedNames ["i_u"] [] ["u"]).Nodup ∧ ¬ (emittedNames [] ["t", "t"] []).Nodup := by decide

/-- non-vacuity of `emit_names_wf_partial`: the module the emitter writes for Top(in a, out r){u1, u2; wire t} -/
example : NamesOK ["a", "r"] ["t"] ["u1", "u2"] := by
  refine ⟨by decide, by decide, by decide, ?_⟩
  intro p hp
  have hp' : p = "a" ∨ p = "r" := by simpa using hp
  have key : ∀ (q : String) (c : Char), q.toList.head? ≠ some c → ∀ s : String, s.toList.head? = some c → ¬ HasPrefix s q := by
    intro q c hq s hs ⟨t, e⟩
    apply hq
    rw [e, String.toList_append]
    cases hl : s.toList with
    | nil => rw [hl] at hs; simp at hs
    | cons x xs => rw [hl] at hs; simpa using hs
  rcases hp' with rfl | rfl
  · exact ⟨key _ 'r' (by decide) _ (by decide), key _ 'w' (by decide) _ (by decide), key _ 'i' (by decide) _ (by decide)⟩
  · refine ⟨?_, key _ 'w' (by decide) _ (by decide), key _ 'i' (by decide) _ (by decide)⟩
    rintro ⟨t, e⟩
    have := congrArg String.length e
    rw [String.length_append] at this
    have h1 : "r".length = 1 := by decide
    have h9 : "reserved_".length = 9 := by decide
    omega

end C03
