import Py4hwV.Net.Clock
import Py4hwV.Props.C05
/-
  C10 — A clock domain advances exactly when its enable is active.
  Universal over designs, leaf functions, numbers of domains, enable values (any wire of the design, including
  registers inside the gated domain: the test reads the PRE-EDGE valuation), states.
-/
namespace C10
open Net C05

variable {σ : Type}

/-! ### nearest-ancestor lookup -/

theorem driverOf_nearest {D : Type} (chain : List (Option D)) (d : D) :
    driverOf chain = some d ↔ ∃ pre post, chain = pre ++ some d :: post ∧ ∀ x, x ∈ pre → x = none := by
  induction chain with
  | nil => simp [driverOf]
  | cons a rest ih =>
    cases a with
    | some d' =>
      simp only [driverOf, Option.some.injEq]
      constructor
      · intro e; subst e; exact ⟨[], rest, rfl, by simp⟩
      · rintro ⟨pre, post, h, hn⟩
        cases pre with
        | nil => simp at h; exact h.1
        | cons p pre' =>
          simp at h
          have := hn p (by simp)
          rw [← h.1] at this; cases this
    | none =>
      simp only [driverOf]
      rw [ih]
      constructor
      · rintro ⟨pre, post, h, hn⟩
        exact ⟨none :: pre, post, by simp [h], by intro x hx; simp at hx; rcases hx with hx | hx; exact hx; exact hn x hx⟩
      · rintro ⟨pre, post, h, hn⟩
        cases pre with
        | nil => simp at h
        | cons p pre' =>
          simp at h
          exact ⟨pre', post, h.2, fun x hx => hn x (by simp [hx])⟩

/-- the lookup fails (Python raises) exactly when no object up to the root has a driver -/
theorem driverOf_none {D : Type} (chain : List (Option D)) :
    driverOf chain = none ↔ ∀ x, x ∈ chain → x = none := by
  induction chain with
  | nil => simp [driverOf]
  | cons a rest ih =>
    cases a with
    | some d' => simp [driverOf]
    | none => simp [driverOf, ih]

/-! ### grouping of clockables by driver -/

theorem lookup_addTo {D : Type} [DecidableEq D] (g : List (D × List Nat)) (dv dv' : D) (k : Nat) :
    lookup (addTo g dv k) dv' = if dv = dv' then lookup g dv' ++ [k] else lookup g dv' := by
  induction g with
  | nil =>
    by_cases h : dv = dv' <;> simp [addTo, lookup, h]
  | cons a rest ih =>
    obtain ⟨d, l⟩ := a
    simp only [addTo]
    by_cases h1 : d = dv
    · subst h1
      by_cases h2 : d = dv' <;> simp [lookup, h2]
    · simp only [h1, if_false, lookup]
      by_cases h2 : d = dv'
      · subst h2
        have : ¬ dv = d := fun e => h1 e.symm
        simp [this]
      · simp [h2, ih]

/-- every clockable leaf is registered under the driver found for it — and under no other —, in leaf order -/
theorem lookup_group {D : Type} [DecidableEq D] (ls : List (D × Nat)) (dv : D) :
    lookup (group ls) dv = (ls.filter fun dk => dk.1 = dv).map Prod.snd := by
  unfold group
  suffices h : ∀ g : List (D × List Nat),
      lookup (ls.foldl (fun g dk => addTo g dk.1 dk.2) g) dv = lookup g dv ++ (ls.filter fun dk => dk.1 = dv).map Prod.snd by
    simpa [lookup] using h []
  induction ls with
  | nil => intro g; simp
  | cons a ls ih =>
    intro g
    simp only [List.foldl, ih, lookup_addTo, List.filter_cons]
    by_cases h : a.1 = dv <;> simp [h]

/-! ### gating -/

theorem foldl_putW_st (d : Design σ) (l : List (Nat × Int)) (s : State σ) : (l.foldl (putW d) s).st = s.st := by
  induction l generalizing s with
  | nil => rfl
  | cons a l ih => simp [List.foldl, ih, putW]

theorem propLeaf_st_other (d : Design σ) (s : State σ) (k j : Nat) (h : j ≠ k) : (propLeaf d s k).st j = s.st j := by
  unfold propLeaf
  rw [foldl_putW_st]
  simp [upd, h]

theorem propagateAll_st_other (d : Design σ) (s : State σ) (j : Nat) (h : j ∉ d.order) :
    (propagateAll d s).st j = s.st j := by
  unfold propagateAll
  generalize ho : d.order = l at h
  clear ho
  induction l generalizing s with
  | nil => rfl
  | cons a l ih =>
    simp only [List.foldl]
    rw [ih _ (fun hh => h (by simp [hh]))]
    exact propLeaf_st_other d s a j (fun e => h (by simp [e]))

theorem foldl_putW_val_other (d : Design σ) (l : List (Nat × Int)) (s : State σ) (w : Nat) (h : w ∉ l.map Prod.fst) :
    (l.foldl (putW d) s).val w = s.val w := by
  induction l generalizing s with
  | nil => rfl
  | cons a l ih =>
    simp only [List.foldl]
    rw [ih _ (fun hh => h (by simp at hh ⊢; right; exact hh))]
    have : w ≠ a.1 := fun e => h (by simp [e])
    simp [putW, upd, this]

/-- wire `w` is not driven combinationally: no propagatable leaf ever `put`s it -/
def NotCombDriven (d : Design σ) (w : Nat) : Prop :=
  ∀ k, k ∈ d.order → ∀ (v : Val) (x : σ), w ∉ ((d.leaf k).prop v x).2.map Prod.fst

theorem propagateAll_val_other (d : Design σ) (s : State σ) (w : Nat) (h : NotCombDriven d w) :
    (propagateAll d s).val w = s.val w := by
  unfold propagateAll
  unfold NotCombDriven at h
  generalize d.order = l at h
  induction l generalizing s with
  | nil => rfl
  | cons a l ih =>
    simp only [List.foldl]
    rw [ih _ (fun k hk => h k (by simp [hk]))]
    unfold propLeaf
    rw [foldl_putW_val_other]
    exact h a (by simp) _ _

/-- **C10 (hold, state).** A sequential block all of whose drivers are disabled at this edge (it is not among the
    enabled clockables — in particular: it sits under one driver and that driver's enable read 0 before the edge)
    keeps its state across the whole cycle. -/
theorem gated_hold_state (d : Design σ) (s : State σ) (k : Nat)
    (hn : (enabledClockables s.val d.drivers).Nodup) (hk : k ∉ enabledClockables s.val d.drivers)
    (hseq : k ∉ d.order) : (clkCycle d s).st k = s.st k := by
  unfold clkCycle
  simp only
  rw [propagateAll_st_other d _ k hseq]
  show (clockDrivers d s d.drivers).st k = s.st k
  exact unclocked_keeps_state d s k hn hk

/-- membership in the enabled clockables, spelled out -/
theorem mem_enabledClockables (v : Val) (ds : List Driver) (k : Nat) :
    k ∈ enabledClockables v ds ↔ ∃ dr, dr ∈ ds ∧ enabled v dr.enable = true ∧ k ∈ dr.clockables := by
  unfold enabledClockables
  simp only [List.mem_flatMap]
  constructor
  · rintro ⟨dr, hdr, hk⟩
    by_cases he : enabled v dr.enable = true
    · simp [he] at hk; exact ⟨dr, hdr, he, hk⟩
    · simp [he] at hk
  · rintro ⟨dr, hdr, he, hk⟩
    exact ⟨dr, hdr, by simp [he, hk]⟩

/-- the block under a gated driver: enable wire reads 0 before the edge ⇒ not clocked (if it is registered nowhere else) -/
theorem disabled_not_clocked (v : Val) (ds : List Driver) (k : Nat)
    (h : ∀ dr, dr ∈ ds → k ∈ dr.clockables → enabled v dr.enable = false) : k ∉ enabledClockables v ds := by
  rw [mem_enabledClockables]
  rintro ⟨dr, hdr, he, hk⟩
  rw [h dr hdr hk] at he
  cases he

theorem enabled_some_zero (v : Val) (w : Nat) (h : v w = 0) : enabled v (some w) = false := by
  simp [enabled, h]

theorem enabled_some_nonzero (v : Val) (w : Nat) (h : v w ≠ 0) : enabled v (some w) = true := by
  simp [enabled, h]

/-- **C10 (hold, outputs).** A wire that no clocked block prepares at this edge and that is not combinationally
    driven keeps its value across the edge: the outputs of gated blocks do not move. -/
theorem gated_hold_wire (d : Design σ) (s : State σ) (w : Nat)
    (hn : (enabledClockables s.val d.drivers).Nodup) (hp : w ∉ s.prepared)
    (ht : ∀ k, k ∈ enabledClockables s.val d.drivers → w ∉ targets (res d s) k)
    (hc : NotCombDriven d w) : (clkCycle d s).val w = s.val w := by
  unfold clkCycle
  simp only
  rw [propagateAll_val_other d _ w hc, settle_exactly]
  rw [clockDrivers_eq, foldl_clockLeaf_eq d s _ hn s rfl (fun _ _ => rfl)]
  have hnp : w ∉ ((enabledClockables s.val d.drivers).foldl (applyRes d (res d s)) s).prepared := by
    rw [foldl_applyRes_prepared]
    simp only [List.mem_append, not_or]
    refine ⟨hp, ?_⟩
    intro hm
    rcases List.mem_map.mp hm with ⟨wv, hwv, e⟩
    rcases List.mem_flatMap.mp hwv with ⟨k, hk, hk2⟩
    apply ht k hk
    unfold targets
    exact List.mem_map.mpr ⟨wv, hk2, e⟩
  simp only [hnp, if_false]
  rw [foldl_applyRes_val]

/-- **C10 (transparency).** Two driver lists that enable the same clockables in the same order at this edge give the
    same cycle; in particular a gated driver whose enable is non-zero behaves exactly like an ungated one. -/
theorem clkCycle_congr_enabled (d : Design σ) (ds₁ ds₂ : List Driver) (s : State σ)
    (h : enabledClockables s.val ds₁ = enabledClockables s.val ds₂) :
    clkCycle { d with drivers := ds₁ } s = clkCycle { d with drivers := ds₂ } s := by
  unfold clkCycle
  simp only
  rw [clockDrivers_eq, clockDrivers_eq, h]
  rfl

/-- replace the enable of the i-th driver by "always on" -/
def ungate : List Driver → Nat → List Driver
  | [], _ => []
  | dr :: ds, 0 => { dr with enable := none } :: ds
  | dr :: ds, i+1 => dr :: ungate ds i

theorem enabledClockables_ungate (v : Val) (ds : List Driver) (i : Nat)
    (h : ∀ dr, ds[i]? = some dr → enabled v dr.enable = true) :
    enabledClockables v (ungate ds i) = enabledClockables v ds := by
  induction ds generalizing i with
  | nil => rfl
  | cons a ds ih =>
    cases i with
    | zero =>
      have ha : enabled v a.enable = true := h a (by simp)
      have hn : enabled v none = true := rfl
      simp only [ungate, enabledClockables, List.flatMap_cons, ha, hn, if_true]
    | succ i =>
      have := ih i (fun dr hdr => h dr (by simpa using hdr))
      simp only [ungate, enabledClockables, List.flatMap_cons] at this ⊢
      rw [this]

theorem gated_transparent (d : Design σ) (ds : List Driver) (i : Nat) (s : State σ)
    (h : ∀ dr, ds[i]? = some dr → enabled s.val dr.enable = true) :
    clkCycle { d with drivers := ds } s = clkCycle { d with drivers := ungate ds i } s :=
  clkCycle_congr_enabled d _ _ s (enabledClockables_ungate s.val ds i h).symm

/-- **C10 (independence).** A clocked block's next state does not depend on which OTHER domains are enabled. -/
theorem domains_independent_state (d : Design σ) (ds₁ ds₂ : List Driver) (s : State σ) (k : Nat)
    (hn₁ : (enabledClockables s.val ds₁).Nodup) (hn₂ : (enabledClockables s.val ds₂).Nodup)
    (hk₁ : k ∈ enabledClockables s.val ds₁) (hk₂ : k ∈ enabledClockables s.val ds₂) :
    (clockDrivers { d with drivers := ds₁ } s ds₁).st k = (clockDrivers { d with drivers := ds₂ } s ds₂).st k := by
  have a := leaf_sees_pre_edge { d with drivers := ds₁ } s k hn₁ hk₁
  have b := leaf_sees_pre_edge { d with drivers := ds₂ } s k hn₂ hk₂
  simp only at a b
  rw [a, b]

theorem flatMap_single {α β : Type} (f : α → List β) (l : List α) (k : α) (hn : l.Nodup) (hk : k ∈ l)
    (h : ∀ j, j ∈ l → j ≠ k → f j = []) : l.flatMap f = f k := by
  induction l with
  | nil => cases hk
  | cons a l ih =>
    have hnd := List.nodup_cons.mp hn
    simp only [List.flatMap_cons]
    by_cases e : a = k
    · subst e
      have : l.flatMap f = [] := by
        apply List.flatMap_eq_nil_iff.mpr
        intro j hj
        exact h j (by simp [hj]) (fun e => hnd.1 (e ▸ hj))
      simp [this]
    · have hk' : k ∈ l := by
        simp at hk
        rcases hk with hk | hk
        · exact absurd hk.symm e
        · exact hk
      rw [h a (by simp) e, ih hnd.2 hk' (fun j hj => h j (by simp [hj]))]
      simp

/-- … and neither do its outputs: the value settled on a wire that only block `k` drives is the same under any two
    driver lists that both clock `k`. -/
theorem domains_independent_wire (d : Design σ) (ds₁ ds₂ : List Driver) (s : State σ) (k w : Nat)
    (hn₁ : (enabledClockables s.val ds₁).Nodup) (hn₂ : (enabledClockables s.val ds₂).Nodup)
    (hk₁ : k ∈ enabledClockables s.val ds₁) (hk₂ : k ∈ enabledClockables s.val ds₂)
    (hw : w ∈ targets (res d s) k)
    (ho₁ : ∀ j, j ∈ enabledClockables s.val ds₁ → j ≠ k → w ∉ targets (res d s) j)
    (ho₂ : ∀ j, j ∈ enabledClockables s.val ds₂ → j ≠ k → w ∉ targets (res d s) j) :
    (settleAll (clockDrivers { d with drivers := ds₁ } s ds₁)).val w
      = (settleAll (clockDrivers { d with drivers := ds₂ } s ds₂)).val w := by
  have key : ∀ (ds : List Driver), (enabledClockables s.val ds).Nodup → k ∈ enabledClockables s.val ds →
      (∀ j, j ∈ enabledClockables s.val ds → j ≠ k → w ∉ targets (res d s) j) →
      (settleAll (clockDrivers { d with drivers := ds } s ds)).val w
        = (((res d s k).2.filter fun wv => wv.1 == w).foldl (nstep d) s.nxt) w := by
    intro ds hn hk ho
    rw [settle_exactly, clockDrivers_eq, foldl_clockLeaf_eq { d with drivers := ds } s _ hn s rfl (fun _ _ => rfl)]
    have hres : res { d with drivers := ds } s = res d s := rfl
    rw [hres]
    have hmem : w ∈ ((enabledClockables s.val ds).foldl (applyRes { d with drivers := ds } (res d s)) s).prepared := by
      rw [foldl_applyRes_prepared]
      simp only [List.mem_append]
      right
      unfold targets at hw
      rcases List.mem_map.mp hw with ⟨wv, hwv, e⟩
      exact List.mem_map.mpr ⟨wv, List.mem_flatMap.mpr ⟨k, hk, hwv⟩, e⟩
    simp only [hmem, if_true]
    rw [foldl_applyRes_nxt, foldl_nstep_filter, List.filter_flatMap]
    rw [flatMap_single _ _ k hn hk (fun j hj hjk => filter_targets_empty (res d s) j w (ho j hj hjk))]
    rfl
  rw [key ds₁ hn₁ hk₁ ho₁, key ds₂ hn₂ hk₂ ho₂]

/-! ### non-vacuity: a self-gating counter (its own output bit 1 is its enable) next to a free-running one -/
def exD : Design Unit :=
  { width := fun _ => 4,
    leaf := fun k => { prop := fun _ s => (s, []), clock := fun v s => (s, [(k, (v k : Int) + 1)]) },
    order := [], drivers := [{ enable := none, clockables := [0] }, { enable := some 2, clockables := [1] }] }
def exS : State Unit := { val := fun _ => 0, nxt := fun _ => 0, prepared := [], st := fun _ => (), clks := 0 }
-- wire 2 (the enable) is 0: leaf 1 is held, leaf 0 runs
example : ((iter (clkCycle exD) 3 exS).val 0, (iter (clkCycle exD) 3 exS).val 1) = (3, 0) := by decide
example : (1 : Nat) ∉ enabledClockables exS.val exD.drivers := by decide
example : driverOf [none, none, some 7, some 9] = some 7 := rfl
example : lookup (group [(1, 10), (2, 11), (1, 12)]) 1 = [10, 12] := by decide

end C10
