import Py4hwV.Net.Sched
import Py4hwV.Net.Sim
import Py4hwV.Props.C05
import Py4hwV.Props.C10
/-
  C04 — Combinational settling is complete and independent of construction order.

  Part A: the sorter (`Sched`, literal model of topologicalSort): whatever it returns is a permutation of the
          propagatable leaves that respects every edge (strictly, except self-edges); 2+-cycles are rejected.
          NEGATIVE results (the property is false of the code as it stands): self-loops are accepted; acyclic
          netlists can be refused by the 1000-pass limit.
  Part B: the simulator (`Net.Sim`): evaluating stateless leaves in ANY edge-respecting order reaches the unique
          fixpoint; two such orders give identical wire values; `propagateAll` is idempotent (feeds C05.clk_split).
-/
namespace C04
open Sched

/-! ## Part A — the sorter -/

theorem ffdp_le (succs : Nat → List Nat) (l : List Nat) (u pos : Nat) (h : ffdp succs l u = some pos) :
    ∀ v, v ∈ succs u → pos ≤ idx l v := by
  unfold ffdp at h
  cases hs : succs u with
  | nil => intro v hv; simp at hv
  | cons s0 rest =>
    rw [hs] at h
    simp only [Option.some.injEq] at h
    have key : ∀ (xs : List Nat) (m : Nat),
        xs.foldl (fun m s => if idx l s < m then idx l s else m) m ≤ m ∧
        ∀ v, v ∈ xs → xs.foldl (fun m s => if idx l s < m then idx l s else m) m ≤ idx l v := by
      intro xs
      induction xs with
      | nil => intro m; simp
      | cons x xs ih =>
        intro m
        simp only [List.foldl]
        by_cases hx : idx l x < m
        · simp only [hx, if_true]
          have := ih (idx l x)
          refine ⟨by omega, ?_⟩
          intro v hv
          simp at hv
          rcases hv with hv | hv
          · subst hv; exact this.1
          · exact this.2 v hv
        · simp only [hx, if_false]
          have := ih m
          refine ⟨this.1, ?_⟩
          intro v hv
          simp at hv
          rcases hv with hv | hv
          · subst hv; omega
          · exact this.2 v hv
    intro v hv
    rw [← h]
    exact (key (s0 :: rest) (idx l s0)).2 v hv

/-- the order respects every edge STRICTLY: every dependent of the leaf at position i stands after i
    (so a leaf is never its own dependent) -/
def Respects (succs : Nat → List Nat) (σ : List Nat) : Prop :=
  ∀ i, i < σ.length → ∀ v, v ∈ succs (σ.getD i 0) → i < idx σ v

theorem passStep_none (succs : Nat → List Nat) (i : Nat) : passStep succs none i = none := rfl

theorem fold_passStep_none (succs : Nat → List Nat) (l : List Nat) : l.foldl (passStep succs) none = none := by
  induction l with
  | nil => rfl
  | cons a l ih => simp [List.foldl, passStep_none, ih]

theorem passStep_flag (succs : Nat → List Nat) (l : List Nat) (i : Nat) (r : List Nat × Bool)
    (h : passStep succs (some (l, true)) i = some r) : r.2 = true := by
  unfold passStep at h
  simp only at h
  split at h
  · split at h
    · cases h
    · split at h <;> (cases h; rfl)
  · cases h; rfl

theorem swapAt_perm (l : List Nat) (i j : Nat) (hi : i < l.length) (hj : j < l.length) : (swapAt l i j).Perm l := by
  unfold swapAt
  have e1 : l.getD j 0 = l[j] := by simp [List.getD, hj]
  have e2 : l.getD i 0 = l[i] := by simp [List.getD, hi]
  rw [e1, e2]
  exact List.set_set_perm hi hj

theorem passStep_perm (succs : Nat → List Nat) (st r : List Nat × Bool) (i : Nat) (hi : i < st.1.length)
    (h : passStep succs (some st) i = some r) : r.1.Perm st.1 := by
  unfold passStep at h
  simp only at h
  split at h
  · rename_i pos _
    split at h
    · cases h
    · split at h
      · cases h; exact swapAt_perm _ _ _ (by omega) hi
      · cases h; exact List.Perm.refl _
  · cases h; exact List.Perm.refl _

theorem fold_pass_perm (succs : Nat → List Nat) (l : List Nat) (n : Nat) (hn : n ≤ l.length) (f : Bool)
    (r : List Nat × Bool) (h : (List.range n).foldl (passStep succs) (some (l, f)) = some r) : r.1.Perm l := by
  induction n generalizing r with
  | zero => simp at h; cases h; exact List.Perm.refl _
  | succ n ih =>
    rw [List.range_succ, List.foldl_append] at h
    simp only [List.foldl] at h
    cases hst : (List.range n).foldl (passStep succs) (some (l, f)) with
    | none => rw [hst] at h; cases h
    | some st =>
      rw [hst] at h
      have h1 := ih (by omega) st hst
      have hl : st.1.length = l.length := h1.length_eq
      exact (passStep_perm succs st r n (by omega) h).trans h1

theorem onePass_perm (succs : Nat → List Nat) (l : List Nat) (r : List Nat × Bool) (h : onePass succs l = some r) :
    r.1.Perm l := fold_pass_perm succs l l.length (Nat.le_refl _) false r h

/-- a sweep that completes and reports no change left the list alone, and every position passed the (strict) test -/
theorem fold_pass_nochange (succs : Nat → List Nat) (l : List Nat) (n : Nat) (l' : List Nat)
    (h : (List.range n).foldl (passStep succs) (some (l, false)) = some (l', false)) :
    l' = l ∧ ∀ i, i < n → ∀ pos, ffdp succs l (l.getD i 0) = some pos → i < pos := by
  induction n generalizing l' with
  | zero => simp at h; exact ⟨h.symm, by intro i hi; omega⟩
  | succ n ih =>
    rw [List.range_succ, List.foldl_append] at h
    simp only [List.foldl] at h
    cases hst : (List.range n).foldl (passStep succs) (some (l, false)) with
    | none => rw [hst] at h; cases h
    | some st =>
      rw [hst] at h
      obtain ⟨l1, f1⟩ := st
      have hf1 : f1 = false := by
        cases f1 with
        | false => rfl
        | true => have := passStep_flag succs l1 n _ h; cases this
      subst hf1
      have ⟨e1, c1⟩ := ih l1 hst
      subst e1
      unfold passStep at h
      simp only at h
      cases hp : ffdp succs l1 (l1.getD n 0) with
      | none =>
        rw [hp] at h
        simp at h
        refine ⟨h.symm, ?_⟩
        intro i hi pos hpos
        by_cases e : i = n
        · subst e; rw [hp] at hpos; cases hpos
        · exact c1 i (by omega) pos hpos
      | some pos =>
        rw [hp] at h
        by_cases heq : pos = n
        · simp [heq] at h
        · by_cases hlt : pos < n
          · simp [heq, hlt] at h
          · simp [heq, hlt] at h
            refine ⟨h.symm, ?_⟩
            intro i hi pos' hpos'
            by_cases e : i = n
            · subst e; rw [hp] at hpos'; cases hpos'; omega
            · exact c1 i (by omega) pos' hpos'

theorem onePass_nochange (succs : Nat → List Nat) (l l' : List Nat) (h : onePass succs l = some (l', false)) :
    l' = l ∧ Respects succs l := by
  have ⟨e, c⟩ := fold_pass_nochange succs l l.length l' h
  refine ⟨e, ?_⟩
  intro i hi v hv
  cases hp : ffdp succs l (l.getD i 0) with
  | none =>
    unfold ffdp at hp
    cases hs : succs (l.getD i 0) with
    | nil => rw [hs] at hv; simp at hv
    | cons a b => rw [hs] at hp; simp at hp
  | some pos =>
    have := c i hi pos hp
    have := ffdp_le succs l _ pos hp v hv
    omega

/-- **C04 (sorter soundness).** Whatever `topologicalSort` returns — with ANY pass limit, from ANY initial
    (instantiation) order — is a permutation of the propagatable leaves in which every leaf stands strictly before
    each of its dependents. -/
theorem sortLoop_sound (succs : Nat → List Nat) (fuel : Nat) (l σ : List Nat) (h : sortLoop succs fuel l = some σ) :
    σ.Perm l ∧ Respects succs σ := by
  induction fuel generalizing l with
  | zero => simp [sortLoop] at h
  | succ fuel ih =>
    unfold sortLoop at h
    cases hr : onePass succs l with
    | none => rw [hr] at h; cases h
    | some r =>
      rw [hr] at h
      obtain ⟨l1, f⟩ := r
      have hperm : l1.Perm l := onePass_perm succs l (l1, f) hr
      cases f with
      | true =>
        simp at h
        have ⟨p, q⟩ := ih l1 h
        exact ⟨p.trans hperm, q⟩
      | false =>
        simp at h
        subst h
        have ⟨e, c⟩ := onePass_nochange succs l l1 hr
        subst e
        exact ⟨List.Perm.refl _, c⟩

theorem topoSort_sound (limit : Nat) (succs : Nat → List Nat) (l σ : List Nat) (h : topoSort limit succs l = some σ) :
    σ.Perm l ∧ Respects succs σ := sortLoop_sound succs limit l σ h

theorem idx_getD (σ : List Nat) (hn : σ.Nodup) (u : Nat) (hu : u ∈ σ) : σ.getD (idx σ u) 0 = u := by
  unfold idx
  have h : σ.idxOf u < σ.length := List.idxOf_lt_length_of_mem hu
  simp [List.getD, h]

/-- every edge goes forward in the returned order (also u = v: impossible) -/
theorem edge_order (succs : Nat → List Nat) (σ : List Nat) (hn : σ.Nodup) (hr : Respects succs σ)
    (u v : Nat) (hu : u ∈ σ) (he : v ∈ succs u) : idx σ u < idx σ v := by
  have hi : idx σ u < σ.length := List.idxOf_lt_length_of_mem hu
  exact hr (idx σ u) hi v (by rw [idx_getD σ hn u hu]; exact he)

/-- a path in the dependency graph -/
def IsPath (succs : Nat → List Nat) : List Nat → Prop
  | [] => True
  | [_] => True
  | a :: b :: rest => b ∈ succs a ∧ IsPath succs (b :: rest)

theorem path_increasing (succs : Nat → List Nat) (σ : List Nat) (hn : σ.Nodup) (hr : Respects succs σ)
    (a : Nat) (rest : List Nat) (hp : IsPath succs (a :: rest)) (hin : ∀ x, x ∈ a :: rest → x ∈ σ) :
    ∀ b, b ∈ rest → idx σ a < idx σ b := by
  induction rest generalizing a with
  | nil => intro b hb; cases hb
  | cons c rest ih =>
    intro b hb
    have hac : idx σ a < idx σ c := edge_order succs σ hn hr a c (hin a (by simp)) hp.1
    simp at hb
    rcases hb with hb | hb
    · subst hb; exact hac
    · have := ih c hp.2 (fun x hx => hin x (by simp at hx ⊢; right; exact hx)) b hb
      omega

/-- **C04 (rejection).** A netlist that contains ANY combinational cycle a → … → z → a among its propagatable leaves
    — including a single leaf feeding itself (a = z, path [a, a]) — is refused, for every pass limit and every
    instantiation order. -/
theorem cyclic_rejected (succs : Nat → List Nat) (limit : Nat) (l : List Nat) (hn : l.Nodup)
    (a z : Nat) (mid : List Nat) (hp : IsPath succs (a :: (mid ++ [z])))
    (hclose : a ∈ succs z) (hin : ∀ x, x ∈ a :: (mid ++ [z]) → x ∈ l) :
    topoSort limit succs l = none := by
  cases h : topoSort limit succs l with
  | none => rfl
  | some σ =>
    exfalso
    have ⟨pm, hr⟩ := topoSort_sound limit succs l σ h
    have hnσ : σ.Nodup := pm.nodup_iff.mpr hn
    have hinσ : ∀ x, x ∈ a :: (mid ++ [z]) → x ∈ σ := fun x hx => pm.mem_iff.mpr (hin x hx)
    have h1 := path_increasing succs σ hnσ hr a (mid ++ [z]) hp hinσ z (by simp)
    have h2 := edge_order succs σ hnσ hr z a (hinσ z (by simp)) hclose
    omega

/-- a single leaf whose output feeds its own input -/
theorem selfloop_rejected (succs : Nat → List Nat) (limit : Nat) (l : List Nat) (hn : l.Nodup) (a : Nat)
    (ha : a ∈ l) (hs : a ∈ succs a) : topoSort limit succs l = none :=
  cyclic_rejected succs limit l hn a a [] ⟨hs, trivial⟩ hs (by intro x hx; simp at hx; rw [hx]; exact ha)

example : topoSortCode (fun _ => [0]) [0] = none := by decide
example : topoSortCode (fun u => if u = 0 then [1] else [0]) [0, 1] = none :=
  cyclic_rejected _ _ _ (by decide) 0 1 [] ⟨by decide, trivial⟩ (by decide) (by decide)

/-- Completeness ("every acyclic netlist is accepted in every instantiation order") is NOT proved: it needs the
    swap sorter to converge within `codeLimit n = max 1000 (n+1)` passes, which is a conjecture (explored by the
    harness; the reverse chain of n leaves needs exactly n passes, the last one confirming).  With a smaller fixed limit it is false: -/
theorem reverse_chain_needs_n_passes :
    topoSort 3 (fun u => if u = 0 then [] else [u - 1]) [0, 1, 2, 3] = none ∧
    topoSort 4 (fun u => if u = 0 then [] else [u - 1]) [0, 1, 2, 3] = some [3, 2, 1, 0] := by decide

example : topoSortCode (fun u => if u = 0 then [] else [u - 1]) [0, 1, 2, 3] = some [3, 2, 1, 0] := by decide

/-! ## Part B — the fixpoint -/
section Fix
open Net

variable {σ : Type}

/-- value landing on a wire -/
def mval (d : Design σ) (wx : Nat × Int) : Nat := (Gen.Wire.put (d.width wx.1) wx.2).toNat

/-- the design's propagatable leaves are stateless combinational functions with declared read and write sets -/
structure Comb (d : Design σ) where
  reads  : Nat → List Nat
  writes : Nat → List Nat
  stateless : ∀ k v x, ((d.leaf k).prop v x).1 = x
  state_indep : ∀ k v x y, ((d.leaf k).prop v x).2 = ((d.leaf k).prop v y).2
  reads_ok : ∀ k v v' x, (∀ w, w ∈ reads k → v w = v' w) → ((d.leaf k).prop v x).2 = ((d.leaf k).prop v' x).2
  writes_ok : ∀ k v x, ((d.leaf k).prop v x).2.map Prod.fst = writes k
  writes_nodup : ∀ k, (writes k).Nodup

/-- `l` is an evaluation order: nobody at or after a leaf writes what it reads (so no self-loop), no two leaves write
    the same wire, no leaf twice -/
def TopoOK {d : Design σ} (C : Comb d) : List Nat → Prop
  | [] => True
  | a :: rest => (∀ b, b ∈ a :: rest → ∀ w, w ∈ C.reads a → w ∉ C.writes b) ∧
                 (∀ b, b ∈ rest → ∀ w, w ∈ C.writes a → w ∉ C.writes b) ∧ a ∉ rest ∧ TopoOK C rest

/-- every listed leaf's output wires hold what the leaf computes from the CURRENT wire values -/
def Settled (d : Design σ) (l : List Nat) (x : Nat → σ) (v : Val) : Prop :=
  ∀ k, k ∈ l → ∀ wx, wx ∈ ((d.leaf k).prop v (x k)).2 → v wx.1 = mval d wx

theorem foldl_putW_hit (d : Design σ) (l : List (Nat × Int)) (s : State σ) (hn : (l.map Prod.fst).Nodup)
    (wx : Nat × Int) (h : wx ∈ l) : (l.foldl (putW d) s).val wx.1 = mval d wx := by
  induction l generalizing s with
  | nil => cases h
  | cons a l ih =>
    simp only [List.foldl]
    simp only [List.map_cons, List.nodup_cons] at hn
    simp at h
    rcases h with h | h
    · subst h
      rw [C10.foldl_putW_val_other d l _ wx.1 hn.1]
      simp [putW, mval]
    · exact ih _ hn.2 h

theorem propLeaf_val_other (d : Design σ) (C : Comb d) (s : State σ) (k w : Nat) (h : w ∉ C.writes k) :
    (propLeaf d s k).val w = s.val w := by
  unfold propLeaf
  apply C10.foldl_putW_val_other
  rw [C.writes_ok]; exact h

theorem fold_propLeaf_val_other (d : Design σ) (C : Comb d) (l : List Nat) (s : State σ) (w : Nat)
    (h : ∀ k, k ∈ l → w ∉ C.writes k) : (l.foldl (propLeaf d) s).val w = s.val w := by
  induction l generalizing s with
  | nil => rfl
  | cons a l ih =>
    simp only [List.foldl]
    rw [ih _ (fun k hk => h k (by simp [hk])), propLeaf_val_other d C s a w (h a (by simp))]

theorem propLeaf_st (d : Design σ) (C : Comb d) (s : State σ) (k : Nat) : (propLeaf d s k).st = s.st := by
  unfold propLeaf
  rw [C10.foldl_putW_st]
  funext j
  by_cases e : j = k
  · subst e; simp [C.stateless]
  · simp [upd, e]

theorem fold_propLeaf_st (d : Design σ) (C : Comb d) (l : List Nat) (s : State σ) :
    (l.foldl (propLeaf d) s).st = s.st := by
  induction l generalizing s with
  | nil => rfl
  | cons a l ih => simp only [List.foldl]; rw [ih, propLeaf_st d C]

/-- **C04 (fixpoint).** After evaluating the leaves once in an edge-respecting order, EVERY leaf's outputs equal
    its function of the final wire values. -/
theorem propagate_fixpoint (d : Design σ) (C : Comb d) (l : List Nat) (hT : TopoOK C l) (s : State σ) :
    Settled d l s.st (l.foldl (propLeaf d) s).val := by
  induction l generalizing s with
  | nil => intro k hk; cases hk
  | cons a rest ih =>
    obtain ⟨hr, hw, hna, hrest⟩ := hT
    simp only [List.foldl]
    have ihr := ih hrest (propLeaf d s a)
    rw [propLeaf_st d C] at ihr
    intro k hk wx hwx
    simp at hk
    rcases hk with hk | hk
    · subst hk
      -- final values agree with s on reads k, and with (propLeaf s k) on writes k
      have hreads : ∀ w, w ∈ C.reads k → (rest.foldl (propLeaf d) (propLeaf d s k)).val w = s.val w := by
        intro w hwr
        rw [fold_propLeaf_val_other d C rest _ w (fun b hb => hr b (by simp [hb]) w hwr)]
        exact propLeaf_val_other d C s k w (hr k (by simp) w hwr)
      have hputs : ((d.leaf k).prop (rest.foldl (propLeaf d) (propLeaf d s k)).val (s.st k)).2
          = ((d.leaf k).prop s.val (s.st k)).2 := C.reads_ok k _ _ _ hreads
      rw [hputs] at hwx
      have hwk : wx.1 ∈ C.writes k := by
        rw [← C.writes_ok k s.val (s.st k)]; exact List.mem_map.mpr ⟨wx, hwx, rfl⟩
      rw [fold_propLeaf_val_other d C rest _ wx.1 (fun b hb => hw b hb wx.1 hwk)]
      unfold propLeaf
      apply foldl_putW_hit
      · rw [C.writes_ok]; exact C.writes_nodup k
      · exact hwx
    · exact ihr k hk wx hwx

/-- **C04 (uniqueness).** Two valuations that are both settled for the leaves of an evaluation order and agree on
    every wire no leaf drives are equal. -/
theorem settled_unique (d : Design σ) (C : Comb d) (l : List Nat) (hT : TopoOK C l) (x : Nat → σ) (v₁ v₂ : Val)
    (h₁ : Settled d l x v₁) (h₂ : Settled d l x v₂)
    (hext : ∀ w, (∀ k, k ∈ l → w ∉ C.writes k) → v₁ w = v₂ w) : ∀ w, v₁ w = v₂ w := by
  induction l with
  | nil => intro w; exact hext w (by intro k hk; cases hk)
  | cons a rest ih =>
    obtain ⟨hr, hw, hna, hrest⟩ := hT
    -- reads of `a` are driven by nobody in the list
    have hreads : ∀ w, w ∈ C.reads a → v₁ w = v₂ w := fun w hwr => hext w (fun k hk => hr k hk w hwr)
    have hputs : ((d.leaf a).prop v₁ (x a)).2 = ((d.leaf a).prop v₂ (x a)).2 := C.reads_ok a _ _ _ hreads
    have hwa : ∀ w, w ∈ C.writes a → v₁ w = v₂ w := by
      intro w hwa
      rw [← C.writes_ok a v₁ (x a)] at hwa
      rcases List.mem_map.mp hwa with ⟨wx, hwx, e⟩
      subst e
      rw [h₁ a (by simp) wx hwx, h₂ a (by simp) wx (hputs ▸ hwx)]
    apply ih hrest (fun k hk => h₁ k (by simp [hk])) (fun k hk => h₂ k (by simp [hk]))
    intro w hnw
    by_cases e : w ∈ C.writes a
    · exact hwa w e
    · apply hext w
      intro k hk
      simp at hk
      rcases hk with hk | hk
      · subst hk; exact e
      · exact hnw k hk

/-- **C04 (order independence).** Evaluating the same stateless leaves in two different edge-respecting orders
    (i.e. the schedules obtained from two different instantiation orders) gives identical wire values. -/
theorem propagate_order_indep (d : Design σ) (C : Comb d) (l₁ l₂ : List Nat) (hp : l₁.Perm l₂)
    (h₁ : TopoOK C l₁) (h₂ : TopoOK C l₂) (s : State σ) :
    (l₁.foldl (propLeaf d) s).val = (l₂.foldl (propLeaf d) s).val := by
  funext w
  apply settled_unique d C l₁ h₁ s.st
  · exact propagate_fixpoint d C l₁ h₁ s
  · intro k hk; exact propagate_fixpoint d C l₂ h₂ s k (hp.mem_iff.mp hk)
  · intro w hw
    rw [fold_propLeaf_val_other d C l₁ s w hw,
        fold_propLeaf_val_other d C l₂ s w (fun k hk => hw k (hp.mem_iff.mpr hk))]

theorem foldl_putW_rest (d : Design σ) (ps : List (Nat × Int)) (s0 : State σ) :
    (ps.foldl (putW d) s0).nxt = s0.nxt ∧ (ps.foldl (putW d) s0).prepared = s0.prepared ∧
    (ps.foldl (putW d) s0).clks = s0.clks := by
  induction ps generalizing s0 with
  | nil => exact ⟨rfl, rfl, rfl⟩
  | cons p ps ih => simp only [List.foldl]; exact ih _

theorem propLeaf_rest (d : Design σ) (s : State σ) (a : Nat) :
    (propLeaf d s a).nxt = s.nxt ∧ (propLeaf d s a).prepared = s.prepared ∧ (propLeaf d s a).clks = s.clks :=
  foldl_putW_rest d _ _

theorem fold_propLeaf_rest (d : Design σ) (l : List Nat) (s : State σ) :
    (l.foldl (propLeaf d) s).nxt = s.nxt ∧ (l.foldl (propLeaf d) s).prepared = s.prepared ∧
    (l.foldl (propLeaf d) s).clks = s.clks := by
  induction l generalizing s with
  | nil => exact ⟨rfl, rfl, rfl⟩
  | cons a l ih =>
    simp only [List.foldl]
    have h := ih (propLeaf d s a)
    have hb := propLeaf_rest d s a
    exact ⟨h.1.trans hb.1, h.2.1.trans hb.2.1, h.2.2.trans hb.2.2⟩

theorem state_ext (s₁ s₂ : State σ) (h1 : s₁.val = s₂.val) (h2 : s₁.nxt = s₂.nxt) (h3 : s₁.prepared = s₂.prepared)
    (h4 : s₁.st = s₂.st) (h5 : s₁.clks = s₂.clks) : s₁ = s₂ := by
  cases s₁; cases s₂; simp at *; exact ⟨h1, h2, h3, h4, h5⟩

/-- **C04 ⇒ C05.** On a design of stateless combinational leaves scheduled in an edge-respecting order,
    `propagateAll` is idempotent: the leading `propagateAll` of `clk()` is the identity on a settled state. -/
theorem propIdem (d : Design σ) (C : Comb d) (hT : TopoOK C d.order) : C05.PropIdem d := by
  intro s
  unfold propagateAll
  apply state_ext
  · funext w
    apply settled_unique d C d.order hT s.st
    · have := propagate_fixpoint d C d.order hT (d.order.foldl (propLeaf d) s)
      rw [fold_propLeaf_st d C] at this
      exact this
    · exact propagate_fixpoint d C d.order hT s
    · intro w hw
      exact fold_propLeaf_val_other d C d.order _ w hw
  · exact (fold_propLeaf_rest d d.order _).1
  · exact (fold_propLeaf_rest d d.order _).2.1
  · exact fold_propLeaf_st d C d.order _
  · exact (fold_propLeaf_rest d d.order _).2.2

/-- and therefore the values after `clk()` sit at the fixpoint too -/
theorem clkCycle_settled (d : Design σ) (C : Comb d) (hT : TopoOK C d.order) (s : State σ) :
    Settled d d.order (clkCycle d s).st (clkCycle d s).val := by
  unfold clkCycle
  simp only
  have := propagate_fixpoint d C d.order hT (settleAll (clockDrivers d s d.drivers))
  unfold propagateAll
  rw [fold_propLeaf_st d C]
  exact this

theorem pairwise_idx (l : List Nat) (hn : l.Nodup) : l.Pairwise (fun a b => idx l a < idx l b) := by
  induction l with
  | nil => exact List.Pairwise.nil
  | cons a l ih =>
    have hnd := List.nodup_cons.mp hn
    apply List.Pairwise.cons
    · intro b hb
      have hne : (a == b) = false := by simp; exact fun e => hnd.1 (e ▸ hb)
      simp [idx, List.idxOf_cons, hne]
    · apply (ih hnd.2).imp_of_mem
      intro x y hx hy hxy
      have hx' : (a == x) = false := by simp; exact fun e => hnd.1 (e ▸ hx)
      have hy' : (a == y) = false := by simp; exact fun e => hnd.1 (e ▸ hy)
      simp only [idx, List.idxOf_cons, hx', hy', cond_false] at hxy ⊢
      omega

theorem topoOK_of_pairwise {d : Design σ} (C : Comb d) (l : List Nat)
    (hself : ∀ a, a ∈ l → ∀ w, w ∈ C.reads a → w ∉ C.writes a)
    (hp : l.Pairwise (fun a b => (∀ w, w ∈ C.reads a → w ∉ C.writes b) ∧ (∀ w, w ∈ C.writes a → w ∉ C.writes b) ∧ a ≠ b)) :
    TopoOK C l := by
  induction l with
  | nil => trivial
  | cons a rest ih =>
    have ⟨h1, h2⟩ := List.pairwise_cons.mp hp
    refine ⟨?_, ?_, ?_, ih (fun x hx => hself x (by simp [hx])) h2⟩
    · intro b hb w hw
      simp at hb
      rcases hb with hb | hb
      · subst hb; exact hself b (by simp) w hw
      · exact (h1 b hb).1 w hw
    · intro b hb w hw; exact (h1 b hb).2.1 w hw
    · intro hin; exact (h1 a hin).2.2 rfl

/-- **C04 (sorter ⇒ fixpoint).** If `succs` covers every data dependency between the scheduled leaves and distinct
    leaves write distinct wires (C11), then ANY list the sorter returns is an evaluation order, so `propagateAll` over
    it reaches the unique fixpoint (`propagate_fixpoint`, `propagate_order_indep`, `propIdem` apply). -/
theorem topoOK_of_sorted {d : Design σ} (C : Comb d) (succs : Nat → List Nat) (limit : Nat) (l0 sorted : List Nat)
    (hs : topoSort limit succs l0 = some sorted) (hn : l0.Nodup)
    (hedges : ∀ u v, u ∈ l0 → v ∈ l0 → (∃ w, w ∈ C.writes u ∧ w ∈ C.reads v) → v ∈ succs u)
    (hdisj : ∀ a b, a ∈ l0 → b ∈ l0 → a ≠ b → ∀ w, w ∈ C.writes a → w ∉ C.writes b) :
    TopoOK C sorted := by
  have ⟨pm, hr⟩ := topoSort_sound limit succs l0 sorted hs
  have hnσ : sorted.Nodup := pm.nodup_iff.mpr hn
  have hself : ∀ a, a ∈ sorted → ∀ w, w ∈ C.reads a → w ∉ C.writes a := by
    intro a ha w hwr hww
    have hedge : a ∈ succs a := hedges a a (pm.mem_iff.mp ha) (pm.mem_iff.mp ha) ⟨w, hww, hwr⟩
    have := edge_order succs sorted hnσ hr a a ha hedge
    omega
  apply topoOK_of_pairwise C sorted hself
  apply (pairwise_idx sorted hnσ).imp_of_mem
  intro a b ha hb hab
  have hne : a ≠ b := by intro e; subst e; omega
  refine ⟨?_, hdisj a b (pm.mem_iff.mp ha) (pm.mem_iff.mp hb) hne, hne⟩
  intro w hwr hww
  have hedge : a ∈ succs b := hedges b a (pm.mem_iff.mp hb) (pm.mem_iff.mp ha) ⟨w, hww, hwr⟩
  have := edge_order succs sorted hnσ hr b a hb hedge
  omega

/-! non-vacuity: r = a AND b feeding q = NOT r, scheduled [and, not] or built [not, and] and re-sorted -/
def exD : Design Unit :=
  { width := fun _ => 1,
    leaf := fun k => if k = 0 then { prop := fun v s => (s, [(2, ((v 0 &&& v 1 : Nat) : Int))]), clock := fun _ s => (s, []) }
                     else { prop := fun v s => (s, [(3, 1 - (v 2 : Int))]), clock := fun _ s => (s, []) },
    order := [0, 1], drivers := [] }
def exC : Comb exD :=
  { reads := fun k => if k = 0 then [0, 1] else [2], writes := fun k => if k = 0 then [2] else [3],
    stateless := by intro k v x; by_cases h : k = 0 <;> simp [exD, h],
    state_indep := by intro k v x y; by_cases h : k = 0 <;> simp [exD, h],
    reads_ok := by
      intro k v v' x hv
      by_cases h : k = 0
      · subst h; simp [exD, hv 0 (by simp), hv 1 (by simp)]
      · simp [exD, h, hv 2 (by simp [h])],
    writes_ok := by intro k v x; by_cases h : k = 0 <;> simp [exD, h],
    writes_nodup := by intro k; by_cases h : k = 0 <;> simp [h] }
example : TopoOK exC [0, 1] := by
  refine ⟨?_, ?_, by decide, ?_, ?_, by simp, trivial⟩ <;> simp [exC]

end Fix

end C04
