import Py4hwV.Proofs.C13Mul
import Py4hwV.Proofs.C13AddUlp
import Py4hwV.Proofs.C13Fx
import Py4hwV.Proofs.C13Special
import Py4hwV.Helper.Spec
/-
  C13 — Single-precision floating-point blocks meet IEEE-754 within stated error bounds.

  Models: `Lib.Fp.*` (Lib/Fp.lean) — one definition per Python constructor, composed from the C07/C08 constructor models
  over the reference leaves `Leaf.*`, which are bridged to the GENERATED `propagate()` bodies by `Leaf.gen_*` /
  `C08.gen_*` (so a semantic change of a leaf breaks a bridge, a change of a constructor breaks the model-vs-real stream).
  Specification: `FpSpec.*` (Lib/FpSpec.lean): exact integer arithmetic in units of 2^-149 — the real value of a normal
  encoding `x` is `sval x · 2^-149` (`decode_normal`/`sval_decode` tie this to `Helper.IEEE.decode IEEE.single`).
  The harness evaluates the SAME `FpSpec` predicates (through Drv/C13.lean) on the bits observed on the real blocks.

  Operands are arbitrary 32-bit words that are finite and normal: `FpSpec.normal x` (exponent field 1..254).
-/
namespace C13
open Lib Lib.Fp Lib.LSpec FpSpec

/-! ## the value function -/

/-- IEEE-754 reading of a normal encoding: `(−1)^s · (2^23 + frac) · 2^(exp − 150)` -/
theorem decode_normal (x : Nat) (h : normal x = true) :
    Helper.IEEE.decode Helper.IEEE.single x
      = .fin (signOf x == 1) ⟨(mant x : Int), (expOf x : Int) - 150⟩ := by
  unfold normal at h
  simp only [Bool.and_eq_true, decide_eq_true_eq] at h
  obtain ⟨⟨h1, h2⟩, h3⟩ := h
  have e1 : Helper.IEEE.signOf Helper.IEEE.single x = signOf x := rfl
  have e2 : Helper.IEEE.expOf Helper.IEEE.single x = expOf x := rfl
  have e3 : Helper.IEEE.manOf Helper.IEEE.single x = fracOf x := rfl
  unfold Helper.IEEE.decode
  simp only [e1, e2, e3]
  have n1 : (expOf x == 2 ^ Helper.IEEE.single.ebits - 1) = false := by
    show (expOf x == 2^8 - 1) = false
    simp only [Nat.reducePow, Nat.reduceSub, beq_eq_false_iff_ne, ne_eq]; omega
  have n2 : (expOf x == 0) = false := by simp only [beq_eq_false_iff_ne, ne_eq]; omega
  rw [n1, n2]
  simp only [Bool.false_eq_true, if_false]
  show Helper.PyFloat.fin _ ⟨((2:Int)^23 + (fracOf x : Int)), (expOf x : Int) - (2^(8-1) - 1) - ((23:Nat):Int)⟩ = _
  unfold mant
  congr 2
  omega

/-- … and `sval` is that value scaled by 2^149 (an integer): `sval x = ± n · 2^(k+149)` for the decoded dyadic `n · 2^k` -/
theorem sval_decode (x : Nat) (h : normal x = true) :
    sval x = (if signOf x = 1 then -1 else 1) * ((mant x : Int) * 2^(((expOf x : Int) - 150 + 149).toNat)) := by
  unfold normal at h
  simp only [Bool.and_eq_true, decide_eq_true_eq] at h
  unfold sval mag
  rw [show ((expOf x : Int) - 150 + 149).toNat = expOf x - 1 by omega]
  split <;> simp [Int.natCast_mul, Int.natCast_pow]

/-! ## (1) comparator: gt/eq/lt order the operands exactly as their real values -/

theorem normal_exp (x : Nat) (h : normal x = true) : x < 2^32 ∧ 1 ≤ expOf x ∧ expOf x ≤ 254 := by
  unfold normal at h
  simp only [Bool.and_eq_true, decide_eq_true_eq] at h
  exact ⟨h.1.1, h.1.2, h.2⟩

/-- plain mode: `(gt, eq, lt) = ([b < a], [a = b], [a < b])` on the real values -/
theorem fpcmp_spec (a b : Nat) (ha : normal a = true) (hb : normal b = true) : fpcmp false a b = FpSpec.cmp a b :=
  fpcmp_spec' a b (normal_exp a ha).2.1 (normal_exp b hb).2.1

/-- absolute mode: the same on `|a|`, `|b|` -/
theorem fpcmp_abs_spec (a b : Nat) (ha : normal a = true) (hb : normal b = true) : fpcmp true a b = FpSpec.cmpAbs a b :=
  fpcmp_abs_spec' a b (normal_exp a ha).2.1 (normal_exp b hb).2.1

/-- readable corollary: exactly one of the three outputs is 1, and it is the right one -/
theorem fpcmp_iff (a b : Nat) (ha : normal a = true) (hb : normal b = true) :
    ((fpcmp false a b).1 = 1 ↔ sval b < sval a) ∧ ((fpcmp false a b).2.1 = 1 ↔ sval a = sval b) ∧
    ((fpcmp false a b).2.2 = 1 ↔ sval a < sval b) := by
  rw [fpcmp_spec a b ha hb]
  unfold FpSpec.cmp
  have e : ∀ x : Bool, (b2n x = 1) ↔ (x = true) := fun x => by cases x <;> decide
  simp only [e, decide_eq_true_eq]
  exact ⟨trivial, trivial, trivial⟩

example : fpcmp false 0x3F800000 0xC0000000 = (1, 0, 0) ∧ fpcmp true 0x3F800000 0xC0000000 = (0, 0, 1)
    ∧ normal 0x3F800000 = true ∧ normal 0xC0000000 = true := by decide +kernel      -- 1.0 vs −2.0

/-! ## (2) conversions -/

/-- InttoFP_SP, every 32-bit word `a` (read as two's complement `x`): zero gives +0; otherwise the result is a normal
    encoding whose value is `x` truncated toward zero to 24 significant bits; `p_lost = 1` iff truncation discarded a
    non-zero bit.  Full statement, no exception. -/
theorem inttofp_spec (a : Nat) (ha : a < 2^32) :
    (int32 a = 0 → (inttofp a).1 = 0) ∧
    (int32 a ≠ 0 → normal (inttofp a).1 = true ∧
       sval (inttofp a).1 = (if int32 a < 0 then -1 else 1) * ((truncSig (int32 a).natAbs : Nat) : Int) * 2^149) ∧
    (inttofp a).2 = b2n (lostSig (int32 a).natAbs) := inttofp_spec' a ha

/-- … which is exactly the oracle the harness runs on the real block -/
theorem inttofp_oracle (a : Nat) (ha : a < 2^32) : i2fOk a (inttofp a).1 (inttofp a).2 = true := by
  obtain ⟨h1, h2, h3⟩ := inttofp_spec a ha
  unfold i2fOk i2f
  simp only [Bool.and_eq_true, beq_iff_eq]
  refine ⟨?_, h3⟩
  by_cases h0 : int32 a = 0
  · rw [if_pos h0]; simp [h1 h0]
  · rw [if_neg h0]
    obtain ⟨n1, n2⟩ := h2 h0
    simp only [Bool.and_eq_true, decide_eq_true_eq]
    exact ⟨n1, n2⟩

example : inttofp 16777217 = (0x4B800000, 1) ∧ inttofp (2^32 - 3) = (0xC0400000, 0) := by decide +kernel

/-- FPtoInt_SP on a normal operand `x`: never `denorm`; for |x| < 2^31: not invalid, `r = trunc(x)` (two's complement) and
    `p_lost = 1` exactly when truncation discarded a non-zero bit; for |x| ≥ 2^31: invalid.  Full statement, no exception
    (since /repo commit 87c4dcb). -/
theorem fptoint_spec (a : Nat) (ha : normal a = true) :
    (fptoint a).denorm = 0 ∧
    (fitsInt a = true → (fptoint a).invalid = 0 ∧ (fptoint a).r = f2iR a ∧ (fptoint a).p_lost = b2n (f2iLost a)) ∧
    (fitsInt a = false → (fptoint a).invalid = 1) := by
  obtain ⟨_, h1, h2⟩ := normal_exp a ha
  by_cases hs : expOf a ≤ 126
  · obtain ⟨c1, c2, c3, c4, c5⟩ := fptoint_small a h1 hs
    exact ⟨c1, fun _ => ⟨c2, c3, c4⟩, fun h => by rw [c5] at h; exact absurd h (by decide)⟩
  · by_cases hm : expOf a ≤ 157
    · obtain ⟨c1, c2, c3, c4, c5⟩ := fptoint_mid a (by omega) hm
      exact ⟨c1, fun _ => ⟨c2, c3, c4⟩, fun h => by rw [c5] at h; exact absurd h (by decide)⟩
    · obtain ⟨c1, c2, c3⟩ := fptoint_big a (by omega) h2
      exact ⟨c1, fun h => by rw [c3] at h; exact absurd h (by decide), fun _ => c2⟩

/- HISTORY (before /repo commit 87c4dcb "FPtoInt_SP precision-lost flag looks at the 32 discarded bits only"):
   `pos_ext_p_lost = (hw_range(shifted, 32, 0) != 0)` took 33 bits, bit 32 being the least significant bit of the INTEGER part,
   so the model then satisfied only
     fptoint_spec (old)            … (fptoint a).p_lost = b2n (f2iLost a || decide (mag a / 2^149 % 2 = 1))
     fptoint_plost_partial (old)   normal a → fitsInt a → f2iOddClass a = false → (fptoint a).p_lost = b2n (f2iLost a)
     fptoint_plost_counterexample (old)  fptoint 0x3F800000 = ⟨1, 1, 0, 0⟩      -- 1.0 ↦ r = 1 with p_lost = 1
   `FpSpec.f2iOddClass` stays as the class of the FIXED finding C13-fptoint-plost-odd-integer: a failure inside it is a regression. -/

/-- the oracle of the harness accepts the model's outputs on every normal operand -/
theorem fptoint_oracle (a : Nat) (ha : normal a = true) :
    f2iCheck a (fptoint a).r (fptoint a).p_lost (fptoint a).denorm (fptoint a).invalid = "" := by
  obtain ⟨h1, h2, h3⟩ := fptoint_spec a ha
  unfold f2iCheck
  rw [h1]
  simp only [ne_eq, not_true_eq_false, if_false]
  cases hf : fitsInt a
  · simp [h3 hf]
  · obtain ⟨c1, c2, c3⟩ := h2 hf
    simp [c1, c2, c3]

-- the former witnesses of the finding: odd integral values no longer raise p_lost
example : fptoint 0x3F800000 = ⟨1, 0, 0, 0⟩ ∧ fptoint 0x40400000 = ⟨3, 0, 0, 0⟩ ∧ fptoint 0xBF800000 = ⟨0xFFFFFFFF, 0, 0, 0⟩
    ∧ f2iOddClass 0x3F800000 = true ∧ f2iOddClass 0x40400000 = true ∧ f2iOddClass 0xBF800000 = true := by decide +kernel   -- 1.0, 3.0, −1.0
example : fptoint 0xC0200000 = ⟨0xFFFFFFFE, 1, 0, 0⟩ ∧ fptoint 0x4F000000 = ⟨0x80000000, 0, 0, 1⟩ := by decide +kernel   -- −2.5, 2^31

/-! ## (3) multiplier -/

/-- FPMult_SP: both operands normal and the exact product normal ⇒ the result is a normal encoding and
    |decode r − a·b| < 1 ulp(r)  (stated in units of 2^-298: `sval r · 2^149` vs `sval a · sval b`) -/
theorem fpmul_ulp (a b : Nat) (ha : normal a = true) (hb : normal b = true) (hp : prodNormal a b = true) :
    mulOk a b (fpmul a b) = true :=
  fpmul_ulp' a b (normal_exp a ha).2.1 (normal_exp a ha).2.2 (normal_exp b hb).2.1 (normal_exp b hb).2.2 hp

/-- … for ALL pairs of words, in or out of the domain -/
theorem fpmul_comm (a b : Nat) : fpmul a b = fpmul b a := fpmul_comm' a b

example : fpmul 0x3FC00000 0x40100000 = 0x40580000 ∧ prodNormal 0x3FC00000 0x40100000 = true
    ∧ mulOk 0x3FC00000 0x40100000 0x40580000 = true := by decide +kernel       -- 1.5 · 2.25 = 3.375

/-! ## (4) adder -/

/-- **FPAdder_SP**: both operands normal and the exact sum normal ⇒ the result is a normal encoding, has the sign of the
    exact sum, and differs from it by less than two units in the last place of the operand of larger magnitude
    (`addOk`; in units of 2^-149: |sval r − (sval a + sval b)| < 2·2^(max(ea,eb)−1)).  EVERY exponent gap (since /repo
    commit f8136d7 the exponent difference is kept on 8 bits).  Proof: `fpadd_swap`, `fpaddCore_eq`, `add_exact`
    (alignment truncation < 1 ulp), `norm_mant/norm_exp/norm_value` (normalisation by the leading-zero count, bit 0
    dropped only when the sum carried out), exponent range from the exact sum being normal, sign case split. -/
theorem fpadd_sign_ulp (a b : Nat) (ha : normal a = true) (hb : normal b = true) (hs : sumNormal a b = true) :
    addOk a b (fpadd a b) = true := by
  obtain ⟨a32, a1, a2⟩ := normal_exp a ha
  obtain ⟨b32, b1, b2⟩ := normal_exp b hb
  exact fpadd_sign_ulp' a b a32 b32 a1 a2 b1 b2 hs

/-- readable form of `addOk` -/
theorem fpadd_sign_ulp_iff (a b : Nat) (ha : normal a = true) (hb : normal b = true) (hs : sumNormal a b = true) :
    normal (fpadd a b) = true ∧ ((sval (fpadd a b) < 0) ↔ (sval a + sval b < 0)) ∧
    (sval (fpadd a b) - (sval a + sval b)).natAbs < 2 * 2^(max (expOf a) (expOf b) - 1) := by
  have h := fpadd_sign_ulp a b ha hb hs
  unfold addOk sum ulpMax at h
  simp only [Bool.and_eq_true, decide_eq_true_eq] at h
  exact ⟨h.1.1, by rw [h.1.2], h.2⟩

/- HISTORY (before /repo commit f8136d7 "FPAdder_SP keeps the full 8-bit exponent difference"): `ediff` was a FIVE-bit wire, the
   alignment shift wrapped for exponent gaps ≥ 32 and the model then satisfied
     fpadd_gap32_counterexample (old)   fpadd 0x4F800000 0x3FC00000 = 0x50200000     -- 2^32 + 1.5 ↦ 1.0737·10^10
   `FpSpec.gapClass` stays as the class of the FIXED finding C13-fpadd-exponent-gap-ge-32: a failure inside it is a regression. -/

-- the former witness: 2^32 + 1.5 = 2^32 (1.5 is below half an ulp of 2^32 and truncated away)
example : normal 0x4F800000 = true ∧ normal 0x3FC00000 = true ∧ sumNormal 0x4F800000 0x3FC00000 = true ∧
    gapClass 0x4F800000 0x3FC00000 = true ∧ fpadd 0x4F800000 0x3FC00000 = 0x4F800000 ∧
    addOk 0x4F800000 0x3FC00000 0x4F800000 = true := by decide +kernel

/-- FPAdder_SP gives the same word with its operands swapped whenever the magnitudes differ or the operands are equal … -/
theorem fpadd_comm_fields (a b : Nat) (ha : a < 2^32) (hb : b < 2^32)
    (h : ¬ (expOf a = expOf b ∧ fracOf a = fracOf b) ∨ a = b) : fpadd a b = fpadd b a := fpadd_comm' a b ha hb h

/-- … in particular on the whole domain of the property (operands normal, exact sum normal — the only excluded case
    `b = −a` has exact sum 0), for EVERY exponent gap (also ≥ 32) -/
theorem fpadd_comm (a b : Nat) (ha : normal a = true) (hb : normal b = true) (hs : sumNormal a b = true) :
    fpadd a b = fpadd b a := by
  obtain ⟨a32, a1, _⟩ := normal_exp a ha
  obtain ⟨b32, b1, _⟩ := normal_exp b hb
  apply fpadd_comm' a b a32 b32
  by_cases hf : expOf a = expOf b ∧ fracOf a = fracOf b
  · right
    have wa := word_of_fields a a32
    have wb := word_of_fields b b32
    have sa := signOf_lt a
    have sb := signOf_lt b
    by_cases hsg : signOf a = signOf b
    · rw [wa, wb, hf.1, hf.2, hsg]
    · exfalso
      have hm : mag a = mag b := (mag_eq_iff a b a1 b1).mpr hf
      unfold sumNormal inNormalRange sum sval at hs
      simp only [Bool.and_eq_true, decide_eq_true_eq] at hs
      rw [hm] at hs
      have : signOf a = 0 ∧ signOf b = 1 ∨ signOf a = 1 ∧ signOf b = 0 := by omega
      rcases this with ⟨h1, h2⟩ | ⟨h1, h2⟩ <;> simp [h1, h2] at hs <;> omega
  · left; exact hf

/-- what the adder computes after the swap, as plain arithmetic on the fields (A = operand of larger magnitude), EVERY gap:
    alignment `mb3 = ⌊mB / 2^d⌋` (truncation; 0 for d ≥ 24), `mr = mA ± mb3` on 25 bits, normalisation by `c = clz(mr)`,
    exponent `eA − c + 1` (mod 256), fraction = bits 23..1 of `mr · 2^c` (truncation, the rounding wires drive nothing) -/
theorem fpadd_datapath (A B : Nat) (hA : 1 ≤ expOf A) (hB : 1 ≤ expOf B) (hle : expOf B ≤ expOf A) :
    let mA := 2^23 + fracOf A
    let mB := 2^23 + fracOf B
    let mb3 := mB / 2^(expOf A - expOf B)
    let mr : Nat := if signOf A = signOf B then (mA + mb3) % 2^25 else Leaf.sub 25 mA mb3
    let c : Nat := if mr = 0 then 25 else 24 - mr.log2
    fpaddCore A B = signOf A * 2^31 + ((((expOf A + 256 - c) % 256 + 1) % 256) * 2^23 + (mr * 2^c % 2^25) / 2 % 2^23) :=
  fpaddCore_eq A B hA hB hle

/-- gaps of 24 or more: the smaller operand is shifted out completely -/
theorem fpadd_datapath_far (mB d : Nat) (hm : mB < 2^24) (hd : 24 ≤ d) : mB / 2^d = 0 :=
  Nat.div_eq_of_lt (Nat.lt_of_lt_of_le hm (Nat.pow_le_pow_right (by decide) hd))

example : fpadd 0x3FC00000 0x40100000 = 0x40700000 ∧ fpadd 0x40100000 0x3FC00000 = 0x40700000
    ∧ addOk 0x3FC00000 0x40100000 0x40700000 = true := by decide +kernel       -- 1.5 + 2.25 = 3.75

/-! ## (5) FixedPointtoFP_SP — every format the constructor accepts (not named by the property text; same conversion clause) -/

/-- **FixedPointtoFP_SP**, every accepted format (1 ≤ aw ≤ 32, ANY integer f1 = f[1]) and every `aw`-bit encoding `a`
    (x = toSigned aw a, exact value x·2^(f1+1−aw)): zero gives +0; whenever the exact value is in the normal range
    (`fxBiased` = its biased exponent in 1..254) the result is a normal encoding whose value is the exact value truncated
    toward zero to 24 significant bits (exact when it fits): `sval r · 2^aw = ± truncSig |x| · 2^(f1+150)` (both sides of
    value(r) = ± truncSig|x| · 2^(f1+1−aw) scaled by 2^(149+aw)); `p_lost = 1` iff truncation discarded a non-zero bit. -/
theorem fixedtofp_spec (aw : Nat) (f1 : Int) (a : Nat) (h1 : 1 ≤ aw) (h32 : aw ≤ 32) (ha : a < 2^aw) :
    let x := Bits.toSigned aw a
    (x = 0 → (fixedtofp aw f1 a).1 = 0) ∧
    (x ≠ 0 → 1 ≤ fxBiased aw f1 x.natAbs → fxBiased aw f1 x.natAbs ≤ 254 →
       normal (fixedtofp aw f1 a).1 = true ∧ 0 ≤ f1 + 150 ∧
       sval (fixedtofp aw f1 a).1 * 2^aw
         = (if x < 0 then -1 else 1) * ((truncSig x.natAbs : Nat) : Int) * 2^(f1 + 150).toNat) ∧
    (fixedtofp aw f1 a).2 = b2n (lostSig x.natAbs) := fixedtofp_spec' aw f1 a h1 h32 ha

/-- every format with `aw − 127 ≤ f1 ≤ 127` — in particular every format tuple (sign, f1, aw−1−f1) with 0 ≤ f1 < aw — has ALL
    its values in the domain of `fixedtofp_spec`: the conversion is right for every encoding of such a format -/
theorem fixedtofp_format (aw : Nat) (f1 : Int) (a : Nat) (h1 : 1 ≤ aw) (h32 : aw ≤ 32) (ha : a < 2^aw)
    (hlo : (aw : Int) - 127 ≤ f1) (hhi : f1 ≤ 127) : fxDomain aw f1 a = true := by
  unfold fxDomain
  rw [Nat.mod_eq_of_lt ha]
  simp only [Bool.and_eq_true, Bool.or_eq_true, decide_eq_true_eq]
  refine ⟨⟨⟨h1, h32⟩, ha⟩, ?_⟩
  by_cases h0 : Bits.toSigned aw a = 0
  · exact Or.inl h0
  · right
    have hn := toSigned_natAbs_le aw a h1 ha
    have hnaw : (Bits.toSigned aw a).natAbs < 2^aw :=
      Nat.lt_of_le_of_lt hn (Nat.pow_lt_pow_right (by decide) (by omega))
    exact fxBiased_format aw f1 _ (log2_lt_of_lt _ aw (by omega) hnaw) hlo hhi

/-- … and the oracle the harness runs on the real block accepts the model's outputs on the whole domain -/
theorem fixedtofp_oracle (aw : Nat) (f1 : Int) (a : Nat) (hd : fxDomain aw f1 a = true) :
    fx2fOk aw f1 a (fixedtofp aw f1 a).1 (fixedtofp aw f1 a).2 = true := fixedtofp_oracle' aw f1 a hd

/-- format (32, f1 = 31) IS the integer conversion -/
theorem fixedtofp_int (a : Nat) (ha : a < 2^32) : fixedtofp 32 31 a = inttofp a := fixedtofp_int' a ha

-- Q8.7 (aw = 16, f1 = 8, value = a·2^-7): 0x0180 = 3.0;  0xFF40 = −1.5;  a 1-bit format; a 32-bit word that loses precision (f1 = 3: value 2^-28·a);
-- a negative f1 (value = a·2^(−5+1−8)); outside the domain the 8-bit exponent wraps: (8, 130) maps −128·2^123 = −2^130 to −2^-126
example : fixedtofp 16 8 0x0180 = (0x40400000, 0) ∧ fixedtofp 16 8 0xFF40 = (0xBFC00000, 0) ∧ fixedtofp 1 0 1 = (0xBF800000, 0)
    ∧ fixedtofp 32 3 0x10000001 = (0x3F800000, 1) ∧ fixedtofp 8 (-5) 1 = (0x39800000, 0)
    ∧ fxDomain 16 8 0x0180 = true ∧ fxDomain 8 (-5) 1 = true ∧ fx2fOk 8 (-5) 1 0x39800000 0 = true
    ∧ fxDomain 8 130 0x80 = false ∧ fixedtofp 8 130 0x80 = (0x80800000, 0) := by decide +kernel

/-! ## (6) tightened error bounds (the property's own bounds are `fpmul_ulp` and `fpadd_sign_ulp`) and their tightness -/

/-- FPMult_SP truncates TOWARD ZERO: sign = sa xor sb, |r| ≤ |a·b| and |a·b| − |r| < 1 ulp(r) (one-sided; `mulTight`) -/
theorem fpmul_tight (a b : Nat) (ha : normal a = true) (hb : normal b = true) (hp : prodNormal a b = true) :
    mulTight a b (fpmul a b) = true :=
  (fpmul_strong' a b (normal_exp a ha).2.1 (normal_exp a ha).2.2 (normal_exp b hb).2.1 (normal_exp b hb).2.2 hp).2

/-- the 1-ulp bound of the multiplier cannot be improved: an in-domain pair whose error exceeds 0.999 ulp(r)
    (so the multiplier is NOT correctly rounded: round-to-nearest would be within 0.5 ulp) -/
theorem fpmul_bound_tight :
    normal 0x3FD95C21 = true ∧ normal 0xBFD8DD52 = true ∧ prodNormal 0x3FD95C21 0xBFD8DD52 = true ∧
    fpmul 0x3FD95C21 0xBFD8DD52 = 0xC03821A5 ∧
    1000 * (mag 0x3FD95C21 * mag 0xBFD8DD52 - mag 0xC03821A5 * 2^149) > 999 * (ulp 0xC03821A5 * 2^149) := by decide +kernel

/-- **FPAdder_SP, tightened**: effective addition (equal signs): |r| ≤ |a+b| and the error is below ONE ulp of the RESULT;
    effective subtraction (opposite signs): |r| ≥ |a+b| and the error is below ONE ulp of the operand of larger magnitude
    (`addTight`).  Same domain as `fpadd_sign_ulp`, every exponent gap. -/
theorem fpadd_tight (a b : Nat) (ha : normal a = true) (hb : normal b = true) (hs : sumNormal a b = true) :
    addTight a b (fpadd a b) = true := by
  obtain ⟨a32, a1, a2⟩ := normal_exp a ha
  obtain ⟨b32, b1, b2⟩ := normal_exp b hb
  exact fpadd_tight' a b a32 b32 a1 a2 b1 b2 hs

/-- the property's "two ulps of the larger operand" cannot be improved for equal signs: an in-domain pair (gap 10, carry out,
    dropped bit and alignment remainder both maximal) with error above 1.99 ulp of the larger operand -/
theorem fpadd_bound_tight :
    normal 0x467FFFFF = true ∧ normal 0x417FFBFF = true ∧ sumNormal 0x467FFFFF 0x417FFBFF = true ∧
    fpadd 0x467FFFFF 0x417FFBFF = 0x46801FFE ∧
    100 * (sval 0x46801FFE - sum 0x467FFFFF 0x417FFBFF).natAbs > 199 * ulpMax 0x467FFFFF 0x417FFBFF := by decide +kernel

/-- … and for opposite signs the error cannot be bounded in ulps of the RESULT (no guard bits: the aligned operand is
    truncated before the subtraction): 2.0 − 1.99999988 (exact 2^-23) gives 2^-22, off by 2^22 ulp(r), a factor 2,
    while within the property's bound and within `addTight` -/
theorem fpadd_cancellation_witness :
    normal 0x40000000 = true ∧ normal 0xBFFFFFFF = true ∧ sumNormal 0x40000000 0xBFFFFFFF = true ∧
    fpadd 0x40000000 0xBFFFFFFF = 0x34800000 ∧ sval 0x34800000 = 2 * sum 0x40000000 0xBFFFFFFF ∧
    (sval 0x34800000 - sum 0x40000000 0xBFFFFFFF).natAbs = 2^22 * ulp 0x34800000 ∧
    addOk 0x40000000 0xBFFFFFFF 0x34800000 = true ∧ addTight 0x40000000 0xBFFFFFFF 0x34800000 = true := by decide +kernel

example : mulTight 0x3FC00000 0x40100000 (fpmul 0x3FC00000 0x40100000) = true
    ∧ addTight 0x3FC00000 0x40100000 (fpadd 0x3FC00000 0x40100000) = true := by decide +kernel

/-! ## (7) operands OUTSIDE the property's domain (zero, subnormal, ∞, NaN, exact result not normal): what the blocks do.
    Characterisation theorems about the model (tied to the real blocks on exactly these operands by the `blocks` stream and the
    corpus file corpus/C13/characterisation.json); the property claims nothing here, so none of this is a finding. -/

/-- comparator, absolute mode, ALL pairs of words: the order of the magnitude key `magx` (= |value|·2^149 on every finite
    encoding, zero and subnormals included; ∞ above every finite number; NaNs above ∞ by payload) -/
theorem fpcmp_abs_total (a b : Nat) :
    fpcmp true a b = (b2n (decide (magx b < magx a)), b2n (decide (magx a = magx b)), b2n (decide (magx a < magx b))) :=
  fpcmp_abs_all a b

/-- comparator, plain mode, ALL pairs of words: the IEEE-754 `totalOrder` predicate (key `tkey`: sign first, −0 below +0) -/
theorem fpcmp_totalOrder (a b : Nat) :
    fpcmp false a b = (b2n (decide (tkey b < tkey a)), b2n (decide (tkey a = tkey b)), b2n (decide (tkey a < tkey b))) :=
  fpcmp_total_order a b

/-- hence the plain comparator orders ALL finite encodings (subnormals and zeros included) and ±∞ exactly as their real
    values, except a pair of zeros: the property's comparator clause extends from "finite normal" to every non-NaN pair
    other than {+0, −0} -/
theorem fpcmp_nonzero_spec (a b : Nat) (hz : ¬ (magx a = 0 ∧ magx b = 0)) :
    fpcmp false a b = (b2n (decide (svalx b < svalx a)), b2n (decide (svalx a = svalx b)), b2n (decide (svalx a < svalx b))) :=
  fpcmp_finite a b hz

-- +0 vs −0: reported as +0 > −0 (IEEE: equal);  NaN vs ∞: ordered (IEEE: unordered);  subnormals 1·2^-149 < 2·2^-149;  −2^-149 > −2^-148
example : fpcmp false 0 0x80000000 = (1, 0, 0) ∧ fpcmp true 0 0x80000000 = (0, 1, 0) ∧ fpcmp false 0x7FC00000 0x7F800000 = (1, 0, 0)
    ∧ fpcmp false 0x7FC00000 0x7FC00000 = (0, 1, 0) ∧ fpcmp false 1 2 = (0, 0, 1) ∧ fpcmp false 0x80000001 0x80000002 = (1, 0, 0)
    ∧ svalx 1 = 1 ∧ svalx 0x80000002 = -2 ∧ tkey 0x80000000 = -1 ∧ tkey 0 = 0 := by decide +kernel

/-- multiplier, ALL pairs of words: no special-case logic — significands with hidden bit [exp ≠ 0] (`sig`), exponent fields
    added and re-biased modulo 256, one normalisation bit -/
theorem fpmul_all (a b : Nat) :
    let P := sig a * sig b
    let E := expOf a + expOf b
    fpmul a b = b2n (decide (signOf a = 1) ^^ decide (signOf b = 1)) * 2^31 +
      ((if P / 2^47 % 2 = 1 then (E + 130) % 256 else ((E + 130) % 256 + 255) % 256) * 2^23 +
       (if P / 2^47 % 2 = 1 then P / 2^24 % 2^23 else P / 2^23 % 2^23)) := fpmul_fields a b

/-- ±0 · b is NOT zero in general (`isZeror` drives nothing): fraction 0, exponent field (expOf b − 127) mod 256 -/
theorem fpmul_zero_operand (a b : Nat) (he : expOf a = 0) (hf : fracOf a = 0) :
    fpmul a b = b2n (decide (signOf a = 1) ^^ decide (signOf b = 1)) * 2^31 + ((expOf b + 129) % 256) * 2^23 :=
  fpmul_zero a b he hf

-- 0·2.0 = 2^-126;  0·1.0 = 0;  ∞·2.0 = +0;  ∞·1.0 = ∞;  subnormal·1.0 = the same subnormal;  2^127·2^127 wraps to 2^-2
example : fpmul 0 0x40000000 = 0x00800000 ∧ fpmul 0 0x3F800000 = 0 ∧ fpmul 0x7F800000 0x40000000 = 0
    ∧ fpmul 0x7F800000 0x3F800000 = 0x7F800000 ∧ fpmul 1 0x3F800000 = 1 ∧ fpmul 0x7F000000 0x7F000000 = 0x3E800000 := by
  decide +kernel

/-- adder datapath after the swap, ALL words with expOf B ≤ expOf A (what the swap guarantees): `fpadd_datapath` without the
    "exponent field ≠ 0" hypotheses; significands `sig`, exponent FIELDS subtracted -/
theorem fpadd_datapath_all (A B : Nat) (hle : expOf B ≤ expOf A) :
    let mA := sig A
    let mB := sig B
    let mb3 := mB / 2^(expOf A - expOf B)
    let mr : Nat := if signOf A = signOf B then (mA + mb3) % 2^25 else Leaf.sub 25 mA mb3
    let c : Nat := if mr = 0 then 25 else 24 - mr.log2
    fpaddCore A B = signOf A * 2^31 + ((((expOf A + 256 - c) % 256 + 1) % 256) * 2^23 + (mr * 2^c % 2^25) / 2 % 2^23) :=
  fpaddCore_fields A B hle

/-- **x + (±0) = x exactly**, both operand orders, every word x with a non-zero exponent field (all normal numbers) -/
theorem fpadd_zero_operand (a z : Nat) (ha : a < 2^32) (hz : z < 2^32) (ha1 : 1 ≤ expOf a) (hze : expOf z = 0)
    (hzf : fracOf z = 0) : fpadd a z = a ∧ fpadd z a = a := fpadd_zero a z ha hz ha1 hze hzf

/-- **x + (−x) ≠ 0**: (sign of the FIRST operand, exponent field (expOf x − 24) mod 256, fraction 0), i.e. ±2^(e−24) for
    expOf x ≥ 25 — within two ulps of x of the exact sum 0, but not zero and not commutative (the only non-commutative pairs:
    `fpadd_comm_fields`) -/
theorem fpadd_exact_cancellation (a b : Nat) (ha : a < 2^32) (hb : b < 2^32) (ha1 : 1 ≤ expOf a)
    (he : expOf b = expOf a) (hf : fracOf b = fracOf a) (hs : signOf b ≠ signOf a) :
    fpadd a b = signOf a * 2^31 + ((expOf a + 232) % 256) * 2^23 ∧
    fpadd b a = signOf b * 2^31 + ((expOf a + 232) % 256) * 2^23 := fpadd_cancel a b ha hb ha1 he hf hs

-- 1.0 − 1.0 = +2^-24, (−1.0) + 1.0 = −2^-24;  0 + 0 = 2^105;  ∞ + ∞ = +0;  two subnormals 2^-149 + 2^-149 = 2^107;  1.0 + 0 = 1.0
example : fpadd 0x3F800000 0xBF800000 = 0x33800000 ∧ fpadd 0xBF800000 0x3F800000 = 0xB3800000 ∧ fpadd 0 0 = 0x74000000
    ∧ fpadd 0x7F800000 0x7F800000 = 0 ∧ fpadd 1 1 = 0x75000000 ∧ fpadd 0x3F800000 0x80000000 = 0x3F800000 := by decide +kernel

/-- the characterisation checks the harness evaluates on the REAL blocks' outputs outside the domain (`FpSpec.charCheck`,
    verdicts `out:char-ok` / `out:char-FAIL`) are theorems of the model: they never fail on the model's outputs -/
theorem charCheck_cmp (a b : Nat) :
    charCheck "cmp" a b [(fpcmp false a b).1, (fpcmp false a b).2.1, (fpcmp false a b).2.2] = some true := by
  rw [fpcmp_totalOrder]; simp [charCheck]

theorem charCheck_cmpabs (a b : Nat) :
    charCheck "cmpabs" a b [(fpcmp true a b).1, (fpcmp true a b).2.1, (fpcmp true a b).2.2] = some true := by
  rw [fpcmp_abs_total]; simp [charCheck]

theorem charCheck_mul (a b : Nat) : charCheck "mul" a b [fpmul a b] ≠ some false := by
  have hx := xor_sign (signOf a) (signOf b) (signOf_lt a) (signOf_lt b)
  have hx' := xor_sign (signOf b) (signOf a) (signOf_lt b) (signOf_lt a)
  simp only [charCheck]
  by_cases hza : isZeroEnc a = true
  · rw [if_pos hza]
    unfold isZeroEnc at hza
    simp only [Bool.and_eq_true, decide_eq_true_eq] at hza
    rw [fpmul_zero a b hza.1 hza.2, hx]
    simp
  · rw [if_neg hza]
    by_cases hzb : isZeroEnc b = true
    · rw [if_pos hzb]
      unfold isZeroEnc at hzb
      simp only [Bool.and_eq_true, decide_eq_true_eq] at hzb
      rw [fpmul_comm a b, fpmul_zero b a hzb.1 hzb.2, hx', Nat.add_comm (signOf b)]
      simp
    · rw [if_neg hzb]; simp

theorem charCheck_add (a b : Nat) (ha : a < 2^32) (hb : b < 2^32) : charCheck "add" a b [fpadd a b] ≠ some false := by
  simp only [charCheck]
  by_cases h1 : (isZeroEnc b && decide (1 ≤ expOf a)) = true
  · rw [if_pos h1]
    unfold isZeroEnc at h1
    simp only [Bool.and_eq_true, decide_eq_true_eq] at h1
    rw [(fpadd_zero a b ha hb h1.2 h1.1.1 h1.1.2).1]
    simp
  · rw [if_neg h1]
    by_cases h2 : (isZeroEnc a && decide (1 ≤ expOf b)) = true
    · rw [if_pos h2]
      unfold isZeroEnc at h2
      simp only [Bool.and_eq_true, decide_eq_true_eq] at h2
      rw [(fpadd_zero b a hb ha h2.2 h2.1.1 h2.1.2).2]
      simp
    · rw [if_neg h2]
      by_cases h3 : (decide (1 ≤ expOf a) && decide (expOf a = expOf b) && decide (fracOf a = fracOf b) &&
          decide (signOf a ≠ signOf b)) = true
      · rw [if_pos h3]
        simp only [Bool.and_eq_true, decide_eq_true_eq] at h3
        rw [(fpadd_cancel a b ha hb h3.1.1.1 h3.1.1.2.symm h3.1.2.symm (fun h => h3.2 h.symm)).1]
        simp
      · rw [if_neg h3]; simp

end C13
