import Py4hwV.Proofs.C13Mul
import Py4hwV.Proofs.C13AddUlp
import Py4hwV.Helper.Spec
/-
  C13 — Single-precision floating-point blocks meet IEEE-754 within stated error bounds.

  Models: `Lib.Fp.*` (Lib/Fp.lean) — one definition per Python constructor, composed from the C07/C08 constructor models
  over the reference leaves `Leaf.*`, which are bridged to the GENERATED `propagate()` bodies by `Leaf.gen_*` /
  `C08.gen_*` (so a semantic change of a leaf breaks a bridge, a change of a constructor breaks the model-vs-real stream).
  Specification: `FpSpec.*` (Lib/FpSpec.lean): exact integer arithmetic in units of 2^-149 — the real value of a normal
  encoding `x` is `sval x · 2^-149` (`decode_normal`/`sval_decode` tie this to `Helper.IEEE.decode IEEE.single`).
  The harness evaluates the SAME `FpSpec` predicates (through Drv/C13.lean) on the bits observed on the real blocks.

  Operands are arbitrary 32-bit words that are finite and normal: `FpSpec.normal x` (exponent field 1..254).
-/
namespace C13
open Lib Lib.Fp Lib.LSpec FpSpec

/-! ## the value function -/

/-- IEEE-754 reading of a normal encoding: `(−1)^s · (2^23 + frac) · 2^(exp − 150)` -/
theorem decode_normal (x : Nat) (h : normal x = true) :
    Helper.IEEE.decode Helper.IEEE.single x
      = .fin (signOf x == 1) ⟨(mant x : Int), (expOf x : Int) - 150⟩ := by
  unfold normal at h
  simp only [Bool.and_eq_true, decide_eq_true_eq] at h
  obtain ⟨⟨h1, h2⟩, h3⟩ := h
  have e1 : Helper.IEEE.signOf Helper.IEEE.single x = signOf x := rfl
  have e2 : Helper.IEEE.expOf Helper.IEEE.single x = expOf x := rfl
  have e3 : Helper.IEEE.manOf Helper.IEEE.single x = fracOf x := rfl
  unfold Helper.IEEE.decode
  simp only [e1, e2, e3]
  have n1 : (expOf x == 2 ^ Helper.IEEE.single.ebits - 1) = false := by
    show (expOf x == 2^8 - 1) = false
    simp only [Nat.reducePow, Nat.reduceSub, beq_eq_false_iff_ne, ne_eq]; omega
  have n2 : (expOf x == 0) = false := by simp only [beq_eq_false_iff_ne, ne_eq]; omega
  rw [n1, n2]
  simp only [Bool.false_eq_true, if_false]
  show Helper.PyFloat.fin _ ⟨((2:Int)^23 + (fracOf x : Int)), (expOf x : Int) - (2^(8-1) - 1) - ((23:Nat):Int)⟩ = _
  unfold mant
  congr 2
  omega

/-- … and `sval` is that value scaled by 2^149 (an integer): `sval x = ± n · 2^(k+149)` for the decoded dyadic `n · 2^k` -/
theorem sval_decode (x : Nat) (h : normal x = true) :
    sval x = (if signOf x = 1 then -1 else 1) * ((mant x : Int) * 2^(((expOf x : Int) - 150 + 149).toNat)) := by
  unfold normal at h
  simp only [Bool.and_eq_true, decide_eq_true_eq] at h
  unfold sval mag
  rw [show ((expOf x : Int) - 150 + 149).toNat = expOf x - 1 by omega]
  split <;> simp [Int.natCast_mul, Int.natCast_pow]

/-! ## (1) comparator: gt/eq/lt order the operands exactly as their real values -/

theorem normal_exp (x : Nat) (h : normal x = true) : x < 2^32 ∧ 1 ≤ expOf x ∧ expOf x ≤ 254 := by
  unfold normal at h
  simp only [Bool.and_eq_true, decide_eq_true_eq] at h
  exact ⟨h.1.1, h.1.2, h.2⟩

/-- plain mode: `(gt, eq, lt) = ([b < a], [a = b], [a < b])` on the real values -/
theorem fpcmp_spec (a b : Nat) (ha : normal a = true) (hb : normal b = true) : fpcmp false a b = FpSpec.cmp a b :=
  fpcmp_spec' a b (normal_exp a ha).2.1 (normal_exp b hb).2.1

/-- absolute mode: the same on `|a|`, `|b|` -/
theorem fpcmp_abs_spec (a b : Nat) (ha : normal a = true) (hb : normal b = true) : fpcmp true a b = FpSpec.cmpAbs a b :=
  fpcmp_abs_spec' a b (normal_exp a ha).2.1 (normal_exp b hb).2.1

/-- readable corollary: exactly one of the three outputs is 1, and it is the right one -/
theorem fpcmp_iff (a b : Nat) (ha : normal a = true) (hb : normal b = true) :
    ((fpcmp false a b).1 = 1 ↔ sval b < sval a) ∧ ((fpcmp false a b).2.1 = 1 ↔ sval a = sval b) ∧
    ((fpcmp false a b).2.2 = 1 ↔ sval a < sval b) := by
  rw [fpcmp_spec a b ha hb]
  unfold FpSpec.cmp
  have e : ∀ x : Bool, (b2n x = 1) ↔ (x = true) := fun x => by cases x <;> decide
  simp only [e, decide_eq_true_eq]
  exact ⟨trivial, trivial, trivial⟩

example : fpcmp false 0x3F800000 0xC0000000 = (1, 0, 0) ∧ fpcmp true 0x3F800000 0xC0000000 = (0, 0, 1)
    ∧ normal 0x3F800000 = true ∧ normal 0xC0000000 = true := by decide +kernel      -- 1.0 vs −2.0

/-! ## (2) conversions -/

/-- InttoFP_SP, every 32-bit word `a` (read as two's complement `x`): zero gives +0; otherwise the result is a normal
    encoding whose value is `x` truncated toward zero to 24 significant bits; `p_lost = 1` iff truncation discarded a
    non-zero bit.  Full statement, no exception. -/
theorem inttofp_spec (a : Nat) (ha : a < 2^32) :
    (int32 a = 0 → (inttofp a).1 = 0) ∧
    (int32 a ≠ 0 → normal (inttofp a).1 = true ∧
       sval (inttofp a).1 = (if int32 a < 0 then -1 else 1) * ((truncSig (int32 a).natAbs : Nat) : Int) * 2^149) ∧
    (inttofp a).2 = b2n (lostSig (int32 a).natAbs) := inttofp_spec' a ha

/-- … which is exactly the oracle the harness runs on the real block -/
theorem inttofp_oracle (a : Nat) (ha : a < 2^32) : i2fOk a (inttofp a).1 (inttofp a).2 = true := by
  obtain ⟨h1, h2, h3⟩ := inttofp_spec a ha
  unfold i2fOk i2f
  simp only [Bool.and_eq_true, beq_iff_eq]
  refine ⟨?_, h3⟩
  by_cases h0 : int32 a = 0
  · rw [if_pos h0]; simp [h1 h0]
  · rw [if_neg h0]
    obtain ⟨n1, n2⟩ := h2 h0
    simp only [Bool.and_eq_true, decide_eq_true_eq]
    exact ⟨n1, n2⟩

example : inttofp 16777217 = (0x4B800000, 1) ∧ inttofp (2^32 - 3) = (0xC0400000, 0) := by decide +kernel

/-- FPtoInt_SP on a normal operand `x`: never `denorm`; for |x| < 2^31: not invalid, `r = trunc(x)` (two's complement) and
    `p_lost = 1` exactly when truncation discarded a non-zero bit; for |x| ≥ 2^31: invalid.  Full statement, no exception
    (since /repo commit 87c4dcb). -/
theorem fptoint_spec (a : Nat) (ha : normal a = true) :
    (fptoint a).denorm = 0 ∧
    (fitsInt a = true → (fptoint a).invalid = 0 ∧ (fptoint a).r = f2iR a ∧ (fptoint a).p_lost = b2n (f2iLost a)) ∧
    (fitsInt a = false → (fptoint a).invalid = 1) := by
  obtain ⟨_, h1, h2⟩ := normal_exp a ha
  by_cases hs : expOf a ≤ 126
  · obtain ⟨c1, c2, c3, c4, c5⟩ := fptoint_small a h1 hs
    exact ⟨c1, fun _ => ⟨c2, c3, c4⟩, fun h => by rw [c5] at h; exact absurd h (by decide)⟩
  · by_cases hm : expOf a ≤ 157
    · obtain ⟨c1, c2, c3, c4, c5⟩ := fptoint_mid a (by omega) hm
      exact ⟨c1, fun _ => ⟨c2, c3, c4⟩, fun h => by rw [c5] at h; exact absurd h (by decide)⟩
    · obtain ⟨c1, c2, c3⟩ := fptoint_big a (by omega) h2
      exact ⟨c1, fun h => by rw [c3] at h; exact absurd h (by decide), fun _ => c2⟩

/- HISTORY (before /repo commit 87c4dcb "FPtoInt_SP precision-lost flag looks at the 32 discarded bits only"):
   `pos_ext_p_lost = (hw_range(shifted, 32, 0) != 0)` took 33 bits, bit 32 being the least significant bit of the INTEGER part,
   so the model then satisfied only
     fptoint_spec (old)            … (fptoint a).p_lost = b2n (f2iLost a || decide (mag a / 2^149 % 2 = 1))
     fptoint_plost_partial (old)   normal a → fitsInt a → f2iOddClass a = false → (fptoint a).p_lost = b2n (f2iLost a)
     fptoint_plost_counterexample (old)  fptoint 0x3F800000 = ⟨1, 1, 0, 0⟩      -- 1.0 ↦ r = 1 with p_lost = 1
   `FpSpec.f2iOddClass` stays as the class of the FIXED finding C13-fptoint-plost-odd-integer: a failure inside it is a regression. -/

/-- the oracle of the harness accepts the model's outputs on every normal operand -/
theorem fptoint_oracle (a : Nat) (ha : normal a = true) :
    f2iCheck a (fptoint a).r (fptoint a).p_lost (fptoint a).denorm (fptoint a).invalid = "" := by
  obtain ⟨h1, h2, h3⟩ := fptoint_spec a ha
  unfold f2iCheck
  rw [h1]
  simp only [ne_eq, not_true_eq_false, if_false]
  cases hf : fitsInt a
  · simp [h3 hf]
  · obtain ⟨c1, c2, c3⟩ := h2 hf
    simp [c1, c2, c3]

-- the former witnesses of the finding: odd integral values no longer raise p_lost
example : fptoint 0x3F800000 = ⟨1, 0, 0, 0⟩ ∧ fptoint 0x40400000 = ⟨3, 0, 0, 0⟩ ∧ fptoint 0xBF800000 = ⟨0xFFFFFFFF, 0, 0, 0⟩
    ∧ f2iOddClass 0x3F800000 = true ∧ f2iOddClass 0x40400000 = true ∧ f2iOddClass 0xBF800000 = true := by decide +kernel   -- 1.0, 3.0, −1.0
example : fptoint 0xC0200000 = ⟨0xFFFFFFFE, 1, 0, 0⟩ ∧ fptoint 0x4F000000 = ⟨0x80000000, 0, 0, 1⟩ := by decide +kernel   -- −2.5, 2^31

/-! ## (3) multiplier -/

/-- FPMult_SP: both operands normal and the exact product normal ⇒ the result is a normal encoding and
    |decode r − a·b| < 1 ulp(r)  (stated in units of 2^-298: `sval r · 2^149` vs `sval a · sval b`) -/
theorem fpmul_ulp (a b : Nat) (ha : normal a = true) (hb : normal b = true) (hp : prodNormal a b = true) :
    mulOk a b (fpmul a b) = true :=
  fpmul_ulp' a b (normal_exp a ha).2.1 (normal_exp a ha).2.2 (normal_exp b hb).2.1 (normal_exp b hb).2.2 hp

/-- … for ALL pairs of words, in or out of the domain -/
theorem fpmul_comm (a b : Nat) : fpmul a b = fpmul b a := fpmul_comm' a b

example : fpmul 0x3FC00000 0x40100000 = 0x40580000 ∧ prodNormal 0x3FC00000 0x40100000 = true
    ∧ mulOk 0x3FC00000 0x40100000 0x40580000 = true := by decide +kernel       -- 1.5 · 2.25 = 3.375

/-! ## (4) adder -/

/-- **FPAdder_SP**: both operands normal and the exact sum normal ⇒ the result is a normal encoding, has the sign of the
    exact sum, and differs from it by less than two units in the last place of the operand of larger magnitude
    (`addOk`; in units of 2^-149: |sval r − (sval a + sval b)| < 2·2^(max(ea,eb)−1)).  EVERY exponent gap (since /repo
    commit f8136d7 the exponent difference is kept on 8 bits).  Proof: `fpadd_swap`, `fpaddCore_eq`, `add_exact`
    (alignment truncation < 1 ulp), `norm_mant/norm_exp/norm_value` (normalisation by the leading-zero count, bit 0
    dropped only when the sum carried out), exponent range from the exact sum being normal, sign case split. -/
theorem fpadd_sign_ulp (a b : Nat) (ha : normal a = true) (hb : normal b = true) (hs : sumNormal a b = true) :
    addOk a b (fpadd a b) = true := by
  obtain ⟨a32, a1, a2⟩ := normal_exp a ha
  obtain ⟨b32, b1, b2⟩ := normal_exp b hb
  exact fpadd_sign_ulp' a b a32 b32 a1 a2 b1 b2 hs

/-- readable form of `addOk` -/
theorem fpadd_sign_ulp_iff (a b : Nat) (ha : normal a = true) (hb : normal b = true) (hs : sumNormal a b = true) :
    normal (fpadd a b) = true ∧ ((sval (fpadd a b) < 0) ↔ (sval a + sval b < 0)) ∧
    (sval (fpadd a b) - (sval a + sval b)).natAbs < 2 * 2^(max (expOf a) (expOf b) - 1) := by
  have h := fpadd_sign_ulp a b ha hb hs
  unfold addOk sum ulpMax at h
  simp only [Bool.and_eq_true, decide_eq_true_eq] at h
  exact ⟨h.1.1, by rw [h.1.2], h.2⟩

/- HISTORY (before /repo commit f8136d7 "FPAdder_SP keeps the full 8-bit exponent difference"): `ediff` was a FIVE-bit wire, the
   alignment shift wrapped for exponent gaps ≥ 32 and the model then satisfied
     fpadd_gap32_counterexample (old)   fpadd 0x4F800000 0x3FC00000 = 0x50200000     -- 2^32 + 1.5 ↦ 1.0737·10^10
   `FpSpec.gapClass` stays as the class of the FIXED finding C13-fpadd-exponent-gap-ge-32: a failure inside it is a regression. -/

-- the former witness: 2^32 + 1.5 = 2^32 (1.5 is below half an ulp of 2^32 and truncated away)
example : normal 0x4F800000 = true ∧ normal 0x3FC00000 = true ∧ sumNormal 0x4F800000 0x3FC00000 = true ∧
    gapClass 0x4F800000 0x3FC00000 = true ∧ fpadd 0x4F800000 0x3FC00000 = 0x4F800000 ∧
    addOk 0x4F800000 0x3FC00000 0x4F800000 = true := by decide +kernel

/-- FPAdder_SP gives the same word with its operands swapped whenever the magnitudes differ or the operands are equal … -/
theorem fpadd_comm_fields (a b : Nat) (ha : a < 2^32) (hb : b < 2^32)
    (h : ¬ (expOf a = expOf b ∧ fracOf a = fracOf b) ∨ a = b) : fpadd a b = fpadd b a := fpadd_comm' a b ha hb h

/-- … in particular on the whole domain of the property (operands normal, exact sum normal — the only excluded case
    `b = −a` has exact sum 0), for EVERY exponent gap (also ≥ 32) -/
theorem fpadd_comm (a b : Nat) (ha : normal a = true) (hb : normal b = true) (hs : sumNormal a b = true) :
    fpadd a b = fpadd b a := by
  obtain ⟨a32, a1, _⟩ := normal_exp a ha
  obtain ⟨b32, b1, _⟩ := normal_exp b hb
  apply fpadd_comm' a b a32 b32
  by_cases hf : expOf a = expOf b ∧ fracOf a = fracOf b
  · right
    have wa := word_of_fields a a32
    have wb := word_of_fields b b32
    have sa := signOf_lt a
    have sb := signOf_lt b
    by_cases hsg : signOf a = signOf b
    · rw [wa, wb, hf.1, hf.2, hsg]
    · exfalso
      have hm : mag a = mag b := (mag_eq_iff a b a1 b1).mpr hf
      unfold sumNormal inNormalRange sum sval at hs
      simp only [Bool.and_eq_true, decide_eq_true_eq] at hs
      rw [hm] at hs
      have : signOf a = 0 ∧ signOf b = 1 ∨ signOf a = 1 ∧ signOf b = 0 := by omega
      rcases this with ⟨h1, h2⟩ | ⟨h1, h2⟩ <;> simp [h1, h2] at hs <;> omega
  · left; exact hf

/-- what the adder computes after the swap, as plain arithmetic on the fields (A = operand of larger magnitude), EVERY gap:
    alignment `mb3 = ⌊mB / 2^d⌋` (truncation; 0 for d ≥ 24), `mr = mA ± mb3` on 25 bits, normalisation by `c = clz(mr)`,
    exponent `eA − c + 1` (mod 256), fraction = bits 23..1 of `mr · 2^c` (truncation, the rounding wires drive nothing) -/
theorem fpadd_datapath (A B : Nat) (hA : 1 ≤ expOf A) (hB : 1 ≤ expOf B) (hle : expOf B ≤ expOf A) :
    let mA := 2^23 + fracOf A
    let mB := 2^23 + fracOf B
    let mb3 := mB / 2^(expOf A - expOf B)
    let mr : Nat := if signOf A = signOf B then (mA + mb3) % 2^25 else Leaf.sub 25 mA mb3
    let c : Nat := if mr = 0 then 25 else 24 - mr.log2
    fpaddCore A B = signOf A * 2^31 + ((((expOf A + 256 - c) % 256 + 1) % 256) * 2^23 + (mr * 2^c % 2^25) / 2 % 2^23) :=
  fpaddCore_eq A B hA hB hle

/-- gaps of 24 or more: the smaller operand is shifted out completely -/
theorem fpadd_datapath_far (mB d : Nat) (hm : mB < 2^24) (hd : 24 ≤ d) : mB / 2^d = 0 :=
  Nat.div_eq_of_lt (Nat.lt_of_lt_of_le hm (Nat.pow_le_pow_right (by decide) hd))

example : fpadd 0x3FC00000 0x40100000 = 0x40700000 ∧ fpadd 0x40100000 0x3FC00000 = 0x40700000
    ∧ addOk 0x3FC00000 0x40100000 0x40700000 = true := by decide +kernel       -- 1.5 + 2.25 = 3.75

end C13
