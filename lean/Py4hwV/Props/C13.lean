import Py4hwV.Lib.Fp
import Py4hwV.Lib.FpSpec
import Py4hwV.Props.C07
import Py4hwV.Props.C08
namespace C13
open Lib Lib.Fp

theorem fpadd_gap32_counterexample :
    fpadd 0x4F800000 0x3FC00000 = 0x50200000 := by decide +kernel

end C13
