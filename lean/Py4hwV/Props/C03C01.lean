import Py4hwV.Props.C01Hier
import Py4hwV.Props.C03Emit
/-
  C03 ∧ C01 about ONE emitted design.

  C01's hierarchy theorem (`FlatM.hier_text_run`, Props/C01Hier.lean) is about `S.emit` for a nested description `S : FlatM.HierSrc`
  under the decidable hypothesis `S.check`; C03's well-formedness theorem (`C03Emit.emit_wf_hier`) is about `H.emit` for a
  level-free list `H : C03Emit.HSrc` under `H.okb`.  `C03Emit.toHS_emit : S.toHS.emit = S.emit` (Proofs/C03EmitRel.lean) makes the
  second a statement about the SAME module list; this file states the conjunction, so that for a design whose parsed real text
  equals `S.emit` (decided per design by lean/Drv/C01Hier.lean and lean/Drv/C03Emit.lean) both conclusions hold of that text.
-/
namespace C03Emit
open V V.WF FlatM Net C01Hier

/-- the emitted module list of a nested description that passes C01's `HierSrc.check` and C03's `HSrc.okb` (of its level-free
    listing) is well formed AND simulates like the py4hw netlist (C01's conclusion, verbatim) -/
theorem emit_wf_and_run (S : HierSrc) (h : S.check = true) (hok : S.toHS.okb = true)
    (ops : List Op) (hops : ∀ op, op ∈ ops → S.cert.OpOK op) (n : Nat)
    (hg : GoodRun S.cert.netD (initC S.cert.netD.design S.cert.netD.st0 S.cert.netD.cons) (ops ++ [Op.clk (n + 1)])) :
    WellFormed S.emit ∧ WF.check S.emit = [] ∧
    ((S.cert.zeroOps ++ (ops ++ [Op.clk (n + 1)])).foldl S.cert.shipOp (mkSim S.emit S.top.mname S.clk)).errors = [] ∧
    ∀ nm k, S.cert.net nm = some k →
      ((S.cert.zeroOps ++ (ops ++ [Op.clk (n + 1)])).foldl S.cert.shipOp (mkSim S.emit S.top.mname S.clk)).st.rd.val nm =
        ⟨S.wd k, (runC S.cert.netD.design S.cert.netD.st0 S.cert.netD.cons (ops ++ [Op.clk (n + 1)])).val k, true⟩ :=
  ⟨emit_wf_hierSrc S hok, emit_check_hierSrc S hok, hier_text_run S h ops hops n hg⟩

/-- the same for the PARSED REAL TEXT `d` of a design (both drivers decide `d = S.emit`) -/
theorem real_text_wf_and_elab (S : HierSrc) (d : Design) (hd : d = S.emit) (h : S.check = true) (hok : S.toHS.okb = true) :
    WellFormed d ∧ V.flatten d S.top.mname = S.cert.flat :=
  hd ▸ ⟨emit_wf_hierSrc S hok, (hier_elab S (by simp only [HierSrc.check, Bool.and_eq_true] at h; exact h.1)).1⟩

/-- non-vacuity: C01's own example design (`C01Hier.exH`: a structural sub-module with a register, Props/C01Hier.lean) satisfies
    both hypotheses, so both conclusions hold of its emitted module list -/
example : C01Hier.exH.check = true ∧ C01Hier.exH.toHS.okb = true := ⟨C01Hier.exH_check, by decide⟩
example : WellFormed C01Hier.exH.emit ∧ V.flatten C01Hier.exH.emit C01Hier.exH.top.mname = C01Hier.exH.cert.flat :=
  real_text_wf_and_elab C01Hier.exH _ rfl C01Hier.exH_check (by decide)

end C03Emit
