import Py4hwV.Proofs.C14Rat
/-
  C14 — Fixed-point blocks agree with exact scaled-integer arithmetic.

  An encoding `x` on `w = s+i+f` bits denotes  val = toSigned w x / 2^f.  All formats (sign, integer, fraction widths),
  all operand encodings are theorem variables.  Models: Lib/Fxp.lean (the constructors of arithmetic_fxp.py and
  relational.py:614-676 as compositions of the C07/C08 block models over the reference leaves `Leaf.*`, which are
  bridged to the GENERATED propagate() bodies); specification: Lib/FxpSpec.lean (exact `Int` / `Rat` arithmetic).
-/
namespace C14
open Bits Lib.Fxp

/-! ## FixedPointAdd -/

/-- what lands on `r`: the sum of the two encodings modulo `2^w` -/
theorem fxpAdd_mod (rw a b : Nat) : Lib.Fxp.add rw a b = (a + b) % 2^rw := by
  unfold Lib.Fxp.add Lib.add
  simp only [if_true, Leaf.const, C07.put_zero, Leaf.addc, Nat.add_zero]

/-- FixedPointAdd, every format, every pair of encodings: the encoding of the exact sum of the two signed scaled
    integers, reduced modulo the format width -/
theorem fxpAdd_spec (aw bw rw : Nat) (af bf rf : Fmt) (a b : Nat)
    (hl : addLegal aw bw rw af bf rf = true) (ha : a < 2^aw) (hb : b < 2^bw) :
    Lib.Fxp.add rw a b = FxpSpec.add af.width a b := by
  simp only [addLegal, Bool.and_eq_true, decide_eq_true_eq] at hl
  obtain ⟨⟨⟨⟨h1, h2⟩, h3⟩, h4⟩, h5⟩ := hl
  subst h4; subst h5; subst h1; subst h3
  rw [fxpAdd_mod]
  unfold FxpSpec.add
  rw [sgn_eq _ a ha, sgn_eq _ b (h2 ▸ hb),
    put_add_congr _ _ (a:Int) _ (b:Int) (toSigned_emod _ a) (toSigned_emod _ b),
    show ((a:Int) + (b:Int)) = ((a + b : Nat) : Int) by push_cast; rfl, put_ofNat]

example : addLegal 4 4 4 ⟨1,1,2⟩ ⟨1,1,2⟩ ⟨1,1,2⟩ = true ∧ Lib.Fxp.add 4 0b0111 0b0001 = 0b1000 ∧
    FxpSpec.add 4 0b0111 0b0001 = 0b1000 := by decide

/-! ## FixedPointSub -/

theorem fxpSub_mod (rw a b : Nat) : Lib.Fxp.sub rw a b = put rw ((a:Int) - (b:Int)) := rfl

theorem fxpSub_spec (aw bw rw : Nat) (af bf rf : Fmt) (a b : Nat)
    (hl : subLegal aw bw rw af bf rf = true) (ha : a < 2^aw) (hb : b < 2^bw) :
    Lib.Fxp.sub rw a b = FxpSpec.sub af.width a b := by
  simp only [subLegal, addLegal, Bool.and_eq_true, decide_eq_true_eq] at hl
  obtain ⟨⟨⟨⟨h1, h2⟩, h3⟩, h4⟩, h5⟩ := hl
  subst h4; subst h5; subst h1; subst h3
  rw [fxpSub_mod]
  unfold FxpSpec.sub
  rw [sgn_eq _ a ha, sgn_eq _ b (h2 ▸ hb)]
  exact (put_sub_congr _ _ (a:Int) _ (b:Int) (toSigned_emod _ a) (toSigned_emod _ b)).symm

example : subLegal 4 4 4 ⟨1,1,2⟩ ⟨1,1,2⟩ ⟨1,1,2⟩ = true ∧ Lib.Fxp.sub 4 0b1000 0b0001 = 0b0111 := by decide

/-! ## FixedPointSign -/

/-- FixedPointSign, every signed format: the output is 1 exactly when the encoded value is negative (= the sign bit) -/
theorem fxpSign_spec (aw : Nat) (af : Fmt) (a : Nat) (hl : signLegal aw af = true) (ha : a < 2^aw) :
    Lib.Fxp.sign af 1 a = FxpSpec.isNeg aw a := by
  simp only [signLegal, Bool.and_eq_true, decide_eq_true_eq] at hl
  obtain ⟨h1, h2⟩ := hl
  unfold Fmt.width at h1
  have haw : 1 ≤ aw := by omega
  have e : af.i + af.f = aw - 1 := by omega
  have := C07.sign_spec aw a haw ha
  unfold Lib.sign at this
  unfold Lib.Fxp.sign
  rw [e, this]
  rfl

example : signLegal 4 ⟨1,1,2⟩ = true ∧ Lib.Fxp.sign ⟨1,1,2⟩ 1 0b1000 = 1 ∧ Lib.Fxp.sign ⟨1,1,2⟩ 1 0b0111 = 0 := by decide

/-! ## FixedPointMult -/

/-- the product window: `Range(m, high = low + rw, low)` selects the `rw+1` bits `[low, low+rw]`, the `rw`-bit wire `r`
    keeps the low `rw` of them — what lands is `⌊m / 2^low⌋ mod 2^rw` -/
theorem fxpMult_window (rw m low : Nat) : Leaf.range rw m (low + rw) low = (m / 2^low) % 2^rw := by
  unfold Leaf.range
  rw [show low + rw - low + 1 = rw + 1 by omega, Nat.shiftRight_eq_div_pow]
  exact Nat.mod_mod_of_dvd _ ⟨2, Nat.pow_succ 2 rw⟩

theorem put_mul_put (W : Nat) (x y : Int) : (put W x * put W y) % 2^W = put W (x * y) := by
  rw [← put_ofNat]
  push_cast
  exact put_mul_congr W _ x _ y (put_emod_self W x) (put_emod_self W y)

/-- what FixedPointMult computes, for EVERY legal configuration (operand formats may differ, any result format with
    `rf ≤ af + bf` fraction bits): the signed product is reduced to the `aw+bw`-bit wire `m` (two's complement, always
    exact: `prod_bounds`), then shifted right by `low = af+bf-rf` as an UNSIGNED number and masked to `rw` bits -/
theorem fxpMult_exact (aw bw rw : Nat) (af bf rf : Fmt) (a b : Nat)
    (hl : multLegal aw bw rw af bf rf = true) (ha : a < 2^aw) (hb : b < 2^bw) :
    Lib.Fxp.mult aw bw rw af bf rf a b
      = (put (aw + bw) (toSigned aw a * toSigned bw b) / 2^(multLow af bf rf)) % 2^rw := by
  simp only [multLegal, Bool.and_eq_true, decide_eq_true_eq] at hl
  obtain ⟨⟨⟨⟨⟨_, _⟩, _⟩, haw⟩, hbw⟩, _⟩ := hl
  unfold Lib.Fxp.mult
  simp only [fxpMult_window, Lib.signExtend, Lib.mul, Leaf.mul]
  rw [C07.sext_eq _ aw a haw ha, C07.sext_eq _ bw b hbw hb, put_mul_put]

/-- rescaling to FEWER fraction bits is a floor division by `2^(from-to)` -/
theorem rescale_le (P : Int) (F T : Nat) (h : T ≤ F) : FxpSpec.rescale P F T = P / (2:Int)^(F - T) := by
  unfold FxpSpec.rescale
  have e : (2:Int)^F = (2:Int)^(F - T) * (2:Int)^T := by rw [← Int.pow_add]; congr 1; omega
  rw [e]
  exact Int.mul_ediv_mul_of_pos_left P _ (two_pow_pos_int T)

theorem two_pow_dvd_int (m n : Nat) (h : m ≤ n) : (2:Int)^m ∣ (2:Int)^n := by
  have : n = m + (n - m) := by omega
  rw [this, Int.pow_add]; exact Int.dvd_mul_right _ _

/-- FULL STATEMENT (false of the code, see `fxpMult_wide_counterexample`, `fxpMult_wide_wrong`, `fxpMult_negative_low_illegal`):
      ∀ formats af bf rf with wire widths = sum(format), ∀ a b,
        FixedPointMult … = FxpSpec.mult aw bw rw af.f bf.f rf.f a b
          (= encoding of ⌊sa·sb · 2^rf / 2^(af+bf)⌋ mod 2^rw, the exact product rescaled by truncation to the result format).
    PROVED: the same statement for every configuration the block can simulate (`multLegal`: `rf ≤ af + bf` fraction bits,
    operands at least one bit) whose result window does not reach above the product wire — `low + rw ≤ aw + bw`, i.e. the
    result's sign+integer part is not wider than the operands' sign+integer parts together — or whose product is ≥ 0.
    Operand formats may differ; most negative operands and full double-width products included. -/
theorem fxpMult_spec_partial (aw bw rw : Nat) (af bf rf : Fmt) (a b : Nat)
    (hl : multLegal aw bw rw af bf rf = true) (ha : a < 2^aw) (hb : b < 2^bw)
    (hdom : multLow af bf rf + rw ≤ aw + bw ∨ 0 ≤ toSigned aw a * toSigned bw b) :
    Lib.Fxp.mult aw bw rw af bf rf a b = FxpSpec.mult aw bw rw af.f bf.f rf.f a b := by
  rw [fxpMult_exact aw bw rw af bf rf a b hl ha hb]
  simp only [multLegal, Bool.and_eq_true, decide_eq_true_eq] at hl
  obtain ⟨⟨⟨⟨⟨_, _⟩, _⟩, haw⟩, hbw⟩, hf⟩ := hl
  unfold FxpSpec.mult
  rw [sgn_eq aw a ha, sgn_eq bw b hb, rescale_le _ _ _ hf]
  generalize hP : toSigned aw a * toSigned bw b = P at *
  show _ = put rw (P / (2:Int)^(multLow af bf rf))
  generalize multLow af bf rf = low at *
  have key : ((put (aw + bw) P : Nat) : Int) % (2:Int)^(low + rw) = P % (2:Int)^(low + rw) := by
    rw [put_cast]
    rcases hdom with h | h
    · exact Int.emod_emod_of_dvd P (two_pow_dvd_int _ _ h)
    · have ba := toSigned_bounds aw a haw ha
      have bb := toSigned_bounds bw b hbw hb
      have pb := prod_bounds aw bw _ _ haw hbw ba.1 ba.2 bb.1 bb.2
      rw [hP] at pb
      have h2 := two_pow_succ_pred (aw + bw) (by omega)
      have hp := two_pow_pos_int (aw + bw - 1)
      rw [Int.emod_eq_of_lt h (by omega)]
  have := shr_mod_depends _ _ low rw key
  have hc := put_cast rw (P / (2:Int)^low)
  have e : (((put (aw + bw) P / 2^low % 2^rw : Nat)) : Int)
      = ((put (aw + bw) P : Nat) : Int) / (2:Int)^low % (2:Int)^rw := by push_cast; rfl
  omega

/-- full-precision result format (`rf = af + bf` fraction bits on `aw + bw` bits): the exact product, never a loss -/
theorem fxpMult_spec_full_precision (aw bw : Nat) (af bf rf : Fmt) (a b : Nat)
    (hl : multLegal aw bw (aw + bw) af bf rf = true) (hf : rf.f = af.f + bf.f) (ha : a < 2^aw) (hb : b < 2^bw) :
    Lib.Fxp.mult aw bw (aw + bw) af bf rf a b = put (aw + bw) (toSigned aw a * toSigned bw b) := by
  rw [fxpMult_spec_partial aw bw (aw + bw) af bf rf a b hl ha hb (by left; unfold multLow; omega)]
  unfold FxpSpec.mult FxpSpec.rescale
  rw [sgn_eq aw a ha, sgn_eq bw b hb, hf, Int.mul_ediv_cancel _ (Int.ne_of_gt (two_pow_pos_int _))]

/-- all three formats equal (the case helper.FixedPoint.mult implements): `⌊sa·sb / 2^f⌋ mod 2^w`, no side condition -/
theorem fxpMult_spec_same_format (q : Fmt) (a b : Nat) (hw : 1 ≤ q.width) (ha : a < 2^q.width) (hb : b < 2^q.width) :
    Lib.Fxp.mult q.width q.width q.width q q q a b
      = put q.width ((toSigned q.width a * toSigned q.width b) / (2:Int)^q.f) := by
  have hl : multLegal q.width q.width q.width q q q = true := by
    simp only [multLegal, Bool.and_eq_true, decide_eq_true_eq]
    refine ⟨⟨⟨⟨⟨?_, ?_⟩, ?_⟩, hw⟩, hw⟩, by omega⟩ <;> trivial
  rw [fxpMult_spec_partial _ _ _ q q q a b hl ha hb (by left; unfold multLow Fmt.width; omega)]
  unfold FxpSpec.mult
  rw [sgn_eq _ a ha, sgn_eq _ b hb, rescale_le _ _ _ (by omega), show q.f + q.f - q.f = q.f by omega]

/-- the negative: Q1.2 × Q1.2 → Q7.2 (4 × 4 → 10 bits), 0.25 · (−2.0): the block gives 0b0000111110 = 15.5,
    the exact product rescaled to the result format is −0.5 = 0b1111111110 -/
theorem fxpMult_wide_counterexample :
    multLegal 4 4 10 ⟨1,1,2⟩ ⟨1,1,2⟩ ⟨1,7,2⟩ = true ∧
    Lib.Fxp.mult 4 4 10 ⟨1,1,2⟩ ⟨1,1,2⟩ ⟨1,7,2⟩ 1 8 = 62 ∧ FxpSpec.mult 4 4 10 2 2 2 1 8 = 1022 ∧
    FxpSpec.multWide 4 4 10 2 2 2 1 8 = true := by decide

/-- the hypothesis of `fxpMult_spec_partial` is sharp: whenever the window reaches above the product wire (and starts
    inside it) and the product is negative, the block's output differs from the specification -/
theorem fxpMult_wide_wrong (aw bw rw : Nat) (af bf rf : Fmt) (a b : Nat)
    (hl : multLegal aw bw rw af bf rf = true) (ha : a < 2^aw) (hb : b < 2^bw)
    (hlow : multLow af bf rf ≤ aw + bw) (hwide : aw + bw < multLow af bf rf + rw)
    (hneg : toSigned aw a * toSigned bw b < 0) :
    Lib.Fxp.mult aw bw rw af bf rf a b ≠ FxpSpec.mult aw bw rw af.f bf.f rf.f a b := by
  rw [fxpMult_exact aw bw rw af bf rf a b hl ha hb]
  simp only [multLegal, Bool.and_eq_true, decide_eq_true_eq] at hl
  obtain ⟨⟨⟨⟨⟨_, _⟩, _⟩, haw⟩, hbw⟩, hf⟩ := hl
  unfold FxpSpec.mult
  rw [sgn_eq aw a ha, sgn_eq bw b hb, rescale_le _ _ _ hf]
  have ba := toSigned_bounds aw a haw ha
  have bb := toSigned_bounds bw b hbw hb
  have pb := prod_bounds aw bw _ _ haw hbw ba.1 ba.2 bb.1 bb.2
  generalize toSigned aw a * toSigned bw b = P at *
  show _ ≠ put rw (P / (2:Int)^(multLow af bf rf))
  generalize multLow af bf rf = low at *
  have h2 := two_pow_succ_pred (aw + bw) (by omega)
  have hp := two_pow_pos_int (aw + bw - 1)
  -- the wire holds P + 2^(aw+bw)
  have hput : ((put (aw + bw) P : Nat) : Int) = P + (2:Int)^(aw + bw) := by
    rw [put_cast, ← Int.add_emod_right]; exact Int.emod_eq_of_lt (by omega) (by omega)
  -- shifting: (P + 2^W) / 2^low = P / 2^low + 2^(W-low)
  have hsplit : (2:Int)^(aw + bw) = (2:Int)^low * (2:Int)^(aw + bw - low) := by
    rw [← Int.pow_add]; congr 1; omega
  have hdiv : (P + (2:Int)^(aw + bw)) / (2:Int)^low = P / (2:Int)^low + (2:Int)^(aw + bw - low) := by
    rw [hsplit]; exact Int.add_mul_ediv_left _ _ (Int.ne_of_gt (two_pow_pos_int low))
  intro heq
  have hc := put_cast rw (P / (2:Int)^low)
  have e : (((put (aw + bw) P / 2^low % 2^rw : Nat)) : Int)
      = ((put (aw + bw) P : Nat) : Int) / (2:Int)^low % (2:Int)^rw := by push_cast; rfl
  rw [heq, hc, hput, hdiv] at e
  -- so 2^(W-low) ≡ 0 mod 2^rw although W - low < rw
  have hlt : (2:Int)^(aw + bw - low) < (2:Int)^rw := by
    have : 2^(aw + bw - low) < 2^rw := Nat.pow_lt_pow_right (by decide) (by omega)
    have := cast_pow (aw + bw - low); have := cast_pow rw; omega
  have hpos := two_pow_pos_int (aw + bw - low)
  have hd : (2:Int)^rw ∣ (2:Int)^(aw + bw - low) := by
    have := Int.emod_emod_of_dvd (P / (2:Int)^low) (Int.dvd_refl ((2:Int)^rw))
    have h3 : (P / (2:Int)^low + (2:Int)^(aw + bw - low)) % (2:Int)^rw = (P / (2:Int)^low) % (2:Int)^rw := e.symm
    have := Int.emod_emod_of_dvd (P / (2:Int)^low) (Int.dvd_refl ((2:Int)^rw))
    have h4 := Int.sub_emod (P / (2:Int)^low + (2:Int)^(aw + bw - low)) (P / (2:Int)^low) ((2:Int)^rw)
    rw [h3, Int.sub_self, Int.zero_emod] at h4
    have h5 : P / (2:Int)^low + (2:Int)^(aw + bw - low) - P / (2:Int)^low = (2:Int)^(aw + bw - low) := by omega
    rw [h5] at h4
    exact Int.dvd_of_emod_eq_zero h4
  have := Int.le_of_dvd hpos hd
  omega

/-- a result format with more fraction bits than the product cannot be simulated at all (`Range.propagate` shifts by a
    negative amount): the model's legality predicate — compared with the real constructor + first propagation on every
    run — is false there -/
theorem fxpMult_negative_low_illegal (aw bw rw : Nat) (af bf rf : Fmt) (h : af.f + bf.f < rf.f) :
    multLegal aw bw rw af bf rf = false ∧ FxpSpec.multNegLow af.f bf.f rf.f = true := by
  simp only [multLegal, FxpSpec.multNegLow, Bool.and_eq_false_iff, decide_eq_false_iff_not, decide_eq_true_eq]
  exact ⟨Or.inr (by omega), h⟩

-- non-vacuity: Q3.4 × Q3.4 → Q3.4: 1.5 · (−0.5) = −0.75; most negative × most negative needs the full double width
example : multLegal 8 8 8 ⟨1,3,4⟩ ⟨1,3,4⟩ ⟨1,3,4⟩ = true ∧ Lib.Fxp.mult 8 8 8 ⟨1,3,4⟩ ⟨1,3,4⟩ ⟨1,3,4⟩ 0x18 0xF8 = 0xF4 := by decide
example : multLegal 4 4 8 ⟨1,1,2⟩ ⟨1,1,2⟩ ⟨1,3,4⟩ = true ∧ Lib.Fxp.mult 4 4 8 ⟨1,1,2⟩ ⟨1,1,2⟩ ⟨1,3,4⟩ 8 8 = 64 ∧
    put 8 (toSigned 4 8 * toSigned 4 8) = 64 := by decide
-- different operand formats, truncation of a negative product towards −∞: Q1.2 (−0.25) × Q2.1 (0.5) → Q1.2: −0.125 → −0.25
example : multLegal 4 4 4 ⟨1,1,2⟩ ⟨1,2,1⟩ ⟨1,1,2⟩ = true ∧ Lib.Fxp.mult 4 4 4 ⟨1,1,2⟩ ⟨1,2,1⟩ ⟨1,1,2⟩ 0b1111 0b0001 = 0b1111 ∧
    FxpSpec.mult 4 4 4 2 1 2 0b1111 0b0001 = 0b1111 := by decide

/-! ## FixedPointComparator -/

/-- the two's-complement reading of the subtractor output: the exact difference `d` when it fits the operand format,
    otherwise `d ∓ 2^w` (wrapped to the opposite sign) -/
theorem sub_signed (w a b : Nat) (hw : 1 ≤ w) (ha : a < 2^w) (hb : b < 2^w) :
    toSigned w (Lib.Fxp.sub w a b) =
      (if toSigned w a - toSigned w b < -(2:Int)^(w-1) then toSigned w a - toSigned w b + (2:Int)^w
       else if (2:Int)^(w-1) ≤ toSigned w a - toSigned w b then toSigned w a - toSigned w b - (2:Int)^w
       else toSigned w a - toSigned w b) := by
  have ba := toSigned_bounds w a hw ha
  have bb := toSigned_bounds w b hw hb
  have h2 := two_pow_succ_pred w hw
  have hp := two_pow_pos_int (w-1)
  have e : Lib.Fxp.sub w a b = put w (toSigned w a - toSigned w b) :=
    (put_sub_congr _ _ (a:Int) _ (b:Int) (toSigned_emod _ a) (toSigned_emod _ b)).symm
  rw [e]
  have hd0 : -(2:Int)^w < toSigned w a - toSigned w b := by omega
  have hd1 : toSigned w a - toSigned w b < (2:Int)^w := by omega
  generalize toSigned w a - toSigned w b = d at *
  split
  · rw [← put_add_mul w d 1, Int.one_mul]; exact toSigned_put w hw _ (by omega) (by omega)
  · split
    · have : d - (2:Int)^w = d + (-1) * (2:Int)^w := by omega
      rw [← put_add_mul w d (-1), ← this]; exact toSigned_put w hw _ (by omega) (by omega)
    · exact toSigned_put w hw _ (by omega) (by omega)

theorem toSigned_inj (w a b : Nat) (ha : a < 2^w) (hb : b < 2^w) (h : toSigned w a = toSigned w b) : a = b := by
  have := put_toSigned w a ha
  rw [h, put_toSigned w b hb] at this
  exact this.symm

/-- `eq` is right for EVERY pair of encodings (no representability condition) -/
theorem fxpComparator_eq_spec (aw bw : Nat) (af bf : Fmt) (gw lw a b : Nat)
    (hl : comparatorLegal aw bw af bf = true) (ha : a < 2^aw) (hb : b < 2^bw) :
    (Lib.Fxp.comparator aw af gw 1 lw a b).2.1 = (FxpSpec.comparator aw a b).2.1 := by
  simp only [comparatorLegal, Bool.and_eq_true, decide_eq_true_eq] at hl
  obtain ⟨⟨⟨⟨h1, h2⟩, _⟩, _⟩, h5⟩ := hl
  subst h1
  unfold Fmt.width at h2
  have hw : 1 ≤ aw := by omega
  have hs := sub_signed aw a b hw ha hb
  have hlt : Lib.Fxp.sub aw a b < 2^aw := put_lt _ _
  unfold Lib.Fxp.comparator FxpSpec.comparator
  simp only []
  rw [C08.equalConstant_spec aw _ 0 hw hlt (Int.le_refl _) (two_pow_pos_int _), sgn_eq aw a ha, sgn_eq aw b hb]
  unfold Lib.LSpec.equalConstant Lib.LSpec.b2n FxpSpec.b2n
  have ba := toSigned_bounds aw a hw ha
  have bb := toSigned_bounds aw b hw hb
  have h2' := two_pow_succ_pred aw hw
  have hp := two_pow_pos_int (aw-1)
  have hz : toSigned aw 0 = 0 := by unfold toSigned; simp
  by_cases hab : toSigned aw a = toSigned aw b
  · have : Lib.Fxp.sub aw a b = 0 := by
      have e : Lib.Fxp.sub aw a b = put aw (toSigned aw a - toSigned aw b) :=
        (put_sub_congr _ _ (a:Int) _ (b:Int) (toSigned_emod _ a) (toSigned_emod _ b)).symm
      rw [e, hab, Int.sub_self]; exact C07.put_zero aw
    simp [this, hab]
  · have : Lib.Fxp.sub aw a b ≠ 0 := by
      intro h0
      rw [h0, hz] at hs
      split at hs
      · omega
      · split at hs <;> omega
    simp [hab]; exact this

/-- FixedPointComparator, every signed format, every pair of encodings whose difference is representable in the
    operands' format (`−2^(w−1) ≤ sa − sb < 2^(w−1)`): `(gt, eq, lt)` order the operands as the signed values they encode -/
theorem fxpComparator_spec (aw bw : Nat) (af bf : Fmt) (a b : Nat)
    (hl : comparatorLegal aw bw af bf = true) (ha : a < 2^aw) (hb : b < 2^bw)
    (hrep : FxpSpec.diffRepresentable aw a b = true) :
    Lib.Fxp.comparator aw af 1 1 1 a b = FxpSpec.comparator aw a b := by
  have heq := fxpComparator_eq_spec aw bw af bf 1 1 a b hl ha hb
  simp only [comparatorLegal, Bool.and_eq_true, decide_eq_true_eq] at hl
  obtain ⟨⟨⟨⟨h1, h2⟩, _⟩, _⟩, h5⟩ := hl
  subst h1
  have hw : 1 ≤ aw := by unfold Fmt.width at h2; omega
  have hs := sub_signed aw a b hw ha hb
  have hlt : Lib.Fxp.sub aw a b < 2^aw := put_lt _ _
  have hsign := fxpSign_spec aw af (Lib.Fxp.sub aw a b)
    (by simp only [signLegal, Bool.and_eq_true, decide_eq_true_eq]; exact ⟨h2, h5⟩) hlt
  simp only [FxpSpec.diffRepresentable, Bool.and_eq_true, decide_eq_true_eq, sgn_eq aw a ha, sgn_eq aw b hb] at hrep
  rw [if_neg (by omega), if_neg (by omega)] at hs
  unfold FxpSpec.isNeg at hsign
  rw [sgn_eq _ _ hlt, hs] at hsign
  unfold Lib.Fxp.comparator at heq ⊢
  simp only [] at heq ⊢
  rw [hsign, heq]
  unfold FxpSpec.comparator
  simp only [sgn_eq aw a ha, sgn_eq aw b hb, FxpSpec.b2n]
  by_cases c1 : toSigned aw a < toSigned aw b
  · have c2 : ¬ toSigned aw b < toSigned aw a := by omega
    have c3 : ¬ toSigned aw a = toSigned aw b := by omega
    have c4 : toSigned aw a - toSigned aw b < 0 := by omega
    simp [c1, c2, c3, c4]; decide
  · by_cases c3 : toSigned aw a = toSigned aw b
    · have c2 : ¬ toSigned aw b < toSigned aw a := by omega
      have c4 : ¬ toSigned aw a - toSigned aw b < 0 := by omega
      simp [c1, c2, c3, c4]; decide
    · have c2 : toSigned aw b < toSigned aw a := by omega
      have c4 : ¬ toSigned aw a - toSigned aw b < 0 := by omega
      simp [c1, c2, c3, c4]; decide

/-- "representable" is exactly what the code needs: `lt` is right IF AND ONLY IF the signed difference fits the
    operands' format (outside it the wrapped difference has the opposite sign, so `lt` — and with it `gt` — is wrong) -/
theorem fxpComparator_lt_iff (aw bw : Nat) (af bf : Fmt) (a b : Nat)
    (hl : comparatorLegal aw bw af bf = true) (ha : a < 2^aw) (hb : b < 2^bw) :
    ((Lib.Fxp.comparator aw af 1 1 1 a b).2.2 = (FxpSpec.comparator aw a b).2.2)
      ↔ FxpSpec.diffRepresentable aw a b = true := by
  constructor
  · intro h
    simp only [comparatorLegal, Bool.and_eq_true, decide_eq_true_eq] at hl
    obtain ⟨⟨⟨⟨h1, h2⟩, _⟩, _⟩, h5⟩ := hl
    subst h1
    have hw : 1 ≤ aw := by unfold Fmt.width at h2; omega
    have hs := sub_signed aw a b hw ha hb
    have hlt : Lib.Fxp.sub aw a b < 2^aw := put_lt _ _
    have hsign := fxpSign_spec aw af (Lib.Fxp.sub aw a b)
      (by simp only [signLegal, Bool.and_eq_true, decide_eq_true_eq]; exact ⟨h2, h5⟩) hlt
    unfold FxpSpec.isNeg at hsign
    rw [sgn_eq _ _ hlt] at hsign
    unfold Lib.Fxp.comparator FxpSpec.comparator at h
    simp only [] at h
    rw [hsign, sgn_eq aw a ha, sgn_eq aw b hb] at h
    simp only [FxpSpec.diffRepresentable, Bool.and_eq_true, decide_eq_true_eq, sgn_eq aw a ha, sgn_eq aw b hb]
    have ba := toSigned_bounds aw a hw ha
    have bb := toSigned_bounds aw b hw hb
    have h2' := two_pow_succ_pred aw hw
    have hp := two_pow_pos_int (aw-1)
    unfold FxpSpec.b2n at h
    generalize toSigned aw (Lib.Fxp.sub aw a b) = s at *
    generalize toSigned aw a = x at *
    generalize toSigned aw b = y at *
    simp only [decide_eq_true_eq] at h
    by_cases c1 : x - y < -(2:Int)^(aw-1)
    · rw [if_pos c1] at hs
      have k1 : ¬ s < 0 := by omega
      have k2 : x < y := by omega
      rw [if_neg k1, if_pos k2] at h
      omega
    · rw [if_neg c1] at hs
      by_cases c2 : (2:Int)^(aw-1) ≤ x - y
      · rw [if_pos c2] at hs
        have k1 : s < 0 := by omega
        have k2 : ¬ x < y := by omega
        rw [if_pos k1, if_neg k2] at h
        omega
      · omega
  · intro h
    rw [fxpComparator_spec aw bw af bf a b hl ha hb h]

/-- outside the domain: w = 2 (format (1,1,0)), a = 1, b = −2: a − b = 3 is not representable, the block says a < b -/
theorem fxpComparator_counterexample :
    comparatorLegal 2 2 ⟨1,1,0⟩ ⟨1,1,0⟩ = true ∧ FxpSpec.diffRepresentable 2 1 2 = false ∧
    Lib.Fxp.comparator 2 ⟨1,1,0⟩ 1 1 1 1 2 = (0, 0, 1) ∧ FxpSpec.comparator 2 1 2 = (1, 0, 0) := by decide

-- non-vacuity: Q1.2, −0.25 vs 0.5 and the most negative value against itself / against −1 LSB
example : comparatorLegal 4 4 ⟨1,1,2⟩ ⟨1,1,2⟩ = true ∧ FxpSpec.diffRepresentable 4 0b1111 0b0010 = true ∧
    Lib.Fxp.comparator 4 ⟨1,1,2⟩ 1 1 1 0b1111 0b0010 = (0, 0, 1) ∧
    Lib.Fxp.comparator 4 ⟨1,1,2⟩ 1 1 1 0b1000 0b1000 = (0, 1, 0) ∧
    Lib.Fxp.comparator 4 ⟨1,1,2⟩ 1 1 1 0b1111 0b1000 = (1, 0, 0) := by decide

/-! ## value-level statements (exact rationals): `val w f x = toSigned w x / 2^f` -/

theorem sgn_put (w : Nat) (hw : 1 ≤ w) (v : Int) (h0 : -(2:Int)^(w-1) ≤ v) (h1 : v < (2:Int)^(w-1)) :
    FxpSpec.sgn w (put w v) = v := by
  rw [sgn_eq w _ (put_lt w v)]; exact toSigned_put w hw v h0 h1

/-- whenever the exact sum is a value of the format, the adder returns its encoding: `val r = val a + val b` -/
theorem fxpAdd_value (aw bw rw : Nat) (af bf rf : Fmt) (a b : Nat)
    (hl : addLegal aw bw rw af bf rf = true) (ha : a < 2^aw) (hb : b < 2^bw) (hw : 1 ≤ af.width)
    (h0 : -(2:Int)^(af.width-1) ≤ FxpSpec.sgn af.width a + FxpSpec.sgn af.width b)
    (h1 : FxpSpec.sgn af.width a + FxpSpec.sgn af.width b < (2:Int)^(af.width-1)) :
    FxpSpec.val af.width af.f (Lib.Fxp.add rw a b) = FxpSpec.val af.width af.f a + FxpSpec.val af.width af.f b := by
  rw [fxpAdd_spec aw bw rw af bf rf a b hl ha hb]
  unfold FxpSpec.add FxpSpec.val
  rw [sgn_put _ hw _ h0 h1, val_add]

theorem fxpSub_value (aw bw rw : Nat) (af bf rf : Fmt) (a b : Nat)
    (hl : subLegal aw bw rw af bf rf = true) (ha : a < 2^aw) (hb : b < 2^bw) (hw : 1 ≤ af.width)
    (h0 : -(2:Int)^(af.width-1) ≤ FxpSpec.sgn af.width a - FxpSpec.sgn af.width b)
    (h1 : FxpSpec.sgn af.width a - FxpSpec.sgn af.width b < (2:Int)^(af.width-1)) :
    FxpSpec.val af.width af.f (Lib.Fxp.sub rw a b) = FxpSpec.val af.width af.f a - FxpSpec.val af.width af.f b := by
  rw [fxpSub_spec aw bw rw af bf rf a b hl ha hb]
  unfold FxpSpec.sub FxpSpec.val
  rw [sgn_put _ hw _ h0 h1, val_sub]

/-- the sign block outputs 1 exactly when the encoded VALUE is negative -/
theorem fxpSign_value (aw : Nat) (af : Fmt) (a : Nat) (hl : signLegal aw af = true) (ha : a < 2^aw) :
    Lib.Fxp.sign af 1 a = 1 ↔ FxpSpec.val aw af.f a < 0 := by
  rw [fxpSign_spec aw af a hl ha, val_neg]
  unfold FxpSpec.isNeg
  split <;> simp_all

/-- the multiplier returns the encoding of  ⌊val a · val b · 2^rf⌋ / 2^rf  (the exact product truncated to the result
    format) whenever that value is representable in the result format — under the hypotheses of `fxpMult_spec_partial` -/
theorem fxpMult_value (aw bw rw : Nat) (af bf rf : Fmt) (a b : Nat)
    (hl : multLegal aw bw rw af bf rf = true) (ha : a < 2^aw) (hb : b < 2^bw)
    (hdom : multLow af bf rf + rw ≤ aw + bw ∨ 0 ≤ toSigned aw a * toSigned bw b) (hrw : 1 ≤ rw)
    (h0 : -(2:Int)^(rw-1) ≤ (FxpSpec.val aw af.f a * FxpSpec.val bw bf.f b * (2:Rat)^rf.f).floor)
    (h1 : (FxpSpec.val aw af.f a * FxpSpec.val bw bf.f b * (2:Rat)^rf.f).floor < (2:Int)^(rw-1)) :
    FxpSpec.val rw rf.f (Lib.Fxp.mult aw bw rw af bf rf a b)
      = (((FxpSpec.val aw af.f a * FxpSpec.val bw bf.f b * (2:Rat)^rf.f).floor : Int) : Rat) / (2:Rat)^rf.f := by
  rw [fxpMult_spec_partial aw bw rw af bf rf a b hl ha hb hdom]
  have e : (FxpSpec.val aw af.f a * FxpSpec.val bw bf.f b * (2:Rat)^rf.f).floor
      = FxpSpec.rescale (FxpSpec.sgn aw a * FxpSpec.sgn bw b) (af.f + bf.f) rf.f := by
    rw [rescale_floor]; unfold FxpSpec.val; rw [val_mul]
  rw [e] at h0 h1 ⊢
  unfold FxpSpec.mult
  show ((FxpSpec.sgn rw (put rw _) : Int) : Rat) / _ = _
  rw [sgn_put rw hrw _ h0 h1]

theorem val_eq_iff (w f a b : Nat) : FxpSpec.val w f a = FxpSpec.val w f b ↔ FxpSpec.sgn w a = FxpSpec.sgn w b := by
  constructor
  · intro h
    have h1 : ¬ FxpSpec.sgn w a < FxpSpec.sgn w b := fun hh => by
      have := (val_lt w f a b).mpr hh; rw [h] at this; exact Rat.lt_irrefl this
    have h2 : ¬ FxpSpec.sgn w b < FxpSpec.sgn w a := fun hh => by
      have := (val_lt w f b a).mpr hh; rw [h] at this; exact Rat.lt_irrefl this
    omega
  · intro h; unfold FxpSpec.val; rw [h]

/-- the comparator orders the operands as the VALUES they encode, whenever their difference is representable -/
theorem fxpComparator_value (aw bw : Nat) (af bf : Fmt) (a b : Nat)
    (hl : comparatorLegal aw bw af bf = true) (ha : a < 2^aw) (hb : b < 2^bw)
    (hrep : FxpSpec.diffRepresentable aw a b = true) :
    ((Lib.Fxp.comparator aw af 1 1 1 a b).1 = 1 ↔ FxpSpec.val aw af.f b < FxpSpec.val aw af.f a) ∧
    ((Lib.Fxp.comparator aw af 1 1 1 a b).2.1 = 1 ↔ FxpSpec.val aw af.f a = FxpSpec.val aw af.f b) ∧
    ((Lib.Fxp.comparator aw af 1 1 1 a b).2.2 = 1 ↔ FxpSpec.val aw af.f a < FxpSpec.val aw af.f b) := by
  rw [fxpComparator_spec aw bw af bf a b hl ha hb hrep, val_lt, val_lt, val_eq_iff]
  unfold FxpSpec.comparator FxpSpec.b2n
  refine ⟨?_, ?_, ?_⟩ <;> simp only [decide_eq_true_eq] <;> split <;> simp_all

-- non-vacuity: Q1.2: 0.75 + (−0.25) = 0.5 ; Q3.4: 1.5 · (−0.5) = −0.75
example : FxpSpec.val 4 2 0b0011 + FxpSpec.val 4 2 0b1111 = FxpSpec.val 4 2 (Lib.Fxp.add 4 0b0011 0b1111) ∧
    FxpSpec.val 4 2 (Lib.Fxp.add 4 0b0011 0b1111) = 1/2 := by decide +kernel
example : FxpSpec.val 8 4 (Lib.Fxp.mult 8 8 8 ⟨1,3,4⟩ ⟨1,3,4⟩ ⟨1,3,4⟩ 0x18 0xF8) = -3/4 := by decide +kernel

/-! ## the same statements on the GENERATED leaf code

  `gen*` below are the netlists the Python constructors build, with every leaf replaced by the definition generated
  from its `propagate()` source (`Gen.<Leaf>.step`) and every wire by the mask `Wire.put` applies (`Leaf.landed w`).
  `gen*_eq` tie them to the models above through the bridge lemmas `Leaf.gen_*`; a semantic change of one of these
  propagate() bodies (AddCarryIn, Constant, Sub, Bit, SignExtend, Mul, Range, Not, And2) breaks an obligation here. -/

def genAdd (rw a b : Nat) : Nat :=
  let ci := Leaf.landed 1 (Gen.Constant.step ⟨0⟩ ⟨⟩ ⟨⟩ ⟨⟩).2.r
  Leaf.landed rw (Gen.AddCarryIn.step ⟨⟩ ⟨⟩ ⟨a, b, ci⟩ ⟨⟩).2.r

def genSub (rw a b : Nat) : Nat := Leaf.landed rw (Gen.Sub.step ⟨rw⟩ ⟨⟩ ⟨a, b⟩ ⟨⟩).2.r

def genSign (af : Fmt) (sw a : Nat) : Nat := Leaf.landed sw (Gen.Bit.step ⟨((af.i + af.f : Nat) : Int)⟩ ⟨⟩ ⟨a⟩ ⟨⟩).2.r

def genMult (aw bw rw : Nat) (af bf rf : Fmt) (a b : Nat) : Nat :=
  let W := aw + bw
  let sa := Leaf.landed W (Gen.SignExtend.step ⟨aw, W⟩ ⟨⟩ ⟨a⟩ ⟨⟩).2.r
  let sb := Leaf.landed W (Gen.SignExtend.step ⟨bw, W⟩ ⟨⟩ ⟨b⟩ ⟨⟩).2.r
  let m := Leaf.landed W (Gen.Mul.step ⟨⟩ ⟨⟩ ⟨sa, sb⟩ ⟨⟩).2.r
  let low := multLow af bf rf
  let high := low + rw
  Leaf.landed rw (Gen.Range.step ⟨high, low⟩ ⟨⟩ ⟨m⟩ ⟨⟩).2.r

/-- everything of FixedPointComparator except the inner `EqualConstant` block (BitsLSBF + Minterm ladder: C08's model
    `Lib.equalConstant`, bridged to generated code in Props/C08.lean) -/
def genComparatorCore (aw : Nat) (af : Fmt) (gw ew lw : Nat) (a b : Nat) : Nat × Nat × Nat :=
  let sub := genSub aw a b
  let lt := genSign af lw sub
  let eq := Lib.equalConstant aw ew sub 0
  let notLT := Leaf.landed 1 (Gen.Not.step ⟨⟩ ⟨⟩ ⟨lt⟩ ⟨⟩).2.r
  let notEQ := Leaf.landed 1 (Gen.Not.step ⟨⟩ ⟨⟩ ⟨eq⟩ ⟨⟩).2.r
  let gt := Leaf.landed gw (Gen.And2.step ⟨⟩ ⟨⟩ ⟨notEQ, notLT⟩ ⟨⟩).2.r
  (gt, eq, lt)

theorem genAdd_eq (rw a b : Nat) : genAdd rw a b = Lib.Fxp.add rw a b := by
  unfold genAdd Lib.Fxp.add Lib.add
  simp only [Leaf.gen_const, Leaf.gen_addc, if_true]

theorem genSub_eq (rw a b : Nat) : genSub rw a b = Lib.Fxp.sub rw a b := Leaf.gen_sub rw a b

theorem genSign_eq (af : Fmt) (sw a : Nat) : genSign af sw a = Lib.Fxp.sign af sw a := Leaf.gen_bit sw a _

theorem genMult_eq (aw bw rw : Nat) (af bf rf : Fmt) (a b : Nat) :
    genMult aw bw rw af bf rf a b = Lib.Fxp.mult aw bw rw af bf rf a b := by
  unfold genMult Lib.Fxp.mult Lib.signExtend Lib.mul
  simp only [Leaf.gen_sext, Leaf.gen_mul]
  exact Leaf.gen_range rw _ _ _ (Nat.le_add_right _ _)

theorem genComparatorCore_eq (aw : Nat) (af : Fmt) (gw ew lw a b : Nat) :
    genComparatorCore aw af gw ew lw a b = Lib.Fxp.comparator aw af gw ew lw a b := by
  unfold genComparatorCore Lib.Fxp.comparator
  simp only [genSub_eq, genSign_eq, Leaf.gen_not, Leaf.gen_and2]

theorem gen_fxpAdd_spec (aw bw rw : Nat) (af bf rf : Fmt) (a b : Nat)
    (hl : addLegal aw bw rw af bf rf = true) (ha : a < 2^aw) (hb : b < 2^bw) :
    genAdd rw a b = FxpSpec.add af.width a b := by
  rw [genAdd_eq]; exact fxpAdd_spec aw bw rw af bf rf a b hl ha hb

theorem gen_fxpSub_spec (aw bw rw : Nat) (af bf rf : Fmt) (a b : Nat)
    (hl : subLegal aw bw rw af bf rf = true) (ha : a < 2^aw) (hb : b < 2^bw) :
    genSub rw a b = FxpSpec.sub af.width a b := by
  rw [genSub_eq]; exact fxpSub_spec aw bw rw af bf rf a b hl ha hb

theorem gen_fxpSign_spec (aw : Nat) (af : Fmt) (a : Nat) (hl : signLegal aw af = true) (ha : a < 2^aw) :
    genSign af 1 a = FxpSpec.isNeg aw a := by
  rw [genSign_eq]; exact fxpSign_spec aw af a hl ha

theorem gen_fxpMult_spec (aw bw rw : Nat) (af bf rf : Fmt) (a b : Nat)
    (hl : multLegal aw bw rw af bf rf = true) (ha : a < 2^aw) (hb : b < 2^bw)
    (hdom : multLow af bf rf + rw ≤ aw + bw ∨ 0 ≤ toSigned aw a * toSigned bw b) :
    genMult aw bw rw af bf rf a b = FxpSpec.mult aw bw rw af.f bf.f rf.f a b := by
  rw [genMult_eq]; exact fxpMult_spec_partial aw bw rw af bf rf a b hl ha hb hdom

theorem gen_fxpComparator_spec (aw bw : Nat) (af bf : Fmt) (a b : Nat)
    (hl : comparatorLegal aw bw af bf = true) (ha : a < 2^aw) (hb : b < 2^bw)
    (hrep : FxpSpec.diffRepresentable aw a b = true) :
    genComparatorCore aw af 1 1 1 a b = FxpSpec.comparator aw a b := by
  rw [genComparatorCore_eq]; exact fxpComparator_spec aw bw af bf a b hl ha hb hrep

example : genMult 8 8 8 ⟨1,3,4⟩ ⟨1,3,4⟩ ⟨1,3,4⟩ 0x18 0xF8 = 0xF4 ∧ genAdd 4 7 1 = 8 ∧ genSub 4 8 1 = 7 ∧
    genComparatorCore 4 ⟨1,1,2⟩ 1 1 1 0b1111 0b0010 = (0, 0, 1) := by decide

end C14
