import Py4hwV.Transpile.PySyntax
import Py4hwV.Gen.TranspileOps
import Py4hwV.Verilog.Syntax
/-
  Model of the NET EFFECT of py4hw's Python->Verilog transpiler (transpileSequential / transpileCombinational pass
  pipelines + toVerilog + createModuleHeader), as a function from the class-as-data to the Verilog AST that
  harness/vparse.py reads back from the emitted text.

  * operator symbols come from the GENERATED table `Gen.TranspileOps` (real `VerilogOperator.getOp`), mapped to the
    parser's constructor names by `vBin`/`vUn` (vparse.BINOPS);
  * names: a Python name or `self.<attr>` is looked up by ATTRIBUTE name in ports, integer state variables, constructor
    constants (substituted), otherwise it becomes a fresh `integer` (ReplaceWiresAndVariables); `w.get()` is the
    attribute name of `w`;
  * local / state assignment is blocking `=`, `put` and `prepare` are both `<=` (tables `varAssign`/`syncAssign`/`asyncAssign`);
  * nested operators are parenthesised on both sides (`parenLeft`/`parenRight`/`parenUnary`), since /repo 72c6814 also the right
    operand of a comparison (`parenCmpRightList = "3==(1+2)"`; before, it was emitted bare and `a == b & 1` was re-read `(a==b)&1`);
  * `case` emission with a guard wrapped as `if` inside the arm (ReplaceMatch), ternaries turned into a statement-shaped
    VerilogIf (ReplaceIf.visit_IfExp) - both outside `supported`.
  `supported` is the decidable fragment on which the translation is PROVED to preserve behaviour (Props/C02.lean);
  every construct outside it that the real transpiler nevertheless accepts is a finding (notes/C02.md).
-/
namespace Tp
open Gen.TranspileOps

/-- vparse.BINOPS: Verilog operator text -> AST constructor name -/
def vBin : String → String
  | "+" => "add" | "-" => "sub" | "*" => "mul" | "/" => "div" | "%" => "mod"
  | "&" => "and" | "|" => "or" | "^" => "xor" | "<<" => "shl" | ">>" => "shr"
  | "==" => "eq" | "!=" => "ne" | "<" => "lt" | "<=" => "le" | ">" => "gt" | ">=" => "ge"
  | "&&" => "land" | "||" => "lor"
  | _ => "?"

def vUn : String → String
  | "-" => "neg" | "~" => "not" | "!" => "lnot" | _ => "?"

def numE (v : Int) : V.Expr :=
  if v < 0 then .un "neg" (.num none true (-v).toNat true) else .num none true v.toNat true

def isPort (c : ClassD) (n : String) : Bool := (c.port? n).isSome
def isState (c : ClassD) (n : String) : Bool := (lookup c.state n).isSome

/-- ReplaceWiresAndVariables.visit_Name / visit_Attribute -/
def resolveName (c : ClassD) (n : String) : V.Expr :=
  if isPort c n then .id n
  else if isState c n then .id n
  else match lookup c.consts n with
    | some v => numE v
    | none => .id n

def trE (c : ClassD) : Expr → V.Expr
  | .const v => numE v
  | .loc n => resolveName c n
  | .attr n => resolveName c n
  | .get n => .id n
  | .par n => .id n
  | .un op e => .un (vUn (unSym op)) (trE c e)
  | .bin op a b => .bin (vBin (binSym op)) (trE c a) (trE c b)
  | .cmp op a b => .bin (vBin (cmpSym op)) (trE c a) (trE c b)
  | .and a b => .bin (vBin andSym) (trE c a) (trE c b)
  | .or a b => .bin (vBin orSym) (trE c a) (trE c b)
  | .ite cnd a b => .tern (trE c cnd) (trE c a) (trE c b)     -- ReplaceIfExp: `((c) ? a : b)` (since /repo 760fbc8)

def blocking (txt : String) : Bool := txt == "a=1;"

def assignS (txt : String) (n : String) (e : V.Expr) : V.Stmt :=
  if blocking txt then .ba (.lid n) e else .nba (.lid n) e

def trS (c : ClassD) : Stmt → V.Stmt
  | .skip => .skip
  | .seq a b => .seq (trS c a) (trS c b)
  | .setLoc n e => if isPort c n then assignS syncAssign n (trE c e) else assignS varAssign n (trE c e)
  | .setAttr n e => if isPort c n then assignS syncAssign n (trE c e) else assignS varAssign n (trE c e)
  | .put w e => assignS asyncAssign w (trE c e)
  | .prep w e => assignS syncAssign w (trE c e)
  | .ife cnd t e => .ife (trE c cnd) (trS c t) (trS c e)
  | .mtch subj ch => .case (trE c subj) (trS c ch)
  | .arm v g body rest =>
      match g with
      | none => .arm (trE c v) (trS c body) (trS c rest)
      | some ge => .arm (trE c v) (.ife (trE c ge) (trS c body) .skip) (trS c rest)
  | .dflt body => .dflt (trS c body)

/-! ### declarations -/
def namesE : Expr → List String
  | .const _ => [] | .loc n => [n] | .attr n => [n] | .get _ => [] | .par _ => []
  | .un _ e => namesE e
  | .bin _ a b => namesE a ++ namesE b
  | .cmp _ a b => namesE a ++ namesE b
  | .and a b => namesE a ++ namesE b
  | .or a b => namesE a ++ namesE b
  | .ite cnd a b => namesE cnd ++ namesE a ++ namesE b

def namesS : Stmt → List String
  | .skip => []
  | .seq a b => namesS a ++ namesS b
  | .setLoc n e => n :: namesE e
  | .setAttr n e => n :: namesE e
  | .put _ e => namesE e
  | .prep _ e => namesE e
  | .ife cnd t e => namesE cnd ++ namesS t ++ namesS e
  | .mtch subj ch => namesE subj ++ namesS ch
  | .arm v g body rest => namesE v ++ (match g with | some ge => namesE ge | none => []) ++ namesS body ++ namesS rest
  | .dflt body => namesS body

def dedup : List String → List String
  | [] => []
  | x :: r => x :: (dedup r).filter (· != x)

/-- fresh `integer`s: names that are neither ports, state variables nor constants, first-occurrence order -/
def newVars (c : ClassD) : List String :=
  dedup ((namesS c.body).filter fun n => !(isPort c n) && !(isState c n) && (lookup c.consts n).isNone)

def seqOf : List V.Stmt → V.Stmt
  | [] => .skip
  | [s] => s
  | s :: r => .seq s (seqOf r)

def trModule (c : ClassD) : V.Module :=
  let ins := (c.ports.filter (!·.isOut)).map fun p => ({ dir := .inp, isReg := false, width := p.width, name := p.port } : V.Port)
  let outs := (c.ports.filter (·.isOut)).map fun p => ({ dir := .out, isReg := true, width := p.width, name := p.port } : V.Port)
  let clk : List V.Port := if c.isSeq then [{ dir := .inp, isReg := false, width := 1, name := c.clk }] else []
  let ints := (c.state.map (·.1) ++ newVars c).map fun n => V.Item.int n none
  -- the `initial` block repeats EVERY constructor assignment in order (the last one wins, as in the constructed object), then gives
  -- every output register the simulator's power-up value 0 (both pipelines, /repo C02r_2 + C02r_4)
  let inits := (c.inits.map fun (n, v) => V.Stmt.ba (.lid n) (numE v)) ++
               ((c.ports.filter (·.isOut)).map fun p => V.Stmt.ba (.lid p.port) (numE 0))
  { name := c.name, params := c.params.map (·.1), ports := clk ++ ins ++ outs,
    items := ints ++ [V.Item.initial (seqOf inits), V.Item.always (if c.isSeq then .pos c.clk else .star) (trS c c.body)] }

/-! ### the fragment on which the translation is proved sound -/
def leaf : Expr → Bool
  | .const _ | .loc _ | .attr _ | .get _ | .par _ => true
  | _ => false

def isShiftOp : BinOp → Bool
  | .shl | .shr => true
  | _ => false

/-- static self-determined width of `trE c e` (mirror of `V.selfW`; integers, constants and parameters are 32 bits) -/
def sw (c : ClassD) : Expr → Nat
  | .const _ => 32
  | .loc n | .attr n => match c.port? n with | some p => p.width | none => 32
  | .get n => match c.port? n with | some p => p.width | none => 32
  | .par n => match c.port? n with | some p => p.width | none => 32
  | .un op e => match op with | .lnot => 1 | _ => sw c e
  | .bin op a b => if isShiftOp op then sw c a else max (sw c a) (sw c b)
  | .cmp _ _ _ => 1
  | .and _ _ => 1
  | .or _ _ => 1
  | .ite _ a b => max (sw c a) (sw c b)

/-- a self-determined position computes exactly: a bare leaf, or an expression at least as wide as an `integer` -/
def exact (c : ClassD) (e : Expr) : Bool := leaf e || decide (32 ≤ sw c e)

/-- boolean-valued (0/1) expressions: here Python's operand-returning `and`/`or` coincide with Verilog's `&&`/`||` -/
def isBool : Expr → Bool
  | .const v => v == 0 || v == 1
  | .cmp _ _ _ => true
  | .un .lnot _ => true
  | .and a b => isBool a && isBool b
  | .or a b => isBool a && isBool b
  | _ => false

mutual
/-- usable where the VALUE is consumed in a context at least 32 bits wide -/
def okV (c : ClassD) : Expr → Bool
  | .const v => decide (0 ≤ v)
  | .loc n => !(isPort c n) && (lookup c.consts n).isNone
  | .attr n => !(isPort c n)
  | .get n => isPort c n
  | .par n => (lookup c.params n).isSome && !(isPort c n)
  | .un .lnot e => okC c e
  | .un _ e => okV c e
  | .bin op a b => okV c a && okV c b && (!(isShiftOp op) || exact c b)
  | .cmp _ a b => okV c a && okV c b && (decide (32 ≤ max (sw c a) (sw c b)) || (leaf a && leaf b))
  | .and a b => okC c a && okC c b && isBool a && isBool b
  | .or a b => okC c a && okC c b && isBool a && isBool b
  | .ite cnd a b => okC c cnd && okV c a && okV c b
/-- usable where only the TRUTH value is consumed (if-test, operand of and/or/not, guard) -/
def okC (c : ClassD) : Expr → Bool
  | .and a b => okC c a && okC c b
  | .or a b => okC c a && okC c b
  | .un .lnot e => okC c e
  | .ite cnd a b => okV c (.ite cnd a b) && decide (32 ≤ sw c (.ite cnd a b))
  | .const v => decide (0 ≤ v)
  | .loc n => !(isPort c n) && (lookup c.consts n).isNone
  | .attr n => !(isPort c n)
  | .get n => isPort c n
  | .par n => (lookup c.params n).isSome && !(isPort c n)
  | .un op e => okV c e && decide (32 ≤ sw c (.un op e))
  | .bin op a b => okV c (.bin op a b) && decide (32 ≤ sw c (.bin op a b))
  | .cmp op a b => okV c (.cmp op a b)
end

def isOutPort (c : ClassD) (w : String) : Bool := match c.port? w with | some p => p.isOut | none => false

/-- the assignment context `max(width of the target, width of e)` is at least 32 bits, or `e` is a bare port read -/
def wideAssign (c : ClassD) (w : String) (e : Expr) : Bool :=
  (match e with | .get _ => true | _ => false) ||
  decide (32 ≤ max (match c.port? w with | some p => p.width | none => 32) (sw c e))

def isSkipS : Stmt → Bool
  | .skip => true
  | _ => false

/-- after a guarded `case k if g:` nothing can match any more: every later arm is a DIFFERENT integer constant and there is no
    `case _` (the condition under which /repo edb114b still accepts a guard: `k: if (g) body` is then exact) -/
def laterDistinct (k : Int) : Stmt → Bool
  | .arm v _ _ rest => (match v with | .const k' => k' != k | _ => false) && laterDistinct k rest
  | .dflt b => isSkipS b
  | _ => false

def guardOK (c : ClassD) (v : Expr) (g : Option Expr) (rest : Stmt) : Bool :=
  match g with
  | none => true
  | some ge => okC c ge && (match v with | .const k => laterDistinct k rest | _ => false)

/-- statement fragment; `q` = the body is a `clock()` (true: `prepare` and state assignment allowed) or a `propagate()`
    (false: `put` allowed) -/
def okSg (q : Bool) (c : ClassD) : Stmt → Bool
  | .skip => true
  | .seq a b => okSg q c a && okSg q c b
  | .setLoc n e => !(isPort c n) && !(isState c n) && (lookup c.consts n).isNone && (lookup c.params n).isNone && okV c e
  | .setAttr n e => isState c n && !(isPort c n) && (lookup c.params n).isNone && q && okV c e
  | .put w e => isOutPort c w && okV c e && wideAssign c w e     -- blocking `=` since /repo C02r_3: immediate, like Wire.put
  | .prep w e => isOutPort c w && q && okV c e && wideAssign c w e
  | .ife cnd t e => okC c cnd && okSg q c t && okSg q c e
  | .mtch subj ch => okV c subj && exact c subj && okSg q c ch
  | .arm v g body rest => guardOK c v g rest && okV c v && exact c v && okSg q c body && okSg q c rest
  | .dflt body => okSg q c body     -- no `case _` = `dflt skip`: emitted as `default:;` (null statement) since /repo b2612d8

def okS (c : ClassD) (s : Stmt) : Bool := okSg c.isSeq c s

def getsE : Expr → List String
  | .get n => [n]
  | .un _ e => getsE e
  | .bin _ a b => getsE a ++ getsE b
  | .cmp _ a b => getsE a ++ getsE b
  | .and a b => getsE a ++ getsE b
  | .or a b => getsE a ++ getsE b
  | .ite cnd a b => getsE cnd ++ getsE a ++ getsE b
  | _ => []

def getsS : Stmt → List String
  | .skip => []
  | .seq a b => getsS a ++ getsS b
  | .setLoc _ e | .setAttr _ e | .put _ e | .prep _ e => getsE e
  | .ife cnd t e => getsE cnd ++ getsS t ++ getsS e
  | .mtch subj ch => getsE subj ++ getsS ch
  | .arm v g body rest => getsE v ++ (match g with | some ge => getsE ge | none => []) ++ getsS body ++ getsS rest
  | .dflt body => getsS body

def putsS : Stmt → List String
  | .seq a b => putsS a ++ putsS b
  | .put w _ => [w]
  | .ife _ t e => putsS t ++ putsS e
  | .mtch _ ch => putsS ch
  | .arm _ _ body rest => putsS body ++ putsS rest
  | .dflt body => putsS body
  | _ => []

/-- definite-assignment analysis of a `propagate()` body: `D` = wires that have certainly been put so far in this call; a `get` of a
    wire that the body puts somewhere must find it in `D`, otherwise the call reads the value left by the PREVIOUS activation: a
    combinational feedback loop (`o.put(o.get()+1)`), whose result depends on how often the block is activated.  `none` = feedback. -/
def inter (a b : List String) : List String := a.filter (b.contains ·)

def daS (P : List String) : List String → Stmt → Option (List String)
  | D, .skip => some D
  | D, .seq a b => match daS P D a with | some D1 => daS P D1 b | none => none
  | D, .setLoc _ e => if (getsE e).all (fun w => !(P.contains w) || D.contains w) then some D else none
  | D, .setAttr _ e => if (getsE e).all (fun w => !(P.contains w) || D.contains w) then some D else none
  | D, .put w e => if (getsE e).all (fun w => !(P.contains w) || D.contains w) then some (w :: D) else none
  | D, .prep _ e => if (getsE e).all (fun w => !(P.contains w) || D.contains w) then some D else none
  | D, .ife cnd t e =>
      if (getsE cnd).all (fun w => !(P.contains w) || D.contains w) then
        match daS P D t, daS P D e with
        | some a, some b => some (inter a b)
        | _, _ => none
      else none
  | D, .mtch subj ch => if (getsE subj).all (fun w => !(P.contains w) || D.contains w) then daS P D ch else none
  | D, .arm v g body rest =>
      if (getsE v ++ (match g with | some ge => getsE ge | none => [])).all (fun w => !(P.contains w) || D.contains w) then
        match daS P D body, daS P D rest with
        | some a, some b => some (inter a b)
        | _, _ => none
      else none
  | D, .dflt body => daS P D body

def noFeedback (body : Stmt) : Bool := (daS (putsS body) [] body).isSome

def allDistinct : List String → Bool
  | [] => true
  | x :: r => !(r.contains x) && allDistinct r

/-- class-level conditions: attribute name = port name, one namespace, a combinational body never reads a wire it puts -/
def okClass (c : ClassD) : Bool :=
  c.ports.all (fun p => p.attr == p.port) &&
  allDistinct (c.ports.map (·.attr) ++ c.state.map (·.1) ++ c.consts.map (·.1) ++ c.params.map (·.1) ++ (if c.isSeq then [c.clk] else [])) &&
  (newVars c).all (fun n => !(c.params.map (·.1)).contains n && n != c.clk) &&
  c.state.all (fun (_, v) => decide (0 ≤ v)) &&
  -- `state` is what the constructor's assignments leave behind: every state value is the LAST assigned constant
  c.state.all (fun (n, v) => lastVal c.inits n == some v) && c.inits.all (fun (n, v) => isState c n && decide (0 ≤ v)) &&
  -- a combinational body must be a function of its inputs (module-level settling re-activates it until nothing changes)
  (c.isSeq || noFeedback c.body)

def supported (c : ClassD) : Bool := okClass c && okS c c.body

inductive TrErr where | unsupported
deriving Repr, DecidableEq

/-- the transpiler as it should behave: emit on the proved fragment, refuse otherwise -/
def model (c : ClassD) : Except TrErr V.Module :=
  if supported c then .ok (trModule c) else .error .unsupported

end Tp
