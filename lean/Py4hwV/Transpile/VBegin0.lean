import Py4hwV.Verilog.Run
/-
  Test-bench convention of the C02 differential (additive variant of `V.mkSim`): the py4hw simulator's wires power up at 0, so the
  bench drives every INPUT port of the top module with 0 from time 0 - BEFORE the first settling of the combinational logic.
  `V.mkSim` settles once with the inputs still unknown; an incompletely assigned `always @(*)` (a latch) then executes the branches an
  unknown condition selects and keeps what they assigned, which no event-driven simulator fed by a bench that initialises its inputs
  at time 0 would do.
-/
namespace V

def mkSim0 (d : Design) (top clk : String) : Sim :=
  let f := flatten d top
  let st : Store := f.sigs.foldl (fun s (n, i) =>
    match i.memLen with
    | some len => { s with info := s.info.insert n i, mems := s.mems.insert n (Array.replicate len (BV.x i.width)) }
    | none => { s with info := s.info.insert n i }) {}
  let st := f.inits.foldl (fun s (n, e) => s.wr (.whole n) (evalAssign s.rd (widthOf s.rd n) e)) st
  let st := st.setVal clk ⟨1, 1, true⟩
  let st := match findModule d top with
    | some m => m.ports.foldl (fun s p => if p.dir == Dir.inp && p.name != clk then s.setVal p.name ⟨p.width, 0, true⟩ else s) st
    | none => st
  let st := f.initials.foldl (fun s p => let (s', q) := runProc s p; applyNba s' q) st
  ({ flat := f, st := st, clk := clk, errors := f.errors } : Sim).settle

end V
