import Py4hwV.Transpile.VBegin0
/-
  The test-bench session of the C02 differential as FUNCTIONS (used by `Drv/C02V.lean` and by the theorems of Proofs/C02Run.lean, so
  that the end-to-end theorem speaks about what the driver executes on the real emitted text):
    begin  = `mkSim0`;  `set n v` = `setIn`;  `step 1` = `Sim.cycle`.
-/
namespace V

/-- `set <name> <value>`: drive a top-level input -/
def Sim.setIn (m : Sim) (n : String) (v : Nat) : Sim := { m with st := m.st.wr (.whole n) ⟨widthOf m.st.rd n, v, true⟩ }

/-- drive the inputs named in `asg`, then one clock cycle -/
def Sim.stepWith (m : Sim) (asg : List (String × Nat)) : Sim := (asg.foldl (fun m nv => m.setIn nv.1 nv.2) m).cycle

/-- a whole bench session on design `d`: power-up (`mkSim0`), then one `stepWith` per element of the history -/
def session (d : Design) (top clk : String) (h : List (List (String × Nat))) : Sim :=
  h.foldl Sim.stepWith (mkSim0 d top clk)

end V
