import Py4hwV.Core.PyInt
import Py4hwV.Transpile.PySyntax
/-
  Big-step semantics of the subset over Python's unbounded integers (`Int`), as CPython executes the method inside the
  py4hw simulator:
    * truthiness `v != 0`; `a and b` / `a or b` return an OPERAND (short-circuit value semantics); `not` returns 0/1;
      comparisons return 0/1 (Python `bool` is an `int`);
    * `//`, `%` floor, ZeroDivisionError on 0; `<<`, `>>` raise ValueError on a negative count; `~x = -x-1`;
    * `w.get()` reads the wire's current value; `w.put(e)` stores `e & mask` immediately; `w.prepare(e)` queues `e & mask`
      (applied by `Wire.settleAll` after every clock() of the cycle ran; the last prepare of a wire wins);
    * locals are fresh at every call, reading an unassigned local raises (UnboundLocalError);
    * `match`: subject evaluated once, first arm whose value compares equal and whose guard (if any) is truthy runs.
  No silent totalisation: every Python exception is an `Err`.
-/
namespace Tp

inductive Err where
  | zeroDiv | negShift | unbound (n : String) | noAttr (n : String) | noWire (n : String) | noParam (n : String) | shape
deriving Repr, DecidableEq, Inhabited

/-- what expressions read -/
structure Env where
  loc : String → Option Int
  att : String → Option Int      -- integer state attributes, then constructor-argument constants
  wire : String → Option Int     -- current wire values, by ATTRIBUTE name
  par : String → Option Int

def unop : UnOp → Int → Int
  | .neg, a => -a
  | .inv, a => Py.lnot a
  | .lnot, a => Py.ofBool (!Py.truthy a)

def binop : BinOp → Int → Int → Except Err Int
  | .add, a, b => .ok (a + b)
  | .sub, a, b => .ok (a - b)
  | .mul, a, b => .ok (a * b)
  | .fdiv, a, b => if b = 0 then .error .zeroDiv else .ok (Py.fdiv a b)
  | .fmod, a, b => if b = 0 then .error .zeroDiv else .ok (Py.fmod a b)
  | .band, a, b => .ok (Py.land a b)
  | .bor, a, b => .ok (Py.lor a b)
  | .bxor, a, b => .ok (Py.lxor a b)
  | .shl, a, b => if b < 0 then .error .negShift else .ok (Py.shl a b.toNat)
  | .shr, a, b => if b < 0 then .error .negShift else .ok (Py.shr a b.toNat)

def cmpop : CmpOp → Int → Int → Bool
  | .eq, a, b => a == b
  | .ne, a, b => a != b
  | .lt, a, b => decide (a < b)
  | .le, a, b => decide (a ≤ b)
  | .gt, a, b => decide (a > b)
  | .ge, a, b => decide (a ≥ b)

def eval (ρ : Env) : Expr → Except Err Int
  | .const v => .ok v
  | .loc n => match ρ.loc n with | some v => .ok v | none => .error (.unbound n)
  | .attr n => match ρ.att n with | some v => .ok v | none => .error (.noAttr n)
  | .get n => match ρ.wire n with | some v => .ok v | none => .error (.noWire n)
  | .par n => match ρ.par n with | some v => .ok v | none => .error (.noParam n)
  | .un op e => do let a ← eval ρ e; pure (unop op a)
  | .bin op a b => do let x ← eval ρ a; let y ← eval ρ b; binop op x y
  | .cmp op a b => do let x ← eval ρ a; let y ← eval ρ b; pure (Py.ofBool (cmpop op x y))
  | .and a b => do let x ← eval ρ a; if Py.truthy x then eval ρ b else pure x
  | .or a b => do let x ← eval ρ a; if Py.truthy x then pure x else eval ρ b
  | .ite c a b => do let x ← eval ρ c; if Py.truthy x then eval ρ a else eval ρ b

/-- the property's domain: the value a Verilog `integer` holds without reinterpretation -/
def inDom (v : Int) : Bool := decide (0 ≤ v) && decide (v < 2 ^ 31)

/-- `evalD ρ e = some v`: CPython evaluates `e` to `v` without raising AND every intermediate value it computes lies
    in the domain `[0, 2^31)`.  (Sub-expressions Python does not evaluate - short-circuit, unselected ternary arm - are
    not constrained.) -/
def evalD (ρ : Env) : Expr → Option Int
  | .const v => if inDom v then some v else none
  | .loc n => match ρ.loc n with | some v => if inDom v then some v else none | none => none
  | .attr n => match ρ.att n with | some v => if inDom v then some v else none | none => none
  | .get n => match ρ.wire n with | some v => if inDom v then some v else none | none => none
  | .par n => match ρ.par n with | some v => if inDom v then some v else none | none => none
  | .un op e => match evalD ρ e with
      | some a => if inDom (unop op a) then some (unop op a) else none
      | none => none
  | .bin op a b => match evalD ρ a, evalD ρ b with
      | some x, some y => match binop op x y with
          | .ok v => if inDom v then some v else none
          | .error _ => none
      | _, _ => none
  | .cmp op a b => match evalD ρ a, evalD ρ b with
      | some x, some y => some (Py.ofBool (cmpop op x y))
      | _, _ => none
  | .and a b => match evalD ρ a with
      | some x => if Py.truthy x then evalD ρ b else some x
      | none => none
  | .or a b => match evalD ρ a with
      | some x => if Py.truthy x then some x else evalD ρ b
      | none => none
  | .ite c a b => match evalD ρ c with
      | some x => if Py.truthy x then evalD ρ a else evalD ρ b
      | none => none

/-! ### statements -/

structure St where
  loc : String → Option Int
  att : String → Option Int
  wire : String → Option Int
  prep : List (String × Int)     -- queued prepares (attribute name, masked value), program order

def upd (f : String → Option Int) (n : String) (v : Int) : String → Option Int := fun k => if k == n then some v else f k

def St.env (c : ClassD) (s : St) : Env :=
  { loc := s.loc,
    att := fun n => match s.att n with | some v => some v | none => lookup c.consts n,
    wire := s.wire,
    par := lookup c.params }

def maskW (w : Nat) (v : Int) : Int := v % (2 ^ w : Nat)

def exec (c : ClassD) (sv : Option Int) : Stmt → St → Except Err St
  | .skip, s => .ok s
  | .seq a b, s => do let s1 ← exec c sv a s; exec c sv b s1
  | .setLoc n e, s => do let v ← eval (s.env c) e; pure { s with loc := upd s.loc n v }
  | .setAttr n e, s => do let v ← eval (s.env c) e; pure { s with att := upd s.att n v }
  | .put w e, s => do
      let v ← eval (s.env c) e
      match c.port? w with
      | some p => pure { s with wire := upd s.wire w (maskW p.width v) }
      | none => .error (.noWire w)
  | .prep w e, s => do
      let v ← eval (s.env c) e
      match c.port? w with
      | some p => pure { s with prep := s.prep ++ [(w, maskW p.width v)] }
      | none => .error (.noWire w)
  | .ife cnd t e, s => do
      let v ← eval (s.env c) cnd
      if Py.truthy v then exec c sv t s else exec c sv e s
  | .mtch subj ch, s => do
      let v ← eval (s.env c) subj
      exec c (some v) ch s
  | .arm v g body rest, s =>
      match sv with
      | none => .error .shape
      | some x => do
        let pv ← eval (s.env c) v
        if x == pv then
          match g with
          | none => exec c none body s
          | some ge => do
            let gv ← eval (s.env c) ge
            if Py.truthy gv then exec c none body s else exec c sv rest s
        else exec c sv rest s
  | .dflt body, s => exec c none body s

/-- power-up state of the Python object inside the simulator: attributes from the constructor, every wire 0 -/
def initSt (c : ClassD) : St :=
  { loc := fun _ => none,
    att := lookup c.state,
    wire := fun n => match c.port? n with | some _ => some 0 | none => none,
    prep := [] }

/-- power-up state with the OUTPUT wires unknown (`none`): run from here, `evalD`/`execD` fail exactly when an output is read
    before it has been written - the condition under which the x of the emitted `output reg` is unobservable (Proofs/C02Power) -/
def initStU (c : ClassD) : St :=
  { loc := fun _ => none,
    att := lookup c.state,
    wire := fun n => match c.port? n with | some p => if p.isOut then none else some 0 | none => none,
    prep := [] }

/-- `Wire.settleAll`: queued values become current, in program order (the last prepare of a wire wins) -/
def settle (s : St) : St :=
  { s with wire := s.prep.foldl (fun f (n, v) => upd f n v) s.wire, prep := [] }

/-- one `Simulator.clk(1)` seen from a single clocked block: fresh locals, clock(), settle -/
def clockCycle (c : ClassD) (s : St) : Except Err St := do
  let s1 ← exec c none c.body { s with loc := fun _ => none }
  pure (settle s1)

/-- one propagate() call of a combinational block -/
def propagate (c : ClassD) (s : St) : Except Err St :=
  exec c none c.body { s with loc := fun _ => none }

end Tp

namespace Tp

/-- `exec` restricted to the property's domain: `none` as soon as Python raises or an evaluated value leaves `[0, 2^31)`.
    (values handed to put/prepare are additionally masked by the wire, as in `exec`) -/
def execD (c : ClassD) (sv : Option Int) : Stmt → St → Option St
  | .skip, s => some s
  | .seq a b, s => match execD c sv a s with | some s1 => execD c sv b s1 | none => none
  | .setLoc n e, s => match evalD (s.env c) e with | some v => some { s with loc := upd s.loc n v } | none => none
  | .setAttr n e, s => match evalD (s.env c) e with | some v => some { s with att := upd s.att n v } | none => none
  | .put w e, s =>
      match evalD (s.env c) e, c.port? w with
      | some v, some p => some { s with wire := upd s.wire w (maskW p.width v) }
      | _, _ => none
  | .prep w e, s =>
      match evalD (s.env c) e, c.port? w with
      | some v, some p => some { s with prep := s.prep ++ [(w, maskW p.width v)] }
      | _, _ => none
  | .ife cnd t e, s =>
      match evalD (s.env c) cnd with
      | some v => if Py.truthy v then execD c sv t s else execD c sv e s
      | none => none
  | .mtch subj ch, s =>
      match evalD (s.env c) subj with
      | some v => execD c (some v) ch s
      | none => none
  | .arm v g body rest, s =>
      match sv with
      | none => none
      | some x =>
        match evalD (s.env c) v with
        | none => none
        | some pv =>
          if x == pv then
            match g with
            | none => execD c none body s
            | some ge =>
              match evalD (s.env c) ge with
              | some gv => if Py.truthy gv then execD c none body s else execD c sv rest s
              | none => none
          else execD c sv rest s
  | .dflt body, s => execD c none body s

end Tp

namespace Tp

/-- the test bench drives ports by attribute name (`Wire.put` masks) -/
def driveIn (c : ClassD) (s : St) (asg : List (String × Int)) : St :=
  asg.foldl (fun s (nv : String × Int) => match c.port? nv.1 with
    | some p => { s with wire := upd s.wire nv.1 (maskW p.width nv.2) }
    | none => s) s

/-- one in-domain `Simulator.clk(1)`: fresh locals, clock(), settle -/
def clockCycleD (c : ClassD) (s : St) : Option St :=
  (execD c none c.body { s with loc := fun _ => none }).map settle

/-- a whole input history (one list of port assignments per cycle), inside the domain -/
def runD (c : ClassD) : St → List (List (String × Int)) → Option St
  | s, [] => some s
  | s, asg :: rest => match clockCycleD c (driveIn c s asg) with
      | some s1 => runD c s1 rest
      | none => none

end Tp
