import Py4hwV.Transpile.PySyntax
import Py4hwV.Verilog.SExp
/- reader of the class-as-data S-expression written by harness/py2syntax.py, and printer of `V.Module` in the
   S-expression format of harness/vparse.py (so the model's output can be compared with the parsed real text) -/
namespace Tp
open V (SExp)

def unop? : String → Option UnOp
  | "neg" => some .neg | "inv" => some .inv | "lnot" => some .lnot | _ => none
def binop? : String → Option BinOp
  | "add" => some .add | "sub" => some .sub | "mul" => some .mul | "fdiv" => some .fdiv | "fmod" => some .fmod
  | "band" => some .band | "bor" => some .bor | "bxor" => some .bxor | "shl" => some .shl | "shr" => some .shr | _ => none
def cmpop? : String → Option CmpOp
  | "eq" => some .eq | "ne" => some .ne | "lt" => some .lt | "le" => some .le | "gt" => some .gt | "ge" => some .ge | _ => none

partial def toExpr : SExp → Option Expr
  | .list [.atom "const", v] => do some (.const (← V.int? v))
  | .list [.atom "loc", .atom n] => some (.loc n)
  | .list [.atom "attr", .atom n] => some (.attr n)
  | .list [.atom "get", .atom n] => some (.get n)
  | .list [.atom "par", .atom n] => some (.par n)
  | .list [.atom "un", .atom op, e] => do some (.un (← unop? op) (← toExpr e))
  | .list [.atom "bin", .atom op, a, b] => do some (.bin (← binop? op) (← toExpr a) (← toExpr b))
  | .list [.atom "cmp", .atom op, a, b] => do some (.cmp (← cmpop? op) (← toExpr a) (← toExpr b))
  | .list [.atom "and", a, b] => do some (.and (← toExpr a) (← toExpr b))
  | .list [.atom "or", a, b] => do some (.or (← toExpr a) (← toExpr b))
  | .list [.atom "ite", c, a, b] => do some (.ite (← toExpr c) (← toExpr a) (← toExpr b))
  | _ => none

partial def toStmt : SExp → Option Stmt
  | .list [.atom "skip"] => some .skip
  | .list [.atom "seq", a, b] => do some (.seq (← toStmt a) (← toStmt b))
  | .list [.atom "setLoc", .atom n, e] => do some (.setLoc n (← toExpr e))
  | .list [.atom "setAttr", .atom n, e] => do some (.setAttr n (← toExpr e))
  | .list [.atom "put", .atom n, e] => do some (.put n (← toExpr e))
  | .list [.atom "prep", .atom n, e] => do some (.prep n (← toExpr e))
  | .list [.atom "ife", c, t, e] => do some (.ife (← toExpr c) (← toStmt t) (← toStmt e))
  | .list [.atom "mtch", s, ch] => do some (.mtch (← toExpr s) (← toStmt ch))
  | .list [.atom "arm", v, .list [.atom "none"], b, r] => do some (.arm (← toExpr v) none (← toStmt b) (← toStmt r))
  | .list [.atom "arm", v, .list [.atom "some", g], b, r] => do some (.arm (← toExpr v) (some (← toExpr g)) (← toStmt b) (← toStmt r))
  | .list [.atom "dflt", b] => do some (.dflt (← toStmt b))
  | _ => none

def toPairsI : List SExp → Option (List (String × Int))
  | [] => some []
  | .list [.atom "s", .atom n, v] :: r => do some ((n, ← V.int? v) :: (← toPairsI r))
  | _ => none

def toPortD : SExp → Option PortD
  | .list [.atom "port", .atom a, .atom p, w, o] => do some { attr := a, port := p, width := ← V.nat? w, isOut := (← V.nat? o) != 0 }
  | _ => none

def toClass : SExp → Option ClassD
  | .list [.atom "class", .atom n, .list (.atom "ports" :: ps), .list (.atom "state" :: st), .list (.atom "inits" :: ini), .list (.atom "consts" :: cs),
           .list (.atom "params" :: pr), sq, .atom clk, body] => do
      some { name := n, ports := ← ps.mapM toPortD, state := ← toPairsI st, inits := ← toPairsI ini, consts := ← toPairsI cs, params := ← toPairsI pr,
             isSeq := (← V.nat? sq) != 0, clk := clk, body := ← toStmt body }
  | _ => none

def readClass (s : String) : Option ClassD := (V.readS s).bind toClass

/-! printer (vparse.sexp format) -/
def sx (l : List String) : String := "(" ++ " ".intercalate l ++ ")"

def pE : V.Expr → String
  | .id n => sx ["id", n]
  | .num w s v k => sx ["num", (match w with | some w => toString w | none => "-1"), (if s then "1" else "0"), toString v, (if k then "1" else "0")]
  | .un op e => sx ["un", op, pE e]
  | .bin op a b => sx ["bin", op, pE a, pE b]
  | .tern c a b => sx ["tern", pE c, pE a, pE b]
  | .cat a b => sx ["cat", pE a, pE b]
  | .cat1 a => sx ["cat1", pE a]
  | .rep n e => sx ["rep", toString n, pE e]
  | .idx n i => sx ["idx", n, pE i]
  | .rng n h l => sx ["rng", n, toString h, toString l]
  | .sgn e => sx ["sgn", pE e]
  | .usg e => sx ["usg", pE e]

def pL : V.LHS → String
  | .lid n => sx ["lid", n]
  | .lidx n i => sx ["lidx", n, pE i]
  | .lrng n h l => sx ["lrng", n, toString h, toString l]

def pS : V.Stmt → String
  | .skip => "(skip)"
  | .seq a b => sx ["seq", pS a, pS b]
  | .ife c t e => sx ["ife", pE c, pS t, pS e]
  | .nba l e => sx ["nba", pL l, pE e]
  | .ba l e => sx ["ba", pL l, pE e]
  | .case e ch => sx ["case", pE e, pS ch]
  | .arm v s r => sx ["arm", pE v, pS s, pS r]
  | .dflt s => sx ["dflt", pS s]

def pEv : V.Event → String
  | .pos c => sx ["pos", c] | .neg c => sx ["neg", c] | .star => "(star)"

def pItem : V.Item → String
  | .int n none => sx ["int", n]
  | .int n (some e) => sx ["inti", n, pE e]
  | .initial s => sx ["initial", pS s]
  | .always ev s => sx ["always", pEv ev, pS s]
  | .wire n w => sx ["wire", n, toString w]
  | .reg n w none => sx ["reg", n, toString w]
  | .reg n w (some e) => sx ["regi", n, toString w, pE e]
  | .mem n w lo hi => sx ["mem", n, toString w, toString lo, toString hi]
  | .assign l e => sx ["assign", pL l, pE e]
  | .inst m i _ _ => sx ["inst", m, i]

def pPort (p : V.Port) : String :=
  sx ["port", (match p.dir with | .inp => "in" | .out => "out" | .inout => "inout"), (if p.isReg then "1" else "0"), toString p.width, p.name]

def pModule (m : V.Module) : String :=
  sx ["module", m.name, sx ("params" :: m.params), sx ("ports" :: m.ports.map pPort), sx ("items" :: m.items.map pItem)]

end Tp
