import Py4hwV.Transpile.Model
/- WHY a class is outside `Tp.supported`: one tag per violated conjunct.  The harness uses the tags as the class predicate of
   the known findings (complement of the hypothesis of the `_partial`/sound theorems) and checks on every class that
   `reasons c = [] ↔ supported c`. -/
namespace Tp

def tagIf (b : Bool) (t : String) : List String := if b then [t] else []

mutual
def whyV (c : ClassD) : Expr → List String
  | .const v => tagIf (decide (v < 0)) "neg-const"
  | .loc n => tagIf (isPort c n || (lookup c.consts n).isSome) "name-clash"
  | .attr n => tagIf (isPort c n) "port-as-value"
  | .get n => tagIf (!(isPort c n)) "get-non-port"
  | .par n => tagIf ((lookup c.params n).isNone) "no-param"
  | .un .lnot e => whyC c e
  | .un _ e => whyV c e
  | .bin op a b => whyV c a ++ whyV c b ++ tagIf (isShiftOp op && !(exact c b)) "narrow-shift"
  | .cmp _ a b => whyV c a ++ whyV c b ++
                   tagIf (!(decide (32 ≤ max (sw c a) (sw c b)) || (leaf a && leaf b))) "narrow-compare"
  | .and a b => whyC c a ++ whyC c b ++ tagIf (!(isBool a && isBool b)) "bool-value"
  | .or a b => whyC c a ++ whyC c b ++ tagIf (!(isBool a && isBool b)) "bool-value"
  | .ite cnd a b => whyC c cnd ++ whyV c a ++ whyV c b
def whyC (c : ClassD) : Expr → List String
  | .and a b => whyC c a ++ whyC c b
  | .or a b => whyC c a ++ whyC c b
  | .un .lnot e => whyC c e
  | .ite cnd a b => whyV c (.ite cnd a b) ++ tagIf (!(decide (32 ≤ sw c (.ite cnd a b)))) "narrow-test"
  | .const v => tagIf (decide (v < 0)) "neg-const"
  | .loc n => tagIf (isPort c n || (lookup c.consts n).isSome) "name-clash"
  | .attr n => tagIf (isPort c n) "port-as-value"
  | .get n => tagIf (!(isPort c n)) "get-non-port"
  | .par n => tagIf ((lookup c.params n).isNone) "no-param"
  | .un op e => whyV c e ++ tagIf (!(decide (32 ≤ sw c (.un op e)))) "narrow-test"
  | .bin op a b => whyV c (.bin op a b) ++ tagIf (!(decide (32 ≤ sw c (.bin op a b)))) "narrow-test"
  | .cmp op a b => whyV c (.cmp op a b)
end

def whyS (c : ClassD) : Stmt → List String
  | .skip => []
  | .seq a b => whyS c a ++ whyS c b
  | .setLoc n e => tagIf (isPort c n || isState c n || (lookup c.consts n).isSome || (lookup c.params n).isSome) "name-clash" ++ whyV c e
  | .setAttr n e => tagIf (!(isState c n)) "new-attr" ++ tagIf (isPort c n || (lookup c.params n).isSome) "name-clash" ++
      tagIf (!c.isSeq) "state-in-comb" ++ whyV c e
  | .put w e => tagIf (!(isOutPort c w)) "write-non-output" ++ whyV c e ++
      tagIf (!(wideAssign c w e)) "narrow-assign"
  | .prep w e => tagIf (!(isOutPort c w)) "write-non-output" ++ tagIf (!c.isSeq) "prepare-in-propagate" ++ whyV c e ++
      tagIf (!(wideAssign c w e)) "narrow-assign"
  | .ife cnd t e => whyC c cnd ++ whyS c t ++ whyS c e
  | .mtch subj ch => whyV c subj ++ tagIf (!(exact c subj)) "narrow-subject" ++ whyS c ch
  | .arm v g body rest => tagIf (g.isSome && !(match v with | .const k => laterDistinct k rest | _ => false)) "case-guard" ++
      (match g with | some ge => whyC c ge | none => []) ++
      whyV c v ++ tagIf (!(exact c v)) "narrow-subject" ++ whyS c body ++ whyS c rest
  | .dflt body => whyS c body

def whyClass (c : ClassD) : List String :=
  tagIf (!(c.ports.all (fun p => p.attr == p.port))) "attr-ne-port" ++
  tagIf (!(allDistinct (c.ports.map (·.attr) ++ c.state.map (·.1) ++ c.consts.map (·.1) ++ c.params.map (·.1) ++ (if c.isSeq then [c.clk] else [])))) "name-clash" ++
  tagIf (!((newVars c).all (fun n => !(c.params.map (·.1)).contains n && n != c.clk))) "name-clash" ++
  tagIf (!(c.state.all (fun (_, v) => decide (0 ≤ v)) && c.inits.all (fun (_, v) => decide (0 ≤ v)))) "neg-const" ++
  tagIf (!(c.state.all (fun (n, v) => lastVal c.inits n == some v) && c.inits.all (fun (n, _) => isState c n))) "init-mismatch" ++
  tagIf (!(c.isSeq || noFeedback c.body)) "comb-feedback"

def reasons (c : ClassD) : List String := dedup (whyClass c ++ whyS c c.body)

end Tp
