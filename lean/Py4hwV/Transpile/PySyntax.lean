/-
  The Python subset that py4hw's Python->Verilog transpiler accepts for `clock()` / `propagate()` bodies, as DATA.
  (property C02).  Written by harness/py2syntax.py from the real class source (S-expression, reader in PyRead.lean).

  Front-end conventions (harness/py2syntax.py):
    * `x op= e` is `x = x op (e)`; `elif` is a nested `ife`; an n-ary `a and b and c` is a binary tree (Python's
      `and`/`or` are associative in value semantics); `ord('c')`, `True/False` are integer constants;
    * a `match` is a chain `arm … arm dflt` (no `case _` = `dflt skip`), value patterns only, optional guard.
  Core-only imports.
-/
namespace Tp

inductive UnOp where | neg | inv | lnot
deriving Repr, DecidableEq, Inhabited

inductive BinOp where | add | sub | mul | fdiv | fmod | band | bor | bxor | shl | shr
deriving Repr, DecidableEq, Inhabited

inductive CmpOp where | eq | ne | lt | le | gt | ge
deriving Repr, DecidableEq, Inhabited

inductive Expr where
  | const (v : Int)
  | loc (n : String)                 -- local variable
  | attr (n : String)                -- self.n  (integer state attribute, or constructor argument kept as constant)
  | get (n : String)                 -- self.n.get()   (n = ATTRIBUTE name of the wire)
  | par (n : String)                 -- self.getParameterValue('n')
  | un (op : UnOp) (e : Expr)
  | bin (op : BinOp) (a b : Expr)
  | cmp (op : CmpOp) (a b : Expr)
  | and (a b : Expr)
  | or (a b : Expr)
  | ite (c a b : Expr)               -- a if c else b
deriving Repr, Inhabited, BEq

inductive Stmt where
  | skip
  | seq (a b : Stmt)
  | setLoc (n : String) (e : Expr)   -- n = e
  | setAttr (n : String) (e : Expr)  -- self.n = e
  | put (w : String) (e : Expr)      -- self.w.put(e)
  | prep (w : String) (e : Expr)     -- self.w.prepare(e)
  | ife (c : Expr) (t e : Stmt)
  | mtch (subj : Expr) (chain : Stmt)
  | arm (v : Expr) (g : Option Expr) (body rest : Stmt)
  | dflt (body : Stmt)
deriving Repr, Inhabited, BEq

structure PortD where
  attr : String      -- attribute name used in the method bodies  (self.<attr> = self.addIn('<port>', w))
  port : String      -- port name (the name in the module header)
  width : Nat
  isOut : Bool
deriving Repr, Inhabited, BEq

/-- a behavioural class instance: what the constructor established + one method body -/
structure ClassD where
  name : String
  ports : List PortD                 -- constructor order
  state : List (String × Int)        -- integer state attributes with the value the constructed object HOLDS (the last constant
                                     -- assigned in __init__), first-assignment order, one entry per name
  inits : List (String × Int)        -- EVERY `self.x = <int constant>` of __init__, in order (a name may be assigned several times)
  consts : List (String × Int)       -- self.x = <constructor argument>: value substituted as a constant
  params : List (String × Int)       -- addParameter(name, value)
  isSeq : Bool                       -- clock() (true) or propagate() (false)
  clk : String
  body : Stmt
deriving Repr, Inhabited

def lookup {α : Type} (l : List (String × α)) (n : String) : Option α :=
  match l with
  | [] => none
  | (k, v) :: r => if k == n then some v else lookup r n

/-- value of the LAST assignment to `n` in a list of assignments -/
def lastVal : List (String × Int) → String → Option Int
  | [], _ => none
  | (k, v) :: r, n => match lastVal r n with
      | some w => some w
      | none => if k == n then some v else none

def ClassD.port? (c : ClassD) (a : String) : Option PortD := c.ports.find? (·.attr == a)

end Tp
