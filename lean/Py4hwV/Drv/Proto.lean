/-
  Line protocol shared by all drivers (`lake env lean --run Drv/<X>.lean < ops.txt`).
  One request per line, one answer per line.  Encoding of values:
    int            decimal, optional leading '-'
    int list       comma separated, empty string = []
    list of lists  ';' separated
    fields         '|' separated
-/
namespace Proto

def trim (s : String) : String := s.trimAscii.toString

def parseInt? (s : String) : Option Int := (trim s).toInt?

def parseInts (s : String) : List Int :=
  if (trim s).isEmpty then [] else ((trim s).splitOn ",").filterMap parseInt?

def parseNats (s : String) : List Nat := (parseInts s).map Int.toNat

def parseLists (s : String) : List (List Int) :=
  if (trim s).isEmpty then [] else ((trim s).splitOn ";").map parseInts

def parsePairs (s : String) : List (Int × Int) :=
  if (trim s).isEmpty then [] else
    ((trim s).splitOn ",").filterMap fun p =>
      match p.splitOn ":" with
      | [a, b] => match parseInt? a, parseInt? b with
                  | some x, some y => some (x, y)
                  | _, _ => none
      | _ => none

def parsePairLists (s : String) : List (List (Int × Int)) :=
  if (trim s).isEmpty then [] else ((trim s).splitOn ";").map parsePairs

def fields (s : String) : List String := (s.splitOn "|").map trim

def showInts (l : List Int) : String := ",".intercalate (l.map toString)
def showNats (l : List Nat) : String := ",".intercalate (l.map toString)
def showLists (l : List (List Int)) : String := ";".intercalate (l.map showInts)
def showOpt (o : Option Int) : String := match o with | some v => toString v | none => "_"
def showOpts (l : List (Option Int)) : String := ",".intercalate (l.map showOpt)
def showOptLists (l : List (Option (List Int))) : String :=
  ";".intercalate (l.map fun o => match o with | some v => showInts v | none => "_")
def showBool (b : Bool) : String := if b then "1" else "0"

/-- generic read-eval-print loop -/
partial def loop (h : IO.FS.Stream) (out : IO.FS.Stream) (f : String → String) : IO Unit := do
  let line ← h.getLine
  if line.isEmpty then return ()
  out.putStrLn (f (trim line))
  loop h out f

def run (f : String → String) : IO Unit := do
  let i ← IO.getStdin
  let o ← IO.getStdout
  loop i o f
  o.flush

end Proto
