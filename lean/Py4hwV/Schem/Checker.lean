import Py4hwV.Schem.Spec
/-
  C18 — the executable layout checker.  `check d L : List Err`; `check d L = []` ⇔ `Holds d L`
  (Props/C18.lean: `checker_sound`, `checker_complete`).
  Every clause is a labelled Bool; the labels only serve the failing-input report.
-/
namespace Schem

inductive WErr
  | badEnd | stray | driverUntouched | readerUntouched | logDisconnected | unrouted | diagonal | geoDisconnected | foreignPin
  deriving Repr, DecidableEq

inductive Err
  | symCount (k : Kind)          -- not exactly one symbol for an existing child / port
  | symKind (k : Nat)            -- objs[k] is neither a marker nor a child / port of this block
  | notPlaced (k : Nat)          -- objs[k] is not in the symbol_matrix cell it claims
  | badCell (r c : Nat)          -- symbol_matrix[r][c] holds something that does not claim that cell
  | overlap (i j : Nat)          -- two instance / port symbols share a cell or overlap in pixels
  | netWire (idx : Nat)          -- nets[idx] is for a wire that is not used in the block
  | markerShared (k : Nat)       -- marker objs[k] is used by nets of different wires
  | wire (w : Nat) (e : WErr)
  deriving Repr, DecidableEq

/- ---------------------------------------------------------------- connectivity of a finite family -/
section Closure
variable {α : Type} [DecidableEq α]

/-- x is (equal to or) joined to something in the frontier -/
def near (adj : α → α → Bool) (frontier : List α) (x : α) : Bool := frontier.any fun y => y == x || adj y x || adj x y

/-- breadth-first search: what is left of `rest` when nothing more can be reached from `frontier` -/
def unreached (adj : α → α → Bool) : Nat → List α → List α → List α
  | 0, rest, _ => rest
  | n + 1, rest, frontier =>
    let hit := rest.filter (near adj frontier)
    if hit.isEmpty then rest else unreached adj n (rest.filter fun x => !near adj frontier x) hit

/-- everything in xs is reachable from the first element -/
def connectedB (adj : α → α → Bool) (xs : List α) : Bool :=
  match xs with
  | [] => true
  | x :: tl => (unreached adj tl.length tl [x]).isEmpty

end Closure

/- ---------------------------------------------------------------- clauses -/
def Design.realKinds (d : Design) : List Kind :=
  (List.range d.insts.length).map Kind.inst ++ (List.range d.inp.length).map Kind.inPort ++
  (List.range d.outp.length).map Kind.outPort

def apartB (a b : Sym) : Bool :=
  decide (a.x + a.w ≤ b.x) || decide (b.x + b.w ≤ a.x) || decide (a.y + a.h ≤ b.y) || decide (b.y + b.h ≤ a.y)

def symKindB (d : Design) (L : Layout) (k : Nat) : Bool :=
  match L.syms[k]? with
  | some s => s.kind != .other && (!s.kind.isReal || d.hasKind s.kind)
  | none => true

def placedB (L : Layout) (k : Nat) : Bool :=
  match L.syms[k]? with
  | some s => (match s.cell with | some (r, c) => L.cellAt r c == some k | none => false)
  | none => true

def cellB (L : Layout) (r c : Nat) : Bool :=
  match L.cellAt r c with
  | some k => (match L.syms[k]? with | some s => s.cell == some (r, c) | none => false)
  | none => true

/-- the instance / port symbols with their index in objs -/
def Layout.reals (L : Layout) : List (Nat × Sym) :=
  (List.range L.syms.size).filterMap fun i =>
    match L.syms[i]? with
    | some s => if s.kind.isReal then some (i, s) else none
    | none => none

def overlapB (ia jb : Nat × Sym) : Bool := ia.1 == jb.1 || (ia.2.cell != jb.2.cell && apartB ia.2 jb.2)

def markerB (L : Layout) (k : Nat) : Bool :=
  match (L.nets.filter fun n => L.usesMarker n k).map (·.wire) with
  | [] => true
  | w0 :: rest => rest.all (· == w0)

def driverB (d : Design) (L : Layout) (ns : List Net) (w : Nat) : Bool :=
  (d.readers w).isEmpty || (d.drivers w).all fun p =>
    ns.any fun n => L.srcEnd n == .pin p && (L.pinPos p).isSome && n.path.head? == L.pinPos p

def readersB (d : Design) (L : Layout) (ns : List Net) (w : Nat) : Bool :=
  (d.readers w).all fun q =>
    ns.any fun n => L.snkEnd n == .pin q && (L.pinPos q).isSome && n.path.getLast? == L.pinPos q

/-- wire and pixel position of every pin, computed once -/
def pinTable (d : Design) (L : Layout) : List (Option Nat × Option Pt) := d.pins.map fun p => (d.wireOf p, L.pinPos p)

def foreignB (tbl : List (Option Nat × Option Pt)) (fig : List Seg) (w : Nat) : Bool :=
  tbl.all fun e =>
    match e with
    | (some w', some pt) => w' == w || fig.all fun s => !s.on pt
    | _ => true

def wireClausesOn (d : Design) (L : Layout) (tbl : List (Option Nat × Option Pt)) (w : Nat) (ns : List Net) (fig : List Seg) :
    List (Err × Bool) :=
  [ (.wire w .badEnd, ns.all fun n => srcOk d w (L.srcEnd n) && snkOk d w (L.snkEnd n)),
    (.wire w .stray, !(d.readers w).isEmpty || ns.isEmpty),
    (.wire w .driverUntouched, driverB d L ns w),
    (.wire w .readerUntouched, readersB d L ns w),
    (.wire w .logDisconnected, connectedB L.netAdj ns),
    (.wire w .unrouted, ns.all fun n => decide (2 ≤ n.path.length)),
    (.wire w .diagonal, fig.all Seg.ortho),
    (.wire w .geoDisconnected, connectedB Seg.touch fig),
    (.wire w .foreignPin, foreignB tbl fig w) ]

def wireClauses (d : Design) (L : Layout) (tbl : List (Option Nat × Option Pt)) (w : Nat) : List (Err × Bool) :=
  wireClausesOn d L tbl w (L.netsOf w) (L.figure w)

def matCells (L : Layout) : List (Nat × Nat) :=
  (List.range L.mat.length).flatMap fun r => (List.range ((L.mat[r]?).getD []).length).map fun c => (r, c)

def clauses (d : Design) (L : Layout) : List (Err × Bool) :=
  d.realKinds.map (fun k => (Err.symCount k, (L.syms.toList.filter (·.kind == k)).length == 1)) ++
  (List.range L.syms.size).map (fun k => (Err.symKind k, symKindB d L k)) ++
  (List.range L.syms.size).map (fun k => (Err.notPlaced k, placedB L k)) ++
  (matCells L).map (fun rc => (Err.badCell rc.1 rc.2, cellB L rc.1 rc.2)) ++
  (L.reals.flatMap fun ia => L.reals.map fun jb => (Err.overlap ia.1 jb.1, overlapB ia jb)) ++
  (List.range L.nets.length).map (fun i => (Err.netWire i, match L.nets[i]? with | some n => d.usedList.contains n.wire | none => true)) ++
  (List.range L.syms.size).map (fun k => (Err.markerShared k, markerB L k)) ++
  d.usedList.flatMap (wireClauses d L (pinTable d L))

/-- the checker: labels of the clauses that fail -/
def check (d : Design) (L : Layout) : List Err :=
  (clauses d L).filterMap fun c => if c.2 then none else some c.1

end Schem
