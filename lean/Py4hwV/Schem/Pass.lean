import Py4hwV.Schem.Column
/-
  C18 — hand models of `createNets` (py4hw/schematic.py:1722-1749) and of `passthroughCreation` / `insertPassthrough` /
  `insertFeedback` (:957-1245) as transformers of (objs, symbol_matrix, nets).

  Objects are numbered as in `objs`: inputs, children, outputs (the `nb` base objects), then the markers in creation order.

  createNets: one net per sink tuple (children's in ports in order, then the block's out ports), its source is the FIRST source
  tuple carrying the same wire (`findSourceTuple`).

  passthroughCreation walks the columns left to right and each column top to bottom; for every instance / port symbol S it takes
  `getAllInstanceSinks(S)` — a Python *set*, so its iteration order is not a function of the netlist — and for every sink T
      T.c >  S.c + 1 : insertPassthrough(S, T)     T.c <= S.c : insertFeedback(S, T)
  Rows are only ever inserted below the symbol being processed or at the bottom and hold markers only, so the walk visits exactly
  the instance / port symbols of the matrix it started with, column by column, top to bottom: that is how `jobs` lists them.
  insertPassthrough / insertFeedback loop over `Intersection(source wires of S, sink wires of T)`, again a set.
  Both iteration orders are INPUTS of the model (`sinkOrd`, `wireOrd`; the harness records them from the real run and the
  driver checks that they are permutations of the sets the model computes); every theorem holds for all orders.

  The always-false test `np.all(symbol_matrix[...] is None)` of insertPassthrough is modelled as what it does: a new row is
  inserted for every wire.  Python exceptions are `Except` errors (placeAndRoute swallows them and goes on with what is there).
-/
namespace Schem.Pass

structure PNet where
  wire : Nat
  src : Nat
  sp : Option Nat
  snk : Nat
  tp : Option Nat
  deriving Repr, DecidableEq

inductive MK | pass | fbStart | fbStop
  deriving Repr, DecidableEq

inductive Err
  | noSource        -- findSourceTuple: 'Could not find a source to wire'
  | notInRemove     -- '… not in remove nets'
  | multiple        -- 'Muliple nets between source and sink'
  | assertSinkcol   -- assert(sinkcol > 0)
  | noPos           -- a symbol without grid position (AttributeError)
  deriving Repr, DecidableEq

abbrev Mat := List (List (Option Nat))

structure PS where
  nb : Nat
  marks : List MK
  mat : Mat
  nets : List PNet
  deriving Repr

def PS.nobjs (st : PS) : Nat := st.nb + st.marks.length

/- ---------------------------------------------------------------- createNets -/
def nI (d : Design) : Nat := d.inp.length
def nB (d : Design) : Nat := d.inp.length + d.insts.length + d.outp.length

/-- self.sources: (object, port, wire) -/
def srcTable (d : Design) : List (Nat × Nat × Nat) :=
  (List.range d.inp.length).filterMap (fun p => (d.inp[p]?).map fun w => (p, 0, w)) ++
  (List.range d.insts.length).flatMap fun k =>
    match d.insts[k]? with
    | some inst => (List.range inst.outs.length).filterMap fun o => (inst.outs[o]?).map fun w => (nI d + k, o, w)
    | none => []

/-- self.sinks: (object, port, wire) -/
def snkTable (d : Design) : List (Nat × Nat × Nat) :=
  ((List.range d.insts.length).flatMap fun j =>
    match d.insts[j]? with
    | some inst => (List.range inst.ins.length).filterMap fun p => (inst.ins[p]?).map fun w => (nI d + j, p, w)
    | none => []) ++
  (List.range d.outp.length).filterMap fun q => (d.outp[q]?).map fun w => (nI d + d.insts.length + q, 0, w)

def createNets (d : Design) : Except Err (List PNet) :=
  (snkTable d).mapM fun t =>
    match (srcTable d).find? (fun s => s.2.2 == t.2.2) with
    | some s => .ok { wire := t.2.2, src := s.1, sp := some s.2.1, snk := t.1, tp := some t.2.1 }
    | none => .error .noSource

/- ---------------------------------------------------------------- matrix operations -/
def ncols (m : Mat) : Nat := ((m.head?).map List.length).getD 0

/-- (r, c) of object k -/
def posOf (m : Mat) (k : Nat) : Option (Nat × Nat) :=
  (m.zipIdx.findSome? fun ri => (ri.1.zipIdx.find? fun ci => ci.1 == some k).map fun ci => (ri.2, ci.2))

/-- np.insert(symbol_matrix, r, empty_row, axis=0) -/
def insertRow (m : Mat) (r : Nat) : Mat := m.take r ++ [List.replicate (ncols m) none] ++ m.drop r

/-- _expand_symbol_matrix(nr, nc): grow, never shrink -/
def expand (m : Mat) (nr nc : Nat) : Mat :=
  let c := max nc (ncols m)
  (m.map fun row => row ++ List.replicate (c - row.length) none) ++ List.replicate (nr - m.length) (List.replicate c none)

def setCell (m : Mat) (r c k : Nat) : Mat := m.modify r fun row => row.set c (some k)

/-- the unique net (wire, S, T) to be replaced; the two exceptions of the code otherwise -/
def takeNet (nets : List PNet) (w S T : Nat) : Except Err (PNet × List PNet) :=
  match nets.filter (fun n => n.wire == w && n.src == S && n.snk == T) with
  | [] => .error .notInRemove
  | [n] => .ok (n, nets.erase n)
  | _ => .error .multiple

/-- the `for col in range(sourcecol+1, sinkcol)` loop of insertPassthrough -/
def passChain (w r : Nat) : List Nat → PS → Nat → Option Nat → PS × Nat
  | [], st, last, _ => (st, last)
  | col :: cols, st, last, lastPort =>
    let pts := st.nobjs
    passChain w r cols
      { st with marks := st.marks ++ [MK.pass], mat := setCell st.mat r col pts,
                nets := st.nets ++ [{ wire := w, src := last, sp := lastPort, snk := pts, tp := none }] } pts none

/-- body of `for wire in intersection` in insertPassthrough; r is the running row variable -/
def passWire (S T sc tc : Nat) (acc : PS × Nat) (w : Nat) : Except Err (PS × Nat) := do
  let (net, rest) ← takeNet acc.1.nets w S T
  let r := acc.2 + 1
  let st1 : PS := { acc.1 with nets := rest, mat := insertRow acc.1.mat r }
  let (st2, last) := passChain w r ((List.range (tc - sc - 1)).map (· + sc + 1)) st1 S net.sp
  .ok ({ st2 with nets := st2.nets ++ [{ wire := w, src := last, sp := none, snk := T, tp := net.tp }] }, r)

/-- the `for col in range(sourcecol, sinkcol-1, -1)` loop of insertFeedback -/
def feedChain (w r : Nat) : List Nat → PS → Nat → PS × Nat
  | [], st, last => (st, last)
  | col :: cols, st, last =>
    let pts := st.nobjs
    feedChain w r cols
      { st with marks := st.marks ++ [MK.pass], mat := setCell st.mat r col pts,
                nets := st.nets ++ [{ wire := w, src := pts, sp := none, snk := last, tp := none }] } pts

/-- body of `for wire in intersection` in insertFeedback -/
def feedWire (S T sc tc : Nat) (st : PS) (w : Nat) : Except Err PS := do
  let (net, rest) ← takeNet st.nets w S T
  let r := st.mat.length
  let a := st.nobjs
  let st1 : PS := { st with nets := rest ++ [{ wire := w, src := S, sp := net.sp, snk := a, tp := none }],
                            marks := st.marks ++ [MK.fbStart], mat := setCell (expand st.mat (r + 1) (sc + 2)) r (sc + 1) a }
  let (st2, last) := feedChain w r ((List.range (sc + 1 - tc)).map (sc - ·)) st1 a
  let z := st2.nobjs
  if tc = 0 then .error .assertSinkcol
  else
    .ok { st2 with marks := st2.marks ++ [MK.fbStop], mat := setCell st2.mat r (tc - 1) z,
                   nets := st2.nets ++ [{ wire := w, src := z, sp := none, snk := last, tp := none },
                                        { wire := w, src := z, sp := none, snk := T, tp := net.tp }] }

/-- one (S, T) pair of passthroughCreation, with the wires of the intersection in iteration order -/
def pairJob (st : PS) (S T : Nat) (ws : List Nat) : Except Err PS :=
  match posOf st.mat S, posOf st.mat T with
  | some (rs, sc), some (_, tc) =>
    if sc + 1 < tc then (ws.foldlM (passWire S T sc tc) (st, rs)).map (·.1)
    else if tc ≤ sc then ws.foldlM (feedWire S T sc (if sc = tc then tc - 1 else tc)) st
    else .ok st
  | _, _ => .error .noPos

/- ---------------------------------------------------------------- the sets whose iteration order is an input -/
def dedup (l : List Nat) : List Nat := l.foldl (fun acc x => if acc.contains x then acc else acc ++ [x]) []

/-- getAllInstanceSinks(S) as a duplicate-free list (first-occurrence order) -/
def sinksOf (d : Design) (S : Nat) : List Nat :=
  dedup (((srcTable d).filter fun s => s.1 == S).flatMap fun s => ((snkTable d).filter fun t => t.2.2 == s.2.2).map (·.1))

/-- Intersection(getWiresFromSource(S), getWiresFromSink(T)) as a duplicate-free list -/
def wiresBetween (d : Design) (S T : Nat) : List Nat :=
  dedup ((((srcTable d).filter fun s => s.1 == S).map (·.2.2)).filter fun w => ((snkTable d).any fun t => t.1 == T && t.2.2 == w))

def isPerm (a b : List Nat) : Bool := a.length == b.length && a.all b.contains && b.all a.contains

/-- the instance / port symbols of the matrix, column by column, top to bottom -/
def scanOrder (m : Mat) (nb : Nat) : List Nat :=
  (List.range (ncols m)).flatMap fun c => m.filterMap fun row => ((row[c]?).join).filter (· < nb)

def orderOf (ord : List (Nat × List Nat)) (S : Nat) (dflt : List Nat) : List Nat := (ord.lookup S).getD dflt

def wiresOf (ord : List ((Nat × Nat) × List Nat)) (S T : Nat) (dflt : List Nat) : List Nat :=
  ((ord.find? fun e => e.1.1 == S && e.1.2 == T).map (·.2)).getD dflt

/-- the (S, T, wires) pairs in the order passthroughCreation handles them -/
def jobs (d : Design) (m0 : Mat) (sinkOrd : List (Nat × List Nat)) (wireOrd : List ((Nat × Nat) × List Nat)) : List (Nat × Nat × List Nat) :=
  (scanOrder m0 (nB d)).flatMap fun S => (orderOf sinkOrd S (sinksOf d S)).map fun T => (S, T, wiresOf wireOrd S T (wiresBetween d S T))

def runJobs : List (Nat × Nat × List Nat) → PS → Except Err PS
  | [], st => .ok st
  | (S, T, ws) :: rest, st => do
    let st' ← pairJob st S T ws
    runJobs rest st'

/-- createNets followed by passthroughCreation on matrix m0 -/
def passthroughCreationOn (d : Design) (m0 : Mat) (sinkOrd : List (Nat × List Nat)) (wireOrd : List ((Nat × Nat) × List Nat)) : Except Err PS := do
  let nets ← createNets d
  runJobs (jobs d m0 sinkOrd wireOrd) { nb := nB d, marks := [], mat := m0, nets := nets }

/-- createNets followed by passthroughCreation on the matrix columnAssignment produced -/
def passthroughCreation (d : Design) (sinkOrd : List (Nat × List Nat)) (wireOrd : List ((Nat × Nat) × List Nat)) : Except Err PS :=
  passthroughCreationOn d (Column.colMatrix d) sinkOrd wireOrd

/-- every job is between instance / port symbols (never a marker) -/
def jobsBase (d : Design) (m0 : Mat) (sinkOrd : List (Nat × List Nat)) (wireOrd : List ((Nat × Nat) × List Nat)) : Bool :=
  (jobs d m0 sinkOrd wireOrd).all fun j => decide (j.1 < nB d) && decide (j.2.1 < nB d)

/-- are the recorded iteration orders permutations of the sets they iterate (and all jobs between instance / port symbols) -/
def ordersOk (d : Design) (sinkOrd : List (Nat × List Nat)) (wireOrd : List ((Nat × Nat) × List Nat)) : Bool :=
  (sinkOrd.all fun e => isPerm e.2 (sinksOf d e.1)) && (wireOrd.all fun e => isPerm e.2 (wiresBetween d e.1.1 e.1.2)) &&
  jobsBase d (Column.colMatrixFast d) sinkOrd wireOrd

end Schem.Pass
