import Py4hwV.Schem.Place
/-
  C18 — hand models of `Schematic.trackAssignment` (py4hw/schematic.py:635-701) and `routeNetSquare` (:2055-2108).

  trackAssignment, per column c:
      netsInCol = [n for n in nets if n.source.c == c]
      key(n)    = (direction == 'up', |sink.r - source.r|)          -- 'up' iff sink.r < source.r
      sort netsInCol by key (Python's sort: stable)
      walk the sorted list: a net whose wire already has a track in this channel reuses it, otherwise it takes the next one
      channels[c]['tracks'] = number of tracks handed out
  routeNetSquare:
      mp_x = source.x + channels[source.c]['sourcewidth'] + NET_SPACING + track*NET_TRACK_SPACING
      source is a FeedbackStop :  (mp_x, p0.y) (mp_x, pf.y) (pf.x, pf.y)
      sink is a FeedbackStart  :  (p0.x, p0.y) (mp_x, p0.y) (mp_x, pf.y)
      otherwise                :  (p0.x, p0.y) (mp_x, p0.y) (mp_x, pf.y) (pf.x, pf.y)
  Tied to the code on every run (stream `track-route-model`): tracks, channel counts and every polyline of the real
  result are compared with these functions evaluated on the real final symbol_matrix / pins.
-/
namespace Schem.Track

/-- what trackAssignment reads of a net: wire, cell of the source symbol, row of the sink symbol -/
structure TNet where
  wire : Nat
  sr : Nat
  sc : Nat
  tr : Nat
  deriving Repr, DecidableEq

def key (n : TNet) : Bool × Nat := (decide (n.tr < n.sr), if n.tr < n.sr then n.sr - n.tr else n.tr - n.sr)

/-- the order of `net_directions.sort(key=…)`: False before True, then magnitude -/
def keyLe (a b : Bool × Nat) : Bool :=
  match a.1, b.1 with
  | false, true => true
  | true, false => false
  | _, _ => decide (a.2 ≤ b.2)

/-- one step of the walk: (assoc list wire ↦ track, next free track, tracks given so far as (net index, track)) -/
def assignStep (acc : List (Nat × Nat) × Nat × List (Nat × Nat)) (e : Nat × TNet) : List (Nat × Nat) × Nat × List (Nat × Nat) :=
  match acc.1.lookup e.2.wire with
  | some t => (acc.1, acc.2.1, acc.2.2 ++ [(e.1, t)])
  | none => ((e.2.wire, acc.2.1) :: acc.1, acc.2.1 + 1, acc.2.2 ++ [(e.1, acc.2.1)])

/-- stable insertion sort by key (Python's list.sort is stable; structural recursion so that the kernel can evaluate it) -/
def ins (x : Nat × TNet) : List (Nat × TNet) → List (Nat × TNet)
  | [] => [x]
  | y :: ys => if keyLe (key x.2) (key y.2) then x :: y :: ys else y :: ins x ys

def sortByKey (l : List (Nat × TNet)) : List (Nat × TNet) := l.foldr ins []

/-- the nets whose source sits in column c, with their index in `nets`, in the order the walk sees them -/
def inColumn (nets : List TNet) (c : Nat) : List (Nat × TNet) :=
  sortByKey ((nets.zipIdx.map fun p => (p.2, p.1)).filter fun e => e.2.sc == c)

/-- trackAssignment for one column: (tracks handed out, (net index, track) pairs) -/
def assignColumn (nets : List TNet) (c : Nat) : Nat × List (Nat × Nat) :=
  let r := (inColumn nets c).foldl assignStep ([], 0, [])
  (r.2.1, r.2.2)

/-- track of net number i (none: its source column is outside the matrix) -/
def trackOf (nets : List TNet) (i : Nat) : Option Nat :=
  match nets[i]? with
  | some n => (assignColumn nets n.sc).2.lookup i
  | none => none

def tracksOfColumn (nets : List TNet) (c : Nat) : Nat := (assignColumn nets c).1

/- ---------------------------------------------------------------- routeNetSquare -/
inductive RKind | stopSource | startSink | plain
  deriving Repr, DecidableEq

def mpx (cfg : Place.Cfg) (srcX sw : Int) (track : Nat) : Int := srcX + sw + cfg.ns + (track : Int) * cfg.ts

def route (cfg : Place.Cfg) (k : RKind) (p0 pf : Pt) (srcX sw : Int) (track : Nat) : List Pt :=
  let m := mpx cfg srcX sw track
  match k with
  | .stopSource => [(m, p0.2), (m, pf.2), (pf.1, pf.2)]
  | .startSink => [(p0.1, p0.2), (m, p0.2), (m, pf.2)]
  | .plain => [(p0.1, p0.2), (m, p0.2), (m, pf.2), (pf.1, pf.2)]

end Schem.Track
