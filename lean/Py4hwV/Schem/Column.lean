import Py4hwV.Schem.Layout
/-
  C18 — hand model of `Schematic.columnAssignment` (py4hw/schematic.py:866-951) as a function on the netlist.

      levels = {input symbols: 0};  visiting_state = {}
      def get_level(obj):                                   -- DFS, longest path, cycles cut where they are met
          if obj in levels: return levels[obj]
          if visiting_state.get(obj) == 1: return -1
          visiting_state[obj] = 1
          m = 0
          for src in getAllInstanceSources(obj):            -- every source tuple whose wire is on an input port, port order then
              if src == obj: continue                       --   self.sources order (inputs first, then children's out ports)
              l = get_level(src)
              if l != -1: m = max(m, l)
          levels[obj] = m + 1;  visiting_state[obj] = 2;  return m + 1
      for obj in instances: if obj not in levels: get_level(obj)
      columns: 0 -> inputs;  level l (1..max) -> instances of that level IF ANY;  max+1 -> outputs
      col_idx runs over ALL keys of columns_dict (column 0 and the output column are taken even when empty),
      symbol_matrix[row_idx, col_idx] = sym   (matrix grows only when something is placed)

  Objects are numbered as in `objs` at that point: inputs, then children, then outputs.
  Tied to the code on every run: the harness snapshots symbol_matrix right after the real columnAssignment and
  compares it with `colMatrix` (stream `column-model`).
-/
namespace Schem.Column

/-- a source symbol: a block input port or a child -/
inductive Src
  | input (p : Nat)
  | inst (k : Nat)
  deriving Repr, DecidableEq

/-- `self.sources` after placeInputPorts / placeInstances: (symbol, wire) in list order -/
def sourceTable (d : Design) : List (Src × Nat) :=
  (List.range d.inp.length).filterMap (fun p => (d.inp[p]?).map fun w => (Src.input p, w)) ++
  (List.range d.insts.length).flatMap fun k =>
    match d.insts[k]? with
    | some inst => inst.outs.map fun w => (Src.inst k, w)
    | none => []

/-- getAllInstanceSources of child j -/
def instSrcs (d : Design) (j : Nat) : List Src :=
  match d.insts[j]? with
  | some inst => inst.ins.flatMap fun w => ((sourceTable d).filter fun e => e.2 == w).map (·.1)
  | none => []

structure St where
  lv : Nat → Option Nat       -- `levels` restricted to children
  stack : List Nat            -- children with visiting_state == 1

def upd (f : Nat → Option Nat) (j v : Nat) : Nat → Option Nat := fun x => if x = j then some v else f x

/-- the loop over the sources of j; `rec` is get_level -/
def foldSrcs (rec : St → Nat → St × Option Nat) (j : Nat) : List Src → St × Nat → St × Nat
  | [], acc => acc
  | Src.input _ :: rest, acc => foldSrcs rec j rest acc            -- levels[input] = 0, max(m, 0) = m
  | Src.inst k :: rest, acc =>
    if k = j then foldSrcs rec j rest acc
    else
      let r := rec acc.1 k
      foldSrcs rec j rest (r.1, match r.2 with | some v => max acc.2 v | none => acc.2)

/-- get_level with recursion depth bounded by fuel (`none` = -1) -/
def getLevel (d : Design) : Nat → St → Nat → St × Option Nat
  | 0, st, _ => (st, none)
  | f + 1, st, j =>
    match st.lv j with
    | some l => (st, some l)
    | none =>
      if j ∈ st.stack then (st, none)
      else
        let r := foldSrcs (getLevel d f) j (instSrcs d j) ({ st with stack := j :: st.stack }, 0)
        ({ lv := upd r.1.lv j (r.2 + 1), stack := st.stack }, some (r.2 + 1))

/-- `for obj in instances: if obj not in levels: get_level(obj)` -/
def runAll (d : Design) : List Nat → St → St
  | [], st => st
  | j :: rest, st => runAll d rest (getLevel d (d.insts.length + 1) st j).1

def levels (d : Design) : Nat → Option Nat :=
  (runAll d (List.range d.insts.length) { lv := fun _ => none, stack := [] }).lv

def levelOf (d : Design) (j : Nat) : Nat := (levels d j).getD 0

def maxLevel (d : Design) : Nat := (List.range d.insts.length).foldl (fun m j => max m (levelOf d j)) 0

/-- children of level l, in instance order -/
def levelGroup (d : Design) (l : Nat) : List Nat := (List.range d.insts.length).filter fun j => levelOf d j == l

/-- the column groups, as object indices (inputs, children, outputs): column 0, the non-empty levels, the output column -/
def groups (d : Design) : List (List Nat) :=
  [List.range d.inp.length] ++
  ((List.range (maxLevel d)).map (fun i => (levelGroup d (i + 1)).map (· + d.inp.length))).filter (fun g => !g.isEmpty) ++
  [(List.range d.outp.length).map (· + d.inp.length + d.insts.length)]

/-- symbol_matrix after columnAssignment: as many rows as the longest group, columns up to the last non-empty group -/
def colMatrix (d : Design) : List (List (Option Nat)) :=
  let gs := groups d
  let nr := gs.foldl (fun m g => max m g.length) 0
  let nc := (gs.zipIdx.foldl (fun m gi => if gi.1.isEmpty then m else gi.2 + 1) 0)
  (List.range nr).map fun r => (List.range nc).map fun c => ((gs[c]?).bind (·[r]?))

/- the same matrix computed with ONE run of the levelling (what the driver executes; `colMatrixFast_eq` proves it equal) -/
def levelList (d : Design) : List Nat :=
  let st := runAll d (List.range d.insts.length) { lv := fun _ => none, stack := [] }
  (List.range d.insts.length).map fun j => (st.lv j).getD 0

def groupsOn (d : Design) (lv : List Nat) : List (List Nat) :=
  let ml := lv.foldl max 0
  [List.range d.inp.length] ++
  ((List.range ml).map (fun i => ((List.range d.insts.length).filter fun j => (lv[j]?).getD 0 == i + 1).map (· + d.inp.length))).filter (fun g => !g.isEmpty) ++
  [(List.range d.outp.length).map (· + d.inp.length + d.insts.length)]

def matrixOf (gs : List (List Nat)) : List (List (Option Nat)) :=
  let nr := gs.foldl (fun m g => max m g.length) 0
  let nc := (gs.zipIdx.foldl (fun m gi => if gi.1.isEmpty then m else gi.2 + 1) 0)
  (List.range nr).map fun r => (List.range nc).map fun c => ((gs[c]?).bind (·[r]?))

def colMatrixFast (d : Design) : List (List (Option Nat)) := matrixOf (groupsOn d (levelList d))

/-- column index of child j in the matrix: 1 + number of non-empty levels below its own -/
def colOf (d : Design) (j : Nat) : Nat :=
  1 + ((List.range (levelOf d j - 1)).filter fun i => !(levelGroup d (i + 1)).isEmpty).length

end Schem.Column
