import Py4hwV.Schem.Layout
/-
  C18 — hand model of the pin geometry and the sizes of every symbol class of py4hw/schematic_symbols.py:
  `getPortSinkPos`, `getPortSourcePos`, `getWidth`, `getHeight` as functions of the symbol class, the port lists of
  the drawn object (port NAMES, because most lookups compare names) and — for the classes that keep LogicSymbol.getWidth —
  the text-dependent `instanceWidth` (a parameter; `computeWidth` = int(1.5·out + 50 + 1.5·in) is never below 50).

  Reads like the Python:
      selidx = -1
      for idx, port in enumerate(self.obj.inPorts):
          if port.name == refport.name: selidx = idx          -- the LAST port of that name  (`lastIdx`)
      if selidx == -1: raise                                   -- `none`
      return (x(selidx), y(selidx))
  LogicSymbol.getPortSinkPos compares the port OBJECTS (`port == portref`) — the index itself; every other lookup compares names.
  Symbols that ignore the port they are asked for (Not, Bit, Range, And/Or/Nor/Xor/Mux2 output, the port symbols, the
  markers, MissingConnectionSymbol) answer for every argument.
  `int(math.cos(math.pi/4)*25)` = 17 is a constant of the model (tied, like everything here, by the `pin-model` stream).

  Tied to the code on every run (harness/c18.py): (a) the real methods evaluated on instantiated symbols for every class ×
  port counts up to a bound (duplicate names and foreign ports included), (b) every symbol of every explored layout.
-/
namespace Schem.Pins

/-- the concrete classes of schematic_symbols.py (AddSymbol / SubSymbol / MulSymbol differ only in the operator text) -/
inductive Cls
  | inst | reg | scope | buf            -- pins of LogicSymbol; InstanceSymbol, RegSymbol, ScopeSymbol, BufSymbol
  | binop                                    -- AddSymbol, SubSymbol, MulSymbol  (BinaryOperatorSymbol)
  | and_ | or_ | nor | xor | not_ | bit | range | mux2
  | inPort | outPort | inOutPort
  | pass | fbStart | fbStop | missing
  deriving Repr, DecidableEq

/-- what a symbol's geometry depends on -/
structure Shape where
  cls  : Cls
  iw   : Int            -- LogicSymbol.instanceWidth (computeWidth, from the text extents of the port names)
  ins  : List Nat       -- names of obj.inPorts, in order   ([] for port symbols and markers: their obj has no inPorts)
  outs : List Nat       -- names of obj.outPorts
  deriving Repr, DecidableEq

def namemargin : Int := 8
def portmargin : Int := 8
def portpitch : Int := 28
def instanceportheight : Int := 10

/-- the lookup loop: `selidx` (acc) after visiting the ports from index idx on -/
def lastIdxGo (nm : Nat) : List Nat → Nat → Option Nat → Option Nat
  | [], _, acc => acc
  | x :: xs, idx, acc => lastIdxGo nm xs (idx + 1) (if x = nm then some idx else acc)

/-- `selidx` after the loop: the LAST index whose name is `nm`; none = -1 = the method raises -/
def lastIdx (names : List Nat) (nm : Nat) : Option Nat := lastIdxGo nm names 0 none

def Shape.width (s : Shape) : Int :=
  match s.cls with
  | .inst => s.iw
  | .reg => 65 | .scope => 80 | .buf => 20 | .binop => 50 | .and_ => 50 | .or_ => 50 | .nor => 65 | .xor => 50 + 10
  | .not_ => 40 | .bit => 20 | .range => 20 | .mux2 => 20 | .inPort => 15 | .outPort => 15 | .inOutPort => 20
  | .pass => 20 | .fbStart => 20 | .fbStop => 20 | .missing => 30

/-- LogicSymbol.getHeight: room for the longer of the two port lists -/
def Shape.genericHeight (s : Shape) : Int := namemargin + 2 * portmargin + (max s.ins.length s.outs.length : Nat) * portpitch

def Shape.height (s : Shape) : Int :=
  match s.cls with
  | .inst | .reg => s.genericHeight
  | .scope => max 80 s.genericHeight                                  -- repaired in /repo 0891c9c (was: 80)
  | .buf => 20 | .binop => 50 + namemargin
  | .and_ | .or_ => namemargin + 20 * (s.ins.length : Int)          -- self.h = 20 * nins
  | .nor | .xor => namemargin + 40
  | .not_ => 30 | .bit => 20 | .range => 20 | .mux2 => namemargin + 20 * 3
  | .inPort => 20 | .outPort => 20 | .inOutPort => 20
  | .pass => 20 | .fbStart => 20 | .fbStop => 20 | .missing => 22

/-- HISTORY (defect C18-scope-pin-below-box, fixed by /repo 0891c9c): before the repair ScopeSymbol.getHeight returned 80 whatever
    the number of inputs -/
def oldScopeHeight : Int := 80

/-- the height function of the tree BEFORE 0891c9c -/
def Shape.oldHeight (s : Shape) : Int :=
  match s.cls with
  | .scope => oldScopeHeight
  | _ => s.height

/-- y of port number `sel` of a LogicSymbol -/
def genericY (sel : Nat) : Int := namemargin + portmargin + (sel : Int) * portpitch + instanceportheight / 2

/-- `getPortSinkPos` asked for input port number i of the object (offset from the symbol's x, y); none = raises -/
def Shape.sinkPos (s : Shape) (i : Nat) : Option Pt :=
  match s.cls with
  | .inst | .reg | .scope | .buf | .inPort =>           -- LogicSymbol.getPortSinkPos: port == portref
    if i < s.ins.length then some (0, genericY i) else none
  | .binop =>
    ((s.ins[i]?).bind (lastIdx s.ins)).map fun (sel : Nat) => (25 - 17, namemargin + 25 + (if sel = 0 then -17 else 17))
  | .and_ | .or_ =>
    ((s.ins[i]?).bind (lastIdx s.ins)).map fun (sel : Nat) => (5, namemargin + (10 + (sel : Int) * 20))
  | .nor | .xor =>
    ((s.ins[i]?).bind (lastIdx s.ins)).map fun (sel : Nat) => (5, namemargin + (if sel = 0 then 40 / 2 - 10 else 40 / 2 + 10))
  | .mux2 =>
    ((s.ins[i]?).bind (lastIdx s.ins)).map fun (sel : Nat) => (0, namemargin + (if sel = 0 then 10 else if sel = 1 then 30 else 50))
  | .not_ => some (0, namemargin + 25)
  | .bit | .range => some (0, namemargin + 10)
  | .outPort | .inOutPort => some (0, namemargin + 5)
  | .pass | .fbStart | .fbStop => some (0, 20 / 2)
  | .missing => some (0, 22 / 2)

/-- `getPortSourcePos` asked for output port number i of the object; none = raises -/
def Shape.srcPos (s : Shape) (i : Nat) : Option Pt :=
  match s.cls with
  | .inst | .reg | .scope | .buf | .binop | .outPort =>  -- LogicSymbol.getPortSourcePos: port.name == refport.name
    ((s.outs[i]?).bind (lastIdx s.outs)).map fun (sel : Nat) => (s.width, genericY sel)
  | .and_ | .or_ => some (s.width, namemargin + 20 * (s.ins.length : Int) / 2)
  | .nor | .xor => some (s.width, namemargin + 40 / 2)
  | .not_ => some (s.width, namemargin + 25)
  | .bit | .range => some (10, namemargin + 10)
  | .mux2 => some (s.width, namemargin + 40)
  | .inPort | .inOutPort => some (s.width, namemargin + 5)
  | .pass | .fbStart | .fbStop => some (20, 20 / 2)
  | .missing => some (30, 22 / 2)

/-- a pin of one symbol -/
inductive PinRef
  | inp (i : Nat) | out (i : Nat)
  deriving Repr, DecidableEq

/-- the pins a symbol has: one per port of the drawn object -/
def Shape.valid (s : Shape) : PinRef → Prop
  | .inp i => i < s.ins.length
  | .out i => i < s.outs.length

def Shape.pos (s : Shape) : PinRef → Option Pt
  | .inp i => s.sinkPos i
  | .out i => s.srcPos i

/-- distinct pins of the symbol have distinct positions -/
def Shape.Injective (s : Shape) : Prop :=
  ∀ p q pt, s.valid p → s.valid q → s.pos p = some pt → s.pos q = some pt → p = q

/-- the port counts for which the class can tell all its pins apart (`pins_injective_iff`) -/
def Shape.Fits (s : Shape) : Prop :=
  match s.cls with
  | .inst => s.iw ≠ 0 ∨ s.ins = [] ∨ s.outs = []
  | .reg | .scope | .buf => True
  | .binop => s.ins.length ≤ 2
  | .and_ | .or_ => s.outs.length ≤ 1
  | .nor | .xor => s.ins.length ≤ 2 ∧ s.outs.length ≤ 1
  | .mux2 => s.ins.length ≤ 3 ∧ s.outs.length ≤ 1
  | .inPort => s.outs.length ≤ 1
  | .outPort => s.ins.length ≤ 1
  | .not_ | .bit | .range | .inOutPort | .pass | .fbStart | .fbStop | .missing => s.ins.length ≤ 1 ∧ s.outs.length ≤ 1

/-- the port lists the library's constructors can give the object drawn with each class (Schematic.mapping):
    Add (2–3 in, 1–2 out) / Sub / Mul → binop, And2 / And → and_, Or2 / Or → or_, Nor2 → nor, Xor2 → xor, Not, Bit, Range, Buf,
    Mux2, Reg (d, enable?, reset? / q), Scope / Waveform (no outputs), anything else → instance; a port symbol draws one port,
    a marker has one way in and one way out.  Checked for every symbol of every explored layout. -/
def Shape.Realizable (s : Shape) : Prop :=
  match s.cls with
  | .inst => 50 ≤ s.iw
  | .reg => 1 ≤ s.ins.length ∧ s.ins.length ≤ 3 ∧ s.outs.length = 1
  | .scope => s.outs.length = 0
  | .buf | .not_ | .bit | .range => s.ins.length = 1 ∧ s.outs.length = 1
  | .binop => 2 ≤ s.ins.length ∧ s.ins.length ≤ 3 ∧ 1 ≤ s.outs.length ∧ s.outs.length ≤ 2
  | .and_ | .or_ => s.outs.length = 1
  | .nor | .xor => s.ins.length = 2 ∧ s.outs.length = 1
  | .mux2 => s.ins.length = 3 ∧ s.outs.length = 1
  | .inPort => s.ins.length = 0 ∧ s.outs.length = 1
  | .outPort => s.ins.length = 1 ∧ s.outs.length = 0
  | .inOutPort => False
  | .pass | .fbStart | .fbStop => s.ins.length = 1 ∧ s.outs.length = 1
  | .missing => False

/-- slack below the box that replaceAsColRow's vertical margin (15) absorbs: NotSymbol reports height 30 and pins at y+33,
    BufSymbol height 20 and pins at y+21 -/
def slack : Int := 3

/-- every pin lies inside the symbol's own box (closed, `slack` pixels added below) -/
def Shape.InBox (s : Shape) : Prop :=
  ∀ p pt, s.valid p → s.pos p = some pt → 0 ≤ pt.1 ∧ pt.1 ≤ s.width ∧ 0 ≤ pt.2 ∧ pt.2 ≤ s.height + slack

/-- the same statement for the height function before 0891c9c -/
def Shape.OldInBox (s : Shape) : Prop :=
  ∀ p pt, s.valid p → s.pos p = some pt → 0 ≤ pt.1 ∧ pt.1 ≤ s.width ∧ 0 ≤ pt.2 ∧ pt.2 ≤ s.oldHeight + slack

/-- the port counts for which that holds (since 0891c9c no condition on ScopeSymbol; every remaining condition is implied by
    `Realizable`: a Buf has one port each side, the round symbol at most two outputs, a port symbol draws one port) -/
def Shape.Tidy (s : Shape) : Prop :=
  match s.cls with
  | .buf => s.ins.length ≤ 1 ∧ s.outs.length ≤ 1
  | .binop => s.outs.length ≤ 2
  | .inst => 0 ≤ s.iw
  | .inPort => s.ins.length ≤ 1
  | .outPort => s.outs.length ≤ 1
  | _ => True

/- executable forms for the driver -/
def clsOfNat : Nat → Option Cls
  | 0 => some .inst | 1 => some .reg | 2 => some .scope | 3 => some .buf | 4 => some .binop | 5 => some .and_ | 6 => some .or_
  | 7 => some .nor | 8 => some .xor | 9 => some .not_ | 10 => some .bit | 11 => some .range | 12 => some .mux2 | 13 => some .inPort
  | 14 => some .outPort | 15 => some .inOutPort | 16 => some .pass | 17 => some .fbStart | 18 => some .fbStop | 19 => some .missing
  | _ => none

def Shape.fitsB (s : Shape) : Bool :=
  match s.cls with
  | .inst => s.iw != 0 || s.ins.isEmpty || s.outs.isEmpty
  | .reg | .scope | .buf => true
  | .binop => s.ins.length ≤ 2
  | .and_ | .or_ => s.outs.length ≤ 1
  | .nor | .xor => s.ins.length ≤ 2 && s.outs.length ≤ 1
  | .mux2 => s.ins.length ≤ 3 && s.outs.length ≤ 1
  | .inPort => s.outs.length ≤ 1
  | .outPort => s.ins.length ≤ 1
  | .not_ | .bit | .range | .inOutPort | .pass | .fbStart | .fbStop | .missing => s.ins.length ≤ 1 && s.outs.length ≤ 1

def Shape.realizableB (s : Shape) : Bool :=
  match s.cls with
  | .inst => 50 ≤ s.iw
  | .reg => 1 ≤ s.ins.length && s.ins.length ≤ 3 && s.outs.length == 1
  | .scope => s.outs.length == 0
  | .buf | .not_ | .bit | .range => s.ins.length == 1 && s.outs.length == 1
  | .binop => 2 ≤ s.ins.length && s.ins.length ≤ 3 && 1 ≤ s.outs.length && s.outs.length ≤ 2
  | .and_ | .or_ => s.outs.length == 1
  | .nor | .xor => s.ins.length == 2 && s.outs.length == 1
  | .mux2 => s.ins.length == 3 && s.outs.length == 1
  | .inPort => s.ins.length == 0 && s.outs.length == 1
  | .outPort => s.ins.length == 1 && s.outs.length == 0
  | .inOutPort => false
  | .pass | .fbStart | .fbStop => s.ins.length == 1 && s.outs.length == 1
  | .missing => false

def Shape.tidyB (s : Shape) : Bool :=
  match s.cls with
  | .buf => s.ins.length ≤ 1 && s.outs.length ≤ 1
  | .binop => s.outs.length ≤ 2
  | .inst => 0 ≤ s.iw
  | .inPort => s.ins.length ≤ 1
  | .outPort => s.outs.length ≤ 1
  | _ => true

end Schem.Pins
