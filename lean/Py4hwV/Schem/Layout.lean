/-
  C18 — data the schematic property talks about (core Lean only).

  `Design`  : the netlist of ONE structural block as the property reads it (children, their ports, the block's
              ports, wire identities).  Exported by the harness from the real `Logic` object (children/inPorts/outPorts),
              independently of schematic.py.
  `Layout`  : what `Schematic(obj, placeAndRoute=True)` left behind: `objs` (symbols with grid cell, pixel box and the
              pixel position of every pin as computed by the symbol's own getPortSinkPos/getPortSourcePos),
              `symbol_matrix`, `nets` (wire, source symbol/port, sink symbol/port, routed polyline).
  No place-and-route algorithm is modelled here: these are the observation types of a translation validator.
-/
namespace Schem

abbrev Pt := Int × Int

structure Inst where
  ins  : List Nat      -- wire id of every input port, in `inPorts` order
  outs : List Nat      -- wire id of every output port, in `outPorts` order
  deriving Repr, DecidableEq

structure Design where
  insts : List Inst    -- `obj.children.values()` in order
  inp   : List Nat     -- wire of every block input port
  outp  : List Nat     -- wire of every block output port
  deriving Repr, DecidableEq

/-- a pin of the circuit that exists -/
inductive Pin
  | instOut (i p : Nat)    -- output port p of child i      (drives)
  | instIn  (i p : Nat)    -- input port p of child i       (reads)
  | blockIn (p : Nat)      -- block input port p            (drives, seen from inside)
  | blockOut (p : Nat)     -- block output port p           (reads)
  deriving Repr, DecidableEq

def Pin.isDriver : Pin → Bool
  | .instOut _ _ => true
  | .blockIn _ => true
  | _ => false

def Design.wireOf (d : Design) : Pin → Option Nat
  | .instOut i p => (d.insts[i]?).bind (·.outs[p]?)
  | .instIn i p  => (d.insts[i]?).bind (·.ins[p]?)
  | .blockIn p   => d.inp[p]?
  | .blockOut p  => d.outp[p]?

/-- every pin that exists (enumeration used by the checker; `mem_pins` shows it is complete) -/
def Design.pins (d : Design) : List Pin :=
  ((List.range d.insts.length).flatMap fun i =>
      match d.insts[i]? with
      | some inst => (List.range inst.outs.length).map (Pin.instOut i) ++ (List.range inst.ins.length).map (Pin.instIn i)
      | none => [])
  ++ (List.range d.inp.length).map Pin.blockIn ++ (List.range d.outp.length).map Pin.blockOut

/-- wires used inside the block (with repetitions removed) -/
def Design.usedList (d : Design) : List Nat :=
  (d.pins.filterMap d.wireOf).foldr List.insert []

def Design.drivers (d : Design) (w : Nat) : List Pin := d.pins.filter fun p => p.isDriver && d.wireOf p == some w
def Design.readers (d : Design) (w : Nat) : List Pin := d.pins.filter fun p => !p.isDriver && d.wireOf p == some w

/-- the property's premise, executable: every used wire has exactly one driving pin -/
def Design.wellDrivenB (d : Design) : Bool := d.usedList.all fun w => (d.drivers w).length == 1

/-- symbol kinds: the three that stand for something of the circuit, the three markers, anything else
    (MissingConnectionSymbol, InOutPortSymbol, a symbol whose object is not a child / port of this block) -/
inductive Kind
  | inst (i : Nat) | inPort (p : Nat) | outPort (p : Nat) | pass | fbStart | fbStop | other
  deriving Repr, DecidableEq

def Kind.isReal : Kind → Bool
  | .inst _ | .inPort _ | .outPort _ => true
  | _ => false

def Kind.isMarker : Kind → Bool
  | .pass | .fbStart | .fbStop => true
  | _ => false

structure Sym where
  kind  : Kind
  cell  : Option (Nat × Nat)      -- (r, c) attributes; none = never placed on the grid
  x : Int
  y : Int
  w : Int
  h : Int
  ipins : List (Option Pt)        -- absolute pixel position of input pin p (none = position function raised)
  opins : List (Option Pt)
  deriving Repr, DecidableEq

structure Net where
  wire : Nat                      -- wire id (a value ≥ number of wires = not a wire of this block)
  src  : Nat                      -- index into objs (out of range = not in objs)
  sp   : Option Nat               -- index of sourcePort among the source object's out ports (none = None / not found)
  snk  : Nat
  tp   : Option Nat
  path : List Pt                  -- routed polyline ([] = not routed)
  deriving Repr, DecidableEq

structure Layout where
  syms : Array Sym                -- Schematic.objs
  mat  : List (List (Option Nat)) -- Schematic.symbol_matrix, entries are indices into objs
  nets : List Net                 -- Schematic.nets
  deriving Repr, DecidableEq

def Layout.cellAt (L : Layout) (r c : Nat) : Option Nat := ((L.mat[r]?).bind (·[c]?)).join

/-- the design may contain kind k -/
def Design.hasKind (d : Design) : Kind → Bool
  | .inst i => i < d.insts.length
  | .inPort p => p < d.inp.length
  | .outPort p => p < d.outp.length
  | _ => false

/-- what one end of a net is attached to -/
inductive End
  | pin (p : Pin)          -- a pin of the circuit
  | marker (k : Nat)       -- pass-through / feedback marker number k of objs
  | bad                    -- nothing legitimate (unknown symbol, missing port, an output-port symbol used as source, …)
  deriving Repr, DecidableEq

def Layout.srcEnd (L : Layout) (n : Net) : End :=
  match L.syms[n.src]? with
  | none => .bad
  | some s =>
    match s.kind, n.sp with
    | .inst i, some p => .pin (.instOut i p)
    | .inPort p, some 0 => .pin (.blockIn p)
    | .pass, _ | .fbStart, _ | .fbStop, _ => .marker n.src
    | _, _ => .bad

def Layout.snkEnd (L : Layout) (n : Net) : End :=
  match L.syms[n.snk]? with
  | none => .bad
  | some s =>
    match s.kind, n.tp with
    | .inst i, some p => .pin (.instIn i p)
    | .outPort p, some 0 => .pin (.blockOut p)
    | .pass, _ | .fbStart, _ | .fbStop, _ => .marker n.snk
    | _, _ => .bad

/-- first symbol of a kind (THE symbol once clause 1 holds) -/
def Layout.symOf (L : Layout) (k : Kind) : Option Sym := L.syms.toList.find? (·.kind == k)

/-- pixel position of a pin of the circuit: the position the symbol's own pin function reports -/
def Layout.pinPos (L : Layout) : Pin → Option Pt
  | .instOut i p => ((L.symOf (.inst i)).bind (·.opins[p]?)).join
  | .instIn i p  => ((L.symOf (.inst i)).bind (·.ipins[p]?)).join
  | .blockIn p   => ((L.symOf (.inPort p)).bind (·.opins[0]?)).join
  | .blockOut p  => ((L.symOf (.outPort p)).bind (·.ipins[0]?)).join

/-- a drawn straight segment -/
abbrev Seg := Pt × Pt

def segsOfPath : List Pt → List Seg
  | a :: b :: rest => (a, b) :: segsOfPath (b :: rest)
  | _ => []

def Seg.ortho (s : Seg) : Bool := s.1.1 == s.2.1 || s.1.2 == s.2.2

/-- p lies on the (axis-parallel) segment s: inside its bounding box -/
def Seg.on (s : Seg) (p : Pt) : Bool :=
  min s.1.1 s.2.1 ≤ p.1 && p.1 ≤ max s.1.1 s.2.1 && min s.1.2 s.2.2 ≤ p.2 && p.2 ≤ max s.1.2 s.2.2

/-- two axis-parallel segments share a point ⇔ their bounding boxes meet -/
def Seg.touch (a b : Seg) : Bool :=
  max (min a.1.1 a.2.1) (min b.1.1 b.2.1) ≤ min (max a.1.1 a.2.1) (max b.1.1 b.2.1) &&
  max (min a.1.2 a.2.2) (min b.1.2 b.2.2) ≤ min (max a.1.2 a.2.2) (max b.1.2 b.2.2)

def Layout.netsOf (L : Layout) (w : Nat) : List Net := L.nets.filter (·.wire == w)

/-- is marker k an end of net n -/
def Layout.usesMarker (L : Layout) (n : Net) (k : Nat) : Bool := L.srcEnd n == .marker k || L.snkEnd n == .marker k

/-- the glyph a pass-through marker draws: the line from its input pin to its output pin (feedback markers draw nothing) -/
def Sym.glyph (s : Sym) : List Seg :=
  match s.kind, s.ipins, s.opins with
  | .pass, [some a], [some b] => [(a, b)]
  | _, _, _ => []

/-- what is drawn at an end of a net besides the polyline: the glyph of the marker it attaches to -/
def Layout.endGlyph (L : Layout) : End → List Seg
  | .marker k => match L.syms[k]? with
                 | some s => s.glyph
                 | none => []
  | _ => []

/-- everything drawn for wire w: the polylines of its nets and the glyphs of the pass-through markers they attach to -/
def Layout.figure (L : Layout) (w : Nat) : List Seg :=
  (L.netsOf w).flatMap fun n => segsOfPath n.path ++ L.endGlyph (L.srcEnd n) ++ L.endGlyph (L.snkEnd n)

end Schem
