import Py4hwV.Schem.Layout
/-
  C18 — hand model of `Schematic.replaceAsColRow` (py4hw/schematic.py:2155-2220), the grid-to-pixel placement:

      current_y = GRID_SIZE*3
      for r: every symbol of row r gets y = current_y;  current_y += max height in row r (0 if empty) + CELL_MARGIN_VERTICAL
      x = 0
      for c: every symbol of column c gets x;  x += max width in column c + CELL_MARGIN_HORIZONTAL
             if c < len(channels): x += tracks[c]*NET_TRACK_SPACING (+ NET_SPACING when that is > 0)

  (`feedback_tracks` is never set anywhere in schematic.py, so that term is 0; the harness checks that it is absent.)
  Tied to the code on every run: the harness feeds symbol_matrix sizes and channels to `place` and compares the
  result with the x / y of every real symbol.
-/
namespace Schem.Place

structure Cfg where
  gs : Int      -- GRID_SIZE
  mv : Int      -- CELL_MARGIN_VERTICAL
  mh : Int      -- CELL_MARGIN_HORIZONTAL
  ns : Int      -- NET_SPACING
  ts : Int      -- NET_TRACK_SPACING
  deriving Repr

/-- the constants of the pinned tree -/
def Cfg.std : Cfg := { gs := 5, mv := 15, mh := 5, ns := 15, ts := 10 }

/-- (width, height) of the symbol in a cell, none = empty cell -/
abbrev Cell := Option (Int × Int)

def rowH (row : List Cell) : Int :=
  row.foldl (fun m c => match c with | some (_, h) => max m h | none => m) 0

def colW (m : List (List Cell)) (c : Nat) : Int :=
  m.foldl (fun acc row => match row[c]? with | some (some (w, _)) => max acc w | _ => acc) 0

def gap (cfg : Cfg) (tracks : List Nat) (c : Nat) : Int :=
  cfg.mh + (match tracks[c]? with
            | some t => (t : Int) * cfg.ts + (if (t : Int) * cfg.ts > 0 then cfg.ns else 0)
            | none => 0)

/-- x given to column c -/
def xAt (cfg : Cfg) (tracks : List Nat) (m : List (List Cell)) : Nat → Int
  | 0 => 0
  | c + 1 => xAt cfg tracks m c + colW m c + gap cfg tracks c

/-- y given to row r -/
def yAt (cfg : Cfg) (m : List (List Cell)) : Nat → Int
  | 0 => cfg.gs * 3
  | r + 1 => yAt cfg m r + rowH ((m[r]?).getD []) + cfg.mv

def ncols (m : List (List Cell)) : Nat := ((m.head?).map List.length).getD 0

def placeWith (cfg : Cfg) (tracks : List Nat) (m : List (List Cell)) : List Int × List Int :=
  ((List.range (ncols m)).map (xAt cfg tracks m), (List.range m.length).map (yAt cfg m))

def place (tracks : List Nat) (m : List (List Cell)) : List Int × List Int := placeWith Cfg.std tracks m

end Schem.Place
