import Py4hwV.Schem.Layout
/-
  C18 — the declarative statement `Holds d L`: layout L shows design d.
  Quantifiers are explicit (∀ symbols, ∀ wires, ∀ pins, connectedness as a reflexive-transitive closure);
  only atomic facts (a point lies on an axis-parallel segment, two boxes are disjoint, an end of a net is a
  legitimate pin of wire w) are Bool-valued functions.
-/
namespace Schem

/-- reflexive, symmetric, transitive closure of R -/
inductive Conn {α : Type} (R : α → α → Prop) : α → α → Prop
  | refl (a : α) : Conn R a a
  | step {a b c : α} : Conn R a b → (R b c ∨ R c b) → Conn R a c

/-- connectedness of a finite family S under adjacency adj: chains never leave S -/
def Connected {α : Type} (adj : α → α → Bool) (S : List α) : Prop :=
  ∀ a ∈ S, ∀ b ∈ S, Conn (fun p q => p ∈ S ∧ q ∈ S ∧ adj p q = true) a b

def Design.Used (d : Design) (w : Nat) : Prop := ∃ p, d.wireOf p = some w

/-- the property's premise: every wire used inside the block has exactly one driving pin -/
def Design.WellDriven (d : Design) : Prop :=
  ∀ w, d.Used w → ∃ p, p.isDriver = true ∧ d.wireOf p = some w ∧ ∀ q, q.isDriver = true → d.wireOf q = some w → q = p

/-- pixel boxes [x, x+w) × [y, y+h) do not meet -/
def Sym.Apart (a b : Sym) : Prop := a.x + a.w ≤ b.x ∨ b.x + b.w ≤ a.x ∨ a.y + a.h ≤ b.y ∨ b.y + b.h ≤ a.y

/-- the source end of a net of wire w is legitimate: a DRIVING pin OF WIRE w, or a marker -/
def srcOk (d : Design) (w : Nat) : End → Bool
  | .pin p => p.isDriver && d.wireOf p == some w
  | .marker _ => true
  | .bad => false

/-- the sink end of a net of wire w is legitimate: a READING pin OF WIRE w, or a marker -/
def snkOk (d : Design) (w : Nat) : End → Bool
  | .pin p => !p.isDriver && d.wireOf p == some w
  | .marker _ => true
  | .bad => false

/-- two nets are joined when they share an end (the same pin of the circuit or the same marker) -/
def Layout.netAdj (L : Layout) (n m : Net) : Bool :=
  [L.srcEnd n, L.snkEnd n].any fun e => e != .bad && (e == L.srcEnd m || e == L.snkEnd m)

/-- clause 3 for one wire -/
structure WireOK (d : Design) (L : Layout) (w : Nat) : Prop where
  /-- every end of every net of w is a pin of w (driver at the source end, reader at the sink end) or a marker:
      the nets of w attach to NO PIN OF ANY OTHER WIRE and to nothing that is not a pin -/
  ends : ∀ n ∈ L.netsOf w, srcOk d w (L.srcEnd n) = true ∧ snkOk d w (L.snkEnd n) = true
  /-- a wire nobody reads has nothing drawn -/
  stray : (∀ q, q.isDriver = false → d.wireOf q ≠ some w) → L.netsOf w = []
  /-- the pin that really drives w is touched: a net of w is attached to it and its polyline starts on the pin -/
  driver : ∀ p, p.isDriver = true → d.wireOf p = some w → (∃ q, q.isDriver = false ∧ d.wireOf q = some w) →
      ∃ n ∈ L.netsOf w, L.srcEnd n = .pin p ∧ (∃ pt, L.pinPos p = some pt ∧ n.path.head? = some pt)
  /-- every pin that really reads w is touched: a net of w is attached to it and its polyline ends on the pin -/
  readers : ∀ q, q.isDriver = false → d.wireOf q = some w →
      ∃ n ∈ L.netsOf w, L.snkEnd n = .pin q ∧ (∃ pt, L.pinPos q = some pt ∧ n.path.getLast? = some pt)
  /-- the nets of w with their markers form one connected graph -/
  connected : Connected L.netAdj (L.netsOf w)
  /-- every net of w is routed … -/
  routed : ∀ n ∈ L.netsOf w, 2 ≤ n.path.length
  /-- … with axis-parallel segments … -/
  ortho : ∀ s ∈ L.figure w, s.ortho = true
  /-- … and what is drawn for w (polylines + pass-through glyphs) is one connected figure -/
  drawn : Connected Seg.touch (L.figure w)
  /-- the drawn figure of w passes over no pin of any other wire -/
  foreign : ∀ p w', d.wireOf p = some w' → w' ≠ w → ∀ pt, L.pinPos p = some pt → ∀ s ∈ L.figure w, s.on pt = false

/-- C18 for one block: layout L shows design d -/
structure Holds (d : Design) (L : Layout) : Prop where
  /-- clause 1: exactly one symbol per child instance and per port, none for anything that is not there -/
  once : ∀ k : Kind, k.isReal = true → (L.syms.toList.filter (·.kind == k)).length = if d.hasKind k then 1 else 0
  /-- … and nothing but those and the markers -/
  no_other : ∀ s ∈ L.syms.toList, s.kind ≠ .other
  /-- every symbol sits in the cell of symbol_matrix it claims (drawing walks the matrix) … -/
  placed : ∀ (k : Nat) (s : Sym), L.syms[k]? = some s → ∃ r c, s.cell = some (r, c) ∧ L.cellAt r c = some k
  /-- … and the matrix holds nothing else -/
  cells : ∀ r c k, L.cellAt r c = some k → ∃ s, L.syms[k]? = some s ∧ s.cell = some (r, c)
  /-- clause 2: no two instance / port symbols share a grid cell or overlap in pixels -/
  apart : ∀ (i j : Nat) (a b : Sym), L.syms[i]? = some a → L.syms[j]? = some b → i ≠ j → a.kind.isReal = true → b.kind.isReal = true →
      a.cell ≠ b.cell ∧ a.Apart b
  /-- nets exist only for wires of the block -/
  nets_wires : ∀ n ∈ L.nets, d.Used n.wire
  /-- a marker belongs to one wire (otherwise two figures would be joined) -/
  marker_one_wire : ∀ n ∈ L.nets, ∀ m ∈ L.nets, ∀ k, L.usesMarker n k = true → L.usesMarker m k = true → n.wire = m.wire
  /-- clause 3, for every wire used inside the block -/
  wires : ∀ w, d.Used w → WireOK d L w

end Schem
