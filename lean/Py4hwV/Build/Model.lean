/-
  C11 — model of the netlist CONSTRUCTION API of py4hw/base.py and of debug.checkIntegrity.

  An abstract object graph `G` (tables of Logic objects, wires, ports, interfaces; ids = creation order) and one
  function per API call, each returning the new graph AND the outcome (`Except Err Unit`): where Python raises after
  having already mutated something, the mutation is kept in the returned graph (this is the point of the model:
  the mutation ORDER of the Python is transcribed).

      Python (py4hw/base.py)                         model
      Logic.__init__(parent, name)                   newLogic
      Logic.appendWire                               appendWire
      Wire.__init__ / BidirWire.__init__             newWire (bidir flag)
      Wire.setSource/addSource, BidirWire.addSource  regSource
      Wire.addSink                                   regSink
      InPort/OutPort/InOutPort.__init__ + addIn/…    addIn / addOut / addInOut
      Wire.rename / reparent / reparentAndRename     preCheck >>> renameOld / reparentOld / reparentAndRenameOld  (BidirWire's copies
                                                     are identical; the pre-check is commit c407a05)
      Interface.__init__/addSourceToSink/…           newIface / ifS2K / ifK2S
      Logic.wires(name, num, width)                  newWires (loop of newWire over name_0 … name_{num-1})
      Logic.addInterfaceSource / addInterfaceSink    addIfSource / addIfSink
      disconnectWireFromLogicObject                  disconnect
      debug.checkIntegrity / checkPort               checkIntegrity / checkInPort / checkOutPort

  Python dicts (`children`, `_wires`) are insertion-ordered association lists with the dict operations
  `dget/dset/ddel`.  `isPrimitive()` (class has a callable `propagate` or `clock`) is a fixed flag of the object.
-/
namespace Build

inductive Err
  | dupChild      -- 'there is already a child named …'
  | dupWire       -- 'a wire named … already exist'
  | dupSource     -- 'Source of wire … already connected to …'
  | keyError      -- del d[k] on a missing key
  | notConnected  -- 'wire and object are not connected'
  | noSource (o w : Nat)   -- 'ERROR: <obj> <wire> with no source'
  | notPort (p : Nat)      -- 'ERROR: <port> not port of parent …'
  | attr          -- AttributeError (None.getSinks, BidirWire.source)
  | badRef        -- dangling id (never produced from the harness)
  | fuel          -- recursion bound of the model exhausted (never on reachable graphs, see C11.fuel_enough)
  deriving DecidableEq, Repr

abbrev Res := Except Err Unit

instance : DecidableEq Res := fun a b =>
  match a, b with
  | .ok _, .ok _ => isTrue rfl
  | .error e, .error e' => if h : e = e' then isTrue (by rw [h]) else isFalse (by intro h'; cases h'; exact h rfl)
  | .ok _, .error _ => isFalse (by intro h; cases h)
  | .error _, .ok _ => isFalse (by intro h; cases h)
abbrev Dict := List (String × Nat)

/-- `d.get(k)` -/
def dget : Dict → String → Option Nat
  | [], _ => none
  | (k, v) :: t, n => if k = n then some v else dget t n

/-- `k in d.keys()` -/
def dhas (d : Dict) (n : String) : Bool := (dget d n).isSome

/-- `d[k] = v` (replace in place, else append: python dict order) -/
def dset : Dict → String → Nat → Dict
  | [], n, v => [(n, v)]
  | (k, x) :: t, n, v => if k = n then (k, v) :: t else (k, x) :: dset t n v

/-- `del d[k]` (caller has checked the key) -/
def ddel (d : Dict) (n : String) : Dict := d.filter (fun kv => kv.1 ≠ n)

def dkeys (d : Dict) : List String := d.map (·.1)

structure Obj where
  parent : Option Nat
  name : String
  prim : Bool                 -- isPrimitive(): the class has propagate or clock
  children : Dict := []
  wires : Dict := []          -- _wires
  inPorts : List Nat := []
  outPorts : List Nat := []
  inOutPorts : List Nat := []
  deriving DecidableEq, Repr

structure Wire where
  parent : Nat
  name : String
  bidir : Bool
  source : Option Nat := none   -- Wire.source (an OutPort / InOutPort)
  sources : List Nat := []      -- BidirWire.sources
  sinks : List Nat := []
  deriving DecidableEq, Repr

inductive PKind | inp | out | inout
  deriving DecidableEq, Repr

structure Port where
  kind : PKind
  parent : Nat
  name : String
  wire : Option Nat
  reg : Bool                  -- parent.isPrimitive() when the port was created: it registered itself with the wire
  deriving DecidableEq, Repr

structure Iface where
  parent : Nat
  name : String
  s2k : List (String × Nat) := []   -- sourceToSink [[name, wire]]
  k2s : List (String × Nat) := []   -- sinkToSource
  deriving DecidableEq, Repr

structure G where
  objs : List Obj := []
  wires : List Wire := []
  ports : List Port := []
  ifaces : List Iface := []
  deriving DecidableEq, Repr

def modObj (g : G) (o : Nat) (f : Obj → Obj) : G := { g with objs := g.objs.modify o f }
def modWire (g : G) (w : Nat) (f : Wire → Wire) : G := { g with wires := g.wires.modify w f }
def modPort (g : G) (p : Nat) (f : Port → Port) : G := { g with ports := g.ports.modify p f }
def modIface (g : G) (i : Nat) (f : Iface → Iface) : G := { g with ifaces := g.ifaces.modify i f }

/-- sequencing: the rest of the Python method runs only if nothing was raised; the graph so far is kept -/
def andThen (r : G × Res) (f : G → G × Res) : G × Res :=
  match r.2 with
  | .ok _ => f r.1
  | .error e => (r.1, .error e)

infixl:55 " >>> " => andThen

/-- a `for x in l:` loop whose body may raise -/
def forEach {α : Type} (g : G) (l : List α) (f : G → α → G × Res) : G × Res :=
  match l with
  | [] => (g, .ok ())
  | a :: t => match f g a with
    | (g1, .ok _) => forEach g1 t f
    | (g1, .error e) => (g1, .error e)

/-! ### Logic -/

/-- `Logic.__init__`: duplicate check, then `parent.children[name] = self`, then the fields -/
def newLogic (g : G) (parent : Option Nat) (name : String) (prim : Bool) : G × Res :=
  match parent with
  | none => ({ g with objs := g.objs ++ [{ parent := none, name := name, prim := prim }] }, .ok ())
  | some p =>
    match g.objs[p]? with
    | none => (g, .error .badRef)
    | some po =>
      if dhas po.children name then (g, .error .dupChild)
      else
        let id := g.objs.length
        ({ g with objs := (g.objs.modify p fun po => { po with children := dset po.children name id })
                            ++ [{ parent := some p, name := name, prim := prim }] }, .ok ())

/-- `Logic.appendWire(self = p, wire = w)` -/
def appendWire (g : G) (p w : Nat) : G × Res :=
  match g.objs[p]?, g.wires[w]? with
  | some po, some wr =>
    if dhas po.wires wr.name then (g, .error .dupWire)
    else (modObj g p fun po => { po with wires := dset po.wires wr.name w }, .ok ())
  | _, _ => (g, .error .badRef)

/-- `Wire.__init__` / `BidirWire.__init__`: the object is built, then `parent.appendWire(self)`; when that raises the
    new wire is referenced from nowhere, so it is not allocated -/
def newWire (g : G) (p : Nat) (name : String) (bidir : Bool) : G × Res :=
  let w := g.wires.length
  let r := appendWire { g with wires := g.wires ++ [{ parent := p, name := name, bidir := bidir }] } p w
  match r.2 with
  | .ok _ => r
  | .error e => (g, .error e)

/-! ### Wire -/

/-- `wire.addSource(port)`: `Wire.setSource` raises when a source exists; `BidirWire.addSource` appends -/
def regSource (g : G) (w pid : Nat) : G × Res :=
  match g.wires[w]? with
  | none => (g, .error .badRef)
  | some wr =>
    if wr.bidir then (modWire g w fun wr => { wr with sources := wr.sources ++ [pid] }, .ok ())
    else if wr.source.isSome then (g, .error .dupSource)
    else (modWire g w fun wr => { wr with source := some pid }, .ok ())

/-- `wire.addSink(port)` -/
def regSink (g : G) (w pid : Nat) : G × Res :=
  match g.wires[w]? with
  | none => (g, .error .badRef)
  | some _ => (modWire g w fun wr => { wr with sinks := wr.sinks ++ [pid] }, .ok ())

/-- `del self.parent._wires[self.name]` -/
def delWireKey (g : G) (w : Nat) : G × Res :=
  match g.wires[w]? with
  | none => (g, .error .badRef)
  | some wr =>
    match g.objs[wr.parent]? with
    | none => (g, .error .badRef)
    | some po =>
      if dhas po.wires wr.name then (modObj g wr.parent fun po => { po with wires := ddel po.wires wr.name }, .ok ())
      else (g, .error .keyError)

def wireParent (g : G) (w : Nat) : Nat := match g.wires[w]? with | some wr => wr.parent | none => 0

def wireName (g : G) (w : Nat) : String := match g.wires[w]? with | some wr => wr.name | none => ""

/-- the bodies of `Wire.rename / reparent / reparentAndRename` AFTER the pre-check (= the whole methods in the code
    before commit c407a05): del old key; set name / parent; `appendWire(self)` -/
def renameOld (g : G) (w : Nat) (n : String) : G × Res :=
  delWireKey g w >>> fun g1 =>
    let g2 := modWire g1 w fun wr => { wr with name := n }
    appendWire g2 (wireParent g2 w) w

def reparentOld (g : G) (w : Nat) (p : Nat) : G × Res :=
  delWireKey g w >>> fun g1 =>
    let g2 := modWire g1 w fun wr => { wr with parent := p }
    appendWire g2 p w

def reparentAndRenameOld (g : G) (w : Nat) (p : Nat) (n : String) : G × Res :=
  delWireKey g w >>> fun g1 =>
    let g2 := modWire g1 w fun wr => { wr with name := n, parent := p }
    appendWire g2 p w

/-- the pre-check of c407a05:
    `if (name in target._wires.keys() and not(target._wires[name] is self)): raise Exception('a wire named … already exist')`
    — it mutates nothing -/
def preCheck (g : G) (w p : Nat) (n : String) : G × Res :=
  match g.objs[p]? with
  | none => (g, .error .badRef)
  | some po =>
    match dget po.wires n with
    | none => (g, .ok ())
    | some v => if v = w then (g, .ok ()) else (g, .error .dupWire)

/-- `Wire.rename` (target = own parent, new name) -/
def rename (g : G) (w : Nat) (n : String) : G × Res :=
  preCheck g w (wireParent g w) n >>> fun g0 => renameOld g0 w n

/-- `Wire.reparent` (target = new parent, own name) -/
def reparent (g : G) (w : Nat) (p : Nat) : G × Res :=
  preCheck g w p (wireName g w) >>> fun g0 => reparentOld g0 w p

/-- `Wire.reparentAndRename` -/
def reparentAndRename (g : G) (w : Nat) (p : Nat) (n : String) : G × Res :=
  preCheck g w p n >>> fun g0 => reparentAndRenameOld g0 w p n

/-! ### Ports -/

def pushPort (g : G) (pt : Port) : G := { g with ports := g.ports ++ [pt] }

/-- `Logic.addIn`: `InPort(self, name, wire)` (registers a sink iff `self.isPrimitive()`), then `inPorts.append` -/
def addIn (g : G) (o : Nat) (name : String) (w : Nat) : G × Res :=
  match g.objs[o]?, g.wires[w]? with
  | none, _ => (g, .error .badRef)
  | _, none => (g, .error .badRef)
  | some ob, some _ =>
    let pid := g.ports.length
    (if ob.prim then regSink g w pid else (g, .ok ())) >>> fun g1 =>
      (modObj (pushPort g1 { kind := .inp, parent := o, name := name, wire := some w, reg := ob.prim }) o
        fun ob => { ob with inPorts := ob.inPorts ++ [pid] }, .ok ())

/-- `Logic.addOut`: `OutPort(self, name, wire)` (`wire.addSource(self)` iff primitive — may raise), then `outPorts.append` -/
def addOut (g : G) (o : Nat) (name : String) (w : Nat) : G × Res :=
  match g.objs[o]?, g.wires[w]? with
  | none, _ => (g, .error .badRef)
  | _, none => (g, .error .badRef)
  | some ob, some _ =>
    let pid := g.ports.length
    (if ob.prim then regSource g w pid else (g, .ok ())) >>> fun g1 =>
      (modObj (pushPort g1 { kind := .out, parent := o, name := name, wire := some w, reg := ob.prim }) o
        fun ob => { ob with outPorts := ob.outPorts ++ [pid] }, .ok ())

/-- `Logic.addInOut`: `wire.addSource(self)` then `wire.addSink(self)` iff primitive, then `inOutPorts.append` -/
def addInOut (g : G) (o : Nat) (name : String) (w : Nat) : G × Res :=
  match g.objs[o]?, g.wires[w]? with
  | none, _ => (g, .error .badRef)
  | _, none => (g, .error .badRef)
  | some ob, some _ =>
    let pid := g.ports.length
    (if ob.prim then regSource g w pid >>> fun g1 => regSink g1 w pid else (g, .ok ())) >>> fun g1 =>
      (modObj (pushPort g1 { kind := .inout, parent := o, name := name, wire := some w, reg := ob.prim }) o
        fun ob => { ob with inOutPorts := ob.inOutPorts ++ [pid] }, .ok ())

/-! ### Interfaces -/

/-- the names `'{}_{}'.format(name, i)` for `i in range(num)` -/
def arrayNames (name : String) (num : Nat) : List String := (List.range num).map fun i => name ++ "_" ++ toString i

/-- `Logic.wires(name, num, width)`: `for i in range(num): ret.append(self.wire(name_i, width))` — every element goes through
    `Wire.__init__` → `appendWire`, so a clash raises (the elements created before it stay) -/
def newWires (g : G) (p : Nat) (name : String) (num : Nat) : G × Res :=
  forEach g (arrayNames name num) (fun g nm => newWire g p nm false)

def newIface (g : G) (p : Nat) (name : String) : G × Res :=
  ({ g with ifaces := g.ifaces ++ [{ parent := p, name := name }] }, .ok ())

/-- `Interface.addSourceToSink(name, width)`: `w = self.parent.wire(self.name + "_" + name)`; append `[name, w]` -/
def ifS2K (g : G) (i : Nat) (name : String) : G × Res :=
  match g.ifaces[i]? with
  | none => (g, .error .badRef)
  | some itf =>
    let w := g.wires.length
    newWire g itf.parent (itf.name ++ "_" ++ name) false >>> fun g1 =>
      (modIface g1 i fun itf => { itf with s2k := itf.s2k ++ [(name, w)] }, .ok ())

def ifK2S (g : G) (i : Nat) (name : String) : G × Res :=
  match g.ifaces[i]? with
  | none => (g, .error .badRef)
  | some itf =>
    let w := g.wires.length
    newWire g itf.parent (itf.name ++ "_" ++ name) false >>> fun g1 =>
      (modIface g1 i fun itf => { itf with k2s := itf.k2s ++ [(name, w)] }, .ok ())

def ifPrefix (name : String) : String := if name.length > 0 then name ++ "_" else name

/-- `Logic.addInterfaceSource`: OutPorts for sourceToSink, then InPorts for sinkToSource (a raise in the middle keeps
    the ports added so far) -/
def addIfSource (g : G) (o : Nat) (name : String) (i : Nat) : G × Res :=
  match g.ifaces[i]? with
  | none => (g, .error .badRef)
  | some itf =>
    forEach g itf.s2k (fun g x => addOut g o (ifPrefix name ++ x.1) x.2) >>> fun g1 =>
      forEach g1 itf.k2s (fun g x => addIn g o (ifPrefix name ++ x.1) x.2)

/-- `Logic.addInterfaceSink`: InPorts for sourceToSink, then OutPorts for sinkToSource -/
def addIfSink (g : G) (o : Nat) (name : String) (i : Nat) : G × Res :=
  match g.ifaces[i]? with
  | none => (g, .error .badRef)
  | some itf =>
    forEach g itf.s2k (fun g x => addIn g o (ifPrefix name ++ x.1) x.2) >>> fun g1 =>
      forEach g1 itf.k2s (fun g x => addOut g o (ifPrefix name ++ x.1) x.2)

/-! ### disconnectWireFromLogicObject -/

def disconnect (g : G) (w o : Nat) : G × Res :=
  match g.wires[w]?, g.objs[o]? with
  | some wr, some ob =>
    if wr.bidir then (g, .error .attr)          -- BidirWire has no attribute `source`
    else
      match wr.source with
      | some sp =>
        if sp ∈ ob.outPorts then
          (modPort (modWire g w fun wr => { wr with source := none }) sp fun pt => { pt with wire := none }, .ok ())
        else
          match wr.sinks.find? (fun s => s ∈ ob.inPorts) with
          | some s => (modPort (modWire g w fun wr => { wr with sinks := wr.sinks.erase s }) s
                        fun pt => { pt with wire := none }, .ok ())
          | none => (g, .error .notConnected)
      | none =>
        match wr.sinks.find? (fun s => s ∈ ob.inPorts) with
        | some s => (modPort (modWire g w fun wr => { wr with sinks := wr.sinks.erase s }) s
                      fun pt => { pt with wire := none }, .ok ())
        | none => (g, .error .notConnected)
  | _, _ => (g, .error .badRef)

/-! ### Observations (what the property looks at) -/

/-- `wire.getSource()` -/
def srcOf (g : G) (w : Nat) : Option Nat := (g.wires[w]?).bind (·.source)
/-- `parent.children.get(name)` -/
def childOf (g : G) (o : Nat) (n : String) : Option Nat := (g.objs[o]?).bind fun ob => dget ob.children n
/-- `parent._wires.get(name)` -/
def wireOf (g : G) (o : Nat) (n : String) : Option Nat := (g.objs[o]?).bind fun ob => dget ob.wires n

/-! ### Operations of a construction history -/

inductive Op
  | newLogic (parent : Option Nat) (name : String) (prim : Bool)
  | wire (parent : Nat) (name : String) (bidir : Bool)
  | addIn (o : Nat) (name : String) (w : Nat)
  | addOut (o : Nat) (name : String) (w : Nat)
  | addInOut (o : Nat) (name : String) (w : Nat)
  | rename (w : Nat) (n : String)
  | reparent (w : Nat) (p : Nat)
  | reparentAndRename (w : Nat) (p : Nat) (n : String)
  | newIface (p : Nat) (name : String)
  | ifS2K (i : Nat) (name : String)
  | ifK2S (i : Nat) (name : String)
  | addIfSource (o : Nat) (name : String) (i : Nat)
  | addIfSink (o : Nat) (name : String) (i : Nat)
  | disconnect (w : Nat) (o : Nat)
  | wires (parent : Nat) (name : String) (num : Nat)
  deriving DecidableEq, Repr

def step (g : G) : Op → G × Res
  | .newLogic p n pr => newLogic g p n pr
  | .wire p n b => newWire g p n b
  | .addIn o n w => addIn g o n w
  | .addOut o n w => addOut g o n w
  | .addInOut o n w => addInOut g o n w
  | .rename w n => rename g w n
  | .reparent w p => reparent g w p
  | .reparentAndRename w p n => reparentAndRename g w p n
  | .newIface p n => newIface g p n
  | .ifS2K i n => ifS2K g i n
  | .ifK2S i n => ifK2S g i n
  | .addIfSource o n i => addIfSource g o n i
  | .addIfSink o n i => addIfSink g o n i
  | .disconnect w o => disconnect g w o
  | .wires p n k => newWires g p n k

/-- a construction history: every call is attempted, raised or not (the caller catches and goes on) -/
def run (g : G) (ops : List Op) : G := ops.foldl (fun g op => (step g op).1) g

/-- a constructor body: a sequence of API calls that stops at the first raise (e.g. `And2.__init__` =
    `Logic.__init__; addIn a; addIn b; addOut r`) -/
def runUntilErr (g : G) : List Op → G × Res
  | [] => (g, .ok ())
  | op :: t => step g op >>> fun g1 => runUntilErr g1 t

/-- outcomes of the calls of a history -/
def outcomes (g : G) : List Op → List Res
  | [] => []
  | op :: t => (step g op).2 :: outcomes (step g op).1 t

/-! ### debug.checkIntegrity -/

def firstErr {α : Type} : List α → (α → Res) → Res
  | [], _ => .ok ()
  | a :: t, f => match f a with
    | .ok _ => firstErr t f
    | .error e => .error e

/-- `checkPort(source)`: the port must be in its parent's inPorts, outPorts or (since commit 2aca8d4) inOutPorts -/
def checkPort (g : G) (sp : Nat) : Res :=
  match g.ports[sp]? with
  | none => .error .badRef
  | some spt =>
    match g.objs[spt.parent]? with
    | none => .error .badRef
    | some sob => if sp ∈ sob.inPorts ∨ sp ∈ sob.outPorts ∨ sp ∈ sob.inOutPorts then .ok () else .error (.notPort sp)

/-- body of the `for inP in obj.inPorts` loop -/
def checkInPort (g : G) (o pid : Nat) : Res :=
  match g.ports[pid]? with
  | none => .error .badRef
  | some pt =>
    match pt.wire with
    | none => .error .attr                     -- None.getSinks()
    | some w =>
      match g.wires[w]? with
      | none => .error .badRef
      | some wr =>
        if wr.bidir then .error .attr          -- BidirWire.getSource reads a missing attribute
        else match wr.source with
          | none => .error (.noSource o w)
          | some sp => checkPort g sp

/-- body of the `for outP in obj.outPorts` loop (no checkPort here) -/
def checkOutPort (g : G) (o pid : Nat) : Res :=
  match g.ports[pid]? with
  | none => .error .badRef
  | some pt =>
    match pt.wire with
    | none => .error .attr
    | some w =>
      match g.wires[w]? with
      | none => .error .badRef
      | some wr =>
        if wr.bidir then .error .attr
        else match wr.source with
          | none => .error (.noSource o w)
          | some _ => .ok ()

/-- `debug.checkIntegrity(obj)`; `fuel` bounds the recursion depth (children are created after their parent,
    so `g.objs.length` always suffices: C11.fuel_enough) -/
def checkIntegrity : Nat → G → Nat → Res
  | 0, _, _ => .error .fuel
  | fuel + 1, g, o =>
    match g.objs[o]? with
    | none => .error .badRef
    | some ob =>
      match firstErr ob.inPorts (checkInPort g o) with
      | .error e => .error e
      | .ok _ =>
        match firstErr ob.outPorts (checkOutPort g o) with
        | .error e => .error e
        | .ok _ => firstErr ob.children (fun kc => checkIntegrity fuel g kc.2)

def isOk (r : Res) : Bool := match r with | .ok _ => true | .error _ => false

/-! ### The specification side: "some port in the hierarchy is attached to a wire that no block drives" -/

/-- the port is attached to a wire whose `source` is None -/
def undriven (g : G) (pid : Nat) : Bool :=
  match g.ports[pid]? with
  | none => false
  | some pt => match pt.wire with
    | none => false
    | some w => match g.wires[w]? with
      | none => false
      | some wr => wr.source.isNone

/-- `Pin` holds of some in port / `Pout` of some out port of some object of the hierarchy under `o` (same recursion as
    checkIntegrity; exhausted fuel counts as `true`, mirroring the `.fuel` error) -/
def anyBelow : Nat → G → Nat → (Nat → Bool) → (Nat → Bool) → Bool
  | 0, _, _, _, _ => true
  | fuel + 1, g, o, Pin, Pout =>
    match g.objs[o]? with
    | none => true
    | some ob => ob.inPorts.any Pin || ob.outPorts.any Pout || ob.children.any (fun kc => anyBelow fuel g kc.2 Pin Pout)

/-- the oracle of the property's second sentence: checkIntegrity must raise exactly when this is true -/
def specRaises (g : G) (o : Nat) : Bool := anyBelow g.objs.length g o (undriven g) (undriven g)

/-- drivers of a wire as the ports see it: out / inout ports that registered themselves (primitive parent) -/
def isDriver (g : G) (pid w : Nat) : Bool :=
  match g.ports[pid]? with
  | none => false
  | some pt => (pt.kind == .out || pt.kind == .inout) && pt.reg && pt.wire == some w

def drivers (g : G) (w : Nat) : List Nat := (List.range g.ports.length).filter (fun pid => isDriver g pid w)

end Build
