import Py4hwV.Drv.Proto
import Py4hwV.Verilog.SExp
import Py4hwV.Verilog.WF
/- C03 driver (stateless, one request per line).
     check (env (design m…) (design x…) [(pdefs (d Mod Param expr)…)])   WF.checkE on the parsed design with declared black boxes x…
                                           and the default values of the parameter declarations
                                           -> ok | kind|module|… ;; kind|module|…   (duplicates removed, order kept)
     pair (design A B)                     second clause: two modules emitted alone under one name
                                           -> same | sig: d1 ;; d2 | body
     name <n>                              -> isKeyword,isReservedRepo,getValidVerilogName,localWireName,getInstanceName
     stats (design m…)                     -> modules,decls,uses,insts,drivers  (evidence only)
     kwcount                               -> number of IEEE 1364-2005 keywords in the model
     keywords                              -> the model's keyword list, comma separated -/
open Proto V V.WF

def dedup (l : List String) : List String :=
  (l.foldl (fun (acc : List String) s => if acc.contains s then acc else s :: acc) []).reverse

def readEnv (s : String) : Option Env :=
  match readS s with
  | some (.list [.atom "env", d, x]) => do
      let mods ← toDesign d
      let ext ← toDesign x
      some { mods := mods, ext := ext }
  | some (.list [.atom "env", d, x, .list (.atom "pdefs" :: ps)]) => do
      let mods ← toDesign d
      let ext ← toDesign x
      let pd ← ps.mapM fun p => match p with
        | .list [.atom "d", .atom m, .atom n, e] => do some ((m, n), ← toExpr e)
        | _ => none
      some { mods := mods, ext := ext, pdefs := pd }
  | _ => none

def step (line : String) : String :=
  if line.startsWith "check " then
    match readEnv (line.drop 6).toString with
    | none => "parse-error"
    | some env =>
      let es := dedup ((checkE env).map Err.msg)
      if es.isEmpty then "ok" else " ;; ".intercalate es
  else if line.startsWith "pair " then
    match readDesign (line.drop 5).toString with
    | some [a, b] =>
      let ds := sigDiff a b
      if !ds.isEmpty || !sameSig a b then "sig: " ++ " ;; ".intercalate ds
      else if a.items == b.items then "same" else "body"
    | _ => "parse-error"
  else if line.startsWith "name " then
    let n := trim (line.drop 5).toString
    s!"{showBool (isKeyword n)},{showBool (isReservedRepo n)},{getValidVerilogName n},{localWireName n},{getInstanceName n}"
  else if line.startsWith "stats " then
    match readDesign (line.drop 6).toString with
    | some d =>
      let f (g : Module → Nat) : Nat := d.foldl (fun acc m => acc + g m) 0
      s!"{d.length},{f fun m => (decls m).length},{f fun m => (uses m).length},{f fun m => (instNames m).length},{f fun m => (drivers d m).length}"
    | none => "parse-error"
  else if line == "kwcount" then toString keywords.length
  else if line == "keywords" then ",".intercalate keywords
  else "bad-op"

def main : IO Unit := Proto.run step
