import Py4hwV.Drv.Proto
import Py4hwV.Transpile.PyRead
import Py4hwV.Transpile.PySem
import Py4hwV.Transpile.Model
import Py4hwV.Transpile.Reasons
/- C02 driver (session): the Python-side semantics of a behavioural class given as data, and the model translation.
     class <sexp>        load a class                         -> ok|supported|reason,reason…   / parse-error
     model               model translation, vparse S-exp      -> (module …)
     reset               constructor state, all wires 0       -> ok
     clk a=1,b=2         drive inputs (attribute names), one Simulator.clk(1)
                                                              -> ok|dom|w=v,…(all ports)|x=v,…(state)   / err|<kind>
     prop a=1,b=2        drive inputs, one propagate()        -> same
     settle              Wire.settleAll (pending prepares)     -> same
   `dom` = 1 when `execD` succeeds on the same pre-state (no value left [0,2^31) in this call).
   A 5th field `pu` = 1 while the run with unknown not-yet-written outputs (Tp.initStU) is alive: no output has been read
   before it was written (hypothesis of C02.transpile_seq_sound_from_powerup). -/
open Proto Tp

structure Sess where
  c : Option ClassD := none
  s : St := { loc := fun _ => none, att := fun _ => none, wire := fun _ => none, prep := [] }
  su : Option St := none      -- the run with not-yet-written outputs unknown (Tp.initStU); none once it read one

def showErr : Err → String
  | .zeroDiv => "zeroDiv" | .negShift => "negShift" | .unbound n => "unbound:" ++ n | .noAttr n => "noAttr:" ++ n
  | .noWire n => "noWire:" ++ n | .noParam n => "noParam:" ++ n | .shape => "shape"

def parseAsg (s : String) : List (String × Int) :=
  if (trim s).isEmpty then [] else
  ((trim s).splitOn ",").filterMap fun p =>
    match p.splitOn "=" with
    | [a, b] => (parseInt? b).map fun v => (trim a, v)
    | _ => none

/-- rebuild the lookup closures from association lists (keeps look-ups O(#names) over long histories) -/
def compact (c : ClassD) (s : St) : St :=
  let an := dedup (c.state.map (·.1) ++ namesS c.body)
  let al := an.filterMap fun n => (s.att n).map fun v => (n, v)
  let wl := c.ports.filterMap fun p => (s.wire p.attr).map fun v => (p.attr, v)
  { loc := fun _ => none, att := lookup al, wire := lookup wl, prep := s.prep }

def showSt (c : ClassD) (s : St) : String :=
  let ws := c.ports.map fun p => p.attr ++ "=" ++ (match s.wire p.attr with | some v => toString v | none => "?")
  let an := dedup (c.state.map (·.1) ++ (namesS c.body).filter fun n => !(isPort c n))
  let as := an.filterMap fun n => (s.att n).map fun v => n ++ "=" ++ toString v
  ",".intercalate ws ++ "|" ++ ",".intercalate as

def stepS (ss : Sess) (line : String) : Sess × String :=
  if line.startsWith "class " then
    match readClass (line.drop 6).toString with
    | some c => ({ c := some c, s := initSt c, su := some (initStU c) },
                 "ok|" ++ showBool (supported c) ++ "|" ++ ",".intercalate (reasons c))
    | none => (ss, "parse-error")
  else
  match ss.c with
  | none => (ss, "no-class")
  | some c =>
    if line == "model" then (ss, pModule (trModule c))
    else if line == "reset" then ({ ss with s := initSt c, su := some (initStU c) }, "ok")
    else if line == "settle" then
      let s2 := compact c (settle ss.s)
      let su2 := ss.su.map fun u => compact c (settle u)
      ({ ss with s := s2, su := su2 }, "ok|1|" ++ showSt c s2 ++ "|" ++ showBool su2.isSome)
    else if line.startsWith "clk" || line.startsWith "prop" then
      let isClk := line.startsWith "clk"
      let asg := parseAsg ((line.drop (if isClk then 3 else 4)).toString)
      let s0 := { driveIn c ss.s asg with loc := fun _ => none }
      let dom := (execD c none c.body s0).isSome
      let su1 : Option St := ss.su.bind fun u =>
        let u0 := { driveIn c u asg with loc := fun _ => none }
        (execD c none c.body u0).map fun u1 => compact c (if isClk then settle u1 else u1)
      match (if isClk then clockCycle c s0 else propagate c s0) with
      | .ok s1 =>
        let s2 := compact c s1
        ({ ss with s := s2, su := su1 }, "ok|" ++ showBool dom ++ "|" ++ showSt c s2 ++ "|" ++ showBool su1.isSome)
      | .error e => (ss, "err|" ++ showErr e)
    else (ss, "bad-op")

partial def loop (h : IO.FS.Stream) (o : IO.FS.Stream) (ss : Sess) : IO Unit := do
  let line ← h.getLine
  if line.isEmpty then return ()
  let (ss', out) := stepS ss (trim line)
  o.putStrLn out
  loop h o ss'

def main : IO Unit := do
  let i ← IO.getStdin
  let o ← IO.getStdout
  loop i o {}
  o.flush
