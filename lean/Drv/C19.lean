import Py4hwV.Drv.Proto
import Py4hwV.Emit.Cache
import Py4hwV.Emit.Canon
import Py4hwV.Emit.Live
/- C19 driver: generator-state model (Emit.Cache) as a session + Canon on model outputs.
   One request per line; fields separated by '|'; `_` = None; lists comma separated, `-` = empty.
     cleartab                                   empty the staging table                                   -> ok
     kw <k1,k2,…>                               reserved words                                            -> ok
     wire <name>|<width>|<fake01>               append a wire to the staging table                         -> ok
     obj <parent>|<cls>|<name>|<ident>|<structName>|<params k=v,…>|<children>|<in n:w,…>|<out>|<inout>|
         <clockDriver name:wire:base>|<flags ⊆ pcrib>|<gated name:wire:base>|<leafText>                   -> ok
     begin                                      new process: World over the staging table                  -> ok
     edit                                       Op.edit (staging table replaces the design)                -> ok
     poison <obj>|<w=name,…>                    set the module-level cache (arbitrary initial state)       -> ok
     op newGen <o> | op newList <a,b> | op sim
     op getVerilog <g>|<obj>|<ni01>|<force>     -> ok <out> || <out> …  |  err <kind>
     op getHier <g>|<obj>|<ni01>|<force>|<list>
     state                                      -> cache object ; created list of every generator ; heap
     vcanon <ids> <sexp>                        Canon (V.canon) of a parsed real text: hash + module count     -> h n
     tr <ctor p:attr:vname,c:attr:int,a:attr:param>|<live k=int,…>|<occs A:name:st01,N:name:st01,W:name>
                                                Emit.transpile (transpiler vs live object)  -> ok <tok,…> ; <decl,…> | err <i> ; <tok,…> ; <msg> | initerr <msg>
     trinit <ctor>|<live>                       Emit.extractInit -> ok <ports a=n,…> ; <variables> ; <arguments a=v,…> | initerr <msg>
     canon <0|1>                                answers of getVerilog/getHier are rendered after Canon (ids renumbered by
                                                first occurrence, declarations sorted) when 1                 -> ok -/
open Proto Emit

structure Sess where
  tab : Design := { objs := [], wires := [] }
  w : World := { d := { objs := [], wires := [] } }
  canon : Bool := false

def opt (s : String) : Option String := if s = "_" then none else some s
def optNat (s : String) : Option Nat := if s = "_" then none else s.toNat?
def lst (s : String) : List String := if s = "-" || s = "" then [] else s.splitOn ","
def nats (s : String) : List Nat := (lst s).filterMap (·.toNat?)
def b01 (s : String) : Bool := s = "1"

def kvs (s : String) : List (String × String) :=
  (lst s).filterMap fun kv => match kv.splitOn "=" with
    | [k, v] => some (k, v)
    | _ => none

def ports (s : String) : List PortD :=
  (lst s).filterMap fun nw => match nw.splitOn ":" with
    | [n, w] => some { name := n, wire := optNat w }
    | _ => none

def clockD (s : String) : Option ClockD :=
  if s = "_" then none else match s.splitOn ":" with
    | [n, w, b] => some { name := n, wire := optNat w, baseName := opt b }
    | _ => none

def parseObj (fs : List String) : Option ObjD :=
  match fs with
  | [p, cls, name, ident, sn, params, ch, i, o, io, cd, flags, gated, leaf] =>
    some { parent := optNat p, cls := cls, name := name, ident := ident.toNat?.getD 0, structName := opt sn,
           params := if params = "_" then none else some (kvs params), children := nats ch,
           inPorts := ports i, outPorts := ports o, inOutPorts := ports io, clockDriver := clockD cd,
           propagatable := flags.contains 'p', clockable := flags.contains 'c', runnable := flags.contains 'r',
           inlinable := flags.contains 'i', providesBody := flags.contains 'b', gated := clockD gated, leafText := leaf }
  | _ => none

def ctorStmt (s : String) : Option CtorStmt :=
  match s.splitOn ":" with
  | ["p", a, v] => some (.port a v)
  | ["c", a, v] => v.toInt?.map (.const a)
  | ["a", a, q] => some (.arg a q)
  | _ => none

def occOf (s : String) : Option Occ :=
  match s.splitOn ":" with
  | ["A", n, st] => some (.attr n (b01 st))
  | ["N", n, st] => some (.name n (b01 st))
  | ["W", n] => some (.wire n)
  | _ => none

def liveOf (s : String) : Live :=
  let kv : List (String × Int) := (kvs s).filterMap fun p => p.2.toInt?.map fun v => (p.1, v)
  fun n => aget kv n

def allSome {α : Type} (l : List (Option α)) : Option (List α) := l.mapM id

def showState (w : World) : String :=
  let c := match w.cache.obj with | none => "_" | some o => toString o
  let cm := ",".intercalate (w.cache.map.map fun kv => s!"{kv.1}={kv.2}")
  let gs := " / ".intercalate (w.gens.map fun g => s!"{g.obj}:{",".intercalate ((w.heap[g.created]?).getD [])}")
  let hp := " / ".intercalate (w.heap.map fun l => ",".intercalate l)
  s!"cache {c} [{cm}] ; gens {gs} ; heap {hp}"

def renderResp (cn : Bool) (r : Resp) : String :=
  if cn then (match r with | .ok outs => Resp.render (.ok (canonOuts outs)) | e => Resp.render e) else Resp.render r

def doOp (ss : Sess) (op : Op) : Sess × String :=
  let (w', r) := step ss.w op
  ({ ss with w := w' }, renderResp ss.canon r)

def stepLine (ss : Sess) (line : String) : Sess × String :=
  let (cmd, rest) := match line.splitOn " " with
    | c :: r => (c, trim (" ".intercalate r))
    | [] => ("", "")
  let fs := fields rest
  match cmd with
  | "cleartab" => ({ ss with tab := { objs := [], wires := [], keywords := ss.tab.keywords } }, "ok")
  | "kw" => ({ ss with tab := { ss.tab with keywords := lst rest } }, "ok")
  | "wire" => match fs with
    | [n, w, f] => ({ ss with tab := { ss.tab with wires := ss.tab.wires ++ [{ name := n, width := w.toNat?.getD 1, fake := b01 f }] } }, "ok")
    | _ => (ss, "bad-op")
  | "obj" => match parseObj fs with
    | some o => ({ ss with tab := { ss.tab with objs := ss.tab.objs ++ [o] } }, "ok")
    | none => (ss, "bad-op")
  | "begin" => ({ ss with w := { d := ss.tab } }, "ok")
  | "edit" => doOp ss (.edit ss.tab) |> fun (s, _) => (s, "ok")
  | "poison" => match fs with
    | [o, m] =>
      let mp : NameMap := (kvs m).filterMap fun kv => kv.1.toNat?.map fun k => (k, kv.2)
      ({ ss with w := { ss.w with cache := { obj := optNat o, map := mp } } }, "ok")
    | _ => (ss, "bad-op")
  | "tr" => match fs with
    | [c, lv, oc] =>
      match allSome ((lst c).map ctorStmt), allSome ((lst oc).map occOf) with
      | some ctor, some occs => (ss, (transpile { ctor := ctor, occs := occs } (liveOf lv)).render)
      | _, _ => (ss, "bad-op")
    | _ => (ss, "bad-op")
  | "trinit" => match fs with
    | [c, lv] =>
      match allSome ((lst c).map ctorStmt) with
      | some ctor => (ss, match extractInit (liveOf lv) ctor {} with
          | .ok i => "ok " ++ i.render
          | .error e => "initerr " ++ e)
      | none => (ss, "bad-op")
    | _ => (ss, "bad-op")
  | "canon" => ({ ss with canon := b01 rest }, "ok")
  | "state" => (ss, showState ss.w)
  | "vcanon" =>
    -- vcanon <id1,id2,…> <sexp of a parsed design>: Canon of real text -> "<hash> <number of modules>"
    match rest.splitOn " " with
    | ids :: sx =>
      match V.readDesign (" ".intercalate sx) with
      | some dsn => let c := V.canon (lst ids) dsn; (ss, s!"{hash (toString (repr c))} {c.length}")
      | none => (ss, "parse-error")
    | [] => (ss, "bad-op")
  | "vcanonshow" =>
    match rest.splitOn " " with
    | ids :: sx =>
      match V.readDesign (" ".intercalate sx) with
      | some dsn => (ss, ((toString (repr (V.canon (lst ids) dsn))).replace "\n" " "))
      | none => (ss, "parse-error")
    | [] => (ss, "bad-op")
  | "op" =>
    let (k, args) := match rest.splitOn " " with
      | c :: r => (c, fields (trim (" ".intercalate r)))
      | [] => ("", [])
    match k, args with
    | "newGen", [o] => match o.toNat? with
      | some o => doOp ss (.newGen o)
      | none => (ss, "bad-op")
    | "newList", [l] => doOp ss (.newList (lst l))
    | "sim", _ => doOp ss .sim
    | "getVerilog", [g, o, ni, f] => match g.toNat? with
      | some g => doOp ss (.getVerilog g (optNat o) (b01 ni) (opt f))
      | none => (ss, "bad-op")
    | "getHier", [g, o, ni, f, l] => match g.toNat? with
      | some g => doOp ss (.getHier g (optNat o) (b01 ni) (opt f) (optNat l))
      | none => (ss, "bad-op")
    | _, _ => (ss, "bad-op")
  | _ => (ss, "bad-op")

partial def loop (h : IO.FS.Stream) (o : IO.FS.Stream) (ss : Sess) : IO Unit := do
  let line ← h.getLine
  if line.isEmpty then return ()
  let (ss', out) := stepLine ss (trim line)
  o.putStrLn out
  loop h o ss'

def main : IO Unit := do
  let i ← IO.getStdin
  let o ← IO.getStdout
  loop i o {}
  o.flush
