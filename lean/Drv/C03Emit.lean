import Py4hwV.Drv.Proto
import Py4hwV.Verilog.SExp
import Py4hwV.Emit.FlatText
import Py4hwV.Verilog.EmitMD
import Py4hwV.Verilog.EmitMDOf
/- C03 emit-model driver (session): for which designs is well-formedness of the REAL text PROVED by `C03Emit.emit_wf_flat`?
     design <sexp>     the parsed real text (harness/vparse.py)                                   -> ok | parse-error
     src <sexp>        the flat description imported from the live circuit (same format as lean/Drv/C01Flat.lean; the
                       reader below is a copy of that driver's, the model `FlatM.FlatSrc` itself is imported)   -> ok | parse-error
     check             parsed text = `FlatSrc.emit` (decidable equality), `FlatSrc.check`, `C03Emit.namesOKb`
                       -> proved | text-differs | fails <failed conditions of FlatSrc.checks / names>
                       (`proved`: the hypotheses of `C03Emit.real_text_wf` hold for this text)
     hs <sexp>         the level-free hierarchical description `C03Emit.HSrc` (harness/c03.py export_hs)        -> ok | parse-error
                       after an `hsrc` of the same design (no `design` request in between): -> ok | differs | parse-error, is the
                       python listing equal to the stored `S.toHS`? (the stored description stays `S.toHS`)
     hsrc <sexp>       C01's NESTED description `(hsrc depth clk (widths …) <mod> (order …))` (harness/c01.py HierExporter, the
                       format lean/Drv/C01Hier.lean reads; readers copied from there) = `S : FlatM.HierSrc`; stores the level-free
                       listing `S.toHS` (Verilog/EmitMDOf.lean) for `hcheck`.  `C03Emit.toHS_emit : S.toHS.emit = S.emit`, so
                       `hcheck` = proved means the hypotheses of `C03Emit.real_text_wf_hierSrc` hold        -> ok | parse-error
     hcheck            parsed text = `HSrc.emit` and `HSrc.okb`  -> proved | text-differs | fails <modules whose conditions fail>
     wf                `WF.check` of the parsed text (consistency with the theorem)                 -> ok | errors -/
open Proto V FlatM C03Emit

structure Sess where
  d : Option Design := none
  s : Option FlatSrc := none
  h : Option HSrc := none
  hs0 : Option HSrc := none        -- `S.toHS` of the last `hsrc` request of the current design

/- decidable equality of descriptions, only for the `hs`-after-`hsrc` comparison (instances local to this driver) -/
deriving instance DecidableEq for FlatM.Kind
deriving instance DecidableEq for FlatM.RLeaf
deriving instance DecidableEq for FlatM.GKind
deriving instance DecidableEq for FlatM.RegSrc
deriving instance DecidableEq for C03Emit.SubRef
deriving instance DecidableEq for C03Emit.CI
deriving instance DecidableEq for C03Emit.MD
deriving instance DecidableEq for C03Emit.ModD
deriving instance DecidableEq for C03Emit.HSrc

def nats? (l : List SExp) : Option (List Nat) := l.mapM nat?
def atoms? (l : List SExp) : Option (List String) := l.mapM fun x => match x with | .atom a => some a | _ => none

def toKind : List SExp → Option Kind
  | [.atom "and2", a, b, r] => do some (.and2 (← nat? a) (← nat? b) (← nat? r))
  | [.atom "or2", a, b, r] => do some (.or2 (← nat? a) (← nat? b) (← nat? r))
  | [.atom "not1", a, r] => do some (.not1 (← nat? a) (← nat? r))
  | [.atom "buf", a, r] => do some (.buf (← nat? a) (← nat? r))
  | [.atom "zext", a, r] => do some (.zext (← nat? a) (← nat? r))
  | [.atom "bit", a, k, r] => do some (.bit (← nat? a) (← nat? k) (← nat? r))
  | [.atom "mux2", s, s0, s1, r] => do some (.mux2 (← nat? s) (← nat? s0) (← nat? s1) (← nat? r))
  | [.atom "const", v, r] => do some (.const (← nat? v) (← nat? r))
  | [.atom "shl", a, n, r] => do some (.shl (← nat? a) (← nat? n) (← nat? r))
  | [.atom "shr", a, n, r] => do some (.shr (← nat? a) (← nat? n) (← nat? r))
  | [.atom "addc", a, b, c, r] => do some (.addc (← nat? a) (← nat? b) (← nat? c) (← nat? r))
  | [.atom "sub", a, b, r] => do some (.sub (← nat? a) (← nat? b) (← nat? r))
  | [.atom "mul", a, b, r] => do some (.mul (← nat? a) (← nat? b) (← nat? r))
  | [.atom "range", a, hi, lo, r] => do some (.range (← nat? a) (← nat? hi) (← nat? lo) (← nat? r))
  | [.atom "catm", r, .list ins] => do some (.catm (← nats? ins) (← nat? r))
  | [.atom "catl", r, .list ins] => do some (.catl (← nats? ins) (← nat? r))
  | [.atom "rept", i, r] => do some (.rept (← nat? i) (← nat? r))
  | [.atom "sext", a, r] => do some (.sext (← nat? a) (← nat? r))
  | [.atom "smul", a, b, r] => do some (.smul (← nat? a) (← nat? b) (← nat? r))
  | _ => none

def toChild : SExp → Option FlatM.Child
  | .list (.atom "prim" :: rest) => do some (.prim (← toKind rest))
  | .list [.atom "reg", .atom i, .atom m, hr, he, rv, d, e, r, q] => do
      some (.reg { iname := i, mname := m,
                   leaf := { hasR := (← nat? hr) != 0, hasE := (← nat? he) != 0, rv := ← nat? rv, d := ← nat? d, e := ← nat? e,
                             r := ← nat? r, q := ← nat? q } })
  | _ => none

def toSrc : SExp → Option FlatSrc
  | .list [.atom "src", .atom top, .atom clk, .list (.atom "widths" :: ws), .list (.atom "names" :: ns),
           .list (.atom "inputs" :: is), .list (.atom "outputs" :: os), .list (.atom "locals" :: ls),
           .list (.atom "children" :: cs), .list (.atom "order" :: od)] => do
      some { top := top, clk := clk, widths := ← nats? ws, names := ← atoms? ns, inputs := ← nats? is, outputs := ← nats? os,
             locals := ← nats? ls, children := ← cs.mapM toChild, order := ← nats? od }
  | _ => none

def toGKind : List SExp → Option GKind
  | [.atom "bitsL", a, .list bits] => do some (.bitsL (← nat? a) (← nats? bits))
  | [.atom "bitsM", a, .list bits] => do some (.bitsM (← nat? a) (← nats? bits))
  | [.atom "nary", .atom op, .list ins, r, .list ts, mid] => do
      let o ← (match op with | "and" => some NOp.and | "or" => some NOp.or | "nor" => some NOp.nor | _ => none)
      some (.nary o (← nats? ins) (← nat? r) (← nats? ts) (← nat? mid))
  | [.atom "dm", m, a, b, r] => do some (.dm ((← nat? m) != 0) (← nat? a) (← nat? b) (← nat? r))
  | [.atom "equal", a, b, r, xr, m, x, y, m0, m1, m2, m3, .list bits, .list ts, nmid] => do
      some (.equal (← nat? a) (← nat? b) (← nat? r) (← nat? xr) (← nat? m) (← nat? x) (← nat? y) (← nat? m0) (← nat? m1) (← nat? m2)
        (← nat? m3) (← nats? bits) (← nats? ts) (← nat? nmid))
  | [.atom "eqc", a, v, r, .list bits, .list ns, .list ts] => do
      some (.eqc (← nat? a) (← nat? v) (← nat? r) (← nats? bits) (← nats? ns) (← nats? ts))
  | [.atom "nand2", a, b, r, t] => do some (.nand2 (← nat? a) (← nat? b) (← nat? r) (← nat? t))
  | [.atom "nor2", a, b, r, t] => do some (.nor2 (← nat? a) (← nat? b) (← nat? r) (← nat? t))
  | [.atom "xor2", a, b, r, m, x, y, m0, m1, m2, m3] => do
      some (.xor2 (← nat? a) (← nat? b) (← nat? r) (← nat? m) (← nat? x) (← nat? y) (← nat? m0) (← nat? m1) (← nat? m2) (← nat? m3))
  | _ => none

def toGChild : SExp → Option GChild
  | .list (.atom "prim" :: rest) => do some (.kind (.prim (← toKind rest)))
  | .list (.atom "gk" :: rest) => do some (.kind (← toGKind rest))
  | .list [.atom "reg", .atom i, .atom m, hr, he, rv, d, e, r, q] => do
      some (.reg { iname := i, mname := m,
                   leaf := { hasR := (← nat? hr) != 0, hasE := (← nat? he) != 0, rv := ← nat? rv, d := ← nat? d, e := ← nat? e,
                             r := ← nat? r, q := ← nat? q } })
  | _ => none

def toNames (l : List SExp) : Option (List (Nat × String)) :=
  l.mapM fun x => match x with | .list [k, .atom n] => do some (← nat? k, n) | _ => none
def toPorts (l : List SExp) : Option (List (String × Nat)) :=
  l.mapM fun x => match x with | .list [.atom n, k] => do some (n, ← nat? k) | _ => none


def toMod {χ : Type} (f : SExp → Option χ) : SExp → Option (FlatM.Mod χ)
  | .list [.atom "mod", .atom mn, .list (.atom "names" :: ns), .list (.atom "inputs" :: is), .list (.atom "outputs" :: os),
           .list (.atom "locals" :: ls), .list (.atom "children" :: cs)] => do
      some { mname := mn, names := ← toNames ns, inputs := ← toPorts is, outputs := ← toPorts os, locals := ← nats? ls,
             children := ← cs.mapM f }
  | _ => none

def toChildN : (n : Nat) → SExp → Option (ChildN n)
  | 0, x => toGChild x
  | n + 1, .list [.atom "sub", .atom i, m] => do some (.sub i (← toMod (toChildN n) m))
  | _ + 1, x => do some (.g (← toGChild x))

/-- `(hsrc depth clk (widths …) <mod> (order …))` (copy of the reader of lean/Drv/C01Hier.lean; `vorder` is not used here) -/
def toHSrc : SExp → Option HierSrc
  | .list [.atom "hsrc", dp, .atom clk, .list (.atom "widths" :: ws), top, .list (.atom "order" :: od)] => do
      let n ← nat? dp
      some { depth := n, clk := clk, widths := ← nats? ws, top := ← toMod (toChildN n) top, order := ← nats? od, vorder := [] }
  | _ => none

def toCI : SExp → Option CI
  | .list (.atom "prim" :: rest) => do some (.kind (.prim (← toKind rest)))
  | .list (.atom "gk" :: rest) => do some (.kind (← toGKind rest))
  | .list [.atom "reg", .atom i, .atom m, hr, he, rv, d, e, r, q] => do
      some (.reg { iname := i, mname := m,
                   leaf := { hasR := (← nat? hr) != 0, hasE := (← nat? he) != 0, rv := ← nat? rv, d := ← nat? d, e := ← nat? e,
                             r := ← nat? r, q := ← nat? q } })
  | .list [.atom "sub", .atom i, .atom m, hc, .list (.atom "inputs" :: is), .list (.atom "outputs" :: os)] => do
      some (.sub { iname := i, mname := m, hasClk := (← nat? hc) != 0, inputs := ← toPorts is, outputs := ← toPorts os })
  | _ => none

def toModD : SExp → Option ModD
  | .list [.atom "str", .atom mn, .list (.atom "names" :: ns), .list (.atom "inputs" :: is), .list (.atom "outputs" :: os),
           .list (.atom "locals" :: ls), .list (.atom "children" :: cs)] => do
      some (.str { mname := mn, names := ← toNames ns, inputs := ← toPorts is, outputs := ← toPorts os, locals := ← nats? ls,
                   children := ← cs.mapM toCI })
  | .list [.atom "regm", .atom i, .atom m, hr, he, rv, d, e, r, q] => do
      some (.reg { iname := i, mname := m,
                   leaf := { hasR := (← nat? hr) != 0, hasE := (← nat? he) != 0, rv := ← nat? rv, d := ← nat? d, e := ← nat? e,
                             r := ← nat? r, q := ← nat? q } })
  | _ => none

def toHS : SExp → Option HSrc
  | .list [.atom "hs", .atom clk, .list (.atom "widths" :: ws), .list (.atom "mods" :: ms)] => do
      some { clk := clk, widths := ← nats? ws, mods := ← ms.mapM toModD }
  | _ => none

def whyMD (H : HSrc) (m : MD) : List String :=
  (if decide m.nets.Nodup then [] else ["net-on-two-ports"]) ++
  (if decide ((m.nets.map m.nm).Nodup) then [] else ["names-not-injective"]) ++
  (if (m.inputs ++ m.outputs).all (fun pk => m.nm pk.2 == pk.1) then [] else ["port-name-shadowed"]) ++
  (if !m.hasClk || (decide (H.clk ∉ m.nets.map m.nm) && !V.WF.isKeyword H.clk) then [] else ["clk"]) ++
  (if m.children.all (fun c => (H.netsIn c).all fun k => decide (k ∈ m.nets)) then [] else ["net-out-of-scope"]) ++
  (if decide (HSrc.driven m).Nodup then [] else ["two-drivers"]) ++
  (if (m.outputs.map (·.2) ++ m.locals).all (fun k => decide (k ∈ HSrc.driven m)) then [] else ["undriven"]) ++
  (if m.inputs.all (fun pk => decide (pk.2 ∉ HSrc.driven m)) then [] else ["input-driven"]) ++
  (if decide (HSrc.inames m).Nodup &&
      ((HSrc.inames m).all fun i => !V.WF.isKeyword i && decide (i ∉ m.nets.map m.nm) && (!m.hasClk || i != H.clk)) then [] else ["instance-names"]) ++
  (if (m.nets.all fun k => !V.WF.isKeyword (m.nm k)) && !V.WF.isKeyword m.mname then [] else ["reserved-word"]) ++
  (if m.children.all H.refOK then [] else ["instance-binding"])

def failedMods (H : HSrc) : List String :=
  (H.mods.filter fun m => !H.modOK m).flatMap fun m => match m with
    | .str md => whyMD H md
    | .reg _ => ["reserved-word"]

def stepS (ss : Sess) (line : String) : Sess × String :=
  if line.startsWith "design " then
    match readDesign (line.drop 7).toString with
    | some d => ({ ss with d := some d, hs0 := none }, "ok")
    | none => (ss, "parse-error")
  else if line.startsWith "hsrc " then
    match (readS (line.drop 5).toString).bind toHSrc with
    | some S => ({ ss with h := some S.toHS, hs0 := some S.toHS }, "ok")
    | none => (ss, "parse-error")
  else if line.startsWith "src " then
    match (readS (line.drop 4).toString).bind toSrc with
    | some s => ({ ss with s := some s }, "ok")
    | none => (ss, "parse-error")
  else if line == "check" then
    match ss.d, ss.s with
    | some d, some s =>
      if d = s.emit then
        let bad := (s.checks.filter (fun c => !c.2)).map (·.1) ++ (if namesOKb s then [] else ["names"])
        if bad.isEmpty then (ss, "proved") else (ss, "fails " ++ ",".intercalate bad)
      else (ss, "text-differs")
    | _, _ => (ss, "bad-op")
  else if line.startsWith "hs " then
    match (readS (line.drop 3).toString).bind toHS with
    | some h =>
      match ss.hs0 with
      | some h0 => (ss, if h = h0 then "ok" else "differs")
      | none => ({ ss with h := some h }, "ok")
    | none => (ss, "parse-error")
  else if line == "hcheck" then
    match ss.d, ss.h with
    | some d, some h =>
      if d = h.emit then
        if h.okb then (ss, "proved") else (ss, "fails " ++ ",".intercalate (failedMods h))
      else (ss, "text-differs")
    | _, _ => (ss, "bad-op")
  else if line == "wf" then
    match ss.d with
    | some d => (ss, if (WF.check d).isEmpty then "ok" else "errors " ++ " ;; ".intercalate (WF.check d))
    | none => (ss, "bad-op")
  else (ss, "bad-op")

partial def loop (h : IO.FS.Stream) (o : IO.FS.Stream) (ss : Sess) : IO Unit := do
  let line ← h.getLine
  if line.isEmpty then return ()
  let (ss', out) := stepS ss (trim line)
  o.putStrLn out
  loop h o ss'

def main : IO Unit := do
  let i ← IO.getStdin
  let o ← IO.getStdout
  loop i o {}
  o.flush
