import Py4hwV.Drv.Proto
import Py4hwV.Lib.ArithSpec
/- C07 fallback driver: the specification only (imports no generated code), used for the failing-input search when
   Drv/C07.lean cannot run because a generated definition / bridge lemma no longer compiles.
   Same protocol as Drv/C07.lean, the model field is "-". -/
open Proto
def handle (line : String) : String :=
  match fields line with
  | [blk, p, x] =>
    match ArithSpec.eval blk (parseNats p) (parseNats x) with
    | some (o, cls) => s!"- | {showNats o} | {cls}"
    | none => "bad-op"
  | _ => "bad-op"
def main : IO Unit := Proto.run handle
