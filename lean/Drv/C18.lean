import Py4hwV.Drv.Proto
import Py4hwV.Schem.Checker
import Py4hwV.Schem.Place
import Py4hwV.Schem.Column
import Py4hwV.Schem.Track
import Py4hwV.Schem.Pass
import Py4hwV.Schem.Pins
/- C18 driver: runs the verified layout checker `Schem.check` on exported designs / layouts.
   request:  chk | insIns | insOuts | inp | outp | syms | mat | nets
               insIns/insOuts/mat : ';'-separated int lists, each with a leading dummy 0 (so that empty lists survive)
               sym  : kind,ref,hascell,r,c,x,y,w,h,nIn,nOut,(ok,x,y)*nIn,(ok,x,y)*nOut    kind: 0 inst 1 inPort 2 outPort 3 pass 4 fbStart 5 fbStop 6 other
               net  : wire,src,sp,snk,tp,x0,y0,x1,y1,…      negative wire/src/snk = unknown (mapped out of range), negative port = none
   answer:   <premise 0/1> | <number of errors> | err;err;…          (err = symCount:inst:3, wire:5:foreignPin, …)
   request:  place | GRID_SIZE,CELL_MARGIN_VERTICAL,CELL_MARGIN_HORIZONTAL,NET_SPACING,NET_TRACK_SPACING | tracks | rows of w:h cells (';' rows, ',' cells, '_' = empty cell)
   answer:   xs | ys          (column x and row y computed by the model of replaceAsColRow)
   request:  col | insIns | insOuts | inp | outp
   answer:   levels of the children | symbol_matrix computed by the model of columnAssignment (rows ';', -1 = empty)
   request:  trk | number of columns | nets as wire,srcRow,srcCol,snkRow (';' separated)
   answer:   track of every net (-1 = none) | tracks handed out per column            (model of trackAssignment)
   request:  rt | consts | nets as kind,p0x,p0y,pfx,pfy,srcX,sourcewidth,track  (kind 0 FeedbackStop source, 1 FeedbackStart sink, 2 plain)
   answer:   polylines x0,y0,x1,y1,… (';' separated)                                   (model of routeNetSquare)
   request:  pt | insIns | insOuts | inp | outp | sinkOrd (S,T1,T2,… ';' separated) | wireOrd (S,T,w1,w2,… ';' separated)
   answer:   ok / err:<which> | orders are permutations 0/1 | nets of createNets | markers (0 pass 1 fbStart 2 fbStop) | matrix | nets
             (nets as wire,src,sp,snk,tp with -1 = None)                  (models of createNets and passthroughCreation)
   request:  pins | class number (Schem.Pins.clsOfNat), instanceWidth | names of the in ports | names of the out ports
   answer:   width,height | Fits,Tidy,Realizable (0/1) | getPortSinkPos of in port 0..nIn (x,y or _ = raises; the last one is a port
             that is not the object's) | getPortSourcePos of out port 0..nOut                      (model of the symbol classes) -/
open Proto Schem

def nat! (i : Int) : Nat := i.toNat
def optNat (i : Int) : Option Nat := if i < 0 then none else some i.toNat

def parseKind (k ref : Int) : Kind :=
  if ref < 0 ∧ k ≤ 2 then .other else
  match k with
  | 0 => .inst ref.toNat | 1 => .inPort ref.toNat | 2 => .outPort ref.toNat
  | 3 => .pass | 4 => .fbStart | 5 => .fbStop | _ => .other

def parsePins : Nat → List Int → List (Option Pt) × List Int
  | 0, l => ([], l)
  | n + 1, ok :: x :: y :: rest =>
    let (ps, r) := parsePins n rest
    ((if ok == 1 then some (x, y) else none) :: ps, r)
  | _, _ => ([], [])

def parseSym (l : List Int) : Sym :=
  match l with
  | k :: ref :: hc :: r :: c :: x :: y :: w :: h :: ni :: no :: rest =>
    let (ip, rest) := parsePins ni.toNat rest
    let (op, _) := parsePins no.toNat rest
    { kind := parseKind k ref, cell := if hc == 1 ∧ 0 ≤ r ∧ 0 ≤ c then some (r.toNat, c.toNat) else none,
      x := x, y := y, w := w, h := h, ipins := ip, opins := op }
  | _ => { kind := .other, cell := none, x := 0, y := 0, w := 0, h := 0, ipins := [], opins := [] }

def parsePath : List Int → List Pt
  | x :: y :: rest => (x, y) :: parsePath rest
  | _ => []

def parseNet (nsyms nw : Nat) (l : List Int) : Net :=
  match l with
  | w :: s :: sp :: t :: tp :: rest =>
    { wire := if w < 0 then nw else w.toNat, src := if s < 0 then nsyms else s.toNat, sp := optNat sp,
      snk := if t < 0 then nsyms else t.toNat, tp := optNat tp, path := parsePath rest }
  | _ => { wire := nw, src := nsyms, sp := none, snk := nsyms, tp := none, path := [] }

def showKind : Kind → String
  | .inst i => s!"inst:{i}" | .inPort p => s!"inPort:{p}" | .outPort p => s!"outPort:{p}"
  | .pass => "pass" | .fbStart => "fbStart" | .fbStop => "fbStop" | .other => "other"

def showWErr : WErr → String
  | .badEnd => "badEnd" | .stray => "stray" | .driverUntouched => "driverUntouched" | .readerUntouched => "readerUntouched"
  | .logDisconnected => "logDisconnected" | .unrouted => "unrouted" | .diagonal => "diagonal"
  | .geoDisconnected => "geoDisconnected" | .foreignPin => "foreignPin"

def showErr : Err → String
  | .symCount k => s!"symCount:{showKind k}" | .symKind k => s!"symKind:{k}" | .notPlaced k => s!"notPlaced:{k}"
  | .badCell r c => s!"badCell:{r}:{c}" | .overlap i j => s!"overlap:{i}:{j}" | .netWire i => s!"netWire:{i}"
  | .markerShared k => s!"markerShared:{k}" | .wire w e => s!"wire:{w}:{showWErr e}"

def dropLead (l : List (List Int)) : List (List Int) := l.map List.tail

def parseCell (s : String) : Option (Int × Int) :=
  match (trim s).splitOn ":" with
  | [a, b] => match parseInt? a, parseInt? b with
              | some x, some y => some (x, y)
              | _, _ => none
  | _ => none

def handle (line : String) : String :=
  match fields line with
  | ["chk", ii, io, inp, outp, syms, mat, nets] =>
    let ins := dropLead (parseLists ii)
    let outs := dropLead (parseLists io)
    let d : Design := { insts := (ins.zip outs).map fun (a, b) => { ins := a.map nat!, outs := b.map nat! },
                        inp := (parseInts inp).map nat!, outp := (parseInts outp).map nat! }
    let nw := (d.usedList.foldl max 0) + 1
    let ss := (parseLists syms).map parseSym
    let L : Layout := { syms := ss.toArray,
                        mat := (dropLead (parseLists mat)).map (fun row => row.map optNat),
                        nets := (parseLists nets).map (parseNet ss.length nw) }
    let es := check d L
    s!"{showBool d.wellDrivenB} | {es.length} | {";".intercalate ((es.take 40).map showErr)}"
  | ["col", ii, io, inp, outp] =>
    let ins := dropLead (parseLists ii)
    let outs := dropLead (parseLists io)
    let d : Design := { insts := (ins.zip outs).map fun (a, b) => { ins := a.map nat!, outs := b.map nat! },
                        inp := (parseInts inp).map nat!, outp := (parseInts outp).map nat! }
    let lv : List Int := (Column.levelList d).map fun l => Int.ofNat l
    let m := (Column.colMatrixFast d).map fun row => row.map fun o => match o with | some k => (k : Int) | none => -1
    s!"{showInts lv} | {showLists m}"
  | ["pt", ii, io, inp, outp, so, wo] =>
    let ins := dropLead (parseLists ii)
    let outs := dropLead (parseLists io)
    let d : Design := { insts := (ins.zip outs).map fun (a, b) => { ins := a.map nat!, outs := b.map nat! },
                        inp := (parseInts inp).map nat!, outp := (parseInts outp).map nat! }
    let sinkOrd : List (Nat × List Nat) := (parseLists so).filterMap fun l => match l with
      | S :: ts => some (S.toNat, ts.map nat!) | [] => none
    let wireOrd : List ((Nat × Nat) × List Nat) := (parseLists wo).filterMap fun l => match l with
      | S :: T :: ws => some ((S.toNat, T.toNat), ws.map nat!) | _ => none
    let showNet (n : Pass.PNet) : List Int :=
      [(n.wire : Int), n.src, match n.sp with | some p => (p : Int) | none => -1, n.snk, match n.tp with | some p => (p : Int) | none => -1]
    let n0 := match Pass.createNets d with | .ok ns => showLists (ns.map showNet) | .error _ => "err"
    let okk := showBool (Pass.ordersOk d sinkOrd wireOrd)
    match Pass.passthroughCreationOn d (Column.colMatrixFast d) sinkOrd wireOrd with
    | .ok st =>
      let mk := st.marks.map fun k => match k with | .pass => (0 : Int) | .fbStart => 1 | .fbStop => 2
      let m := st.mat.map fun row => row.map fun o => match o with | some k => (k : Int) | none => -1
      s!"ok | {okk} | {n0} | {showInts mk} | {showLists m} | {showLists (st.nets.map showNet)}"
    | .error e =>
      let nm := match e with | .noSource => "noSource" | .notInRemove => "notInRemove" | .multiple => "multiple"
                             | .assertSinkcol => "assertSinkcol" | .noPos => "noPos"
      s!"err:{nm} | {okk} | {n0} | | | "
  | ["trk", ncs, nets] =>
    let ns : List Track.TNet := (parseLists nets).filterMap fun l => match l with
      | [w, sr, sc, tr] => some { wire := w.toNat, sr := sr.toNat, sc := sc.toNat, tr := tr.toNat }
      | _ => none
    let ts := (List.range ns.length).map fun i => match Track.trackOf ns i with | some t => (t : Int) | none => -1
    let cs := (List.range ((parseInts ncs).headD 0).toNat).map fun c => (Track.tracksOfColumn ns c : Int)
    s!"{showInts ts} | {showInts cs}"
  | ["rt", cf, nets] =>
    let cfg : Place.Cfg := match parseInts cf with
      | [gs, mv, mh, ns, ts] => { gs := gs, mv := mv, mh := mh, ns := ns, ts := ts }
      | _ => Place.Cfg.std
    let ps := (parseLists nets).map fun l => match l with
      | [k, p0x, p0y, pfx, pfy, sx, sw, t] =>
        let kind := if k == 0 then Track.RKind.stopSource else if k == 1 then Track.RKind.startSink else Track.RKind.plain
        (Track.route cfg kind (p0x, p0y) (pfx, pfy) sx sw t.toNat).flatMap fun p => [p.1, p.2]
      | _ => []
    showLists ps
  | ["place", cf, tr, cells] =>
    let cfg : Place.Cfg := match parseInts cf with
      | [gs, mv, mh, ns, ts] => { gs := gs, mv := mv, mh := mh, ns := ns, ts := ts }
      | _ => Place.Cfg.std
    let tracks := (parseInts tr).map nat!
    let m : List (List (Option (Int × Int))) :=
      if (trim cells).isEmpty then [] else ((trim cells).splitOn ";").map fun row =>
        if (trim row).isEmpty then [] else ((trim row).splitOn ",").map parseCell
    let (xs, ys) := Place.placeWith cfg tracks m
    s!"{showInts xs} | {showInts ys}"
  | ["pins", ck, ii, oo] =>
    match parseInts ck with
    | [c, iw] =>
      match Pins.clsOfNat c.toNat with
      | some cls =>
        let sh : Pins.Shape := { cls := cls, iw := iw, ins := (parseInts ii).map nat!, outs := (parseInts oo).map nat! }
        let showP (o : Option Pt) : String := match o with | some p => s!"{p.1},{p.2}" | none => "_"
        let si := (List.range (sh.ins.length + 1)).map fun i => showP (sh.sinkPos i)
        let so := (List.range (sh.outs.length + 1)).map fun i => showP (sh.srcPos i)
        s!"{sh.width},{sh.height} | {showBool sh.fitsB},{showBool sh.tidyB},{showBool sh.realizableB} | {";".intercalate si} | {";".intercalate so}"
      | none => "bad-class"
    | _ => "bad-op"
  | _ => "bad-op"

def main : IO Unit := Proto.run handle
