import Py4hwV.Drv.Proto
import Py4hwV.Lib.FpSpec
/- C13 fallback driver: the specification / oracle only (imports no generated code and no model), same protocol as
   Drv/C13.lean with "?" in the model field.  Used by harness/c13.py when the model modules no longer build. -/
open Proto
def handle (line : String) : String :=
  match fields line with
  | [blk, p, x, o] =>
    let r := FpSpec.oracle blk (parseInts p) (parseNats x) (parseNats o)
    s!"? | {r.1} | {r.2}"
  | _ => "bad-op"
def main : IO Unit := Proto.run handle
