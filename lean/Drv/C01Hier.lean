import Py4hwV.Drv.Proto
import Py4hwV.Verilog.SExp
import Py4hwV.Emit.Hier
/- C01 hierarchical / generalised flat-text driver (session).
     design <sexp>     the parsed real text (harness/vparse.py)                                   -> ok | parse-error
     hsrc <sexp>       the imported description (harness/c01.py export_hier)                      -> ok | parse-error
     check             parsed text = `HierSrc.emit` (decidable equality) and every condition of `CertSrc.checks` on
                       `HierSrc.cert` (the sources-first order of the assigns is computed here and stored in `vorder`)
                       and `HierSrc.modsOKb` -> ok | text-differs … | fails <names of failed conditions>
     vorder            the computed sources-first order
     repr              the Lean terms of the description and of the parsed text (used to write the examples of Props/C01Hier.lean) -/
open Proto V FlatM

structure Sess where
  d : Option Design := none
  s : Option HierSrc := none

def nats? (l : List SExp) : Option (List Nat) := l.mapM nat?

def toKind : List SExp → Option Kind
  | [.atom "and2", a, b, r] => do some (.and2 (← nat? a) (← nat? b) (← nat? r))
  | [.atom "or2", a, b, r] => do some (.or2 (← nat? a) (← nat? b) (← nat? r))
  | [.atom "not1", a, r] => do some (.not1 (← nat? a) (← nat? r))
  | [.atom "buf", a, r] => do some (.buf (← nat? a) (← nat? r))
  | [.atom "zext", a, r] => do some (.zext (← nat? a) (← nat? r))
  | [.atom "bit", a, k, r] => do some (.bit (← nat? a) (← nat? k) (← nat? r))
  | [.atom "mux2", s, s0, s1, r] => do some (.mux2 (← nat? s) (← nat? s0) (← nat? s1) (← nat? r))
  | [.atom "const", v, r] => do some (.const (← nat? v) (← nat? r))
  | [.atom "shl", a, n, r] => do some (.shl (← nat? a) (← nat? n) (← nat? r))
  | [.atom "shr", a, n, r] => do some (.shr (← nat? a) (← nat? n) (← nat? r))
  | [.atom "addc", a, b, c, r] => do some (.addc (← nat? a) (← nat? b) (← nat? c) (← nat? r))
  | [.atom "sub", a, b, r] => do some (.sub (← nat? a) (← nat? b) (← nat? r))
  | [.atom "mul", a, b, r] => do some (.mul (← nat? a) (← nat? b) (← nat? r))
  | [.atom "range", a, hi, lo, r] => do some (.range (← nat? a) (← nat? hi) (← nat? lo) (← nat? r))
  | [.atom "catm", r, .list ins] => do some (.catm (← nats? ins) (← nat? r))
  | [.atom "catl", r, .list ins] => do some (.catl (← nats? ins) (← nat? r))
  | [.atom "rept", i, r] => do some (.rept (← nat? i) (← nat? r))
  | [.atom "sext", a, r] => do some (.sext (← nat? a) (← nat? r))
  | [.atom "smul", a, b, r] => do some (.smul (← nat? a) (← nat? b) (← nat? r))
  | _ => none

def toGKind : List SExp → Option GKind
  | [.atom "bitsL", a, .list bits] => do some (.bitsL (← nat? a) (← nats? bits))
  | [.atom "bitsM", a, .list bits] => do some (.bitsM (← nat? a) (← nats? bits))
  | [.atom "nary", .atom op, .list ins, r, .list ts, mid] => do
      let o ← (match op with | "and" => some NOp.and | "or" => some NOp.or | "nor" => some NOp.nor | _ => none)
      some (.nary o (← nats? ins) (← nat? r) (← nats? ts) (← nat? mid))
  | [.atom "dm", m, a, b, r] => do some (.dm ((← nat? m) != 0) (← nat? a) (← nat? b) (← nat? r))
  | [.atom "equal", a, b, r, xr, m, x, y, m0, m1, m2, m3, .list bits, .list ts, nmid] => do
      some (.equal (← nat? a) (← nat? b) (← nat? r) (← nat? xr) (← nat? m) (← nat? x) (← nat? y) (← nat? m0) (← nat? m1) (← nat? m2)
        (← nat? m3) (← nats? bits) (← nats? ts) (← nat? nmid))
  | [.atom "eqc", a, v, r, .list bits, .list ns, .list ts] => do
      some (.eqc (← nat? a) (← nat? v) (← nat? r) (← nats? bits) (← nats? ns) (← nats? ts))
  | [.atom "nand2", a, b, r, t] => do some (.nand2 (← nat? a) (← nat? b) (← nat? r) (← nat? t))
  | [.atom "nor2", a, b, r, t] => do some (.nor2 (← nat? a) (← nat? b) (← nat? r) (← nat? t))
  | [.atom "xor2", a, b, r, m, x, y, m0, m1, m2, m3] => do
      some (.xor2 (← nat? a) (← nat? b) (← nat? r) (← nat? m) (← nat? x) (← nat? y) (← nat? m0) (← nat? m1) (← nat? m2) (← nat? m3))
  | _ => none

def toGChild : SExp → Option GChild
  | .list (.atom "prim" :: rest) => do some (.kind (.prim (← toKind rest)))
  | .list (.atom "gk" :: rest) => do some (.kind (← toGKind rest))
  | .list [.atom "reg", .atom i, .atom m, hr, he, rv, d, e, r, q] => do
      some (.reg { iname := i, mname := m,
                   leaf := { hasR := (← nat? hr) != 0, hasE := (← nat? he) != 0, rv := ← nat? rv, d := ← nat? d, e := ← nat? e,
                             r := ← nat? r, q := ← nat? q } })
  | _ => none

def toNames (l : List SExp) : Option (List (Nat × String)) :=
  l.mapM fun x => match x with | .list [k, .atom n] => do some (← nat? k, n) | _ => none
def toPorts (l : List SExp) : Option (List (String × Nat)) :=
  l.mapM fun x => match x with | .list [.atom n, k] => do some (n, ← nat? k) | _ => none

def toMod {χ : Type} (f : SExp → Option χ) : SExp → Option (FlatM.Mod χ)
  | .list [.atom "mod", .atom mn, .list (.atom "names" :: ns), .list (.atom "inputs" :: is), .list (.atom "outputs" :: os),
           .list (.atom "locals" :: ls), .list (.atom "children" :: cs)] => do
      some { mname := mn, names := ← toNames ns, inputs := ← toPorts is, outputs := ← toPorts os, locals := ← nats? ls,
             children := ← cs.mapM f }
  | _ => none

def toChildN : (n : Nat) → SExp → Option (ChildN n)
  | 0, x => toGChild x
  | n + 1, .list [.atom "sub", .atom i, m] => do some (.sub i (← toMod (toChildN n) m))
  | _ + 1, x => do some (.g (← toGChild x))

/-- `(hsrc depth clk (widths …) <mod> (order …))`; a block whose nesting is shallower than its position allows is read at the depth
    of its position (its children are wrapped, the emitted text is the same) -/
def toHSrc : SExp → Option HierSrc
  | .list [.atom "hsrc", dp, .atom clk, .list (.atom "widths" :: ws), top, .list (.atom "order" :: od)] => do
      let n ← nat? dp
      some { depth := n, clk := clk, widths := ← nats? ws, top := ← toMod (toChildN n) top, order := ← nats? od, vorder := [] }
  | _ => none

/-- a sources-first order of the assigns (quadratic Kahn); assigns in a cycle are appended at the end (the check then fails) -/
def kahn (as : List (LHS × Expr)) : List Nat :=
  let idx := (List.range as.length).map fun i => (i, as.getD i default)
  let rec go (fuel : Nat) (rem : List (Nat × (LHS × Expr))) (acc : List Nat) : List Nat :=
    match fuel with
    | 0 => acc ++ rem.map (·.1)
    | fuel + 1 =>
      if rem.isEmpty then acc else
      let tg := rem.map fun x => tgt x.2
      let ready := rem.filter fun x => (reads x.2.2).all fun n => !tg.contains n
      if ready.isEmpty then acc ++ rem.map (·.1) else
      go fuel (rem.filter fun x => !(ready.any fun y => y.1 == x.1)) (acc ++ ready.map (·.1))
  go (as.length + 1) idx []

def firstDiff : List Module → List Module → String
  | [], [] => "none"
  | a :: as, b :: bs => if a = b then firstDiff as bs else s!"{a.name}: text {reprStr a} /// model {reprStr b}"
  | a :: _, [] => s!"extra module in text: {a.name}"
  | [], b :: _ => s!"module missing in text: {b.name}"

def stepS (ss : Sess) (line : String) : Sess × String :=
  if line.startsWith "design " then
    match readDesign (line.drop 7).toString with
    | some d => ({ ss with d := some d }, "ok")
    | none => (ss, "parse-error")
  else if line.startsWith "hsrc " then
    match (readS (line.drop 5).toString).bind toHSrc with
    | some s => ({ ss with s := some { s with vorder := kahn s.cert.assigns } }, "ok")
    | none => (ss, "parse-error")
  else if line == "check" then
    match ss.d, ss.s with
    | some d, some s =>
      if d = s.emit then
        let bad := (("mods", s.modsOKb) :: s.cert.checks).filter (fun c => !c.2)
        if bad.isEmpty then (ss, "ok") else (ss, "fails " ++ ",".intercalate (bad.map (·.1)))
      else (ss, "text-differs " ++ ((firstDiff d s.emit).replace "\n" " "))
    | _, _ => (ss, "bad-op")
  else if line == "vorder" then
    match ss.s with
    | some s => (ss, " ".intercalate (s.vorder.map toString))
    | none => (ss, "bad-op")
  else if line == "repr" then
    match ss.d, ss.s with
    | some d, some _ => (ss, (reprStr d).replace "\n" " ")
    | _, _ => (ss, "bad-op")
  else (ss, "bad-op")

partial def loop (h : IO.FS.Stream) (o : IO.FS.Stream) (ss : Sess) : IO Unit := do
  let line ← h.getLine
  if line.isEmpty then return ()
  let (ss', out) := stepS ss (trim line)
  o.putStrLn out
  loop h o ss'

def main : IO Unit := do
  let i ← IO.getStdin
  let o ← IO.getStdout
  loop i o {}
  o.flush
