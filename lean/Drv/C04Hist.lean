import Py4hwV.Drv.Proto
import Py4hwV.Net.HistIR
/- C04 history driver: `Net.Hist` sessions on concrete object graphs (`Net.HNet`).  The evaluation order is COMPUTED here by the
   sorter model from the exported dependency graph (never taken from the implementation).  Stateful session:
     reset
     wires <w0,w1,...>                                          widths by wire id (0 = null wire); may be re-sent longer
     leaf <kind> | cfg | st0 | ins | inls | outs | outls | <p><c>   appended; ids by order of arrival
     graph | <props, allLeaves order> | <succs: one comma list per leaf id, ';' separated>
     cleardrivers        driver <enable or _> | <ids>
     cons <w> <v>        pending constructor put         fresh <k>     pending: leaf k is new (its state starts at st0)
     create   -> ok | E          extend -> ok | E        (consume the pending cons / fresh lists)
     poke <w> <v>    clk <n>     vals -> wire values     order -> evaluation order in use
     wf -> 1/0       (HNet.wfB of the current object graph: the decidable hypotheses of C04.history_settled)
     settled -> 1/0  (Net.settledB on the model state)
     settled-obs | <v0,v1,...> -> 1/0   the property's state predicate evaluated on OBSERVED wire values of the implementation -/
open Proto Net

structure DSess where
  n     : HNet := default
  cons  : List (Nat × Int) := []
  fresh : List Nat := []
  ss    : Option (Sess LSt) := none

def words (s : String) : List String := (s.splitOn " ").filter (· ≠ "")

def step (x : DSess) (line : String) : DSess × String :=
  match fields line with
  | [one] =>
    match words one with
    | ["reset"] => ({}, "ok")
    | ["wires", ws] => ({ x with n := { x.n with widths := parseNats ws } }, "ok")
    | ["cleardrivers"] => ({ x with n := { x.n with drivers := [] } }, "ok")
    | ["cons", w, v] =>
      match w.toNat?, v.toInt? with
      | some w, some v => ({ x with cons := x.cons ++ [(w, v)] }, "ok")
      | _, _ => (x, "bad-op")
    | ["fresh", k] =>
      match k.toNat? with
      | some k => ({ x with fresh := x.fresh ++ [k] }, "ok")
      | _ => (x, "bad-op")
    | ["create"] =>
      match create x.n.hier x.n.st0 x.cons with
      | some ss => ({ x with ss := some ss, cons := [], fresh := [] }, "ok")
      | none => ({ x with ss := none, cons := [], fresh := [] }, "E")
    | ["extend"] =>
      match x.ss with
      | some ss =>
        match stepH ss (.extend x.n.hier (x.fresh.map fun k => (k, x.n.st0 k)) x.cons) with
        | some ss' => ({ x with ss := some ss', cons := [], fresh := [] }, "ok")
        | none => ({ x with ss := none, cons := [], fresh := [] }, "E")
      | none => (x, "bad-op")
    | ["poke", w, v] =>
      match x.ss, w.toNat?, v.toInt? with
      | some ss, some w, some v => ({ x with ss := stepH ss (.poke w v) }, "ok")
      | _, _, _ => (x, "bad-op")
    | ["clk", k] =>
      match x.ss, k.toNat? with
      | some ss, some k => ({ x with ss := stepH ss (.clk k) }, "ok")
      | _, _ => (x, "bad-op")
    | ["vals"] =>
      match x.ss with
      | some ss => (x, showNats ((List.range x.n.widths.length).map ss.s.val))
      | none => (x, "bad-op")
    | ["order"] =>
      match x.ss with
      | some ss => (x, showNats ss.d.order)
      | none => (x, "bad-op")
    | ["wf"] => (x, showBool x.n.wfB)
    | ["settled"] =>
      match x.ss with
      | some ss => (x, showBool (settledB ss.d ss.h.comb ss.s.val ss.s.st))
      | none => (x, "bad-op")
    | _ => (x, "bad-op")
  | ["settled-obs", vs] =>
    match x.ss with
    | some ss =>
      let obs := parseNats vs
      (x, showBool (settledB ss.d ss.h.comb (fun w => obs.getD w 0) ss.s.st))
    | none => (x, "bad-op")
  | ["graph", ps, ss] =>
    ({ x with n := { x.n with props := parseNats ps, succs := (parseLists ss).map (·.map Int.toNat) } }, "ok")
  | [hd, ks] =>
    match words hd with
    | ["driver", e] =>
      let en := if e = "_" then none else e.toNat?
      ({ x with n := { x.n with drivers := x.n.drivers ++ [{ enable := en, clockables := parseNats ks }] } }, "ok")
    | _ => (x, "bad-op")
  | [hd, c, s0, i, il, o, ol, fl] =>
    match words hd with
    | ["leaf", k] =>
      let li : LeafInst := { kind := k, cfg := parseLists c, st0 := parseLists s0, ins := parseNats i,
                             inls := (parseLists il).map (·.map Int.toNat), outs := parseNats o,
                             outls := (parseLists ol).map (·.map Int.toNat),
                             isProp := fl.contains 'p', isClk := fl.contains 'c' }
      ({ x with n := { x.n with leaves := x.n.leaves ++ [li] } }, "ok")
    | _ => (x, "bad-op")
  | _ => (x, "bad-op")

partial def loop (h : IO.FS.Stream) (o : IO.FS.Stream) (x : DSess) : IO Unit := do
  let line ← h.getLine
  if line.isEmpty then return ()
  let (x', out) := step x (trim line)
  o.putStrLn out
  loop h o x'

def main : IO Unit := do
  let i ← IO.getStdin
  let o ← IO.getStdout
  loop i o {}
  o.flush
