import Py4hwV.Drv.Proto
import Py4hwV.Net.IR
/- Netlist simulation driver (generated leaf functions + Net.Sim).  Stateful session:
     wires <w0,w1,...>                                           widths by wire id
     leaf <kind> | cfg | st0 | ins | inls | outs | outls | <p><c>   (appended; ids by order)
     order <ids>        driver <enable or _> | <ids>       begin   (power-up + construction-time propagateAll)
     cons <w> <v> (construction-time put, before begin)   poke <w> <v>       clk <n>       prop        settle-check
     vals  -> all wire values          prepared -> number of prepared wires     clks -> total_clks
     st <k> -> state of leaf k -/
open Proto Net
structure Sess where
  nl : Netlist := { widths := [], leaves := [], order := [], drivers := [] }
  s  : Option (State LSt) := none
  cons : List (Nat × Int) := []

def words (s : String) : List String := (s.splitOn " ").filter (· ≠ "")

def step (ss : Sess) (line : String) : Sess × String :=
  let fs := fields line
  match fs with
  | [one] =>
    match words one with
    | ["wires", ws] => ({ ss with nl := { ss.nl with widths := parseNats ws } }, "ok")
    | ["wires"] => ({ ss with nl := { ss.nl with widths := [] } }, "ok")
    | ["order", ks] => ({ ss with nl := { ss.nl with order := parseNats ks } }, "ok")
    | ["order"] => ({ ss with nl := { ss.nl with order := [] } }, "ok")
    | ["reset"] => ({}, "ok")
    | ["cleardrivers"] => ({ ss with nl := { ss.nl with drivers := [] } }, "ok")
    | ["begin"] => ({ ss with s := some (Net.initC ss.nl.design ss.nl.st0 ss.cons) }, "ok")
    | ["cons", w, v] =>
      match w.toNat?, v.toInt? with
      | some w, some v => ({ ss with cons := ss.cons ++ [(w, v)] }, "ok")
      | _, _ => (ss, "bad-op")
    | ["poke", w, v] =>
      match ss.s, w.toNat?, v.toInt? with
      | some s, some w, some v => ({ ss with s := some (putW ss.nl.design s (w, v)) }, "ok")
      | _, _, _ => (ss, "bad-op")
    | ["clk", n] =>
      match ss.s, n.toNat? with
      | some s, some n => ({ ss with s := some (clk ss.nl.design n s) }, "ok")
      | _, _ => (ss, "bad-op")
    | ["prop"] =>
      match ss.s with
      | some s => ({ ss with s := some (propagateAll ss.nl.design s) }, "ok")
      | _ => (ss, "bad-op")
    | ["vals"] =>
      match ss.s with
      | some s => (ss, showNats ((List.range ss.nl.widths.length).map s.val))
      | _ => (ss, "bad-op")
    | ["prepared"] =>
      match ss.s with
      | some s => (ss, toString s.prepared.length)
      | _ => (ss, "bad-op")
    | ["clks"] =>
      match ss.s with
      | some s => (ss, toString s.clks)
      | _ => (ss, "bad-op")
    | ["st", k] =>
      match ss.s, k.toNat? with
      | some s, some k => (ss, showLists (s.st k))
      | _, _ => (ss, "bad-op")
    | _ => (ss, "bad-op")
  | [hd, ks] =>
    match words hd with
    | ["driver", e] =>
      let en := if e = "_" then none else e.toNat?
      ({ ss with nl := { ss.nl with drivers := ss.nl.drivers ++ [{ enable := en, clockables := parseNats ks }] } }, "ok")
    | _ => (ss, "bad-op")
  | [hd, c, s0, i, il, o, ol, fl] =>
    match words hd with
    | ["leaf", k] =>
      let li : LeafInst := { kind := k, cfg := parseLists c, st0 := parseLists s0, ins := parseNats i,
                             inls := (parseLists il).map (·.map Int.toNat), outs := parseNats o,
                             outls := (parseLists ol).map (·.map Int.toNat),
                             isProp := fl.contains 'p', isClk := fl.contains 'c' }
      ({ ss with nl := { ss.nl with leaves := ss.nl.leaves ++ [li] } }, "ok")
    | _ => (ss, "bad-op")
  | _ => (ss, "bad-op")

partial def loop (h : IO.FS.Stream) (o : IO.FS.Stream) (ss : Sess) : IO Unit := do
  let line ← h.getLine
  if line.isEmpty then return ()
  let (ss', out) := step ss (trim line)
  o.putStrLn out
  loop h o ss'

def main : IO Unit := do
  let i ← IO.getStdin
  let o ← IO.getStdout
  loop i o {}
  o.flush
