import Py4hwV.Drv.Proto
import Py4hwV.Build.Model
/- C11 driver: construction-API state machine + checkIntegrity + the property's oracle functions.  Stateful session,
   one request per line, space separated (names never contain spaces; `_` = None, `-` = empty list):
     reset
     op newLogic <parent|_> <name> <prim01>      op wire <parent> <name> <bidir01>
     op addIn|addOut|addInOut <obj> <name> <wire>
     op rename <wire> <name>      op reparent <wire> <obj>      op reparentAndRename <wire> <obj> <name>
     op newIface <obj> <name>     op ifS2K|ifK2S <iface> <name>
     op addIfSource|addIfSink <obj> <name|-> <iface>             op disconnect <wire> <obj>       op wires <parent> <prefix> <num>
        -> ok | err <kind …>
     opseq <op> ; <op> ; …     a constructor body: stops at the first raise
     rawobj <parent|_> <name> <prim> <children k=v,…> <wires k=v,…> <in> <out> <io>     (load a snapshot of a real hierarchy)
     rawwire <parent> <name> <bidir> <source|_> <sources> <sinks>
     rawport <kind in|out|inout> <parent> <name> <wire|_> <reg>
     snap                -> canonical dump of the whole graph
     check <obj>         -> checkIntegrity outcome          spec <obj> -> 1 iff some port below is attached to an undriven wire
     drivers <wire>      -> ports that registered as drivers of the wire        source <wire> -> source or _ -/
open Proto Build

def words (s : String) : List String := (s.splitOn " ").filter (· ≠ "")

def optNat (s : String) : Option (Option Nat) := if s = "_" then some none else s.toNat?.map some
def natList (s : String) : List Nat := if s = "-" then [] else (s.splitOn ",").filterMap (·.toNat?)
def dictOf (s : String) : Dict :=
  if s = "-" then [] else (s.splitOn ",").filterMap fun kv =>
    match kv.splitOn "=" with
    | [k, v] => v.toNat?.map fun n => (k, n)
    | _ => none
def bool01 (s : String) : Bool := s = "1"

def showErr : Err → String
  | .dupChild => "dupChild" | .dupWire => "dupWire" | .dupSource => "dupSource" | .keyError => "keyError"
  | .notConnected => "notConnected" | .noSource o w => s!"noSource {o} {w}" | .notPort p => s!"notPort {p}"
  | .attr => "attr" | .badRef => "badRef" | .fuel => "fuel"

def showRes : Res → String
  | .ok _ => "ok"
  | .error e => "err " ++ showErr e

def showON : Option Nat → String | none => "_" | some n => toString n
def showL (l : List Nat) : String := if l.isEmpty then "-" else ",".intercalate (l.map toString)
def showD (d : List (String × Nat)) : String :=
  if d.isEmpty then "-" else ",".intercalate (d.map fun kv => kv.1 ++ "=" ++ toString kv.2)
def showB (b : Bool) : String := if b then "1" else "0"
def showK : PKind → String | .inp => "in" | .out => "out" | .inout => "inout"

def snap (g : G) : String :=
  "O " ++ " / ".intercalate (g.objs.map fun o =>
      s!"{showON o.parent} {o.name} {showB o.prim} {showD o.children} {showD o.wires} {showL o.inPorts} {showL o.outPorts} {showL o.inOutPorts}")
  ++ " # W " ++ " / ".intercalate (g.wires.map fun w =>
      s!"{w.parent} {w.name} {showB w.bidir} {showON w.source} {showL w.sources} {showL w.sinks}")
  ++ " # P " ++ " / ".intercalate (g.ports.map fun p =>
      s!"{showK p.kind} {p.parent} {p.name} {showON p.wire} {showB p.reg}")
  ++ " # I " ++ " / ".intercalate (g.ifaces.map fun i => s!"{i.parent} {i.name} {showD i.s2k} {showD i.k2s}")

def parseOp (ws : List String) : Option Op :=
  match ws with
  | ["newLogic", p, n, pr] => (optNat p).map fun p => .newLogic p n (bool01 pr)
  | ["wire", p, n, b] => p.toNat?.map fun p => .wire p n (bool01 b)
  | ["addIn", o, n, w] => do let o ← o.toNat?; let w ← w.toNat?; pure (.addIn o n w)
  | ["addOut", o, n, w] => do let o ← o.toNat?; let w ← w.toNat?; pure (.addOut o n w)
  | ["addInOut", o, n, w] => do let o ← o.toNat?; let w ← w.toNat?; pure (.addInOut o n w)
  | ["rename", w, n] => w.toNat?.map fun w => .rename w n
  | ["reparent", w, p] => do let w ← w.toNat?; let p ← p.toNat?; pure (.reparent w p)
  | ["reparentAndRename", w, p, n] => do let w ← w.toNat?; let p ← p.toNat?; pure (.reparentAndRename w p n)
  | ["newIface", p, n] => p.toNat?.map fun p => .newIface p n
  | ["ifS2K", i, n] => i.toNat?.map fun i => .ifS2K i n
  | ["ifK2S", i, n] => i.toNat?.map fun i => .ifK2S i n
  | ["addIfSource", o, n, i] => do let o ← o.toNat?; let i ← i.toNat?; pure (.addIfSource o (if n = "-" then "" else n) i)
  | ["addIfSink", o, n, i] => do let o ← o.toNat?; let i ← i.toNat?; pure (.addIfSink o (if n = "-" then "" else n) i)
  | ["disconnect", w, o] => do let w ← w.toNat?; let o ← o.toNat?; pure (.disconnect w o)
  | ["wires", p, n, k] => do let p ← p.toNat?; let k ← k.toNat?; pure (.wires p n k)
  | _ => none

def kindOf (s : String) : PKind := if s = "in" then .inp else if s = "out" then .out else .inout

def stepLine (g : G) (line : String) : G × String :=
  match words line with
  | ["reset"] => ({}, "ok")
  | "op" :: rest =>
    match parseOp rest with
    | some op => let r := step g op; (r.1, showRes r.2)
    | none => (g, "bad-op")
  | "opseq" :: rest =>
    let parts := ((" ".intercalate rest).splitOn ";").map words
    match parts.mapM parseOp with
    | some ops => let r := runUntilErr g ops; (r.1, showRes r.2)
    | none => (g, "bad-op")
  | ["rawobj", p, n, pr, ch, ws, i, o, io] =>
    match optNat p with
    | some p =>
      let ob : Obj := { parent := p, name := n, prim := bool01 pr, children := dictOf ch, wires := dictOf ws,
                        inPorts := natList i, outPorts := natList o, inOutPorts := natList io }
      ({ g with objs := g.objs ++ [ob] }, "ok")
    | none => (g, "bad-op")
  | ["rawwire", p, n, b, s, ss, sk] =>
    match p.toNat?, optNat s with
    | some p, some s =>
      let wr : Wire := { parent := p, name := n, bidir := bool01 b, source := s, sources := natList ss, sinks := natList sk }
      ({ g with wires := g.wires ++ [wr] }, "ok")
    | _, _ => (g, "bad-op")
  | ["rawport", k, p, n, w, r] =>
    match p.toNat?, optNat w with
    | some p, some w => ({ g with ports := g.ports ++ [{ kind := kindOf k, parent := p, name := n, wire := w, reg := bool01 r }] }, "ok")
    | _, _ => (g, "bad-op")
  | ["snap"] => (g, snap g)
  | ["check", o] =>
    match o.toNat? with
    | some o => (g, showRes (checkIntegrity g.objs.length g o))
    | none => (g, "bad-op")
  | ["spec", o] =>
    match o.toNat? with
    | some o => (g, showB (specRaises g o))
    | none => (g, "bad-op")
  | ["drivers", w] =>
    match w.toNat? with
    | some w => (g, showL (drivers g w))
    | none => (g, "bad-op")
  | ["source", w] =>
    match w.toNat? with
    | some w => (g, match g.wires[w]? with | some wr => showON wr.source | none => "?")
    | none => (g, "bad-op")
  | _ => (g, "bad-op")

partial def loop (h : IO.FS.Stream) (o : IO.FS.Stream) (g : G) : IO Unit := do
  let line ← h.getLine
  if line.isEmpty then return ()
  let (g', out) := stepLine g (trim line)
  o.putStrLn out
  loop h o g'

def main : IO Unit := do
  let i ← IO.getStdin
  let o ← IO.getStdout
  loop i o {}
  o.flush
