import Py4hwV.Drv.Proto
import Py4hwV.Net.Clock
/- C10 driver.   chain | <ints, 0 = no driver on that object>   ->  driver id or E (exception)
                 group | d:k,d:k,...                             ->  d=k,k;d=k   (dict order) -/
open Proto Net
def handle (line : String) : String :=
  match fields line with
  | ["chain", c] =>
    match driverOf ((parseInts c).map fun x => if x = 0 then none else some x) with
    | some d => toString d
    | none => "E"
  | ["group", g] =>
    let ps := (parsePairs g).map fun (d, k) => (d, k.toNat)
    ";".intercalate ((group ps).map fun (d, l) => s!"{d}={showNats l}")
  | _ => "bad-op"
def main : IO Unit := Proto.run handle
