import Py4hwV.Drv.Proto
import Py4hwV.Net.ClockDom
/- C10 driver.   chain | <ints, 0 = no driver on that object>   ->  driver id or E (exception)
                 group | d:k,d:k,...                             ->  d=k,k;d=k   (dict order)
   with the full ClockDriver records (token `_` = no driver on that object, else obj:name:base:wire:enable, 0 = None):
                 chainx | tok,tok,...                            ->  identity of the driver found, or E
                 tree | parent ids (-1 = root) | tok per object | queried objects   ->  identity found per query (E = raises)
                 domains | k=tok,tok;k=tok,...                   ->  E | obj/enable=k,k;obj/enable=k   (dict order, enable `_` = none) -/
open Proto Net

def optNat (s : String) : Option Nat :=
  match (trim s).toNat? with
  | some 0 => none
  | some n => some n
  | none => none

def parseDrv (tok : String) : Option Drv :=
  match (trim tok).splitOn ":" with
  | [o, nm, b, w, e] =>
    match (trim o).toNat? with
    | some ob => some { obj := ob, name := nm, base := optNat b, wire := optNat w, enable := optNat e }
    | none => none
  | _ => none

def parseChain (s : String) : List (Option Drv) :=
  if (trim s).isEmpty then [] else ((trim s).splitOn ",").map parseDrv

def showObj (o : Option Drv) : String :=
  match o with
  | some d => toString d.obj
  | none => "E"

def handle (line : String) : String :=
  match fields line with
  | ["chain", c] =>
    match driverOf ((parseInts c).map fun x => if x = 0 then none else some x) with
    | some d => toString d
    | none => "E"
  | ["group", g] =>
    let ps := (parsePairs g).map fun (d, k) => (d, k.toNat)
    ";".intercalate ((group ps).map fun (d, l) => s!"{d}={showNats l}")
  | ["chainx", c] => showObj (driverOf (parseChain c))
  | ["tree", ps, ds, qs] =>
    let parents := (parseInts ps).toArray
    let drvs := (parseChain ds).toArray
    let h : Hier := { parent := fun o => match parents[o]? with
                                         | some p => if p < 0 then none else some p.toNat
                                         | none => none,
                      drv := fun o => (drvs[o]?).join }
    ",".intercalate ((parseNats qs).map fun q => showObj (getObjectClockDriver h parents.size q))
  | ["domains", ls] =>
    let leaves := if (trim ls).isEmpty then [] else ((trim ls).splitOn ";").filterMap fun kc =>
      match kc.splitOn "=" with
      | [k, c] => (trim k).toNat?.map fun kk => (kk, parseChain c)
      | _ => none
    match domains leaves with
    | none => "E"
    | some g => ";".intercalate (g.map fun (d, l) =>
        s!"{d.obj}/{match d.enable with | some e => toString e | none => "_"}={showNats l}")
  | _ => "bad-op"
def main : IO Unit := Proto.run handle
