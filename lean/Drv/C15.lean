import Py4hwV.Drv.Proto
import Py4hwV.Net.IR
import Py4hwV.Proto.Waveform
import Py4hwV.Proto.WaveformNet
/- C15 driver.  Stateless requests (executable Waveform model):
     wf | widths | entries | ops | short      entries: `k:wire:full:short` joined by '!'  (k = w|p, wire = id or _)
                                             ops: ';'-joined, `x` = clear(), otherwise the wire values (by id) going into the edge
        -> raise                              (constructor raises)
        -> ok | uniq | key:v,v;key:… | fmt | text | clkwave | name~wave~l,l ! … | clockRaises renderRaises
     dec | ww | wave | labels(,)   -> some:v,v,…  |  none          (decodeWave)
     decclk | wave                 -> n | none                      (decodeClk)
     hex | n                       -> '{:X}'.format(n)
   Stateful netlist session (Net.Sim + generated leaves + recorder leaves), as Drv/Net.lean plus
     cons <w> <v>                  construction-time put (before begin), as in Drv/Net.lean
     recorder <k> | uniq           leaf k is a Waveform with these uniqueWires
     data <k>                      -> key:v,v;key:…                 cleardata <k>
   Sessions with Waveform OBJECTS (model `Waveform.session`: poke/clk also go through `sessStep`):
     wfobj <k> | name | entries    leaf k is the Waveform constructed from this watch list (before begin)
                                   -> ok | uniq   /  raise
     clearwf <i>                   `wvf_i.clear()`   (i = index in wfobj order)
     render <i> <0|1>              -> text | clkwave | name~wave~l,l ! …      (`wvf_i.get_wavedrom(shortNames)` NOW)
     getdict <i>                   -> key:v,v;key:…                           (`wvf_i.getDict()` NOW) -/
open Proto Net

def str (l : List Char) : String := String.ofList l

def showDict (d : Waveform.Dict) : String :=
  ";".intercalate (d.map fun p => s!"{p.1}:{showNats p.2}")

def parseEntry (s : String) : Option Waveform.Entry :=
  match s.splitOn ":" with
  | [k, w, full, short] =>
    let wid := (trim w).toNat?
    let obj : Option Waveform.Obj :=
      if k = "w" then wid.map Waveform.Obj.wire else if k = "p" then some (Waveform.Obj.port wid) else none
    obj.map fun o => { obj := o, full := full.toList, short := short.toList }
  | _ => none

def parseOps (s : String) : List Waveform.Op :=
  if (trim s).isEmpty then [] else
    ((trim s).splitOn ";").map fun o =>
      if trim o = "x" then Waveform.Op.clear
      else let vs := parseNats o; Waveform.Op.clock (fun w => vs.getD w 0)

def showRow (r : Waveform.Row) : String :=
  s!"{str r.name}~{str r.wave}~{",".intercalate (r.data.map str)}"

def handleWf (ws es ops short : String) : String :=
  let widths := parseNats ws
  let width := fun w => widths.getD w 1
  let entries := if (trim es).isEmpty then [] else ((trim es).splitOn "!").filterMap parseEntry
  match Waveform.init width "wf".toList entries with
  | none => "raise"
  | some wf0 =>
    let wf := Waveform.run wf0 (parseOps ops)
    let wd := Waveform.getWavedrom width wf (trim short = "1")
    let fm := ",".intercalate (wf.format.map fun f => match f with | .bit => "b" | .hex => "h")
    s!"ok | {showNats wf.uniq} | {showDict (Waveform.getDict wf)} | {fm} | {str wd.text} | {str wd.clk.wave} | " ++
      "!".intercalate (wd.rows.map showRow) ++
      s!" | {showBool (Waveform.clockRaises wf)}{showBool (Waveform.renderRaises wf)}"

def handleStateless (line : String) : Option String :=
  match fields line with
  | ["wf", ws, es, ops, short] => some (handleWf ws es ops short)
  | ["dec", ww, wave, labels] =>
    let ls := if labels.isEmpty then [] else (labels.splitOn ",").map fun l => (trim l).toList
    match (trim ww).toNat? with
    | some w => match Waveform.decodeWave w wave.toList ls with
                | some l => some ("some:" ++ showNats l)
                | none => some "none"
    | none => some "bad-op"
  | ["decclk", wave] =>
    match Waveform.decodeClk wave.toList with
    | some n => some (toString n)
    | none => some "none"
  | ["hex", n] => match (trim n).toNat? with
                  | some n => some (str (Waveform.hexUpper n))
                  | none => some "bad-op"
  | _ => none

abbrev St := LSt × Waveform.Dict

structure Sess where
  nl   : Netlist := { widths := [], leaves := [], order := [], drivers := [] }
  recs : List (Nat × List Nat) := []
  s    : Option (State St) := none
  cons : List (Nat × Int) := []          -- construction-time puts (Reg puts its reset value on q)
  objs : List Waveform.Rec := []         -- Waveform objects of the session (wfobj order)

def Sess.design (ss : Sess) : Design St := Waveform.withRecorders ss.nl.design ss.recs

def showOut : Option Waveform.Out → String
  | some (.wd _ _ wd) => s!"{str wd.text} | {str wd.clk.wave} | " ++ "!".intercalate (wd.rows.map showRow)
  | some (.dict _ dd) => showDict dd
  | none => "bad-op"

def Sess.op (ss : Sess) (o : Waveform.SOp) : Sess × String :=
  match ss.s with
  | some s =>
    match o with
    | .render _ _ => (ss, showOut (Waveform.sessOut ss.design Waveform.Acc.snd ss.objs s o))
    | .dict _ => (ss, showOut (Waveform.sessOut ss.design Waveform.Acc.snd ss.objs s o))
    | _ => ({ ss with s := some (Waveform.sessStep ss.design Waveform.Acc.snd ss.objs s o) }, "ok")
  | none => (ss, "bad-op")

def words (s : String) : List String := (s.splitOn " ").filter (· ≠ "")

def step (ss : Sess) (line : String) : Sess × String :=
  match handleStateless line with
  | some r => (ss, r)
  | none =>
  let fs := fields line
  match fs with
  | [one] =>
    match words one with
    | ["wires", ws] => ({ ss with nl := { ss.nl with widths := parseNats ws } }, "ok")
    | ["wires"] => ({ ss with nl := { ss.nl with widths := [] } }, "ok")
    | ["order", ks] => ({ ss with nl := { ss.nl with order := parseNats ks } }, "ok")
    | ["order"] => ({ ss with nl := { ss.nl with order := [] } }, "ok")
    | ["reset"] => ({}, "ok")
    | ["cleardrivers"] => ({ ss with nl := { ss.nl with drivers := [] } }, "ok")
    | ["begin"] =>
      ({ ss with s := some (Net.initC ss.design (Waveform.st0WithRecorders ss.nl.st0 ss.recs) ss.cons) }, "ok")
    | ["cons", w, v] =>
      match w.toNat?, v.toInt? with
      | some w, some v => ({ ss with cons := ss.cons ++ [(w, v)] }, "ok")
      | _, _ => (ss, "bad-op")
    | ["poke", w, v] =>
      match w.toNat?, v.toInt? with
      | some w, some v => ss.op (.poke w v)
      | _, _ => (ss, "bad-op")
    | ["clk", n] =>
      match n.toNat? with
      | some n => ss.op (.clk n)
      | _ => (ss, "bad-op")
    | ["clearwf", i] =>
      match i.toNat? with
      | some i => if i < ss.objs.length then ss.op (.clear i) else (ss, "bad-op")
      | _ => (ss, "bad-op")
    | ["render", i, b] =>
      match i.toNat? with
      | some i => ss.op (.render i (b = "1"))
      | _ => (ss, "bad-op")
    | ["getdict", i] =>
      match i.toNat? with
      | some i => ss.op (.dict i)
      | _ => (ss, "bad-op")
    | ["vals"] =>
      match ss.s with
      | some s => (ss, showNats ((List.range ss.nl.widths.length).map s.val))
      | _ => (ss, "bad-op")
    | ["data", k] =>
      match ss.s, k.toNat? with
      | some s, some k => (ss, showDict (s.st k).2)
      | _, _ => (ss, "bad-op")
    | ["cleardata", k] =>
      match ss.s, k.toNat? with
      | some s, some k =>
        ({ ss with s := some { s with st := upd s.st k ((s.st k).1, Waveform.clearData (s.st k).2) } }, "ok")
      | _, _ => (ss, "bad-op")
    | _ => (ss, "bad-op")
  | [hd, ks] =>
    match words hd with
    | ["driver", e] =>
      let en := if e = "_" then none else e.toNat?
      ({ ss with nl := { ss.nl with drivers := ss.nl.drivers ++ [{ enable := en, clockables := parseNats ks }] } }, "ok")
    | ["recorder", k] =>
      match k.toNat? with
      | some k => ({ ss with recs := ss.recs ++ [(k, parseNats ks)] }, "ok")
      | none => (ss, "bad-op")
    | _ => (ss, "bad-op")
  | [hd, nm, es] =>
    match words hd with
    | ["wfobj", k] =>
      let entries := if (trim es).isEmpty then [] else ((trim es).splitOn "!").filterMap parseEntry
      match k.toNat?, Waveform.init ss.nl.design.width nm.toList entries with
      | some k, some wf0 =>
        ({ ss with recs := ss.recs ++ [(k, wf0.uniq)], objs := ss.objs ++ [{ leaf := k, wf0 := wf0 }] },
         s!"ok | {showNats wf0.uniq}")
      | some _, none => (ss, "raise")
      | none, _ => (ss, "bad-op")
    | _ => (ss, "bad-op")
  | [hd, c, s0, i, il, o, ol, fl] =>
    match words hd with
    | ["leaf", k] =>
      let li : LeafInst := { kind := k, cfg := parseLists c, st0 := parseLists s0, ins := parseNats i,
                             inls := (parseLists il).map (·.map Int.toNat), outs := parseNats o,
                             outls := (parseLists ol).map (·.map Int.toNat),
                             isProp := fl.contains 'p', isClk := fl.contains 'c' }
      ({ ss with nl := { ss.nl with leaves := ss.nl.leaves ++ [li] } }, "ok")
    | _ => (ss, "bad-op")
  | _ => (ss, "bad-op")

partial def loop (h : IO.FS.Stream) (o : IO.FS.Stream) (ss : Sess) : IO Unit := do
  let line ← h.getLine
  if line.isEmpty then return ()
  let (ss', out) := step ss (trim line)
  o.putStrLn out
  loop h o ss'

def main : IO Unit := do
  let i ← IO.getStdin
  let o ← IO.getStdout
  loop i o {}
  o.flush
