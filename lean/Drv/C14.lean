import Py4hwV.Drv.Proto
import Py4hwV.Lib.Fxp
import Py4hwV.Lib.FxpSpec
import Py4hwV.Helper.FixedPoint
/- C14 driver: runs the hand-written constructor models of the fixed-point blocks (Lib/Fxp.lean, compositions of the
   C07/C08 models over the Leaf.* reference leaves bridged to the generated code), the specification (Lib/FxpSpec.lean)
   and C12's model of the helper class FixedPoint (Helper/FixedPoint.lean, `signExtend` generated from helper.py).
   request:  <Block> | params | inputs                (encoding: see Lib.Fxp.eval)
   answer:   <model outputs, or "!" when the model says constructor/first propagation raises> | <spec outputs> | <class>
   request:  helper | op(add/sub/mult) | sw,iw,fw | a,b
   answer:   <model result or "!"> -/
open Proto
def handle (line : String) : String :=
  match fields line with
  | ["helper", op, f, x] =>
    let f := parseInts f
    let x := parseInts x
    let fm : Helper.FixedPoint.Fmt := ⟨f.getD 0 0, f.getD 1 0, f.getD 2 0⟩
    let r := match op with
      | "add" => Helper.FixedPoint.add fm (x.getD 0 0) (x.getD 1 0)
      | "sub" => Helper.FixedPoint.sub fm (x.getD 0 0) (x.getD 1 0)
      | "mult" => Helper.FixedPoint.mult fm (x.getD 0 0) (x.getD 1 0)
      | _ => none
    match r with
    | some v => toString v
    | none => "!"
  | [blk, p, x] =>
    let p := parseNats p
    let x := parseNats x
    let m := match Lib.Fxp.eval blk p x with
      | some o => showNats o
      | none => "!"
    match FxpSpec.eval blk p x with
    | some (o, cls) => s!"{m} | {showNats o} | {cls}"
    | none => "bad-op"
  | _ => "bad-op"
def main : IO Unit := Proto.run handle
