import Py4hwV.Drv.Proto
import Py4hwV.Verilog.SExp
import Py4hwV.Verilog.Run
import Py4hwV.Transpile.VBegin0
import Py4hwV.Transpile.VSession
import Py4hwV.Net.Sim
/- Verilog interpreter driver (session) - copy of Drv/V.lean whose `begin` drives the top-level inputs with 0 before the first settle (Transpile/VBegin0.lean).
     design <sexp>          parse the S-expression of a whole design            -> ok | parse-error
     begin <top> <clk>      elaborate, power-up, initial blocks, settle         -> ok | err: …
     set <name> <value>     drive a top-level input                             -> ok
     settle                 re-settle the combinational logic                   -> ok
     step <n>               n clock cycles (falling then rising edge each)      -> ok
     gets <n1,n2,…>         values (decimal or x)                               -> v1,v2,…
     errors                 elaboration / run-time errors so far                -> e1 ; e2 …
     mods                   module names                                        -> m1,m2 -/
open Proto V
structure Sess where
  d : Design := []
  m : Option Sim := none

def words (s : String) : List String := (s.splitOn " ").filter (· ≠ "")

def stepS (ss : Sess) (line : String) : Sess × String :=
  if line.startsWith "design " then
    match readDesign (line.drop 7).toString with
    | some d => ({ d := d, m := none }, "ok")
    | none => (ss, "parse-error")
  else
  match words line with
  | ["begin", top, clk] =>
    let m := mkSim0 ss.d top clk
    ({ ss with m := some m }, if m.errors.isEmpty then "ok" else "err: " ++ " ; ".intercalate m.errors)
  | ["set", n, v] =>
    match ss.m, v.toNat? with
    | some m, some v => ({ ss with m := some (m.setIn n v) }, "ok")      -- V.Sim.setIn (Transpile/VSession.lean): what C02.run_history is about
    | _, _ => (ss, "bad-op")
  | ["settle"] =>
    match ss.m with
    | some m => ({ ss with m := some m.settle }, "ok")
    | none => (ss, "bad-op")
  | ["step", n] =>
    match ss.m, n.toNat? with
    | some m, some n => ({ ss with m := some (Net.iter Sim.cycle n m) }, "ok")
    | _, _ => (ss, "bad-op")
  | ["gets", ns] =>
    match ss.m with
    | some m => (ss, ",".intercalate ((ns.splitOn ",").map fun n => showBV (m.st.rd.val n)))
    | none => (ss, "bad-op")
  | ["errors"] =>
    match ss.m with
    | some m => (ss, " ; ".intercalate m.errors)
    | none => (ss, "bad-op")
  | ["mods"] => (ss, ",".intercalate (ss.d.map (·.name)))
  | _ => (ss, "bad-op")

partial def loop (h : IO.FS.Stream) (o : IO.FS.Stream) (ss : Sess) : IO Unit := do
  let line ← h.getLine
  if line.isEmpty then return ()
  let (ss', out) := stepS ss (trim line)
  o.putStrLn out
  loop h o ss'

def main : IO Unit := do
  let i ← IO.getStdin
  let o ← IO.getStdout
  loop i o {}
  o.flush
