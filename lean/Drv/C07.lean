import Py4hwV.Drv.Proto
import Py4hwV.Lib.Arith
import Py4hwV.Lib.ArithSpec
/- C07 driver: runs the hand-written constructor models (Lib/Arith.lean, over the Leaf.* reference leaves that are
   bridged to the generated code) AND the specification (Lib/ArithSpec.lean).
   request:  <Block> | params | inputs          (encoding: see ArithSpec.eval)
   answer:   <model outputs, or "!" when the model says the constructor raises> | <spec outputs> | <class> -/
open Proto
def handle (line : String) : String :=
  match fields line with
  | [blk, p, x] =>
    let p := parseNats p
    let x := parseNats x
    let m := match Lib.arithEval blk p x with
      | some o => showNats o
      | none => "!"
    match ArithSpec.eval blk p x with
    | some (o, cls) => s!"{m} | {showNats o} | {cls}"
    | none => "bad-op"
  | _ => "bad-op"
def main : IO Unit := Proto.run handle
