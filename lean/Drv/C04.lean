import Py4hwV.Drv.Proto
import Py4hwV.Net.Sched
/- C04 driver.  sort | <limit or "code"> | <initial list> | <succs: one comma list per leaf id 0..m-1, ';' separated>
                ->  sorted list | passes used      or   E | passes used -/
open Proto Sched
def handle (line : String) : String :=
  match fields line with
  | ["sort", lim, l, ss] =>
    let succsL := (parseLists ss).map (·.map Int.toNat)
    let succs := fun u => succsL.getD u []
    let l0 := parseNats l
    let limit := if lim = "code" then codeLimit l0.length else (parseNats lim).headD 1000
    match topoSort limit succs l0 with
    | some r => s!"{showNats r} | {passesUsed succs limit l0}"
    | none => s!"E | {passesUsed succs limit l0}"
  | _ => "bad-op"
def main : IO Unit := Proto.run handle
