import Py4hwV.Drv.Proto
import Py4hwV.Lib.LogicDyn
/- C08 driver: runs the functional models of Lib/Bitwise.lean, Lib/Relational.lean and the specifications of
   Lib/LogicSpec.lean.
     request   <Block> | <constructor parameters (ints)> | x <v,v,..>;<v,v,..>;…      explicit input vectors
               <Block> | <constructor parameters (ints)> | all <w,w,..>                every input combination of these widths
     answer    one item per vector, ';' separated:  E (constructor raises) | model | model#spec (they differ) | model#- (outside
               the domain of the block's _spec theorem);  model/spec = ',' separated output values -/
open Proto Lib.Dyn
def handle (line : String) : String :=
  match fields line with
  | [name, ps, xs] =>
    let P := parseInts ps
    if !(known name) then "unknown-block" else
    match (xs.splitOn " ").filter (· ≠ "") with
    | ["x"] => showAns (eval name P [])
    | ["x", vs] => ";".intercalate (((vs.splitOn ";").map parseNats).map fun X => showAns (eval name P X))
    | ["all"] => showAns (eval name P [])
    | ["all", wss] =>
      let ws := parseNats wss
      let tot := ws.foldl (· + ·) 0
      ";".intercalate ((List.range (2 ^ tot)).map fun k => showAns (eval name P (vecOf ws k)))
    | _ => "bad-op"
  | _ => "bad-op"
def main : IO Unit := Proto.run handle
