import Py4hwV.Drv.Proto
import Py4hwV.Lib.Seq
import Py4hwV.Lib.SeqNet
import Py4hwV.Lib.SeqNetM
import Py4hwV.Lib.SeqMem
/- C09 driver: runs the block models (Lib.*) and the reference machines (Lib.Spec.*) on an input history.
     run <Block> | <params> | <step>;<step>;...          (each step: comma separated ints)
   answer:  <model trace> | <spec trace> [| <extra>]     trace = steps joined by ';', a step = outputs before the edge
                                                          (inputs poked, settled) followed by outputs after the edge
   Blocks / params / step fields:
     Reg w,rv,hasE,hasR / e,r,d          TReg hasE,hasR / t,e,r          Counter w,hasReset,hasInc / reset,inc
     StepUp w,hasReset,hasInc / reset,inc,step Mod w,mod / reset,inc           Delay w,delay,hasEn,hasReset / a,en,reset
     Pipe w0,w1,.. / reset,d0,d1,..      Srb w,depth / li,ri,sl,sr       Stack w,depth / din,push,pop   (extra: within-depth flag)
     Edge dir(0 pos,1 neg,2 both) / a    Div n,qw,nspec / reset              Mem aw,dw / ra,wa,we,wd
     DualPort aw,dw / ra_a,wa_a,we_a,wd_a,ra_b,wa_b,we_b,wd_b
     AutoReset (no params) / 0
     net <Block> | <params> |          -> the netlist builder of Lib/SeqNet.lean rendered (kinds | regs | order | widths)
       TReg hasE,hasR   Counter w,hasReset,hasInc   StepUp w,sw,hasReset,hasInc   Delay w,delay,hasEn,hasReset   Edge dir   Srb w,depth   Stack w,depth   Pipe w0,w1,..   Reg w,dw,cw,rv,hasE,hasR
     netm <Block> | <params> | <live schedule>   -> builder of Lib/SeqNetM.lean rendered (leaves | regs | widths) | okb of the instance
       Mod w,n   Div n,qw,hasReset
     run RamPipe | aw,dw | ra,wa,we,wd;...      Lib.ramPipe / Lib.Spec.ramPipe (Lib/SeqMem.lean)
     nets <Name> | <params> |                   -> netlist builder with list-state leaves (Lib/SeqMem.lean) rendered
     netrun <Name> | <params> | <step>;...      -> that netlist RUN under Net.Sim (generated leaves): per step the outputs after
                                                   poke+clk(0) followed by the outputs after clk(1); step = values poked on wires 1,2,..
       RamPipe aw,dw,ww (outs 8)   DpNet aw,dw (outs 5,10,11)   AmNet aw,dw (outs 5,6) -/
open Proto Lib

def g (l : List Int) (k : Nat) : Int := l.getD k 0
def gn (l : List Int) (k : Nat) : Nat := (l.getD k 0).toNat
def gb (l : List Int) (k : Nat) : Bool := l.getD k 0 != 0

def tr {σ ι ο : Type} (m : Machine σ ι ο) (enc : ο → List Nat) (h : List ι) : String :=
  ";".intercalate ((m.trace m.init h).map fun ab => showNats (enc ab.1 ++ enc ab.2))

def both {σ τ ι ο : Type} (m : Machine σ ι ο) (sp : Machine τ ι ο) (enc : ο → List Nat) (h : List ι) : String :=
  s!"{tr m enc h} | {tr sp enc h}"

def one (x : Nat) : List Nat := [x]
def two (x : Nat × Nat) : List Nat := [x.1, x.2]

def netsOf (name : String) (p : List Int) : Option (SeqMem.KNetS × List Nat) :=
  match name with
  | "RamPipe" => some (SeqMem.ramPipeNet (gn p 0) (gn p 1) (gn p 2), [8])
  | "DpNet" => some (SeqMem.dpNet (gn p 0) (gn p 1), [5, 10, 11])
  | "AmNet" => some (SeqMem.amNet (gn p 0) (gn p 1), [5, 6])
  | _ => none

def netRun (K : SeqMem.KNetS) (outs : List Nat) (h : List (List Int)) : String :=
  let D := K.netS
  let t := SeqMem.netTrace2 D (SeqMem.pokes4 1) outs (Net.initC D.design D.st0 D.cons) (h.map fun s => s.map Int.toNat)
  ";".intercalate (t.map fun ab => showNats (ab.1 ++ ab.2))

def handle (line : String) : String :=
  match fields line with
  | [hd, ps, hs] =>
    let p := parseInts ps
    let h := parseLists hs
    match (hd.splitOn " ").filter (· ≠ "") with
    | ["run", "Reg"] =>
      let c : RegCfg := ⟨gn p 0, g p 1, gb p 2, gb p 3⟩
      both (reg c) (Spec.reg c) one (h.map fun s => ⟨gn s 0, gn s 1, gn s 2⟩)
    | ["run", "TReg"] =>
      let c : TRegCfg := ⟨gb p 0, gb p 1⟩
      both (treg c) (Spec.treg c) one (h.map fun s => ⟨gn s 0, gn s 1, gn s 2⟩)
    | ["run", "Counter"] =>
      let c : CounterCfg := ⟨gn p 0, gb p 1, gb p 2⟩
      both (counter c) (Spec.counter c) one (h.map fun s => ⟨gn s 0, gn s 1⟩)
    | ["run", "StepUp"] =>
      both (stepUpCounter (gn p 0) (gb p 1) (gb p 2)) (Spec.stepUpCounter (gn p 0) (gb p 1) (gb p 2)) one (h.map fun s => ⟨gn s 0, gn s 1, gn s 2⟩)
    | ["run", "Mod"] =>
      both (moduloCounter (gn p 0) (g p 1)) (Spec.moduloCounter (gn p 1)) two (h.map fun s => ⟨gn s 0, gn s 1⟩)
    | ["run", "Delay"] =>
      let c : DelayCfg := ⟨gn p 0, gn p 1, gb p 2, gb p 3⟩
      both (delayLine c) (Spec.delayLine c) one (h.map fun s => ⟨gn s 0, gn s 1, gn s 2⟩)
    | ["run", "Pipe"] =>
      let ws := p.map Int.toNat
      both (pipelinePhase ws) (Spec.pipelinePhase ws) id (h.map fun s => ⟨gn s 0, (s.drop 1).map Int.toNat⟩)
    | ["run", "Srb"] =>
      both (shiftRegBidir (gn p 0) (gn p 1)) (Spec.shiftRegBidir (gn p 0) (gn p 1)) two
        (h.map fun s => ⟨gn s 0, gn s 1, gn s 2, gn s 3⟩)
    | ["run", "Stack"] =>
      let hh : List StackIn := h.map fun s => ⟨gn s 0, gn s 1, gn s 2⟩
      s!"{both (stack (gn p 0) (gn p 1)) (Spec.stack (gn p 0)) one hh} | {showBool (Spec.stackWithin (gn p 1) [] hh)}"
    | ["run", "Edge"] =>
      let d : Dir := match gn p 0 with | 0 => .pos | 1 => .neg | _ => .both
      both (edgeDetector d) (Spec.edgeDetector d) one (h.map fun s => gn s 0)
    | ["run", "Div"] =>
      both (clockDivider (g p 0) (gn p 1)) (Spec.clockDivider (gn p 2)) one (h.map fun s => gn s 0)
    | ["run", "Mem"] =>
      both (syncMem (gn p 0) (gn p 1)) (Spec.syncMem (gn p 1)) one (h.map fun s => ⟨gn s 0, gn s 1, gn s 2, gn s 3⟩)
    | ["run", "DualPort"] =>
      both (dualPort (gn p 0) (gn p 1)) (Spec.dualPort (gn p 1)) two
        (h.map fun s => ⟨⟨gn s 0, gn s 1, gn s 2, gn s 3⟩, ⟨gn s 4, gn s 5, gn s 6, gn s 7⟩⟩)
    | ["run", "RamPipe"] =>
      both (ramPipe (gn p 0) (gn p 1)) (Spec.ramPipe (gn p 1)) one (h.map fun s => ⟨gn s 0, gn s 1, gn s 2, gn s 3⟩)
    | ["nets", name] => match netsOf name p with | some (K, _) => K.render | none => "bad-op"
    | ["netrun", name] => match netsOf name p with | some (K, outs) => netRun K outs h | none => "bad-op"
    | ["netm", "Mod"] =>
      let K := C09M.modNet (gn p 0) (gn p 1) ((parseInts hs).map Int.toNat)
      s!"{K.render} | {showBool K.okb}"
    | ["netm", "Div"] =>
      let K := C09M.divNet (gn p 0) (gn p 1) (gb p 2) ((parseInts hs).map Int.toNat)
      s!"{K.render} | {showBool K.okb}"
    | ["net", "TReg"] => (C09N.tregNet (gb p 0) (gb p 1)).render
    | ["net", "Counter"] => (C09N.counterNet (gn p 0) (gb p 1) (gb p 2)).render
    | ["net", "Delay"] => (C09N.delayNet ⟨gn p 0, gn p 1, gb p 2, gb p 3⟩).render
    | ["net", "Edge"] => (C09N.edgeNet (match gn p 0 with | 0 => .pos | 1 => .neg | _ => .both)).render
    | ["net", "Srb"] => (C09N.srbNet (gn p 0) (gn p 1)).render
    | ["net", "Stack"] => (C09N.stackNet (gn p 0) (gn p 1)).render
    | ["net", "Pipe"] => (C09N.pipeNet (p.map Int.toNat)).render
    | ["net", "Reg"] => (C09N.regNet (gn p 0) (gn p 1) (gn p 2) (gn p 3) (gb p 4) (gb p 5)).render
    | ["net", "StepUp"] => (C09N.stepNet (gn p 0) (gn p 1) (gb p 2) (gb p 3)).render
    | ["run", "AutoReset"] =>
      both autoReset Spec.autoReset one (h.map fun _ => ())
    | _ => "bad-op"
  | _ => "bad-op"

def main : IO Unit := Proto.run handle
