import Py4hwV.Drv.Proto
import Py4hwV.Proto.Hil
import Py4hwV.Proto.HilChain
/- C20 driver: runs the generated CMDRequest/CMDResponse steps inside the wire/environment model of Proto/Hil.lean.
   requests (fields separated by '|', lists by ';', ints by ','):
     req      | wIn,wV,wOut | valid,c ; valid,c ; ...                     open loop, one input pair per cycle
                 -> rows  cur_type,new_c,state,temp,ready,sii,sv,sio,index_in,start_resp,v_in,index_out,clk_pulse ; ...
     reqloop  | wIn,wV,wOut | T | ch,junk,junk.. ; ch,junk.. ; ...         closed loop with the model's producer
                 -> same rows | number of characters not yet accepted
     reqspec  | wIn,wV,wOut | tag,d,d,.. ; ...  | wire rows (9 ints each)  tag 0=I 1=V 2=O 3=K 4=sep(char)
                 -> wf | chars | meaning | events(observed rows) | clkIsolated(observed rows)   (the specification functions)
     resp     | wv | aux,state,temp,temp_size,valid,v | start,vin,size,ready ; ...
                 -> rows aux,state,temp,temp_size,valid,v ; ... ("raise" from the raising edge on) | transfers or "raise"
     respspec | wv,s,v  -> expected response characters
     respmon  | wv | start,vin,size,ready,x ; ...      x = character handed over at this edge, -1 = none
                 -> "ok" or "viol,<first offending cycle>" | pend length | budget | accepted starts  vin,size ; ...
                 (the specification monitor `Hil.monRun` / `Hil.accepted` on an OBSERVED session)
     chain    | wIn,wV,wOut | wv | vin,size ; vin,size ; ...  (output table) | valid,c,ready ; ...
                 -> rows  <13 request ints>,sel,aux,state,temp,temp_size,valid,v ; ... ("raise" from the raising edge on)
                    | characters handed over -/
open Proto Hil Gen

def showReqRow (sw : CMDRequest.St × ReqW) : String :=
  let s := sw.1; let w := sw.2
  showInts [s.cur_type, s.new_c, s.state, s.temp, w.ready, w.sii, w.sv, w.sio, w.index_in, w.start_resp, w.v_in,
            w.index_out, w.clk_pulse]

def cfgOf (l : List Int) : ReqCfg := ⟨(l.getD 0 0).toNat, (l.getD 1 0).toNat, (l.getD 2 0).toNat⟩

def prodOf (l : List (List Int)) : Prod :=
  l.map fun it => ((it.drop 1).map Int.toNat, (it.headD 0).toNat)

def loopRows (k : ReqCfg) : Nat → ReqLoop → List String × ReqLoop
  | 0, l => ([], l)
  | n + 1, l =>
    let l' := reqLoopStep k l
    let r := loopRows k n l'
    (showReqRow (l'.st, l'.w) :: r.1, r.2)

def cmdOf (l : List Int) : Cmd :=
  let ds := (l.drop 1).map Int.toNat
  match l.headD 4 with
  | 0 => .I ds
  | 1 => .V ds
  | 2 => .O ds
  | 3 => .K ds
  | _ => .sep (ds.headD 0)

def showEv : Ev → String
  | .selIn n => s!"selIn:{n}"
  | .store v => s!"store:{v}"
  | .selOut n => s!"selOut:{n}"
  | .startResp => "startResp"
  | .clk => "clk"

def showEvs (l : List Ev) : String := ",".intercalate (l.map showEv)

def wOf (l : List Int) : ReqW :=
  let g := fun i => (l.getD i 0).toNat
  ⟨g 0, g 1, g 2, g 3, g 4, g 5, g 6, g 7, g 8⟩

def showRespRow : Option (CMDResponse.St × RespW) → String
  | none => "raise"
  | some (s, w) => showInts [s.aux, s.state, s.temp, s.temp_size, w.valid, w.v]

def inOf (l : List Int) : RespIn :=
  ⟨(l.getD 0 0).toNat, (l.getD 1 0).toNat, (l.getD 2 0).toNat, (l.getD 3 0).toNat⟩

def obsOf (l : List Int) : Obs :=
  (inOf l, if l.getD 4 (-1) < 0 then [] else [(l.getD 4 0).toNat])

/-- index of the first observation the monitor rejects -/
def monFirstBad (wv : Nat) : Mon → List Obs → Nat → Option Nat × Mon
  | m, [], _ => (none, m)
  | m, o :: r, n =>
    match monStep wv m o with
    | none => (some n, m)
    | some m' => monFirstBad wv m' r (n + 1)

def tabOf (l : List (List Int)) : Nat → Nat × Nat := fun n =>
  let e := l.getD n []
  ((e.getD 0 0).toNat, (e.getD 1 0).toNat)

def chainRows (k : ReqCfg) (wv : Nat) (tab : Nat → Nat × Nat) : Chain → List (Nat × Nat × Nat) → List String × List Nat
  | _, [] => ([], [])
  | c, (v, ch, rd) :: r =>
    match chainStep k wv tab c v ch rd with
    | none => (["raise"], [])
    | some c' =>
      let rest := chainRows k wv tab c' r
      (s!"{showReqRow (c'.st, c'.w)},{c'.sel},{showRespRow (some (c'.rs, c'.rw))}" :: rest.1,
       xfer c.rw (c.respIn tab rd) ++ rest.2)

def handle (line : String) : String :=
  match fields line with
  | ["req", c, ins] =>
    let k := cfgOf (parseInts c)
    let is := (parseLists ins).map fun p => ((p.getD 0 0).toNat, (p.getD 1 0).toNat)
    ";".intercalate ((reqRun k CMDRequest.init ReqW.zero is).map showReqRow)
  | ["reqloop", c, t, p] =>
    let k := cfgOf (parseInts c)
    let r := loopRows k ((parseInts t).headD 0).toNat (reqInit (prodOf (parseLists p)))
    s!"{";".intercalate r.1} | {r.2.p.length}"
  | ["reqspec", c, cmds, rows] =>
    let k := cfgOf (parseInts c)
    let cs := (parseLists cmds).map cmdOf
    let wf := cs.all fun c => decide c.wf
    let chars := cs.flatMap Cmd.chars
    let mean := cs.flatMap (Cmd.meaning k)
    let ws := (parseLists rows).map wOf
    s!"{showBool wf} | {showNats chars} | {showEvs mean} | {showEvs (events ws)} | {showBool (clkIsolated ws)}"
  | ["resp", wv, st, ins] =>
    let wv := ((parseInts wv).headD 8).toNat
    let s := parseInts st
    let s0 : CMDResponse.St := ⟨s.getD 0 0, s.getD 1 0, s.getD 2 0, s.getD 3 0⟩
    let w0 : RespW := ⟨(s.getD 4 0).toNat, (s.getD 5 0).toNat⟩
    let is := (parseLists ins).map inOf
    let rows := respRows wv s0 w0 is
    let tr := match respRun wv s0 w0 is with
      | none => "raise"
      | some (_, t) => showNats t
    s!"{";".intercalate (rows.map showRespRow)} | {tr}"
  | ["respmon", wv, obs] =>
    let wv := ((parseInts wv).headD 8).toNat
    let os := (parseLists obs).map obsOf
    let r := monFirstBad wv Mon.idle os 0
    let verdict := match r.1 with
      | none => "ok"
      | some n => s!"viol,{n}"
    let acc := (accepted wv Mon.idle os).map fun (a, b) => s!"{a},{b}"
    s!"{verdict} | {r.2.pend.length} | {r.2.bud} | {";".intercalate acc}"
  | ["chain", c, wv, tab, ins] =>
    let k := cfgOf (parseInts c)
    let wv := ((parseInts wv).headD 8).toNat
    let is := (parseLists ins).map fun p => ((p.getD 0 0).toNat, (p.getD 1 0).toNat, (p.getD 2 0).toNat)
    let r := chainRows k wv (tabOf (parseLists tab)) Chain.init is
    s!"{";".intercalate r.1} | {showNats r.2}"
  | ["respspec", a] =>
    match (parseInts a).map Int.toNat with
    | [wv, s, v] => showNats (response wv s v)
    | _ => "bad-op"
  | _ => "bad-op"

def main : IO Unit := Proto.run handle
