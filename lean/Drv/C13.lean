import Py4hwV.Drv.Proto
import Py4hwV.Lib.Fp
import Py4hwV.Lib.FpSpec
/- C13 driver: runs the hand-written block models (Lib/Fp.lean, compositions of the C07/C08 constructor models over the
   Leaf.* reference leaves that are bridged to the generated code) AND the specification / oracle (Lib/FpSpec.lean).
   request:  <blk> | params | inputs | observed outputs of the REAL block
             blk ∈ cmp cmpabs i2f fx2f f2i mul add (parts raw: model only)
   answer:   <model outputs, "!" when the model says the constructor raises> | <oracle verdict on the OBSERVED outputs> | <class> -/
open Proto
def handle (line : String) : String :=
  match fields line with
  | [blk, p, x, o] =>
    let p := parseInts p
    let x := parseNats x
    let o := parseNats o
    let m := match Lib.Fp.eval blk p x with
      | some v => showNats v
      | none => "!"
    let r := FpSpec.oracle blk p x o
    s!"{m} | {r.1} | {r.2}"
  | _ => "bad-op"
def main : IO Unit := Proto.run handle
