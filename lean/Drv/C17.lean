import Py4hwV.Drv.Proto
import Py4hwV.Proto.Uart
/- C17 driver: runs the executable UART model (generated FSM steps + hand-modelled divider / edge detector).
   requests (fields '|', cycles ';', ints ','):
     link | full(0/1) | n | valid,v,ready;valid,v,ready;...   ->  obs;obs;... | accepted | delivered | softRx(2n, line) | keepsUp | bytes latched at frame ends
          obs (after each clock), full=1: s_ready,tx,pulse,uart_clk,sync_uart_clk,pre_rx_sample,rx_neg,start,sync,active,rx_sample,
                                          desync,d_valid,d_v,ser.state,ser.count,ser.txv,des.state,des.count,des.state_v,des.temp,fsm.state,txq,rxq
                                  full=0: s_ready,tx,d_valid,d_v
     div | n | r0,r1,...              ->  q,clk;q,clk;...     (ClockDivider state after each clock with reset input r_t)
     edge | dir(0 pos,1 neg,2 both) | a0,a1,...  ->  r0,r1,... (combinational output in each cycle, then clock)
     softrx | P | x0,x1,...           ->  bytes
     softrxt | P | x0,x1,...          ->  indices of the samples at which the software receiver emits a byte (mid stop bit)
     ok | accepted | delivered        ->  1/0   (Uart.deliveredOk)
     lineok | P | accepted | line     ->  1/0   (Uart.lineOk) -/
open Proto Uart

def obsFull (s : Link) : List Int :=
  let rx := s.line
  [s.tx.ser.ready, s.tx.ser.tx, s.tx.pulse, s.tx.div.clk, s.rx.div.clk, s.rx.preSample, s.rx.rxNeg rx, s.rx.start rx,
   s.rx.sync, s.rx.active, s.rx.sample, s.rx.des.desync, s.rx.des.valid, s.rx.des.v,
   s.tx.ser.st.state, s.tx.ser.st.count, s.tx.ser.st.txv, s.rx.des.st.state, s.rx.des.st.count, s.rx.des.st.state_v,
   s.rx.des.st.temp, s.rx.fsm.state, s.tx.div.q, s.rx.div.q]

def obsIO (s : Link) : List Int := [s.tx.ser.ready, s.tx.ser.tx, s.rx.des.valid, s.rx.des.v]

def toIn (l : List Int) : LIn := ⟨(l.getD 0 0).toNat, (l.getD 1 0).toNat, (l.getD 2 0).toNat⟩

def runObs (full : Bool) (n : Nat) : Link → List LIn → List (List Int) → List (List Int)
  | _, [], acc => acc.reverse
  | s, i :: is, acc => let s' := s.step n i; runObs full n s' is ((if full then obsFull s' else obsIO s') :: acc)

def divRun (n : Nat) : Div → List Nat → List (List Int) → List (List Int)
  | _, [], acc => acc.reverse
  | s, r :: rs, acc => let s' := s.step n r; divRun n s' rs ([(s'.q : Int), (s'.clk : Int)] :: acc)

def edgeRun (dir : Nat) : Nat → List Nat → List Int → List Int
  | _, [], acc => acc.reverse
  | z, a :: as, acc =>
    let r := if dir = 0 then edgePos a z else if dir = 1 then edgeNeg a z else edgeBoth a z
    edgeRun dir a as ((r : Int) :: acc)

def softTimes (P : Nat) : SoftRx → Nat → List Nat → List Nat → List Nat
  | _, _, [], acc => acc.reverse
  | s, t, x :: xs, acc =>
    let r := s.step P x
    softTimes P r.1 (t + 1) xs (match r.2 with | some _ => t :: acc | none => acc)

def handle (line : String) : String :=
  match fields line with
  | ["link", full, n, ins] =>
    let n := (parseInt? n).getD 0 |>.toNat
    let is := (parseLists ins).map toIn
    let obs := runObs (full == "1") n Link.init is []
    let acc := Link.accepted n Link.init is
    let del := Link.delivered n Link.init is
    let sr := softRx (2 * n) (Link.trace n Link.init is)
    let ev := rxEvents n Link.init is
    s!"{showLists obs} | {showNats acc} | {showNats del} | {showNats sr} | {showBool (keepsUp 2 ev)} | {showNats (ev.filterMap (·.1))}"
  | ["div", n, rs] =>
    let n := (parseInt? n).getD 0 |>.toNat
    showLists (divRun n Div.init (parseNats rs) [])
  | ["edge", d, as] =>
    showInts (edgeRun ((parseInt? d).getD 0).toNat 0 (parseNats as) [])
  | ["softrxt", p, xs] => showNats (softTimes ((parseInt? p).getD 0).toNat {} 0 (parseNats xs) [])
  | ["softrx", p, xs] => showNats (softRx ((parseInt? p).getD 0).toNat (parseNats xs))
  | ["ok", a, d] => showBool (deliveredOk (parseNats a) (parseNats d))
  | ["lineok", p, a, l] => showBool (lineOk ((parseInt? p).getD 0).toNat (parseNats a) (parseNats l))
  | _ => "bad-op"

def main : IO Unit := Proto.run handle
