import Py4hwV.Drv.Proto
import Py4hwV.Net.C05Spec
/- C05 driver.   stoprun | <edge numbers at which a block calls stop()> | <total_clks before> | <cycles asked by each clk() call>
                 ->  total_clks after each call (MODEL `C05.clkS`)
                   commit | <widths> | <values before the edge> | <prepare calls w:v,w:v,... in execution order>
                 ->  <values after settleAll, MODEL> | <len(Wire.prepared) after settleAll, MODEL> | <values after the edge, SPEC> -/
open Proto Net
def handle (line : String) : String :=
  match fields line with
  | ["commit", ws, vs, cs] =>
    let widths := parseNats ws
    let vals := parseNats vs
    let ps := (parsePairs cs).map fun (w, v) => (w.toNat, v)
    let width := fun i => widths.getD i 0
    let val := fun i => vals.getD i 0
    let m := C05.commitModel width val ps
    let idx := List.range widths.length
    s!"{showNats (idx.map m.val)}|{m.prepared.length}|{showNats (idx.map (C05.commitSpec width val ps))}"
  | ["stoprun", st, c0, cs] =>
    showNats (C05.stopRun (parseNats st) (parseNats c0).head! (parseNats cs))
  | _ => "bad-op"
def main : IO Unit := Proto.run handle
