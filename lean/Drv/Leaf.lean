import Py4hwV.Drv.Proto
import Py4hwV.Gen.Dispatch
import Py4hwV.Core.Bits
/- T1 validation driver: runs the *generated* definitions.
   request:  leaf <Class> | cfg | st | in | inl      answer:  st | outs | outls     (or "unknown")
             fn <name> | ints                         answer:  int
             put <w> | v                              answer:  Bits.put w v (hand-written reference) -/
open Proto
def handle (line : String) : String :=
  match fields line with
  | [hd, c, s, i, il] =>
    match (hd.splitOn " ").filter (· ≠ "") with
    | ["leaf", k] =>
      match Gen.dynStep k (parseLists c) (parseLists s) (parseInts i) (parsePairLists il) with
      | some (st, o, ol) => s!"{showLists st} | {showOpts o} | {showOptLists ol}"
      | none => "unknown"
    | _ => "bad-op"
  | [hd, a] =>
    match (hd.splitOn " ").filter (· ≠ ""), parseInts a with
    | ["fn", "signed_to_c2"], [v, w] => toString (Gen.IntegerHelper.signed_to_c2 v w)
    | ["fn", "c2_to_signed"], [v, w] => toString (Gen.IntegerHelper.c2_to_signed v w)
    | ["fn", "signExtend"], [v, w, nw] => toString (Gen.Helper.signExtend v w nw)
    | ["fn", "Wire.put"], [w, v] => toString (Gen.Wire.put w v)
    | ["fn", "Wire.prepare"], [w, al, v] => toString (Gen.Wire.prepare w al v)
    | ["fn", "BidirWire.put"], [w, v] => toString (Gen.BidirWire.put w v)
    | ["fn", "BidirWire.prepare"], [w, v] => toString (Gen.BidirWire.prepare w v)
    | ["put"], [w, v] => toString (Bits.put w.toNat v)
    | _, _ => "bad-op"
  | _ => "bad-op"
def main : IO Unit := Proto.run handle
