import Py4hwV.Drv.Proto
import Py4hwV.Verilog.SExp
import Py4hwV.Emit.MemSim
/- C01 memory-body driver (one request per line, fields separated by '|').
     job <kind> <aw> <dw> <ww> <wdw> | <body sexp> | <history>
         kind = sync | async | dual;  body sexp = the REAL emitted module as parsed by harness/c01_mem.py:
           (body (clk <name>|-) (ins (<name> <w>)…) (outs (<name> <w>)…) (attr 0|1) (mem <dw> <L> <R>) (regs (<name> <w>)…)
                 (posedge (<clk> <stmt>)…) (comb <stmt>…) (assigns (<port> <expr>)…) (inits (<reg> <v>)…) (minit (<i> <v>)…))
           expr = (id n) | (num v) | (rd e) | (lnot e) | (eq a b) | (add a b) | (mod a b);  lhs = (reg n) | (cell e)
           stmt = (skip) | (nba lhs e) | (ba lhs e) | (ife c t e) | (seq a b)
         history = steps joined by ';', a step = ra,wa,we,wd  (dual: the four fields of port a, then of port b)
       -> <tie> | <wf> | <parsed body: power-up row> | <parsed body trace> | <template trace> | <prediction of the theorems> |
          <generated simulator step trace> | <known flags> | <parsed body, other block order>
          tie = same | old-defect … (a body of before a repair, recognised) | differs parsed=<repr> template=<repr>;  a trace = rows joined by ';', a row = values joined by ',' (x = unknown)
     job msg <clk> <wc> <c0,c1,…> | <body sexp> | <ready schedule r;r;…>       MsgSequencer (message codes, width of `count`, clock name)
       -> same nine fields; tie = same (`C01Mem.msg_fixed_body_run`) | old-defect … | differs …;
          field 8 = hypotheses of the theorem on (msg, wc)
     exh <kind> <aw> <dw> <ww> <wdw> | <body sexp> | <len>
       -> ok <number of histories> | cex <history>      every history of that length over all in-range inputs: the parsed body
          against the masked generated simulator trace
-/
open Proto V Mem Lib

def atom? : SExp → Option String | .atom a => some a | _ => none

partial def toMExpr : SExp → Option Mem.Expr
  | .list [.atom "id", .atom n] => some (.id n)
  | .list [.atom "num", v] => do some (.num (← nat? v))
  | .list [.atom "rd", e] => do some (.rd (← toMExpr e))
  | .list [.atom "lnot", e] => do some (.lnot (← toMExpr e))
  | .list [.atom "eq", a, b] => do some (.eq (← toMExpr a) (← toMExpr b))
  | .list [.atom "add", a, b] => do some (.add (← toMExpr a) (← toMExpr b))
  | .list [.atom "mod", a, b] => do some (.mod (← toMExpr a) (← toMExpr b))
  | _ => none

def toMLhs : SExp → Option Mem.Lhs
  | .list [.atom "reg", .atom n] => some (.reg n)
  | .list [.atom "cell", e] => do some (.cell (← toMExpr e))
  | _ => none

partial def toMStmt : SExp → Option Mem.Stmt
  | .list [.atom "skip"] => some .skip
  | .list [.atom "nba", l, e] => do some (.nba (← toMLhs l) (← toMExpr e))
  | .list [.atom "ba", l, e] => do some (.ba (← toMLhs l) (← toMExpr e))
  | .list [.atom "ife", c, t, e] => do some (.ife (← toMExpr c) (← toMStmt t) (← toMStmt e))
  | .list [.atom "seq", a, b] => do some (.seq (← toMStmt a) (← toMStmt b))
  | _ => none

def toMPort : SExp → Option (String × Nat)
  | .list [.atom n, w] => do some (n, ← nat? w)
  | _ => none

def toBody : SExp → Option Body
  | .list [.atom "body", .list [.atom "clk", .atom c], .list (.atom "ins" :: is), .list (.atom "outs" :: os),
           .list [.atom "attr", att], .list [.atom "mem", dw, l, r], .list (.atom "regs" :: rs),
           .list (.atom "posedge" :: ps), .list (.atom "comb" :: cs), .list (.atom "assigns" :: as),
           .list (.atom "inits" :: ins), .list (.atom "minit" :: mis)] => do
      some { clk := if c = "-" then none else some c, ins := ← is.mapM toMPort, outs := ← os.mapM toMPort,
             attr := (← nat? att) != 0, dw := ← nat? dw, memL := ← nat? l, memR := ← nat? r, regs := ← rs.mapM toMPort,
             posedge := ← ps.mapM (fun p => match p with
                                    | .list [.atom c, s] => do some (c, ← toMStmt s)
                                    | _ => none),
             comb := ← cs.mapM toMStmt,
             assigns := ← as.mapM (fun p => match p with
                                    | .list [.atom n, e] => do some (n, ← toMExpr e)
                                    | _ => none),
             inits := ← ins.mapM toMPort,
             minit := ← mis.mapM (fun p => match p with
                                    | .list [i, v] => do some (← nat? i, ← nat? v)
                                    | _ => none) }
  | _ => none

def showVal : Val → String | some v => toString v | none => "x"
def showRow (r : List (String × Val)) : String := ",".intercalate (r.map fun p => showVal p.2)
def showTrace (t : List (List (String × Val))) : String := ";".intercalate (t.map showRow)
def clean (s : String) : String := (s.replace "|" "/").replace "\n" " "

def gn (l : List Int) (k : Nat) : Nat := (l.getD k 0).toNat
def toMemIn (s : List Int) (o : Nat) : MemIn := ⟨gn s o, gn s (o + 1), gn s (o + 2), gn s (o + 3)⟩
def toDpIn (s : List Int) : DpIn := ⟨toMemIn s 0, toMemIn s 4⟩

def template (kind : String) (p : List Nat) : Option Body :=
  match kind with
  | "sync" => some (syncBody (p.getD 0 0) (p.getD 1 0) (p.getD 2 0) (p.getD 3 0))
  | "async" => some (asyncBody (p.getD 0 0) (p.getD 1 0) (p.getD 2 0) (p.getD 3 0))
  | "dual" => some (dualRegBody (p.getD 0 0) (p.getD 1 0) (p.getD 2 0) (p.getD 3 0))
  | _ => none

def inputsOf (kind : String) (h : List (List Int)) : List Inp :=
  if kind = "dual" then h.map fun s => dualInp (toDpIn s) else h.map fun s => syncInp (toMemIn s 0)

def row1 (v : Val) : List (String × Val) := [("readdata", v)]

/-- (prediction of the theorems, generated simulator trace, known flags) -/
def predict (kind : String) (aw dw : Nat) (h : List (List Int)) : String × String × String :=
  let n := 2 ^ aw
  match kind with
  | "sync" =>
    let hh := h.map (toMemIn · 0)
    let k := syncKnown (List.replicate n false) hh
    let s := syncSim dw ⟨List.replicate n 0, 0⟩ hh
    (showTrace ((List.zipWith mask k s).map row1), ";".intercalate (s.map toString), ";".intercalate (k.map showBool))
  | "async" =>
    let hh := h.map (toMemIn · 0)
    let k := asyncKnown (List.replicate n false) hh
    let s := asyncSim dw ⟨List.replicate n 0, 0⟩ hh
    (showTrace ((List.zipWith mask k s).map row1), ";".intercalate (s.map toString), ";".intercalate (k.map showBool))
  | _ =>
    let hh := h.map toDpIn
    let k := dualKnown (List.replicate n false) hh
    let s := dualSim dw ⟨List.replicate n 0, 0, 0⟩ hh
    (showTrace ((List.zipWith mask2 k s).map fun p => [("readdata_a", p.1), ("readdata_b", p.2)]),
     ";".intercalate (s.map fun p => s!"{p.1},{p.2}"), ";".intercalate (k.map fun p => s!"{showBool p.1},{showBool p.2}"))

/-- the rows the simulator side demands (masked generated simulator trace); `none` = row not compared -/
def expected (kind : String) (aw dw : Nat) (h : List (List Int)) : List (Option (List Val)) :=
  let n := 2 ^ aw
  match kind with
  | "sync" =>
    let hh := h.map (toMemIn · 0)
    (List.zipWith mask (syncKnown (List.replicate n false) hh) (syncSim dw ⟨List.replicate n 0, 0⟩ hh)).map fun v => some [v]
  | "async" =>
    let hh := h.map (toMemIn · 0)
    (List.zipWith mask (asyncKnown (List.replicate n false) hh) (asyncSim dw ⟨List.replicate n 0, 0⟩ hh)).map fun v => some [v]
  | _ =>
    let hh := h.map toDpIn
    let rows := List.zipWith mask2 (dualKnown (List.replicate n false) hh) (dualSim dw ⟨List.replicate n 0, 0, 0⟩ hh)
    rows.map fun r => some [r.1, r.2]

def agrees (t : List (List (String × Val))) (e : List (Option (List Val))) : Bool :=
  t.length == e.length && (List.zipWith (fun r o => match o with | some vs => r.map (·.2) == vs | none => true) t e).all id

/-- all steps over in-range values -/
def allSteps (kind : String) (aw ww wdw : Nat) : List (List Int) :=
  let one : List (List Int) :=
    (List.range (2 ^ aw)).flatMap fun (ra : Nat) => (List.range (2 ^ aw)).flatMap fun (wa : Nat) =>
      (List.range (2 ^ ww)).flatMap fun (we : Nat) => (List.range (2 ^ wdw)).map fun (wd : Nat) => [Int.ofNat ra, Int.ofNat wa, Int.ofNat we, Int.ofNat wd]
  if kind = "dual" then one.flatMap fun a => one.map fun b => a ++ b else one

partial def search (kind : String) (b : Body) (aw dw : Nat) (steps : List (List Int)) (len : Nat) : Nat × Option (List (List Int)) :=
  let rec go (todo : List (List (List Int))) (cnt : Nat) : Nat × Option (List (List Int)) :=
    match todo with
    | [] => (cnt, none)
    | h :: rest =>
      if h.length == len then
        if agrees (trace b (power b) (inputsOf kind h)) (expected kind aw dw h) then go rest (cnt + 1) else (cnt, some h)
      else go ((steps.map fun s => h ++ [s]) ++ rest) cnt
  go [[]] 0

/-- `job msg <clk> <wc> <c0,c1,…> | <body sexp> | <ready schedule r;r;…>`: the MsgSequencer body -/
def handleMsg (clk : String) (wc : Nat) (msg : List Nat) (bs hs : String) : String :=
  match readS bs >>= toBody with
  | none => "parse-error"
  | some b =>
    let h := (parseLists hs).map fun s => gn s 0
    let inp := h.map msgInp
    let fixed := msgBody clk msg wc 0      -- the text of today (repo commit 0f39eeb; C01Mem.msg_fixed_body_run)
    let old := msgBody clk msg wc 1        -- the text before it (C01Mem.msg_body_counterexample)
    let tie := if b = fixed then "same" else if b = old then "old-defect sequencer body waiting on the opposite ready level (before 0f39eeb)"
               else clean s!"differs parsed={reprStr b} template={reprStr fixed}"
    let t := fixed
    let sim := msgSim msg msgInit h
    let ok := showBool (decide (0 < msg.length ∧ msg.length ≤ 2 ^ wc ∧ msg.all (· < 256)))
    let simS := ";".intercalate (sim.map fun p => s!"{p.1},{p.2}")
    s!"{tie} | {showBool b.wf} | {showRow (observe0 b)} | {showTrace (trace b (power b) inp)} | {showTrace (trace t (power t) inp)} | {showTrace (sim.map msgRow)} | {simS} | {ok} | {showTrace (trace b.swap (power b) inp)}"

def handle (line : String) : String :=
  match fields line with
  | [hd, bs, hs] =>
    match (hd.splitOn " ").filter (· ≠ "") with
    | ["job", "msg", clk, wc, codes] => handleMsg clk (wc.toNat?.getD 0) (parseNats codes) bs hs
    | cmd :: kind :: ps =>
      let p := ps.filterMap String.toNat?
      match readS bs >>= toBody, template kind p with
      | some b, some t =>
        let aw := p.getD 0 0
        let dw := p.getD 1 0
        if cmd = "job" then
          let h := parseLists hs
          let inp := inputsOf kind h
          -- the dual-port body of before repo commit a7c9173 (asynchronous reads) is recognised: a recurrence of the repaired defect
          let old := kind == "dual" && b == dualBody aw dw (p.getD 2 0) (p.getD 3 0)
          let tie := if b = t then "same" else if old then "old-defect dual-port body with asynchronous reads (before a7c9173)"
                     else clean s!"differs parsed={reprStr b} template={reprStr t}"
          let (pr, sm, kn) := predict kind aw dw h
          s!"{tie} | {showBool b.wf} | {showRow (observe0 b)} | {showTrace (trace b (power b) inp)} | {showTrace (trace t (power t) inp)} | {pr} | {sm} | {kn} | {showTrace (trace b.swap (power b) inp)}"
        else if cmd = "exh" then
          let len := (trim hs).toNat?.getD 1
          match search kind b aw dw (allSteps kind aw (p.getD 2 0) (p.getD 3 0)) len with
          | (c, none) => s!"ok {c}"
          | (_, some h) => s!"cex {showLists h}"
        else "bad-command"
      | none, _ => "parse-error"
      | _, none => "bad-kind"
    | _ => "bad-request"
  | _ => "bad-request"

def main : IO Unit := Proto.run handle
